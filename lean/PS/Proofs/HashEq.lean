/-
  C16, helper lemmas 2/2: the specification `eqS` is an equivalence, `hashS` respects it, and
  the literal model `sem` (CPython's evaluation of `==`/`hash`) computes exactly the specification.
-/
import PS.Proofs.HashEqSets
namespace PS.C16
open PS

/-! ## induction over rose trees -/

mutual
  theorem tree_ind {P : T → Prop} (h : ∀ l ks, (∀ k ∈ ks, P k) → P (.node l ks)) : (t : T) → P t
    | .node l ks => h l ks (tree_ind_list h ks)
  theorem tree_ind_list {P : T → Prop} (h : ∀ l ks, (∀ k ∈ ks, P k) → P (.node l ks)) :
      (ks : List T) → ∀ k ∈ ks, P k
    | [] => by intro k hk; cases hk
    | k :: ks => by
      intro x hx
      rcases List.mem_cons.mp hx with e | e
      · rw [e]; exact tree_ind h k
      · exact tree_ind_list h ks x e
end

theorem depth_le_depthList {t : T} {ts : List T} (h : t ∈ ts) : t.depth ≤ Tree.depthList ts := by
  induction ts with
  | nil => cases h
  | cons x xs ih =>
    simp only [Tree.depthList]
    rcases List.mem_cons.mp h with h | h
    · subst h; omega
    · have := ih h; omega

theorem depth_kid {l : Lab} {ks : List T} {k : T} {n : Nat} (hk : k ∈ ks)
    (hd : (Tree.node l ks).depth ≤ n + 1) : k.depth ≤ n := by
  have := depth_le_depthList hk
  simp only [Tree.depth] at hd
  omega

theorem depth_pos (t : T) : 1 ≤ t.depth := by
  cases t with
  | node l ks => simp only [Tree.depth]; omega

/-! ## generic list comparisons -/

def headEq {α : Type} (eq : α → α → Bool) : List α → List α → Bool
  | [], kb => kb.isEmpty
  | k :: _, kb => (match kb with | [] => false | k' :: _ => eq k k')

/-- the children part of `eqS` for a given mode -/
def kidsEq (eq : T → T → Bool) (m : Mode) (ka kb : List T) : Bool :=
  match m with
  | .leaf => true
  | .zip => listEq eq ka kb
  | .set => ka.all (fun k => kb.any (eq k)) && kb.all (fun k' => ka.any (fun k => eq k k'))
  | .head => headEq eq ka kb

theorem zipS_eq (ka kb : List T) : zipS ka kb = listEq eqS ka kb := by
  induction ka generalizing kb with
  | nil => cases kb <;> simp [zipS, listEq]
  | cons k ks ih => cases kb <;> simp [zipS, listEq, ih]

theorem subS_eq (ka kb : List T) : subS ka kb = ka.all (fun k => kb.any (eqS k)) := by
  induction ka with
  | nil => simp [subS]
  | cons k ks ih => simp [subS, ih]

theorem anyS_eq (ka : List T) (t : T) : anyS ka t = ka.any (fun k => eqS k t) := by
  induction ka with
  | nil => simp [anyS]
  | cons k ks ih => simp [anyS, ih]

theorem headS_eq (ka kb : List T) : headS ka kb = headEq eqS ka kb := by
  cases ka <;> cases kb <;> simp [headS, headEq]

theorem eqS_node (la lb : Lab) (ka kb : List T) :
    eqS (.node la ka) (.node lb kb) = (la.key == lb.key && kidsEq eqS la.key.mode ka kb) := by
  rw [eqS]
  congr 1
  unfold kidsEq
  cases la.key.mode
  · rfl
  · simp [zipS_eq]
  · simp only [subS_eq]
    congr 2
    funext k'
    exact anyS_eq ka k'
  · simp [headS_eq]

/-! ## `listEq` / `headEq` / `kidsEq` inherit reflexivity, symmetry, transitivity, congruence -/

theorem listEq_refl (eq : T → T → Bool) (l : List T) (h : ∀ k ∈ l, eq k k = true) : listEq eq l l = true := by
  induction l with
  | nil => rfl
  | cons k ks ih =>
    simp only [listEq, Bool.and_eq_true]
    exact ⟨h k (by simp), ih (fun x hx => h x (List.mem_cons_of_mem _ hx))⟩

theorem listEq_symm (eq : T → T → Bool) (l m : List T)
    (h : ∀ k ∈ l, ∀ k', eq k k' = true → eq k' k = true) (hlm : listEq eq l m = true) : listEq eq m l = true := by
  induction l generalizing m with
  | nil => cases m with
    | nil => rfl
    | cons _ _ => simp [listEq] at hlm
  | cons k ks ih => cases m with
    | nil => simp [listEq] at hlm
    | cons k' ms =>
      simp only [listEq, Bool.and_eq_true] at hlm ⊢
      exact ⟨h k (by simp) k' hlm.1, ih ms (fun x hx => h x (List.mem_cons_of_mem _ hx)) hlm.2⟩

theorem listEq_trans (eq : T → T → Bool) (l m r : List T)
    (h : ∀ k ∈ l, ∀ b c, eq k b = true → eq b c = true → eq k c = true)
    (h1 : listEq eq l m = true) (h2 : listEq eq m r = true) : listEq eq l r = true := by
  induction l generalizing m r with
  | nil => cases m with
    | nil => exact h2
    | cons _ _ => simp [listEq] at h1
  | cons k ks ih => cases m with
    | nil => simp [listEq] at h1
    | cons k' ms => cases r with
      | nil => simp [listEq] at h2
      | cons k'' rs =>
        simp only [listEq, Bool.and_eq_true] at h1 h2 ⊢
        exact ⟨h k (by simp) k' k'' h1.1 h2.1, ih ms rs (fun x hx => h x (List.mem_cons_of_mem _ hx)) h1.2 h2.2⟩

theorem listEq_map (eq : T → T → Bool) (f : T → Int) (l m : List T)
    (h : ∀ k ∈ l, ∀ b, eq k b = true → f k = f b) (hlm : listEq eq l m = true) : l.map f = m.map f := by
  induction l generalizing m with
  | nil => cases m with
    | nil => rfl
    | cons _ _ => simp [listEq] at hlm
  | cons k ks ih => cases m with
    | nil => simp [listEq] at hlm
    | cons k' ms =>
      simp only [listEq, Bool.and_eq_true] at hlm
      simp only [List.map_cons]
      rw [h k (by simp) k' hlm.1, ih ms (fun x hx => h x (List.mem_cons_of_mem _ hx)) hlm.2]

theorem listEq_congr (eq eq' : T → T → Bool) (l m : List T)
    (h : ∀ x ∈ l, ∀ y ∈ m, eq x y = eq' x y) : listEq eq l m = listEq eq' l m := by
  induction l generalizing m with
  | nil => cases m <;> rfl
  | cons k ks ih => cases m with
    | nil => rfl
    | cons k' ms =>
      simp only [listEq]
      rw [h k (by simp) k' (by simp), ih ms (fun x hx y hy => h x (List.mem_cons_of_mem _ hx) y (List.mem_cons_of_mem _ hy))]

theorem listEq_comm (eq : T → T → Bool) (l m : List T)
    (h : ∀ x ∈ l, ∀ y ∈ m, eq x y = eq y x) : listEq eq l m = listEq eq m l := by
  induction l generalizing m with
  | nil => cases m <;> rfl
  | cons k ks ih => cases m with
    | nil => rfl
    | cons k' ms =>
      simp only [listEq]
      rw [h k (by simp) k' (by simp), ih ms (fun x hx y hy => h x (List.mem_cons_of_mem _ hx) y (List.mem_cons_of_mem _ hy))]

theorem listEq_length (eq : T → T → Bool) (l m : List T) (h : listEq eq l m = true) : l.length = m.length := by
  induction l generalizing m with
  | nil => cases m with
    | nil => rfl
    | cons _ _ => simp [listEq] at h
  | cons k ks ih => cases m with
    | nil => simp [listEq] at h
    | cons k' ms =>
      simp only [listEq, Bool.and_eq_true] at h
      simp [ih ms h.2]

theorem kidsEq_refl (eq : T → T → Bool) (m : Mode) (ka : List T) (h : ∀ k ∈ ka, eq k k = true) :
    kidsEq eq m ka ka = true := by
  cases m with
  | leaf => rfl
  | zip => exact listEq_refl eq ka h
  | set =>
    simp only [kidsEq, Bool.and_eq_true, List.all_eq_true, List.any_eq_true]
    exact ⟨fun k hk => ⟨k, hk, h k hk⟩, fun k hk => ⟨k, hk, h k hk⟩⟩
  | head => cases ka with
    | nil => rfl
    | cons k _ => exact h k (by simp)

theorem kidsEq_symm (eq : T → T → Bool) (m : Mode) (ka kb : List T)
    (h : ∀ k ∈ ka, ∀ k', eq k k' = true → eq k' k = true) (hab : kidsEq eq m ka kb = true) :
    kidsEq eq m kb ka = true := by
  cases m with
  | leaf => rfl
  | zip => exact listEq_symm eq ka kb h hab
  | set =>
    simp only [kidsEq, Bool.and_eq_true, List.all_eq_true, List.any_eq_true] at hab ⊢
    constructor
    · intro k' hk'
      obtain ⟨k, hk, e⟩ := hab.2 k' hk'
      exact ⟨k, hk, h k hk k' e⟩
    · intro k hk
      obtain ⟨k', hk', e⟩ := hab.1 k hk
      exact ⟨k', hk', h k hk k' e⟩
  | head => cases ka with
    | nil => cases kb with
      | nil => rfl
      | cons _ _ => simp [kidsEq, headEq] at hab
    | cons k _ => cases kb with
      | nil => simp [kidsEq, headEq] at hab
      | cons k' _ => exact h k (by simp) k' hab

theorem kidsEq_trans (eq : T → T → Bool) (m : Mode) (ka kb kc : List T)
    (h : ∀ k ∈ ka, ∀ b c, eq k b = true → eq b c = true → eq k c = true)
    (h1 : kidsEq eq m ka kb = true) (h2 : kidsEq eq m kb kc = true) : kidsEq eq m ka kc = true := by
  cases m with
  | leaf => rfl
  | zip => exact listEq_trans eq ka kb kc h h1 h2
  | set =>
    simp only [kidsEq, Bool.and_eq_true, List.all_eq_true, List.any_eq_true] at h1 h2 ⊢
    constructor
    · intro k hk
      obtain ⟨k', hk', e⟩ := h1.1 k hk
      obtain ⟨k'', hk'', e'⟩ := h2.1 k' hk'
      exact ⟨k'', hk'', h k hk k' k'' e e'⟩
    · intro k'' hk''
      obtain ⟨k', hk', e'⟩ := h2.2 k'' hk''
      obtain ⟨k, hk, e⟩ := h1.2 k' hk'
      exact ⟨k, hk, h k hk k' k'' e e'⟩
  | head => cases ka with
    | nil => cases kb with
      | nil => exact h2
      | cons _ _ => simp [kidsEq, headEq] at h1
    | cons k _ => cases kb with
      | nil => simp [kidsEq, headEq] at h1
      | cons k' _ => cases kc with
        | nil => simp [kidsEq, headEq] at h2
        | cons k'' _ => exact h k (by simp) k' k'' h1 h2

/-! ## the specification is an equivalence relation -/

theorem eqS_refl (a : T) : eqS a a = true := by
  induction a using tree_ind with
  | h l ks ih =>
    rw [eqS_node]
    simp only [beq_self_eq_true, Bool.true_and]
    exact kidsEq_refl eqS _ ks ih

theorem eqS_symm (a b : T) : eqS a b = true → eqS b a = true := by
  induction a using tree_ind generalizing b with
  | h l ks ih =>
    cases b with
    | node lb kb =>
      rw [eqS_node, eqS_node]
      simp only [Bool.and_eq_true, beq_iff_eq]
      intro ⟨hk, hkids⟩
      refine ⟨hk.symm, ?_⟩
      rw [← hk]
      exact kidsEq_symm eqS _ ks kb (fun k hk k' => ih k hk k') hkids

theorem eqS_trans (a b c : T) : eqS a b = true → eqS b c = true → eqS a c = true := by
  induction a using tree_ind generalizing b c with
  | h l ks ih =>
    cases b with
    | node lb kb =>
      cases c with
      | node lc kc =>
        rw [eqS_node, eqS_node, eqS_node]
        simp only [Bool.and_eq_true, beq_iff_eq]
        intro ⟨hk1, hkids1⟩ ⟨hk2, hkids2⟩
        refine ⟨hk1.trans hk2, ?_⟩
        rw [← hk1] at hkids2
        exact kidsEq_trans eqS _ ks kb kc (fun k hk b c => ih k hk b c) hkids1 hkids2

theorem eqS_isEquiv : IsEquiv eqS := ⟨eqS_refl, eqS_symm, eqS_trans⟩

theorem eqS_comm (a b : T) : eqS a b = eqS b a := by
  cases h : eqS a b with
  | true => exact (eqS_symm a b h).symm
  | false =>
    cases h' : eqS b a with
    | false => rfl
    | true => rw [eqS_symm b a h'] at h; cases h

/-! ## the specification hash respects the specification equality -/

theorem hashListS_eq (h : HashFns) (ks : List T) : hashListS h ks = ks.map (hashS h) := by
  induction ks with
  | nil => rfl
  | cons k ks ih => simp [hashListS, ih]

theorem zip_map_self {α β : Type} (f : α → β) (l : List α) : l.zip (l.map f) = l.map (fun x => (x, f x)) := by
  induction l with
  | nil => rfl
  | cons x xs ih => simp [ih]

theorem hashS_node (h : HashFns) (l : Lab) (ks : List T) :
    hashS h (.node l ks) = nodeHash h l.key (ks.map (hashS h))
      (if l.key = .tsum then h.fset ((mkSet eqS ks).map (hashS h)) else 0) := by
  rw [hashS, hashListS_eq, zip_map_self, mkSet_pairs eqS (hashS h) ks]

theorem nodeHash_congr (h : HashFns) (k : LKey) (khs khs' : List Int) (fs fs' : Int)
    (hz : k.mode = .zip → khs = khs') (hh : k.mode = .head → khs.head? = khs'.head?)
    (hs : k = .tsum → fs = fs') : nodeHash h k khs fs = nodeHash h k khs' fs' := by
  cases k <;> simp only [LKey.mode, nodeHash, reduceCtorEq, forall_const, false_implies] at hz hh hs ⊢
  all_goals first
    | rfl
    | (subst hz; rfl)
    | (subst hs; rfl)
    | skip
  -- plam
  cases khs <;> cases khs' <;> simp_all

theorem headEq_head (eq : T → T → Bool) (f : T → Int) (l m : List T)
    (h : ∀ k ∈ l, ∀ b, eq k b = true → f k = f b) (hlm : headEq eq l m = true) :
    (l.map f).head? = (m.map f).head? := by
  cases l with
  | nil => cases m with
    | nil => rfl
    | cons _ _ => simp [headEq] at hlm
  | cons k _ => cases m with
    | nil => simp [headEq] at hlm
    | cons k' _ => simp [h k (by simp) k' hlm]

theorem eqS_hashS (h : HashFns) (hl : h.Lawful) (a b : T) : eqS a b = true → hashS h a = hashS h b := by
  induction a using tree_ind generalizing b with
  | h l ks ih =>
    cases b with
    | node lb kb =>
      rw [eqS_node, hashS_node, hashS_node]
      simp only [Bool.and_eq_true, beq_iff_eq]
      intro ⟨hk, hkids⟩
      rw [← hk]
      apply nodeHash_congr
      · intro hm
        rw [hm] at hkids
        exact listEq_map eqS (hashS h) ks kb (fun k hk b => ih k hk b) hkids
      · intro hm
        rw [hm] at hkids
        exact headEq_head eqS (hashS h) ks kb (fun k hk b => ih k hk b) hkids
      · intro ht
        rw [ht] at hkids
        simp only [LKey.mode, kidsEq, Bool.and_eq_true, List.all_eq_true, List.any_eq_true] at hkids
        rw [if_pos ht, if_pos ht]
        apply hl
        exact perm_mkSet_map eqS eqS_isEquiv (hashS h) ks kb hkids.1
          (fun y hy => hkids.2 y hy) (fun x hx y => ih x hx y)

/-! ## the literal model computes the specification -/

/-- with hashes consistent, the hash pre-test of set lookups is redundant -/
theorem keyEq_spec (h : HashFns) (hl : h.Lawful) (x y : T) : keyEq eqS (hashS h) x y = eqS x y := by
  unfold keyEq
  cases he : eqS x y with
  | false => simp
  | true => simp [eqS_hashS h hl x y he]

section step
variable (h : HashFns) (hl : h.Lawful) (E : T → T → Bool) (H : T → Int) (n : Nat)
  (hE : ∀ x y : T, x.depth ≤ n → y.depth ≤ n → E x y = eqS x y)
  (hH : ∀ x : T, x.depth ≤ n → H x = hashS h x)
include hl hE hH

theorem keyEq_agree (x y : T) (hx : x.depth ≤ n) (hy : y.depth ≤ n) : keyEq E H x y = eqS x y := by
  rw [← keyEq_spec h hl x y]
  unfold keyEq
  rw [hE x y hx hy, hH x hx, hH y hy]

theorem ctorHash_spec (a : T) (ha : a.depth ≤ n + 1) : ctorHash h E H a = hashS h a := by
  cases a with
  | node l ks =>
    have hk : ∀ k ∈ ks, k.depth ≤ n := fun k hk => depth_kid hk ha
    rw [ctorHash, hashS_node]
    have e1 : ks.map H = ks.map (hashS h) := List.map_congr_left (fun k hk' => hH k (hk k hk'))
    have e2 : mkSet (keyEq E H) ks = mkSet eqS ks :=
      mkSet_congr _ _ (fun x => x.depth ≤ n) (fun x y hx hy => keyEq_agree h hl E H n hE hH x y hx hy) ks hk
    have e3 : (mkSet eqS ks).map H = (mkSet eqS ks).map (hashS h) :=
      List.map_congr_left (fun k hk' => hH k (hk k (mem_mkSet eqS ks k hk')))
    rw [e1, e2, e3]

theorem symDiff_spec (ko ks : List T) (hko : ∀ k ∈ ko, k.depth ≤ n) (hks : ∀ k ∈ ks, k.depth ≤ n) :
    symDiffEmpty (keyEq E H) ko ks = kidsEq eqS .set ks ko := by
  rw [symDiffEmpty_congr _ eqS (fun x => x.depth ≤ n)
        (fun x y hx hy => keyEq_agree h hl E H n hE hH x y hx hy) ko ks hko hks]
  rw [Bool.eq_iff_iff, symDiffEmpty_iff eqS eqS_isEquiv]
  simp only [kidsEq, Bool.and_eq_true, List.all_eq_true, List.any_eq_true]
  constructor
  · intro ⟨h1, h2⟩; exact ⟨h2, h1⟩
  · intro ⟨h1, h2⟩; exact ⟨h2, h1⟩

omit hl hH in
theorem listEq_spec (ka kb : List T) (hka : ∀ k ∈ ka, k.depth ≤ n) (hkb : ∀ k ∈ kb, k.depth ≤ n) :
    listEq E ka kb = listEq eqS ka kb :=
  listEq_congr E eqS ka kb (fun x hx y hy => hE x y (hka x hx) (hkb y hy))

end step

section step2
variable (h : HashFns) (hl : h.Lawful) (E : T → T → Bool) (H : T → Int) (n : Nat)
  (hE : ∀ x y : T, x.depth ≤ n → y.depth ≤ n → E x y = eqS x y)
  (hH : ∀ x : T, x.depth ≤ n → H x = hashS h x)
include hl hE hH

theorem classEq_spec (ls lo : Lab) (ks ko : List T)
    (hks : ∀ k ∈ ks, k.depth ≤ n) (hko : ∀ k ∈ ko, k.depth ≤ n) (hex : lo.properSub ls = false) :
    classEq E H (.node ls ks) (.node lo ko) = eqS (.node ls ks) (.node lo ko) := by
  rw [eqS_node]
  have hsd := symDiff_spec h hl E H n hE hH ko ks hko hks
  have hl1 := listEq_spec E n hE ks ko hks hko
  have hl2 := listEq_spec E n hE ko ks hko hks
  have hcomm : listEq eqS ko ks = listEq eqS ks ko := listEq_comm eqS ko ks (fun x _ y _ => eqS_comm x y)
  cases ls with
  | tprim a =>
    cases lo <;> simp only [classEq] <;> rw [Bool.eq_iff_iff] <;> simp [Lab.key, LKey.mode, kidsEq]
    exact eq_comm
  | tpoly a =>
    cases lo <;> simp only [classEq] <;> rw [Bool.eq_iff_iff] <;>
      simp [Lab.key, LKey.mode, kidsEq, Lab.isPoly, Lab.properSub] at hex ⊢
    exact eq_comm
  | tfpoly a =>
    cases lo <;> simp only [classEq] <;> rw [Bool.eq_iff_iff] <;> simp [Lab.key, LKey.mode, hsd]
    intro _; exact eq_comm
  | tsum =>
    cases lo <;> simp only [classEq] <;> rw [Bool.eq_iff_iff] <;> simp [Lab.key, LKey.mode, hsd]
  | tarrow =>
    cases lo <;> simp only [classEq] <;> rw [Bool.eq_iff_iff] <;> simp [Lab.key, LKey.mode, kidsEq, hl2, hcomm]
  | tgeneric a i =>
    cases lo <;> simp only [classEq] <;> rw [Bool.eq_iff_iff] <;> simp [Lab.key, LKey.mode, kidsEq, hl1]
    intro hle
    have := listEq_length eqS ks ko hle
    constructor
    · intro ⟨e, _⟩; exact e.symm
    · intro e; exact ⟨e.symm, this⟩
  | unknown =>
    cases lo <;> simp only [classEq] <;> rw [Bool.eq_iff_iff] <;> simp [Lab.key, LKey.mode, kidsEq]
  | pprim a =>
    cases lo <;> simp only [classEq] <;> rw [Bool.eq_iff_iff] <;> simp [Lab.key, LKey.mode, kidsEq, hl1]
  | pvar i =>
    cases lo <;> simp only [classEq] <;> rw [Bool.eq_iff_iff] <;> simp [Lab.key, LKey.mode, kidsEq]
  | pconst hv v r =>
    cases lo <;> simp only [classEq] <;> rw [Bool.eq_iff_iff] <;> simp [Lab.key, LKey.mode, kidsEq, hl1, valEq]
    constructor
    · intro ⟨⟨⟨a, b⟩, c⟩, d⟩; exact ⟨⟨b, c, d⟩, a⟩
    · intro ⟨⟨b, c, d⟩, a⟩; exact ⟨⟨⟨a, b⟩, c⟩, d⟩
  | pfun t =>
    cases lo <;> simp only [classEq] <;> rw [Bool.eq_iff_iff] <;> simp [Lab.key, LKey.mode, kidsEq]
    cases ks with
    | nil => cases ko <;> simp [listEq]
    | cons f as =>
      cases ko with
      | nil => simp [listEq]
      | cons f' as' =>
        have e1 : E f f' = eqS f f' := hE f f' (hks f (by simp)) (hko f' (by simp))
        have e2 : listEq E as as' = listEq eqS as as' :=
          listEq_spec E n hE as as' (fun k hk => hks k (List.mem_cons_of_mem _ hk)) (fun k hk => hko k (List.mem_cons_of_mem _ hk))
        simp only [listEq, e1, e2, Bool.and_eq_true, beq_iff_eq]
        constructor
        · intro ⟨⟨a, _⟩, b, c⟩; exact ⟨b, a, c⟩
        · intro ⟨b, a, c⟩; exact ⟨⟨a, listEq_length eqS as as' c⟩, b, c⟩
  | plam =>
    cases lo <;> simp only [classEq] <;> rw [Bool.eq_iff_iff] <;> simp [Lab.key, LKey.mode, kidsEq]
    cases ks with
    | nil => cases ko <;> simp [headEq]
    | cons b _ =>
      cases ko with
      | nil => simp [headEq]
      | cons b' _ => simp [headEq, hE b b' (hks b (by simp)) (hko b' (by simp))]

end step2

section step3
variable (h : HashFns) (hl : h.Lawful) (E : T → T → Bool) (H : T → Int) (n : Nat)
  (hE : ∀ x y : T, x.depth ≤ n → y.depth ≤ n → E x y = eqS x y)
  (hH : ∀ x : T, x.depth ≤ n → H x = hashS h x)
include hl hE hH

theorem richEq_spec (a b : T) (ha : a.depth ≤ n + 1) (hb : b.depth ≤ n + 1) :
    richEq E H a b = eqS a b := by
  cases a with
  | node la ka =>
    cases b with
    | node lb kb =>
      have hka : ∀ k ∈ ka, k.depth ≤ n := fun k hk => depth_kid hk ha
      have hkb : ∀ k ∈ kb, k.depth ≤ n := fun k hk => depth_kid hk hb
      unfold richEq
      by_cases hp : (Tree.node lb kb).label.properSub (Tree.node la ka).label = true
      · have hp' : lb.properSub la = true := hp
        rw [if_pos hp, classEq_spec h hl E H n hE hH lb la kb ka hkb hka ?_, eqS_comm]
        cases la <;> cases lb <;> simp [Lab.properSub] at hp' ⊢
      · have hp' : ¬ lb.properSub la = true := hp
        rw [if_neg hp]
        exact classEq_spec h hl E H n hE hH la lb ka kb hka hkb (by simpa using hp')

end step3

/-- for every amount of fuel, on objects no deeper than the fuel, CPython's `==` and `hash`
    (the literal model) are the specification -/
theorem sem_spec (h : HashFns) (hl : h.Lawful) (n : Nat) :
    (∀ a b : T, a.depth ≤ n → b.depth ≤ n → (sem h n).1 a b = eqS a b) ∧
    (∀ a : T, a.depth ≤ n → (sem h n).2 a = hashS h a) := by
  induction n with
  | zero =>
    constructor
    · intro a b ha; have := depth_pos a; omega
    · intro a ha; have := depth_pos a; omega
  | succ n ih =>
    constructor
    · intro a b ha hb
      exact richEq_spec h hl _ _ n ih.1 ih.2 a b ha hb
    · intro a ha
      exact ctorHash_spec h hl _ _ n ih.1 ih.2 a ha

theorem pyEq_eq_spec (h : HashFns) (hl : h.Lawful) (a b : T) : pyEq h a b = eqS a b :=
  (sem_spec h hl _).1 a b (Nat.le_max_left _ _) (Nat.le_max_right _ _)

theorem pyHash_eq_spec (h : HashFns) (hl : h.Lawful) (a : T) : pyHash h a = hashS h a :=
  (sem_spec h hl _).2 a (Nat.le_refl _)

/-! ## objects with cached hashes: constructors, reducers -/

mutual
  theorem erase_build (h : HashFns) : (t : T) → erase (build h t) = t
    | .node l ks => by
      rw [build, construct, erase, eraseList_buildList h ks]
  theorem eraseList_buildList (h : HashFns) : (ks : List T) → eraseList (buildList h ks) = ks
    | [] => rfl
    | k :: ks => by rw [buildList, eraseList, erase_build h k, eraseList_buildList h ks]
end

mutual
  theorem pickle_eq_erase : (o : Obj) → pickle o = erase o
    | .node l ks => by rw [pickle, erase, pickleList_eq_eraseList ks]
  theorem pickleList_eq_eraseList : (ks : List Obj) → pickleList ks = eraseList ks
    | [] => rfl
    | k :: ks => by rw [pickleList, eraseList, pickle_eq_erase k, pickleList_eq_eraseList ks]
end

theorem relabel_wf (l : Lab) (hw : l.wf = true) : relabel l = l := by
  cases l <;> simp [relabel, constLab, Lab.wf] at hw ⊢
  rename_i hv v r
  cases hv <;> cases hn : v.isNone <;> simp_all

mutual
  theorem unpickle_eq_build (h : HashFns) : (t : T) → wf t = true → unpickle h t = build h t
    | .node l ks => by
      intro hw
      simp only [wf, Bool.and_eq_true] at hw
      rw [unpickle, build, relabel_wf l hw.1, unpickleList_eq_buildList h ks hw.2]
  theorem unpickleList_eq_buildList (h : HashFns) : (ks : List T) → wfList ks = true →
      unpickleList h ks = buildList h ks
    | [] => fun _ => rfl
    | k :: ks => by
      intro hw
      simp only [wfList, Bool.and_eq_true] at hw
      rw [unpickleList, buildList, unpickle_eq_build h k hw.1, unpickleList_eq_buildList h ks hw.2]
end

theorem buildList_eq_map (h : HashFns) (ks : List T) : buildList h ks = ks.map (build h) := by
  induction ks with
  | nil => rfl
  | cons k ks ih => simp [buildList, ih]

/-- the hash a constructor caches is the hash of the object it builds -/
theorem cached_build (h : HashFns) (hl : h.Lawful) (t : T) : cached (build h t) = pyHash h t := by
  rw [pyHash_eq_spec h hl]
  induction t using tree_ind with
  | h l ks ih =>
    rw [build, construct, cached, hashS_node, buildList_eq_map]
    have e0 : (ks.map (build h)).map (fun k => (erase k, cached k)) = ks.map (fun k => (k, hashS h k)) := by
      rw [List.map_map]
      apply List.map_congr_left
      intro k hk
      simp only [Function.comp, erase_build, ih k hk]
    simp only [e0, List.map_map]
    have e1 : ((fun x : T × Int => x.2) ∘ fun k => (k, hashS h k)) = hashS h := rfl
    rw [e1]
    congr 1
    by_cases ht : l.key = .tsum
    · rw [if_pos ht, if_pos ht]
      congr 1
      have e2 : mkSet (keyEq (fun (a b : T × Int) => pyEq h a.1 b.1) (·.2)) (ks.map (fun k => (k, hashS h k)))
          = mkSet (fun (e t : T × Int) => eqS e.1 t.1) (ks.map (fun k => (k, hashS h k))) := by
        apply mkSet_congr _ _ (fun p : T × Int => p.2 = hashS h p.1)
        · intro x y hx hy
          simp only [keyEq, pyEq_eq_spec h hl, hx, hy]
          exact keyEq_spec h hl x.1 y.1
        · intro x hx
          obtain ⟨k, _, rfl⟩ := List.mem_map.mp hx
          rfl
      rw [e2]
      have := mkSet_pairs eqS (hashS h) ks
      rw [← this]
    · rw [if_neg ht, if_neg ht]
