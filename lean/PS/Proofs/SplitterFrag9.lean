/- C08, fragment grammar, part 9: the probability of a derivation of the fragment is its original
   probability divided by the mass of the group. -/
import PS.Proofs.SplitterFrag8
namespace PS.Sp
open PS PS.G

variable {U : Type} [DecidableEq U]

/-! ### weights in the copied part -/

theorem copy_prob {pg : PUG U} {group : List (Node U)} {st : FragSt U} {L : List (Lay U)}
    (hf : Facts pg group (fragOf pg st).g st.probs L) (hn : tagsNorm pg = true) :
    ∀ (w' : List (Step (U × Nat))) (c : List (UNT (U × Nat))),
    (∀ Y ∈ c, Cp pg (fragOf pg st).g st.probs L Y) → run (fragOf pg st).g c w' = some [] →
      stepsProb (fragOf pg st) w' = stepsProb pg (w'.map erStep)
  | [], _, _, _ => rfl
  | s :: w', [], _, h => by simp [run] at h
  | s :: w', X :: c, hc, h => by
    obtain ⟨Q, a', w'', heq, hQa, hrun⟩ := run_cons_complete (fragOf pg st).g _ _ _ h
    simp only [List.cons.injEq] at heq
    obtain ⟨rfl, rfl⟩ := heq
    rw [alts_copy (hc X (by simp)).1] at hQa
    obtain ⟨⟨P, a⟩, ha, hpa⟩ := List.mem_map.mp hQa
    simp only [Prod.mk.injEq] at hpa
    obtain ⟨rfl, rfl⟩ := hpa
    have ih := copy_prob hf hn w' (a.map free ++ c) (copy_next hf hc ha) hrun
    simp only [List.map_cons, stepsProb, erStep, map_er_free, ih]
    rw [tagOf_copy hn (hc X (by simp)).1.2]

theorem stepsProb_chain (pg : PUG U) (st : FragSt U) : ∀ (t : List (Step (U × Nat))),
    (∀ s ∈ t, AList.lookup s.1 st.probs = some [(s.2.1, [(s.2.2, 1)])]) → stepsProb (fragOf pg st) t = 1
  | [], _ => rfl
  | s :: t, h => by
    simp only [stepsProb]
    rw [tagOf_chain pg (h s (by simp)), stepsProb_chain pg st t (fun s' hs' => h s' (List.mem_cons_of_mem _ hs'))]
    exact Rat.mul_one 1

theorem tagOf_frag' (pg : PUG U) (st : FragSt U) (Y : UNT (U × Nat)) (P : Sym) (a : List (UNT (U × Nat))) :
    tagOf (fragOf pg st) Y P a =
      rawTag ((AList.lookup Y st.probs).getD []) P a / rowSum ((AList.lookup Y st.probs).getD []) := by
  rw [tagOf_frag]
  cases AList.lookup Y st.probs with
  | none => simp only [Option.getD_none, rawTag, AList.lookup]; grind
  | some row => rfl

theorem startTag_frag (pg : PUG U) (st : FragSt U) (X : UNT (U × Nat)) :
    (AList.lookup X (fragOf pg st).startTags).getD 0 =
      (AList.lookup X st.startProbs).getD 0 / (st.startProbs.map (·.2)).sum := by
  have : (fragOf pg st).startTags =
      st.startProbs.map (fun e => (e.1, (fun x : Rat => x / (st.startProbs.map (·.2)).sum) e.2)) := rfl
  rw [this, lookup_map_val (fun x : Rat => x / (st.startProbs.map (·.2)).sum)]
  cases AList.lookup X st.startProbs with
  | none => simp only [Option.map_none, Option.getD_none]; grind
  | some x => rfl

/-! ### the first rules of the nodes that share a start copy have different keys -/

/-- a path whose first renamed rule has no arguments is that single rule -/
theorem single_step {lo hi : Nat} {start : UNT U} {sp X : UNT (U × Nat)} {steps : List (Step U)} {P : Sym}
    {t : List (Step (U × Nat))} {pend : List (UNT U × UNT (U × Nat))}
    (hp : renPath lo [(start, sp)] steps = some (hi, (X, P, []) :: t, pend)) : steps = [(start, P, [])] := by
  cases steps with
  | nil => simp [renPath] at hp
  | cons st0 w =>
    obtain ⟨S, Q, v⟩ := st0
    obtain ⟨Sp, rest, r0, e1, e2, e3⟩ := renPath_cons_inv hp
    simp only [List.cons.injEq, Prod.mk.injEq, List.nil_eq] at e1
    simp only [Prod.mk.injEq, List.cons.injEq] at e3
    obtain ⟨⟨hS, _⟩, hrest⟩ := e1
    obtain ⟨_, ⟨⟨_, hQ, hm⟩, _⟩, _⟩ := e3
    have hv : v = [] := by
      have := freshList_length v lo
      rw [← hm] at this
      exact List.eq_nil_of_length_eq_zero this.symm
    subst hv hrest
    cases w with
    | nil => rw [hS, hQ]
    | cons st1 w' => simp [renPath] at e2

theorem distinct_heads {L : List (Lay U)} {X : UNT (U × Nat)}
    (hp : L.Pairwise (fun a b => ∀ ha hb, a.steps'.head? = some ha → b.steps'.head? = some hb →
      a.sp = X → b.sp = X → ¬ (ha.2.1 = hb.2.1 ∧ ha.2.2 = hb.2.2))) : DistinctKeys (heads L X) := by
  induction L with
  | nil => simp [heads, DistinctKeys]
  | cons a L ih =>
    obtain ⟨p1, p2⟩ := List.pairwise_cons.mp hp
    have ih' := ih p2
    by_cases hsp : a.sp = X
    · cases hh : a.steps'.head? with
      | none =>
        have : heads (a :: L) X = heads L X := by simp [heads, hsp, hh]
        rw [this]; exact ih'
      | some ha =>
        have : heads (a :: L) X = (ha.2.1, ha.2.2, a.n.prob) :: heads L X := by
          simp [heads, hsp, hh]
        rw [this]
        refine List.pairwise_cons.mpr ⟨?_, ih'⟩
        intro h' hh'
        obtain ⟨b, hb, hbsp, s0, hs0, rfl⟩ := mem_heads.mp hh'
        exact p1 b hb ha s0 hh hs0 hsp hbsp
    · have : heads (a :: L) X = heads L X := by simp [heads, hsp]
      rw [this]; exact ih'

theorem goInv_distinct {pg : PUG U} {stG : FragSt U} {L : List (Lay U)} (hi : GoInv pg stG L)
    (hpf : PrefixFree (L.map (·.n))) (X : UNT (U × Nat)) : DistinctKeys (heads L X) := by
  apply distinct_heads
  have hpf' : L.Pairwise (fun a b => a.n.start = b.n.start → ¬ a.n.steps <+: b.n.steps ∧ ¬ b.n.steps <+: a.n.steps) := by
    unfold PrefixFree at hpf
    rw [List.pairwise_map] at hpf
    exact hpf
  refine List.Pairwise.imp_of_mem ?_ (hi.disj.and hpf')
  intro a b ha hb hab hda hdb hha hhb hspa hspb hkey
  obtain ⟨hdisj, hfree⟩ := hab
  have hst : a.n.start = b.n.start := by rw [← hi.spEr a ha, ← hi.spEr b hb, hspa, hspb]
  obtain ⟨Xa, Pa, ma⟩ := hda
  obtain ⟨Xb, Pb, mb⟩ := hdb
  simp only at hkey
  obtain ⟨rfl, rfl⟩ := hkey
  cases hsa : a.steps' with
  | nil => rw [hsa] at hha; cases hha
  | cons sa ta =>
  cases hsb : b.steps' with
  | nil => rw [hsb] at hhb; cases hhb
  | cons sb tb =>
  rw [hsa] at hha; rw [hsb] at hhb
  simp only [List.head?_cons, Option.some.injEq] at hha hhb
  subst hha hhb
  have pa := hi.path a ha
  have pb := hi.path b hb
  rw [hsa] at pa; rw [hsb] at pb
  cases ma with
  | nil =>
    have e1 := single_step pa
    have e2 := single_step pb
    exact (hfree hst).1 (by rw [e1, e2, hst]; exact List.prefix_refl _)
  | cons x ma =>
    have o4a := (lay_own pa (hi.rng a ha).2.1).2.2.2.1 _ (List.mem_cons_self) x (List.mem_cons_self)
    have o4b := (lay_own pb (hi.rng b hb).2.1).2.2.2.1 _ (List.mem_cons_self) x (List.mem_cons_self)
    omega

/-! ### masses -/

theorem heads_mass {L : List (Lay U)} {X : UNT (U × Nat)} (h : ∀ l ∈ L, l.sp = X → l.steps' ≠ []) :
    ((heads L X).map (·.2.2)).sum = spMass L X := by
  induction L with
  | nil => rfl
  | cons a L ih =>
    have ih' := ih (fun l hl => h l (List.mem_cons_of_mem _ hl))
    by_cases hsp : a.sp = X
    · cases hs : a.steps' with
      | nil => exact absurd hs (h a (by simp) hsp)
      | cons s0 t =>
        simp only [heads, spMass, List.filter_cons, hsp, decide_true, if_true, List.filterMap_cons, hs,
          List.head?_cons, Option.map_some, List.map_cons, List.sum_cons] at ih' ⊢
        rw [ih']
    · simp only [heads, spMass, List.filter_cons, hsp, decide_false] at ih' ⊢
      exact ih'

theorem sum_pos_of_mem {α : Type} (f : α → Rat) : ∀ (xs : List α), (∀ x ∈ xs, 0 < f x) → ∀ x0 ∈ xs, 0 < (xs.map f).sum
  | [], _, x0, h0 => by cases h0
  | a :: xs, hpos, x0, h0 => by
    simp only [List.map_cons, List.sum_cons]
    have ha := hpos a (by simp)
    cases xs with
    | nil => simp only [List.map_nil, List.sum_nil]; grind
    | cons b xs =>
      have := sum_pos_of_mem f (b :: xs) (fun x hx => hpos x (List.mem_cons_of_mem _ hx)) b (by simp)
      grind

theorem spMass_pos {L : List (Lay U)} {l : Lay U} (hl : l ∈ L) (hpos : ∀ l ∈ L, 0 < l.n.prob) : 0 < spMass L l.sp := by
  unfold spMass
  apply sum_pos_of_mem (fun l : Lay U => l.n.prob) _ _ l
  · simp [hl]
  · intro x hx
    exact hpos x (List.mem_filter.mp hx).1

theorem spMass_single : ∀ {L : List (Lay U)} {l : Lay U} {X : UNT (U × Nat)}, L.Nodup → l ∈ L → l.sp = X →
    (∀ l' ∈ L, l'.sp = X → l' = l) → spMass L X = l.n.prob
  | [], _, _, _, hl, _, _ => by cases hl
  | a :: L, l, X, hnd, hl, hsp, hall => by
    obtain ⟨n1, n2⟩ := List.nodup_cons.mp hnd
    have hcons : spMass (a :: L) X = (if a.sp = X then a.n.prob else 0) + spMass L X := by
      by_cases h : a.sp = X
      · simp [spMass, h]
      · simp [spMass, h, Rat.zero_add]
    rw [hcons]
    by_cases hal : a = l
    · subst hal
      rw [if_pos hsp, spMass_none L X (fun l' hl' he => n1 ((hall l' (List.mem_cons_of_mem _ hl') he) ▸ hl')),
        Rat.add_zero]
    · have hasp : a.sp ≠ X := fun he => hal (hall a (by simp) he)
      rw [if_neg hasp, Rat.zero_add]
      rcases List.mem_cons.mp hl with h | h
      · exact absurd h.symm hal
      · exact spMass_single n2 h hsp (fun l' hl' he => hall l' (List.mem_cons_of_mem _ hl') he)

/-! ### the probability of a derivation of the fragment -/

theorem frag_prob {pg : PUG U} {group : List (Node U)} {st stG : FragSt U} {L : List (Lay U)}
    (hf : Facts pg group (fragOf pg st).g st.probs L) (hi : GoInv pg stG L)
    (hsp : st.startProbs = stG.startProbs)
    (hpr : ∀ Y, idx Y ≠ 0 → AList.lookup Y st.probs = AList.lookup Y stG.probs)
    (hpf : PrefixFree group) (hn : tagsNorm pg = true)
    (hprob : ∀ n ∈ group, n.prob = derivProb pg n.start n.steps) (hpos : ∀ n ∈ group, 0 < n.prob)
    {X : UNT (U × Nat)} {w' : List (Step (U × Nat))} (hd : Deriv (fragOf pg st).g X w') :
    derivProb (fragOf pg st) X w' = derivProb pg (er X) (w'.map erStep) / (group.map (·.prob)).sum := by
  obtain ⟨l, hl, hspX, rem, hw, hrun⟩ := decomp hf hd
  have hnl : l.n ∈ group := by rw [← hf.lays]; exact List.mem_map.mpr ⟨l, hl, rfl⟩
  have hposL : ∀ l ∈ L, 0 < l.n.prob := fun l' hl' =>
    hpos _ (by rw [← hf.lays]; exact List.mem_map.mpr ⟨l', hl', rfl⟩)
  have hcp : ∀ Y ∈ names l.pend, Cp pg (fragOf pg st).g st.probs L Y := fun Y hY => by
    obtain ⟨e, he, rfl⟩ := List.mem_map.mp hY
    exact ⟨hf.pendC l hl e he, Or.inr ⟨l, hl, e, he, rfl⟩⟩
  have hrem := copy_prob hf hn rem _ hcp hrun
  have hmass : (st.startProbs.map (·.2)).sum = (group.map (·.prob)).sum := by
    rw [hsp, hi.spTot, ← hf.lays, List.map_map]; rfl
  have hstart : (AList.lookup X (fragOf pg st).startTags).getD 0 = spMass L X / (group.map (·.prob)).sum := by
    rw [startTag_frag, hmass, hsp, ← hspX, hi.spVal l hl]; rfl
  have her : er X = l.n.start := by rw [← hspX]; exact hf.spEr l hl
  have hlp := hprob _ hnl
  have hsteps := (pendOK_lay hf hl).1
  unfold derivProb at hlp ⊢
  rw [hstart, hw, stepsProb_append, hrem, List.map_append, stepsProb_append, hsteps, her]
  by_cases hnil : l.n.steps = []
  · -- the node is a start symbol: the whole derivation is a copy
    obtain ⟨h1, _⟩ := path_nil hf hl hnil
    have hnd : L.Nodup := by
      have := hpf
      unfold PrefixFree at this
      rw [← hf.lays, List.pairwise_map] at this
      exact this.imp (fun {a b} hab he => by
        subst he
        exact (hab rfl).1 (List.prefix_refl _))
    have hone := spMass_single hnd hl hspX (fun l' hl' he => by
      have hs : l.n.start = l'.n.start := by rw [← hf.spEr l hl, ← hf.spEr l' hl', hspX, he]
      exact (lay_eq hf hpf hl hl' hs (by rw [hnil]; exact List.nil_prefix)).symm)
    rw [hone, h1, hlp, hnil]
    simp only [stepsProb]
    grind
  · -- the node has a path: first rule of the start copy, then rules of weight 1
    obtain ⟨s0, t, e1, e2⟩ := (lay_own (hi.path l hl) (hi.rng l hl).2.1).2.2.2.2.1 hnil
    have hall := no_nil_of_cons hf hpf hl hnil
    have hall' : ∀ l2 ∈ L, l2.sp = X → l2.steps' ≠ [] := by
      intro l2 hl2 he hn2
      have := hall l2 hl2 (he.trans hspX.symm)
      obtain ⟨s0', t', e1', _⟩ := (lay_own (hi.path l2 hl2) (hi.rng l2 hl2).2.1).2.2.2.2.1 this
      rw [hn2] at e1'; cases e1'
    have hrowG := (hi.startT l hl hall).2
    have hXpos : idx X ≠ 0 := by rw [← hspX]; have := (hi.rng l hl).1; omega
    have hchain : stepsProb (fragOf pg st) t = 1 := by
      apply stepsProb_chain
      intro s hs
      have hs' : s ∈ l.steps'.tail := by rw [e1]; exact hs
      have hidx := lay_tail_idx (hi.path l hl) (hi.rng l hl).2.1 s hs'
      rw [hpr s.1 (by omega)]
      exact (hi.chain l hl s hs').2
    have hdist := goInv_distinct hi (by rw [hf.lays]; exact hpf) X
    have hmem : (s0.2.1, s0.2.2, l.n.prob) ∈ heads L X :=
      mem_heads.mpr ⟨l, hl, hspX, s0, by rw [e1]; rfl, rfl⟩
    have hhead : tagOf (fragOf pg st) s0.1 s0.2.1 s0.2.2 = l.n.prob / spMass L X := by
      rw [tagOf_frag', e2, hspX, hpr X hXpos, ← hspX, hrowG, hspX, rawTag_buildP hdist hmem, rowSum_buildP hdist,
        heads_mass hall']
    have hne : spMass L X ≠ 0 := by
      have := spMass_pos hl hposL
      rw [hspX] at this
      intro h0; rw [h0] at this; exact absurd this (by decide)
    rw [e1]
    simp only [stepsProb, hhead, hchain, hlp]
    grind

end PS.Sp
