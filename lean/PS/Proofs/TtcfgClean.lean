/-
  C13, part 7: clean tables.
  * `clean` only removes rules: whatever its result derives, the original table derives.
  * the verified checker `closedOK`: in a table accepted by it every derivation that can be
    started can be completed - stated on the explicit machine of partial derivations
    (pending stack of argument slots + threaded state), which is what `TTCFG.derive` runs.
-/
import PS.Proofs.TtcfgCert
namespace PS.T
open PS PS.G

variable {S T : Type} [DecidableEq S] [DecidableEq T]

/-! ### `clean` returns a sub-table -/

theorem lookup_map_some {κ ν μ : Type} [DecidableEq κ] (F : κ × ν → μ) (k : κ) (r : μ) :
    ∀ l : List (κ × ν), AList.lookup k (l.map (fun e => (e.1, F e))) = some r → ∃ e ∈ l, e.1 = k ∧ r = F e
  | [], h => by simp [AList.lookup] at h
  | e :: l, h => by
    simp only [List.map_cons, AList.lookup] at h
    by_cases hk : e.1 = k
    · simp only [hk, if_true, Option.some.injEq] at h
      exact ⟨e, List.mem_cons_self .., hk, h.symm⟩
    · simp only [hk, if_false] at h
      obtain ⟨e', he', h1, h2⟩ := lookup_map_some F k r l h
      exact ⟨e', List.mem_cons_of_mem _ he', h1, h2⟩

theorem rule_restrict (G : TT S T) (nr : Marks S T) (nt : NT S T) (P : Sym) (val : List (Ty × S) × T)
    (h : (restrict G nr).rule? nt P = some val) : G.rule? nt P = some val := by
  unfold TT.rule? at h
  cases hl : AList.lookup nt (restrict G nr).rules with
  | none => simp [hl] at h
  | some row =>
    simp only [hl] at h
    obtain ⟨e, _, he1, he2⟩ := lookup_map_some (fun e : NT S T × List Sym => e.2.filterMap (fun P =>
      match G.rule? e.1 P with
      | some v => some (P, v)
      | none => none)) nt row nr hl
    have hmem := AList.lookup_some_mem h
    rw [he2] at hmem
    simp only [List.mem_filterMap] at hmem
    obtain ⟨P', _, hP'⟩ := hmem
    cases hr : G.rule? e.1 P' with
    | none => simp [hr] at hP'
    | some v =>
      simp only [hr, Option.some.injEq, Prod.mk.injEq] at hP'
      obtain ⟨h1, h2⟩ := hP'
      subst h1 h2
      rw [← he1]; exact hr

/-- **cleaning adds no program**, for every table, fuel and program -/
theorem clean_sound (G G' : TT S T) (fuel : Nat) (h : clean G fuel = .ok G') (t : Prog) (slot : Ty × S) (v w : T)
    (hr : run G'.rule? t slot v = some w) : run G.rule? t slot v = some w := by
  unfold clean at h
  split at h
  · rename_i nr _
    split at h
    · rename_i nr' _
      cases h
      exact (run_mono _ _ (rule_restrict G nr')).1 t slot v w hr
    · cases h
    · cases h
  · cases h
  · cases h

theorem clean_start (G G' : TT S T) (fuel : Nat) (h : clean G fuel = .ok G') : G'.start = G.start := by
  unfold clean at h
  split at h
  · split at h
    · cases h; rfl
    · cases h
    · cases h
  · cases h
  · cases h

/-! ### the machine of partial derivations -/

/-- a configuration: the pending argument slots (the first one is being derived next) and the
    state reached -/
abbrev Config (S T : Type) := List (Ty × S) × T

/-- one derivation step: `TTCFG.derive` at the non-terminal made of the first pending slot and
    the current state -/
inductive Step (G : TT S T) : Config S T → Config S T → Prop where
  | mk (a : Ty × S) (stk : List (Ty × S)) (v : T) (P : Sym) (args : List (Ty × S)) (st : T) :
      G.rule? (a.1, (a.2, v)) P = some (args, st) → Step G (a :: stk, v) (args ++ stk, st)

inductive Steps (G : TT S T) : Config S T → Config S T → Prop where
  | refl (c : Config S T) : Steps G c c
  | cons (c d e : Config S T) : Step G c d → Steps G d e → Steps G c e

theorem Steps.trans {G : TT S T} {c d e : Config S T} (h1 : Steps G c d) (h2 : Steps G d e) : Steps G c e := by
  induction h1 with
  | refl _ => exact h2
  | cons c d' _ hs _ ih => exact Steps.cons c d' e hs (ih h2)

/-- a complete derivation of a term is a run of the machine that pops exactly its slot -/
theorem steps_of_run (G : TT S T) : ∀ n : Nat,
    (∀ t : Prog, Tree.size t ≤ n → ∀ (a : Ty × S) (v w : T) (stk : List (Ty × S)),
      run G.rule? t a v = some w → Steps G (a :: stk, v) (stk, w)) ∧
    (∀ ks : List Prog, Tree.sizeList ks ≤ n → ∀ (args : List (Ty × S)) (v w : T) (stk : List (Ty × S)),
      runList G.rule? ks args v = some w → Steps G (args ++ stk, v) (stk, w)) := by
  intro n
  induction n with
  | zero =>
    constructor
    · intro t ht; cases t with | node f kids => simp [Tree.size] at ht
    · intro ks hks args v w stk hr
      cases ks with
      | nil => cases args with
        | nil => simp only [runList, Option.some.injEq] at hr; subst hr; exact Steps.refl _
        | cons a as => simp [runList] at hr
      | cons k ks => cases k with | node f kids => simp [Tree.sizeList, Tree.size] at hks
  | succ n ih =>
    have node_case : ∀ (f : Sym) (kids : List Prog), Tree.sizeList kids ≤ n → ∀ (a : Ty × S) (v w : T) (stk : List (Ty × S)),
        run G.rule? (.node f kids) a v = some w → Steps G (a :: stk, v) (stk, w) := by
      intro f kids hs a v w stk hr
      rw [run] at hr
      cases h1 : G.rule? (a.1, (a.2, v)) f with
      | none => simp [h1] at hr
      | some val =>
        obtain ⟨args, st⟩ := val
        simp only [h1] at hr
        exact Steps.cons _ _ _ (Step.mk a stk v f args st h1) (ih.2 kids hs args st w stk hr)
    constructor
    · intro t ht a v w stk hr
      cases t with
      | node f kids => exact node_case f kids (by simp [Tree.size] at ht; omega) a v w stk hr
    · intro ks hks args v w stk hr
      cases ks with
      | nil => cases args with
        | nil => simp only [runList, Option.some.injEq] at hr; subst hr; exact Steps.refl _
        | cons a as => simp [runList] at hr
      | cons k ks =>
        cases args with
        | nil => simp [runList] at hr
        | cons a as =>
          rw [runList] at hr
          cases h1 : run G.rule? k a v with
          | none => simp [h1] at hr
          | some v1 =>
            simp only [h1] at hr
            have hpos : 1 ≤ Tree.size k := by cases k with | node f kids => simp [Tree.size]
            have hks' : Tree.sizeList ks ≤ n := by simp [Tree.sizeList] at hks; omega
            have s1 : Steps G (a :: (as ++ stk), v) (as ++ stk, v1) := by
              cases k with
              | node f kids => exact node_case f kids (by simp [Tree.sizeList, Tree.size] at hks; omega) a v v1 _ h1
            exact Steps.trans s1 (ih.2 ks hks' as v1 w stk hr)

/-! ### the certificate -/

def rankLt (rk : AList (NT S T) Nat) (nt : NT S T) : NT S T → Bool :=
  fun nt' => decide (rankOf rk nt' < rankOf rk nt)

structure ClosedCert (G : TT S T) (outs : AList (NT S T) (List T)) (rk : AList (NT S T) Nat) : Prop where
  nodup : (AList.keys G.rules).Nodup
  start : AList.contains G.start G.rules = true
  rows : ∀ e ∈ G.rules, (AList.keys e.2).Nodup ∧ e.1.1 ≠ Ty.unknown ∧ e.2 ≠ [] ∧
    ∀ r ∈ e.2, ∃ V, chain G outs [] (rankLt rk e.1) r.2.1 [r.2.2] = some V ∧ ∀ v ∈ V, v ∈ outsOf outs e.1

theorem closedCert_of_closedOK (G : TT S T) (outs : AList (NT S T) (List T)) (rk : AList (NT S T) Nat)
    (h : closedOK G outs rk = true) : ClosedCert G outs rk := by
  unfold closedOK at h
  simp only [Bool.and_eq_true, decide_eq_true_eq, List.all_eq_true] at h
  obtain ⟨⟨hnd, hstart⟩, hrows⟩ := h
  refine ⟨hnd, hstart, ?_⟩
  intro e he
  obtain ⟨⟨⟨h1, h2⟩, h3⟩, h4⟩ := hrows e he
  refine ⟨h1, h2, by intro hn; simp [hn] at h3, ?_⟩
  intro r hr
  have := h4 r hr
  cases hch : chain G outs [] (fun nt => decide (rankOf rk nt < rankOf rk e.1)) r.2.1 [r.2.2] with
  | none => simp [hch] at this
  | some V =>
    refine ⟨V, hch, ?_⟩
    simp only [hch] at this
    intro v hv
    simpa using List.all_eq_true.mp this v hv

theorem chainStep_weaken (G : TT S T) (outs : AList (NT S T) (List T)) (dead : List (NT S T)) (ok ok' : NT S T → Bool)
    (hok : ∀ nt, ok nt = true → ok' nt = true) (a : Ty × S) :
    ∀ (V V' : List T), chainStep G outs dead ok a V = some V' → chainStep G outs dead ok' a V = some V'
  | [], V', h => by simpa [chainStep] using h
  | x :: xs, V', h => by
    rw [chainStep] at h ⊢
    cases hrec : chainStep G outs dead ok a xs with
    | none => simp [hrec] at h
    | some r =>
      rw [chainStep_weaken G outs dead ok ok' hok a xs r hrec]
      simp only [hrec] at h
      simp only
      by_cases hc : AList.contains (a.1, (a.2, x)) G.rules = true
      · simp only [hc, if_true] at h ⊢
        by_cases h1 : ok (a.1, (a.2, x)) = true
        · simp only [h1, if_true] at h
          simp only [hok _ h1, if_true]; exact h
        · simp [h1] at h
      · simp only [hc] at h ⊢; exact h

theorem chain_weaken (G : TT S T) (outs : AList (NT S T) (List T)) (dead : List (NT S T)) (ok ok' : NT S T → Bool)
    (hok : ∀ nt, ok nt = true → ok' nt = true) :
    ∀ (args : List (Ty × S)) (V V' : List T), chain G outs dead ok args V = some V' → chain G outs dead ok' args V = some V'
  | [], V, V', h => by simpa [chain] using h
  | a :: as, V, V', h => by
    rw [chain] at h ⊢
    cases h1 : chainStep G outs dead ok a V with
    | none => simp [h1] at h
    | some V1 =>
      rw [chainStep_weaken G outs dead ok ok' hok a V V1 h1]
      simp only [h1] at h
      exact chain_weaken G outs dead ok ok' hok as V1 V' h

theorem chain_append (G : TT S T) (outs : AList (NT S T) (List T)) (dead : List (NT S T)) (ok : NT S T → Bool) :
    ∀ (as bs : List (Ty × S)) (V : List T), chain G outs dead ok (as ++ bs) V =
      match chain G outs dead ok as V with
      | none => none
      | some V' => chain G outs dead ok bs V'
  | [], bs, V => by simp [chain]
  | a :: as, bs, V => by
    simp only [List.cons_append, chain]
    cases chainStep G outs dead ok a V with
    | none => rfl
    | some V1 => exact chain_append G outs dead ok as bs V1

theorem tableRows_fn (G : TT S T) : rowsFn (fun nt => (AList.lookup nt G.rules).getD []) = G.rule? := by
  funext nt P
  show AList.lookup P ((AList.lookup nt G.rules).getD []) = G.rule? nt P
  unfold TT.rule?
  cases h : AList.lookup nt G.rules with
  | none => simp
  | some row => simp

/-- a closed certificate is in particular a language certificate of the table against itself -/
theorem subCert_of_closedCert (G : TT S T) (outs : AList (NT S T) (List T)) (rk : AList (NT S T) Nat)
    (C : ClosedCert G outs rk) : SubCert (fun nt => (AList.lookup nt G.rules).getD []) G outs [] := by
  have hlook : ∀ e ∈ G.rules, AList.lookup e.1 G.rules = some e.2 :=
    fun e he => AList.lookup_of_mem_nodup C.nodup he
  refine ⟨C.nodup, ?_, ?_, (by intro d hd; cases hd), (by intro d hd; cases hd), Or.inl C.start⟩
  · intro e he
    simp only [hlook e he, Option.getD_some]
    unfold rowSub
    rw [List.all_eq_true]
    intro r hr
    have := AList.lookup_of_mem_nodup (C.rows e he).1 hr
    simp [this]
  · intro e he r hr
    simp only [hlook e he, Option.getD_some] at hr
    obtain ⟨V, hV, hsub⟩ := (C.rows e he).2.2.2 r hr
    refine ⟨V, chain_weaken G outs [] _ _ (fun _ _ => rfl) _ _ _ hV, ?_⟩
    have := AList.lookup_of_mem_nodup (C.rows e he).1 hr
    simp [this]
    exact hsub

/-- outcomes are inside the certified sets -/
theorem closed_outs (G : TT S T) (outs : AList (NT S T) (List T)) (rk : AList (NT S T) Nat)
    (C : ClosedCert G outs rk) (t : Prog) (a : Ty × S) (v w : T)
    (hk : AList.contains (a.1, (a.2, v)) G.rules = true) (hr : run G.rule? t a v = some w) :
    w ∈ outsOf outs (a.1, (a.2, v)) := by
  have S := subCert_of_closedCert G outs rk C
  have := (cert_run _ G outs [] S (Tree.size t)).1 t (Nat.le_refl _) a v w (by rw [tableRows_fn]; exact hr)
  exact (this.1 hk).2

/-- **every non-terminal and every rule is productive** -/
theorem closed_productive (G : TT S T) (outs : AList (NT S T) (List T)) (rk : AList (NT S T) Nat)
    (C : ClosedCert G outs rk) : ∀ n : Nat, ∀ e ∈ G.rules, rankOf rk e.1 ≤ n → ∀ r ∈ e.2,
      ∃ (kids : List Prog) (w : T), run G.rule? (.node r.1 kids) (e.1.1, e.1.2.1) e.1.2.2 = some w := by
  intro n
  induction n using Nat.strongRecOn with
  | _ n ih =>
    intro e he hrk r hr
    obtain ⟨hrn, _, _, hch⟩ := C.rows e he
    obtain ⟨V, hV, _⟩ := hch r hr
    -- arguments, one after the other
    have args_ok : ∀ (args : List (Ty × S)) (W W' : List T) (v : T), v ∈ W →
        chain G outs [] (rankLt rk e.1) args W = some W' → ∃ (ks : List Prog) (w : T), runList G.rule? ks args v = some w := by
      intro args
      induction args with
      | nil => intro W W' v _ _; exact ⟨[], v, by simp [runList]⟩
      | cons a as iha =>
        intro W W' v hv hc
        rw [chain] at hc
        cases h1 : chainStep G outs [] (rankLt rk e.1) a W with
        | none => simp [h1] at hc
        | some W1 =>
          simp only [h1] at hc
          have hs := chainStep_spec G outs [] (rankLt rk e.1) a W W1 h1 v hv
          have hkey : AList.contains (a.1, (a.2, v)) G.rules = true := by
            by_cases hc' : AList.contains (a.1, (a.2, v)) G.rules = true
            · exact hc'
            · have := hs.2 (by simpa using hc'); cases this
          obtain ⟨hlt, hout⟩ := hs.1 hkey
          obtain ⟨row, hrow⟩ := lookup_of_contains hkey
          have hmem := AList.lookup_some_mem hrow
          have hlt' : rankOf rk (a.1, (a.2, v)) < rankOf rk e.1 := by simpa [rankLt] using hlt
          have hne : row ≠ [] := (C.rows _ hmem).2.2.1
          cases row with
          | nil => exact absurd rfl hne
          | cons r0 row' =>
            obtain ⟨kids0, w0, hrun0⟩ := ih (rankOf rk (a.1, (a.2, v))) (by omega) _ hmem (Nat.le_refl _) r0 (List.mem_cons_self ..)
            simp only at hrun0
            have hw0 := closed_outs G outs rk C _ a v w0 hkey hrun0
            obtain ⟨ks, w, hks⟩ := iha W1 W' w0 (hout w0 hw0) hc
            exact ⟨.node r0.1 kids0 :: ks, w, by rw [runList, hrun0]; exact hks⟩
    obtain ⟨ks, w, hks⟩ := args_ok r.2.1 [r.2.2] V r.2.2 (List.mem_singleton.mpr rfl) hV
    refine ⟨ks, w, ?_⟩
    rw [run]
    have hl : G.rule? (e.1.1, (e.1.2.1, e.1.2.2)) r.1 = some r.2 := by
      unfold TT.rule?
      have : ((e.1.1, (e.1.2.1, e.1.2.2)) : NT S T) = e.1 := rfl
      rw [this, AList.lookup_of_mem_nodup C.nodup he]
      exact AList.lookup_of_mem_nodup hrn hr
    rw [hl]
    exact hks

/-- the pending slots can all be entered, whatever state the previous ones end in -/
def Good (G : TT S T) (outs : AList (NT S T) (List T)) (c : Config S T) : Prop :=
  ∃ V', chain G outs [] (fun _ => true) c.1 [c.2] = some V'

theorem good_step (G : TT S T) (outs : AList (NT S T) (List T)) (rk : AList (NT S T) Nat) (C : ClosedCert G outs rk)
    (c d : Config S T) (hg : Good G outs c) (hs : Step G c d) : Good G outs d := by
  cases hs with
  | mk a stk v P args st hrule =>
    obtain ⟨V', hV'⟩ := hg
    simp only [chain] at hV'
    cases h1 : chainStep G outs [] (fun _ => true) a [v] with
    | none => simp [h1] at hV'
    | some V1 =>
      simp only [h1] at hV'
      -- the non-terminal is a key, the rule is one of its rules
      unfold TT.rule? at hrule
      cases hrow : AList.lookup (a.1, (a.2, v)) G.rules with
      | none => simp [hrow] at hrule
      | some row =>
        simp only [hrow] at hrule
        have hmem := AList.lookup_some_mem hrow
        have hr := AList.lookup_some_mem hrule
        obtain ⟨V, hV, hsub⟩ := (C.rows _ hmem).2.2.2 _ hr
        have hV2 := chain_weaken G outs [] _ (fun _ => true) (fun _ _ => rfl) _ _ _ hV
        have hspec := chainStep_spec G outs [] (fun _ => true) a [v] V1 h1 v (List.mem_singleton.mpr rfl)
        have hout := (hspec.1 (contains_of_lookup hrow)).2
        obtain ⟨W', hW', _⟩ := chain_subset G outs [] (fun _ => true) stk V1 V' V hV' (fun w hw => hout w (hsub w hw))
        refine ⟨W', ?_⟩
        simp only
        rw [chain_append]
        simp only at hV2
        rw [hV2]
        exact hW'

theorem good_steps (G : TT S T) (outs : AList (NT S T) (List T)) (rk : AList (NT S T) Nat) (C : ClosedCert G outs rk)
    (c d : Config S T) (hs : Steps G c d) : Good G outs c → Good G outs d := by
  induction hs with
  | refl _ => exact id
  | cons c d' _ h1 _ ih => exact fun hg => ih (good_step G outs rk C c d' hg h1)

theorem good_complete (G : TT S T) (outs : AList (NT S T) (List T)) (rk : AList (NT S T) Nat) (C : ClosedCert G outs rk) :
    ∀ (stk : List (Ty × S)) (v : T), Good G outs (stk, v) → ∃ w, Steps G (stk, v) ([], w)
  | [], v, _ => ⟨v, Steps.refl _⟩
  | a :: stk, v, hg => by
    obtain ⟨V', hV'⟩ := hg
    simp only [chain] at hV'
    cases h1 : chainStep G outs [] (fun _ => true) a [v] with
    | none => simp [h1] at hV'
    | some V1 =>
      simp only [h1] at hV'
      have hspec := chainStep_spec G outs [] (fun _ => true) a [v] V1 h1 v (List.mem_singleton.mpr rfl)
      have hkey : AList.contains (a.1, (a.2, v)) G.rules = true := by
        by_cases hc' : AList.contains (a.1, (a.2, v)) G.rules = true
        · exact hc'
        · have := hspec.2 (by simpa using hc'); cases this
      obtain ⟨row, hrow⟩ := lookup_of_contains hkey
      have hmem := AList.lookup_some_mem hrow
      have hne : row ≠ [] := (C.rows _ hmem).2.2.1
      cases row with
      | nil => exact absurd rfl hne
      | cons r0 row' =>
        obtain ⟨kids0, w0, hrun0⟩ := closed_productive G outs rk C _ _ hmem (Nat.le_refl _) r0 (List.mem_cons_self ..)
        simp only at hrun0
        have hw0 := closed_outs G outs rk C _ a v w0 hkey hrun0
        have s1 := (steps_of_run G _).1 _ (Nat.le_refl _) a v w0 stk hrun0
        obtain ⟨W', hW', _⟩ := chain_subset G outs [] (fun _ => true) stk V1 V' [w0] hV'
          (fun w hw => by rw [List.mem_singleton.mp hw]; exact (hspec.1 hkey).2 w0 hw0)
        obtain ⟨w, hw⟩ := good_complete G outs rk C stk w0 ⟨W', hW'⟩
        exact ⟨w, Steps.trans s1 hw⟩

/-- **clean tables**: in a table accepted by `closedOK`, every partial derivation that can be
    started from the start symbol can be completed -/
theorem closed_complete (G : TT S T) (outs : AList (NT S T) (List T)) (rk : AList (NT S T) Nat)
    (h : closedOK G outs rk = true) (c : Config S T)
    (hreach : Steps G ([(G.start.1, G.start.2.1)], G.start.2.2) c) : ∃ w, Steps G c ([], w) := by
  have C := closedCert_of_closedOK G outs rk h
  have hg0 : Good G outs ([(G.start.1, G.start.2.1)], G.start.2.2) := by
    have hs : AList.contains (G.start.1, (G.start.2.1, G.start.2.2)) G.rules = true := C.start
    refine ⟨outsOf outs (G.start.1, (G.start.2.1, G.start.2.2)) ++ [], ?_⟩
    simp [chain, chainStep, hs]
  have hg : Good G outs c := good_steps G outs rk C _ c hreach hg0
  exact good_complete G outs rk C c.1 c.2 hg

end PS.T
