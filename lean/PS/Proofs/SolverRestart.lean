/-
  Lemmas for C10, restart part (model: PS/Model/SolverRestart.lean).
  Part 1: the test as a pure function (verdict and score) under a faithful evaluator.
  Part 2: the segmented enumeration (`segRun`): what its entries hold.
  Part 3: simulation — the restart solver behaves as the plain solver (PS/Model/Solver.lean) run on
          the segmented enumeration; the final statistics.
-/
import PS.Model.SolverRestart
import PS.Proofs.Solver
set_option linter.unusedSimpArgs false
set_option linter.unusedSectionVars false
namespace PS.C10
open PS
open PS.C11 (Outcome)

variable {St P I V E En : Type}

/-! ## Part 1 -/

/-- `T` returns, from every state satisfying the invariant, the verdict *and score* `tp` says -/
def RefinesS (T : St → P → St × Except E (Bool × Score)) (tp : P → Except E (Bool × Score))
    (Inv : St → Prop) : Prop :=
  ∀ st p, Inv st → Inv (T st p).1 ∧ (T st p).2 = tp p

/-- the pure test: verdict and score computed from the semantics alone -/
def pureTest [DecidableEq V] (k : Kind) (spec : P → I → Outcome V E) (exs : List (I × V)) (p : P) :
    Except E (Bool × Score) :=
  (test k (pureEv spec) exs () p).2

theorem refinesS_of_faithful [DecidableEq V] {ev : Ev St P I V E} {spec : P → I → Outcome V E}
    {Inv : St → Prop} (hF : Faithful ev spec Inv) (k : Kind) (exs : List (I × V)) :
    RefinesS (test k ev exs) (pureTest k spec exs) Inv := by
  intro st p h
  cases k with
  | naive => exact testNaive_faithful hF exs st p h
  | cutoff => exact testCutoff_faithful hF exs st p h

theorem pureTest_verdict [DecidableEq V] (k : Kind) (spec : P → I → Outcome V E) (exs : List (I × V)) (p : P) :
    (pureTest k spec exs p).map Prod.fst = verdict k spec exs p := by
  cases k with
  | naive => exact testNaive_verdict spec exs p
  | cutoff => exact testCutoff_verdict spec exs p

theorem RefinesS.toRefines {T : St → P → St × Except E (Bool × Score)} {tp : P → Except E (Bool × Score)}
    {Inv : St → Prop} (h : RefinesS T tp Inv) : Refines T (fun p => (tp p).map Prod.fst) Inv := by
  intro st p hst
  obtain ⟨h1, h2⟩ := h st p hst
  exact ⟨h1, by rw [h2]⟩

section machine
variable {prm : Params En P} {T : St → P → St × Except E (Bool × Score)}
  {tp : P → Except E (Bool × Score)} {Inv : St → Prop}

theorem stepR_cases (hT : RefinesS T tp Inv) (st : St) (p : P) (hst : Inv st) :
    (∃ st' e, T st p = (st', .error e) ∧ tp p = .error e ∧ Inv st') ∨
    (∃ st' b sc, T st p = (st', .ok (b, sc)) ∧ tp p = .ok (b, sc) ∧ Inv st') := by
  obtain ⟨h1, h2⟩ := hT st p hst
  generalize T st p = r at h1 h2
  obtain ⟨st', a⟩ := r
  cases a with
  | error e => exact Or.inl ⟨st', e, rfl, h2.symm, h1⟩
  | ok v =>
    obtain ⟨b, sc⟩ := v
    exact Or.inr ⟨st', b, sc, rfl, h2.symm, h1⟩

/-! ## Part 2: the segmented enumeration -/

/-- what `afterTest` does, by cases on the criterion -/
theorem afterTest_cases (prm : Params En P) (s : RSolver P) (p : P) (en : En) (pos : Nat) :
    ∃ s2 : RSolver P,
      s2.self = { s.self with score := s.sub.score } ∧ s2.sub = s.sub ∧ s2.statsRestarts = s.statsRestarts ∧
      s2.restarts = s.restarts ∧ s2.lastSize = s.lastSize ∧
      s2.data = s.data ++ (match s.sub.score with
                           | some sc => if 0 < sc.num then [(p, sc)] else []
                           | none => []) ∧
      ((prm.criterion s2 = false ∧ afterTest prm s p en pos = (s2, en, pos)) ∨
       (prm.criterion s2 = true ∧
        afterTest prm s p en pos =
          ({ s2 with restarts := s2.restarts + 1, lastSize := s2.data.length }, prm.restart en s2.data, 0))) := by
  unfold afterTest
  cases hsc : s.sub.score with
  | none =>
    refine ⟨{ s with self := { s.self with score := none } }, by simp [hsc], rfl, rfl, rfl, rfl, by simp, ?_⟩
    simp only [hsc]
    by_cases hc : prm.criterion { s with self := { s.self with score := none } } = true
    · right; simp [hc]
    · left; simp only [Bool.not_eq_true] at hc; simp [hc]
  | some sc =>
    by_cases hp : 0 < sc.num
    · refine ⟨{ s with self := { s.self with score := some sc }, data := s.data ++ [(p, sc)] }, by simp [hsc], rfl, rfl,
        rfl, rfl, by simp [hp], ?_⟩
      simp only [hsc, hp, if_true]
      by_cases hc : prm.criterion { s with self := { s.self with score := some sc }, data := s.data ++ [(p, sc)] } = true
      · right; simp [hc]
      · left; simp only [Bool.not_eq_true] at hc; simp [hc]
    · refine ⟨{ s with self := { s.self with score := some sc } }, by simp [hsc], rfl, rfl, rfl, rfl, by simp [hp], ?_⟩
      simp only [hsc, hp, if_false]
      by_cases hc : prm.criterion { s with self := { s.self with score := some sc } } = true
      · right; simp [hc]
      · left; simp only [Bool.not_eq_true] at hc; simp [hc]

/-- the fields no loop iteration touches -/
structure Frame (s s' : RSolver P) : Prop where
  selfStatsPrograms : s'.self.statsPrograms = s.self.statsPrograms
  selfStatsLast : s'.self.statsLast = s.self.statsLast
  selfStatsCloses : s'.self.statsCloses = s.self.statsCloses
  subStatsPrograms : s'.sub.statsPrograms = s.sub.statsPrograms
  subStatsLast : s'.sub.statsLast = s.sub.statsLast
  subStatsCloses : s'.sub.statsCloses = s.sub.statsCloses
  subPrograms : s'.sub.programs = s.sub.programs
  statsRestarts : s'.statsRestarts = s.statsRestarts

theorem Frame.refl (s : RSolver P) : Frame s s := ⟨rfl, rfl, rfl, rfl, rfl, rfl, rfl, rfl⟩

theorem Frame.trans {a b c : RSolver P} (h1 : Frame a b) (h2 : Frame b c) : Frame a c :=
  ⟨h2.1.trans h1.1, h2.2.trans h1.2, h2.3.trans h1.3, h2.4.trans h1.4, h2.5.trans h1.5, h2.6.trans h1.6,
   h2.7.trans h1.7, h2.8.trans h1.8⟩

theorem frame_testedS (s : RSolver P) (sc : Score) : Frame s (testedS s sc) :=
  ⟨rfl, rfl, rfl, rfl, rfl, rfl, rfl, rfl⟩

theorem frame_countedS (s : RSolver P) : Frame s (countedS s) :=
  ⟨rfl, rfl, rfl, rfl, rfl, rfl, rfl, rfl⟩

theorem frame_afterTest (prm : Params En P) (s : RSolver P) (p : P) (en : En) (pos : Nat) :
    Frame s (afterTest prm s p en pos).1 := by
  obtain ⟨s2, h1, h2, h3, _, _, _, h | h⟩ := afterTest_cases prm s p en pos
  · rw [h.2]; exact ⟨by simp [h1], by simp [h1], by simp [h1], by simp [h2], by simp [h2], by simp [h2], by simp [h2], h3⟩
  · rw [h.2]; exact ⟨by simp [h1], by simp [h1], by simp [h1], by simp [h2], by simp [h2], by simp [h2], by simp [h2], h3⟩

theorem afterTest_programs (prm : Params En P) (s : RSolver P) (p : P) (en : En) (pos : Nat) :
    (afterTest prm s p en pos).1.self.programs = s.self.programs := by
  obtain ⟨s2, h1, _, _, _, _, _, h | h⟩ := afterTest_cases prm s p en pos
  · rw [h.2]; simp [h1]
  · rw [h.2]; simp [h1]

/-- `_data` after one more tested program -/
theorem afterTest_data (prm : Params En P) (s : RSolver P) (sc : Score) (p : P) (en : En) (pos : Nat) :
    (afterTest prm (testedS s sc) p en pos).1.data = s.data ++ (if 0 < sc.num then [(p, sc)] else []) := by
  obtain ⟨s2, _, _, _, _, _, h6, h | h⟩ := afterTest_cases prm (testedS s sc) p en pos
  · rw [h.2]; simpa [testedS, countedS] using h6
  · rw [h.2]; simpa [testedS, countedS] using h6

/-- a restart is exactly a continuation at position 0 -/
theorem afterTest_restarts (prm : Params En P) (s : RSolver P) (p : P) (en : En) (pos : Nat) :
    (afterTest prm s p en (pos + 1)).1.restarts =
      s.restarts + (if (afterTest prm s p en (pos + 1)).2.2 = 0 then 1 else 0) := by
  obtain ⟨s2, _, _, _, h4, _, _, h | h⟩ := afterTest_cases prm s p en (pos + 1)
  · rw [h.2]; simp [h4]
  · rw [h.2]; simp [h4]

theorem segRun_zero (s : RSolver P) (en : En) (pos : Nat) : segRun prm tp 0 s en pos = [] := rfl

theorem segRun_none {fuel : Nat} {s : RSolver P} {en : En} {pos : Nat} (h : prm.stream en pos = none) :
    segRun prm tp (fuel + 1) s en pos = [] := by
  simp [segRun, h]

theorem segRun_error {fuel : Nat} {s : RSolver P} {en : En} {pos : Nat} {p : P} {e : E}
    (h : prm.stream en pos = some p) (ht : tp p = .error e) :
    segRun prm tp (fuel + 1) s en pos = [⟨p, en, pos, s⟩] := by
  simp [segRun, h, ht]

theorem segRun_ok {fuel : Nat} {s : RSolver P} {en : En} {pos : Nat} {p : P} {b : Bool} {sc : Score}
    (h : prm.stream en pos = some p) (ht : tp p = .ok (b, sc)) :
    segRun prm tp (fuel + 1) s en pos =
      ⟨p, en, pos, s⟩ :: segRun prm tp fuel (afterTest prm (testedS s sc) p en (pos + 1)).1
        (afterTest prm (testedS s sc) p en (pos + 1)).2.1 (afterTest prm (testedS s sc) p en (pos + 1)).2.2 := by
  simp [segRun, h, ht]

/-- the first entry of the segmented enumeration is the next program of the current enumerator -/
theorem segRun_head {fuel : Nat} {s : RSolver P} {en : En} {pos : Nat} {e : Entry P En} {post : List (Entry P En)}
    (h : segRun prm tp fuel s en pos = e :: post) :
    prm.stream en pos = some e.p ∧ e.en = en ∧ e.pos = pos ∧ e.s = s := by
  cases fuel with
  | zero => simp [segRun] at h
  | succ fuel =>
    cases hs : prm.stream en pos with
    | none => rw [segRun_none hs] at h; cases h
    | some p =>
      cases ht : tp p with
      | error er =>
        rw [segRun_error hs ht] at h
        cases h
        exact ⟨rfl, rfl, rfl, rfl⟩
      | ok v =>
        obtain ⟨b, sc⟩ := v
        rw [segRun_ok hs ht] at h
        cases h
        exact ⟨rfl, rfl, rfl, rfl⟩

/-- number of segment starts among entries -/
def starts (l : List (Entry P En)) : Nat := l.countP (fun e => e.pos == 0)

/-- **entries of the segmented enumeration.**  The entry at position `pre.length`: it is the program
    at its position of its enumerator's stream; the counter `_programs` is its rank minus one; `_data`
    holds the earlier programs of positive score; `_restarts` is the number of segments started
    after the first entry; the statistics are untouched. -/
theorem segRun_entry : ∀ (fuel : Nat) (s : RSolver P) (en : En) (pos : Nat)
    (pre : List (Entry P En)) (e : Entry P En) (post : List (Entry P En)),
    segRun prm tp fuel s en pos = pre ++ e :: post →
      prm.stream e.en e.pos = some e.p ∧
      e.s.self.programs = s.self.programs + pre.length ∧
      e.s.data = s.data ++ dataOf tp (pre.map (·.p)) ∧
      e.s.restarts = s.restarts + starts (pre ++ [e]).tail ∧
      Frame s e.s := by
  intro fuel
  induction fuel with
  | zero => intro s en pos pre e post h; simp [segRun] at h
  | succ fuel ih =>
    intro s en pos pre e post h
    cases pre with
    | nil =>
      obtain ⟨h1, h2, h3, h4⟩ := segRun_head h
      subst h4
      refine ⟨by rw [h2, h3]; exact h1, by simp, by simp [dataOf], by simp [starts], Frame.refl _⟩
    | cons a pre' =>
      have hh := segRun_head (e := a) (post := pre' ++ e :: post) (by simpa using h)
      obtain ⟨ha1, ha2, ha3, ha4⟩ := hh
      cases ht : tp a.p with
      | error er =>
        rw [segRun_error ha1 ht] at h
        simp at h
      | ok v =>
        obtain ⟨b, sc⟩ := v
        rw [segRun_ok ha1 ht] at h
        simp only [List.cons_append, List.cons.injEq] at h
        obtain ⟨_, hrest⟩ := h
        obtain ⟨g1, g2, g3, g4, g5⟩ := ih _ _ _ pre' e post hrest
        refine ⟨g1, ?_, ?_, ?_, ?_⟩
        · rw [g2, afterTest_programs]; simp [testedS, countedS]; omega
        · rw [g3, afterTest_data]
          simp only [List.map_cons, dataOf, List.filterMap_cons, ht]
          by_cases hp : 0 < sc.num <;> simp [hp]
        · rw [g4, afterTest_restarts]
          -- the head of the remaining run sits at the position `afterTest` continues with
          have hhead : ∃ x rest, pre' ++ [e] = x :: rest ∧
              x.pos = (afterTest prm (testedS s sc) a.p en (pos + 1)).2.2 := by
            cases pre' with
            | nil =>
              obtain ⟨_, _, q3, _⟩ := segRun_head (by simpa using hrest)
              exact ⟨e, [], rfl, q3⟩
            | cons x xs =>
              obtain ⟨_, _, q3, _⟩ := segRun_head (e := x) (post := xs ++ e :: post) (by simpa using hrest)
              exact ⟨x, xs ++ [e], rfl, q3⟩
          obtain ⟨x, rest, hx, hxp⟩ := hhead
          simp only [List.cons_append, List.tail_cons]
          rw [hx]
          generalize (afterTest prm (testedS s sc) a.p en (pos + 1)).2.2 = z at hxp ⊢
          simp only [List.tail_cons, starts, List.countP_cons, hxp]
          have : (testedS s sc).restarts = s.restarts := rfl
          rw [this]
          by_cases hz : z = 0 <;> simp [hz] <;> omega
        · exact (frame_testedS s sc).trans ((frame_afterTest prm _ _ _ _).trans g5)

/-- **consecutive entries**: the second one is where the bookkeeping after the first one continues -/
theorem segRun_next : ∀ (fuel : Nat) (s : RSolver P) (en : En) (pos : Nat)
    (pre : List (Entry P En)) (a b : Entry P En) (post : List (Entry P En)),
    segRun prm tp fuel s en pos = pre ++ a :: b :: post →
      ∃ ok sc, tp a.p = .ok (ok, sc) ∧
        (b.s, b.en, b.pos) = afterTest prm (testedS a.s sc) a.p a.en (a.pos + 1) := by
  intro fuel
  induction fuel with
  | zero => intro s en pos pre a b post h; simp [segRun] at h
  | succ fuel ih =>
    intro s en pos pre a b post h
    cases pre with
    | nil =>
      obtain ⟨h1, h2, h3, h4⟩ := segRun_head (e := a) (post := b :: post) (by simpa using h)
      cases ht : tp a.p with
      | error er => rw [segRun_error h1 ht] at h; simp at h
      | ok v =>
        obtain ⟨ok, sc⟩ := v
        rw [segRun_ok h1 ht] at h
        simp only [List.nil_append, List.cons.injEq] at h
        obtain ⟨q1, q2, q3, q4⟩ := segRun_head h.2
        exact ⟨ok, sc, rfl, by rw [h2, h3, h4, q2, q3, q4]⟩
    | cons x pre' =>
      obtain ⟨h1, _, _, _⟩ := segRun_head (e := x) (post := pre' ++ a :: b :: post) (by simpa using h)
      cases ht : tp x.p with
      | error er =>
        rw [segRun_error h1 ht] at h
        simp at h
      | ok v =>
        obtain ⟨ok, sc⟩ := v
        rw [segRun_ok h1 ht] at h
        simp only [List.cons_append, List.cons.injEq] at h
        exact ih _ _ _ pre' a b post h.2

/-- with a criterion that never fires, the segmented enumeration is the stream of the one enumerator -/
theorem segRun_no_restart (hc : ∀ s, prm.criterion s = false) : ∀ (fuel : Nat) (s : RSolver P) (en : En) (pos : Nat),
    ∀ e ∈ segRun prm tp fuel s en pos, e.en = en ∧ e.s.restarts = s.restarts := by
  intro fuel
  induction fuel with
  | zero => intro s en pos e he; simp [segRun] at he
  | succ fuel ih =>
    intro s en pos e he
    cases hs : prm.stream en pos with
    | none => rw [segRun_none hs] at he; simp at he
    | some p =>
      cases ht : tp p with
      | error er =>
        rw [segRun_error hs ht] at he
        simp at he; subst he; exact ⟨rfl, rfl⟩
      | ok v =>
        obtain ⟨b, sc⟩ := v
        rw [segRun_ok hs ht] at he
        simp only [List.mem_cons] at he
        rcases he with he | he
        · subst he; exact ⟨rfl, rfl⟩
        · obtain ⟨s2, _, _, _, h4, _, _, h | h⟩ := afterTest_cases prm (testedS s sc) p en (pos + 1)
          · rw [h.2] at he
            obtain ⟨g1, g2⟩ := ih _ _ _ e he
            exact ⟨g1, by rw [g2, h4]; rfl⟩
          · rw [hc s2] at h; cases h.1

/-- with a criterion that never fires and a list `es` as the enumerator's stream, the segmented
    enumeration is `es` from the current position, cut at the fuel and at the first test that raises -/
theorem segEnum_no_restart (hc : ∀ s, prm.criterion s = false) (en : En) (es : List P)
    (hs : ∀ i, prm.stream en i = es[i]?) (hne : ∀ p ∈ es, ∀ e, tp p ≠ .error e) :
    ∀ (fuel : Nat) (s : RSolver P) (pos : Nat),
      segEnum prm tp fuel s en pos = (es.drop pos).take fuel := by
  intro fuel
  induction fuel with
  | zero => intro s pos; simp [segEnum, segRun]
  | succ fuel ih =>
    intro s pos
    cases hp : es[pos]? with
    | none =>
      have : prm.stream en pos = none := by rw [hs, hp]
      have hlen : es.length ≤ pos := by simpa using hp
      simp [segEnum, segRun_none this, List.drop_eq_nil_of_le hlen]
    | some p =>
      have hst : prm.stream en pos = some p := by rw [hs, hp]
      have hmem : p ∈ es := List.mem_of_getElem? hp
      have hd : es.drop pos = p :: es.drop (pos + 1) := by
        have hlt : pos < es.length := by
          rcases Nat.lt_or_ge pos es.length with h | h
          · exact h
          · have : es[pos]? = none := by simp [h]
            rw [this] at hp; cases hp
        have : es[pos] = p := by simpa [List.getElem?_eq_getElem hlt] using hp
        rw [← this]; exact List.drop_eq_getElem_cons hlt
      cases ht : tp p with
      | error er => exact absurd ht (hne p hmem er)
      | ok v =>
        obtain ⟨b, sc⟩ := v
        obtain ⟨s2, _, _, _, _, _, _, h | h⟩ := afterTest_cases prm (testedS s sc) p en (pos + 1)
        · have := ih s2 (pos + 1)
          simp only [segEnum] at this ⊢
          rw [segRun_ok hst ht, h.2, hd]
          simp [this]
        · rw [hc s2] at h; cases h.1

/-! ## Part 3: simulation -/

theorem driveR_finished (r : RStop E) (s : RSolver P) (st : St) (as : List Bool) :
    driveR prm T (.finished r s st : RStep St P E En) as = ⟨[], .finished r, s, st⟩ := by
  cases as <;> rfl

theorem driveR_running (s : RSolver P) (st : St) (as : List Bool) :
    driveR prm T (.running s st : RStep St P E En) as = ⟨[], .outOfFuel, s, st⟩ := by
  cases as <;> rfl

theorem advanceR_succ (fuel : Nat) (s : RSolver P) (st : St) (en : En) (pos : Nat) (dl : List Bool) :
    advanceR prm T (fuel + 1) s st en pos dl =
      match prm.stream en pos with
      | none => .finished (if prm.fixNext then .exhausted else .stopIteration) s st
      | some p =>
        if deadlinePassed dl then .finished .timeout (closeR prm.fixStats s p) st
        else
          match T st p with
          | (st', .error e) => .finished (.raised e) (countedS s) st'
          | (st', .ok (ok, sc)) =>
            if ok then .yielded ⟨p, testedS s sc, st', en, pos + 1, dl.tail, fuel⟩
            else
              advanceR prm T fuel (afterTest prm (testedS s sc) p en (pos + 1)).1 st'
                (afterTest prm (testedS s sc) p en (pos + 1)).2.1
                (afterTest prm (testedS s sc) p en (pos + 1)).2.2 dl.tail := by
  rw [advanceR]
  rfl

theorem closeR_programs (fx : Bool) (s : RSolver P) (p : P) : (closeR fx s p).self.programs = s.self.programs := by
  unfold closeR closeTask
  cases fx <;> rfl

/-- **simulation.**  The restart solver behaves as the plain solver run on the segmented
    enumeration: same yielded programs, corresponding end, same counter, same evaluator state. -/
theorem sim (hT : RefinesS T tp Inv) : ∀ (fuel : Nat) (s : RSolver P) (st : St) (en : En) (pos : Nat)
    (dl as : List Bool) (bs : Solver P), Inv st → bs.programs = s.self.programs →
    (driveR prm T (advanceR prm T fuel s st en pos dl) as).yielded =
      (drive T (advance T bs st (segEnum prm tp fuel s en pos) dl) as).yielded ∧
    (driveR prm T (advanceR prm T fuel s st en pos dl) as).status.toBase =
      (drive T (advance T bs st (segEnum prm tp fuel s en pos) dl) as).status ∧
    (driveR prm T (advanceR prm T fuel s st en pos dl) as).solver.self.programs =
      (drive T (advance T bs st (segEnum prm tp fuel s en pos) dl) as).solver.programs ∧
    (driveR prm T (advanceR prm T fuel s st en pos dl) as).st =
      (drive T (advance T bs st (segEnum prm tp fuel s en pos) dl) as).st := by
  intro fuel
  induction fuel with
  | zero =>
    intro s st en pos dl as bs _ hb
    simp [advanceR, segEnum, segRun, advance, driveR_running, drive_finished, RStatus.toBase, hb]
  | succ fuel ih =>
    intro s st en pos dl as bs hst hb
    rw [advanceR_succ]
    cases hs : prm.stream en pos with
    | none =>
      simp only [segEnum, segRun_none hs, List.map_nil, advance, driveR_finished, drive_finished]
      cases prm.fixNext <;> simp [RStatus.toBase, hb]
    | some p =>
      simp only
      by_cases hd : deadlinePassed dl = true
      · have hes : ∃ rest, segEnum prm tp (fuel + 1) s en pos = p :: rest := by
          cases ht : tp p with
          | error er => exact ⟨[], by simp [segEnum, segRun_error hs ht]⟩
          | ok v => obtain ⟨b, sc⟩ := v; exact ⟨_, by simp only [segEnum, segRun_ok hs ht, List.map_cons]; rfl⟩
        obtain ⟨rest, hes⟩ := hes
        rw [hes, advance_cons]
        simp [hd, driveR_finished, drive_finished, RStatus.toBase, closeR_programs, closeTask, hb]
      · simp only [hd, if_false, Bool.false_eq_true]
        rcases stepR_cases hT st p hst with ⟨st', er, hT', htp, hinv⟩ | ⟨st', b, sc, hT', htp, hinv⟩
        · simp only [segEnum, segRun_error hs htp, List.map_cons, List.map_nil]
          rw [advance_cons]
          simp [hd, hT', driveR_finished, drive_finished, RStatus.toBase, countedS, hb]
        · have hes : segEnum prm tp (fuel + 1) s en pos =
              p :: segEnum prm tp fuel (afterTest prm (testedS s sc) p en (pos + 1)).1
                (afterTest prm (testedS s sc) p en (pos + 1)).2.1
                (afterTest prm (testedS s sc) p en (pos + 1)).2.2 := by
            simp only [segEnum, segRun_ok hs htp, List.map_cons]
          rw [hes, advance_cons]
          simp only [hd, if_false, Bool.false_eq_true, hT']
          have hprog : ({ bs with programs := bs.programs + 1, score := some sc } : Solver P).programs =
              (afterTest prm (testedS s sc) p en (pos + 1)).1.self.programs := by
            rw [afterTest_programs]; simp [testedS, countedS, hb]
          cases b with
          | false =>
            simp only [Bool.false_eq_true, if_false]
            exact ih _ st' _ _ dl.tail as _ hinv hprog
          | true =>
            simp only [if_true]
            cases as with
            | nil => simp [driveR, drive, RStatus.toBase, testedS, countedS, hb]
            | cons a as' =>
              cases a with
              | true =>
                simp [driveR, drive, sendR, send, driveR_finished, drive_finished, RStatus.toBase,
                  closeR_programs, closeTask, testedS, countedS, hb]
              | false =>
                simp only [driveR, drive, sendR, send, Bool.false_eq_true, if_false]
                obtain ⟨g1, g2, g3, g4⟩ := ih _ st' _ _ dl.tail as' _ hinv hprog
                exact ⟨by rw [g1], g2, g3, g4⟩

/-- **accepted run**: the accepted program is an entry of the segmented enumeration, and the solver
    object is the one of that entry, tested, closed -/
theorem accepted_specR (hT : RefinesS T tp Inv) : ∀ (fuel : Nat) (s : RSolver P) (st : St) (en : En) (pos : Nat)
    (dl as : List Bool), Inv st →
    (driveR prm T (advanceR prm T fuel s st en pos dl) as).status = .finished .accepted →
    ∃ pre e post sc, segRun prm tp fuel s en pos = pre ++ e :: post ∧ tp e.p = .ok (true, sc) ∧
      (driveR prm T (advanceR prm T fuel s st en pos dl) as).solver =
        closeR prm.fixStats (testedS e.s sc) e.p := by
  intro fuel
  induction fuel with
  | zero => intro s st en pos dl as _ h; simp [advanceR, driveR_running] at h
  | succ fuel ih =>
    intro s st en pos dl as hst
    rw [advanceR_succ]
    cases hs : prm.stream en pos with
    | none => intro h; cases hfx : prm.fixNext <;> simp [driveR_finished, hfx] at h
    | some p =>
      simp only
      by_cases hd : deadlinePassed dl = true
      · simp [hd, driveR_finished]
      · simp only [hd, if_false, Bool.false_eq_true]
        rcases stepR_cases hT st p hst with ⟨st', er, hT', htp, hinv⟩ | ⟨st', b, sc, hT', htp, hinv⟩
        · simp [hT', driveR_finished]
        · simp only [hT']
          cases b with
          | false =>
            simp only [Bool.false_eq_true, if_false]
            intro h
            obtain ⟨pre, e, post, sc', he, hte, hsol⟩ := ih _ st' _ _ dl.tail as hinv h
            exact ⟨⟨p, en, pos, s⟩ :: pre, e, post, sc', by rw [segRun_ok hs htp, he]; rfl, hte, hsol⟩
          | true =>
            simp only [if_true]
            cases as with
            | nil => simp [driveR]
            | cons a as' =>
              cases a with
              | true =>
                intro _
                exact ⟨[], ⟨p, en, pos, s⟩, _, sc, by rw [segRun_ok hs htp]; rfl, htp,
                  by simp [driveR, sendR, driveR_finished]⟩
              | false =>
                simp only [driveR, sendR, Bool.false_eq_true, if_false]
                intro h
                obtain ⟨pre, e, post, sc', he, hte, hsol⟩ := ih _ st' _ _ dl.tail as' hinv h
                exact ⟨⟨p, en, pos, s⟩ :: pre, e, post, sc', by rw [segRun_ok hs htp, he]; rfl, hte, hsol⟩

/-- **timed-out run**: the deadline struck before an entry of the segmented enumeration was tested;
    the solver object is the one of that entry, closed -/
theorem timeout_specR (hT : RefinesS T tp Inv) : ∀ (fuel : Nat) (s : RSolver P) (st : St) (en : En) (pos : Nat)
    (dl as : List Bool), Inv st →
    (driveR prm T (advanceR prm T fuel s st en pos dl) as).status = .finished .timeout →
    ∃ pre e post, segRun prm tp fuel s en pos = pre ++ e :: post ∧
      (driveR prm T (advanceR prm T fuel s st en pos dl) as).solver = closeR prm.fixStats e.s e.p := by
  intro fuel
  induction fuel with
  | zero => intro s st en pos dl as _ h; simp [advanceR, driveR_running] at h
  | succ fuel ih =>
    intro s st en pos dl as hst
    rw [advanceR_succ]
    cases hs : prm.stream en pos with
    | none => intro h; cases hfx : prm.fixNext <;> simp [driveR_finished, hfx] at h
    | some p =>
      simp only
      by_cases hd : deadlinePassed dl = true
      · intro _
        have hes : ∃ rest, segRun prm tp (fuel + 1) s en pos = ⟨p, en, pos, s⟩ :: rest := by
          cases ht : tp p with
          | error er => exact ⟨[], segRun_error hs ht⟩
          | ok v => obtain ⟨b, sc⟩ := v; exact ⟨_, segRun_ok hs ht⟩
        obtain ⟨rest, hes⟩ := hes
        exact ⟨[], ⟨p, en, pos, s⟩, rest, by rw [hes]; rfl, by simp [hd, driveR_finished]⟩
      · simp only [hd, if_false, Bool.false_eq_true]
        rcases stepR_cases hT st p hst with ⟨st', er, hT', htp, hinv⟩ | ⟨st', b, sc, hT', htp, hinv⟩
        · simp [hT', driveR_finished]
        · simp only [hT']
          cases b with
          | false =>
            simp only [Bool.false_eq_true, if_false]
            intro h
            obtain ⟨pre, e, post, he, hsol⟩ := ih _ st' _ _ dl.tail as hinv h
            exact ⟨⟨p, en, pos, s⟩ :: pre, e, post, by rw [segRun_ok hs htp, he]; rfl, hsol⟩
          | true =>
            simp only [if_true]
            cases as with
            | nil => simp [driveR]
            | cons a as' =>
              cases a with
              | true => simp [driveR, sendR, driveR_finished]
              | false =>
                simp only [driveR, sendR, Bool.false_eq_true, if_false]
                intro h
                obtain ⟨pre, e, post, he, hsol⟩ := ih _ st' _ _ dl.tail as' hinv h
                exact ⟨⟨p, en, pos, s⟩ :: pre, e, post, by rw [segRun_ok hs htp, he]; rfl, hsol⟩

/-- a run that does not close the task (exhausted, StopIteration, exception, suspended, out of fuel)
    leaves the statistics untouched -/
theorem unclosed_frame : ∀ (fuel : Nat) (s : RSolver P) (st : St) (en : En) (pos : Nat) (dl as : List Bool),
    (driveR prm T (advanceR prm T fuel s st en pos dl) as).status ≠ .finished .accepted →
    (driveR prm T (advanceR prm T fuel s st en pos dl) as).status ≠ .finished .timeout →
    Frame s (driveR prm T (advanceR prm T fuel s st en pos dl) as).solver := by
  intro fuel
  induction fuel with
  | zero => intro s st en pos dl as _ _; simp [advanceR, driveR_running]; exact Frame.refl s
  | succ fuel ih =>
    intro s st en pos dl as
    rw [advanceR_succ]
    cases hs : prm.stream en pos with
    | none => intro _ _; simp [driveR_finished]; exact Frame.refl s
    | some p =>
      simp only
      by_cases hd : deadlinePassed dl = true
      · simp [hd, driveR_finished]
      · simp only [hd, if_false, Bool.false_eq_true]
        generalize T st p = r
        obtain ⟨st', a⟩ := r
        cases a with
        | error er => intro _ _; simp [driveR_finished]; exact frame_countedS s
        | ok v =>
          obtain ⟨b, sc⟩ := v
          cases b with
          | false =>
            simp only [Bool.false_eq_true, if_false]
            intro h1 h2
            exact (frame_testedS s sc).trans ((frame_afterTest prm _ _ _ _).trans (ih _ st' _ _ dl.tail as h1 h2))
          | true =>
            simp only [if_true]
            cases as with
            | nil => intro _ _; simp [driveR]; exact frame_testedS s sc
            | cons a as' =>
              cases a with
              | true => simp [driveR, sendR, driveR_finished]
              | false =>
                simp only [driveR, sendR, Bool.false_eq_true, if_false]
                intro h1 h2
                exact (frame_testedS s sc).trans ((frame_afterTest prm _ _ _ _).trans (ih _ st' _ _ dl.tail as' h1 h2))

/-- how a run can end without a stop from outside: the stream of the current enumerator ended
    (`exhausted` after the repair C10-F2, `stopIteration` = RuntimeError before) -/
theorem end_of_stream : ∀ (fuel : Nat) (s : RSolver P) (st : St) (en : En) (pos : Nat) (dl as : List Bool),
    ((driveR prm T (advanceR prm T fuel s st en pos dl) as).status = .finished .exhausted → prm.fixNext = true) ∧
    ((driveR prm T (advanceR prm T fuel s st en pos dl) as).status = .finished .stopIteration → prm.fixNext = false) := by
  intro fuel
  induction fuel with
  | zero => intro s st en pos dl as; simp [advanceR, driveR_running]
  | succ fuel ih =>
    intro s st en pos dl as
    rw [advanceR_succ]
    cases hs : prm.stream en pos with
    | none => cases hfx : prm.fixNext <;> simp [driveR_finished, hfx]
    | some p =>
      simp only
      by_cases hd : deadlinePassed dl = true
      · simp [hd, driveR_finished]
      · simp only [hd, if_false, Bool.false_eq_true]
        generalize T st p = r
        obtain ⟨st', a⟩ := r
        cases a with
        | error er => simp [driveR_finished]
        | ok v =>
          obtain ⟨b, sc⟩ := v
          cases b with
          | false => simp only [Bool.false_eq_true, if_false]; exact ih _ st' _ _ dl.tail as
          | true =>
            simp only [if_true]
            cases as with
            | nil => simp [driveR]
            | cons a as' =>
              cases a with
              | true => simp [driveR, sendR, driveR_finished]
              | false => simp only [driveR, sendR, Bool.false_eq_true, if_false]; exact ih _ st' _ _ dl.tail as'

end machine
end PS.C10
