/-
  C15 — helper lemmas, character level, programs: `split(" ")` cuts the printed form of an
  applicative term into its words, the word branch of `parse_program` reads every word back,
  the bookkeeping loop computes the call counts, and the re-print check succeeds.
-/
import PS.Proofs.ParseProg
namespace PS.C15
open PS

/-! ## `split(" ")` -/

theorem splitBlank_ne_nil (s : Str) : splitBlank s ≠ [] := by
  cases s with
  | nil => simp [splitBlank]
  | cons c r =>
    rw [splitBlank]
    split
    · simp
    · split <;> simp

theorem splitBlank_noblank (w : Str) (h : ∀ x ∈ w, x ≠ ' ') : splitBlank w = [w] := by
  induction w with
  | nil => rfl
  | cons c r ih =>
    rw [splitBlank, ih (fun x hx => h x (by simp [hx]))]
    simp [h c (by simp)]

theorem splitBlank_append_blank (u v : Str) :
    splitBlank (u ++ ' ' :: v) = splitBlank u ++ splitBlank v := by
  induction u with
  | nil =>
    show splitBlank (' ' :: v) = splitBlank [] ++ splitBlank v
    rw [splitBlank]
    cases h : splitBlank v with
    | nil => exact absurd h (splitBlank_ne_nil v)
    | cons w ws => simp [splitBlank, h]
  | cons c u ih =>
    show splitBlank (c :: (u ++ ' ' :: v)) = splitBlank (c :: u) ++ splitBlank v
    rw [splitBlank, ih, splitBlank]
    cases h : splitBlank u with
    | nil => exact absurd h (splitBlank_ne_nil u)
    | cons w ws =>
      by_cases hc : c = ' '
      · simp [hc]
      · simp [hc]

/-! ## words of a printed program -/

def closes (c : Nat) : Str := List.replicate c ')'

mutual
  /-- the words of `str(t)` followed by `c` closing parentheses (of enclosing calls) -/
  def words (c : Nat) : Prog → List Str
    | .node .app [] => [closes c]
    | .node .app (f :: args) => ('(' :: printProg f) :: wordsL (c + 1) args
    | .node l _ => [leafWord l ++ closes c]
  /-- the words of an argument list whose last word carries `c` closing parentheses -/
  def wordsL (c : Nat) : List Prog → List Str
    | [] => []
    | [a] => words c a
    | a :: b :: as => words 0 a ++ wordsL c (b :: as)
end

/-- the text of an argument list without its leading blank -/
def printArgs1 : List Prog → Str
  | [] => []
  | a :: as => printProg a ++ printArgs as

theorem closes_succ (c : Nat) : ')' :: closes c = closes (c + 1) := by
  simp [closes, List.replicate_succ]

theorem closes_no_blank (c : Nat) : ∀ x ∈ closes c, x ≠ ' ' := by
  intro x hx
  have : x = ')' := (List.mem_replicate.mp hx).2
  subst this; decide

theorem closes_paren (c : Nat) : ∀ x ∈ closes c, isParen x = true := by
  intro x hx
  have : x = ')' := (List.mem_replicate.mp hx).2
  subst this; decide

theorem goodWord_no_blank {w : Str} (h : goodWord w = true) : ∀ x ∈ w, x ≠ ' ' := by
  intro x hx
  simp only [goodWord, Bool.and_eq_true, List.all_eq_true] at h
  have := h.2 x hx
  simp only [bne_iff_ne, ne_eq] at this
  exact this.1.1

theorem goodWord_ne_nil {w : Str} (h : goodWord w = true) : w ≠ [] := by
  intro e; subst e; simp [goodWord] at h

/-- a leaf satisfying the guard -/
theorem good_leaf_shape {dsl : Dsl} {tr : TyO} {consts : Consts} {f : Prog}
    (hl : isLeaf f = true) (hg : goodProg dsl tr consts f = true) :
    ∃ l, f = .node l [] ∧ goodLeaf dsl tr consts l = true ∧ printProg f = leafWord l := by
  obtain ⟨l, ks⟩ := f
  cases l with
  | app => simp [isLeaf] at hl
  | prim n ty =>
    simp only [goodProg, Bool.and_eq_true, List.isEmpty_iff] at hg
    obtain ⟨rfl, h2⟩ := hg
    exact ⟨_, rfl, h2, by simp [printProg, leafWord]⟩
  | var n ty =>
    simp only [goodProg, Bool.and_eq_true, List.isEmpty_iff] at hg
    obtain ⟨rfl, h2⟩ := hg
    exact ⟨_, rfl, h2, by simp [printProg, leafWord]⟩
  | const ty v hv =>
    simp only [goodProg, Bool.and_eq_true, List.isEmpty_iff] at hg
    obtain ⟨rfl, h2⟩ := hg
    exact ⟨_, rfl, h2, by simp [printProg, leafWord]⟩

/-! ## `mapM` in `Except` -/

theorem mapM_cons_ok {α β} {f : α → Res β} {a : α} {l : List α} {b : β} {bs : List β}
    (h1 : f a = .ok b) (h2 : l.mapM f = .ok bs) : (a :: l).mapM f = .ok (b :: bs) := by
  rw [List.mapM_cons, h1, h2]; rfl

theorem mapM_append_ok {α β} {f : α → Res β} {l1 l2 : List α} {b1 b2 : List β}
    (h1 : l1.mapM f = .ok b1) (h2 : l2.mapM f = .ok b2) : (l1 ++ l2).mapM f = .ok (b1 ++ b2) := by
  rw [List.mapM_append, h1, h2]; rfl

/-! ## the bookkeeping loop, one word -/

theorem closeLoop_closes (c : Nat) (d : Char) (r : Str) (hd : d ≠ ')') :
    ∀ (level : Int) (levels : List Nat), c ≤ levels.length →
      closeLoop (closes c ++ d :: r) level levels = .ok (level - c, levels.drop c) := by
  induction c with
  | zero => intro level levels _; simp [closes, closeLoop, hd]
  | succ c ih =>
    intro level levels hc
    cases levels with
    | nil => simp at hc
    | cons top ls =>
      rw [← closes_succ]
      show closeLoop (')' :: (closes c ++ d :: r)) level (top :: ls) = _
      rw [closeLoop]
      simp only [if_true]
      rw [ih (level - 1) ls (by simpa using hc)]
      have e : level - 1 - (c : Int) = level - ((c + 1 : Nat) : Int) := by omega
      rw [e]; rfl

theorem incrAt_length (fc : List Nat) (i : Nat) : (incrAt fc i).length = fc.length := by
  induction fc generalizing i with
  | nil => rfl
  | cons x xs ih => cases i <;> simp [incrAt, ih]

theorem incrAt_append (F : List Nat) (x : Nat) (S : List Nat) :
    incrAt (F ++ x :: S) F.length = F ++ (x + 1) :: S := by
  induction F with
  | nil => rfl
  | cons y F ih => simp [incrAt, ih]

/-- the reversed word starts with a character that is not `)` -/
theorem reverse_word_closes (w : Str) (c : Nat) (hw : goodWord w = true) :
    ∃ d r, (w ++ closes c).reverse = closes c ++ d :: r ∧ d ≠ ')' := by
  have hne := goodWord_ne_nil hw
  have hnp := goodWord_not_paren hw
  refine ⟨w.getLast hne, w.dropLast.reverse, ?_, ?_⟩
  · rw [List.reverse_append]
    have : (closes c).reverse = closes c := by simp [closes]
    rw [this]
    congr 1
    conv => lhs; rw [← List.dropLast_concat_getLast hne]
    simp
  · intro e
    have := hnp _ (List.getLast_mem hne)
    rw [e] at this
    revert this; decide

/-- a word that is an argument, possibly closing `c` calls -/
theorem bookLoop_leaf (w : Str) (c : Nat) (rest : List Str) (fc : List Nat) (level : Int)
    (top : Nat) (ls : List Nat) (hw : goodWord w = true) (hl : 0 < level) (hc : c ≤ ls.length + 1) :
    bookLoop ((w ++ closes c) :: rest) fc level (top :: ls) =
      bookLoop rest (incrAt fc top ++ [0]) (level - c) ((top :: ls).drop c) := by
  obtain ⟨d, r, e, hd⟩ := reverse_word_closes w c hw
  have hhead : (w ++ closes c).head? ≠ some '(' := by
    cases w with
    | nil => exact absurd rfl (goodWord_ne_nil hw)
    | cons x xs =>
      have := goodWord_not_paren hw x (by simp)
      intro h
      simp only [List.cons_append, List.head?_cons, Option.some.injEq] at h
      rw [h] at this; revert this; decide
  rw [bookLoop]
  simp only [hl, if_true, hhead, if_false]
  rw [e, closeLoop_closes c d r hd level (top :: ls) (by simpa using hc)]

/-- the head word of a call written as an argument -/
theorem bookLoop_head (w : Str) (rest : List Str) (fc : List Nat) (level : Int)
    (top : Nat) (ls : List Nat) (hw : goodWord w = true) (hl : 0 < level) :
    bookLoop (('(' :: w) :: rest) fc level (top :: ls) =
      bookLoop rest (incrAt fc top ++ [0]) (level + 1) (fc.length :: top :: ls) := by
  obtain ⟨d, r, e, hd⟩ := reverse_word_closes w 0 hw
  simp only [closes, List.replicate_zero, List.append_nil, List.nil_append] at e
  rw [bookLoop]
  simp only [hl, if_true, List.head?_cons]
  rw [List.reverse_cons, e, List.cons_append, closeLoop]
  simp [hd, incrAt_length]

/-- the head word of the outermost call -/
theorem bookLoop_head0 (w : Str) (rest : List Str) (hw : goodWord w = true) :
    bookLoop (('(' :: w) :: rest) [] 0 [] = bookLoop rest [0] 1 [0] := by
  obtain ⟨d, r, e, hd⟩ := reverse_word_closes w 0 hw
  simp only [closes, List.replicate_zero, List.append_nil, List.nil_append] at e
  rw [bookLoop]
  simp only [Int.lt_irrefl, if_false, List.head?_cons, if_true]
  rw [List.reverse_cons, e, List.cons_append, closeLoop]
  simp [hd]

/-! ## the three passes over the words of a printed term -/

/-- what `split(" ")`, the word parser and the bookkeeping loop do on the words of `t`
    (written in argument position, followed by `c` closing parentheses) -/
structure WordsOK (dsl : Dsl) (tr : TyO) (consts : Consts) (t : Prog) : Prop where
  split : ∀ c, splitBlank (printProg t ++ closes c) = words c t
  atoms : ∀ c, (words c t).mapM (parseAtom dsl tr consts) = .ok (leaves t)
  book : ∀ (c : Nat) (F : List Nat) (x : Nat) (S ls : List Nat) (level : Int) (rest : List Str),
    0 < level → c ≤ ls.length + 1 →
    bookLoop (words c t ++ rest) (F ++ x :: S) level (F.length :: ls) =
      bookLoop rest (F ++ (x + 1) :: (S ++ calls t)) (level - c) ((F.length :: ls).drop c)
  depth : Tree.depth t ≤ (leaves t).length

structure WordsLOK (dsl : Dsl) (tr : TyO) (consts : Consts) (ts : List Prog) : Prop where
  split : ∀ c, splitBlank (printArgs1 ts ++ closes c) = wordsL c ts
  atoms : ∀ c, (wordsL c ts).mapM (parseAtom dsl tr consts) = .ok (leavesL ts)
  book : ∀ (c : Nat) (F : List Nat) (x : Nat) (S ls : List Nat) (level : Int) (rest : List Str),
    0 < level → c ≤ ls.length + 1 →
    bookLoop (wordsL c ts ++ rest) (F ++ x :: S) level (F.length :: ls) =
      bookLoop rest (F ++ (x + ts.length) :: (S ++ callsL ts)) (level - c) ((F.length :: ls).drop c)
  depth : Tree.depthList ts ≤ (leavesL ts).length
  pos : 0 < (leavesL ts).length

theorem words_leaf {dsl : Dsl} {tr : TyO} {consts : Consts} (l : PL)
    (hg : goodLeaf dsl tr consts l = true) : WordsOK dsl tr consts (.node l []) := by
  have hw := leafWord_good hg
  have hnapp : l ≠ .app := by intro e; subst e; simp [goodLeaf] at hg
  have hwords : ∀ c, words c (.node l []) = [leafWord l ++ closes c] := by
    intro c; cases l <;> first | exact absurd rfl hnapp | simp [words]
  have hprint : printProg (.node l []) = leafWord l := by
    cases l <;> first | exact absurd rfl hnapp | simp [printProg, leafWord]
  have hleaves : leaves (.node l []) = [.node l []] := by
    cases l <;> first | exact absurd rfl hnapp | simp [leaves]
  have hcalls : calls (.node l []) = [0] := by
    cases l <;> first | exact absurd rfl hnapp | simp [calls]
  refine ⟨?_, ?_, ?_, ?_⟩
  · intro c
    rw [hwords, hprint]
    apply splitBlank_noblank
    intro x hx
    rcases List.mem_append.mp hx with h | h
    · exact goodWord_no_blank hw x h
    · exact closes_no_blank c x h
  · intro c
    rw [hwords, hleaves]
    have := parseAtom_leaf dsl tr consts l [] (closes c) (by simp) (closes_paren c) hg
    exact mapM_cons_ok (by simpa using this) rfl
  · intro c F x S ls level rest hl hc
    rw [hwords, hcalls]
    show bookLoop ((leafWord l ++ closes c) :: rest) _ _ _ = _
    rw [bookLoop_leaf _ c rest _ level _ ls hw hl hc, incrAt_append]
    simp
  · rw [hleaves]; simp [Tree.depth, Tree.depthList]

theorem printArgs_cons (a : Prog) (as : List Prog) :
    printArgs (a :: as) = ' ' :: printArgs1 (a :: as) := by
  simp [printArgs, printArgs1]

mutual
  theorem words_ok (dsl : Dsl) (tr : TyO) (consts : Consts) :
      (t : Prog) → goodProg dsl tr consts t = true → WordsOK dsl tr consts t
    | .node .app [], h => by simp [goodProg] at h
    | .node .app [_], h => by simp [goodProg] at h
    | .node .app (f :: a :: as), h => by
      obtain ⟨f', a', as', heq, hf, hlen, hgf, hgs⟩ := goodProg_app h
      cases heq
      obtain ⟨l, rfl, hgl, hpf⟩ := good_leaf_shape hf hgf
      have hw := leafWord_good hgl
      have L := wordsL_ok dsl tr consts (a :: as) hgs (by simp)
      have hwords : ∀ c, words c (.node .app (.node l [] :: a :: as))
          = ('(' :: leafWord l) :: wordsL (c + 1) (a :: as) := by
        intro c; rw [words, hpf]
      have hleaves : leaves (.node .app (.node l [] :: a :: as))
          = .node l [] :: leavesL (a :: as) := by
        rw [leaves, leavesL, isLeaf_leaves hf]; rfl
      have hcalls : calls (.node .app (.node l [] :: a :: as))
          = (a :: as).length :: callsL (a :: as) := by
        rw [calls]
      refine ⟨?_, ?_, ?_, ?_⟩
      · intro c
        rw [hwords, ← L.split (c + 1)]
        have e : printProg (.node .app (.node l [] :: a :: as)) ++ closes c
            = ('(' :: leafWord l) ++ ' ' :: (printArgs1 (a :: as) ++ closes (c + 1)) := by
          have e0 : printProg (.node .app (.node l [] :: a :: as))
              = '(' :: leafWord l ++ printArgs (a :: as) ++ [')'] := by
            rw [printProg, printApp, hpf]
            all_goals simp
          rw [e0, printArgs_cons, ← closes_succ]
          simp
        rw [e, splitBlank_append_blank, splitBlank_noblank]
        · rfl
        · intro x hx
          rcases List.mem_cons.mp hx with e | e
          · subst e; decide
          · exact goodWord_no_blank hw x e
      · intro c
        rw [hwords, hleaves]
        have := parseAtom_leaf dsl tr consts l ['('] [] (by simp [isParen]) (by simp) hgl
        exact mapM_cons_ok (by simpa using this) (L.atoms (c + 1))
      · intro c F x S ls level rest hl hc
        rw [hwords, hcalls]
        show bookLoop (('(' :: leafWord l) :: (wordsL (c + 1) (a :: as) ++ rest)) _ _ _ = _
        rw [bookLoop_head _ _ _ level _ ls hw hl, incrAt_append]
        have e1 : F ++ (x + 1) :: S ++ [0] = (F ++ (x + 1) :: S) ++ 0 :: [] := by simp
        have e2 : (F ++ x :: S).length = (F ++ (x + 1) :: S).length := by simp
        rw [e1, e2, L.book (c + 1) (F ++ (x + 1) :: S) 0 [] (F.length :: ls) (level + 1) rest
          (by omega) (by simp; omega)]
        have e3 : level + 1 - ((c + 1 : Nat) : Int) = level - (c : Int) := by omega
        rw [e3]
        simp
      · have := L.depth
        have hp := L.pos
        rw [hleaves]
        simp only [Tree.depth, Tree.depthList, List.length_cons] at this ⊢
        omega
    | .node (.prim n ty) ks, h => by
      simp only [goodProg, Bool.and_eq_true, List.isEmpty_iff] at h
      obtain ⟨rfl, h2⟩ := h
      exact words_leaf _ h2
    | .node (.var n ty) ks, h => by
      simp only [goodProg, Bool.and_eq_true, List.isEmpty_iff] at h
      obtain ⟨rfl, h2⟩ := h
      exact words_leaf _ h2
    | .node (.const ty v hv) ks, h => by
      simp only [goodProg, Bool.and_eq_true, List.isEmpty_iff] at h
      obtain ⟨rfl, h2⟩ := h
      exact words_leaf _ h2
  theorem wordsL_ok (dsl : Dsl) (tr : TyO) (consts : Consts) :
      (ts : List Prog) → goodProgs dsl tr consts ts = true → ts ≠ [] → WordsLOK dsl tr consts ts
    | [], _, hne => absurd rfl hne
    | [a], h, _ => by
      have hga : goodProg dsl tr consts a = true := by simp [goodProgs] at h; exact h
      have A := words_ok dsl tr consts a hga
      refine ⟨?_, ?_, ?_, ?_, ?_⟩
      · intro c; simpa [printArgs1, printArgs, wordsL] using A.split c
      · intro c; simpa [wordsL, leavesL] using A.atoms c
      · intro c F x S ls level rest hl hc
        simpa [wordsL, callsL] using A.book c F x S ls level rest hl hc
      · have := A.depth
        simp only [Tree.depthList, leavesL, List.append_nil]; omega
      · have := leaves_ne_nil a hga
        simp only [leavesL, List.append_nil]
        exact List.length_pos_iff.mpr this
    | a :: b :: bs, h, _ => by
      have hga : goodProg dsl tr consts a = true := by simp [goodProgs] at h; exact h.1
      have hgs : goodProgs dsl tr consts (b :: bs) = true := by
        simp only [goodProgs, Bool.and_eq_true] at h ⊢; exact h.2
      have A := words_ok dsl tr consts a hga
      have L := wordsL_ok dsl tr consts (b :: bs) hgs (by simp)
      refine ⟨?_, ?_, ?_, ?_, ?_⟩
      · intro c
        have e : printArgs1 (a :: b :: bs) ++ closes c
            = (printProg a ++ closes 0) ++ ' ' :: (printArgs1 (b :: bs) ++ closes c) := by
          rw [printArgs1, printArgs_cons]; simp [closes]
        rw [e, splitBlank_append_blank, A.split 0, L.split c, wordsL]
      · intro c
        rw [wordsL, leavesL]
        exact mapM_append_ok (A.atoms 0) (L.atoms c)
      · intro c F x S ls level rest hl hc
        rw [wordsL, List.append_assoc, A.book 0 F x S ls level _ hl (by omega)]
        have e : level - ((0 : Nat) : Int) = level := by simp
        rw [e, List.drop_zero, L.book c F (x + 1) (S ++ calls a) ls level rest hl hc]
        simp only [callsL, List.length_cons, List.append_assoc]
        congr 3
        omega
      · have := A.depth
        have := L.depth
        simp only [Tree.depthList, leavesL, List.length_append] at *
        omega
      · have := L.pos
        simp only [leavesL, List.length_append] at *
        omega
end

/-! ## the re-print check -/

theorem isPrefixOf_append_drop (old l : Str) (h : old.isPrefixOf l = true) :
    old ++ l.drop old.length = l := by
  obtain ⟨t, rfl⟩ := List.isPrefixOf_iff_prefix.mp h
  rw [List.drop_left]

theorem replaceAll_same (old : Str) : ∀ (fuel : Nat) (s : Str), replaceAll fuel s old old = s := by
  intro fuel
  induction fuel with
  | zero => intro s; rfl
  | succ fuel ih =>
    intro s
    cases s with
    | nil => rfl
    | cons c r =>
      rw [replaceAll]
      by_cases h : old.isPrefixOf (c :: r) = true ∧ old ≠ []
      · rw [if_pos h, ih, isPrefixOf_append_drop old (c :: r) h.1]
      · rw [if_neg h, ih]

theorem checkRepr_id (consts : Consts) (h : goodConsts consts = true) (s : Str) :
    checkRepr consts s = s := by
  unfold checkRepr
  induction consts generalizing s with
  | nil => rfl
  | cons kv rest ih =>
    simp only [goodConsts, List.all_cons, Bool.and_eq_true, beq_iff_eq] at h
    rw [List.foldl_cons]
    have e : kv.1 = kv.2.2 := h.1
    simp only [e, replaceAll_same]
    exact ih (by simpa [goodConsts] using h.2) s

/-! ## the round trip of an application -/

theorem bookLoop_nil (fc : List Nat) (level : Int) (levels : List Nat) :
    bookLoop [] fc level levels = .ok fc := by simp [bookLoop]

/-- `parse_program(str(t))` for a term `t` that is an application -/
theorem parseProgram_print_app (dsl : Dsl) (tr : TyO) (consts : Consts) (chk : Bool)
    (ks : List Prog) (h : goodProg dsl tr consts (.node .app ks) = true)
    (hc : chk = true → goodConsts consts = true) :
    parseProgram dsl tr consts chk (printProg (.node .app ks)) = .ok (.node .app ks) := by
  obtain ⟨f, a, as, rfl, hf, hlen, hgf, hgs⟩ := goodProg_app h
  obtain ⟨l, rfl, hgl, hpf⟩ := good_leaf_shape hf hgf
  have hw := leafWord_good hgl
  have W := words_ok dsl tr consts _ h
  have L := wordsL_ok dsl tr consts (a :: as) hgs (by simp)
  have hsplit : splitBlank (printProg (.node .app (.node l [] :: a :: as)))
      = words 0 (.node .app (.node l [] :: a :: as)) := by
    simpa [closes] using W.split 0
  have hblank : ' ' ∈ printProg (.node .app (.node l [] :: a :: as)) := by
    have e0 : printProg (.node .app (.node l [] :: a :: as))
        = '(' :: leafWord l ++ printArgs (a :: as) ++ [')'] := by
      rw [printProg, printApp, hpf]
      all_goals simp
    rw [e0, printArgs_cons]; simp
  have hbook : bookLoop (words 0 (.node .app (.node l [] :: a :: as))) [] 0 []
      = .ok (calls (.node .app (.node l [] :: a :: as))) := by
    rw [words, hpf, bookLoop_head0 _ _ hw]
    have := L.book 1 [] 0 [] [] 1 [] (by decide) (by simp)
    simp only [List.append_nil, List.nil_append, List.length_nil] at this
    rw [this, bookLoop_nil, calls]
    simp
  obtain ⟨L', C', hstack, _⟩ := stack_ok dsl tr consts _ h
    ((leaves (.node .app (.node l [] :: a :: as))).length + 1) [] []
    (Nat.le_succ_of_le W.depth)
  simp only [List.append_nil] at hstack
  unfold parseProgram
  simp only [hblank, if_true, hsplit, W.atoms 0, hbook, hstack]
  cases chk with
  | false => simp
  | true => simp [checkRepr_id consts (hc rfl)]

end PS.C15
