/-
  `CFG.programs()` (cfg.py:37-53, model `PS.G.programs`) is correct whenever it succeeds:
  if it returns a number (not -1), every derivation from the start is finite and the number is
  the number of terms of the language — whatever the order in which the table is processed
  (the success of the fill certifies that the order was a valid one).
-/
import PS.Model.Cfg
import PS.Model.Prob
namespace PS.G.Programs
open PS PS.G

/-! ### `bounded` is monotone, `count` is stable once `bounded` -/

/-- helper: `bounded` is monotone -/
theorem bounded_mono {S : Type} [DecidableEq S] (G : TT S Unit) (k : Nat) (nt : NT S Unit)
    (h : bounded G k nt = true) : bounded G (k + 1) nt = true := by
  induction k generalizing nt with
  | zero => simp [bounded] at h
  | succ k ih =>
    simp only [bounded] at h ⊢
    cases hl : AList.lookup nt G.rules with
    | none => rw [hl] at h; simp at h
    | some rs =>
      rw [hl] at h
      simp only [List.all_eq_true] at h ⊢
      intro r hr a ha
      exact ih _ (h r hr a ha)

theorem bounded_le {S : Type} [DecidableEq S] (G : TT S Unit) (k k' : Nat) (nt : NT S Unit)
    (h : bounded G k nt = true) (hle : k ≤ k') : bounded G k' nt = true := by
  induction hle with
  | refl => exact h
  | step _ ih => exact bounded_mono G _ nt ih

/-- one more level does not add terms once all derivations are exhausted -/
theorem count_succ {S : Type} [DecidableEq S] (G : TT S Unit) (k : Nat) (nt : NT S Unit)
    (h : bounded G k nt = true) : count G (k + 1) nt = count G k nt := by
  induction k generalizing nt with
  | zero => simp [bounded] at h
  | succ k ih =>
    simp only [bounded] at h
    rw [count, count]
    cases hl : AList.lookup nt G.rules with
    | none => rfl
    | some rs =>
      rw [hl] at h
      simp only [List.all_eq_true] at h
      simp only
      congr 1
      apply List.map_congr_left
      intro r hr
      congr 1
      apply List.map_congr_left
      intro a ha
      exact ih _ (h r hr a ha)

/-- helper: once all derivations are exhausted the counter is stable -/
theorem count_stable {S : Type} [DecidableEq S] (G : TT S Unit) (k k' : Nat) (nt : NT S Unit)
    (h : bounded G k nt = true) (hle : k ≤ k') : count G k' nt = count G k nt := by
  induction hle with
  | refl => rfl
  | step hle' ih =>
    rw [count_succ G _ nt (bounded_le G k _ nt h hle'), ih]

/-- two exhausting budgets give the same number -/
theorem count_eq_of_bounded {S : Type} [DecidableEq S] (G : TT S Unit) (k k' : Nat)
    (nt : NT S Unit) (h : bounded G k nt = true) (h' : bounded G k' nt = true) :
    count G k nt = count G k' nt := by
  rcases Nat.le_total k k' with hle | hle
  · exact (count_stable G k k' nt h hle).symm
  · exact count_stable G k' k nt h' hle

/-! ### the table fill -/

/-- a common budget for all the arguments of one rule -/
theorem exists_uniform_args (G : CFG) (l : List (Ty × CFGState))
    (h : ∀ a ∈ l, ∃ k, bounded G k (toNT a) = true) :
    ∃ K, ∀ a ∈ l, bounded G K (toNT a) = true := by
  induction l with
  | nil => exact ⟨0, by simp⟩
  | cons x xs ih =>
    obtain ⟨K1, h1⟩ := ih (fun a ha => h a (List.mem_cons_of_mem _ ha))
    obtain ⟨k, hk⟩ := h x List.mem_cons_self
    refine ⟨max K1 k, ?_⟩
    intro a ha
    rcases List.mem_cons.mp ha with rfl | ha
    · exact bounded_le G _ _ _ hk (Nat.le_max_right ..)
    · exact bounded_le G _ _ _ (h1 a ha) (Nat.le_max_left ..)

/-- a common budget for all the arguments of all the rules of a non-terminal -/
theorem exists_uniform_rules (G : CFG) (rs : AList Sym (List (Ty × CFGState) × Unit))
    (h : ∀ r ∈ rs, ∀ a ∈ r.2.1, ∃ k, bounded G k (toNT a) = true) :
    ∃ K, ∀ r ∈ rs, ∀ a ∈ r.2.1, bounded G K (toNT a) = true := by
  induction rs with
  | nil => exact ⟨0, by simp⟩
  | cons x xs ih =>
    obtain ⟨K1, h1⟩ := ih (fun r hr => h r (List.mem_cons_of_mem _ hr))
    obtain ⟨k, hk⟩ := exists_uniform_args G x.2.1 (h x List.mem_cons_self)
    refine ⟨max K1 k, ?_⟩
    intro r hr a ha
    rcases List.mem_cons.mp hr with rfl | hr
    · exact bounded_le G _ _ _ (hk a ha) (Nat.le_max_right ..)
    · exact bounded_le G _ _ _ (h1 r hr a ha) (Nat.le_max_left ..)

/-- the invariant of the fill: every entry of `count` is the number of terms of its
    non-terminal, all of whose derivations are finite -/
def Inv (G : CFG) (cnt : AList (Ty × CFGState) Nat) : Prop :=
  ∀ a c, AList.lookup a cnt = some c →
    ∃ k, bounded G k (toNT a) = true ∧ c = count G k (toNT a)

theorem inv_nil (G : CFG) : Inv G [] := by
  intro a c h; simp at h

/-- one iteration of the loop of `CFG.programs()` preserves the invariant -/
theorem inv_step (G : CFG) (nt : CNT) (rs : AList Sym (List (Ty × CFGState) × Unit))
    (cnt : AList (Ty × CFGState) Nat) (hl : AList.lookup nt G.rules = some rs)
    (hinv : Inv G cnt)
    (hall : (rs.map (fun r => (r.2.1.map (fun a => AList.lookup a cnt)))).all
              (fun l => l.all Option.isSome) = true) :
    Inv G (AList.insert (nt.1, nt.2.1)
      (((rs.map (fun r => (r.2.1.map (fun a => AList.lookup a cnt)))).map
          (fun l => (l.map (fun o => o.getD 0)).foldl (· * ·) 1)).sum) cnt) := by
  obtain ⟨ty, st, ⟨⟩⟩ := nt
  -- every argument has an entry, hence is bounded with the right count
  have hsome : ∀ r ∈ rs, ∀ a ∈ r.2.1, ∃ c, AList.lookup a cnt = some c := by
    intro r hr a ha
    simp only [List.all_eq_true, List.mem_map, forall_exists_index, and_imp,
      forall_apply_eq_imp_iff₂] at hall
    have := hall r hr a ha
    cases hc : AList.lookup a cnt with
    | none => rw [hc] at this; simp at this
    | some c => exact ⟨c, rfl⟩
  obtain ⟨K, hK⟩ := exists_uniform_rules G rs (fun r hr a ha => by
    obtain ⟨c, hc⟩ := hsome r hr a ha
    obtain ⟨k, hk, _⟩ := hinv a c hc
    exact ⟨k, hk⟩)
  intro a c hac
  rw [AList.lookup_insert] at hac
  split at hac
  · rename_i heq
    subst heq
    have hnt : toNT (ty, st) = (ty, (st, ())) := rfl
    rw [hnt]
    refine ⟨K + 1, ?_, ?_⟩
    · simp only [bounded, hl, List.all_eq_true]
      intro r hr a ha
      exact hK r hr a ha
    · injection hac with hac
      rw [← hac]
      simp only [count, hl, List.map_map]
      congr 1
      apply List.map_congr_left
      intro r hr
      simp only [Function.comp]
      congr 1
      rw [List.map_map]
      apply List.map_congr_left
      intro a ha
      simp only [Function.comp]
      obtain ⟨c', hc'⟩ := hsome r hr a ha
      obtain ⟨k, hk, hck⟩ := hinv a c' hc'
      rw [hc', Option.getD_some, hck]
      exact count_eq_of_bounded G k K (toNT a) hk (hK r hr a ha)
  · exact hinv a c hac

/-- the whole loop preserves the invariant, for any list of entries of the table -/
theorem inv_fill (G : CFG) (hk : (AList.keys G.rules).Nodup) (tbl : Table)
    (cnt cnt' : AList (Ty × CFGState) Nat) (hmem : ∀ e ∈ tbl, e ∈ G.rules)
    (hinv : Inv G cnt) (h : programsFill tbl cnt = some cnt') : Inv G cnt' := by
  induction tbl generalizing cnt with
  | nil =>
    simp only [programsFill, Option.some.injEq] at h
    subst h; exact hinv
  | cons e rest ih =>
    obtain ⟨nt, rs⟩ := e
    simp only [programsFill] at h
    split at h
    · rename_i hall
      have hl : AList.lookup nt G.rules = some rs :=
        AList.lookup_of_mem_nodup hk (hmem _ List.mem_cons_self)
      exact ih _ (fun e he => hmem e (List.mem_cons_of_mem _ he))
        (inv_step G nt rs cnt hl hinv hall) h
    · cases h

/-! ### the sort only permutes the table -/

theorem mem_insertByDepth (x y : CNT × AList Sym (List (Ty × CFGState) × Unit))
    (l : List (CNT × AList Sym (List (Ty × CFGState) × Unit))) :
    y ∈ insertByDepth x l ↔ y = x ∨ y ∈ l := by
  induction l with
  | nil => simp [insertByDepth]
  | cons z zs ih =>
    simp only [insertByDepth]
    split
    · simp
    · simp only [List.mem_cons, ih]
      constructor
      · rintro (h | h | h)
        · exact Or.inr (Or.inl h)
        · exact Or.inl h
        · exact Or.inr (Or.inr h)
      · rintro (h | h | h)
        · exact Or.inr (Or.inl h)
        · exact Or.inl h
        · exact Or.inr (Or.inr h)

theorem mem_sortByDepthDesc (tbl : Table) (y : CNT × AList Sym (List (Ty × CFGState) × Unit)) :
    y ∈ sortByDepthDesc tbl ↔ y ∈ tbl := by
  induction tbl with
  | nil => simp [sortByDepthDesc]
  | cons x xs ih =>
    have : sortByDepthDesc (x :: xs) = insertByDepth x (sortByDepthDesc xs) := rfl
    rw [this, mem_insertByDepth, ih, List.mem_cons]

/-! ### the theorem -/

/-- P1: if `CFG.programs()` returns a number `n` (not -1) on a table with distinct keys, then
    every derivation from the start finishes within some `k` levels and `n` is the number of
    terms derivable (`count G k`, which is `(lang G k start).length`). -/
theorem programs_eq_count (G : CFG) (hk : (AList.keys G.rules).Nodup) (n : Nat)
    (h : programs G = some n) :
    ∃ k, bounded G k G.start = true ∧ n = count G k G.start := by
  unfold programs at h
  split at h
  · cases h
  · rename_i cnt hfill
    have hinv : Inv G cnt :=
      inv_fill G hk (sortByDepthDesc G.rules) [] cnt
        (fun e he => (mem_sortByDepthDesc G.rules e).mp he) (inv_nil G) hfill
    have := hinv _ n h
    have hs : toNT (G.start.1, G.start.2.1) = G.start := rfl
    rw [hs] at this
    exact this

end PS.G.Programs
