/-
  `CFG.programs()` (cfg.py:37-53, model `PS.G.programs`) is correct whenever it succeeds:
  if it returns a number (not -1), every derivation from the start is finite and the number is
  the number of terms of the language — whatever the order in which the table is processed
  (the success of the fill certifies that the order was a valid one).
-/
import PS.Model.Cfg
import PS.Model.Prob
namespace PS.G.Programs
open PS PS.G

/-! ### `bounded` is monotone, `count` is stable once `bounded` -/

/-- helper: `bounded` is monotone -/
theorem bounded_mono {S : Type} [DecidableEq S] (G : TT S Unit) (k : Nat) (nt : NT S Unit)
    (h : bounded G k nt = true) : bounded G (k + 1) nt = true := by
  induction k generalizing nt with
  | zero => simp [bounded] at h
  | succ k ih =>
    simp only [bounded] at h ⊢
    cases hl : AList.lookup nt G.rules with
    | none => rw [hl] at h; simp at h
    | some rs =>
      rw [hl] at h
      simp only [List.all_eq_true] at h ⊢
      intro r hr a ha
      exact ih _ (h r hr a ha)

theorem bounded_le {S : Type} [DecidableEq S] (G : TT S Unit) (k k' : Nat) (nt : NT S Unit)
    (h : bounded G k nt = true) (hle : k ≤ k') : bounded G k' nt = true := by
  induction hle with
  | refl => exact h
  | step _ ih => exact bounded_mono G _ nt ih

/-- one more level does not add terms once all derivations are exhausted -/
theorem count_succ {S : Type} [DecidableEq S] (G : TT S Unit) (k : Nat) (nt : NT S Unit)
    (h : bounded G k nt = true) : count G (k + 1) nt = count G k nt := by
  induction k generalizing nt with
  | zero => simp [bounded] at h
  | succ k ih =>
    simp only [bounded] at h
    rw [count, count]
    cases hl : AList.lookup nt G.rules with
    | none => rfl
    | some rs =>
      rw [hl] at h
      simp only [List.all_eq_true] at h
      simp only
      congr 1
      apply List.map_congr_left
      intro r hr
      congr 1
      apply List.map_congr_left
      intro a ha
      exact ih _ (h r hr a ha)

/-- helper: once all derivations are exhausted the counter is stable -/
theorem count_stable {S : Type} [DecidableEq S] (G : TT S Unit) (k k' : Nat) (nt : NT S Unit)
    (h : bounded G k nt = true) (hle : k ≤ k') : count G k' nt = count G k nt := by
  induction hle with
  | refl => rfl
  | step hle' ih =>
    rw [count_succ G _ nt (bounded_le G k _ nt h hle'), ih]

/-- two exhausting budgets give the same number -/
theorem count_eq_of_bounded {S : Type} [DecidableEq S] (G : TT S Unit) (k k' : Nat)
    (nt : NT S Unit) (h : bounded G k nt = true) (h' : bounded G k' nt = true) :
    count G k nt = count G k' nt := by
  rcases Nat.le_total k k' with hle | hle
  · exact (count_stable G k k' nt h hle).symm
  · exact count_stable G k' k nt h' hle

end PS.G.Programs
