/-
  C13, part 12: TERMINATION of the worklist of `__saturation_build__` (fuel adequacy).

  * `satLoop_terminates`  for every builder whose pushes strictly decrease a rank `rk` of the
        configuration (non-terminal, pending stack): the loop - with either de-duplication - ends
        within `satBound b (rk start)` iterations, `b` = number of variables of the request +
        number of primitives (the most one iteration can push), `satBound b n = 1 + b + … + bⁿ`;
  * `satLoop_mono`        a loop that ended gives the same table with any larger fuel;
  * `size_rank`           `size_constraint`: rank `max_size + 1 - size` (every rule created has
        `size ≤ max_size` and moves to `size + 1`): unconditional termination;
  * `atMost_rank`         `at_most_k`: rank `occ_left · (A + 1) + |stack|` when every primitive
        that takes an argument is the counted one (`spendAll`), `A` = total declared arity.
-/
import PS.Proofs.TtcfgBuild
namespace PS.T
open PS PS.G

variable {S T : Type} [DecidableEq S] [DecidableEq T]

/-- `1 + b + b² + … + bⁿ` -/
def satBound (b : Nat) : Nat → Nat
  | 0 => 1
  | n + 1 => 1 + b * satBound b n

theorem satBound_pos (b n : Nat) : 1 ≤ satBound b n := by
  cases n <;> simp [satBound]

theorem satBound_mono (b : Nat) : ∀ (m n : Nat), m ≤ n → satBound b m ≤ satBound b n
  | 0, n, _ => satBound_pos b n
  | m + 1, 0, h => by omega
  | m + 1, n + 1, h => by
    simp only [satBound]
    have := satBound_mono b m n (by omega)
    have := Nat.mul_le_mul_left b this
    omega

theorem sum_map_le {α : Type} (f : α → Nat) (m : Nat) : ∀ l : List α, (∀ p ∈ l, f p ≤ m) → (l.map f).sum ≤ l.length * m
  | [], _ => by simp
  | p :: l, h => by
    simp only [List.map_cons, List.sum_cons, List.length_cons]
    have h1 := h p (List.mem_cons_self ..)
    have h2 := sum_map_le f m l (fun q hq => h q (List.mem_cons_of_mem _ hq))
    rw [Nat.succ_mul]
    omega

omit [DecidableEq S] [DecidableEq T] in
/-- one iteration pushes at most one entry per variable of the request and per primitive -/
theorem pushesOf_length (B : Builder S T) (prims : List Sym) (request : Ty) (rule : NT S T) (stack : List (Ty × S)) :
    (pushesOf B prims request rule stack).length ≤ request.arguments.length + prims.length := by
  unfold pushesOf rowList candidates
  refine Nat.le_trans (List.length_filterMap_le _ _) (Nat.le_trans (List.length_filterMap_le _ _) ?_)
  rw [List.length_append]
  exact Nat.add_le_add (Nat.le_trans (List.length_filterMap_le _ _) (by simp [enumFrom']))
    (List.length_filterMap_le _ _)

/-- **fuel adequacy**: the loop ends when the fuel covers the bound of every pending entry -/
theorem satLoop_terminates (B : Builder S T) (prims : List Sym) (request : Ty) (stackKey : Bool)
    (rk : NT S T × List (Ty × S) → Nat)
    (hdec : ∀ (rule : NT S T) (stack : List (Ty × S)), ∀ p ∈ pushesOf B prims request rule stack,
      rk (entryKey p) < rk (rule, stack)) :
    ∀ (fuel : Nat) (todo : List (Entry S T)) (seen : List (NT S T × List (Ty × S))) (tbl : Table S T),
      (todo.map (fun x => satBound (request.arguments.length + prims.length) (rk (entryKey x)))).sum ≤ fuel →
      (satLoop B prims request stackKey fuel todo seen tbl).isSome = true
  | fuel, [], seen, tbl, _ => by cases fuel <;> simp [satLoop]
  | 0, x :: todo, _, _, h => by
    simp only [List.map_cons, List.sum_cons] at h
    have := satBound_pos (request.arguments.length + prims.length) (rk (entryKey x))
    omega
  | fuel + 1, (slot, cur, stack) :: todo, seen, tbl, h => by
    simp only [List.map_cons, List.sum_cons] at h
    rw [satLoop]
    simp only
    have hpos := satBound_pos (request.arguments.length + prims.length) (rk (entryKey ((slot, cur, stack) : Entry S T)))
    by_cases hskip : (if stackKey then seen.contains ((slot.1, (slot.2, cur)), stack) else AList.contains (slot.1, (slot.2, cur)) tbl) = true
    · simp only [hskip, if_true]
      exact satLoop_terminates B prims request stackKey rk hdec fuel todo seen tbl (by omega)
    · simp only [hskip, Bool.false_eq_true, if_false]
      apply satLoop_terminates B prims request stackKey rk hdec fuel
      rw [List.map_append, List.sum_append, List.map_reverse, List.sum_reverse]
      have hlen := pushesOf_length B prims request (slot.1, (slot.2, cur)) stack
      have hk : entryKey ((slot, cur, stack) : Entry S T) = ((slot.1, (slot.2, cur)), stack) := rfl
      rw [hk] at h hpos
      change ((pushesOf B prims request (slot.1, (slot.2, cur)) stack).map _).sum + _ ≤ fuel
      cases hr : rk ((slot.1, (slot.2, cur)), stack) with
      | zero =>
        have hnil : pushesOf B prims request (slot.1, (slot.2, cur)) stack = [] := by
          cases hp : pushesOf B prims request (slot.1, (slot.2, cur)) stack with
          | nil => rfl
          | cons p ps =>
            have := hdec _ _ p (by rw [hp]; exact List.mem_cons_self ..)
            omega
        rw [hnil]
        simp only [List.map_nil, List.sum_nil]
        omega
      | succ n =>
        rw [hr] at h
        simp only [satBound] at h
        have hsum := sum_map_le (fun x : Entry S T => satBound (request.arguments.length + prims.length) (rk (entryKey x)))
          (satBound (request.arguments.length + prims.length) n) (pushesOf B prims request (slot.1, (slot.2, cur)) stack)
          (by
            intro p hp
            have := hdec _ _ p hp
            exact satBound_mono _ _ _ (by omega))
        have := Nat.mul_le_mul_right (satBound (request.arguments.length + prims.length) n) hlen
        omega

/-- **more fuel does not change the result** -/
theorem satLoop_mono (B : Builder S T) (prims : List Sym) (request : Ty) (stackKey : Bool) (extra : Nat) :
    ∀ (fuel : Nat) (todo : List (Entry S T)) (seen : List (NT S T × List (Ty × S))) (tbl r : Table S T),
      satLoop B prims request stackKey fuel todo seen tbl = some r →
      satLoop B prims request stackKey (fuel + extra) todo seen tbl = some r
  | fuel, [], seen, tbl, r, h => by
    cases fuel <;> cases extra <;> simpa [satLoop] using h
  | 0, _ :: _, _, _, _, h => by simp [satLoop] at h
  | fuel + 1, (slot, cur, stack) :: todo, seen, tbl, r, h => by
    have e : fuel + 1 + extra = (fuel + extra) + 1 := by omega
    rw [e, satLoop]
    rw [satLoop] at h
    simp only at h ⊢
    by_cases hskip : (if stackKey then seen.contains ((slot.1, (slot.2, cur)), stack) else AList.contains (slot.1, (slot.2, cur)) tbl) = true
    · simp only [hskip, if_true] at h ⊢
      exact satLoop_mono B prims request stackKey extra fuel todo seen tbl r h
    · simp only [hskip, Bool.false_eq_true, if_false] at h ⊢
      exact satLoop_mono B prims request stackKey extra fuel _ _ _ r h

/-- the table of `__saturation_build__` exists as soon as the fuel reaches the bound -/
theorem saturationTable_terminates (B : Builder S T) (prims : List Sym) (request : Ty) (stackKey : Bool)
    (rk : NT S T × List (Ty × S) → Nat)
    (hdec : ∀ (rule : NT S T) (stack : List (Ty × S)), ∀ p ∈ pushesOf B prims request rule stack,
      rk (entryKey p) < rk (rule, stack))
    (fuel : Nat) (hf : satBound (request.arguments.length + prims.length) (rk ((request.returns, B.init), [])) ≤ fuel) :
    (saturationTable B prims request stackKey fuel).isSome = true := by
  have := satLoop_terminates B prims request stackKey rk hdec fuel [((request.returns, B.init.1), B.init.2, [])] [] []
    (by simpa [entryKey] using hf)
  unfold saturationTable
  cases hl : satLoop B prims request stackKey fuel [((request.returns, B.init.1), B.init.2, [])] [] [] with
  | none => rw [hl] at this; cases this
  | some tbl => rfl

theorem saturationTable_mono (B : Builder S T) (prims : List Sym) (request : Ty) (stackKey : Bool) (fuel extra : Nat)
    (G : TT S T) (h : saturationTable B prims request stackKey fuel = some G) :
    saturationTable B prims request stackKey (fuel + extra) = some G := by
  unfold saturationTable at h ⊢
  cases hl : satLoop B prims request stackKey fuel [((request.returns, B.init.1), B.init.2, [])] [] [] with
  | none => simp [hl] at h
  | some tbl =>
    rw [satLoop_mono B prims request stackKey extra fuel _ _ _ tbl hl]
    simpa [hl] using h

/-! ### the pushes of an iteration, decomposed -/

omit [DecidableEq S] [DecidableEq T] in
theorem mem_pushesOf (B : Builder S T) (prims : List Sym) (request : Ty) (rule : NT S T) (stack : List (Ty × S))
    (p : Entry S T) (hp : p ∈ pushesOf B prims request rule stack) :
    ∃ c ∈ candidates prims request rule.1, (B.transition rule c.1).1 = true ∧
      decorate B rule c.1 c.2 ++ stack = p.1 :: p.2.2 ∧ p.2.1 = (B.transition rule c.1).2 := by
  unfold pushesOf at hp
  rw [List.mem_filterMap] at hp
  obtain ⟨r, hr, e⟩ := hp
  obtain ⟨P, val⟩ := r
  obtain ⟨c, hc, h1, ht, hv⟩ := (mem_rowList B prims request rule P val).mp hr
  subst h1
  subst hv
  refine ⟨c, hc, ht, ?_⟩
  simp only at e
  cases hm : decorate B rule c.1 c.2 ++ stack with
  | nil => simp [hm] at e
  | cons x rest =>
    simp only [hm, Option.some.injEq] at e
    subst e
    exact ⟨rfl, rfl⟩

/-! ### `size_constraint` -/

/-- a rule is created only below the bound and moves to the next size -/
theorem sizeTransition_size (dsl : Dsl) (maxSize : Nat) (actual : Bool) (nt : NT Ctx (Nat × Nat)) (P : Sym)
    (h : (sizeTransition dsl maxSize actual nt P).1 = true) :
    nt.2.2.1 ≤ maxSize ∧ (sizeTransition dsl maxSize actual nt P).2.1 = nt.2.2.1 + 1 := by
  unfold sizeTransition at h ⊢
  by_cases h1 : forbHit dsl nt.2.1.head? P = true
  · simp [h1] at h
  · simp only [h1, Bool.false_eq_true, if_false] at h ⊢
    by_cases h2 : nt.2.2.1 > maxSize
    · simp [h2] at h
    · simp only [h2, if_false] at h ⊢
      refine ⟨by omega, ?_⟩
      repeat' split
      all_goals rfl

/-- the rank of `size_constraint`: what is left below `max_size + 1` -/
def sizeRank (maxSize : Nat) (c : NT Ctx (Nat × Nat) × List (Ty × Ctx)) : Nat := maxSize + 1 - c.1.2.2.1

theorem size_rank (dsl : Dsl) (request : Ty) (nG : Int) (maxSize : Nat) (actual : Bool)
    (rule : NT Ctx (Nat × Nat)) (stack : List (Ty × Ctx)) :
    ∀ p ∈ pushesOf (sizeBuilder dsl nG maxSize actual) dsl.prims request rule stack,
      sizeRank maxSize (entryKey p) < sizeRank maxSize (rule, stack) := by
  intro p hp
  obtain ⟨c, _, ht, _, hs⟩ := mem_pushesOf _ _ _ _ _ p hp
  obtain ⟨h1, h2⟩ := sizeTransition_size dsl maxSize actual rule c.1 ht
  unfold sizeRank entryKey
  simp only
  rw [hs]
  change maxSize + 1 - (sizeTransition dsl maxSize actual rule c.1).2.1 < _
  rw [h2]
  omega

/-- **`size_constraint`: the worklist always ends**, within
    `satBound (|variables| + |primitives|) (max_size + 1)` iterations - every DSL, request, bound,
    n-gram, with either de-duplication -/
theorem size_saturation_terminates (dsl : Dsl) (request : Ty) (nG : Int) (maxSize : Nat) (actual stackKey : Bool)
    (fuel : Nat) (hf : satBound (request.arguments.length + dsl.prims.length) (maxSize + 1) ≤ fuel) :
    (saturationTable (sizeBuilder dsl nG maxSize actual) dsl.prims request stackKey fuel).isSome = true :=
  saturationTable_terminates _ dsl.prims request stackKey (sizeRank maxSize)
    (size_rank dsl request nG maxSize actual) fuel (by simpa [sizeRank, sizeBuilder] using hf)

/-! ### `at_most_k` -/

theorem endsWithRec_length : ∀ (t other : Ty) (acc tys : List Ty), Ty.endsWithRec t other acc = some tys →
    tys.length ≤ acc.length + t.arguments.length
  | .arrow x y, other, acc, tys, h => by
    rw [Ty.endsWithRec] at h
    by_cases he : Ty.arrow x y = other
    · simp only [he, if_true, Option.some.injEq] at h; subst h; omega
    · simp only [he, if_false] at h
      have := endsWithRec_length y other (acc ++ [x]) tys h
      simp only [List.length_append, List.length_cons, List.length_nil] at this
      simp only [Ty.arguments, List.length_cons]
      omega
  | .base n, other, acc, tys, h => by
    simp only [Ty.endsWithRec] at h
    by_cases he : Ty.base n = other
    · simp only [he, if_true, Option.some.injEq] at h; subst h; omega
    · simp [he] at h
  | .gen n x, other, acc, tys, h => by
    simp only [Ty.endsWithRec] at h
    by_cases he : Ty.gen n x = other
    · simp only [he, if_true, Option.some.injEq] at h; subst h; omega
    · simp [he] at h
  | .unknown, other, acc, tys, h => by
    simp only [Ty.endsWithRec] at h
    by_cases he : Ty.unknown = other
    · simp only [he, if_true, Option.some.injEq] at h; subst h; omega
    · simp [he] at h

theorem endsWith_length (t other : Ty) (tys : List Ty) (h : Ty.endsWith t other = some tys) :
    tys.length ≤ t.arguments.length := by
  have := endsWithRec_length t other [] tys h
  simpa using this

/-- every primitive that takes an argument is the counted one (decidable): then every
    application spends an occurrence, the language is finite and the construction ends -/
def spendAll (dsl : Dsl) (name : String) : Bool :=
  dsl.prims.all (fun p => p.ty.arguments.isEmpty || decide (symStr p = name))

/-- total declared arity of the DSL -/
def totalArity (dsl : Dsl) : Nat := (dsl.prims.map (fun p => p.ty.arguments.length)).sum

theorem le_sum_of_mem {α : Type} (f : α → Nat) : ∀ (l : List α) (p : α), p ∈ l → f p ≤ (l.map f).sum
  | q :: l, p, h => by
    simp only [List.map_cons, List.sum_cons]
    rcases List.mem_cons.mp h with e | hm
    · subst e; omega
    · have := le_sum_of_mem f l p hm; omega

/-- the rank of `at_most_k` under `spendAll` -/
def atMostRank (dsl : Dsl) (c : NT Ctx Nat × List (Ty × Ctx)) : Nat := c.1.2.2 * (totalArity dsl + 1) + c.2.length

omit [DecidableEq S] [DecidableEq T] in
theorem decorate_length (B : Builder S T) (rule : NT S T) (P : Sym) (tys : List Ty) :
    (decorate B rule P tys).length = tys.length := by
  simp [decorate, enumFrom']

theorem atMost_rank (dsl : Dsl) (request : Ty) (nG : Int) (name : String) (k : Nat) (hsp : spendAll dsl name = true)
    (rule : NT Ctx Nat) (stack : List (Ty × Ctx)) :
    ∀ p ∈ pushesOf (atMostBuilder dsl nG name k) dsl.prims request rule stack,
      atMostRank dsl (entryKey p) < atMostRank dsl (rule, stack) := by
  intro p hp
  obtain ⟨c, hc, ht, hd, hs⟩ := mem_pushesOf _ _ _ _ _ p hp
  have hlen : c.2.length + stack.length = p.2.2.length + 1 := by
    have := congrArg List.length hd
    simpa [decorate_length] using this
  unfold atMostRank entryKey
  simp only
  rw [hs]
  change (atMostTransition dsl name rule c.1).2 * _ + _ < _
  change (atMostTransition dsl name rule c.1).1 = true at ht
  unfold atMostTransition at ht ⊢
  by_cases h1 : forbHit dsl rule.2.1.head? c.1 = true
  · simp [h1] at ht
  · simp only [h1, Bool.false_eq_true, if_false] at ht ⊢
    -- the arity taken here is bounded by the total arity; it is 0 unless the symbol is counted
    have harity : c.2.length ≤ totalArity dsl ∧ (c.2.length ≠ 0 → symStr c.1 = name) := by
      rcases (mem_candidates _ _ _ _).mp hc with ⟨j, _, ec⟩ | ⟨hp, he⟩
      · rw [ec]; simp
      · have h2 := endsWith_length _ _ _ he
        have h3 := le_sum_of_mem (fun p : Sym => p.ty.arguments.length) dsl.prims c.1 hp
        refine ⟨Nat.le_trans h2 h3, ?_⟩
        intro hne
        unfold spendAll at hsp
        rw [List.all_eq_true] at hsp
        have := hsp c.1 hp
        simp only [Bool.or_eq_true, List.isEmpty_iff, decide_eq_true_eq] at this
        rcases this with h4 | h4
        · exfalso; rw [h4] at h2; simp only [List.length_nil] at h2; omega
        · exact h4
    by_cases h2 : symStr c.1 ≠ name
    · rw [if_pos h2] at ht ⊢
      simp only at ⊢
      have : c.2.length = 0 := by
        by_cases hz : c.2.length = 0
        · exact hz
        · exact absurd (harity.2 hz) h2
      omega
    · rw [if_neg h2] at ht ⊢
      simp only [decide_eq_true_eq] at ht ⊢
      have hmul : (rule.2.2 - 1) * (totalArity dsl + 1) + (totalArity dsl + 1) = rule.2.2 * (totalArity dsl + 1) := by
        have : rule.2.2 = (rule.2.2 - 1) + 1 := by omega
        conv => rhs; rw [this, Nat.succ_mul]
      omega

/-- **`at_most_k`: the worklist ends when every primitive that takes an argument is the counted
    one**, within `satBound (|variables| + |primitives|) (k · (A + 1))` iterations -/
theorem atMost_saturation_terminates (dsl : Dsl) (request : Ty) (nG : Int) (name : String) (k : Nat)
    (hsp : spendAll dsl name = true) (stackKey : Bool) (fuel : Nat)
    (hf : satBound (request.arguments.length + dsl.prims.length) (k * (totalArity dsl + 1)) ≤ fuel) :
    (saturationTable (atMostBuilder dsl nG name k) dsl.prims request stackKey fuel).isSome = true :=
  saturationTable_terminates _ dsl.prims request stackKey (atMostRank dsl)
    (atMost_rank dsl request nG name k hsp) fuel (by simpa [atMostRank, atMostBuilder] using hf)

end PS.T
