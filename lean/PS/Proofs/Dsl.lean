/-
  Lemmas for C14 (model: PS/Model/Dsl.lean, spec: PS/Spec/Dsl.lean).
-/
import PS.Spec.Dsl
import Mathlib.Data.List.Forall2
namespace PS.Dsl
open PS Ty

/-! ### lists used as Python sets -/
section Lists
variable {α : Type} [DecidableEq α] {fx : Bool}

theorem mem_insertNew {x y : α} {l : List α} : y ∈ insertNew x l ↔ y ∈ l ∨ y = x := by
  unfold insertNew
  split
  · constructor
    · intro h; exact Or.inl h
    · rintro (h | h)
      · exact h
      · subst h; assumption
  · simp

theorem mem_appendNew {y : α} {acc xs : List α} : y ∈ appendNew acc xs ↔ y ∈ acc ∨ y ∈ xs := by
  unfold appendNew
  induction xs generalizing acc with
  | nil => simp
  | cons x xs ih =>
    simp only [List.foldl_cons, ih, mem_insertNew, List.mem_cons]
    constructor
    · rintro ((h | h) | h)
      · exact Or.inl h
      · exact Or.inr (Or.inl h)
      · exact Or.inr (Or.inr h)
    · rintro (h | h | h)
      · exact Or.inl (Or.inl h)
      · exact Or.inl (Or.inr h)
      · exact Or.inr h

theorem mem_dedup {y : α} {xs : List α} : y ∈ dedup xs ↔ y ∈ xs := by
  simp [dedup, mem_appendNew]

theorem nodup_insertNew {x : α} {l : List α} (h : l.Nodup) : (insertNew x l).Nodup := by
  unfold insertNew
  split
  · exact h
  · rename_i hx
    rw [List.nodup_append]
    refine ⟨h, by simp, ?_⟩
    intro a ha b hb
    simp at hb
    subst hb
    intro hab
    subst hab
    exact hx ha

theorem nodup_appendNew {acc xs : List α} (h : acc.Nodup) : (appendNew acc xs).Nodup := by
  unfold appendNew
  induction xs generalizing acc with
  | nil => simpa
  | cons x xs ih => exact ih (nodup_insertNew h)

theorem nodup_dedup (xs : List α) : (dedup xs).Nodup := nodup_appendNew List.nodup_nil

theorem appendNew_of_nodup {acc xs : List α} (h : (acc ++ xs).Nodup) : appendNew acc xs = acc ++ xs := by
  unfold appendNew
  induction xs generalizing acc with
  | nil => simp
  | cons x xs ih =>
    have hx : x ∉ acc := by
      intro hx
      rw [List.nodup_append] at h
      exact h.2.2 x hx x (by simp) rfl
    have hi : insertNew x acc = acc ++ [x] := by simp [insertNew, hx]
    simp only [List.foldl_cons, hi]
    have : (acc ++ [x] ++ xs).Nodup := by simpa using h
    rw [ih this]
    simp

theorem dedup_of_nodup {xs : List α} (h : xs.Nodup) : dedup xs = xs := by
  have := appendNew_of_nodup (acc := []) (xs := xs) (by simpa using h)
  simpa [dedup] using this

theorem filter_insertNew_of_false {q : α → Bool} {x : α} {l : List α} (hx : q x = false) :
    (insertNew x l).filter q = l.filter q := by
  unfold insertNew
  split
  · rfl
  · simp [List.filter_append, hx]

theorem filter_appendNew_of_false {q : α → Bool} {acc xs : List α} (hx : ∀ x ∈ xs, q x = false) :
    (appendNew acc xs).filter q = acc.filter q := by
  unfold appendNew
  induction xs generalizing acc with
  | nil => rfl
  | cons x xs ih =>
    simp only [List.foldl_cons]
    rw [ih (fun y hy => hx y (List.mem_cons_of_mem _ hy)), filter_insertNew_of_false (hx x (by simp))]

theorem filter_erase_of_true {q : α → Bool} {p : α} {l : List α} (hp : q p = true) :
    (l.erase p).filter q = (l.filter q).erase p := by
  induction l with
  | nil => rfl
  | cons a l ih =>
    by_cases hap : a = p
    · subst hap
      simp [hp]
    · have hne : (a == p) = false := by simpa using hap
      rw [List.erase_cons_tail (by simpa using hne)]
      by_cases hq : q a = true
      · simp only [List.filter_cons, hq, if_true]
        rw [List.erase_cons_tail (by simpa using hne), ih]
      · simp only [List.filter_cons, hq]
        simpa using ih

/-- foldl form of the expansion loop, for any remaining `todo` -/
theorem expandFold_spec (test : α → Bool) (exp : α → List α)
    (hexp : ∀ p, test p = true → ∀ x ∈ exp p, test x = false) :
    ∀ (todo acc : List α), acc.filter test = todo.filter test →
      ((todo.foldl (expandStep test exp) acc).filter test = []) ∧
      (∀ x, test x = false →
        (x ∈ todo.foldl (expandStep test exp) acc ↔ x ∈ acc ∨ ∃ p ∈ todo, test p = true ∧ x ∈ exp p)) := by
  intro todo
  induction todo with
  | nil =>
    intro acc h
    refine ⟨by simpa using h, ?_⟩
    intro x _; simp
  | cons p todo ih =>
    intro acc h
    simp only [List.foldl_cons]
    by_cases hp : test p = true
    · have hstep : expandStep test exp acc p = (appendNew acc (exp p)).erase p := by
        simp [expandStep, hp]
      have hfil : (expandStep test exp acc p).filter test = todo.filter test := by
        rw [hstep, filter_erase_of_true hp, filter_appendNew_of_false (hexp p hp), h]
        simp [hp]
      obtain ⟨h1, h2⟩ := ih _ hfil
      refine ⟨h1, ?_⟩
      intro x hx
      rw [h2 x hx, hstep]
      have hxp : x ≠ p := by intro e; subst e; rw [hp] at hx; cases hx
      rw [List.mem_erase_of_ne hxp, mem_appendNew]
      constructor
      · rintro ((h | h) | ⟨p', hp', ht, hm⟩)
        · exact Or.inl h
        · exact Or.inr ⟨p, by simp, hp, h⟩
        · exact Or.inr ⟨p', List.mem_cons_of_mem _ hp', ht, hm⟩
      · rintro (h | ⟨p', hp', ht, hm⟩)
        · exact Or.inl (Or.inl h)
        · rcases List.mem_cons.mp hp' with e | hp''
          · subst e; exact Or.inl (Or.inr hm)
          · exact Or.inr ⟨p', hp'', ht, hm⟩
    · have hstep : expandStep test exp acc p = acc := by simp [expandStep, hp]
      have hfil : acc.filter test = todo.filter test := by
        rw [h]; simp [hp]
      rw [hstep]
      obtain ⟨h1, h2⟩ := ih _ hfil
      refine ⟨h1, ?_⟩
      intro x hx
      rw [h2 x hx]
      constructor
      · rintro (h | ⟨p', hp', ht, hm⟩)
        · exact Or.inl h
        · exact Or.inr ⟨p', List.mem_cons_of_mem _ hp', ht, hm⟩
      · rintro (h | ⟨p', hp', ht, hm⟩)
        · exact Or.inl h
        · rcases List.mem_cons.mp hp' with e | hp''
          · subst e; exact absurd ht hp
          · exact Or.inr ⟨p', hp'', ht, hm⟩

/-- what an expansion loop leaves in the list -/
theorem mem_expandPass (test : α → Bool) (exp : α → List α)
    (hexp : ∀ p, test p = true → ∀ x ∈ exp p, test x = false) (L : List α) (x : α) :
    x ∈ expandPass test exp L ↔
      test x = false ∧ (x ∈ L ∨ ∃ p ∈ L, test p = true ∧ x ∈ exp p) := by
  obtain ⟨h1, h2⟩ := expandFold_spec test exp hexp L L rfl
  constructor
  · intro hx
    have hf : test x = false := by
      cases ht : test x with
      | false => rfl
      | true =>
        have : x ∈ (expandPass test exp L).filter test := List.mem_filter.mpr ⟨hx, ht⟩
        rw [expandPass, h1] at this
        cases this
    exact ⟨hf, (h2 x hf).mp hx⟩
  · rintro ⟨hf, h⟩
    exact (h2 x hf).mpr h

theorem expandPass_id (test : α → Bool) (exp : α → List α) (L : List α)
    (h : ∀ p ∈ L, test p = false) : expandPass test exp L = L := by
  unfold expandPass
  suffices ∀ todo acc : List α, (∀ p ∈ todo, test p = false) →
      todo.foldl (expandStep test exp) acc = acc from this L L h
  intro todo
  induction todo with
  | nil => intro acc _; rfl
  | cons p todo ih =>
    intro acc h
    simp only [List.foldl_cons, expandStep, h p (by simp)]
    exact ih acc (fun q hq => h q (List.mem_cons_of_mem _ hq))

end Lists

/-! ### induction on types, list forms of the mutual definitions -/

mutual
  theorem Ty.ind_aux {motive : Ty → Prop}
      (h : ∀ l ks, (∀ k ∈ ks, motive k) → motive (.node l ks)) : ∀ t, motive t
    | .node l ks => h l ks (Ty.ind_list h ks)
  theorem Ty.ind_list {motive : Ty → Prop}
      (h : ∀ l ks, (∀ k ∈ ks, motive k) → motive (.node l ks)) : ∀ ks : List Ty, ∀ k ∈ ks, motive k
    | [] => by intro k hk; cases hk
    | t :: ts => fun k hk =>
      (List.mem_cons.mp hk).elim (fun e => e ▸ Ty.ind_aux h t) (fun hk' => Ty.ind_list h ts k hk')
end

theorem polysList_eq (ks : List Ty) : polysList ks = ks.flatMap polys := by
  induction ks with
  | nil => rfl
  | cons t ts ih => simp [polysList, ih]

theorem basicsList_eq (ks : List Ty) : basicsList ks = ks.flatMap basics := by
  induction ks with
  | nil => rfl
  | cons t ts ih => simp [basicsList, ih]

theorem unifyList_eq (n : String) (v : Ty) (ks : List Ty) : unifyList n v ks = ks.map (unify n v) := by
  induction ks with
  | nil => rfl
  | cons t ts ih => simp [unifyList, ih]

theorem applySubstList_eq (σ : String → Ty) (ks : List Ty) : applySubstList σ ks = ks.map (applySubst σ) := by
  induction ks with
  | nil => rfl
  | cons t ts ih => simp [applySubstList, ih]

theorem versionsCat_eq (ks : List Ty) : versionsCat ks = ks.flatMap versions := by
  induction ks with
  | nil => rfl
  | cons t ts ih => simp [versionsCat, ih]

theorem versionsEach_eq (ks : List Ty) : versionsEach ks = ks.map versions := by
  induction ks with
  | nil => rfl
  | cons t ts ih => simp [versionsEach, ih]

theorem anyPolymorphic_eq (ks : List Ty) : anyPolymorphic ks = ks.any isPolymorphic := by
  induction ks with
  | nil => rfl
  | cons t ts ih => simp [anyPolymorphic, ih]

theorem anyHasSum_eq (ks : List Ty) : anyHasSum ks = ks.any hasSum := by
  induction ks with
  | nil => rfl
  | cons t ts ih => simp [anyHasSum, ih]

theorem allWf_eq (ks : List Ty) : allWf ks = ks.all wf := by
  induction ks with
  | nil => rfl
  | cons t ts ih => simp [allWf, ih]

theorem polys_node (l : TyL) (ks : List Ty) :
    polys (.node l ks) = if isVarL l then [.node l ks] else if isInnerL l then ks.flatMap polys else [] := by
  rw [polys, polysList_eq]

theorem unify_node (n : String) (v : Ty) (l : TyL) (ks : List Ty) :
    unify n v (.node l ks) = if isVarL l then (if l.name = n then v else .node l ks)
      else if isInnerL l then .node l (ks.map (unify n v)) else .node l ks := by
  rw [unify, unifyList_eq]

theorem applySubst_node (σ : String → Ty) (l : TyL) (ks : List Ty) :
    applySubst σ (.node l ks) = if isVarL l then σ l.name
      else if isInnerL l then .node l (ks.map (applySubst σ)) else .node l ks := by
  rw [applySubst, applySubstList_eq]

theorem flatMap_eq_nil_iff' {α β} (f : α → List β) (l : List α) :
    l.flatMap f = [] ↔ ∀ a ∈ l, f a = [] := by
  simp

/-! ### all_versions = the choices of one alternative per sum -/

theorem versions_sum (ks : List Ty) : versions (.node .sum ks) = ks.flatMap versions := by
  rw [versions, versionsCat_eq]

theorem versions_comp (l : TyL) (ks : List Ty) (h1 : l ≠ .sum) (h2 : isInnerL l = true) :
    versions (.node l ks) = (product (ks.map versions)).map (.node l) := by
  cases l <;> simp_all [isInnerL, versions, versionsEach_eq]

theorem versions_leaf (l : TyL) (ks : List Ty) (h : isInnerL l = false) :
    versions (.node l ks) = [.node l ks] := by
  cases l <;> simp_all [isInnerL, versions]

theorem mem_product_versions (ks : List Ty)
    (ih : ∀ k ∈ ks, ∀ c, c ∈ versions k ↔ Choice k c) (cs : List Ty) :
    cs ∈ product (ks.map versions) ↔ ChoiceList ks cs := by
  induction ks generalizing cs with
  | nil =>
    simp only [List.map_nil, product, List.mem_singleton]
    constructor
    · intro h; subst h; exact ChoiceList.nil
    · intro h; cases h; rfl
  | cons k ks ihk =>
    have ihk' := ihk (fun k' hk' => ih k' (List.mem_cons_of_mem _ hk'))
    simp only [List.map_cons, product, List.mem_flatMap, List.mem_map]
    constructor
    · rintro ⟨x, hx, r, hr, e⟩
      subst e
      exact ChoiceList.cons k x ks r ((ih k (by simp) x).mp hx) ((ihk' r).mp hr)
    · intro h
      cases h with
      | cons _ c _ cs' h1 h2 =>
        exact ⟨c, (ih k (by simp) c).mpr h1, cs', (ihk' cs').mpr h2, rfl⟩

/-- `all_versions` enumerates exactly the choices of one alternative for every sum -/
theorem mem_versions_iff (t c : Ty) : c ∈ versions t ↔ Choice t c := by
  revert c
  induction t using Ty.ind_aux with
  | h l ks ih =>
    intro c
    by_cases hs : l = .sum
    · subst hs
      rw [versions_sum, List.mem_flatMap]
      constructor
      · rintro ⟨a, ha, hc⟩
        exact Choice.alt _ ks a c rfl ha ((ih a ha c).mp hc)
      · intro h
        cases h with
        | leaf _ _ hl => simp [isInnerL] at hl
        | alt _ _ a _ _ ha hc => exact ⟨a, ha, (ih a ha c).mpr hc⟩
        | comp _ _ cs hne _ _ => exact absurd rfl hne
    · by_cases hi : isInnerL l = true
      · rw [versions_comp l ks hs hi, List.mem_map]
        constructor
        · rintro ⟨cs, hcs, e⟩
          subst e
          exact Choice.comp l ks cs hs hi ((mem_product_versions ks ih cs).mp hcs)
        · intro h
          cases h with
          | leaf _ _ hl => rw [hi] at hl; cases hl
          | alt _ _ a _ hl _ _ => exact absurd hl hs
          | comp _ _ cs _ _ hcl => exact ⟨cs, (mem_product_versions ks ih cs).mpr hcl, rfl⟩
      · have hi' : isInnerL l = false := by simpa using hi
        rw [versions_leaf l ks hi', List.mem_singleton]
        constructor
        · intro e; subst e; exact Choice.leaf l ks hi'
        · intro h
          cases h with
          | leaf _ _ _ => rfl
          | alt _ _ a _ hl _ _ => exact absurd hl hs
          | comp _ _ cs _ hin _ => rw [hi'] at hin; cases hin

/-! ### sums and variables in versions -/

theorem hasSum_node (l : TyL) (ks : List Ty) :
    hasSum (.node l ks) = (l == .sum || (isInnerL l && ks.any hasSum)) := by
  rw [hasSum, anyHasSum_eq]

theorem isPolymorphic_node (l : TyL) (ks : List Ty) :
    isPolymorphic (.node l ks) = (isVarL l || (isInnerL l && ks.any isPolymorphic)) := by
  rw [isPolymorphic, anyPolymorphic_eq]

theorem wf_node (l : TyL) (ks : List Ty) : wf (.node l ks) = (wfNode l ks.length && ks.all wf) := by
  rw [wf, allWf_eq]

theorem mem_product_length {α} [DecidableEq α] (xss : List (List α)) (cs : List α) (h : cs ∈ product xss) :
    cs.length = xss.length := by
  induction xss generalizing cs with
  | nil => simp [product] at h; subst h; rfl
  | cons xs rest ih =>
    simp only [product, List.mem_flatMap, List.mem_map] at h
    obtain ⟨x, _, r, hr, e⟩ := h
    subst e
    simp [ih r hr]

theorem mem_product_get {α} [DecidableEq α] (xss : List (List α)) (cs : List α) (h : cs ∈ product xss) :
    ∀ c ∈ cs, ∃ xs ∈ xss, c ∈ xs := by
  induction xss generalizing cs with
  | nil => simp [product] at h; subst h; intro c hc; cases hc
  | cons xs rest ih =>
    simp only [product, List.mem_flatMap, List.mem_map] at h
    obtain ⟨x, hx, r, hr, e⟩ := h
    subst e
    intro c hc
    rcases List.mem_cons.mp hc with e | hc'
    · subst e; exact ⟨xs, by simp, hx⟩
    · obtain ⟨ys, hys, hcy⟩ := ih r hr c hc'
      exact ⟨ys, List.mem_cons_of_mem _ hys, hcy⟩

/-- no version contains a sum -/
theorem versions_noSum (t : Ty) : ∀ c ∈ versions t, hasSum c = false := by
  induction t using Ty.ind_aux with
  | h l ks ih =>
    intro c hc
    by_cases hs : l = .sum
    · subst hs
      rw [versions_sum, List.mem_flatMap] at hc
      obtain ⟨a, ha, hc⟩ := hc
      exact ih a ha c hc
    · by_cases hi : isInnerL l = true
      · rw [versions_comp l ks hs hi, List.mem_map] at hc
        obtain ⟨cs, hcs, e⟩ := hc
        subst e
        rw [hasSum_node]
        have h1 : (l == TyL.sum) = false := by simpa using hs
        simp only [h1, hi, Bool.false_or, Bool.true_and]
        rw [List.any_eq_false]
        intro c' hc'
        obtain ⟨xs, hxs, hcx⟩ := mem_product_get _ cs hcs c' hc'
        rw [List.mem_map] at hxs
        obtain ⟨k, hk, e⟩ := hxs
        subst e
        simp [ih k hk c' hcx]
      · have hi' : isInnerL l = false := by simpa using hi
        rw [versions_leaf l ks hi', List.mem_singleton] at hc
        subst hc
        rw [hasSum_node]
        have h1 : (l == TyL.sum) = false := by simpa using hs
        simp [h1, hi']

theorem product_singletons {α} [DecidableEq α] (ks : List α) : product (ks.map (fun k => [k])) = [ks] := by
  induction ks with
  | nil => rfl
  | cons k ks ih => simp [product, ih]

/-- a type without sums is its only version -/
theorem versions_of_noSum (t : Ty) : hasSum t = false → versions t = [t] := by
  induction t using Ty.ind_aux with
  | h l ks ih =>
    intro h
    rw [hasSum_node] at h
    by_cases hi : isInnerL l = true
    · simp only [hi, Bool.true_and, Bool.or_eq_false_iff] at h
      have hs : l ≠ .sum := by simpa using h.1
      rw [versions_comp l ks hs hi]
      have : ks.map versions = ks.map (fun k => [k]) := by
        apply List.map_congr_left
        intro k hk
        apply ih k hk
        have := h.2
        rw [List.any_eq_false] at this
        simpa using this k hk
      rw [this, product_singletons]
      rfl
    · have hi' : isInnerL l = false := by simpa using hi
      exact versions_leaf l ks hi'

theorem length_product {α} [DecidableEq α] (xs : List α) (rest : List (List α)) :
    (product (xs :: rest)).length = xs.length * (product rest).length := by
  simp only [product]
  induction xs with
  | nil => simp
  | cons x xs ih =>
    simp only [List.flatMap_cons, List.length_append, List.length_map, ih, List.length_cons]
    rw [Nat.add_mul, Nat.one_mul, Nat.add_comm]

theorem product_pos {α} [DecidableEq α] (xss : List (List α)) (h : ∀ xs ∈ xss, 1 ≤ xs.length) :
    1 ≤ (product xss).length := by
  induction xss with
  | nil => simp [product]
  | cons xs rest ih =>
    rw [length_product]
    exact Nat.mul_le_mul (h xs (by simp)) (ih (fun ys hys => h ys (List.mem_cons_of_mem _ hys)))

theorem product_two {α} [DecidableEq α] (xss : List (List α)) (h : ∀ xs ∈ xss, 1 ≤ xs.length)
    (h2 : ∃ xs ∈ xss, 2 ≤ xs.length) : 2 ≤ (product xss).length := by
  induction xss with
  | nil => obtain ⟨xs, hxs, _⟩ := h2; cases hxs
  | cons xs rest ih =>
    rw [length_product]
    have hrest : ∀ ys ∈ rest, 1 ≤ ys.length := fun ys hys => h ys (List.mem_cons_of_mem _ hys)
    obtain ⟨ys, hys, hy2⟩ := h2
    rcases List.mem_cons.mp hys with e | hys'
    · subst e
      exact Nat.mul_le_mul hy2 (product_pos rest hrest)
    · have := ih hrest ⟨ys, hys', hy2⟩
      exact Nat.mul_le_mul (h xs (by simp)) this

theorem length_flatMap_ge {α β} (f : α → List β) (l : List α) (h : ∀ x ∈ l, 1 ≤ (f x).length) :
    l.length ≤ (l.flatMap f).length := by
  induction l with
  | nil => simp
  | cons x l ih =>
    simp only [List.flatMap_cons, List.length_append, List.length_cons]
    have := h x (by simp)
    have := ih (fun y hy => h y (List.mem_cons_of_mem _ hy))
    omega

theorem versions_pos (t : Ty) : wf t = true → 1 ≤ (versions t).length := by
  induction t using Ty.ind_aux with
  | h l ks ih =>
    intro hw
    rw [wf_node, Bool.and_eq_true, List.all_eq_true] at hw
    by_cases hs : l = .sum
    · subst hs
      rw [versions_sum]
      have h2 : 2 ≤ ks.length := by simpa [wfNode] using hw.1
      have := length_flatMap_ge versions ks (fun k hk => ih k hk (hw.2 k hk))
      omega
    · by_cases hi : isInnerL l = true
      · rw [versions_comp l ks hs hi, List.length_map]
        apply product_pos
        intro xs hxs
        rw [List.mem_map] at hxs
        obtain ⟨k, hk, e⟩ := hxs
        subst e
        exact ih k hk (hw.2 k hk)
      · have hi' : isInnerL l = false := by simpa using hi
        rw [versions_leaf l ks hi']
        simp

/-- a well-formed type that contains a sum has several versions -/
theorem versions_two (t : Ty) : wf t = true → hasSum t = true → 2 ≤ (versions t).length := by
  induction t using Ty.ind_aux with
  | h l ks ih =>
    intro hw hsum
    rw [wf_node, Bool.and_eq_true, List.all_eq_true] at hw
    by_cases hs : l = .sum
    · subst hs
      rw [versions_sum]
      have h2 : 2 ≤ ks.length := by simpa [wfNode] using hw.1
      have := length_flatMap_ge versions ks (fun k hk => versions_pos k (hw.2 k hk))
      omega
    · rw [hasSum_node] at hsum
      have h1 : (l == TyL.sum) = false := by simpa using hs
      simp only [h1, Bool.false_or, Bool.and_eq_true, List.any_eq_true] at hsum
      obtain ⟨hi, k, hk, hks⟩ := hsum
      rw [versions_comp l ks hs hi, List.length_map]
      apply product_two
      · intro xs hxs
        rw [List.mem_map] at hxs
        obtain ⟨k', hk', e⟩ := hxs
        subst e
        exact versions_pos k' (hw.2 k' hk')
      · exact ⟨versions k, List.mem_map.mpr ⟨k, hk, rfl⟩, ih k hk (hw.2 k hk) hks⟩

/-! ### type variables -/

theorem isVarL_not_inner {l : TyL} (h : isVarL l = true) : isInnerL l = false := by
  cases l <;> simp_all [isVarL, isInnerL]

theorem isPolymorphic_false_iff (t : Ty) : isPolymorphic t = false ↔ polys t = [] := by
  induction t using Ty.ind_aux with
  | h l ks ih =>
    rw [isPolymorphic_node, polys_node]
    by_cases hv : isVarL l = true
    · simp [hv]
    · have hv' : isVarL l = false := by simpa using hv
      by_cases hi : isInnerL l = true
      · simp only [hv', hi, Bool.false_or, Bool.true_and, if_true, Bool.false_eq_true, if_false,
          List.any_eq_false, List.flatMap_eq_nil_iff]
        constructor
        · intro h k hk; exact (ih k hk).mp (by simpa using h k hk)
        · intro h k hk; simpa using (ih k hk).mpr (h k hk)
      · have hi' : isInnerL l = false := by simpa using hi
        simp [hv', hi']

theorem unify_of_ground (n : String) (v : Ty) (t : Ty) : polys t = [] → unify n v t = t := by
  induction t using Ty.ind_aux with
  | h l ks ih =>
    intro h
    rw [polys_node] at h
    rw [unify_node]
    by_cases hv : isVarL l = true
    · simp [hv] at h
    · have hv' : isVarL l = false := by simpa using hv
      by_cases hi : isInnerL l = true
      · simp only [hv', hi, if_true, Bool.false_eq_true, if_false, List.flatMap_eq_nil_iff] at h ⊢
        congr 1
        conv => rhs; rw [← List.map_id ks]
        apply List.map_congr_left
        intro k hk
        exact ih k hk (h k hk)
      · have hi' : isInnerL l = false := by simpa using hi
        simp [hv', hi']

theorem polys_applySubst (σ : String → Ty) (t : Ty) :
    (∀ q ∈ polys t, polys (σ q.label.name) = []) → polys (applySubst σ t) = [] := by
  induction t using Ty.ind_aux with
  | h l ks ih =>
    intro h
    rw [polys_node] at h
    rw [applySubst_node]
    by_cases hv : isVarL l = true
    · simp only [hv, if_true, List.mem_singleton, forall_eq] at h ⊢
      exact h
    · have hv' : isVarL l = false := by simpa using hv
      by_cases hi : isInnerL l = true
      · simp only [hv', hi, if_true, Bool.false_eq_true, if_false] at h ⊢
        rw [polys_node]
        simp only [hv', hi, if_true, Bool.false_eq_true, if_false, List.flatMap_eq_nil_iff,
          List.mem_map, forall_exists_index, and_imp, forall_apply_eq_imp_iff₂]
        intro k hk
        apply ih k hk
        intro q hq
        exact h q (List.mem_flatMap.mpr ⟨k, hk, hq⟩)
      · have hi' : isInnerL l = false := by simpa using hi
        simp only [hv', hi', Bool.false_eq_true, if_false]
        rw [polys_node]
        simp [hv', hi']

theorem versions_ground (t : Ty) : polys t = [] → ∀ c ∈ versions t, polys c = [] := by
  induction t using Ty.ind_aux with
  | h l ks ih =>
    intro h c hc
    rw [polys_node] at h
    by_cases hv : isVarL l = true
    · simp [hv] at h
    · have hv' : isVarL l = false := by simpa using hv
      by_cases hi : isInnerL l = true
      · simp only [hv', hi, if_true, Bool.false_eq_true, if_false, List.flatMap_eq_nil_iff] at h
        by_cases hs : l = .sum
        · subst hs
          rw [versions_sum, List.mem_flatMap] at hc
          obtain ⟨a, ha, hc⟩ := hc
          exact ih a ha (h a ha) c hc
        · rw [versions_comp l ks hs hi, List.mem_map] at hc
          obtain ⟨cs, hcs, e⟩ := hc
          subst e
          rw [polys_node]
          simp only [hv', hi, if_true, Bool.false_eq_true, if_false, List.flatMap_eq_nil_iff]
          intro c' hc'
          obtain ⟨xs, hxs, hcx⟩ := mem_product_get _ cs hcs c' hc'
          rw [List.mem_map] at hxs
          obtain ⟨k, hk, e⟩ := hxs
          subst e
          exact ih k hk (h k hk) c' hcx
      · have hi' : isInnerL l = false := by simpa using hi
        rw [versions_leaf l ks hi', List.mem_singleton] at hc
        subst hc
        rw [polys_node]
        simp [hv', hi']

theorem wf_applySubst (σ : String → Ty) (t : Ty) :
    wf t = true → (∀ q ∈ polys t, wf (σ q.label.name) = true) → wf (applySubst σ t) = true := by
  induction t using Ty.ind_aux with
  | h l ks ih =>
    intro hw h
    rw [polys_node] at h
    rw [applySubst_node]
    by_cases hv : isVarL l = true
    · simp only [hv, if_true, List.mem_singleton, forall_eq] at h ⊢
      exact h
    · have hv' : isVarL l = false := by simpa using hv
      by_cases hi : isInnerL l = true
      · simp only [hv', hi, if_true, Bool.false_eq_true, if_false] at h ⊢
        rw [wf_node, Bool.and_eq_true, List.all_eq_true] at hw
        rw [wf_node, Bool.and_eq_true, List.all_eq_true, List.length_map]
        refine ⟨hw.1, ?_⟩
        intro k' hk'
        rw [List.mem_map] at hk'
        obtain ⟨k, hk, e⟩ := hk'
        subst e
        exact ih k hk (hw.2 k hk) (fun q hq => h q (List.mem_flatMap.mpr ⟨k, hk, hq⟩))
      · have hi' : isInnerL l = false := by simpa using hi
        simpa [hv', hi'] using hw

/-! ### the loop over the type variables = one simultaneous substitution -/

/-- the substitutions of the loop, one variable after the other -/
def unifyAll (pairs : List (String × Ty)) (t : Ty) : Ty :=
  pairs.foldl (fun t p => unify p.1 p.2 t) t

theorem unifyAll_ground (pairs : List (String × Ty)) (t : Ty) (h : polys t = []) : unifyAll pairs t = t := by
  induction pairs with
  | nil => rfl
  | cons p ps ih => simp only [unifyAll, List.foldl_cons, unify_of_ground _ _ _ h] at ih ⊢; exact ih

theorem unifyAll_node (pairs : List (String × Ty)) (hg : ∀ p ∈ pairs, polys p.2 = []) (l : TyL) (ks : List Ty) :
    unifyAll pairs (.node l ks) =
      if isVarL l then (match AList.lookup l.name pairs with | some v => v | none => .node l ks)
      else if isInnerL l then .node l (ks.map (unifyAll pairs)) else .node l ks := by
  induction pairs generalizing ks with
  | nil =>
    have hid : ks.map (unifyAll []) = ks := by
      conv => rhs; rw [← List.map_id ks]
      apply List.map_congr_left; intro k _; rfl
    rw [hid]
    show Tree.node l ks = _
    simp [AList.lookup]
  | cons p ps ih =>
    obtain ⟨n, v⟩ := p
    have hg' : ∀ p ∈ ps, polys p.2 = [] := fun p hp => hg p (List.mem_cons_of_mem _ hp)
    have hstep : ∀ t, unifyAll ((n, v) :: ps) t = unifyAll ps (unify n v t) := fun t => rfl
    rw [hstep, unify_node]
    by_cases hv : isVarL l = true
    · simp only [hv, if_true]
      by_cases hn : l.name = n
      · subst hn
        simp only [if_true, AList.lookup]
        exact unifyAll_ground ps v (hg (l.name, v) (by simp))
      · have hn' : ¬ n = l.name := fun e => hn e.symm
        simp only [hn, if_false, AList.lookup, hn']
        rw [ih hg' ks]
        simp [hv]
    · have hv' : isVarL l = false := by simpa using hv
      by_cases hi : isInnerL l = true
      · simp only [hv', hi, if_true, Bool.false_eq_true, if_false]
        rw [ih hg']
        simp only [hv', hi, if_true, Bool.false_eq_true, if_false, List.map_map]
        congr 1
      · have hi' : isInnerL l = false := by simpa using hi
        simp only [hv', hi', Bool.false_eq_true, if_false]
        rw [ih hg']
        simp [hv', hi']

theorem unifyAll_eq_applySubst (pairs : List (String × Ty)) (hg : ∀ p ∈ pairs, polys p.2 = [])
    (σ : String → Ty) (t : Ty) :
    (∀ q ∈ polys t, AList.lookup q.label.name pairs = some (σ q.label.name)) →
      unifyAll pairs t = applySubst σ t := by
  induction t using Ty.ind_aux with
  | h l ks ih =>
    intro h
    rw [polys_node] at h
    rw [unifyAll_node pairs hg, applySubst_node]
    by_cases hv : isVarL l = true
    · simp only [hv, if_true, List.mem_singleton, forall_eq] at h ⊢
      have h' : AList.lookup l.name pairs = some (σ l.name) := h
      rw [h']
    · have hv' : isVarL l = false := by simpa using hv
      by_cases hi : isInnerL l = true
      · simp only [hv', hi, if_true, Bool.false_eq_true, if_false] at h ⊢
        congr 1
        apply List.map_congr_left
        intro k hk
        exact ih k hk (fun q hq => h q (List.mem_flatMap.mpr ⟨k, hk, hq⟩))
      · have hi' : isInnerL l = false := by simpa using hi
        simp [hv', hi']

/-- the test of dsl.py for one variable name and one candidate -/
def Ok (U : List Ty) (bound : Nat) (V : List Ty) (n : String) (v : Ty) : Prop :=
  v ∈ U ∧ admissible V n v = true ∧ Ty.size v ≤ bound

theorem mem_instVar (U : List Ty) (bound : Nat) (V insts : List Ty) (q t' : Ty) :
    t' ∈ instVar U bound V insts q ↔
      ∃ v, Ok U bound V q.label.name v ∧ ∃ i ∈ insts, t' = unify q.label.name v i := by
  unfold instVar Ok
  rw [mem_dedup, List.mem_flatMap]
  constructor
  · rintro ⟨v, hv, ht⟩
    rw [List.mem_filter] at hv
    rw [List.mem_map] at ht
    obtain ⟨i, hi, e⟩ := ht
    simp only [Bool.and_eq_true, decide_eq_true_eq] at hv
    exact ⟨v, ⟨hv.1, hv.2.1, hv.2.2⟩, i, hi, e.symm⟩
  · rintro ⟨v, ⟨h1, h2, h3⟩, i, hi, e⟩
    refine ⟨v, ?_, ?_⟩
    · rw [List.mem_filter]
      simp only [Bool.and_eq_true, decide_eq_true_eq]
      exact ⟨h1, h2, h3⟩
    · rw [List.mem_map]; exact ⟨i, hi, e.symm⟩

theorem mem_foldl_instVar (U : List Ty) (bound : Nat) (V : List Ty) (vars insts : List Ty) (t' : Ty) :
    t' ∈ vars.foldl (instVar U bound V) insts ↔
      ∃ i ∈ insts, ∃ pairs : List (String × Ty),
        List.Forall₂ (fun q p => p.1 = q.label.name ∧ Ok U bound V p.1 p.2) vars pairs ∧
        t' = unifyAll pairs i := by
  induction vars generalizing insts with
  | nil =>
    simp only [List.foldl_nil]
    constructor
    · intro h; exact ⟨t', h, [], List.Forall₂.nil, rfl⟩
    · rintro ⟨i, hi, pairs, hf, e⟩
      cases hf
      simpa [e, unifyAll] using hi
  | cons q vars ih =>
    simp only [List.foldl_cons]
    rw [ih]
    constructor
    · rintro ⟨i', hi', pairs, hf, e⟩
      rw [mem_instVar] at hi'
      obtain ⟨v, hok, i, hi, e'⟩ := hi'
      refine ⟨i, hi, (q.label.name, v) :: pairs, List.Forall₂.cons ⟨rfl, hok⟩ hf, ?_⟩
      rw [e, e']; rfl
    · rintro ⟨i, hi, pairs, hf, e⟩
      cases hf with
      | cons hp hf' =>
        rename_i p ps
        obtain ⟨n, v⟩ := p
        obtain ⟨hn, hok⟩ := hp
        simp only at hn hok
        subst hn
        refine ⟨unify q.label.name v i, ?_, ps, hf', ?_⟩
        · rw [mem_instVar]; exact ⟨v, hok, i, hi, rfl⟩
        · rw [e]; rfl

theorem lookup_of_forall₂ (R : String → Ty → Prop) (vars : List Ty) (pairs : List (String × Ty))
    (hf : List.Forall₂ (fun q p => p.1 = q.label.name ∧ R p.1 p.2) vars pairs) (n : String)
    (hn : ∃ q ∈ vars, q.label.name = n) : ∃ v, AList.lookup n pairs = some v ∧ R n v := by
  induction vars generalizing pairs with
  | nil => obtain ⟨q, hq, _⟩ := hn; cases hq
  | cons q0 vars ih =>
    cases hf with
    | @cons _ p0 _ ps hp hf' =>
      obtain ⟨pn, pv⟩ := p0
      obtain ⟨h1, h2⟩ := hp
      simp only at h1 h2
      by_cases e : pn = n
      · subst e
        exact ⟨pv, by simp [AList.lookup], h2⟩
      · obtain ⟨q', hq', hqn⟩ := hn
        rcases List.mem_cons.mp hq' with e' | hq''
        · subst e'; exact absurd (h1.trans hqn) e
        · obtain ⟨v, hv, hr⟩ := ih ps hf' ⟨q', hq'', hqn⟩
          exact ⟨v, by simp [AList.lookup, e, hv], hr⟩

theorem values_of_forall₂ (R : String → Ty → Prop) (vars : List Ty) (pairs : List (String × Ty))
    (hf : List.Forall₂ (fun q p => p.1 = q.label.name ∧ R p.1 p.2) vars pairs) :
    ∀ p ∈ pairs, R p.1 p.2 := by
  induction hf with
  | nil => intro p hp; cases hp
  | cons hp _ ih =>
    intro p' hp'
    rcases List.mem_cons.mp hp' with e | h
    · subst e; exact hp.2
    · exact ih p' h

theorem lookup_map_name (σ : String → Ty) (vars : List Ty) (n : String) (hn : ∃ q ∈ vars, q.label.name = n) :
    AList.lookup n (vars.map (fun q => (q.label.name, σ q.label.name))) = some (σ n) := by
  induction vars with
  | nil => obtain ⟨q, hq, _⟩ := hn; cases hq
  | cons q vars ih =>
    simp only [List.map_cons, AList.lookup]
    by_cases e : q.label.name = n
    · simp [e]
    · simp only [e, if_false]
      obtain ⟨q', hq', hqn⟩ := hn
      rcases List.mem_cons.mp hq' with e' | hq''
      · subst e'; exact absurd hqn e
      · exact ih ⟨q', hq'', hqn⟩

/-- **the variable loop.** With a ground universe `U`, the instantiated types of `τ` are
    exactly the simultaneous substitutions of its variables by candidates that every
    variable of that name accepts. -/
theorem mem_instType (U : List Ty) (hU : ∀ u ∈ U, polys u = []) (bound : Nat) (τ t' : Ty) :
    t' ∈ instType U bound τ ↔
      ∃ σ : String → Ty,
        (∀ q ∈ polys τ, σ q.label.name ∈ U ∧ Ty.size (σ q.label.name) ≤ bound ∧
          canBe q (σ q.label.name) = true) ∧ t' = applySubst σ τ := by
  unfold instType
  simp only
  rw [mem_foldl_instVar]
  constructor
  · rintro ⟨i, hi, pairs, hf, e⟩
    rw [List.mem_singleton] at hi
    subst hi
    have hval := values_of_forall₂ _ _ _ hf
    have hg : ∀ p ∈ pairs, polys p.2 = [] := fun p hp => hU _ (hval p hp).1
    have hlook := lookup_of_forall₂ _ _ _ hf
    refine ⟨fun n => (AList.lookup n pairs).getD Ty.unknown, ?_, ?_⟩
    · intro q hq
      obtain ⟨v, hv, hok⟩ := hlook q.label.name ⟨q, mem_dedup.mpr hq, rfl⟩
      simp only [hv, Option.getD_some]
      refine ⟨hok.1, hok.2.2, ?_⟩
      have := hok.2.1
      unfold admissible at this
      rw [List.all_eq_true] at this
      simpa using this q (mem_dedup.mpr hq)
    · rw [e]
      apply unifyAll_eq_applySubst pairs hg
      intro q hq
      obtain ⟨v, hv, _⟩ := hlook q.label.name ⟨q, mem_dedup.mpr hq, rfl⟩
      simp [hv]
  · rintro ⟨σ, hσ, e⟩
    refine ⟨τ, List.mem_singleton.mpr rfl, (dedup (polys τ)).map (fun q => (q.label.name, σ q.label.name)), ?_, ?_⟩
    · rw [List.forall₂_map_right_iff]
      apply List.forall₂_same.mpr
      intro q hq
      have hq' := mem_dedup.mp hq
      refine ⟨rfl, (hσ q hq').1, ?_, (hσ q hq').2.1⟩
      unfold admissible
      rw [List.all_eq_true]
      intro q' hq''
      by_cases hn : q'.label.name = q.label.name
      · have := (hσ q' (mem_dedup.mp hq'')).2.2
        rw [hn] at this
        simp [this]
      · simp [hn]
    · rw [e]
      symm
      apply unifyAll_eq_applySubst
      · intro p hp
        rw [List.mem_map] at hp
        obtain ⟨q, hq, e'⟩ := hp
        subst e'
        exact hU _ (hσ q (mem_dedup.mp hq)).1
      · intro q hq
        exact lookup_map_name σ _ _ ⟨q, mem_dedup.mpr hq, rfl⟩

/-! ### the universe -/

theorem basics_node (l : TyL) (ks : List Ty) :
    basics (.node l ks) = match l with
      | .prim _ => [.node l ks]
      | _ => if isInnerL l then ks.flatMap basics else [] := by
  cases l <;> simp [basics, basicsList_eq]

theorem basics_prim (t : Ty) : ∀ b ∈ basics t, (∃ n ks, b = .node (.prim n) ks) ∧ (wf t = true → wf b = true) := by
  induction t using Ty.ind_aux with
  | h l ks ih =>
    intro b hb
    rw [basics_node] at hb
    cases l with
    | prim n => simp only [List.mem_singleton] at hb; subst hb; exact ⟨⟨n, ks, rfl⟩, id⟩
    | poly n => simp [isInnerL] at hb
    | fpoly n => simp [isInnerL] at hb
    | unknown => simp [isInnerL] at hb
    | arrow =>
      simp only [isInnerL, if_true, List.mem_flatMap] at hb
      obtain ⟨k, hk, hb⟩ := hb
      refine ⟨(ih k hk b hb).1, fun hw => (ih k hk b hb).2 ?_⟩
      rw [wf_node, Bool.and_eq_true, List.all_eq_true] at hw; exact hw.2 k hk
    | generic n =>
      simp only [isInnerL, if_true, List.mem_flatMap] at hb
      obtain ⟨k, hk, hb⟩ := hb
      refine ⟨(ih k hk b hb).1, fun hw => (ih k hk b hb).2 ?_⟩
      rw [wf_node, Bool.and_eq_true, List.all_eq_true] at hw; exact hw.2 k hk
    | sum =>
      simp only [isInnerL, if_true, List.mem_flatMap] at hb
      obtain ⟨k, hk, hb⟩ := hb
      refine ⟨(ih k hk b hb).1, fun hw => (ih k hk b hb).2 ?_⟩
      rw [wf_node, Bool.and_eq_true, List.all_eq_true] at hw; exact hw.2 k hk

theorem mem_basicTypes (P : List Prim) (b : Ty) : b ∈ basicTypes P ↔ IsBase P b := by
  unfold basicTypes IsBase
  rw [List.mem_filter, mem_dedup, List.mem_flatMap]
  simp

theorem mem_typeUniverse (P : List Prim) (u : Ty) : u ∈ typeUniverse (basicTypes P) ↔ InUniverse P u := by
  unfold typeUniverse InUniverse
  rw [mem_dedup, List.mem_append, List.mem_flatMap]
  constructor
  · rintro (h | ⟨b, hb, h⟩)
    · exact ⟨u, (mem_basicTypes P u).mp h, Or.inl rfl⟩
    · refine ⟨b, (mem_basicTypes P b).mp hb, ?_⟩
      simp only [List.cons_append, List.nil_append, List.mem_cons, List.mem_map] at h
      rcases h with h | h | ⟨b', hb', e⟩
      · exact Or.inr (Or.inl h)
      · exact Or.inr (Or.inr (Or.inl h))
      · exact Or.inr (Or.inr (Or.inr ⟨b', (mem_basicTypes P b').mp hb', e.symm⟩))
  · rintro ⟨b, hb, h⟩
    have hb' := (mem_basicTypes P b).mpr hb
    rcases h with h | h | h | ⟨b', hb2, e⟩
    · subst h; exact Or.inl hb'
    · exact Or.inr ⟨b, hb', by simp [h]⟩
    · exact Or.inr ⟨b, hb', by simp [h]⟩
    · exact Or.inr ⟨b, hb', by
        simp only [List.cons_append, List.nil_append, List.mem_cons, List.mem_map]
        exact Or.inr (Or.inr ⟨b', (mem_basicTypes P b').mpr hb2, e.symm⟩)⟩

theorem isBase_prim {P : List Prim} {b : Ty} (h : IsBase P b) : ∃ n ks, b = .node (.prim n) ks := by
  obtain ⟨⟨p, _, hb⟩, _⟩ := h
  exact (basics_prim p.2 b hb).1

theorem isBase_wf {P : List Prim} (hP : ∀ p ∈ P, wf p.2 = true) {b : Ty} (h : IsBase P b) : wf b = true := by
  obtain ⟨⟨p, hp, hb⟩, _⟩ := h
  exact (basics_prim p.2 b hb).2 (hP p hp)

theorem polys_prim (n : String) (ks : List Ty) : polys (.node (.prim n) ks) = [] := by
  rw [polys_node]; simp [isVarL, isInnerL]

theorem inUniverse_ground {P : List Prim} {u : Ty} (h : InUniverse P u) : polys u = [] := by
  obtain ⟨b, hb, h⟩ := h
  obtain ⟨n, ks, e⟩ := isBase_prim hb
  subst e
  rcases h with h | h | h | ⟨b', hb', h⟩
  · subst h; exact polys_prim n ks
  · subst h; simp [Ty.list, Ty.generic, polys_node, isVarL, isInnerL]
  · subst h; simp [Ty.list, Ty.generic, polys_node, isVarL, isInnerL]
  · obtain ⟨n', ks', e'⟩ := isBase_prim hb'
    subst e' h
    simp [Ty.arrow, polys_node, isVarL, isInnerL]

theorem inUniverse_wf {P : List Prim} (hP : ∀ p ∈ P, wf p.2 = true) {u : Ty} (h : InUniverse P u) :
    wf u = true := by
  obtain ⟨b, hb, h⟩ := h
  have hw := isBase_wf hP hb
  rcases h with h | h | h | ⟨b', hb', h⟩
  · subst h; exact hw
  · subst h; simp [Ty.list, Ty.generic, wf_node, wfNode, hw]
  · subst h; simp [Ty.list, Ty.generic, wf_node, wfNode, hw]
  · have hw' := isBase_wf hP hb'
    subst h; simp [Ty.arrow, wf_node, wfNode, hw, hw']

/-! ### unit arguments -/

theorem mkArrows_arguments_returns (t : Ty) : mkArrows (arguments t) (returns t) = t := by
  fun_induction arguments t with
  | case1 a b ih => simp only [returns, mkArrows, Ty.arrow, ih]
  | case2 t h =>
    unfold returns
    split
    · rename_i a b; exact absurd rfl (h a b)
    · rfl

theorem arguments_returns (t : Ty) : arguments (returns t) = [] := by
  fun_induction returns t with
  | case1 a b ih => exact ih
  | case2 t h =>
    unfold arguments
    split
    · rename_i a b; exact absurd rfl (h a b)
    · rfl

theorem returns_returns (t : Ty) : returns (returns t) = returns t := by
  fun_induction returns t with
  | case1 a b ih => exact ih
  | case2 t h =>
    unfold returns
    split
    · rename_i a b; exact absurd rfl (h a b)
    · rfl

theorem arguments_mkArrows (as : List Ty) (r : Ty) (h : arguments r = []) : arguments (mkArrows as r) = as := by
  induction as with
  | nil => exact h
  | cons a as ih => simp [mkArrows, Ty.arrow, arguments, ih]

theorem returns_mkArrows (as : List Ty) (r : Ty) : returns (mkArrows as r) = returns r := by
  induction as with
  | nil => rfl
  | cons a as ih => simp [mkArrows, Ty.arrow, returns, ih]

/-- the specified removal has the arguments of `t` that are not unit, and the same result type -/
theorem arguments_dropUnit (t : Ty) :
    arguments (dropUnit t) = (arguments t).filter (fun a => a != Ty.unit) := by
  unfold dropUnit; exact arguments_mkArrows _ _ (arguments_returns t)

theorem returns_dropUnit (t : Ty) : returns (dropUnit t) = returns t := by
  unfold dropUnit; rw [returns_mkArrows, returns_returns]

theorem hasUnitArg_dropUnit (t : Ty) : hasUnitArg (dropUnit t) = false := by
  unfold hasUnitArg
  rw [arguments_dropUnit, List.any_eq_false]
  intro a ha
  rw [List.mem_filter] at ha
  simpa using ha.2

theorem dropUnit_of_noUnitArg (t : Ty) (h : hasUnitArg t = false) : dropUnit t = t := by
  unfold dropUnit
  have : (arguments t).filter (fun a => a != Ty.unit) = arguments t := by
    rw [List.filter_eq_self]
    intro a ha
    unfold hasUnitArg at h
    rw [List.any_eq_false] at h
    simpa using h a ha
  rw [this, mkArrows_arguments_returns]

theorem arguments_of_not_arrow (t : Ty) (h : ∀ a b, t = .node .arrow [a, b] → False) : arguments t = [] := by
  unfold arguments
  split
  · rename_i a b; exact absurd rfl (h a b)
  · rfl

theorem returns_of_not_arrow (t : Ty) (h : ∀ a b, t = .node .arrow [a, b] → False) : returns t = t := by
  unfold returns
  split
  · rename_i a b; exact absurd rfl (h a b)
  · rfl

theorem withoutUnit_of_not_arrow (t : Ty) (h : ∀ a b, t = .node .arrow [a, b] → False) : withoutUnit fx t = t :=
  withoutUnit.eq_3 fx t h

theorem dropUnit_arrow (a b : Ty) :
    dropUnit (.node .arrow [a, b]) = if a = Ty.unit then dropUnit b else Ty.arrow a (dropUnit b) := by
  unfold dropUnit
  by_cases h : a = Ty.unit
  · subst h; simp [arguments, returns]
  · have h' : (a != Ty.unit) = true := by simpa using h
    simp [arguments, returns, h', h, mkArrows]

theorem withoutUnit_arrow_safe (a b : Ty) (h : returnsUnitFn a = false) :
    withoutUnit fx (.node .arrow [a, b]) = if a = Ty.unit then withoutUnit fx b else Ty.arrow a (withoutUnit fx b) := by
  by_cases hx : ∃ x y, a = .node .arrow [x, y]
  · obtain ⟨x, y, e⟩ := hx
    subst e
    have : ¬ y = Ty.unit := by simpa [returnsUnitFn] using h
    rw [withoutUnit.eq_1]
    simp [this]
  · exact withoutUnit.eq_2 fx a b (fun x y e => hx ⟨x, y, e⟩)

/-- outside the region of finding C14-F4, `without_unit_arguments` is the specified removal -/
theorem withoutUnit_eq_dropUnit (t : Ty) : hasUnitRetArg t = false → withoutUnit fx t = dropUnit t := by
  induction t using arguments.induct with
  | case1 a b ih =>
    intro h
    simp only [hasUnitRetArg, arguments, List.any_cons, Bool.or_eq_false_iff] at h
    rw [withoutUnit_arrow_safe a b h.1, dropUnit_arrow, ih h.2]
  | case2 t h =>
    intro _
    rw [withoutUnit_of_not_arrow t h]
    unfold dropUnit
    simp [arguments_of_not_arrow t h, returns_of_not_arrow t h, mkArrows]

/-- with the repair of C14-F4 (`fx = true`) `without_unit_arguments` is the specified removal on
    EVERY type -/
theorem withoutUnit_fixed_eq_dropUnit (t : Ty) : withoutUnit true t = dropUnit t := by
  induction t using arguments.induct with
  | case1 a b ih =>
    rw [dropUnit_arrow, ← ih]
    by_cases hx : ∃ x y, a = .node .arrow [x, y]
    · obtain ⟨x, y, e⟩ := hx
      subst e
      rw [withoutUnit.eq_1]
      simp [Ty.arrow]
    · exact withoutUnit.eq_2 true a b (fun x y e => hx ⟨x, y, e⟩)
  | case2 t h =>
    rw [withoutUnit_of_not_arrow t h]
    unfold dropUnit
    simp [arguments_of_not_arrow t h, returns_of_not_arrow t h, mkArrows]

/-- `without_unit_arguments` keeps any property of types that holds for an arrow exactly when
    it holds for both sides (no variable, no sum, …) -/
theorem withoutUnit_preserves (Q : Ty → Prop) (hQ : ∀ a b, Q (.node .arrow [a, b]) ↔ Q a ∧ Q b) (t : Ty) :
    Q t → Q (withoutUnit fx t) := by
  induction t using arguments.induct with
  | case1 a b ih =>
    intro h
    have hab := (hQ a b).mp h
    have hb := ih hab.2
    by_cases hx : ∃ x y, a = .node .arrow [x, y]
    · obtain ⟨x, y, e⟩ := hx
      subst e
      have hxy := (hQ x y).mp hab.1
      rw [withoutUnit.eq_1]
      split
      · exact hb
      · split
        · exact (hQ _ _).mpr ⟨hxy.1, hb⟩
        · exact (hQ _ _).mpr ⟨hab.1, hb⟩
    · rw [withoutUnit.eq_2 fx a b (fun x y e => hx ⟨x, y, e⟩)]
      split
      · exact hb
      · exact (hQ _ _).mpr ⟨hab.1, hb⟩
  | case2 t h => intro hq; rw [withoutUnit_of_not_arrow t h]; exact hq

theorem polys_arrow (a b : Ty) : polys (.node .arrow [a, b]) = [] ↔ polys a = [] ∧ polys b = [] := by
  rw [polys_node]; simp [isVarL, isInnerL]

theorem hasSum_arrow (a b : Ty) : hasSum (.node .arrow [a, b]) = false ↔ hasSum a = false ∧ hasSum b = false := by
  rw [hasSum_node]; simp [isInnerL]

/-- the type after the unit pass -/
theorem unitStep_snd (p : Prim) : (unitStep fx p).2 = if hasUnitArg p.2 then withoutUnit fx p.2 else p.2 := by
  unfold unitStep; split <;> rfl

theorem unitStep_fst (p : Prim) : (unitStep fx p).1 = p.1 := by
  unfold unitStep; split <;> rfl

/-- with the repair of C14-F4 the unit step is the specified removal for every primitive -/
theorem unitStep_fixed (p : Prim) : unitStep true p = (p.1, dropUnit p.2) := by
  unfold unitStep
  by_cases hu : hasUnitArg p.2 = true
  · simp [hu, withoutUnit_fixed_eq_dropUnit]
  · have hu' : hasUnitArg p.2 = false := by simpa using hu
    simp [hu', dropUnit_of_noUnitArg _ hu']

theorem unitStep_safe (p : Prim) (h : unitSafe p.2 = true) : unitStep fx p = (p.1, dropUnit p.2) := by
  unfold unitStep
  by_cases hu : hasUnitArg p.2 = true
  · have : hasUnitRetArg p.2 = false := by simpa [unitSafe, hu] using h
    simp [hu, withoutUnit_eq_dropUnit _ this]
  · have hu' : hasUnitArg p.2 = false := by simpa using hu
    simp [hu', dropUnit_of_noUnitArg _ hu']

/-! ### the three passes -/

theorem instType_of_ground (U : List Ty) (bound : Nat) (t : Ty) (h : polys t = []) : instType U bound t = [t] := by
  unfold instType
  simp only [h]
  rfl

theorem universe_ground (P : List Prim) : ∀ u ∈ typeUniverse (basicTypes P), polys u = [] :=
  fun u hu => inUniverse_ground ((mem_typeUniverse P u).mp hu)

theorem instType_ground (P : List Prim) (bound : Nat) (τ t : Ty)
    (h : t ∈ instType (typeUniverse (basicTypes P)) bound τ) : polys t = [] := by
  rw [mem_instType _ (universe_ground P)] at h
  obtain ⟨σ, hσ, e⟩ := h
  rw [e]
  exact polys_applySubst σ τ (fun q hq => universe_ground P _ (hσ q hq).1)

theorem instType_wf (P : List Prim) (hP : ∀ p ∈ P, wf p.2 = true) (bound : Nat) (τ t : Ty) (hτ : wf τ = true)
    (h : t ∈ instType (typeUniverse (basicTypes P)) bound τ) : wf t = true := by
  rw [mem_instType _ (universe_ground P)] at h
  obtain ⟨σ, hσ, e⟩ := h
  rw [e]
  exact wf_applySubst σ τ hτ (fun q hq => inUniverse_wf hP ((mem_typeUniverse P _).mp (hσ q hq).1))

theorem hasVars_false_iff (p : Prim) : hasVars p = false ↔ polys p.2 = [] := by
  unfold hasVars; simp

/-- what the loop over the polymorphic primitives leaves -/
theorem mem_varPass (P : List Prim) (bound : Nat) (x : Prim) :
    x ∈ varPass (typeUniverse (basicTypes P)) bound P ↔
      ∃ p ∈ P, ∃ t ∈ instType (typeUniverse (basicTypes P)) bound p.2, x = (p.1, t) := by
  unfold varPass
  rw [mem_expandPass]
  · constructor
    · rintro ⟨hx, h | ⟨p, hp, _, hm⟩⟩
      · refine ⟨x, h, x.2, ?_, rfl⟩
        rw [instType_of_ground _ _ _ ((hasVars_false_iff x).mp hx)]; simp
      · rw [List.mem_map] at hm
        obtain ⟨t, ht, e⟩ := hm
        exact ⟨p, hp, t, ht, e.symm⟩
    · rintro ⟨p, hp, t, ht, e⟩
      subst e
      refine ⟨(hasVars_false_iff _).mpr (instType_ground P bound p.2 t ht), ?_⟩
      by_cases hv : hasVars p = true
      · exact Or.inr ⟨p, hp, hv, List.mem_map.mpr ⟨t, ht, rfl⟩⟩
      · have hv' : hasVars p = false := by simpa using hv
        rw [instType_of_ground _ _ _ ((hasVars_false_iff p).mp hv'), List.mem_singleton] at ht
        subst ht
        exact Or.inl hp
  · intro p _ x hx
    rw [List.mem_map] at hx
    obtain ⟨t, ht, e⟩ := hx
    subst e
    exact (hasVars_false_iff _).mpr (instType_ground P bound p.2 t ht)

theorem manyVersions_false_of_noSum (p : Prim) (h : hasSum p.2 = false) : manyVersions p = false := by
  unfold manyVersions
  rw [versions_of_noSum _ h]
  simp

theorem noSum_of_manyVersions_false (p : Prim) (hw : wf p.2 = true) (h : manyVersions p = false) :
    hasSum p.2 = false := by
  cases hs : hasSum p.2 with
  | false => rfl
  | true =>
    have := versions_two p.2 hw hs
    unfold manyVersions at h
    simp at h
    omega

/-- what the loop over the sum types leaves (for well-formed types) -/
theorem mem_sumPass (L : List Prim) (hL : ∀ x ∈ L, wf x.2 = true) (y : Prim) :
    y ∈ sumPass L ↔ ∃ x ∈ L, ∃ v ∈ versions x.2, y = (x.1, v) := by
  unfold sumPass
  rw [mem_expandPass]
  · constructor
    · rintro ⟨hy, h | ⟨x, hx, _, hm⟩⟩
      · refine ⟨y, h, y.2, ?_, rfl⟩
        rw [versions_of_noSum _ (noSum_of_manyVersions_false y (hL y h) hy)]; simp
      · rw [List.mem_map] at hm
        obtain ⟨v, hv, e⟩ := hm
        exact ⟨x, hx, v, hv, e.symm⟩
    · rintro ⟨x, hx, v, hv, e⟩
      subst e
      refine ⟨manyVersions_false_of_noSum _ (versions_noSum x.2 v hv), ?_⟩
      by_cases hm : manyVersions x = true
      · exact Or.inr ⟨x, hx, hm, List.mem_map.mpr ⟨v, hv, rfl⟩⟩
      · have hm' : manyVersions x = false := by simpa using hm
        rw [versions_of_noSum _ (noSum_of_manyVersions_false x (hL x hx) hm'), List.mem_singleton] at hv
        subst hv
        exact Or.inl hx
  · intro p _ x hx
    rw [List.mem_map] at hx
    obtain ⟨v, hv, e⟩ := hx
    subst e
    exact manyVersions_false_of_noSum _ (versions_noSum p.2 v hv)

theorem mem_unitPass (L : List Prim) (r : Prim) : r ∈ unitPass fx L ↔ ∃ y ∈ L, r = unitStep fx y := by
  unfold unitPass
  rw [mem_dedup, List.mem_map]
  constructor
  · rintro ⟨y, hy, e⟩; exact ⟨y, hy, e.symm⟩
  · rintro ⟨y, hy, e⟩; exact ⟨y, hy, e.symm⟩

/-- the primitives before the unit pass -/
def preUnit (P : List Prim) (bound : Nat) : List Prim :=
  sumPass (varPass (typeUniverse (basicTypes P)) bound P)

theorem mem_preUnit (P : List Prim) (hP : ∀ p ∈ P, wf p.2 = true) (bound : Nat) (y : Prim) :
    y ∈ preUnit P bound ↔
      ∃ p ∈ P, ∃ t ∈ instType (typeUniverse (basicTypes P)) bound p.2, ∃ v ∈ versions t, y = (p.1, v) := by
  unfold preUnit
  rw [mem_sumPass]
  · constructor
    · rintro ⟨x, hx, v, hv, e⟩
      rw [mem_varPass] at hx
      obtain ⟨p, hp, t, ht, e'⟩ := hx
      subst e'
      exact ⟨p, hp, t, ht, v, hv, e⟩
    · rintro ⟨p, hp, t, ht, v, hv, e⟩
      exact ⟨(p.1, t), (mem_varPass P bound _).mpr ⟨p, hp, t, ht, rfl⟩, v, hv, e⟩
  · intro x hx
    rw [mem_varPass] at hx
    obtain ⟨p, hp, t, ht, e⟩ := hx
    subst e
    exact instType_wf P hP bound p.2 t (hP p hp) ht

theorem mem_instantiate (P : List Prim) (bound : Nat) (r : Prim) :
    r ∈ instantiate fx P bound ↔ ∃ y ∈ preUnit P bound, r = unitStep fx y := by
  unfold instantiate preUnit
  exact mem_unitPass _ r

/-- the instances before the unit pass, in the words of the specification -/
theorem mem_preUnit_spec (P : List Prim) (hP : ∀ p ∈ P, wf p.2 = true) (bound : Nat) (y : Prim) :
    y ∈ preUnit P bound ↔
      ∃ p ∈ P, ∃ σ, Admissible P bound p.2 σ ∧ ∃ c, Choice (applySubst σ p.2) c ∧ y = (p.1, c) := by
  rw [mem_preUnit P hP]
  constructor
  · rintro ⟨p, hp, t, ht, v, hv, e⟩
    rw [mem_instType _ (universe_ground P)] at ht
    obtain ⟨σ, hσ, et⟩ := ht
    subst et
    refine ⟨p, hp, σ, ?_, v, (mem_versions_iff _ _).mp hv, e⟩
    intro q hq
    exact ⟨(mem_typeUniverse P _).mp (hσ q hq).1, (hσ q hq).2⟩
  · rintro ⟨p, hp, σ, hσ, c, hc, e⟩
    refine ⟨p, hp, applySubst σ p.2, ?_, c, (mem_versions_iff _ _).mpr hc, e⟩
    rw [mem_instType _ (universe_ground P)]
    exact ⟨σ, fun q hq => ⟨(mem_typeUniverse P _).mpr (hσ q hq).1, (hσ q hq).2⟩, rfl⟩

/-- a list of ground, sum-free primitives without unit arguments and without repetition is
    left unchanged by an instantiation -/
theorem instantiate_fixed (R : List Prim) (bound : Nat) (hnd : R.Nodup)
    (h : ∀ r ∈ R, polys r.2 = [] ∧ hasSum r.2 = false ∧ hasUnitArg r.2 = false) :
    instantiate fx R bound = R := by
  unfold instantiate varPass sumPass unitPass
  rw [expandPass_id _ _ R (fun r hr => (hasVars_false_iff r).mpr (h r hr).1)]
  rw [expandPass_id _ _ R (fun r hr => manyVersions_false_of_noSum r (h r hr).2.1)]
  have : R.map (unitStep fx) = R := by
    conv => rhs; rw [← List.map_id R]
    apply List.map_congr_left
    intro r hr
    simp [unitStep, (h r hr).2.2]
  rw [this, dedup_of_nodup hnd]

end PS.Dsl
