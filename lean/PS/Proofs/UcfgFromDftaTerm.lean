/-
  C06, part 7: termination of the worklist loop for EVERY flattening scheme (in particular
  `from_DFTA_with_ngrams`, every width) on an automaton whose flattened image is acyclic.
  With n-gram contexts a rule of the automaton is read once per context of its target, so the
  bound of `from_DFTA` does not apply; the potential here is the size of the unfolding of the
  stack elements: `cost j k` = number of iterations to process the key `k` and everything below
  it, `j` levels deep.
-/
import PS.Proofs.UcfgFromDftaLang
namespace PS.U.FD
open PS PS.G PS.U DFTA

variable {Q U V : Type} [DecidableEq Q] [DecidableEq U] [DecidableEq V]
set_option linter.unusedSectionVars false

/-- the argument non-terminals of all rules read at `k`, without the `not in new_rules` test -/
def childrenOf (F : Flat Q U V) (A : DFTA Sym Q) (k : UNT V) : List (UNT V) :=
  A.rules.flatMap (fun r => if matchesTgt F k r then newArgs F k r.1.1 r.1.2 else [])

def cost (F : Flat Q U V) (A : DFTA Sym Q) : Nat → UNT V → Nat
  | 0, _ => 1
  | j + 1, k => 1 + ((childrenOf F A k).map (cost F A j)).sum

theorem cost_pos (F : Flat Q U V) (A : DFTA Sym Q) (j : Nat) (k : UNT V) : 1 ≤ cost F A j k := by
  cases j <;> simp [cost]

theorem sum_map_le {α : Type} (l : List α) (g g' : α → Nat) (h : ∀ x ∈ l, g x ≤ g' x) :
    (l.map g).sum ≤ (l.map g').sum := by
  induction l with
  | nil => simp
  | cons x xs ih =>
    simp only [List.map_cons, List.sum_cons]
    have := h x (by simp)
    have := ih (fun y hy => h y (by simp [hy]))
    omega

theorem cost_mono (F : Flat Q U V) (A : DFTA Sym Q) : ∀ (j j' : Nat) (k : UNT V), j ≤ j' →
    cost F A j k ≤ cost F A j' k := by
  intro j
  induction j with
  | zero => intro j' k _; rw [cost]; exact cost_pos F A j' k
  | succ j ih =>
    intro j' k h
    obtain ⟨j'', rfl⟩ : ∃ j'', j' = j'' + 1 := ⟨j' - 1, by omega⟩
    rw [cost, cost]
    have := sum_map_le (childrenOf F A k) (cost F A j) (cost F A j'') (fun x _ => ih j'' x (by omega))
    omega

theorem sum_filter_le {α : Type} (l : List α) (p : α → Bool) (g : α → Nat) :
    ((l.filter p).map g).sum ≤ (l.map g).sum := by
  induction l with
  | nil => simp
  | cons x xs ih =>
    by_cases h : p x = true
    · rw [List.filter_cons_of_pos h]; simp only [List.map_cons, List.sum_cons]; omega
    · rw [List.filter_cons_of_neg h]; simp only [List.map_cons, List.sum_cons]; omega

theorem pushes_sum_le (F : Flat Q U V) (A : DFTA Sym Q) (tgt : UNT V) (keys : List (UNT V))
    (g : UNT V → Nat) :
    ((pushesFor F A tgt keys).map g).sum ≤ ((childrenOf F A tgt).map g).sum := by
  unfold pushesFor childrenOf
  induction A.rules with
  | nil => simp
  | cons r rs ih =>
    simp only [List.flatMap_cons, List.map_append, List.sum_append]
    by_cases hm : matchesTgt F tgt r = true
    · rw [if_pos hm, if_pos hm]
      have := sum_filter_le (newArgs F tgt r.1.1 r.1.2) (fun k => decide (k ∉ keys)) g
      omega
    · rw [if_neg hm, if_neg hm]
      simpa using ih

section Term
variable (F : Flat Q U V) (A : DFTA Sym Q) (rankU : UNT U → Nat)

/-- the potential of a stack -/
def potential (stack : List (UNT V)) : Nat :=
  (stack.map (fun k => cost F A (rankU (F.proj k) + 1) k)).sum

theorem mem_childrenOf (k x : UNT V) (hx : x ∈ childrenOf F A k) :
    ∃ r ∈ A.rules, matchesTgt F k r = true ∧ x ∈ newArgs F k r.1.1 r.1.2 := by
  unfold childrenOf at hx
  obtain ⟨r, hr, hx'⟩ := List.mem_flatMap.mp hx
  by_cases hm : matchesTgt F k r = true
  · rw [if_pos hm] at hx'; exact ⟨r, hr, hm, hx'⟩
  · rw [if_neg hm] at hx'; cases hx'

theorem mem_newArgs' (k : UNT V) (f : Sym) (as : List Q) (x : UNT V)
    (hx : x ∈ newArgs F k f as) : ∃ a ∈ as, ∃ i, x = F.child k f i (F.d a) := by
  unfold newArgs at hx
  obtain ⟨ai, hai, e⟩ := List.mem_map.mp hx
  obtain ⟨a, i⟩ := ai
  have h2 := List.mem_zipIdx hai
  exact ⟨a, by rw [h2.2.2]; exact List.getElem_mem _, i, e.symm⟩

theorem buildLoop_terminates_gen (hpc : ∀ tgt P i x, F.proj (F.child tgt P i x) = x)
    (hrank : ∀ r ∈ A.rules, ∀ a ∈ r.1.2, rankU (F.d a) < rankU (F.d r.2)) :
    ∀ (fuel : Nat) (stack : List (UNT V)) (nr : AList (UNT V) (Row V)),
      potential F A rankU stack < fuel → ∃ res, buildLoop F A fuel stack nr = some res := by
  intro fuel
  induction fuel with
  | zero => intro stack nr h; omega
  | succ fuel ih =>
    intro stack nr h
    cases stack with
    | nil => exact ⟨nr, rfl⟩
    | cons tgt stack =>
      rw [buildLoop]
      have hpot : potential F A rankU (tgt :: stack) =
          cost F A (rankU (F.proj tgt) + 1) tgt + potential F A rankU stack := by
        simp [potential]
      by_cases hc : AList.contains tgt nr = true
      · rw [if_pos hc]
        apply ih
        have := cost_pos F A (rankU (F.proj tgt) + 1) tgt
        omega
      · rw [if_neg hc]
        apply ih
        have happ : ∀ (l1 l2 : List (UNT V)), potential F A rankU (l1.reverse ++ l2) =
            potential F A rankU l1 + potential F A rankU l2 := by
          intro l1 l2
          simp [potential, List.sum_reverse]
        rw [happ]
        have h1 := pushes_sum_le F A tgt (AList.keys (AList.insert tgt (rowFor F A tgt) nr))
          (fun k => cost F A (rankU (F.proj k) + 1) k)
        have h2 : ((childrenOf F A tgt).map (fun k => cost F A (rankU (F.proj k) + 1) k)).sum ≤
            ((childrenOf F A tgt).map (cost F A (rankU (F.proj tgt)))).sum := by
          apply sum_map_le
          intro x hx
          obtain ⟨r, hr, hm, hx'⟩ := mem_childrenOf F A tgt x hx
          obtain ⟨a, ha, i, rfl⟩ := mem_newArgs' F tgt r.1.1 r.1.2 x hx'
          rw [hpc]
          have hd : F.d r.2 = F.proj tgt := by simpa [matchesTgt] using hm
          have := hrank r hr a ha
          rw [hd] at this
          exact cost_mono F A _ _ _ (by omega)
        have h3 : cost F A (rankU (F.proj tgt) + 1) tgt =
            1 + ((childrenOf F A tgt).map (cost F A (rankU (F.proj tgt)))).sum := by rw [cost]
        unfold potential at h1 ⊢
        unfold potential at hpot h
        omega

/-- **termination for every flattening scheme** on an automaton whose flattened image is
    acyclic: some number of iterations (the potential of the start symbols + 1) is enough, and so
    is every larger one -/
theorem build_terminates (hpc : ∀ tgt P i x, F.proj (F.child tgt P i x) = x)
    (hrank : ∀ r ∈ A.rules, ∀ a ∈ r.1.2, rankU (F.d a) < rankU (F.d r.2)) (hf : A.finals ≠ [])
    (fuel : Nat) (hfuel : potential F A rankU (startsOf F A) < fuel) :
    ∃ G, build F A fuel = some G := by
  unfold build
  cases hs : startsOf F A with
  | nil =>
    exfalso
    obtain ⟨q, qs, hq⟩ := List.exists_cons_of_ne_nil hf
    have hm : F.root (F.d q) ∈ startsOf F A := by
      unfold startsOf
      rw [mem_foldl_addNew]
      right
      rw [hq]; simp
    rw [hs] at hm
    cases hm
  | cons s ss =>
    simp only
    obtain ⟨res, hres⟩ := buildLoop_terminates_gen F A rankU hpc hrank fuel (s :: ss).reverse [] (by
      rw [hs] at hfuel
      have : potential F A rankU (s :: ss).reverse = potential F A rankU (s :: ss) := by
        simp [potential, List.sum_reverse, Nat.add_comm]
      rw [this]; exact hfuel)
    rw [hres]
    exact ⟨_, rfl⟩

end Term

end PS.U.FD
