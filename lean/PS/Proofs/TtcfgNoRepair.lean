/-
  C13, part 15: WHERE `clean()` FALLS SHORT, and why no repair that only removes rules can help
  (finding C13-F5, second half: "every derivation that can be started can be completed").

  A criterion (`no_repair_of_witness`): let `G` be a table, `ts` programs of its language, and
  `syms` a sequence of symbols that the derivation machine of `G` can follow from the start
  configuration using only rules that the derivations of `ts` use, ending in a configuration whose
  next non-terminal has no rule in `G`.  Then EVERY table `G'` whose rules are rules of `G` and
  whose language is that of `G` has a derivation that can be started and cannot be completed.
-/
import PS.Proofs.TtcfgClean
namespace PS.T
open PS PS.G

variable {S T : Type} [DecidableEq S] [DecidableEq T]

/- the rules (non-terminal, symbol) a derivation uses -/
mutual
  def used (ρ : RuleFn S T) : Prog → Ty × S → T → List (NT S T × Sym)
    | .node f kids, slot, v =>
      match ρ (slot.1, (slot.2, v)) f with
      | none => []
      | some (args, st) => ((slot.1, (slot.2, v)), f) :: usedList ρ kids args st
  def usedList (ρ : RuleFn S T) : List Prog → List (Ty × S) → T → List (NT S T × Sym)
    | k :: ks, a :: as, v =>
      match run ρ k a v with
      | none => used ρ k a v
      | some v' => used ρ k a v ++ usedList ρ ks as v'
    | _, _, _ => []
end

omit [DecidableEq S] [DecidableEq T] in
/-- a derivation of a sub-table is a derivation of the table, and the sub-table has every rule
    it uses -/
theorem used_sub (ρ' ρ : RuleFn S T) (hsub : ∀ nt P val, ρ' nt P = some val → ρ nt P = some val) : ∀ n : Nat,
    (∀ t : Prog, Tree.size t ≤ n → ∀ (a : Ty × S) (v w : T), run ρ' t a v = some w →
      ∀ x ∈ used ρ t a v, ρ' x.1 x.2 = ρ x.1 x.2) ∧
    (∀ ks : List Prog, Tree.sizeList ks ≤ n → ∀ (args : List (Ty × S)) (v w : T), runList ρ' ks args v = some w →
      ∀ x ∈ usedList ρ ks args v, ρ' x.1 x.2 = ρ x.1 x.2) := by
  intro n
  induction n with
  | zero =>
    constructor
    · intro t ht; cases t with | node f kids => simp [Tree.size] at ht
    · intro ks hks args v w hr
      cases ks with
      | nil => intro x hx; simp [usedList] at hx
      | cons k ks => cases k with | node f kids => simp [Tree.sizeList, Tree.size] at hks
  | succ n ih =>
    have node_case : ∀ (f : Sym) (kids : List Prog), Tree.sizeList kids ≤ n → ∀ (a : Ty × S) (v w : T),
        run ρ' (.node f kids) a v = some w → ∀ x ∈ used ρ (.node f kids) a v, ρ' x.1 x.2 = ρ x.1 x.2 := by
      intro f kids hs a v w hr x hx
      rw [run] at hr
      rw [used] at hx
      cases h1 : ρ' (a.1, (a.2, v)) f with
      | none => simp [h1] at hr
      | some val =>
        obtain ⟨args, st⟩ := val
        have h2 := hsub _ _ _ h1
        simp only [h1] at hr
        simp only [h2] at hx
        rcases List.mem_cons.mp hx with e | hm
        · subst e; simp only; rw [h1, h2]
        · exact ih.2 kids hs args st w hr x hm
    constructor
    · intro t ht a v w hr
      cases t with
      | node f kids => exact node_case f kids (by simp [Tree.size] at ht; omega) a v w hr
    · intro ks hks args v w hr x hx
      cases ks with
      | nil => simp [usedList] at hx
      | cons k ks =>
        cases args with
        | nil => simp [runList] at hr
        | cons a as =>
          rw [runList] at hr
          rw [usedList] at hx
          cases h1 : run ρ' k a v with
          | none => simp [h1] at hr
          | some v1 =>
            simp only [h1] at hr
            have h2 := (run_mono ρ' ρ hsub).1 k a v v1 h1
            simp only [h2] at hx
            have hpos : 1 ≤ Tree.size k := by cases k with | node f kids => simp [Tree.size]
            have hks' : Tree.sizeList ks ≤ n := by simp [Tree.sizeList] at hks; omega
            rcases List.mem_append.mp hx with hm | hm
            · cases k with
              | node f kids =>
                exact node_case f kids (by simp [Tree.sizeList, Tree.size] at hks; omega) a v v1 h1 x hm
            · exact ih.2 ks hks' as v1 w hr x hm

/-- follow a sequence of symbols with the derivation machine: final configuration and the rules
    used -/
def walk (ρ : RuleFn S T) : List Sym → Config S T → Option (Config S T × List (NT S T × Sym))
  | [], c => some (c, [])
  | P :: ps, (a :: stk, v) =>
    match ρ (a.1, (a.2, v)) P with
    | none => none
    | some (args, st) => (walk ρ ps (args ++ stk, st)).map (fun r => (r.1, ((a.1, (a.2, v)), P) :: r.2))
  | _ :: _, ([], _) => none

theorem walk_steps (G G' : TT S T) : ∀ (syms : List Sym) (c d : Config S T) (rs : List (NT S T × Sym)),
    walk G.rule? syms c = some (d, rs) → (∀ x ∈ rs, G'.rule? x.1 x.2 = G.rule? x.1 x.2) → Steps G' c d
  | [], c, d, rs, h, _ => by
    simp only [walk, Option.some.injEq, Prod.mk.injEq] at h
    rw [← h.1]; exact Steps.refl _
  | P :: ps, ([], v), d, rs, h, _ => by simp [walk] at h
  | P :: ps, (a :: stk, v), d, rs, h, hr => by
    rw [walk] at h
    cases h1 : G.rule? (a.1, (a.2, v)) P with
    | none => simp [h1] at h
    | some val =>
      obtain ⟨args, st⟩ := val
      simp only [h1] at h
      cases h2 : walk G.rule? ps (args ++ stk, st) with
      | none => simp [h2] at h
      | some r =>
        obtain ⟨d', rs'⟩ := r
        simp only [h2, Option.map_some, Option.some.injEq, Prod.mk.injEq] at h
        obtain ⟨e1, e2⟩ := h
        subst e1; subst e2
        have hrule : G'.rule? (a.1, (a.2, v)) P = some (args, st) := by
          rw [hr _ (List.mem_cons_self ..)]; exact h1
        exact Steps.cons _ _ _ (Step.mk a stk v P args st hrule)
          (walk_steps G G' ps _ _ rs' h2 (fun x hx => hr x (List.mem_cons_of_mem _ hx)))

/-- **no repair by removing rules**: see the header -/
theorem no_repair_of_witness (G G' : TT S T) (hstart : G'.start = G.start)
    (hsub : ∀ nt P val, G'.rule? nt P = some val → G.rule? nt P = some val)
    (hlang : ∀ t, inLang G' t = inLang G t)
    (ts : List Prog) (hts : ∀ t ∈ ts, inLang G t = true) (syms : List Sym)
    (a : Ty × S) (stk : List (Ty × S)) (v : T) (rs : List (NT S T × Sym))
    (hw : walk G.rule? syms ([(G.start.1, G.start.2.1)], G.start.2.2) = some ((a :: stk, v), rs))
    (hcover : ∀ x ∈ rs, ∃ t ∈ ts, x ∈ used G.rule? t (G.start.1, G.start.2.1) G.start.2.2)
    (hdead : inRules G (a.1, (a.2, v)) = false) :
    ∃ c, Steps G' ([(G'.start.1, G'.start.2.1)], G'.start.2.2) c ∧ ¬ ∃ w, Steps G' c ([], w) := by
  refine ⟨(a :: stk, v), ?_, ?_⟩
  · rw [hstart]
    apply walk_steps G G' syms _ _ rs hw
    intro x hx
    obtain ⟨t, ht, hu⟩ := hcover x hx
    have hin : inLang G' t = true := by rw [hlang]; exact hts t ht
    unfold inLang at hin
    rw [hstart] at hin
    cases hr : run G'.rule? t (G.start.1, G.start.2.1) G.start.2.2 with
    | none => simp [hr] at hin
    | some w => exact (used_sub G'.rule? G.rule? hsub (Tree.size t)).1 t (Nat.le_refl _) _ _ w hr x hu
  · rintro ⟨w, hs⟩
    cases hs with
    | cons _ d _ hstep _ =>
      cases hstep with
      | mk _ _ _ P args st hrule =>
        have := hsub _ _ _ hrule
        unfold TT.rule? at this
        unfold inRules AList.contains at hdead
        cases hl : AList.lookup (a.1, (a.2, v)) G.rules with
        | none => simp [hl] at this
        | some row => simp [hl] at hdead

end PS.T
