/-
  Lemmas for C01, last sentence: termination of the worklist loop of `CFG.infinite`
  (`closureWith (ruleSetInf P)`, PS/Model/CfgInfinite.lean) when `n_gram ≥ 0`.

  * `closureWith_terminates`  for ANY rule-creation function: if the non-terminals that can be
                              pushed stay in a finite list `U` and every non-terminal pushes at
                              most `K` non-terminals, the loop ends within `1 + |U|·(K+1)`
                              iterations;
  * `ntU`, `InU`              the finite universe of `CFG.infinite`: a type among the argument
                              types of the heads (or the requested return type), an n-gram of
                              length ≤ `n_gram` over (head, argument index) pairs, depth 0;
  * `infinite_terminates`     hence fuel `infFuel P` is adequate;
  * `neg_loops`               with `n_gram < 0` the n-gram grows without bound: on the DSL
                              {neg : int -> int, 1 : int} the loop never ends (documented exclusion).
-/
import PS.Proofs.CfgInfiniteDepth
namespace PS.G
open PS

/-! ### generic termination -/

theorem closureWith_terminates (R : CNT → List Rule) (Inv : CNT → Prop) (U : List CNT) (K : Nat)
    (hU : ∀ nt, Inv nt → nt ∈ U)
    (hK : ∀ nt, (kidsW R nt).length ≤ K)
    (hcl : ∀ nt, Inv nt → ∀ k ∈ kidsW R nt, Inv k) :
    ∀ (fuel : Nat) (todo : List CNT) (tbl : Table), (AList.keys tbl).Nodup →
      (∀ k ∈ AList.keys tbl, Inv k) → (∀ k ∈ todo, Inv k) →
      todo.length + (U.length - tbl.length) * (K + 1) ≤ fuel →
      (closureWith R fuel todo tbl).isSome = true := by
  intro fuel
  induction fuel with
  | zero =>
    intro todo tbl _ _ _ h
    cases todo with
    | nil => simp [closureWith]
    | cons nt todo => simp only [List.length_cons] at h; omega
  | succ fuel ih =>
    intro todo tbl hnd hkeys htodo h
    cases todo with
    | nil => simp [closureWith]
    | cons nt todo =>
      rw [closureWith]
      simp only [List.length_cons] at h
      by_cases hk : AList.contains nt tbl = true
      · simp only [hk, if_true]
        exact ih todo tbl hnd hkeys (fun k hk' => htodo k (List.mem_cons_of_mem _ hk')) (by omega)
      · simp only [hk, Bool.false_eq_true, if_false]
        have hnt : Inv nt := htodo nt (by simp)
        have hkeys' : AList.keys (AList.insert nt (rulesDict (R nt)) tbl) = AList.keys tbl ++ [nt] := by
          rw [keys_insert]; simp only [hk, Bool.false_eq_true, if_false]
        have hnd' := nodup_insert nt (rulesDict (R nt)) tbl hnd
        have hin : ∀ k ∈ AList.keys (AList.insert nt (rulesDict (R nt)) tbl), Inv k := by
          intro k hk'
          rw [hkeys'] at hk'
          rcases List.mem_append.mp hk' with h1 | h1
          · exact hkeys k h1
          · rw [List.mem_singleton] at h1; rw [h1]; exact hnt
        have hlen : (AList.insert nt (rulesDict (R nt)) tbl).length = tbl.length + 1 := by
          have : (AList.keys (AList.insert nt (rulesDict (R nt)) tbl)).length = (AList.keys tbl ++ [nt]).length := by
            rw [hkeys']
          simpa [AList.keys] using this
        have hle : tbl.length + 1 ≤ U.length := by
          have := length_le_of_nodup_subset hnd' (fun k hk' => hU k (hin k hk'))
          simp only [AList.keys, List.length_map] at this
          omega
        apply ih _ _ hnd' hin
        · intro k hk'
          rcases List.mem_append.mp hk' with h1 | h1
          · exact htodo k (List.mem_cons_of_mem _ h1)
          · exact hcl nt hnt k h1
        · have hkid := hK nt
          change (todo ++ kidsW R nt).length + _ ≤ fuel
          rw [hlen, List.length_append]
          obtain ⟨m, hm⟩ : ∃ m, U.length - tbl.length = m + 1 := ⟨U.length - tbl.length - 1, by omega⟩
          have hm' : U.length - (tbl.length + 1) = m := by omega
          rw [hm] at h
          rw [hm']
          rw [Nat.succ_mul] at h
          generalize m * (K + 1) = x at h ⊢
          omega

theorem closureWith_mono (R : CNT → List Rule) :
    ∀ (fuel : Nat) (todo : List CNT) (tbl T : Table), closureWith R fuel todo tbl = some T →
      closureWith R (fuel + 1) todo tbl = some T := by
  intro fuel
  induction fuel with
  | zero =>
    intro todo tbl T h
    cases todo with
    | nil => simpa [closureWith] using h
    | cons nt todo => simp [closureWith] at h
  | succ fuel ih =>
    intro todo tbl T h
    cases todo with
    | nil => simpa [closureWith] using h
    | cons nt todo =>
      rw [closureWith] at h ⊢
      by_cases hk : AList.contains nt tbl = true
      · simp only [hk, if_true] at h ⊢
        exact ih _ _ _ h
      · simp only [hk, Bool.false_eq_true, if_false] at h ⊢
        exact ih _ _ _ h

/-! ### `Type.ends_with` returns a prefix of the arguments -/

theorem endsWithRec_prefix : ∀ (s o : Ty) (acc r : List Ty), Ty.endsWithRec s o acc = some r →
    ∃ l, r = acc ++ l ∧ l <+: s.arguments := by
  intro s
  induction s with
  | arrow a b _ ihb =>
    intro o acc r h
    rw [Ty.endsWithRec] at h
    split at h
    · cases h; exact ⟨[], by simp, List.nil_prefix⟩
    · obtain ⟨l, hl, hp⟩ := ihb o (acc ++ [a]) r h
      refine ⟨a :: l, by rw [hl]; simp, ?_⟩
      rw [Ty.arguments]
      exact List.cons_prefix_cons.mpr ⟨rfl, hp⟩
  | base n =>
    intro o acc r h
    simp only [Ty.endsWithRec] at h
    split at h
    · cases h; exact ⟨[], by simp, List.nil_prefix⟩
    · cases h
  | gen n a _ =>
    intro o acc r h
    simp only [Ty.endsWithRec] at h
    split at h
    · cases h; exact ⟨[], by simp, List.nil_prefix⟩
    · cases h
  | unknown =>
    intro o acc r h
    simp only [Ty.endsWithRec] at h
    split at h
    · cases h; exact ⟨[], by simp, List.nil_prefix⟩
    · cases h

theorem endsWith_prefix (s o : Ty) (tys : List Ty) (h : Ty.endsWith s o = some tys) :
    tys <+: s.arguments := by
  obtain ⟨l, hl, hp⟩ := endsWithRec_prefix s o [] tys h
  simp only [List.nil_append] at hl
  rw [hl]; exact hp

/-! ### the finite universe of `CFG.infinite` -/

/-- every symbol that can be applied -/
def headsU (P : Params) : List Sym :=
  P.prims ++ (enumFrom' P.request.arguments).map (fun iv => Sym.var iv.1 iv.2) ++ [selfSym P]

/-- every (head, argument index) pair that an n-gram can hold -/
def pairU (P : Params) : List (Sym × Nat) :=
  (headsU P).flatMap (fun h => (List.range h.ty.arguments.length).map (fun i => (h, i)))

/-- every type a non-terminal can have -/
def tyU (P : Params) : List Ty :=
  P.request.returns :: (headsU P).flatMap (fun h => h.ty.arguments)

/-- all lists of length at most `k` over `A` -/
def listsLe {α : Type} (A : List α) : Nat → List (List α)
  | 0 => [[]]
  | k + 1 => [] :: A.flatMap (fun a => (listsLe A k).map (fun l => a :: l))

theorem mem_listsLe {α : Type} (A : List α) :
    ∀ (k : Nat) (l : List α), l.length ≤ k → (∀ x ∈ l, x ∈ A) → l ∈ listsLe A k := by
  intro k
  induction k with
  | zero =>
    intro l hl _
    have : l = [] := List.length_eq_zero_iff.mp (by omega)
    subst this; simp [listsLe]
  | succ k ih =>
    intro l hl hA
    cases l with
    | nil => simp [listsLe]
    | cons a l =>
      rw [listsLe]
      apply List.mem_cons_of_mem
      rw [List.mem_flatMap]
      refine ⟨a, hA a (by simp), ?_⟩
      rw [List.mem_map]
      exact ⟨l, ih l (by simp only [List.length_cons] at hl; omega)
        (fun x hx => hA x (List.mem_cons_of_mem _ hx)), rfl⟩

/-- the finite universe of non-terminals of `CFG.infinite` (for `n_gram ≥ 0`) -/
def ntU (P : Params) : List CNT :=
  (tyU P).flatMap (fun ty => (listsLe (pairU P) P.nGram.toNat).map (fun c => (ty, ((c, 0), ()))))

/-- membership in the universe, as a predicate -/
def InU (P : Params) (nt : CNT) : Prop :=
  nt.1 ∈ tyU P ∧ nt.2.1.1.length ≤ P.nGram.toNat ∧ (∀ x ∈ nt.2.1.1, x ∈ pairU P) ∧ nt.2.1.2 = 0

theorem mem_ntU (P : Params) (nt : CNT) (h : InU P nt) : nt ∈ ntU P := by
  obtain ⟨ty, ⟨ctx, d⟩, ⟨⟩⟩ := nt
  obtain ⟨h1, h2, h3, h4⟩ := h
  simp only at h1 h2 h3 h4
  subst h4
  unfold ntU
  rw [List.mem_flatMap]
  refine ⟨ty, h1, ?_⟩
  rw [List.mem_map]
  exact ⟨ctx, mem_listsLe _ _ ctx h2 h3, rfl⟩

theorem inU_start (P : Params) : InU P (startNT P) :=
  ⟨by simp [startNT, tyU], by simp [startNT], fun x hx => by simp [startNT] at hx, rfl⟩

theorem successor_bound (n : Int) (hn : 0 ≤ n) (preds : List (Sym × Nat)) (new : Sym × Nat)
    (h : preds.length ≤ n.toNat) :
    (successor n preds new).length ≤ n.toNat ∧ ∀ x ∈ successor n preds new, x = new ∨ x ∈ preds := by
  unfold successor
  split
  · refine ⟨by rw [List.length_dropLast]; simp only [List.length_cons]; omega, ?_⟩
    intro x hx
    have := (List.dropLast_sublist (new :: preds)).subset hx
    simpa using this
  · rename_i hc
    refine ⟨by simp only [List.length_cons]; omega, ?_⟩
    intro x hx
    simpa using hx

theorem head_mem_headsU (P : Params) (forb : List String) (ty : Ty) (h : Sym × List Ty)
    (hm : h ∈ appHeadsInf P forb ty) : h.1 ∈ headsU P := by
  unfold headsU
  rcases (mem_appHeadsInf P forb ty h).mp hm with ⟨p, hp, _, _, hf⟩ | ⟨iv, hiv, _, _, hf⟩ | ⟨_, _, hf⟩
  · rw [hf]; exact List.mem_append_left _ (List.mem_append_left _ hp)
  · rw [hf]
    exact List.mem_append_left _ (List.mem_append_right _ (List.mem_map.mpr ⟨iv, hiv, rfl⟩))
  · rw [hf]; exact List.mem_append_right _ (by simp)

/-- what an argument of a created rule looks like -/
theorem ruleSetInf_arg (P : Params) (nt : CNT) (r : Rule) (hr : r ∈ ruleSetInf P nt)
    (a : Ty × CFGState) (ha : a ∈ r.2) :
    ∃ i, r.1 ∈ headsU P ∧ i < r.1.ty.arguments.length ∧ a.1 ∈ r.1.ty.arguments ∧
      a.2 = (successor P.nGram nt.2.1.1 (r.1, i), 0) := by
  unfold ruleSetInf at hr
  simp only at hr
  rcases List.mem_append.mp hr with hr | hr
  · obtain ⟨s, _, rfl⟩ := List.mem_map.mp hr
    cases ha
  · obtain ⟨hd, hhd, rfl⟩ := List.mem_map.mp hr
    have hpre := endsWith_prefix _ _ _ (appHeadsInf_ty P _ _ hd hhd)
    unfold childNTsInf at ha
    obtain ⟨x, hx, rfl⟩ := List.mem_map.mp ha
    have hx' := List.mem_zipIdx_iff_getElem?.mp hx
    obtain ⟨hlt, _⟩ := List.getElem?_eq_some_iff.mp hx'
    refine ⟨x.2, head_mem_headsU P _ _ hd hhd, ?_, hpre.subset (List.mem_of_getElem? hx'), rfl⟩
    exact Nat.lt_of_lt_of_le hlt hpre.length_le

theorem inU_kids (P : Params) (hn : 0 ≤ P.nGram) (nt : CNT) (h : InU P nt) :
    ∀ k ∈ kidsW (ruleSetInf P) nt, InU P k := by
  intro k hk
  obtain ⟨r, hr, a, ha, rfl⟩ := (mem_kidsW _ nt k).mp hk
  obtain ⟨i, hh, hi, hty, ha2⟩ := ruleSetInf_arg P nt r hr a ha
  obtain ⟨_, h2, h3, _⟩ := h
  have hs := successor_bound P.nGram hn nt.2.1.1 (r.1, i) h2
  refine ⟨?_, ?_, ?_, ?_⟩
  · change a.1 ∈ tyU P
    unfold tyU
    apply List.mem_cons_of_mem
    exact List.mem_flatMap.mpr ⟨r.1, hh, hty⟩
  · change a.2.1.length ≤ _
    rw [ha2]; exact hs.1
  · change ∀ x ∈ a.2.1, x ∈ pairU P
    rw [ha2]
    intro x hx
    rcases hs.2 x hx with rfl | hx
    · unfold pairU
      exact List.mem_flatMap.mpr ⟨r.1, hh, List.mem_map.mpr ⟨i, List.mem_range.mpr hi, rfl⟩⟩
    · exact h3 x hx
  · change a.2.2 = 0
    rw [ha2]

/-! ### a bound on the number of non-terminals pushed in one iteration -/

theorem sum_le_mul {α : Type} (f : α → Nat) (A : Nat) :
    ∀ (l : List α), (∀ x ∈ l, f x ≤ A) → (l.map f).sum ≤ l.length * A
  | [], _ => by simp
  | x :: xs, h => by
    have h1 := h x (by simp)
    have h2 := sum_le_mul f A xs (fun y hy => h y (List.mem_cons_of_mem _ hy))
    simp only [List.map_cons, List.sum_cons, List.length_cons, Nat.succ_mul]
    omega

theorem le_sum_of_mem {α : Type} (f : α → Nat) : ∀ (l : List α) (x : α), x ∈ l → f x ≤ (l.map f).sum
  | [], _, h => by cases h
  | y :: ys, x, h => by
    simp only [List.map_cons, List.sum_cons]
    rcases List.mem_cons.mp h with rfl | h
    · omega
    · have := le_sum_of_mem f ys x h; omega

/-- a bound on the arity of a head -/
def arityU (P : Params) : Nat := ((headsU P).map (fun h => h.ty.arguments.length)).sum

/-- a bound on the number of rules of a non-terminal -/
def widthU (P : Params) : Nat := 2 * (P.prims.length + P.request.arguments.length + 1)

/-- a bound on the number of non-terminals pushed in one iteration -/
def kidBound (P : Params) : Nat := widthU P * arityU P

theorem enumFrom'_length {α : Type} (l : List α) : (enumFrom' l).length = l.length := by
  simp [enumFrom']

theorem ruleSetInf_length (P : Params) (nt : CNT) : (ruleSetInf P nt).length ≤ widthU P := by
  unfold ruleSetInf
  simp only [List.length_append, List.length_map]
  have h1 : (leafSymsInf P (forbAt P nt.2.1.1.head?) nt.1).length ≤
      P.request.arguments.length + 1 + P.prims.length := by
    unfold leafSymsInf
    simp only [List.length_append]
    have a1 := List.length_filterMap_le (fun iv : Nat × Ty =>
      if nt.1 = iv.2 then some (Sym.var iv.1 nt.1) else none) (enumFrom' P.request.arguments)
    have a2 := List.length_filter_le (fun p : Sym =>
      !((forbAt P nt.2.1.1.head?).contains p.name) && p.ty == nt.1) P.prims
    rw [enumFrom'_length] at a1
    have a3 : (if P.constTypes.contains nt.1 = true then [Sym.const nt.1 ""] else []).length ≤ 1 := by
      split <;> simp
    omega
  have h2 : (appHeadsInf P (forbAt P nt.2.1.1.head?) nt.1).length ≤
      P.prims.length + P.request.arguments.length + 1 := by
    unfold appHeadsInf
    simp only [List.length_append]
    refine Nat.add_le_add (Nat.add_le_add (List.length_filterMap_le _ _) ?_) ?_
    · exact Nat.le_trans (List.length_filterMap_le _ _) (Nat.le_of_eq (enumFrom'_length _))
    · split
      · split <;> simp
      · simp
  unfold widthU
  omega

theorem kidsW_inf_length (P : Params) (nt : CNT) : (kidsW (ruleSetInf P) nt).length ≤ kidBound P := by
  unfold kidsW
  rw [List.length_flatMap]
  have h1 : ∀ r ∈ ruleSetInf P nt, (List.map toNT r.2).length ≤ arityU P := by
    intro r hr
    rw [List.length_map]
    cases hargs : r.2 with
    | nil => simp
    | cons a as =>
      obtain ⟨i, hh, _, _, _⟩ := ruleSetInf_arg P nt r hr a (by rw [hargs]; simp)
      -- the argument list is a prefix image of the head's arguments
      have hlen : r.2.length ≤ r.1.ty.arguments.length := by
        rw [ruleSetInf_args P nt r hr]
        unfold argsOfInf childNTsInf
        simp only [List.length_map, List.length_zipIdx]
        cases he : r.1.ty.endsWith nt.1 with
        | none => simp
        | some tys => simpa using (endsWith_prefix _ _ _ he).length_le
      rw [hargs] at hlen
      exact Nat.le_trans hlen (le_sum_of_mem (fun h : Sym => h.ty.arguments.length) (headsU P) r.1 hh)
  have := sum_le_mul (fun r : Rule => (List.map toNT r.2).length) (arityU P) (ruleSetInf P nt) h1
  have hw := ruleSetInf_length P nt
  unfold kidBound
  exact Nat.le_trans this (Nat.mul_le_mul_right _ hw)

/-- a sufficient fuel for `buildTableInf` when `n_gram ≥ 0` -/
def infFuel (P : Params) : Nat := 1 + (ntU P).length * (kidBound P + 1)

/-- **termination of the worklist loop of `CFG.infinite` for `n_gram ≥ 0`** -/
theorem infinite_terminates (P : Params) (hn : 0 ≤ P.nGram) (fuel : Nat) (hf : infFuel P ≤ fuel) :
    (closureWith (ruleSetInf P) fuel [startNT P] []).isSome = true := by
  apply closureWith_terminates (ruleSetInf P) (InU P) (ntU P) (kidBound P) (mem_ntU P)
    (kidsW_inf_length P) (inU_kids P hn) fuel [startNT P] [] List.nodup_nil
    (fun k hk => by cases hk)
    (fun k hk => by rw [List.mem_singleton.mp hk]; exact inU_start P)
  simpa [infFuel] using hf

/-! ### `n_gram < 0`: the loop does not end (documented exclusion) -/

namespace NegExample
def int : Ty := .base "int"
def negS : Sym := Sym.prim "neg" (.arrow int int)
def oneS : Sym := Sym.prim "1" int
/-- DSL {neg : int -> int, 1 : int}, request int, unbounded n-grams -/
def Pneg : Params := { prims := [negS, oneS], forbidden := [], request := int, maxDepth := 0, minVarDepth := 0,
                       nGram := -1, recursive := false, constTypes := [] }
end NegExample

open NegExample in
theorem neg_kids (ctx : List (Sym × Nat)) (d : Nat) :
    kidsW (ruleSetInf Pneg) (int, ((ctx, d), ())) = [(int, (((negS, 0) :: ctx, 0), ()))] := by
  have hforb : forbAt Pneg ctx.head? = [] := rfl
  have hleaf : leafSymsInf Pneg [] int = [oneS] := by decide
  have hheads : appHeadsInf Pneg [] int = [(negS, [int]), (oneS, [])] := by decide
  unfold kidsW ruleSetInf
  simp only [hforb, hleaf, hheads]
  have hng : Pneg.nGram = -1 := rfl
  simp [childNTsInf, successor, toNT, hng]

open NegExample in
/-- on `Pneg` the pending list always holds one non-terminal whose n-gram is longer than every
    n-gram of the table: the loop never ends -/
theorem neg_loops_aux : ∀ (fuel : Nat) (ctx : List (Sym × Nat)) (d : Nat) (tbl : Table),
    (∀ k ∈ AList.keys tbl, k.2.1.1.length < ctx.length) →
    closureWith (ruleSetInf Pneg) fuel [(int, ((ctx, d), ()))] tbl = none := by
  intro fuel
  induction fuel with
  | zero => intro ctx d tbl _; rfl
  | succ fuel ih =>
    intro ctx d tbl h
    rw [closureWith]
    have hk : ¬ AList.contains (int, ((ctx, d), ())) tbl = true := by
      intro hc
      have := h _ (mem_keys_iff_contains.mpr hc)
      simp at this
    simp only [hk, Bool.false_eq_true, if_false]
    have hkids := neg_kids ctx d
    unfold kidsW at hkids
    rw [hkids]
    apply ih
    intro k hk'
    rw [keys_insert] at hk'
    simp only [hk, Bool.false_eq_true, if_false] at hk'
    rcases List.mem_append.mp hk' with h1 | h1
    · have := h k h1; simp only [List.length_cons]; omega
    · rw [List.mem_singleton] at h1; subst h1; simp

end PS.G
