/-
  C17 for unambiguous grammars at LANGUAGE level.

  `instUG fx G tbl` / `instUTg fx tg tbl` are `UCFG.instantiate_constants` (u_cfg.py:198-213: same
  start symbols, instantiated rule table `instU`, `clean=False`) and
  `ProbUGrammar.instantiate_constants` (tagged_u_grammar.py:258-276: divided tags `instUTags`,
  `start_tags` unchanged) on the grammar objects of PS/Model/Ucfg.lean and PS/Model/Prob.lean.

  * `derivs_inst`      the derivations of an instantiation `t'` of a template `t` in the
                       instantiated grammar are, one for one and in the same order, the
                       derivations of `t` in the template grammar (symbols renamed by `templSym`)
  * `genU_inst_iff`    language of the instantiated grammar = instantiations of the language
  * `wsum_inst`        total derivation weight is shared among the instantiations
  * `probU_mass` / `probabilityU_mass`   the mass statement for the specification `probU` and
                       for the model of `ProbUGrammar.probability`
  * `massU_inst`       total mass of the derivations within a depth budget is unchanged
-/
import PS.Proofs.InstConstMass
import PS.Proofs.InstConstProg
import PS.Proofs.InstConstLink
import PS.Proofs.Ucfg
import PS.Proofs.UMass
namespace PS.IC
open PS PS.G

variable {V : Type} [DecidableEq V]

/-- `UCFG.instantiate_constants` -/
def instUG (fx : Fix) (G : U.UCFG V) (tbl : Tbl) : U.UCFG V := ⟨G.starts, instU fx G.rules tbl, G.someStart⟩

/-- `ProbUGrammar.instantiate_constants` -/
def instUTg (fx : Fix) (tg : U.UTags V) (tbl : Tbl) : U.UTags V := ⟨instUTags fx tg.tags tbl, tg.startTags⟩

/-! ### symbols and clean templates -/

/-- a symbol of a clean template: a symbol the code instantiates is the bare slot, a constant it
    leaves alone has no value listed for its type (`okKey` without the condition on the value list) -/
def slotFix (fx : Fix) (tbl : Tbl) (P : Sym) : Prop :=
  (∀ vals, slot? fx tbl P = some vals → P = Sym.const P.ty "") ∧
  (slot? fx tbl P = none → P.kind = .const →
    ∀ vals, AList.lookup P.ty tbl = some vals → P.name ∉ vals)

/-- decidable form of `slotFix` -/
def cleanSym (fx : Fix) (tbl : Tbl) (P : Sym) : Bool :=
  match slot? fx tbl P with
  | some _ => P = Sym.const P.ty ""
  | none => !(P.kind = .const) || match AList.lookup P.ty tbl with
      | some vals => !(vals.contains P.name)
      | none => true

/- a clean template: all its symbols are `cleanSym` (every program of a grammar that satisfies
   `rulesOK` is one: `clean_of_genU`) -/
mutual
  def clean (fx : Fix) (tbl : Tbl) : Prog → Bool
    | .node f kids => cleanSym fx tbl f && cleanList fx tbl kids
  def cleanList (fx : Fix) (tbl : Tbl) : List Prog → Bool
    | [] => true
    | k :: ks => clean fx tbl k && cleanList fx tbl ks
end

theorem cleanSym_iff {fx : Fix} {tbl : Tbl} {P : Sym} : cleanSym fx tbl P = true ↔ slotFix fx tbl P := by
  unfold cleanSym slotFix
  cases hs : slot? fx tbl P with
  | some vals =>
    simp only [decide_eq_true_eq, Option.some.injEq, reduceCtorEq, false_imp_iff, and_true]
    constructor
    · intro h _ _; exact h
    · intro h; exact h vals rfl
  | none =>
    simp only [reduceCtorEq, false_imp_iff, implies_true, true_and, forall_const]
    by_cases hk : P.kind = .const
    · cases hl : AList.lookup P.ty tbl with
      | none => simp [hk]
      | some vals0 => simp [hk]
    · simp [hk]

theorem slotFix_of_okKey {fx : Fix} {tbl : Tbl} {P : Sym} (h : okKey fx tbl P) : slotFix fx tbl P :=
  ⟨fun vals hs => (h.1 vals hs).1, h.2⟩

theorem templSym_of_slotFix {fx : Fix} {tbl : Tbl} {P : Sym} (h : slotFix fx tbl P) :
    templSym tbl P = P := by
  unfold templSym
  by_cases hk : P.kind = .const
  · rw [if_pos hk]
    cases hl : AList.lookup P.ty tbl with
    | none => rfl
    | some vals0 =>
      simp only
      by_cases hc : vals0.contains P.name = true
      · rw [if_pos hc]
        have hm : P.name ∈ vals0 := by simpa using hc
        cases hs : slot? fx tbl P with
        | some vals => exact (h.1 vals hs).symm
        | none => exact absurd hm (h.2 hs hk vals0 hl)
      · rw [if_neg hc]
  · rw [if_neg hk]

theorem produces_iff_symInst' {fx : Fix} {tbl : Tbl} {P k : Sym} (hP : slotFix fx tbl P) :
    produces fx tbl P k ↔ symInst tbl P k = true := by
  unfold produces
  cases hs : slot? fx tbl P with
  | some vals =>
    obtain ⟨hk, _, vals0, hl, rfl⟩ := slot?_some hs
    have hPe := hP.1 _ hs
    have hname : P.name = "" := by rw [hPe]; rfl
    unfold symInst
    rw [isSlot_of_slot? hs hname]
    simp only [if_true, hl, List.any_eq_true, decide_eq_true_eq]
    constructor
    · rintro ⟨v, hv, rfl⟩; exact ⟨v, mem_fxvals.mp hv, rfl⟩
    · rintro ⟨v, hv, rfl⟩; exact ⟨v, mem_fxvals.mpr hv, rfl⟩
  | none =>
    simp only
    rw [symInst_of_not_isSlot (not_isSlot_of_slot?_none hs)]

theorem templSym_of_produces' {fx : Fix} {tbl : Tbl} {P k : Sym} (hP : slotFix fx tbl P)
    (hp : produces fx tbl P k) : templSym tbl k = P := by
  unfold produces at hp
  cases hs : slot? fx tbl P with
  | some vals =>
    rw [hs] at hp
    obtain ⟨v, hv, rfl⟩ := hp
    obtain ⟨_, _, vals0, hl, rfl⟩ := slot?_some hs
    rw [templSym_const_listed hl (mem_fxvals.mp hv)]
    exact (hP.1 _ hs).symm
  | none =>
    rw [hs] at hp
    subst hp
    exact templSym_of_slotFix hP

theorem lookup_map_div {κ : Type} [DecidableEq κ] (d : AList κ Rat) (n : Rat) (k : κ) :
    AList.lookup k (d.map fun kv => (kv.1, kv.2 / n)) = (AList.lookup k d).map (fun v => v / n) := by
  induction d with
  | nil => rfl
  | cons e r ih =>
    by_cases h : e.1 = k
    · simp [AList.lookup, h]
    · simp only [List.map_cons, AList.lookup, h, if_false]
      exact ih

/-! ### rules of the instantiated grammar -/

theorem alts?_row {G : U.UCFG V} {nt : U.UNT V} {P : Sym} {c : List (List (U.UNT V))}
    (h : G.alts? nt P = some c) :
    ∃ row, AList.lookup nt G.rules = some row ∧ AList.lookup P row = some c := by
  unfold U.UCFG.alts? at h
  cases hl : AList.lookup nt G.rules with
  | none => rw [hl] at h; cases h
  | some row => rw [hl] at h; exact ⟨row, rfl, h⟩

theorem okKey_of_alts {fx : Fix} {tbl : Tbl} {G : U.UCFG V} (h : rulesOK fx tbl G.rules = true)
    {nt : U.UNT V} {P : Sym} {c : List (List (U.UNT V))} (hr : G.alts? nt P = some c) :
    okKey fx tbl P := by
  obtain ⟨row, hl, hP⟩ := alts?_row hr
  exact (rowOK_iff.mp (rulesOK_row h hl)).2 P (mem_keys_of_lookup hP)

theorem alts?_inst_of_produces {fx : Fix} {tbl : Tbl} {G : U.UCFG V} (h : rulesOK fx tbl G.rules = true)
    (nt : U.UNT V) {P k : Sym} (hP : okKey fx tbl P) (hp : produces fx tbl P k) :
    (instUG fx G tbl).alts? nt k = G.alts? nt P := by
  unfold U.UCFG.alts? instUG instU
  simp only [lookup_instRules]
  cases hl : AList.lookup nt G.rules with
  | none => rfl
  | some row =>
    simp only [Option.map_some]
    rw [lookup_instRow_of_produces (rulesOK_row h hl) hP hp]
    cases AList.lookup P row with
    | none => rfl
    | some v => cases slot? fx tbl P <;> rfl

theorem alts?_inst_some {fx : Fix} {tbl : Tbl} {G : U.UCFG V} (h : rulesOK fx tbl G.rules = true)
    {nt : U.UNT V} {k : Sym} {c : List (List (U.UNT V))}
    (hr : (instUG fx G tbl).alts? nt k = some c) :
    ∃ P, G.alts? nt P = some c ∧ produces fx tbl P k := by
  unfold U.UCFG.alts? instUG instU at hr
  simp only [lookup_instRules] at hr
  cases hl : AList.lookup nt G.rules with
  | none => rw [hl] at hr; cases hr
  | some row =>
    rw [hl] at hr
    simp only [Option.map_some] at hr
    obtain ⟨P, v, hlP, hp, hw⟩ := (lookup_instRow_iff (rulesOK_row h hl) k c).mp hr
    refine ⟨P, ?_, hp⟩
    unfold U.UCFG.alts?
    rw [hl]
    simp only
    rw [hlP, hw]
    cases slot? fx tbl P <;> rfl

/-- a template symbol without rule: none of its instantiations has a rule either -/
theorem alts?_inst_none {fx : Fix} {tbl : Tbl} {G : U.UCFG V} (h : rulesOK fx tbl G.rules = true)
    {nt : U.UNT V} {P k : Sym} (hP : slotFix fx tbl P) (hp : produces fx tbl P k)
    (ha : G.alts? nt P = none) : (instUG fx G tbl).alts? nt k = none := by
  cases ha' : (instUG fx G tbl).alts? nt k with
  | none => rfl
  | some c =>
    obtain ⟨P', hP', hp'⟩ := alts?_inst_some h ha'
    have h1 := templSym_of_produces (okKey_of_alts h hP') hp'
    rw [templSym_of_produces' hP hp] at h1
    subst h1
    rw [ha] at hP'
    cases hP'

/-! ### derivations correspond one to one -/

/-- renaming of the symbols of a derivation back to the template -/
def derTempl (tbl : Tbl) (x : U.UNT V × Sym × List (U.UNT V)) : U.UNT V × Sym × List (U.UNT V) :=
  (x.1, templSym tbl x.2.1, x.2.2)

mutual
  theorem derivs_inst (fx : Fix) (tbl : Tbl) (G : U.UCFG V) (h : rulesOK fx tbl G.rules = true) :
      ∀ (t t' : Prog) (nt : U.UNT V), clean fx tbl t = true → isInst tbl t t' = true →
        (U.derivs (instUG fx G tbl) t' nt).map (List.map (derTempl tbl)) = U.derivs G t nt
    | .node P kids, .node k kids', nt => by
      intro hf hi
      unfold clean at hf
      rw [Bool.and_eq_true] at hf
      unfold isInst at hi
      rw [Bool.and_eq_true] at hi
      have hsf := cleanSym_iff.mp hf.1
      have hp : produces fx tbl P k := (produces_iff_symInst' hsf).mpr hi.1
      have hts : templSym tbl k = P := templSym_of_produces' hsf hp
      rw [U.derivs, U.derivs]
      cases ha : G.alts? nt P with
      | some cands =>
        have hok := okKey_of_alts h ha
        rw [alts?_inst_of_produces h nt hok hp, ha]
        simp only [List.map_flatMap, List.map_map]
        apply U.flatMap_congr'
        intro args _
        rw [← derivsList_inst fx tbl G h kids kids' args hf.2 hi.2, List.map_map]
        apply List.map_congr_left
        intro r _
        simp [derTempl, hts]
      | none =>
        rw [alts?_inst_none h hsf hp ha]
        rfl
  theorem derivsList_inst (fx : Fix) (tbl : Tbl) (G : U.UCFG V) (h : rulesOK fx tbl G.rules = true) :
      ∀ (ks ks' : List Prog) (as : List (U.UNT V)), cleanList fx tbl ks = true →
        isInstList tbl ks ks' = true →
        (U.derivsList (instUG fx G tbl) ks' as).map (List.map (derTempl tbl)) = U.derivsList G ks as
    | [], [], [] => by intro _ _; simp [U.derivsList]
    | [], [], _ :: _ => by intro _ _; simp [U.derivsList]
    | [], _ :: _, _ => by intro _ hi; simp [isInstList] at hi
    | _ :: _, [], _ => by intro _ hi; simp [isInstList] at hi
    | _ :: _, _ :: _, [] => by intro _ _; simp [U.derivsList]
    | k :: ks, k' :: ks', a :: as => by
      intro hf hi
      unfold cleanList at hf
      rw [Bool.and_eq_true] at hf
      unfold isInstList at hi
      rw [Bool.and_eq_true] at hi
      rw [U.derivsList, U.derivsList, ← derivs_inst fx tbl G h k k' a hf.1 hi.1,
        ← derivsList_inst fx tbl G h ks ks' as hf.2 hi.2]
      simp only [List.map_flatMap, List.flatMap_map, List.map_map]
      apply U.flatMap_congr'
      intro d _
      apply List.map_congr_left
      intro r _
      simp
end

theorem allDerivs_inst (fx : Fix) (tbl : Tbl) (G : U.UCFG V) (h : rulesOK fx tbl G.rules = true) (t t' : Prog)
    (hf : clean fx tbl t = true) (hi : isInst tbl t t' = true) :
    (U.allDerivs (instUG fx G tbl) t').map (fun sd => (sd.1, sd.2.map (derTempl tbl))) =
      U.allDerivs G t := by
  unfold U.allDerivs
  show (G.starts.flatMap _).map _ = _
  rw [List.map_flatMap]
  apply U.flatMap_congr'
  intro s _
  rw [← derivs_inst fx tbl G h t t' s hf hi]
  simp [List.map_map, Function.comp_def]

theorem allDerivs_inst_length (fx : Fix) (tbl : Tbl) (G : U.UCFG V) (h : rulesOK fx tbl G.rules = true)
    (t t' : Prog) (hf : clean fx tbl t = true) (hi : isInst tbl t t' = true) :
    (U.allDerivs (instUG fx G tbl) t').length = (U.allDerivs G t).length := by
  rw [← allDerivs_inst fx tbl G h t t' hf hi, List.length_map]

/-! ### templates of derivable terms -/

theorem flatMap_ne_nil {α β : Type} {l : List α} {g : α → List β} (h : l.flatMap g ≠ []) :
    ∃ a ∈ l, g a ≠ [] := by
  induction l with
  | nil => exact absurd rfl h
  | cons a r ih =>
    by_cases ha : g a = []
    · rw [List.flatMap_cons, ha, List.nil_append] at h
      obtain ⟨b, hb, hg⟩ := ih h
      exact ⟨b, List.mem_cons_of_mem _ hb, hg⟩
    · exact ⟨a, List.mem_cons_self .., ha⟩

/- a term with a derivation in the template grammar is a clean template -/
mutual
  theorem clean_of_derivs (fx : Fix) (tbl : Tbl) (G : U.UCFG V) (h : rulesOK fx tbl G.rules = true) :
      ∀ (t : Prog) (nt : U.UNT V), U.derivs G t nt ≠ [] → clean fx tbl t = true
    | .node P kids, nt => by
      intro hd
      rw [U.derivs] at hd
      cases ha : G.alts? nt P with
      | none => rw [ha] at hd; exact absurd rfl hd
      | some cands =>
        rw [ha] at hd
        obtain ⟨args, _, hne⟩ := flatMap_ne_nil hd
        have hne' : U.derivsList G kids args ≠ [] := by
          intro e; rw [e] at hne; exact hne rfl
        unfold clean
        rw [Bool.and_eq_true]
        exact ⟨cleanSym_iff.mpr (slotFix_of_okKey (okKey_of_alts h ha)),
          cleanList_of_derivs fx tbl G h kids args hne'⟩
  theorem cleanList_of_derivs (fx : Fix) (tbl : Tbl) (G : U.UCFG V) (h : rulesOK fx tbl G.rules = true) :
      ∀ (ks : List Prog) (as : List (U.UNT V)), U.derivsList G ks as ≠ [] → cleanList fx tbl ks = true
    | [], _ => by intro _; rfl
    | _ :: _, [] => by intro hd; simp [U.derivsList] at hd
    | k :: ks, a :: as => by
      intro hd
      rw [U.derivsList] at hd
      obtain ⟨d, hdm, hne⟩ := flatMap_ne_nil hd
      have h1 : U.derivs G k a ≠ [] := by intro e; rw [e] at hdm; cases hdm
      have h2 : U.derivsList G ks as ≠ [] := by intro e; rw [e] at hne; exact hne rfl
      unfold cleanList
      rw [Bool.and_eq_true]
      exact ⟨clean_of_derivs fx tbl G h k a h1, cleanList_of_derivs fx tbl G h ks as h2⟩
end

/- a term with a derivation in the instantiated grammar is an instantiation of its template,
   and the template is clean -/
mutual
  theorem isInst_templ_of_derivs (fx : Fix) (tbl : Tbl) (G : U.UCFG V) (h : rulesOK fx tbl G.rules = true) :
      ∀ (t' : Prog) (nt : U.UNT V), U.derivs (instUG fx G tbl) t' nt ≠ [] →
        isInst tbl (templ tbl t') t' = true ∧ clean fx tbl (templ tbl t') = true
    | .node k kids', nt => by
      intro hd
      rw [U.derivs] at hd
      cases ha : (instUG fx G tbl).alts? nt k with
      | none => rw [ha] at hd; exact absurd rfl hd
      | some cands =>
        rw [ha] at hd
        obtain ⟨args, _, hne⟩ := flatMap_ne_nil hd
        have hne' : U.derivsList (instUG fx G tbl) kids' args ≠ [] := by
          intro e; rw [e] at hne; exact hne rfl
        obtain ⟨P, hP, hp⟩ := alts?_inst_some h ha
        have hok := okKey_of_alts h hP
        have hts := templSym_of_produces hok hp
        have ih := isInstList_templ_of_derivs fx tbl G h kids' args hne'
        constructor
        · unfold templ isInst
          rw [hts, Bool.and_eq_true]
          exact ⟨(produces_iff_symInst hok).mp hp, ih.1⟩
        · unfold templ clean
          rw [hts, Bool.and_eq_true]
          exact ⟨cleanSym_iff.mpr (slotFix_of_okKey hok), ih.2⟩
  theorem isInstList_templ_of_derivs (fx : Fix) (tbl : Tbl) (G : U.UCFG V) (h : rulesOK fx tbl G.rules = true) :
      ∀ (ks' : List Prog) (as : List (U.UNT V)), U.derivsList (instUG fx G tbl) ks' as ≠ [] →
        isInstList tbl (templList tbl ks') ks' = true ∧
          cleanList fx tbl (templList tbl ks') = true
    | [], _ => by intro _; simp [templList, isInstList, cleanList]
    | _ :: _, [] => by intro hd; simp [U.derivsList] at hd
    | k' :: ks', a :: as => by
      intro hd
      rw [U.derivsList] at hd
      obtain ⟨d, hdm, hne⟩ := flatMap_ne_nil hd
      have h1 : U.derivs (instUG fx G tbl) k' a ≠ [] := by intro e; rw [e] at hdm; cases hdm
      have h2 : U.derivsList (instUG fx G tbl) ks' as ≠ [] := by
        intro e; rw [e] at hne; exact hne rfl
      have i1 := isInst_templ_of_derivs fx tbl G h k' a h1
      have i2 := isInstList_templ_of_derivs fx tbl G h ks' as h2
      constructor
      · unfold templList isInstList
        rw [Bool.and_eq_true]
        exact ⟨i1.1, i2.1⟩
      · unfold templList cleanList
        rw [Bool.and_eq_true]
        exact ⟨i1.2, i2.2⟩
end

/- the template of an instantiation of a (clean) template is that template -/
mutual
  theorem templ_of_isInst' (fx : Fix) (tbl : Tbl) : ∀ (t t' : Prog), clean fx tbl t = true →
      isInst tbl t t' = true → templ tbl t' = t
    | .node P kids, .node k kids' => by
      intro hf hi
      unfold clean at hf
      rw [Bool.and_eq_true] at hf
      unfold isInst at hi
      rw [Bool.and_eq_true] at hi
      have hsf := cleanSym_iff.mp hf.1
      unfold templ
      rw [templSym_of_produces' hsf ((produces_iff_symInst' hsf).mpr hi.1),
        templList_of_isInstList' fx tbl kids kids' hf.2 hi.2]
  theorem templList_of_isInstList' (fx : Fix) (tbl : Tbl) : ∀ (ks ks' : List Prog), cleanList fx tbl ks = true →
      isInstList tbl ks ks' = true → templList tbl ks' = ks
    | [], [] => by intro _ _; rfl
    | [], _ :: _ => by intro _ hi; simp [isInstList] at hi
    | _ :: _, [] => by intro _ hi; simp [isInstList] at hi
    | k :: ks, k' :: ks' => by
      intro hf hi
      unfold cleanList at hf
      rw [Bool.and_eq_true] at hf
      unfold isInstList at hi
      rw [Bool.and_eq_true] at hi
      unfold templList
      rw [templ_of_isInst' fx tbl k k' hf.1 hi.1, templList_of_isInstList' fx tbl ks ks' hf.2 hi.2]
end

/-! ### language -/

theorem genU_iff {G : U.UCFG V} {t : Prog} :
    U.genU G t = true ↔ ∃ s ∈ G.starts, U.derivs G t s ≠ [] := by
  unfold U.genU U.allDerivs
  constructor
  · intro hg
    have hne : (G.starts.flatMap fun s => (U.derivs G t s).map fun d => (s, d)) ≠ [] := by
      intro e; rw [e] at hg; simp at hg
    obtain ⟨s, hs, hm⟩ := flatMap_ne_nil hne
    exact ⟨s, hs, fun e => hm (by rw [e]; rfl)⟩
  · rintro ⟨s, hs, hd⟩
    cases hd' : U.derivs G t s with
    | nil => exact absurd hd' hd
    | cons d ds =>
      have hm : (s, d) ∈ (G.starts.flatMap fun s => (U.derivs G t s).map fun d => (s, d)) :=
        List.mem_flatMap.mpr ⟨s, hs, List.mem_map.mpr ⟨d, by rw [hd']; simp, rfl⟩⟩
      cases hl : (G.starts.flatMap fun s => (U.derivs G t s).map fun d => (s, d)) with
      | nil => rw [hl] at hm; cases hm
      | cons _ _ => rfl

theorem clean_of_genU (fx : Fix) (tbl : Tbl) (G : U.UCFG V) (h : rulesOK fx tbl G.rules = true) (t : Prog)
    (hg : U.genU G t = true) : clean fx tbl t = true := by
  obtain ⟨s, _, hd⟩ := genU_iff.mp hg
  exact clean_of_derivs fx tbl G h t s hd

theorem map_ne_nil_iff' {α β : Type} (f : α → β) (l : List α) : l.map f ≠ [] ↔ l ≠ [] := by
  cases l <;> simp

/-- **language of the instantiated unambiguous grammar** -/
theorem genU_inst_iff (fx : Fix) (tbl : Tbl) (G : U.UCFG V) (h : rulesOK fx tbl G.rules = true) (t' : Prog) :
    U.genU (instUG fx G tbl) t' = true ↔ ∃ t, U.genU G t = true ∧ isInst tbl t t' = true := by
  constructor
  · intro hg
    obtain ⟨s, hs, hd⟩ := genU_iff.mp hg
    obtain ⟨hi, hf⟩ := isInst_templ_of_derivs fx tbl G h t' s hd
    refine ⟨templ tbl t', genU_iff.mpr ⟨s, hs, ?_⟩, hi⟩
    rw [← derivs_inst fx tbl G h (templ tbl t') t' s hf hi]
    exact (map_ne_nil_iff' _ _).mpr hd
  · rintro ⟨t, hg, hi⟩
    obtain ⟨s, hs, hd⟩ := genU_iff.mp hg
    have hf := clean_of_derivs fx tbl G h t s hd
    refine genU_iff.mpr ⟨s, hs, ?_⟩
    rw [← derivs_inst fx tbl G h t t' s hf hi] at hd
    exact (map_ne_nil_iff' _ _).mp hd

/-! ### `all_constants_instantiation` lists instantiations (for clean templates) -/

mutual
  theorem allInst_sound (fx : Fix) (tbl : Tbl) : ∀ (t : Prog) (l : List Prog), clean fx tbl t = true →
      allInst fx tbl t = some l → ∀ t' ∈ l, isInst tbl t t' = true
    | .node P kids, l => by
      intro hf ha t' ht'
      unfold clean at hf
      rw [Bool.and_eq_true] at hf
      have hsf := cleanSym_iff.mp hf.1
      unfold allInst at ha
      cases e1 : allInstSym fx tbl P with
      | none => rw [e1] at ha; cases ha
      | some hs =>
        rw [e1] at ha
        obtain ⟨hprod, _⟩ := allInstSym_produces e1
        cases hs with
        | nil =>
          simp only [Option.some.injEq] at ha
          rw [← ha] at ht'; cases ht'
        | cons h0 hs0 =>
          simp only at ha
          cases e2 : allInstList fx tbl kids with
          | none => rw [e2] at ha; cases ha
          | some poss =>
            rw [e2] at ha
            simp only [Option.some.injEq] at ha
            rw [← ha, mem_flatMap_map (fun f' ks => Tree.node f' ks)] at ht'
            obtain ⟨k, hk, ks', hks', rfl⟩ := ht'
            unfold isInst
            rw [Bool.and_eq_true]
            exact ⟨(produces_iff_symInst' hsf).mp (hprod k hk),
              allInstList_sound fx tbl kids poss hf.2 e2 ks' hks'⟩
  theorem allInstList_sound (fx : Fix) (tbl : Tbl) : ∀ (ks : List Prog) (poss : List (List Prog)),
      cleanList fx tbl ks = true → allInstList fx tbl ks = some poss →
      ∀ ks' ∈ product poss, isInstList tbl ks ks' = true
    | [], poss => by
      intro _ ha ks' hks'
      unfold allInstList at ha
      cases ha
      simp only [product, List.mem_singleton] at hks'
      subst hks'
      rfl
    | k :: ks, poss => by
      intro hf ha ks' hks'
      unfold cleanList at hf
      rw [Bool.and_eq_true] at hf
      unfold allInstList at ha
      cases e1 : allInst fx tbl k with
      | none => rw [e1] at ha; cases ha
      | some l =>
        cases e2 : allInstList fx tbl ks with
        | none => rw [e1, e2] at ha; cases ha
        | some ls =>
          rw [e1, e2] at ha
          simp only [Option.some.injEq] at ha
          rw [← ha, mem_product_cons] at hks'
          obtain ⟨x, r, rfl, hx, hr⟩ := hks'
          unfold isInstList
          rw [Bool.and_eq_true]
          exact ⟨allInst_sound fx tbl k l hf.1 e1 x hx, allInstList_sound fx tbl ks ls hf.2 e2 r hr⟩
end

/-! ### weights -/

theorem rsum_map_add {α : Type} (g h : α → Rat) (l : List α) :
    rsum (l.map fun x => g x + h x) = rsum (l.map g) + rsum (l.map h) := by
  induction l with
  | nil => simp [rsum]
  | cons x xs ih => simp only [List.map_cons, rsum, ih]; ring

theorem rsum_map_zero {α : Type} (g : α → Rat) (l : List α) (h : ∀ x ∈ l, g x = 0) :
    rsum (l.map g) = 0 := by
  rw [rsum_map_congr h, rsum_map_const]; ring

/-- exchange of two finite sums -/
theorem rsum_exchange {α β : Type} (c : β → Rat) (f : α → β → Rat) (A : List α) (B : List β) :
    rsum (A.map fun x => rsum (B.map fun y => c y * f x y)) =
      rsum (B.map fun y => c y * rsum (A.map fun x => f x y)) := by
  induction B with
  | nil => simp only [List.map_nil, rsum]; exact rsum_map_zero _ _ (fun _ _ => rfl)
  | cons b bs ih =>
    simp only [List.map_cons, rsum]
    rw [rsum_map_add, ih, rsum_map_mul_left]

/-- total weight of the derivations of `t` from `nt` -/
def wsum (G : U.UCFG V) (tg : U.UTags V) (t : Prog) (nt : U.UNT V) : Rat :=
  rsum ((U.derivs G t nt).map (U.derWeightU tg))

def wsumList (G : U.UCFG V) (tg : U.UTags V) (ks : List Prog) (as : List (U.UNT V)) : Rat :=
  rsum ((U.derivsList G ks as).map (U.derWeightU tg))

theorem wsum_node (G : U.UCFG V) (tg : U.UTags V) (f : Sym) (kids : List Prog) (nt : U.UNT V) :
    wsum G tg (.node f kids) nt =
      match G.alts? nt f with
      | none => 0
      | some cands => rsum (cands.map fun args => U.weightU tg (nt, f, args) * wsumList G tg kids args) := by
  unfold wsum
  rw [U.derivs]
  cases G.alts? nt f with
  | none => rfl
  | some cands =>
    simp only
    rw [List.map_flatMap, rsum_flatMap]
    apply rsum_map_congr
    intro args _
    unfold wsumList
    rw [List.map_map, ← rsum_map_mul_left]
    apply rsum_map_congr
    intro r _
    simp only [Function.comp]
    exact U.Mass.derWeightU_cons tg _ r

theorem wsumList_nil_nil (G : U.UCFG V) (tg : U.UTags V) : wsumList G tg [] [] = 1 := by
  simp [wsumList, U.derivsList, rsum, U.derWeightU]

theorem wsumList_nil_cons (G : U.UCFG V) (tg : U.UTags V) (a : U.UNT V) (as : List (U.UNT V)) :
    wsumList G tg [] (a :: as) = 0 := by
  simp [wsumList, U.derivsList, rsum]

theorem wsumList_cons_nil (G : U.UCFG V) (tg : U.UTags V) (k : Prog) (ks : List Prog) :
    wsumList G tg (k :: ks) [] = 0 := by
  simp [wsumList, U.derivsList, rsum]

theorem wsumList_cons_cons (G : U.UCFG V) (tg : U.UTags V) (k : Prog) (ks : List Prog)
    (a : U.UNT V) (as : List (U.UNT V)) :
    wsumList G tg (k :: ks) (a :: as) = wsum G tg k a * wsumList G tg ks as := by
  unfold wsumList wsum
  rw [U.derivsList]
  exact rsum_flatMap_map (fun d r => d ++ r) (U.derWeightU tg) (U.derWeightU tg) (U.derWeightU tg)
    _ _ (fun d _ r => U.Mass.derWeightU_append tg d r)

theorem weightU_inst_of_produces {fx : Fix} {tbl : Tbl} {tg : U.UTags V} (h : rulesOK fx tbl tg.tags = true)
    (nt : U.UNT V) {P k : Sym} (hP : okKey fx tbl P) (hp : produces fx tbl P k) (args : List (U.UNT V)) :
    U.weightU (instUTg fx tg tbl) (nt, k, args) =
      (match slot? fx tbl P with
        | some vals => U.weightU tg (nt, P, args) / (vals.length : Rat)
        | none => U.weightU tg (nt, P, args)) := by
  unfold U.weightU U.tagOfU instUTg instUTags
  simp only [lookup_instRules]
  cases hl : AList.lookup nt tg.tags with
  | none => cases slot? fx tbl P <;> simp
  | some row =>
    simp only [Option.map_some]
    rw [lookup_instRow_of_produces (rulesOK_row h hl) hP hp]
    cases AList.lookup P row with
    | none => cases slot? fx tbl P <;> simp
    | some d =>
      simp only [Option.map_some]
      cases slot? fx tbl P with
      | none => rfl
      | some vals =>
        simp only
        rw [lookup_map_div]
        cases AList.lookup args d <;> simp

mutual
  theorem wsum_inst (fx : Fix) (tbl : Tbl) (G : U.UCFG V) (tg : U.UTags V)
      (hG : rulesOK fx tbl G.rules = true) (hT : rulesOK fx tbl tg.tags = true)
      (hne : rulesNonEmpty fx tbl G.rules = true) : ∀ (t : Prog) (nt : U.UNT V) (l : List Prog), clean fx tbl t = true →
      allInst fx tbl t = some l →
      rsum (l.map fun t' => wsum (instUG fx G tbl) (instUTg fx tg tbl) t' nt) = wsum G tg t nt
    | .node P kids, nt, l => by
      intro hf ha
      unfold clean at hf
      rw [Bool.and_eq_true] at hf
      have hsf := cleanSym_iff.mp hf.1
      unfold allInst at ha
      cases e1 : allInstSym fx tbl P with
      | none => rw [e1] at ha; cases ha
      | some hs =>
        rw [e1] at ha
        obtain ⟨hprod, hshape⟩ := allInstSym_produces e1
        cases ha0 : G.alts? nt P with
        | none =>
          rw [wsum_node G tg, ha0]
          apply rsum_map_zero
          intro t' ht'
          have hhead : ∃ k ∈ hs, ∃ ks', t' = Tree.node k ks' := by
            cases hs with
            | nil =>
              simp only [Option.some.injEq] at ha
              rw [← ha] at ht'; cases ht'
            | cons h0 hs0 =>
              simp only at ha
              cases e2 : allInstList fx tbl kids with
              | none => rw [e2] at ha; cases ha
              | some poss =>
                rw [e2] at ha
                simp only [Option.some.injEq] at ha
                rw [← ha, mem_flatMap_map (fun f' ks => Tree.node f' ks)] at ht'
                obtain ⟨k, hk, ks', _, e⟩ := ht'
                exact ⟨k, hk, ks', e⟩
          obtain ⟨k, hk, ks', rfl⟩ := hhead
          rw [wsum_node, alts?_inst_none hG hsf (hprod k hk) ha0]
        | some cands =>
          have hok := okKey_of_alts hG ha0
          obtain ⟨row, hl, hPr⟩ := alts?_row ha0
          have hnz := rulesNonEmpty_row hne hl
          unfold rowNonEmpty at hnz
          rw [List.all_eq_true] at hnz
          have hnz' := hnz P (mem_keys_of_lookup hPr)
          cases hs with
          | nil =>
            exfalso
            cases hs' : slot? fx tbl P with
            | none => rw [hs'] at hshape; cases hshape
            | some vals =>
              rw [hs'] at hshape hnz'
              cases vals with
              | nil => cases hnz'
              | cons v vs => cases hshape
          | cons h0 hs0 =>
            simp only at ha
            cases e2 : allInstList fx tbl kids with
            | none => rw [e2] at ha; cases ha
            | some poss =>
              rw [e2] at ha
              simp only [Option.some.injEq] at ha
              rw [← ha]
              have ih := fun args => wsumList_inst fx tbl G tg hG hT hne kids args poss hf.2 e2
              -- the weight of an alternative of an instantiated head
              let c : List (U.UNT V) → Rat := fun args =>
                match slot? fx tbl P with
                | some vals => U.weightU tg (nt, P, args) / (vals.length : Rat)
                | none => U.weightU tg (nt, P, args)
              have hfac : ∀ k ∈ h0 :: hs0, ∀ ks',
                  wsum (instUG fx G tbl) (instUTg fx tg tbl) (Tree.node k ks') nt =
                    (fun _ => (1 : Rat)) k *
                      rsum (cands.map fun args =>
                        c args * wsumList (instUG fx G tbl) (instUTg fx tg tbl) ks' args) := by
                intro k hk ks'
                rw [wsum_node, alts?_inst_of_produces hG nt hok (hprod k hk), ha0]
                simp only [Rat.one_mul]
                apply rsum_map_congr
                intro args _
                rw [weightU_inst_of_produces hT nt hok (hprod k hk) args]
              rw [rsum_flatMap_map (fun f' ks => Tree.node f' ks) _ _ _ _ _ hfac,
                rsum_exchange c
                  (fun ks' args => wsumList (instUG fx G tbl) (instUTg fx tg tbl) ks' args)
                  (product poss) cands]
              simp only [ih]
              rw [wsum_node G tg, ha0]
              simp only
              rw [rsum_map_const]
              cases hs' : slot? fx tbl P with
              | none =>
                rw [hs'] at hshape
                rw [hshape]
                simp only [c, hs', List.length_cons, List.length_nil]
                norm_num
              | some vals =>
                rw [hs'] at hshape hnz'
                have hv : vals ≠ [] := by
                  intro e; subst e; cases hnz'
                have hn : (vals.length : Rat) ≠ 0 := by
                  exact_mod_cast (by intro e; exact hv (List.length_eq_zero_iff.mp e) :
                    vals.length ≠ 0)
                rw [hshape, List.length_map]
                simp only [c, hs']
                rw [rsum_map_congr (g' := fun args =>
                    (1 / (vals.length : Rat)) * (U.weightU tg (nt, P, args) * wsumList G tg kids args))
                  (fun args _ => by ring), rsum_map_mul_left]
                field_simp
  theorem wsumList_inst (fx : Fix) (tbl : Tbl) (G : U.UCFG V) (tg : U.UTags V)
      (hG : rulesOK fx tbl G.rules = true) (hT : rulesOK fx tbl tg.tags = true)
      (hne : rulesNonEmpty fx tbl G.rules = true) : ∀ (ks : List Prog) (as : List (U.UNT V)) (poss : List (List Prog)),
      cleanList fx tbl ks = true → allInstList fx tbl ks = some poss →
      rsum ((product poss).map fun ks' => wsumList (instUG fx G tbl) (instUTg fx tg tbl) ks' as) =
        wsumList G tg ks as
    | [], [], poss => by
      intro _ ha
      unfold allInstList at ha
      cases ha
      simp [product, wsumList_nil_nil, rsum]
    | [], a :: as, poss => by
      intro _ ha
      unfold allInstList at ha
      cases ha
      simp [product, wsumList_nil_cons, rsum]
    | k :: ks, [], poss => by
      intro _ ha
      unfold allInstList at ha
      cases e1 : allInst fx tbl k with
      | none => rw [e1] at ha; cases ha
      | some l =>
        cases e2 : allInstList fx tbl ks with
        | none => rw [e1, e2] at ha; cases ha
        | some ls =>
          rw [e1, e2] at ha
          simp only [Option.some.injEq] at ha
          rw [← ha, wsumList_cons_nil]
          apply rsum_map_zero
          intro ks' hks'
          rw [mem_product_cons] at hks'
          obtain ⟨x, r, rfl, _, _⟩ := hks'
          exact wsumList_cons_nil _ _ x r
    | k :: ks, a :: as, poss => by
      intro hf ha
      unfold cleanList at hf
      rw [Bool.and_eq_true] at hf
      unfold allInstList at ha
      cases e1 : allInst fx tbl k with
      | none => rw [e1] at ha; cases ha
      | some l =>
        cases e2 : allInstList fx tbl ks with
        | none => rw [e1, e2] at ha; cases ha
        | some ls =>
          rw [e1, e2] at ha
          simp only [Option.some.injEq] at ha
          rw [← ha]
          have ih1 := wsum_inst fx tbl G tg hG hT hne k a l hf.1 e1
          have ih2 := wsumList_inst fx tbl G tg hG hT hne ks as ls hf.2 e2
          unfold product
          rw [rsum_flatMap_map (fun x r => x :: r) _
            (fun x => wsum (instUG fx G tbl) (instUTg fx tg tbl) x a)
            (fun r => wsumList (instUG fx G tbl) (instUTg fx tg tbl) r as) _ _
            (fun x _ r => wsumList_cons_cons _ _ x r a as)]
          rw [ih1, ih2, wsumList_cons_cons]
end

/-! ### probabilities of programs -/

/-- total weight of the derivations of `t` from all start symbols, start `s` weighted `σ s` -/
def totW (σ : U.UNT V → Rat) (G : U.UCFG V) (tg : U.UTags V) (t : Prog) : Rat :=
  rsum (G.starts.map fun s => σ s * wsum G tg t s)

theorem totW_inst (σ : U.UNT V → Rat) (fx : Fix) (tbl : Tbl) (G : U.UCFG V) (tg : U.UTags V)
    (hG : rulesOK fx tbl G.rules = true) (hT : rulesOK fx tbl tg.tags = true)
    (hne : rulesNonEmpty fx tbl G.rules = true) (t : Prog) (l : List Prog)
    (hf : clean fx tbl t = true) (ha : allInst fx tbl t = some l) :
    rsum (l.map (totW σ (instUG fx G tbl) (instUTg fx tg tbl))) = totW σ G tg t := by
  unfold totW
  show rsum (l.map fun t' => rsum (G.starts.map fun s =>
    σ s * wsum (instUG fx G tbl) (instUTg fx tg tbl) t' s)) = _
  rw [rsum_exchange σ (fun t' s => wsum (instUG fx G tbl) (instUTg fx tg tbl) t' s) l G.starts]
  apply rsum_map_congr
  intro s _
  rw [wsum_inst fx tbl G tg hG hT hne t s l hf ha]

theorem allDerivs_sum (σ : U.UNT V → Rat) (G : U.UCFG V) (tg : U.UTags V) (t : Prog) :
    rsum ((U.allDerivs G t).map fun sd => σ sd.1 * U.derWeightU tg sd.2) = totW σ G tg t := by
  unfold U.allDerivs totW wsum
  rw [List.map_flatMap, rsum_flatMap]
  apply rsum_map_congr
  intro s _
  rw [List.map_map, ← rsum_map_mul_left]
  rfl

/-- the specification `probU` of an unambiguous term is the total weight of its derivations -/
theorem probU_eq_totW (G : U.UCFG V) (tg : U.UTags V) (t : Prog)
    (hu : U.unambiguousOn G t = true) :
    U.probU G tg t = totW (U.startWeight tg) G tg t := by
  rw [← allDerivs_sum]
  have hu' : (U.allDerivs G t).length ≤ 1 := by simpa [U.unambiguousOn] using hu
  unfold U.probU
  cases hA : U.allDerivs G t with
  | nil => rfl
  | cons sd rest =>
    rw [hA] at hu'
    have hrest : rest = [] := by
      apply List.length_eq_zero_iff.mp
      simp only [List.length_cons] at hu'; omega
    subst hrest
    obtain ⟨s, d⟩ := sd
    simp [rsum]

/-- the model of `ProbUGrammar.probability` on an unambiguous term: the weight of its
    derivation WITHOUT the start factor (finding C04-F1), 0 when there is none -/
theorem probabilityU_eq_totW (G : U.UCFG V) (tg : U.UTags V) (t : Prog)
    (hu : U.unambiguousOn G t = true) :
    U.probabilityU G tg t = totW (fun _ => 1) G tg t := by
  rw [← allDerivs_sum]
  have hred := U.reduceAll_derivs G t
  have hlen : (U.reduceAll G t).length = (U.allDerivs G t).length := by
    have := congrArg List.length hred
    simpa using this
  have hu' : (U.allDerivs G t).length ≤ 1 := by simpa [U.unambiguousOn] using hu
  unfold U.probabilityU
  cases hA : U.allDerivs G t with
  | nil =>
    rw [hA] at hlen
    have hR : U.reduceAll G t = [] := List.length_eq_zero_iff.mp (by simpa using hlen)
    simp [hR, rsum]
  | cons sd rest =>
    obtain ⟨s, d⟩ := sd
    rw [hA] at hu' hlen hred
    have hrest : rest = [] := by
      apply List.length_eq_zero_iff.mp
      simp only [List.length_cons] at hu'; omega
    rw [hrest] at hlen hred ⊢
    cases hR : U.reduceAll G t with
    | nil => rw [hR] at hlen; simp at hlen
    | cons p ps =>
      rw [hR] at hlen hred
      have hps : ps = [] := by
        apply List.length_eq_zero_iff.mp
        simp only [List.length_cons, List.length_nil] at hlen; omega
      rw [hps] at hred ⊢
      have hd : p.map U.Step.rule = d := by simpa using hred
      obtain ⟨h1, h2⟩ := U.foldSteps_spec tg p 1
      cases hf : U.foldSteps tg (some 1) p with
      | none =>
        simp only [List.map_cons, List.map_nil, hf, List.any_cons, Option.isNone_none,
          Bool.true_or, if_true, rsum]
        rw [← hd, h2 hf]; norm_num
      | some v =>
        simp only [List.map_cons, List.map_nil, hf, List.any_cons, Option.isNone_some,
          List.any_nil, Bool.or_self, Bool.false_eq_true, if_false, rsum]
        rw [h1 v hf, hd]; ring

section final
variable (fx : Fix) (tbl : Tbl) (G : U.UCFG V) (tg : U.UTags V)
  (hG : rulesOK fx tbl G.rules = true) (hT : rulesOK fx tbl tg.tags = true)
  (hne : rulesNonEmpty fx tbl G.rules = true)
include hG

/-- unambiguity is preserved: an instantiation has as many derivations as its template -/
theorem unambiguousOn_inst (t t' : Prog) (hg : U.genU G t = true) (hi : isInst tbl t t' = true) :
    U.unambiguousOn (instUG fx G tbl) t' = U.unambiguousOn G t := by
  unfold U.unambiguousOn
  rw [allDerivs_inst_length fx tbl G hG t t' (clean_of_genU fx tbl G hG t hg) hi]

include hT hne

/-- **mass, specification** -/
theorem probU_mass (t : Prog) (l : List Prog) (hg : U.genU G t = true)
    (hu : U.unambiguousOn G t = true) (ha : allInst fx tbl t = some l) :
    rsum (l.map (U.probU (instUG fx G tbl) (instUTg fx tg tbl))) = U.probU G tg t := by
  have hf := clean_of_genU fx tbl G hG t hg
  rw [probU_eq_totW G tg t hu, ← totW_inst (U.startWeight tg) fx tbl G tg hG hT hne t l hf ha]
  apply rsum_map_congr
  intro t' ht'
  have hi := allInst_sound fx tbl t l hf ha t' ht'
  rw [probU_eq_totW _ _ t' (by rw [unambiguousOn_inst fx tbl G hG t t' hg hi]; exact hu)]
  rfl

/-- **mass, model of `ProbUGrammar.probability`** -/
theorem probabilityU_mass (t : Prog) (l : List Prog) (hg : U.genU G t = true)
    (hu : U.unambiguousOn G t = true) (ha : allInst fx tbl t = some l) :
    rsum (l.map (U.probabilityU (instUG fx G tbl) (instUTg fx tg tbl))) = U.probabilityU G tg t := by
  have hf := clean_of_genU fx tbl G hG t hg
  rw [probabilityU_eq_totW G tg t hu, ← totW_inst (fun _ => 1) fx tbl G tg hG hT hne t l hf ha]
  apply rsum_map_congr
  intro t' ht'
  have hi := allInst_sound fx tbl t l hf ha t' ht'
  exact probabilityU_eq_totW _ _ t' (by rw [unambiguousOn_inst fx tbl G hG t t' hg hi]; exact hu)

end final

/-! ### total mass of the derivations within a depth budget -/

theorem lookup_instUG {fx : Fix} {tbl : Tbl} {G : U.UCFG V} (h : rulesOK fx tbl G.rules = true) {nt : U.UNT V}
    {rs : AList Sym (List (List (U.UNT V)))} (hl : AList.lookup nt G.rules = some rs) :
    AList.lookup nt (instUG fx G tbl).rules = some (rs.flatMap (expand fx tbl (fun v _ => v))) := by
  unfold instUG instU
  simp only [lookup_instRules, hl, Option.map_some]
  rw [instRow_eq_flatMap (rulesOK_row h hl)]

/-- **no mass is lost** (unambiguous grammars): for every depth budget and non-terminal the
    total weight of the derivations of the instantiated grammar is that of the template grammar -/
theorem massU_inst (fx : Fix) (tbl : Tbl) (G : U.UCFG V) (tg : U.UTags V)
    (hG : rulesOK fx tbl G.rules = true) (hT : rulesOK fx tbl tg.tags = true)
    (hne : rulesNonEmpty fx tbl G.rules = true) :
    ∀ (k : Nat) (nt : U.UNT V),
      U.Mass.massU (instUG fx G tbl) (instUTg fx tg tbl) k nt = U.Mass.massU G tg k nt := by
  intro k
  induction k with
  | zero => intro nt; simp [U.Mass.massU, U.dersU]
  | succ k ih =>
    intro nt
    cases hl : AList.lookup nt G.rules with
    | none =>
      have hl' : AList.lookup nt (instUG fx G tbl).rules = none := by
        unfold instUG instU; simp only [lookup_instRules, hl, Option.map_none]
      simp [U.Mass.massU, U.dersU, hl, hl']
    | some rs =>
      rw [U.Mass.massU_succ _ _ k nt _ (lookup_instUG hG hl), U.Mass.massU_succ G tg k nt rs hl,
        U.Mass.sum_map_flatMap]
      congr 1
      apply List.map_congr_left
      intro e he
      have hrow := rulesOK_row hG hl
      have hmem : e.1 ∈ AList.keys rs := List.mem_map.mpr ⟨e, he, rfl⟩
      have hok : okKey fx tbl e.1 := (rowOK_iff.mp hrow).2 e.1 hmem
      have hnz := rulesNonEmpty_row hne hl
      unfold rowNonEmpty at hnz
      rw [List.all_eq_true] at hnz
      have hnz' := hnz e.1 hmem
      simp only [ih]
      unfold expand
      cases hs : slot? fx tbl e.1 with
      | none =>
        simp only [List.map_cons, List.map_nil, List.sum_cons, List.sum_nil, Rat.add_zero]
        congr 1
        apply List.map_congr_left
        intro args _
        rw [weightU_inst_of_produces hT nt hok (produces_self hs) args, hs]
      | some vals =>
        rw [hs] at hnz'
        have hv : vals ≠ [] := by
          intro e'; subst e'; cases hnz'
        have hn : (vals.length : Rat) ≠ 0 := by
          exact_mod_cast (by intro e'; exact hv (List.length_eq_zero_iff.mp e') : vals.length ≠ 0)
        simp only [List.map_map]
        rw [List.map_congr_left (g := fun _ => (1 / (vals.length : Rat)) *
            (e.2.map (fun args => U.weightU tg (nt, e.1, args) *
              (args.map (fun a => U.Mass.massU G tg k a)).prod)).sum)
          (fun v hv' => by
            simp only [Function.comp]
            rw [← U.Mass.sum_map_mul_left]
            congr 1
            apply List.map_congr_left
            intro args _
            have hp : produces fx tbl e.1 (Sym.const e.1.ty v) := by
              unfold produces; rw [hs]; exact ⟨v, hv', rfl⟩
            rw [weightU_inst_of_produces hT nt hok hp args, hs]
            ring)]
        rw [sum_map_const]
        field_simp

end PS.IC
