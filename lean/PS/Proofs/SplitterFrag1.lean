/- C08, fragment grammar (`pcfgFrom`), part 1: erasure of the renaming, `freshList`, the
   elementary table operations (`addRule`, `copyRules`) as functions on the rows of a table,
   and the pure renaming `renPath` that `pathLoop` follows. -/
import PS.Proofs.Splitter
namespace PS.Sp
open PS PS.G

variable {U : Type} [DecidableEq U]

/-! ### erasure -/

/-- the original non-terminal of a copy -/
def er (x : UNT (U × Nat)) : UNT U := (x.1, x.2.1)
/-- the number of a copy (0: free copy) -/
def idx (x : UNT (U × Nat)) : Nat := x.2.2
/-- the original step of a step of the fragment -/
def erStep (st : Step (U × Nat)) : Step U := (er st.1, st.2.1, st.2.2.map er)

omit [DecidableEq U] in
@[simp] theorem er_free (s : UNT U) : er (free s) = s := rfl
omit [DecidableEq U] in
@[simp] theorem idx_free (s : UNT U) : idx (free s) = 0 := rfl

omit [DecidableEq U] in
theorem map_er_free (a : List (UNT U)) : (a.map free).map er = a := by
  induction a with
  | nil => rfl
  | cons x r ih => simp only [List.map_cons, ih, er_free]

omit [DecidableEq U] in
theorem ext_er_idx {x y : UNT (U × Nat)} (h1 : er x = er y) (h2 : idx x = idx y) : x = y := by
  obtain ⟨t, u, k⟩ := x
  obtain ⟨t', u', k'⟩ := y
  simp only [er, idx, Prod.mk.injEq] at h1 h2
  obtain ⟨rfl, rfl⟩ := h1
  subst h2
  rfl

omit [DecidableEq U] in
theorem eq_free_of_idx {x : UNT (U × Nat)} (h : idx x = 0) : x = free (er x) :=
  ext_er_idx rfl h

omit [DecidableEq U] in
theorem free_injective {a b : UNT U} (h : free a = free b) : a = b := by
  have := congrArg er h
  simpa using this

omit [DecidableEq U] in
theorem map_free_injective : ∀ {a b : List (UNT U)}, a.map free = b.map free → a = b
  | [], [], _ => rfl
  | [], _ :: _, h => by simp at h
  | _ :: _, [], h => by simp at h
  | x :: a, y :: b, h => by
    simp only [List.map_cons, List.cons.injEq] at h
    rw [free_injective h.1, map_free_injective h.2]

/-! ### `freshList` -/

omit [DecidableEq U] in
theorem freshList_cons (c : Nat) (s : UNT U) (r : List (UNT U)) :
    freshList c (s :: r) = ((freshList (c + 1) r).1, (s.1, (s.2, c + 1)) :: (freshList (c + 1) r).2) := rfl

omit [DecidableEq U] in
theorem freshList_fst : ∀ (v : List (UNT U)) (c : Nat), (freshList c v).1 = c + v.length
  | [], c => rfl
  | s :: r, c => by rw [freshList_cons]; simp only [freshList_fst r (c + 1), List.length_cons]; omega

omit [DecidableEq U] in
theorem freshList_length : ∀ (v : List (UNT U)) (c : Nat), (freshList c v).2.length = v.length
  | [], c => rfl
  | s :: r, c => by rw [freshList_cons]; simp only [List.length_cons, freshList_length r (c + 1)]

omit [DecidableEq U] in
theorem freshList_er : ∀ (v : List (UNT U)) (c : Nat), (freshList c v).2.map er = v
  | [], c => rfl
  | s :: r, c => by rw [freshList_cons]; simp only [List.map_cons, freshList_er r (c + 1)]; rfl

omit [DecidableEq U] in
theorem freshList_idx : ∀ (v : List (UNT U)) (c : Nat), ∀ x ∈ (freshList c v).2, c < idx x ∧ idx x ≤ c + v.length
  | [], c, x, h => by cases h
  | s :: r, c, x, h => by
    rw [freshList_cons] at h
    rcases List.mem_cons.mp h with h | h
    · subst h; simp only [idx, List.length_cons]; omega
    · have := freshList_idx r (c + 1) x h
      simp only [List.length_cons]; omega

omit [DecidableEq U] in
theorem freshList_nodup : ∀ (v : List (UNT U)) (c : Nat), (freshList c v).2.Nodup
  | [], c => List.nodup_nil
  | s :: r, c => by
    rw [freshList_cons]
    refine List.nodup_cons.mpr ⟨?_, freshList_nodup r (c + 1)⟩
    intro h
    have := freshList_idx r (c + 1) _ h
    simp only [idx] at this
    omega

omit [DecidableEq U] in
theorem zip_fresh_fst (v : List (UNT U)) (c : Nat) : (v.zip (freshList c v).2).map (·.1) = v := by
  have := List.map_fst_zip (l₁ := v) (l₂ := (freshList c v).2) (by rw [freshList_length]; exact Nat.le_refl _)
  simpa using this

omit [DecidableEq U] in
theorem zip_fresh_snd (v : List (UNT U)) (c : Nat) : (v.zip (freshList c v).2).map (·.2) = (freshList c v).2 := by
  have := List.map_snd_zip (l₁ := v) (l₂ := (freshList c v).2) (by rw [freshList_length]; exact Nat.le_refl _)
  simpa using this

omit [DecidableEq U] in
theorem zip_fresh_ok (v : List (UNT U)) (c : Nat) : ∀ e ∈ v.zip (freshList c v).2, er e.2 = e.1 := by
  have h := freshList_er v c
  generalize (freshList c v).2 = m at h
  induction v generalizing m with
  | nil => intro e he; simp at he
  | cons a r ih =>
    cases m with
    | nil => intro e he; simp at he
    | cons b m =>
      simp only [List.map_cons, List.cons.injEq] at h
      intro e he
      simp only [List.zip_cons_cons, List.mem_cons] at he
      rcases he with he | he
      · subst he; exact h.1
      · exact ih m h.2 e he

/-! ### rows of the tables -/

/-- `rules[Sp][P].append(v)` on the row of `Sp` -/
def stepR {κ : Type} (rs : AList Sym (List (List κ))) (P : Sym) (m : List κ) : AList Sym (List (List κ)) :=
  AList.insert P ((AList.lookup P rs).getD [] ++ [m]) rs

/-- `probabilities[Sp][P][tuple(v)] = w` on the row of `Sp` -/
def stepP {κ : Type} [DecidableEq κ] (ps : AList Sym (AList (List κ) Rat)) (P : Sym) (m : List κ) (w : Rat) :
    AList Sym (AList (List κ) Rat) :=
  AList.insert P (AList.insert m w ((AList.lookup P ps).getD [])) ps

/-- the copied row of the rules of `S` -/
def copyR (pg : PUG U) (S : UNT U) : AList Sym (List (List (UNT (U × Nat)))) :=
  ((AList.lookup S pg.g.rules).getD []).map (fun r => (r.1, r.2.map (fun v => v.map free)))

/-- the copied row of the weights of `S` -/
def copyP (pg : PUG U) (S : UNT U) : AList Sym (AList (List (UNT (U × Nat))) Rat) :=
  ((AList.lookup S pg.tags).getD []).map (fun r => (r.1, r.2.map (fun vp => (vp.1.map free, vp.2))))

/-- the non-terminals on the right-hand sides of `S` -/
def rhsSyms (pg : PUG U) (S : UNT U) : List (UNT U) :=
  ((AList.lookup S pg.g.rules).getD []).flatMap (fun r => r.2.flatMap id)

theorem copyRules_eq (pg : PUG U) (st : FragSt U) (S : UNT U) (X : UNT (U × Nat)) :
    copyRules pg st S X = { st with rules := AList.insert X (copyR pg S) st.rules,
                                    probs := AList.insert X (copyP pg S) st.probs,
                                    toFill := st.toFill ++ rhsSyms pg S } := rfl

theorem addRule_eq (st : FragSt U) (X : UNT (U × Nat)) (P : Sym) (m : List (UNT (U × Nat))) (w : Rat) :
    addRule st X P m w = { st with
      rules := AList.insert X (stepR ((AList.lookup X st.rules).getD []) P m) st.rules,
      probs := AList.insert X (stepP ((AList.lookup X st.probs).getD []) P m w) st.probs } := rfl

/-! ### the renaming followed by `pathLoop` -/

/-- the copies chosen by `pathLoop`: final counter, renamed steps, pending pairs at the end -/
def renPath : Nat → List (UNT U × UNT (U × Nat)) → List (Step U) →
    Option (Nat × List (Step (U × Nat)) × List (UNT U × UNT (U × Nat)))
  | c, pending, [] => some (c, [], pending)
  | _, [], _ :: _ => none
  | c, (cur, Sp) :: rest, (S, P, v) :: w =>
    if cur ≠ S then none else
    match renPath (freshList c v).1 (v.zip (freshList c v).2 ++ rest) w with
    | none => none
    | some r => some (r.1, (Sp, P, (freshList c v).2) :: r.2.1, r.2.2)

/-- the table updates of `pathLoop` -/
def addSteps (nprob : Rat) : Nat → FragSt U → List (Step (U × Nat)) → FragSt U
  | _, st, [] => st
  | i, st, s :: w => addSteps nprob (i + 1) (addRule st s.1 s.2.1 s.2.2 (if i = 0 then nprob else 1)) w

theorem addSteps_counter (nprob : Rat) : ∀ (l : List (Step (U × Nat))) (i : Nat) (st : FragSt U) (c : Nat),
    addSteps nprob i { st with counter := c } l = { addSteps nprob i st l with counter := c }
  | [], _, _, _ => rfl
  | s :: w, i, st, c => by
    simp only [addSteps]
    exact addSteps_counter nprob w (i + 1) (addRule st s.1 s.2.1 s.2.2 (if i = 0 then nprob else 1)) c

theorem pathLoop_eq (nprob : Rat) : ∀ (steps : List (Step U)) (st : FragSt U)
    (pending : List (UNT U × UNT (U × Nat))) (i : Nat),
    pathLoop nprob st pending i steps =
      (renPath st.counter pending steps).map (fun r => ({ addSteps nprob i st r.2.1 with counter := r.1 }, r.2.2))
  | [], st, pending, i => by simp [pathLoop, renPath, addSteps]
  | (S, P, v) :: w, st, [], i => by simp [pathLoop, renPath]
  | (S, P, v) :: w, st, (cur, Sp) :: rest, i => by
    by_cases hc : cur = S
    · subst hc
      have key : pathLoop nprob st ((cur, Sp) :: rest) i ((cur, P, v) :: w) =
          pathLoop nprob { addRule st Sp P (freshList st.counter v).2 (if i = 0 then nprob else 1) with
            counter := (freshList st.counter v).1 } (v.zip (freshList st.counter v).2 ++ rest) (i + 1) w := by
        simp only [pathLoop, ne_eq, not_true_eq_false, if_false]
        rfl
      rw [key, pathLoop_eq nprob w]
      simp only [renPath, ne_eq, not_true_eq_false, if_false]
      cases hr : renPath (freshList st.counter v).1 (v.zip (freshList st.counter v).2 ++ rest) w with
      | none => simp
      | some r =>
        simp only [Option.map_some, addSteps, Option.some.injEq, Prod.mk.injEq, and_true]
        rw [addSteps_counter nprob r.2.1 (i + 1)
          (addRule st Sp P (freshList st.counter v).2 (if i = 0 then nprob else 1)) (freshList st.counter v).1]
    · simp [pathLoop, renPath, hc]

end PS.Sp
