/-
  Lemmas for C18 (model: PS/Model/TaskGen.lean).
  Part 1: draw streams (`pop`, `Sub` = "every stream of d' is a suffix of the stream of d").
  Part 2: `generate_program`.
  Part 3: the example loop, for an evaluator faithful to a semantics.
  Part 4: `generate_task` and sequences of calls.
-/
import PS.Model.TaskGen
import PS.Proofs.Solver
set_option linter.unusedSimpArgs false
set_option linter.unusedSectionVars false
set_option linter.unusedVariables false
namespace PS.C18
open PS
open PS.C11 (Outcome)
open PS.C10 (Ev Faithful)

/-! ## Part 1: streams -/
section streams
variable {κ α : Type} [DecidableEq κ]

/-- every stream of `d'` is what remains of the stream of `d` after some draws -/
def Sub (d' d : AList κ (List α)) : Prop := ∀ k, draws k d' <:+ draws k d

theorem Sub.refl (d : AList κ (List α)) : Sub d d := fun _ => List.suffix_refl _

theorem Sub.trans {a b c : AList κ (List α)} (h1 : Sub a b) (h2 : Sub b c) : Sub a c :=
  fun k => (h1 k).trans (h2 k)

theorem Sub.mem {d' d : AList κ (List α)} (h : Sub d' d) {k : κ} {x : α} (hx : x ∈ draws k d') :
    x ∈ draws k d := (h k).subset hx

theorem draws_insert (k k' : κ) (v : List α) (d : AList κ (List α)) :
    draws k' (AList.insert k v d) = if k' = k then v else draws k' d := by
  unfold draws
  rw [AList.lookup_insert]
  split <;> rfl

theorem Sub.insert_suffix {d : AList κ (List α)} {k : κ} {v : List α} (h : v <:+ draws k d) :
    Sub (AList.insert k v d) d := by
  intro k'
  rw [draws_insert]
  split
  · rename_i hk; subst hk; exact h
  · exact List.suffix_refl _

theorem pop_spec {k : κ} {d d' : AList κ (List α)} {x : α} (h : pop k d = some (x, d')) :
    draws k d = x :: draws k d' ∧ Sub d' d := by
  unfold pop at h
  split at h
  · rename_i y r hl
    simp only [Option.some.injEq, Prod.mk.injEq] at h
    obtain ⟨rfl, rfl⟩ := h
    have h1 : draws k d = y :: r := by unfold draws; rw [hl]; rfl
    refine ⟨?_, ?_⟩
    · rw [h1, draws_insert]; simp
    · apply Sub.insert_suffix; rw [h1]; exact List.suffix_cons _ _
  · cases h

theorem pop_mem {k : κ} {d d' : AList κ (List α)} {x : α} (h : pop k d = some (x, d')) :
    x ∈ draws k d := by
  rw [(pop_spec h).1]; exact List.mem_cons_self

end streams

variable {T A P I V E St : Type}

theorem sampleInput_spec [DecidableEq A] : ∀ (as : List A) (d d' : AList A (List I)) (xs : List I),
    sampleInput as d = some (xs, d') →
    xs.length = as.length ∧ (∀ ax ∈ List.zip as xs, ax.2 ∈ draws ax.1 d) ∧ Sub d' d := by
  intro as
  induction as with
  | nil =>
    intro d d' xs h
    simp only [sampleInput, Option.some.injEq, Prod.mk.injEq] at h
    obtain ⟨rfl, rfl⟩ := h
    exact ⟨rfl, by simp, Sub.refl _⟩
  | cons a as ih =>
    intro d d' xs h
    unfold sampleInput at h
    cases hp : pop a d with
    | none => simp [hp] at h
    | some r =>
      obtain ⟨x, d1⟩ := r
      simp only [hp] at h
      cases hs : sampleInput as d1 with
      | none => simp [hs] at h
      | some r2 =>
        obtain ⟨ys, d2⟩ := r2
        simp only [hs, Option.some.injEq, Prod.mk.injEq] at h
        obtain ⟨rfl, rfl⟩ := h
        obtain ⟨h1, h2, h3⟩ := ih d1 d2 ys hs
        have hsub := (pop_spec hp).2
        refine ⟨by simp [h1], ?_, h3.trans hsub⟩
        intro ax hax
        simp only [List.zip_cons_cons, List.mem_cons] at hax
        rcases hax with rfl | hax
        · exact pop_mem hp
        · exact hsub.mem (h2 ax hax)

/-! ## Part 2: `generate_program` -/
section program
variable [DecidableEq P]

theorem uniqLoop_spec (seen : List P) (mt : Nat) : ∀ (fuel : Nat) (sol : P) (ut : Nat) (ds : List P)
    (sol' : P) (ut' : Nat) (ds' : List P), mt - ut ≤ fuel →
    uniqLoop seen mt fuel sol ut ds = some (sol', ut', ds') →
    (sol' = sol ∨ sol' ∈ ds) ∧ ds' <:+ ds ∧ ut ≤ ut' ∧ (ut' < mt → sol' ∉ seen) := by
  intro fuel
  induction fuel with
  | zero =>
    intro sol ut ds sol' ut' ds' hf h
    simp only [uniqLoop, Option.some.injEq, Prod.mk.injEq] at h
    obtain ⟨rfl, rfl, rfl⟩ := h
    exact ⟨Or.inl rfl, List.suffix_refl _, Nat.le_refl _, fun hlt => by omega⟩
  | succ fuel ih =>
    intro sol ut ds sol' ut' ds' hf h
    unfold uniqLoop at h
    split at h
    · rename_i hc
      cases ds with
      | nil => simp at h
      | cons d ds1 =>
        simp only at h
        obtain ⟨h1, h2, h3, h4⟩ := ih d (ut + 1) ds1 sol' ut' ds' (by omega) h
        refine ⟨Or.inr ?_, h2.trans (List.suffix_cons _ _), by omega, h4⟩
        rcases h1 with rfl | h1
        · exact List.mem_cons_self
        · exact List.mem_cons_of_mem _ h1
    · rename_i hc
      simp only [Option.some.injEq, Prod.mk.injEq] at h
      obtain ⟨rfl, rfl, rfl⟩ := h
      refine ⟨Or.inl rfl, List.suffix_refl _, Nat.le_refl _, fun hlt hin => hc ⟨hin, hlt⟩⟩

theorem varLoop_spec (seen : List P) (mt nargs : Nat) (uv : P → Nat) : ∀ (fuel vu : Nat) (best : P)
    (tries ut : Nat) (ds : List P) (best' : P) (ut' : Nat) (ds' : List P),
    varLoop seen mt nargs uv fuel vu best tries ut ds = some (best', ut', ds') →
    (best' = best ∨ best' ∈ ds) ∧ ds' <:+ ds ∧ ut ≤ ut' ∧ (ut' < mt → best ∉ seen → best' ∉ seen) := by
  intro fuel
  induction fuel with
  | zero =>
    intro vu best tries ut ds best' ut' ds' h
    simp only [varLoop, Option.some.injEq, Prod.mk.injEq] at h
    obtain ⟨rfl, rfl, rfl⟩ := h
    exact ⟨Or.inl rfl, List.suffix_refl _, Nat.le_refl _, fun _ hb => hb⟩
  | succ fuel ih =>
    intro vu best tries ut ds best' ut' ds' h
    unfold varLoop at h
    split at h
    · cases ds with
      | nil => simp at h
      | cons d ds1 =>
        simp only at h
        cases hu : uniqLoop seen mt (mt - ut) d ut ds1 with
        | none => simp [hu] at h
        | some r =>
          obtain ⟨sol, ut1, ds2⟩ := r
          simp only [hu] at h
          obtain ⟨u1, u2, u3, u4⟩ := uniqLoop_spec seen mt (mt - ut) d ut ds1 sol ut1 ds2 (Nat.le_refl _) hu
          have hsol : sol ∈ d :: ds1 := by
            rcases u1 with rfl | u1
            · exact List.mem_cons_self
            · exact List.mem_cons_of_mem _ u1
          have hsuf : ds2 <:+ d :: ds1 := u2.trans (List.suffix_cons _ _)
          split at h
          · obtain ⟨h1, h2, h3, h4⟩ := ih _ _ _ _ _ _ _ _ h
            refine ⟨Or.inr ?_, h2.trans hsuf, by omega, ?_⟩
            · rcases h1 with rfl | h1
              · exact hsol
              · exact hsuf.subset h1
            · intro hlt _; exact h4 hlt (u4 (by omega))
          · obtain ⟨h1, h2, h3, h4⟩ := ih _ _ _ _ _ _ _ _ h
            refine ⟨?_, h2.trans hsuf, by omega, h4⟩
            rcases h1 with rfl | h1
            · exact Or.inl rfl
            · exact Or.inr (hsuf.subset h1)
    · simp only [Option.some.injEq, Prod.mk.injEq] at h
      obtain ⟨rfl, rfl, rfl⟩ := h
      exact ⟨Or.inl rfl, List.suffix_refl _, Nat.le_refl _, fun _ hb => hb⟩

/-- `generate_program` returns one of the draws; when it says `is_unique` the program is not in
    `seen` -/
theorem generateProgram_spec (seen : List P) (mt nargs : Nat) (uv : P → Nat) (ds ds' : List P)
    (best : P) (isU : Bool) (h : generateProgram seen mt nargs uv ds = some ((best, isU), ds')) :
    best ∈ ds ∧ ds' <:+ ds ∧ (isU = true → best ∉ seen) := by
  unfold generateProgram at h
  cases ds with
  | nil => simp at h
  | cons d ds1 =>
    simp only at h
    cases hu : uniqLoop seen mt mt d 0 ds1 with
    | none => simp [hu] at h
    | some r =>
      obtain ⟨sol, ut, ds2⟩ := r
      simp only [hu] at h
      obtain ⟨u1, u2, u3, u4⟩ := uniqLoop_spec seen mt mt d 0 ds1 sol ut ds2 (by omega) hu
      cases hv : varLoop seen mt nargs uv mt (uv sol) sol 0 ut ds2 with
      | none => simp [hv] at h
      | some r2 =>
        obtain ⟨b, ut2, ds3⟩ := r2
        simp only [hv, Option.some.injEq, Prod.mk.injEq] at h
        obtain ⟨⟨rfl, rfl⟩, rfl⟩ := h
        obtain ⟨v1, v2, v3, v4⟩ := varLoop_spec seen mt nargs uv mt (uv sol) sol 0 ut ds2 b ut2 ds3 hv
        have hsol : sol ∈ d :: ds1 := by
          rcases u1 with rfl | u1
          · exact List.mem_cons_self
          · exact List.mem_cons_of_mem _ u1
        have hsuf : ds2 <:+ d :: ds1 := u2.trans (List.suffix_cons _ _)
        refine ⟨?_, v2.trans hsuf, ?_⟩
        · rcases v1 with rfl | v1
          · exact hsol
          · exact hsuf.subset v1
        · intro hu'
          have hlt : ut2 < mt := by simpa using hu'
          exact v4 hlt (u4 (by omega))

end program

/-! ## Part 3: the example loop -/
section exloop
variable [DecidableEq A] [DecidableEq V]

/-- invariant of the example loop -/
structure ExInv (cfg : Cfg T A P V E) (sem : P → List I → Outcome V E) (sol : P) (args : List A)
    (ind0 : AList A (List I)) (samples : Int) (tries : Nat) (exs : List (List I × Option V)) : Prop where
  cons : ∀ ex ∈ exs, okIs (outOpt cfg.skip (sem sol ex.1)) ex.2 = true
  nodup : (exs.map (·.2)).Nodup
  valid : ∀ ex ∈ exs, cfg.valid ex.2 = true
  inputs : ∀ ex ∈ exs, ex.1.length = args.length ∧ ∀ ax ∈ List.zip args ex.1, ax.2 ∈ draws ax.1 ind0
  len_tries : exs.length ≤ tries
  tries_le : tries ≤ cfg.maxTries
  len_samples : (exs.length : Int) ≤ max samples 0

/-- what holds when the example loop ends -/
def ExPost (cfg : Cfg T A P V E) (sem : P → List I → Outcome V E) (Inv : St → Prop) (sol : P)
    (args : List A) (ind0 : AList A (List I)) (samples : Int) : ExRes I V E St A → Prop
  | .done tries exs ind es => Inv es ∧ Sub ind ind0 ∧ ExInv cfg sem sol args ind0 samples tries exs
  | .raised _ ind es => Inv es ∧ Sub ind ind0
  | .stuck => True

theorem exLoop_spec (cfg : Cfg T A P V E) {ev : Ev St P (List I) V E}
    {sem : P → List I → Outcome V E} {Inv : St → Prop} (hF : Faithful ev sem Inv)
    (sol : P) (args : List A) (samples : Int) (ind0 : AList A (List I)) :
    ∀ (fuel tries : Nat) (exs : List (List I × Option V)) (ind : AList A (List I)) (es : St),
      Inv es → Sub ind ind0 → ExInv cfg sem sol args ind0 samples tries exs →
      ExPost cfg sem Inv sol args ind0 samples (exLoop cfg ev sol args samples fuel tries exs ind es) := by
  intro fuel
  induction fuel with
  | zero => intro tries exs ind es hI hS hE; exact ⟨hI, hS, hE⟩
  | succ fuel ih =>
    intro tries exs ind es hI hS hE
    unfold exLoop
    split
    · rename_i hc
      obtain ⟨hc1, hc2, hc3⟩ := hc
      cases hsi : sampleInput args ind with
      | none => exact trivial
      | some r =>
        obtain ⟨inp, ind'⟩ := r
        obtain ⟨i1, i2, i3⟩ := sampleInput_spec args ind ind' inp hsi
        have hS' : Sub ind' ind0 := i3.trans hS
        obtain ⟨e1, e2⟩ := hF.eval_spec es sol inp hI
        simp only [evalInput]
        cases ho : outOpt cfg.skip (ev.eval es sol inp).2 with
        | error e => exact ⟨e1, hS'⟩
        | ok out =>
          simp only
          have hE0 : ExInv cfg sem sol args ind0 samples (tries + 1) exs :=
            { hE with len_tries := Nat.le_succ_of_le hE.len_tries, tries_le := hc3 }
          split
          · rename_i hv
            have hE1 : ExInv cfg sem sol args ind0 samples (tries + 1) (exs ++ [(inp, out)]) := by
              refine ⟨?_, ?_, ?_, ?_, ?_, hc3, ?_⟩
              · intro ex hex
                rcases List.mem_append.mp hex with h | h
                · exact hE.cons ex h
                · simp only [List.mem_singleton] at h; subst h
                  simp only [← e2, ho, okIs, decide_true]
              · rw [List.map_append, List.nodup_append]
                refine ⟨hE.nodup, by simp, ?_⟩
                intro a ha b hb
                simp only [List.map_cons, List.map_nil, List.mem_singleton] at hb
                subst hb
                intro hab; subst hab; exact hv.2 ha
              · intro ex hex
                rcases List.mem_append.mp hex with h | h
                · exact hE.valid ex h
                · simp only [List.mem_singleton] at h; subst h; exact hv.1
              · intro ex hex
                rcases List.mem_append.mp hex with h | h
                · exact hE.inputs ex h
                · simp only [List.mem_singleton] at h; subst h
                  exact ⟨i1, fun ax hax => hS.mem (i2 ax hax)⟩
              · simp only [List.length_append, List.length_singleton]
                have := hE.len_tries; omega
              · simp only [List.length_append, List.length_singleton]
                have : (exs.length : Int) + 1 ≤ samples := by omega
                have h2 : samples ≤ max samples 0 := Int.le_max_left _ _
                push_cast; omega
            split
            · exact ⟨e1, hS', hE1⟩
            · exact ih _ _ _ _ e1 hS' hE1
          · exact ih _ _ _ _ e1 hS' hE0
    · exact ⟨hI, hS, hE⟩

end exloop

/-! ## Part 4: `generate_task` -/
section task
variable [DecidableEq T] [DecidableEq A] [DecidableEq P] [DecidableEq V]

/-- the streams of `s'` are what remains of the streams of `s` -/
structure SSub (s' s : State T A P I St) : Prop where
  progs : Sub s'.progs s.progs
  samples : Sub s'.samples s.samples
  inputs : Sub s'.inputs s.inputs

theorem SSub.refl (s : State T A P I St) : SSub s s := ⟨Sub.refl _, Sub.refl _, Sub.refl _⟩

theorem SSub.trans {a b c : State T A P I St} (h1 : SSub a b) (h2 : SSub b c) : SSub a c :=
  ⟨h1.progs.trans h2.progs, h1.samples.trans h2.samples, h1.inputs.trans h2.inputs⟩

/-- everything the property says about a task returned from state `s` (streams and `seen` of `s`) -/
structure TaskOK (cfg : Cfg T A P V E) (sem : P → List I → Outcome V E)
    (seen : List P) (progs : AList T (List P)) (samples : AList T (List Int))
    (inputs : AList A (List I)) (t : GTask T P I V) : Prop where
  consistent : Consistent cfg.skip sem t
  member : Member progs t
  inputs : InputsOK cfg.args inputs t
  distinct : Distinct cfg.valid t
  count : ∃ n ∈ draws t.typeRequest samples, (t.examples.length : Int) = max n 0
  tries : t.examples.length ≤ t.tries ∧ t.tries ≤ cfg.maxTries
  unique : t.unique = true → t.solution ∉ seen

theorem TaskOK.mono {cfg : Cfg T A P V E} {sem : P → List I → Outcome V E} {seen : List P}
    {p p' : AList T (List P)} {m m' : AList T (List Int)} {i i' : AList A (List I)} {t : GTask T P I V}
    (h : TaskOK cfg sem seen p' m' i' t) (hp : Sub p' p) (hm : Sub m' m) (hi : Sub i' i) :
    TaskOK cfg sem seen p m i t := by
  refine ⟨h.consistent, hp.mem h.member, ?_, h.distinct, ?_, h.tries, h.unique⟩
  · intro ex hex
    exact ⟨(h.inputs ex hex).1, fun ax hax => hi.mem ((h.inputs ex hex).2 ax hax)⟩
  · obtain ⟨n, hn, he⟩ := h.count
    exact ⟨n, hm.mem hn, he⟩

/-- how `seen` evolves over one returned task -/
def seenStep (cfg : Cfg T A P V E) (seen : List P) (t : GTask T P I V) : List P :=
  if cfg.uniques && t.unique then setAdd t.solution seen else seen

/-- what holds after a call (or an iteration) started in state `s` -/
def OutPost (cfg : Cfg T A P V E) (sem : P → List I → Outcome V E) (Inv : St → Prop)
    (s : State T A P I St) : Out T A P I V E St → Prop
  | .task t s' => TaskOK cfg sem s.seen s.progs s.samples s.inputs t ∧ Inv s'.es ∧ SSub s' s ∧
                  s'.seen = seenStep cfg s.seen t
  | .raised _ s' => Inv s'.es ∧ SSub s' s ∧ s'.seen = s.seen
  | .stuck => True

def IterPost (cfg : Cfg T A P V E) (sem : P → List I → Outcome V E) (Inv : St → Prop)
    (s : State T A P I St) : Iter T A P I V E St → Prop
  | .out o => OutPost cfg sem Inv s o
  | .retry s' => Inv s'.es ∧ SSub s' s ∧ s'.seen = s.seen ∧ s'.types.length < s.types.length

theorem typeLoop_length (failed : List T) (mt : Nat) : ∀ (fuel : Nat) (tr : T) (i : Nat) (ts : List T)
    (tr' : T) (ts' : List T), typeLoop failed mt fuel tr i ts = some (tr', ts') → ts'.length ≤ ts.length := by
  intro fuel
  induction fuel with
  | zero =>
    intro tr i ts tr' ts' h
    simp only [typeLoop, Option.some.injEq, Prod.mk.injEq] at h
    obtain ⟨_, rfl⟩ := h; exact Nat.le_refl _
  | succ fuel ih =>
    intro tr i ts tr' ts' h
    unfold typeLoop at h
    split at h
    · cases ts with
      | nil => simp at h
      | cons t ts1 =>
        simp only at h
        have := ih _ _ _ _ _ h
        simp only [List.length_cons]; omega
    · simp only [Option.some.injEq, Prod.mk.injEq] at h
      obtain ⟨_, rfl⟩ := h; exact Nat.le_refl _

theorem generateTypeRequest_length (failed : List T) (mt : Nat) (ts ts' : List T) (tr : T)
    (h : generateTypeRequest failed mt ts = some (tr, ts')) : ts'.length < ts.length := by
  unfold generateTypeRequest at h
  cases ts with
  | nil => simp at h
  | cons t ts1 =>
    simp only at h
    have := typeLoop_length failed mt _ _ _ _ _ _ h
    simp only [List.length_cons]; omega

theorem iteration_spec (cfg : Cfg T A P V E) {ev : Ev St P (List I) V E}
    {sem : P → List I → Outcome V E} {Inv : St → Prop} (hF : Faithful ev sem Inv)
    (s : State T A P I St) (hI : Inv s.es) : IterPost cfg sem Inv s (iteration cfg ev s) := by
  unfold iteration
  cases hg : generateTypeRequest s.failed cfg.maxTries s.types with
  | none => exact trivial
  | some r =>
    obtain ⟨tr, ts⟩ := r
    have hlen := generateTypeRequest_length _ _ _ _ _ hg
    simp only
    cases hl : AList.lookup tr s.progs with
    | none => exact ⟨hI, ⟨Sub.refl _, Sub.refl _, Sub.refl _⟩, rfl⟩
    | some ds =>
      simp only
      cases hgp : generateProgram s.seen cfg.maxTries (cfg.args tr).length cfg.usedVars ds with
      | none => exact trivial
      | some r2 =>
        obtain ⟨⟨sol, isU⟩, ds'⟩ := r2
        obtain ⟨g1, g2, g3⟩ := generateProgram_spec _ _ _ _ _ _ _ _ hgp
        have hds : draws tr s.progs = ds := by unfold draws; rw [hl]; rfl
        simp only
        cases hp : pop tr s.samples with
        | none => exact trivial
        | some r3 =>
          obtain ⟨samples, smp'⟩ := r3
          obtain ⟨p1, p2⟩ := pop_spec hp
          have hprogs : Sub (AList.insert tr ds' s.progs) s.progs :=
            Sub.insert_suffix (by rw [hds]; exact g2)
          simp only
          have hE0 : ExInv cfg sem sol (cfg.args tr) s.inputs samples 0 [] :=
            ⟨by simp, by simp, by simp, by simp, Nat.le_refl _, Nat.zero_le _, by simp [Int.le_max_right]⟩
          have hex := exLoop_spec cfg hF sol (cfg.args tr) samples s.inputs cfg.maxTries 0 [] s.inputs s.es
            hI (Sub.refl _) hE0
          cases hx : exLoop cfg ev sol (cfg.args tr) samples cfg.maxTries 0 [] s.inputs s.es with
          | stuck => exact trivial
          | raised e ind es =>
            rw [hx] at hex
            exact ⟨hex.1, ⟨hprogs, p2, hex.2⟩, rfl⟩
          | done tries exs ind es =>
            rw [hx] at hex
            obtain ⟨x1, x2, x3⟩ := hex
            simp only
            split
            · exact ⟨x1, ⟨hprogs, p2, x2⟩, rfl, hlen⟩
            · rename_i hnlt
              refine ⟨?_, x1, ⟨hprogs, p2, x2⟩, rfl⟩
              refine ⟨x3.cons, ?_, x3.inputs, ⟨x3.nodup, x3.valid⟩, ?_, ⟨x3.len_tries, x3.tries_le⟩, g3⟩
              · show sol ∈ draws tr s.progs
                rw [hds]; exact g1
              · refine ⟨samples, by rw [p1]; exact List.mem_cons_self, ?_⟩
                have h1 := x3.len_samples
                show (exs.length : Int) = max samples 0
                have h2 : samples ≤ (exs.length : Int) := by omega
                have h3 : (0 : Int) ≤ exs.length := Int.natCast_nonneg _
                omega

theorem taskLoop_spec (cfg : Cfg T A P V E) {ev : Ev St P (List I) V E}
    {sem : P → List I → Outcome V E} {Inv : St → Prop} (hF : Faithful ev sem Inv) :
    ∀ (fuel : Nat) (s : State T A P I St), Inv s.es → OutPost cfg sem Inv s (taskLoop cfg ev fuel s) := by
  intro fuel
  induction fuel with
  | zero => intro s _; exact trivial
  | succ fuel ih =>
    intro s hI
    unfold taskLoop
    have hit := iteration_spec cfg hF s hI
    cases hi : iteration cfg ev s with
    | out o => rw [hi] at hit; exact hit
    | retry s' =>
      rw [hi] at hit
      obtain ⟨r1, r2, r3, _⟩ := hit
      have h := ih s' r1
      simp only
      cases ho : taskLoop cfg ev fuel s' with
      | stuck => exact trivial
      | raised e s'' =>
        rw [ho] at h
        exact ⟨h.1, h.2.1.trans r2, h.2.2.trans r3⟩
      | task t s'' =>
        rw [ho] at h
        obtain ⟨t1, t2, t3, t4⟩ := h
        refine ⟨?_, t2, t3.trans r2, by rw [t4, r3]⟩
        rw [r3] at t1
        exact t1.mono r2.progs r2.samples r2.inputs

theorem generateTask_spec (cfg : Cfg T A P V E) {ev : Ev St P (List I) V E}
    {sem : P → List I → Outcome V E} {Inv : St → Prop} (hF : Faithful ev sem Inv)
    (s : State T A P I St) (hI : Inv s.es) : OutPost cfg sem Inv s (generateTask cfg ev s) := by
  unfold generateTask
  have h := taskLoop_spec cfg hF (s.types.length + 1) { s with failed := [] } hI
  cases ho : taskLoop cfg ev (s.types.length + 1) { s with failed := [] } with
  | stuck => exact trivial
  | raised e s' => rw [ho] at h; exact ⟨h.1, ⟨h.2.1.progs, h.2.1.samples, h.2.1.inputs⟩, h.2.2⟩
  | task t s' =>
    rw [ho] at h
    exact ⟨h.1, h.2.1, ⟨h.2.2.1.progs, h.2.2.1.samples, h.2.2.1.inputs⟩, h.2.2.2⟩

/-! ### sequences of calls -/

theorem run_tasks (cfg : Cfg T A P V E) {ev : Ev St P (List I) V E}
    {sem : P → List I → Outcome V E} {Inv : St → Prop} (hF : Faithful ev sem Inv) :
    ∀ (n : Nat) (s : State T A P I St), Inv s.es → ∀ t ∈ tasksOf (run cfg ev n s),
      ∃ seen, TaskOK cfg sem seen s.progs s.samples s.inputs t := by
  intro n
  induction n with
  | zero => intro s _ t ht; simp [run, tasksOf] at ht
  | succ n ih =>
    intro s hI t ht
    have hg := generateTask_spec cfg hF s hI
    unfold run at ht
    cases ho : generateTask cfg ev s with
    | stuck => simp [ho, tasksOf] at ht
    | raised e s' =>
      rw [ho] at hg ht
      simp only [tasksOf] at ht
      obtain ⟨seen, h⟩ := ih s' hg.1 t ht
      exact ⟨seen, h.mono hg.2.1.progs hg.2.1.samples hg.2.1.inputs⟩
    | task t0 s' =>
      rw [ho] at hg ht
      simp only [tasksOf, List.mem_cons] at ht
      rcases ht with rfl | ht
      · exact ⟨s.seen, hg.1⟩
      · obtain ⟨seen, h⟩ := ih s' hg.2.1 t ht
        exact ⟨seen, h.mono hg.2.2.1.progs hg.2.2.1.samples hg.2.2.1.inputs⟩

/-- solutions of the tasks flagged `unique` -/
def uniqueSols (ts : List (GTask T P I V)) : List P := (ts.filter (·.unique)).map (·.solution)

theorem mem_setAdd_self {α : Type} [DecidableEq α] (x : α) (l : List α) : x ∈ setAdd x l := by
  unfold setAdd; split
  · assumption
  · simp

theorem subset_setAdd {α : Type} [DecidableEq α] (x : α) (l : List α) : l ⊆ setAdd x l := by
  unfold setAdd; split
  · exact fun _ h => h
  · exact fun _ h => List.mem_append_left _ h

theorem run_unique (cfg : Cfg T A P V E) {ev : Ev St P (List I) V E}
    {sem : P → List I → Outcome V E} {Inv : St → Prop} (hF : Faithful ev sem Inv)
    (hu : cfg.uniques = true) :
    ∀ (n : Nat) (s : State T A P I St), Inv s.es →
      (uniqueSols (tasksOf (run cfg ev n s))).Nodup ∧
      ∀ p ∈ uniqueSols (tasksOf (run cfg ev n s)), p ∉ s.seen := by
  intro n
  induction n with
  | zero => intro s _; simp [run, tasksOf, uniqueSols]
  | succ n ih =>
    intro s hI
    have hg := generateTask_spec cfg hF s hI
    unfold run
    cases ho : generateTask cfg ev s with
    | stuck => simp [tasksOf, uniqueSols]
    | raised e s' =>
      rw [ho] at hg
      simp only [tasksOf]
      obtain ⟨h1, h2⟩ := ih s' hg.1
      exact ⟨h1, fun p hp => by rw [← hg.2.2]; exact h2 p hp⟩
    | task t s' =>
      rw [ho] at hg
      obtain ⟨g1, g2, g3, g4⟩ := hg
      obtain ⟨h1, h2⟩ := ih s' g2
      simp only [tasksOf]
      cases hq : t.unique with
      | false =>
        have hs : s'.seen = s.seen := by rw [g4]; simp [seenStep, hq]
        have he : uniqueSols (t :: tasksOf (run cfg ev n s')) = uniqueSols (tasksOf (run cfg ev n s')) := by
          simp [uniqueSols, List.filter_cons, hq]
        rw [he]
        exact ⟨h1, fun p hp => by rw [← hs]; exact h2 p hp⟩
      | true =>
        have hs : s'.seen = setAdd t.solution s.seen := by rw [g4]; simp [seenStep, hq, hu]
        have he : uniqueSols (t :: tasksOf (run cfg ev n s')) =
            t.solution :: uniqueSols (tasksOf (run cfg ev n s')) := by
          simp [uniqueSols, List.filter_cons, hq]
        rw [he]
        refine ⟨List.nodup_cons.mpr ⟨?_, h1⟩, ?_⟩
        · intro hin
          exact h2 _ hin (by rw [hs]; exact mem_setAdd_self _ _)
        · intro p hp
          rcases List.mem_cons.mp hp with rfl | hp
          · exact g1.unique hq
          · intro hin
            exact h2 p hp (by rw [hs]; exact subset_setAdd _ _ hin)

/-! ### the fuel of `while True` never runs out before the type draws do -/

theorem iteration_retry_length (cfg : Cfg T A P V E) (ev : Ev St P (List I) V E)
    (s s' : State T A P I St) (h : iteration cfg ev s = .retry s') :
    s'.types.length < s.types.length := by
  unfold iteration at h
  split at h
  · cases h
  · rename_i tr ts hg
    have hlen := generateTypeRequest_length _ _ _ _ _ hg
    simp only at h
    repeat' split at h
    all_goals (cases h; try exact hlen)

theorem taskLoop_fuel (cfg : Cfg T A P V E) (ev : Ev St P (List I) V E) :
    ∀ (f1 f2 : Nat) (s : State T A P I St), s.types.length < f1 → s.types.length < f2 →
      taskLoop cfg ev f1 s = taskLoop cfg ev f2 s := by
  intro f1
  induction f1 with
  | zero => intro f2 s h1 _; omega
  | succ f1 ih =>
    intro f2 s h1 h2
    cases f2 with
    | zero => omega
    | succ f2 =>
      unfold taskLoop
      cases hi : iteration cfg ev s with
      | out o => rfl
      | retry s' =>
        have := iteration_retry_length cfg ev s s' hi
        exact ih f2 s' (by omega) (by omega)

end task

/-! ## Part 5: the fuel of the bounded loops is exact
  Each bounded `while` is a recursion on a fuel instantiated with `max_tries - counter`.  Any
  fuel at least that large gives the same result: the recursion never stops because of the fuel. -/
section fuel

theorem uniqLoop_fuel [DecidableEq P] (seen : List P) (mt : Nat) : ∀ (f1 f2 : Nat) (sol : P) (ut : Nat)
    (ds : List P), mt - ut ≤ f1 → mt - ut ≤ f2 →
    uniqLoop seen mt f1 sol ut ds = uniqLoop seen mt f2 sol ut ds := by
  intro f1
  induction f1 with
  | zero =>
    intro f2 sol ut ds h1 h2
    cases f2 with
    | zero => rfl
    | succ f2 =>
      have : ¬ (sol ∈ seen ∧ ut < mt) := fun h => by omega
      simp only [uniqLoop, if_neg this]
  | succ f1 ih =>
    intro f2 sol ut ds h1 h2
    cases f2 with
    | zero =>
      have : ¬ (sol ∈ seen ∧ ut < mt) := fun h => by omega
      simp only [uniqLoop, if_neg this]
    | succ f2 =>
      simp only [uniqLoop]
      split
      · cases ds with
        | nil => rfl
        | cons d ds1 => exact ih f2 d (ut + 1) ds1 (by omega) (by omega)
      · rfl

theorem typeLoop_fuel [DecidableEq T] (failed : List T) (mt : Nat) : ∀ (f1 f2 : Nat) (tr : T) (i : Nat)
    (ts : List T), mt + 1 - i ≤ f1 → mt + 1 - i ≤ f2 →
    typeLoop failed mt f1 tr i ts = typeLoop failed mt f2 tr i ts := by
  intro f1
  induction f1 with
  | zero =>
    intro f2 tr i ts h1 h2
    cases f2 with
    | zero => rfl
    | succ f2 =>
      have : ¬ (tr ∈ failed ∧ i ≤ mt) := fun h => by omega
      simp only [typeLoop, if_neg this]
  | succ f1 ih =>
    intro f2 tr i ts h1 h2
    cases f2 with
    | zero =>
      have : ¬ (tr ∈ failed ∧ i ≤ mt) := fun h => by omega
      simp only [typeLoop, if_neg this]
    | succ f2 =>
      simp only [typeLoop]
      split
      · cases ts with
        | nil => rfl
        | cons t ts1 => exact ih f2 t (i + 1) ts1 (by omega) (by omega)
      · rfl

theorem varLoop_fuel [DecidableEq P] (seen : List P) (mt nargs : Nat) (uv : P → Nat) :
    ∀ (f1 f2 vu : Nat) (best : P) (tries ut : Nat) (ds : List P), mt - tries ≤ f1 → mt - tries ≤ f2 →
    varLoop seen mt nargs uv f1 vu best tries ut ds = varLoop seen mt nargs uv f2 vu best tries ut ds := by
  intro f1
  induction f1 with
  | zero =>
    intro f2 vu best tries ut ds h1 h2
    cases f2 with
    | zero => rfl
    | succ f2 =>
      have : ¬ (vu < nargs ∧ tries < mt) := fun h => by omega
      simp only [varLoop, if_neg this]
  | succ f1 ih =>
    intro f2 vu best tries ut ds h1 h2
    cases f2 with
    | zero =>
      have : ¬ (vu < nargs ∧ tries < mt) := fun h => by omega
      simp only [varLoop, if_neg this]
    | succ f2 =>
      simp only [varLoop]
      split
      · cases ds with
        | nil => rfl
        | cons d ds1 =>
          simp only
          cases uniqLoop seen mt (mt - ut) d ut ds1 with
          | none => rfl
          | some r =>
            obtain ⟨sol, ut1, ds2⟩ := r
            simp only
            split
            · exact ih f2 _ _ _ _ _ (by omega) (by omega)
            · exact ih f2 _ _ _ _ _ (by omega) (by omega)
      · rfl

theorem exLoop_fuel [DecidableEq A] [DecidableEq V] (cfg : Cfg T A P V E) (ev : Ev St P (List I) V E)
    (sol : P) (args : List A) (samples : Int) :
    ∀ (f1 f2 tries : Nat) (exs : List (List I × Option V)) (ind : AList A (List I)) (es : St),
      cfg.maxTries - tries ≤ f1 → cfg.maxTries - tries ≤ f2 →
      exLoop cfg ev sol args samples f1 tries exs ind es = exLoop cfg ev sol args samples f2 tries exs ind es := by
  intro f1
  induction f1 with
  | zero =>
    intro f2 tries exs ind es h1 h2
    cases f2 with
    | zero => rfl
    | succ f2 =>
      have : ¬ ((exs.length : Int) < samples ∧ ((cfg.maxTries : Int) - tries) + exs.length ≥ samples
          ∧ tries < cfg.maxTries) := fun h => by omega
      simp only [exLoop, if_neg this]
  | succ f1 ih =>
    intro f2 tries exs ind es h1 h2
    cases f2 with
    | zero =>
      have : ¬ ((exs.length : Int) < samples ∧ ((cfg.maxTries : Int) - tries) + exs.length ≥ samples
          ∧ tries < cfg.maxTries) := fun h => by omega
      simp only [exLoop, if_neg this]
    | succ f2 =>
      simp only [exLoop]
      split
      · cases sampleInput args ind with
        | none => rfl
        | some r =>
          obtain ⟨inp, ind'⟩ := r
          simp only
          cases (evalInput cfg ev es sol inp) with
          | mk es' o =>
            cases o with
            | error e => rfl
            | ok out =>
              simp only
              split
              · split
                · rfl
                · exact ih f2 _ _ _ _ (by omega) (by omega)
              · exact ih f2 _ _ _ _ (by omega) (by omega)
      · rfl

end fuel

/-! ## Part 6: the results do not depend on the state of a faithful evaluator
  Forgetting the evaluator state, a run with any faithful evaluator is the run with the stateless
  evaluator that answers the semantics. -/
section forget
open PS.C10 (pureEv)
variable [DecidableEq T] [DecidableEq A] [DecidableEq P] [DecidableEq V]

def ExRes.forget : ExRes I V E St A → ExRes I V E Unit A
  | .done t e i _ => .done t e i ()
  | .raised e i _ => .raised e i ()
  | .stuck => .stuck

def State.forget (s : State T A P I St) : State T A P I Unit :=
  { seen := s.seen, failed := s.failed, difficulty := s.difficulty, generated := s.generated,
    types := s.types, progs := s.progs, samples := s.samples, inputs := s.inputs, es := () }

def Out.forget : Out T A P I V E St → Out T A P I V E Unit
  | .task t s => .task t s.forget
  | .raised e s => .raised e s.forget
  | .stuck => .stuck

def Iter.forget : Iter T A P I V E St → Iter T A P I V E Unit
  | .out o => .out o.forget
  | .retry s => .retry s.forget

theorem exLoop_forget (cfg : Cfg T A P V E) {ev : Ev St P (List I) V E}
    {sem : P → List I → Outcome V E} {Inv : St → Prop} (hF : Faithful ev sem Inv)
    (sol : P) (args : List A) (samples : Int) :
    ∀ (fuel tries : Nat) (exs : List (List I × Option V)) (ind : AList A (List I)) (es : St), Inv es →
      (exLoop cfg ev sol args samples fuel tries exs ind es).forget =
        exLoop cfg (pureEv sem) sol args samples fuel tries exs ind () := by
  intro fuel
  induction fuel with
  | zero => intro tries exs ind es _; rfl
  | succ fuel ih =>
    intro tries exs ind es hI
    simp only [exLoop]
    split
    · cases sampleInput args ind with
      | none => rfl
      | some r =>
        obtain ⟨inp, ind'⟩ := r
        obtain ⟨e1, e2⟩ := hF.eval_spec es sol inp hI
        simp only [evalInput, e2, PS.C10.pureEv_eval]
        cases outOpt cfg.skip (sem sol inp) with
        | error e => rfl
        | ok out =>
          simp only
          split
          · split
            · rfl
            · exact ih _ _ _ _ e1
          · exact ih _ _ _ _ e1
    · rfl

theorem iteration_forget (cfg : Cfg T A P V E) {ev : Ev St P (List I) V E}
    {sem : P → List I → Outcome V E} {Inv : St → Prop} (hF : Faithful ev sem Inv)
    (s : State T A P I St) (hI : Inv s.es) :
    (iteration cfg ev s).forget = iteration cfg (pureEv sem) s.forget := by
  unfold iteration
  simp only [State.forget]
  cases generateTypeRequest s.failed cfg.maxTries s.types with
  | none => rfl
  | some r =>
    obtain ⟨tr, ts⟩ := r
    simp only
    cases AList.lookup tr s.progs with
    | none => rfl
    | some ds =>
      simp only
      cases generateProgram s.seen cfg.maxTries (cfg.args tr).length cfg.usedVars ds with
      | none => rfl
      | some r2 =>
        obtain ⟨⟨sol, isU⟩, ds'⟩ := r2
        simp only
        cases pop tr s.samples with
        | none => rfl
        | some r3 =>
          obtain ⟨samples, smp'⟩ := r3
          simp only
          rw [← exLoop_forget cfg hF sol (cfg.args tr) samples cfg.maxTries 0 [] s.inputs s.es hI]
          cases exLoop cfg ev sol (cfg.args tr) samples cfg.maxTries 0 [] s.inputs s.es with
          | stuck => rfl
          | raised e ind es => rfl
          | done tries exs ind es =>
            simp only [ExRes.forget]
            split <;> rfl

theorem taskLoop_forget (cfg : Cfg T A P V E) {ev : Ev St P (List I) V E}
    {sem : P → List I → Outcome V E} {Inv : St → Prop} (hF : Faithful ev sem Inv) :
    ∀ (fuel : Nat) (s : State T A P I St), Inv s.es →
      (taskLoop cfg ev fuel s).forget = taskLoop cfg (pureEv sem) fuel s.forget := by
  intro fuel
  induction fuel with
  | zero => intro s _; rfl
  | succ fuel ih =>
    intro s hI
    have hit := iteration_spec cfg hF s hI
    have hf := iteration_forget cfg hF s hI
    simp only [taskLoop]
    cases hi : iteration cfg ev s with
    | out o => rw [hi] at hf; rw [← hf]; rfl
    | retry s' =>
      rw [hi] at hf hit
      rw [← hf]
      exact ih s' hit.1

theorem generateTask_forget (cfg : Cfg T A P V E) {ev : Ev St P (List I) V E}
    {sem : P → List I → Outcome V E} {Inv : St → Prop} (hF : Faithful ev sem Inv)
    (s : State T A P I St) (hI : Inv s.es) :
    (generateTask cfg ev s).forget = generateTask cfg (pureEv sem) s.forget :=
  taskLoop_forget cfg hF (s.types.length + 1) { s with failed := [] } hI

theorem run_forget (cfg : Cfg T A P V E) {ev : Ev St P (List I) V E}
    {sem : P → List I → Outcome V E} {Inv : St → Prop} (hF : Faithful ev sem Inv) :
    ∀ (n : Nat) (s : State T A P I St), Inv s.es →
      (run cfg ev n s).map Out.forget = run cfg (pureEv sem) n s.forget := by
  intro n
  induction n with
  | zero => intro s _; rfl
  | succ n ih =>
    intro s hI
    have hg := generateTask_spec cfg hF s hI
    have hf := generateTask_forget cfg hF s hI
    simp only [run]
    cases ho : generateTask cfg ev s with
    | stuck => rw [ho] at hf; rw [← hf]; rfl
    | raised e s' =>
      rw [ho] at hf hg
      rw [← hf]
      simp only [Out.forget, List.map_cons, ih s' hg.1]
    | task t s' =>
      rw [ho] at hf hg
      rw [← hf]
      simp only [Out.forget, List.map_cons, ih s' hg.2.1]

theorem tasksOf_forget (l : List (Out T A P I V E St)) : tasksOf (l.map Out.forget) = tasksOf l := by
  induction l with
  | nil => rfl
  | cons o r ih => cases o <;> simp [tasksOf, Out.forget, ih]

end forget

end PS.C18
