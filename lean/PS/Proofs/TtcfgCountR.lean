/-
  C13, part 13: `programs()` with the proposed repair C13-F5 (`computeR`: a missing non-terminal
  that is not the end marker counts 0) IS THE SIZE OF THE LANGUAGE - for EVERY table whose rows are
  dicts and in which the end-marker type occurs neither as a non-terminal nor as an argument slot;
  no closedness certificate, no hypothesis on `clean()`.
  Same invariant as PS/Proofs/TtcfgCountB.lean (end-state dictionaries = weighted multisets of
  the enumeration `langT`), without the outcome sets.
-/
import PS.Proofs.TtcfgCountC
import PS.Proofs.TtcfgCleanLang
namespace PS.T
open PS PS.G

variable {S T : Type} [DecidableEq S] [DecidableEq T]

/-- no argument slot of a rule has the end-marker type (decidable) -/
def noUnknownArg (G : TT S T) : Bool :=
  G.rules.all (fun e => e.2.all (fun r => r.2.1.all (fun a => decide (a.1 ≠ Ty.unknown))))

/-- rows are dicts (decidable form of `RowsNodupT`) -/
def rowsNodup (G : TT S T) : Bool := G.rules.all (fun e => decide ((AList.keys e.2).Nodup))

section InvR
variable (G : TT S T)

/-- what is known of the recursive calls at recursion depth `k` -/
structure RecSpecR (rec : NT S T → Option (AList T Nat)) (k : Nat) : Prop where
  marker : ∀ nt d, rec nt = some d → nt.1 = Ty.unknown → d = [(nt.2.2, 1)]
  key : ∀ nt d, rec nt = some d → nt.1 ≠ Ty.unknown →
    (∀ F : T → Nat, W d F = SumL (langT G k (nt.1, nt.2.1) nt.2.2) F) ∧
    (∀ t w, run G.rule? t (nt.1, nt.2.1) nt.2.2 = some w → (t, w) ∈ langT G k (nt.1, nt.2.1) nt.2.2)

variable {G}

theorem stepLocalR_spec (rec : NT S T → Option (AList T Nat)) (k : Nat) (R : RecSpecR G rec k)
    (base : Ty × S) (hb : base.1 ≠ Ty.unknown) :
    ∀ (loc acc r : AList T Nat), stepLocal rec base loc acc = some r →
      (∀ e ∈ loc, ∃ sub, rec (base.1, (base.2, e.1)) = some sub) ∧
      (∀ F : T → Nat, W r F = W acc F + W loc (fun v => SumL (langT G k base v) F))
  | [], acc, r, h => by
    simp only [stepLocal, Option.some.injEq] at h
    subst h
    exact ⟨(by intro e he; cases he), (by intro F; simp)⟩
  | (v, cnt) :: rest, acc, r, h => by
    rw [stepLocal] at h
    cases hsub : rec (base.1, (base.2, v)) with
    | none => simp [hsub] at h
    | some sub =>
      simp only [hsub] at h
      obtain ⟨hk2', _⟩ := R.key _ sub hsub hb
      have hk2 : ∀ F : T → Nat, W sub F = SumL (langT G k base v) F := hk2'
      obtain ⟨ih1, ih3⟩ := stepLocalR_spec rec k R base hb rest (addScaled cnt sub acc) r h
      refine ⟨?_, ?_⟩
      · intro e he
        rcases List.mem_cons.mp he with e1 | hm
        · subst e1; exact ⟨sub, hsub⟩
        · exact ih1 e hm
      · intro F
        rw [ih3 F, W_addScaled, W_cons, hk2 F]
        simp only
        omega

theorem chainLocalR_spec (rec : NT S T → Option (AList T Nat)) (k : Nat) (R : RecSpecR G rec k) (st : T) :
    ∀ (info pre : List (Ty × S)) (loc loc' : AList T Nat),
      (∀ b ∈ info, b.1 ≠ Ty.unknown) →
      (∀ F : T → Nat, W loc F = SumL (seqsT (langT G k) pre st) F) →
      (∀ kids v, runList G.rule? kids pre st = some v → (kids, v) ∈ seqsT (langT G k) pre st) →
      chainLocal rec info loc = some loc' →
      (∀ F : T → Nat, W loc' F = SumL (seqsT (langT G k) (pre ++ info) st) F) ∧
      (∀ kids w, runList G.rule? kids (pre ++ info) st = some w → (kids, w) ∈ seqsT (langT G k) (pre ++ info) st)
  | [], pre, loc, loc', _, hW, hC, h => by
    simp only [chainLocal, Option.some.injEq] at h
    subst h
    simp only [List.append_nil]
    exact ⟨hW, hC⟩
  | base :: info, pre, loc, loc', hinfo, hW, hC, h => by
    have hb : base.1 ≠ Ty.unknown := hinfo base (List.mem_cons_self ..)
    rw [chainLocal] at h
    cases hnl : stepLocal rec base loc [] with
    | none => simp [hnl] at h
    | some nl =>
      simp only [hnl] at h
      obtain ⟨s1, s3⟩ := stepLocalR_spec rec k R base hb loc [] nl hnl
      have hWnl : ∀ F : T → Nat, W nl F = SumL (seqsT (langT G k) (pre ++ [base]) st) F := by
        intro F
        rw [s3 F, W_nil, Nat.zero_add, SumL_seqsT_snoc, ← hW]
      have hCnl : ∀ kids v, runList G.rule? kids (pre ++ [base]) st = some v →
          (kids, v) ∈ seqsT (langT G k) (pre ++ [base]) st := by
        intro kids w hr
        obtain ⟨kp, kl, v, hk, hp, hl⟩ := runList_snoc G.rule? base pre kids st w hr
        have hmem := hC kp v hp
        have hpos := SumL_pos_of_mem _ (kp, v) hmem
        rw [← hW] at hpos
        obtain ⟨e, he, hev⟩ := exists_key_of_W_pos v loc hpos
        obtain ⟨sub, hsub⟩ := s1 e he
        rw [hev] at hsub
        have hlast := (R.key _ sub hsub hb).2 kl w hl
        rw [hk, mem_seqsT]
        exact relList_snoc _ base kl w pre kp st v ((mem_seqsT _ _ _ _ _).mp hmem) hlast
      have := chainLocalR_spec rec k R st info (pre ++ [base]) nl loc'
        (fun b hb' => hinfo b (List.mem_cons_of_mem _ hb')) hWnl hCnl h
      simpa [List.append_assoc] using this

theorem rowCountsR_spec (rec : NT S T → Option (AList T Nat)) (k : Nat) (R : RecSpecR G rec k) (state : NT S T) :
    ∀ (rs : Row S T) (out out' : AList T Nat), (∀ r ∈ rs, ∀ a ∈ r.2.1, a.1 ≠ Ty.unknown) →
      rowCounts rec state rs out = some out' →
      (∀ F : T → Nat, W out' F = W out F + (rs.map (fun r => SumL (seqsT (langT G k) r.2.1 r.2.2) F)).sum) ∧
      (∀ r ∈ rs, ∀ kids w, runList G.rule? kids r.2.1 r.2.2 = some w → (kids, w) ∈ seqsT (langT G k) r.2.1 r.2.2)
  | [], out, out', _, h => by
    simp only [rowCounts, Option.some.injEq] at h
    subst h
    exact ⟨(by intro F; simp), (by intro r hr; cases hr)⟩
  | r :: rs, out, out', hargs, h => by
    rw [rowCounts] at h
    obtain ⟨P, args, st⟩ := r
    have hargs0 : ∀ a ∈ args, a.1 ≠ Ty.unknown := hargs (P, (args, st)) (List.mem_cons_self ..)
    simp only at h
    have rule_ok : ∀ loc', (match rec (deriveWith [] state args st).2 with
          | none => none
          | some loc => chainLocal rec (deriveWith [] state args st).1 loc) = some loc' →
        (∀ F : T → Nat, W loc' F = SumL (seqsT (langT G k) args st) F) ∧
        (∀ kids w, runList G.rule? kids args st = some w → (kids, w) ∈ seqsT (langT G k) args st) := by
      intro loc' hl
      cases args with
      | nil =>
        simp only [deriveWith, List.nil_append] at hl
        cases hrec : rec (Ty.unknown, (state.2.1, st)) with
        | none => simp [hrec] at hl
        | some loc =>
          simp only [hrec, chainLocal, Option.some.injEq] at hl
          subst hl
          have := R.marker _ loc hrec rfl
          simp only at this
          subst this
          refine ⟨?_, ?_⟩
          · intro F; simp [W, seqsT, SumL]
          · intro kids w hrun
            cases kids with
            | nil => simp only [runList, Option.some.injEq] at hrun; subst hrun; simp [seqsT]
            | cons k ks => simp [runList] at hrun
      | cons a as =>
        simp only [deriveWith, List.append_nil] at hl
        have ha : a.1 ≠ Ty.unknown := hargs0 a (List.mem_cons_self ..)
        cases hrec : rec (a.1, (a.2, st)) with
        | none => simp [hrec] at hl
        | some loc =>
          simp only [hrec] at hl
          obtain ⟨k2, k3⟩ := R.key _ loc hrec ha
          have hW1 : ∀ F : T → Nat, W loc F = SumL (seqsT (langT G k) [a] st) F := by
            intro F
            rw [k2 F]
            simp only [seqsT]
            rw [SumL_flatMap]
            simp [SumL]
          have hC1 : ∀ kids v, runList G.rule? kids [a] st = some v → (kids, v) ∈ seqsT (langT G k) [a] st := by
            intro kids v hrun
            cases kids with
            | nil => simp [runList] at hrun
            | cons k0 ks =>
              rw [runList] at hrun
              cases h1 : run G.rule? k0 a st with
              | none => simp [h1] at hrun
              | some v1 =>
                simp only [h1] at hrun
                cases ks with
                | nil =>
                  simp only [runList, Option.some.injEq] at hrun
                  subst hrun
                  rw [mem_seqsT]
                  exact ⟨v1, k3 k0 v1 h1, rfl⟩
                | cons k2 ks => simp [runList] at hrun
          obtain ⟨c2, c3⟩ := chainLocalR_spec rec k R st as [a] loc loc'
            (fun b hb => hargs0 b (List.mem_cons_of_mem _ hb)) hW1 hC1 hl
          exact ⟨by simpa using c2, by simpa using c3⟩
    cases hl : (match rec (deriveWith [] state args st).2 with
          | none => none
          | some loc => chainLocal rec (deriveWith [] state args st).1 loc) with
    | none =>
      exfalso
      cases hrec : rec (deriveWith [] state args st).2 with
      | none => simp [hrec] at h
      | some loc =>
        simp only [hrec] at h hl
        simp [hl] at h
    | some loc' =>
      have h' : rowCounts rec state rs (addScaled 1 loc' out) = some out' := by
        cases hrec : rec (deriveWith [] state args st).2 with
        | none => simp [hrec] at hl
        | some loc =>
          simp only [hrec] at h hl
          simp only [hl] at h
          exact h
      obtain ⟨r2, r3⟩ := rule_ok loc' hl
      obtain ⟨i2, i3⟩ := rowCountsR_spec rec k R state rs (addScaled 1 loc' out) out'
        (fun r hr => hargs r (List.mem_cons_of_mem _ hr)) h'
      refine ⟨?_, ?_⟩
      · intro F
        rw [i2 F, W_addScaled, r2 F]
        simp only [List.map_cons, List.sum_cons]
        omega
      · intro r hr kids w hrun
        rcases List.mem_cons.mp hr with e | hm
        · subst e; exact r3 kids w hrun
        · exact i3 r hm kids w hrun

end InvR

/-- **the invariant holds at every recursion depth** -/
theorem computeR_spec (G : TT S T) (hU : noUnknownKey G = true) (hA : noUnknownArg G = true) :
    ∀ k : Nat, RecSpecR G (computeR G k) k
  | 0 => ⟨by intro nt d h; simp [computeR] at h, by intro nt d h; simp [computeR] at h⟩
  | k + 1 => by
    have R := computeR_spec G hU hA k
    constructor
    · intro nt d h hu
      cases hl : AList.lookup nt G.rules with
      | some row =>
        exact absurd hu (noUnknown_inRules G hU nt (contains_of_lookup hl))
      | none =>
        simp only [computeR, hl, hu, if_true, Option.some.injEq] at h
        exact h.symm
    · intro nt d h hu
      have hnt : ((nt.1, (nt.2.1, nt.2.2)) : NT S T) = nt := rfl
      cases hrow : AList.lookup nt G.rules with
      | none =>
        simp only [computeR, hrow, hu, if_false, Option.some.injEq] at h
        subst h
        refine ⟨?_, ?_⟩
        · intro F; simp [langT, hnt, hrow, W, SumL]
        · intro t w hrun
          cases t with
          | node f kids =>
            rw [run] at hrun
            simp only [hnt, TT.rule?, hrow] at hrun
            cases hrun
      | some row =>
        simp only [computeR, hrow] at h
        have hmem := AList.lookup_some_mem hrow
        have hargs : ∀ r ∈ row, ∀ a ∈ r.2.1, a.1 ≠ Ty.unknown := by
          intro r hr a ha
          unfold noUnknownArg at hA
          rw [List.all_eq_true] at hA
          have h1 := hA _ hmem
          rw [List.all_eq_true] at h1
          have h2 := h1 r hr
          rw [List.all_eq_true] at h2
          simpa using h2 a ha
        obtain ⟨s2, s3⟩ := rowCountsR_spec (computeR G k) k R nt row [] d hargs h
        refine ⟨?_, ?_⟩
        · intro F
          rw [s2 F, W_nil, Nat.zero_add]
          simp only [langT, hnt, hrow]
          rw [SumL_flatMap]
          congr 1
          apply List.map_congr_left
          intro r _
          rw [SumL_map (g := fun kw : List Prog × T => (Tree.node r.1 kw.1, kw.2)) (hg := fun _ => rfl)]
        · intro t w hrun
          cases t with
          | node f kids =>
            rw [run] at hrun
            simp only [hnt] at hrun
            cases hr : G.rule? nt f with
            | none => simp [hr] at hrun
            | some val =>
              simp only [hr] at hrun
              have hfr : AList.lookup f row = some val := by
                unfold TT.rule? at hr; rw [hrow] at hr; exact hr
              have hin := AList.lookup_some_mem hfr
              have := s3 (f, val) hin kids w hrun
              simp only [langT, hnt, hrow, List.mem_flatMap, List.mem_map]
              exact ⟨(f, val), hin, (kids, w), this, rfl⟩

omit [DecidableEq S] [DecidableEq T] in
theorem rowsNodupT_of (G : TT S T) (h : rowsNodup G = true) : RowsNodupT G := by
  unfold rowsNodup at h
  rw [List.all_eq_true] at h
  intro e he
  simpa using h e he

/-- **counting, repaired `programs()`**: whenever it returns `n` (fuel = recursion depth), the
    programs of the grammar are listed once each by `langOf`, and there are `n` of them -
    for every table whose rows are dicts and that does not use the end-marker type. -/
theorem programsR_count (G : TT S T) (hr : rowsNodup G = true) (hU : noUnknownKey G = true)
    (hA : noUnknownArg G = true) (fuel n : Nat) (hp : programsR G fuel = some n) :
    (langOf G fuel).Nodup ∧ n = (langOf G fuel).length ∧ ∀ t, t ∈ langOf G fuel ↔ inLang G t = true := by
  have hr' := rowsNodupT_of G hr
  have hpd : (langOf G fuel).Nodup := by
    unfold langOf
    rw [List.nodup_iff_pairwise_ne, List.pairwise_map]
    exact langT_pd G hr' fuel _ _
  have hsound : ∀ t, t ∈ langOf G fuel → inLang G t = true := by
    intro t ht
    unfold langOf at ht
    unfold inLang
    simp only [List.mem_map] at ht
    obtain ⟨tw, htw, rfl⟩ := ht
    have := langT_sound G hr' fuel tw.1 tw.2 _ _ htw
    simp [this]
  have hst : ((G.start.1, (G.start.2.1, G.start.2.2)) : NT S T) = G.start := rfl
  unfold programsR at hp
  by_cases hc : AList.contains G.start G.rules = true
  · simp only [hc, if_true] at hp
    have hsu : G.start.1 ≠ Ty.unknown := noUnknown_inRules G hU G.start hc
    cases hd : computeR G fuel G.start with
    | none => simp [hd] at hp
    | some d =>
      simp only [hd, Option.map_some, Option.some.injEq] at hp
      obtain ⟨k2, k3⟩ := (computeR_spec G hU hA fuel).key G.start d hd hsu
      refine ⟨hpd, ?_, ?_⟩
      · rw [← hp, total_eq_W, k2, SumL_one_length]
        simp [langOf]
      · intro t
        refine ⟨hsound t, ?_⟩
        intro hin
        unfold inLang at hin
        unfold langOf
        simp only [List.mem_map]
        cases hrun : run G.rule? t (G.start.1, G.start.2.1) G.start.2.2 with
        | none => simp [hrun] at hin
        | some w => exact ⟨(t, w), k3 t w hrun, rfl⟩
  · simp only [hc, Bool.false_eq_true, if_false, Option.some.injEq] at hp
    subst hp
    have hn : AList.lookup G.start G.rules = none := by
      unfold AList.contains at hc
      cases hl : AList.lookup G.start G.rules with
      | none => rfl
      | some r => simp [hl] at hc
    have hempty : langOf G fuel = [] := by
      unfold langOf
      cases fuel with
      | zero => simp [langT]
      | succ k => simp [langT, hst, hn]
    refine ⟨hpd, by simp [hempty], ?_⟩
    intro t
    refine ⟨hsound t, ?_⟩
    intro hin
    exfalso
    cases t with
    | node f kids => simp [inLang, run, hst, TT.rule?, hn] at hin

end PS.T
