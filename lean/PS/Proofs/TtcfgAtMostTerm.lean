/-
  C13, part 21: WHEN DOES `TTCFG.at_most_k` TERMINATE?  Sufficient, decidable with a certificate:
  `uncountedRanked dsl name rkT` - the table `rkT` ranks the types so that every primitive that is
  NOT the counted one has all the arguments it takes at a slot of strictly smaller rank than the slot
  (the "uncounted" dependency graph of the types is acyclic).  Then a partial derivation contains at
  most `k` counted nodes and between them only strictly descending chains: the worklist, `clean()`
  and `programs()` all end (ranks below).  `spendAll` (every primitive that takes an argument is
  the counted one) is the special case `rkT = []`.
-/
import PS.Proofs.TtcfgTotal
namespace PS.T
open PS PS.G

theorem mem_suffixesRec : ∀ (t other : Ty) (acc tys : List Ty), Ty.endsWithRec t other acc = some tys →
    (tys, other) ∈ suffixesRec t acc
  | .arrow x y, other, acc, tys, h => by
    rw [Ty.endsWithRec] at h
    rw [suffixesRec]
    by_cases he : Ty.arrow x y = other
    · simp only [he, if_true, Option.some.injEq] at h; subst h; rw [← he]; exact List.mem_cons_self ..
    · simp only [he, if_false] at h
      exact List.mem_cons_of_mem _ (mem_suffixesRec y other (acc ++ [x]) tys h)
  | .base n, other, acc, tys, h => by
    simp only [Ty.endsWithRec] at h
    by_cases he : Ty.base n = other
    · simp only [he, if_true, Option.some.injEq] at h; subst h; rw [← he]; simp [suffixesRec]
    · simp [he] at h
  | .gen n x, other, acc, tys, h => by
    simp only [Ty.endsWithRec] at h
    by_cases he : Ty.gen n x = other
    · simp only [he, if_true, Option.some.injEq] at h; subst h; rw [← he]; simp [suffixesRec]
    · simp [he] at h
  | .unknown, other, acc, tys, h => by
    simp only [Ty.endsWithRec] at h
    by_cases he : Ty.unknown = other
    · simp only [he, if_true, Option.some.injEq] at h; subst h; rw [← he]; simp [suffixesRec]
    · simp [he] at h

/-- an upper bound of all ranks -/
def maxRank (rkT : AList Ty Nat) : Nat := (rkT.map (·.2)).sum

theorem tyRank_le (rkT : AList Ty Nat) (t : Ty) : tyRank rkT t ≤ maxRank rkT := by
  unfold tyRank maxRank
  cases h : AList.lookup t rkT with
  | none => simp
  | some v =>
    simp only [Option.getD_some]
    exact le_sum_of_mem (fun e : Ty × Nat => e.2) rkT (t, v) (AList.lookup_some_mem h)

/-- `spendAll` is the case of the empty ranking -/
theorem uncountedRanked_of_spendAll (dsl : Dsl) (name : String) (h : spendAll dsl name = true) :
    uncountedRanked dsl name [] = true := by
  unfold spendAll at h
  unfold uncountedRanked
  rw [List.all_eq_true] at h ⊢
  intro p hp
  have := h p hp
  simp only [Bool.or_eq_true, List.isEmpty_iff, decide_eq_true_eq] at this ⊢
  rcases this with h1 | h1
  · right
    rw [List.all_eq_true]
    intro s hs
    -- a type without arguments has a single suffix, with no argument
    have : s.1 = [] := by
      cases hty : p.ty with
      | arrow a b => rw [hty] at h1; simp [Ty.arguments] at h1
      | base n => rw [hty] at hs; simp [suffixes, suffixesRec] at hs; rw [hs]
      | gen n x => rw [hty] at hs; simp [suffixes, suffixesRec] at hs; rw [hs]
      | unknown => rw [hty] at hs; simp [suffixes, suffixesRec] at hs; rw [hs]
    rw [this]; rfl
  · exact Or.inl h1

/-! ### the ranks -/

/-- base of the weights: larger than every arity -/
def wBase (dsl : Dsl) : Nat := totalArity dsl + 2
/-- weight of a pending slot -/
def wTy (dsl : Dsl) (rkT : AList Ty Nat) (t : Ty) : Nat := wBase dsl ^ tyRank rkT t
/-- what one occurrence of the counted primitive is worth -/
def wOcc (dsl : Dsl) (rkT : AList Ty Nat) : Nat := totalArity dsl * wBase dsl ^ maxRank rkT + 1

def wSum (dsl : Dsl) (rkT : AList Ty Nat) (l : List (Ty × Ctx)) : Nat := (l.map (fun y => wTy dsl rkT y.1)).sum

/-- rank of a configuration of the worklist -/
def atMostRankC (dsl : Dsl) (rkT : AList Ty Nat) (c : NT Ctx Nat × List (Ty × Ctx)) : Nat :=
  c.1.2.2 * wOcc dsl rkT + wTy dsl rkT c.1.1 + wSum dsl rkT c.2

theorem wBase_pos (dsl : Dsl) : 1 ≤ wBase dsl := by unfold wBase; omega

theorem wTy_pos (dsl : Dsl) (rkT : AList Ty Nat) (t : Ty) : 1 ≤ wTy dsl rkT t :=
  Nat.one_pow (tyRank rkT t) ▸ Nat.pow_le_pow_left (wBase_pos dsl) (tyRank rkT t)

theorem wTy_le (dsl : Dsl) (rkT : AList Ty Nat) (t : Ty) : wTy dsl rkT t ≤ wBase dsl ^ maxRank rkT :=
  Nat.pow_le_pow_right (wBase_pos dsl) (tyRank_le rkT t)

theorem map_zipIdx_fst {α β : Type} (f : α → β) : ∀ (l : List α) (k : Nat),
    (l.zipIdx k).map (fun ai => f ai.1) = l.map f
  | [], _ => rfl
  | a :: l, k => by simp [List.zipIdx_cons, map_zipIdx_fst f l (k + 1)]

theorem wSum_decorate (dsl : Dsl) (rkT : AList Ty Nat) (B : Builder Ctx Nat) (rule : NT Ctx Nat) (P : Sym) (tys : List Ty) :
    wSum dsl rkT (decorate B rule P tys) = (tys.map (wTy dsl rkT)).sum := by
  unfold wSum decorate enumFrom'
  simp only [List.map_map]
  congr 1
  exact map_zipIdx_fst (wTy dsl rkT) tys 0

theorem wSum_append (dsl : Dsl) (rkT : AList Ty Nat) (l l' : List (Ty × Ctx)) :
    wSum dsl rkT (l ++ l') = wSum dsl rkT l + wSum dsl rkT l' := by
  simp [wSum]

theorem wSum_cons (dsl : Dsl) (rkT : AList Ty Nat) (x : Ty × Ctx) (l : List (Ty × Ctx)) :
    wSum dsl rkT (x :: l) = wTy dsl rkT x.1 + wSum dsl rkT l := by
  simp [wSum]

/-! ### the worklist -/

/-- what the certificate says about a candidate of a slot -/
theorem candidate_ranked (dsl : Dsl) (name : String) (rkT : AList Ty Nat) (hur : uncountedRanked dsl name rkT = true)
    (request ty : Ty) (c : Sym × List Ty) (hc : c ∈ candidates dsl.prims request ty) :
    c.2.length ≤ totalArity dsl ∧ (symStr c.1 ≠ name → ∀ a ∈ c.2, tyRank rkT a < tyRank rkT ty) := by
  rcases (mem_candidates _ _ _ _).mp hc with ⟨j, _, ec⟩ | ⟨hp, he⟩
  · rw [ec]; exact ⟨by simp, fun _ a ha => by cases ha⟩
  · refine ⟨Nat.le_trans (endsWith_length _ _ _ he) (le_sum_of_mem (fun p : Sym => p.ty.arguments.length) dsl.prims c.1 hp), ?_⟩
    intro hne a ha
    unfold uncountedRanked at hur
    rw [List.all_eq_true] at hur
    have := hur c.1 hp
    simp only [Bool.or_eq_true, decide_eq_true_eq] at this
    rcases this with h1 | h1
    · exact absurd h1 hne
    · rw [List.all_eq_true] at h1
      have h2 := h1 (c.2, ty) (mem_suffixesRec _ _ _ _ he)
      rw [List.all_eq_true] at h2
      simpa using h2 a ha

theorem atMost_rankC (dsl : Dsl) (request : Ty) (nG : Int) (name : String) (k : Nat) (rkT : AList Ty Nat)
    (hur : uncountedRanked dsl name rkT = true) (rule : NT Ctx Nat) (stack : List (Ty × Ctx)) :
    ∀ p ∈ pushesOf (atMostBuilder dsl nG name k) dsl.prims request rule stack,
      atMostRankC dsl rkT (entryKey p) < atMostRankC dsl rkT (rule, stack) := by
  intro p hp
  obtain ⟨c, hc, ht, hd, hs⟩ := mem_pushesOf _ _ _ _ _ p hp
  obtain ⟨harity, hrk⟩ := candidate_ranked dsl name rkT hur request rule.1 c hc
  -- the rank of the pushed entry
  have hnew : atMostRankC dsl rkT (entryKey p) =
      p.2.1 * wOcc dsl rkT + (c.2.map (wTy dsl rkT)).sum + wSum dsl rkT stack := by
    have h1 : wSum dsl rkT (p.1 :: p.2.2) = (c.2.map (wTy dsl rkT)).sum + wSum dsl rkT stack := by
      rw [← hd, wSum_append, wSum_decorate]
    rw [wSum_cons] at h1
    unfold atMostRankC entryKey
    simp only
    omega
  rw [hnew, hs]
  unfold atMostRankC
  simp only
  change (atMostTransition dsl name rule c.1).2 * _ + _ + _ < _
  change (atMostTransition dsl name rule c.1).1 = true at ht
  unfold atMostTransition at ht ⊢
  by_cases h1 : forbHit dsl rule.2.1.head? c.1 = true
  · simp [h1] at ht
  · simp only [h1, Bool.false_eq_true, if_false] at ht ⊢
    have hB := wBase_pos dsl
    by_cases h2 : symStr c.1 ≠ name
    · rw [if_pos h2] at ht ⊢
      simp only at ⊢
      -- an uncounted symbol: its arguments weigh less than the slot
      have hlt : (c.2.map (wTy dsl rkT)).sum < wTy dsl rkT rule.1 := by
        cases hc2 : c.2 with
        | nil => simp only [List.map_nil, List.sum_nil]; exact wTy_pos dsl rkT rule.1
        | cons a0 as0 =>
          have hr0 := hrk h2 a0 (by rw [hc2]; exact List.mem_cons_self ..)
          obtain ⟨r', hr'⟩ : ∃ r', tyRank rkT rule.1 = r' + 1 := ⟨tyRank rkT rule.1 - 1, by omega⟩
          have hle : ∀ a ∈ c.2, wTy dsl rkT a ≤ wBase dsl ^ r' := by
            intro a ha
            have := hrk h2 a ha
            exact Nat.pow_le_pow_right hB (by omega)
          have hsum := sum_map_le (wTy dsl rkT) (wBase dsl ^ r') c.2 hle
          have hmul := Nat.mul_le_mul_right (wBase dsl ^ r') harity
          rw [← hc2]
          have hw : wTy dsl rkT rule.1 = wBase dsl ^ r' * wBase dsl := by
            unfold wTy; rw [hr', Nat.pow_succ]
          have hY : 1 ≤ wBase dsl ^ r' := Nat.one_pow r' ▸ Nat.pow_le_pow_left hB r'
          rw [hw]
          unfold wBase at hY ⊢
          rw [Nat.mul_add, Nat.mul_comm ((totalArity dsl + 2) ^ r') (totalArity dsl)]
          unfold wBase at hsum hmul
          omega
      omega
    · rw [if_neg h2] at ht ⊢
      simp only [decide_eq_true_eq] at ht ⊢
      -- the counted symbol: one occurrence is worth more than any argument list
      have hle : ∀ a ∈ c.2, wTy dsl rkT a ≤ wBase dsl ^ maxRank rkT := fun a _ => wTy_le dsl rkT a
      have hsum := sum_map_le (wTy dsl rkT) (wBase dsl ^ maxRank rkT) c.2 hle
      have hmul := Nat.mul_le_mul_right (wBase dsl ^ maxRank rkT) harity
      obtain ⟨o, ho⟩ : ∃ o, rule.2.2 = o + 1 := ⟨rule.2.2 - 1, by omega⟩
      rw [ho]
      simp only [Nat.add_sub_cancel, Nat.succ_mul]
      have hw := wTy_pos dsl rkT rule.1
      unfold wOcc
      omega

/-- **`at_most_k`: the worklist ends under `uncountedRanked`** -/
theorem atMost_saturation_terminates_ranked (dsl : Dsl) (request : Ty) (nG : Int) (name : String) (k : Nat)
    (rkT : AList Ty Nat) (hur : uncountedRanked dsl name rkT = true) (stackKey : Bool) (fuel : Nat)
    (hf : satBound (request.arguments.length + dsl.prims.length)
      (k * wOcc dsl rkT + wBase dsl ^ maxRank rkT) ≤ fuel) :
    (saturationTable (atMostBuilder dsl nG name k) dsl.prims request stackKey fuel).isSome = true := by
  apply saturationTable_terminates _ dsl.prims request stackKey (atMostRankC dsl rkT)
    (atMost_rankC dsl request nG name k rkT hur) fuel
  refine Nat.le_trans (satBound_mono _ _ _ ?_) hf
  have := wTy_le dsl rkT request.returns
  simp only [atMostRankC, atMostBuilder, wSum, List.map_nil, List.sum_nil, Nat.add_zero]
  omega

/-! ### `clean()` and `programs()`: the whole constructor -/

/-- rank of a non-terminal for `programs()` -/
def atMostRho (rkT : AList Ty Nat) (slot : Ty × Ctx) (occ : Nat) : Nat := occ * (maxRank rkT + 1) + tyRank rkT slot.1

/-- explicit fuel for `at_most_k` -/
def atMostFuel (dsl : Dsl) (request : Ty) (k : Nat) (rkT : AList Ty Nat) : Nat :=
  2 * satBound (request.arguments.length + dsl.prims.length) (k * wOcc dsl rkT + wBase dsl ^ maxRank rkT) + 1 +
    (k * (maxRank rkT + 1) + maxRank rkT + 2)

theorem mem_decorate_ty (B : Builder Ctx Nat) (rule : NT Ctx Nat) (P : Sym) (tys : List Ty) (y : Ty × Ctx)
    (hy : y ∈ decorate B rule P tys) : y.1 ∈ tys := by
  simp only [decorate, List.mem_map] at hy
  obtain ⟨ia, hia, e⟩ := hy
  obtain ⟨i, a⟩ := ia
  rw [← e]
  exact List.mem_of_getElem? ((mem_enumFrom' _ _ _).mp hia)

theorem atMost_total (dsl : Dsl) (request : Ty) (hd : noUnknownDsl dsl request = true) (nG : Int) (name : String)
    (k : Nat) (rkT : AList Ty Nat) (hur : uncountedRanked dsl name rkT = true) (stackKey : Bool) (fuel : Nat)
    (hf : atMostFuel dsl request k rkT ≤ fuel) :
    ∃ G0 G, saturationTable (atMostBuilder dsl nG name k) dsl.prims request stackKey fuel = some G0 ∧
      clean G0 fuel = .ok G ∧ (programsR G fuel).isSome = true := by
  unfold atMostFuel at hf
  have hstart : atMostRankC dsl rkT ((request.returns, (atMostBuilder dsl nG name k).init), []) ≤
      k * wOcc dsl rkT + wBase dsl ^ maxRank rkT := by
    have := wTy_le dsl rkT request.returns
    simp only [atMostRankC, atMostBuilder, wSum, List.map_nil, List.sum_nil, Nat.add_zero]
    omega
  have hsb := satBound_mono (request.arguments.length + dsl.prims.length) _ _ hstart
  obtain ⟨G0, G, h0, h1, h2⟩ := builder_total (atMostBuilder dsl nG name k) dsl request hd (atMostRankC dsl rkT)
    (atMost_rankC dsl request nG name k rkT hur) (fun occ => occ) (atMostRho rkT)
    (by
      intro rule r hr
      obtain ⟨P, val⟩ := r
      obtain ⟨c, hc, h1, ht, hv⟩ := (mem_rowList _ dsl.prims request rule P val).mp hr
      subst h1
      obtain ⟨_, hrk⟩ := candidate_ranked dsl name rkT hur request rule.1 c hc
      have hst : val.2 = (atMostTransition dsl name rule c.1).2 := by rw [hv]; rfl
      have hargs : val.1 = decorate (atMostBuilder dsl nG name k) rule c.1 c.2 := by rw [hv]
      change (atMostTransition dsl name rule c.1).1 = true at ht
      simp only
      rw [hst, hargs]
      unfold atMostTransition at ht ⊢
      by_cases hf1 : forbHit dsl rule.2.1.head? c.1 = true
      · simp [hf1] at ht
      · simp only [hf1, Bool.false_eq_true, if_false] at ht ⊢
        by_cases h2 : symStr c.1 ≠ name
        · rw [if_pos h2]
          refine ⟨Nat.le_refl _, ?_⟩
          intro a ha
          have := hrk h2 a.1 (mem_decorate_ty _ rule c.1 c.2 a ha)
          simp only [atMostRho]
          omega
        · rw [if_neg h2] at ht ⊢
          simp only [decide_eq_true_eq] at ht
          refine ⟨by simp only; omega, ?_⟩
          intro a _
          have := tyRank_le rkT a.1
          obtain ⟨o, ho⟩ : ∃ o, rule.2.2 = o + 1 := ⟨rule.2.2 - 1, by omega⟩
          simp only [atMostRho]
          rw [ho]
          simp only [Nat.add_sub_cancel, Nat.succ_mul]
          omega)
    (by
      intro slot v v' h
      simp only [atMostRho]
      have := Nat.mul_le_mul_right (maxRank rkT + 1) h
      omega)
    stackKey fuel (by omega)
  refine ⟨G0, G, h0, h1, h2 fuel ?_⟩
  have := tyRank_le rkT request.returns
  simp only [atMostRho, atMostBuilder]
  omega

end PS.T
