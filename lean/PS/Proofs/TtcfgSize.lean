/-
  C13, part 4: the language of the rule-creation step of `TTCFG.size_constraint` is the
  size-bounded language of the statement.  The derivation reads the term in preorder with the
  state `(size, future)`: `size` = nodes read so far, `future` = pending slots including the
  current one (0 at the root).  Invariant: a sub-term `t` entered in `(sz, fu)` is accepted iff
  it is well typed and `sz + size t + (fu - 1) ≤ max`, and is left in `(sz + size t, fu - 1)`.
-/
import PS.Proofs.TtcfgRows
namespace PS.T
open PS PS.G

/-- with `n_gram ∈ {0,1}` every context is empty -/
def CtxOK (n : Int) (ctx : Ctx) : Prop := (0 ≤ n ∧ n < 2) → ctx = []

theorem successor_head (n : Int) (ctx : Ctx) (new : Sym × Nat) (h : CtxOK n ctx) :
    (successor n ctx new).head? = effParentT n new ∧ CtxOK n (successor n ctx new) := by
  unfold successor effParentT CtxOK
  by_cases hneg : n < 0
  · have : ¬ ((↑ctx.length + 1 + 1 > n) ∧ n ≥ 0) := by omega
    simp only [this, if_false, List.head?_cons]
    refine ⟨by simp [hneg], by intro h2; omega⟩
  · by_cases h2 : n ≥ 2
    · refine ⟨?_, by intro h3; omega⟩
      have he : (n ≥ 2 ∨ n < 0) := Or.inl h2
      simp only [he, if_true]
      by_cases hc : (↑ctx.length + 1 + 1 > n) ∧ n ≥ 0
      · simp only [hc, and_self, if_true]
        cases ctx with
        | nil => simp at hc; omega
        | cons p ps => simp [List.dropLast]
      · simp only [hc, if_false, List.head?_cons]
    · have hctx : ctx = [] := h ⟨by omega, by omega⟩
      subst hctx
      have hc : ((↑([] : Ctx).length : Int) + 1 + 1 > n) ∧ n ≥ 0 := by simp; omega
      have he : ¬ (n ≥ 2 ∨ n < 0) := by omega
      simp only [hc, and_self, if_true, he, if_false]
      exact ⟨by simp [List.dropLast], fun _ => by simp [List.dropLast]⟩

/-! ### well-typedness, unfolded -/

theorem wtT_node (dsl : Dsl) (request : Ty) (vis : Sym × Nat → Option (Sym × Nat)) (f : Sym) (kids : List Prog)
    (parent : Option (Sym × Nat)) (ty : Ty) :
    wtT dsl request vis (.node f kids) parent ty = true ↔
      forbHit dsl parent f = false ∧
      ∃ c ∈ candidates dsl.prims request ty, c.1 = f ∧ wtTList dsl request vis kids f 0 c.2 = true := by
  rw [wtT, Bool.and_eq_true, List.any_eq_true]
  simp only [Bool.not_eq_true', Bool.and_eq_true, beq_iff_eq]

theorem wtTList_length (dsl : Dsl) (request : Ty) (vis : Sym × Nat → Option (Sym × Nat)) (f : Sym) :
    ∀ (ks : List Prog) (i : Nat) (tys : List Ty), wtTList dsl request vis ks f i tys = true → ks.length = tys.length
  | [], _, [], _ => rfl
  | [], _, _ :: _, h => by simp [wtTList] at h
  | _ :: _, _, [], h => by simp [wtTList] at h
  | k :: ks, i, ty :: tys, h => by
    rw [wtTList, Bool.and_eq_true] at h
    simp [wtTList_length dsl request vis f ks (i + 1) tys h.2]

theorem length_le_sizeList : ∀ ks : List Prog, ks.length ≤ Tree.sizeList ks
  | [] => by simp [Tree.sizeList]
  | k :: ks => by
    have := length_le_sizeList ks
    have hpos : 1 ≤ Tree.size k := by cases k with | node f kids => simp [Tree.size]
    simp [Tree.sizeList]; omega

/-! ### the transition of `size_constraint` in one formula -/

theorem sizeTransition_unified (dsl : Dsl) (maxSize : Nat) (actual : Bool) (ty : Ty) (ctx : Ctx) (sz fu : Nat)
    (P : Sym) (n : Nat)
    (hn : if actual then ((P.ty.endsWith ty).getD []).length = n
          else (P.ty.arguments.length = n ∧ isArrow P.ty = !(n == 0))) :
    ((sizeTransition dsl maxSize actual (ty, (ctx, (sz, fu))) P).1 = true ↔
        forbHit dsl ctx.head? P = false ∧ sz + 1 + n + (fu - 1) ≤ maxSize) ∧
    ((sizeTransition dsl maxSize actual (ty, (ctx, (sz, fu))) P).1 = true →
        (sizeTransition dsl maxSize actual (ty, (ctx, (sz, fu))) P).2 = (sz + 1, fu - 1 + n)) := by
  unfold sizeTransition
  simp only
  cases hf : forbHit dsl ctx.head? P with
  | true => simp
  | false =>
    simp only [Bool.false_eq_true, if_false]
    by_cases hs : sz > maxSize
    · simp only [hs, if_true]
      refine ⟨⟨by simp, by intro h; omega⟩, by simp⟩
    · simp only [hs, if_false]
      cases actual with
      | true =>
        simp only [if_true] at hn ⊢
        rw [hn]
        by_cases h0 : n = 0
        · subst h0
          by_cases hfu : fu > 0
          · simp [hfu]; constructor <;> intro h <;> omega
          · simp [hfu]; have : fu = 0 := by omega
            subst this; simp
        · have hb : (n == 0) = false := by simpa using h0
          simp only [hb, Bool.false_eq_true, if_false]
          by_cases hfu : fu > 0
          · simp [hfu]; refine ⟨by constructor <;> intro h <;> omega, by intro _; omega⟩
          · simp [hfu]; have : fu = 0 := by omega
            subst this; simp; constructor <;> intro h <;> omega
      | false =>
        simp only [Bool.false_eq_true, if_false] at hn ⊢
        obtain ⟨hn1, hn2⟩ := hn
        rw [hn1, hn2]
        by_cases h0 : n = 0
        · subst h0
          by_cases hfu : fu > 0
          · simp [hfu]; constructor <;> intro h <;> omega
          · simp [hfu]; have : fu = 0 := by omega
            subst this; simp
        · have hb : (n == 0) = false := by simpa using h0
          simp only [hb, Bool.not_false, Bool.not_true, Bool.false_eq_true, if_false]
          by_cases hfu : fu > 0
          · simp [hfu]; refine ⟨by constructor <;> intro h <;> omega, by intro _; omega⟩
          · simp [hfu]; have : fu = 0 := by omega
            subst this; simp; constructor <;> intro h <;> omega

/-! ### the main induction -/

/-- the argument slots of `f` from index `i` on -/
def argsFrom (nG : Int) (ctx : Ctx) (f : Sym) (i : Nat) (tys : List Ty) : List (Ty × Ctx) :=
  (tys.zipIdx i).map (fun ai => (ai.1, successor nG ctx (f, ai.2)))

theorem argsFrom_cons (nG : Int) (ctx : Ctx) (f : Sym) (i : Nat) (ty : Ty) (tys : List Ty) :
    argsFrom nG ctx f i (ty :: tys) = (ty, successor nG ctx (f, i)) :: argsFrom nG ctx f (i + 1) tys := by
  simp [argsFrom, List.zipIdx_cons]

theorem decorate_size (dsl : Dsl) (nG : Int) (maxSize : Nat) (actual : Bool) (rule : NT Ctx (Nat × Nat)) (f : Sym)
    (tys : List Ty) :
    decorate (sizeBuilder dsl nG maxSize actual) rule f tys = argsFrom nG rule.2.1 f 0 tys := by
  simp [decorate, sizeBuilder, argsFrom, enumFrom', List.map_map, Function.comp_def]

/-- which slot types occur: every one is a non-function type unless the transition counts the
    arguments actually taken -/
def SlotOK (actual : Bool) (ty : Ty) : Prop := isArrow ty = false ∨ actual = true

theorem candidate_hn (dsl : Dsl) (request ty : Ty) (actual : Bool) (c : Sym × List Ty)
    (hc : c ∈ candidates dsl.prims request ty) (hslot : SlotOK actual ty) :
    if actual then ((c.1.ty.endsWith ty).getD []).length = c.2.length
    else (c.1.ty.arguments.length = c.2.length ∧ isArrow c.1.ty = !(c.2.length == 0)) := by
  have ha := candidate_args dsl.prims request ty c hc
  cases actual with
  | true => simp [ha]
  | false =>
    have hty : isArrow ty = false := by
      rcases hslot with h | h
      · exact h
      · cases h
    have := endsWith_nonarrow c.1.ty ty c.2 hty ha
    simp only [Bool.false_eq_true, if_false]
    rw [this, isArrow_iff_arguments]
    cases c.1.ty.arguments <;> simp

theorem candidate_slots (dsl : Dsl) (request ty : Ty) (actual : Bool) (hyp : actual = true ∨ firstOrder dsl = true)
    (c : Sym × List Ty) (hc : c ∈ candidates dsl.prims request ty) (hslot : SlotOK actual ty) :
    ∀ a ∈ c.2, SlotOK actual a := by
  intro a ha
  rcases hyp with h | h
  · exact Or.inr h
  · rcases (mem_candidates _ _ _ _).mp hc with ⟨i, _, e⟩ | ⟨hp, he⟩
    · rw [e] at ha; cases ha
    · rcases hslot with hty | hact
      · left
        have hargs := endsWith_nonarrow c.1.ty ty c.2 hty he
        unfold firstOrder at h
        rw [List.all_eq_true] at h
        have := h c.1 hp
        rw [List.all_eq_true] at this
        have := this a (by rw [← hargs]; exact ha)
        simpa using this
      · exact Or.inr hact

section Main
variable (dsl : Dsl) (hwf : wfDsl dsl = true) (request : Ty) (nG : Int) (maxSize : Nat) (actual : Bool)
  (hyp : actual = true ∨ firstOrder dsl = true)

/-- tree half of the invariant -/
def SizeTreeInv (t : Prog) : Prop :=
  ∀ (ty : Ty) (ctx : Ctx) (sz fu : Nat) (w : Nat × Nat), CtxOK nG ctx → SlotOK actual ty →
    (run (idealFn (sizeBuilder dsl nG maxSize actual) dsl request) t (ty, ctx) (sz, fu) = some w ↔
      (wtT dsl request (effParentT nG) t ctx.head? ty = true ∧ sz + Tree.size t + (fu - 1) ≤ maxSize ∧
       w = (sz + Tree.size t, fu - 1)))

/-- list half of the invariant -/
def SizeListInv (ks : List Prog) : Prop :=
  ∀ (f : Sym) (ctx : Ctx) (i : Nat) (tys : List Ty) (s fu : Nat) (w : Nat × Nat), CtxOK nG ctx →
    (∀ a ∈ tys, SlotOK actual a) → s + fu ≤ maxSize → tys.length ≤ fu →
    (runList (idealFn (sizeBuilder dsl nG maxSize actual) dsl request) ks (argsFrom nG ctx f i tys) (s, fu) = some w ↔
      (wtTList dsl request (effParentT nG) ks f i tys = true ∧ s + Tree.sizeList ks + (fu - tys.length) ≤ maxSize ∧
       w = (s + Tree.sizeList ks, fu - tys.length)))

include hwf hyp in
theorem size_node (f : Sym) (kids : List Prog)
    (ihl : SizeListInv dsl request nG maxSize actual kids) :
    SizeTreeInv dsl request nG maxSize actual (.node f kids) := by
  intro ty ctx sz fu w hctx hslot
  rw [run, wtT_node]
  simp only [Tree.size]
  constructor
  · intro h
    cases hr : idealFn (sizeBuilder dsl nG maxSize actual) dsl request (ty, (ctx, (sz, fu))) f with
    | none => simp [hr] at h
    | some val =>
      obtain ⟨args, st⟩ := val
      simp only [hr] at h
      obtain ⟨c, hc, hcf, htr, hval⟩ := (idealFn_iff _ dsl hwf request _ f _).mp hr
      simp only at hc
      have hn := candidate_hn dsl request ty actual c hc hslot
      rw [hcf] at hn
      obtain ⟨u1, u2⟩ := sizeTransition_unified dsl maxSize actual ty ctx sz fu f c.2.length hn
      have htr' : (sizeTransition dsl maxSize actual (ty, (ctx, (sz, fu))) f).1 = true := htr
      obtain ⟨hforb, hbound⟩ := u1.mp htr'
      have hst := u2 htr'
      simp only [Prod.mk.injEq] at hval
      obtain ⟨hargs, hst2⟩ := hval
      rw [hargs, decorate_size] at h
      have hst3 : st = (sz + 1, fu - 1 + c.2.length) := by rw [hst2]; exact hst
      rw [hst3] at h
      have := (ihl f ctx 0 c.2 (sz + 1) (fu - 1 + c.2.length) w hctx
        (candidate_slots dsl request ty actual hyp c hc hslot) (by omega) (by omega)).mp h
      obtain ⟨hw1, hw2, hw3⟩ := this
      refine ⟨⟨hforb, c, hc, hcf, hw1⟩, by omega, ?_⟩
      rw [hw3]
      congr 1 <;> omega
  · rintro ⟨⟨hforb, c, hc, hcf, hwl⟩, hbound, hw⟩
    have hlen := wtTList_length dsl request (effParentT nG) f kids 0 c.2 hwl
    have hsz := length_le_sizeList kids
    have hn := candidate_hn dsl request ty actual c hc hslot
    rw [hcf] at hn
    obtain ⟨u1, u2⟩ := sizeTransition_unified dsl maxSize actual ty ctx sz fu f c.2.length hn
    have htr : (sizeTransition dsl maxSize actual (ty, (ctx, (sz, fu))) f).1 = true :=
      u1.mpr ⟨hforb, by omega⟩
    have hst := u2 htr
    have hr : idealFn (sizeBuilder dsl nG maxSize actual) dsl request (ty, (ctx, (sz, fu))) f
        = some (decorate (sizeBuilder dsl nG maxSize actual) (ty, (ctx, (sz, fu))) f c.2,
                ((sizeBuilder dsl nG maxSize actual).transition (ty, (ctx, (sz, fu))) f).2) :=
      (idealFn_iff _ dsl hwf request _ f _).mpr ⟨c, hc, hcf, htr, rfl⟩
    rw [hr]
    simp only
    rw [decorate_size]
    have hst' : ((sizeBuilder dsl nG maxSize actual).transition (ty, (ctx, (sz, fu))) f).2 = (sz + 1, fu - 1 + c.2.length) := hst
    rw [hst']
    apply (ihl f ctx 0 c.2 (sz + 1) (fu - 1 + c.2.length) w hctx
      (candidate_slots dsl request ty actual hyp c hc hslot) (by omega) (by omega)).mpr
    refine ⟨hwl, by omega, ?_⟩
    rw [hw]
    congr 1 <;> omega

theorem size_list_nil : SizeListInv dsl request nG maxSize actual [] := by
  intro f ctx i tys s fu w _ _ hpre hlen
  cases tys with
  | nil =>
    simp only [argsFrom, List.zipIdx_nil, List.map_nil, runList, wtTList, Tree.sizeList, List.length_nil,
      Nat.add_zero, Nat.sub_zero, true_and, Option.some.injEq]
    constructor
    · intro h; exact ⟨hpre, h.symm⟩
    · intro h; exact h.2.symm
  | cons ty tys =>
    rw [argsFrom_cons]
    simp [runList, wtTList]

theorem size_list_cons (k : Prog) (ks : List Prog)
    (iht : SizeTreeInv dsl request nG maxSize actual k)
    (ihl : SizeListInv dsl request nG maxSize actual ks) :
    SizeListInv dsl request nG maxSize actual (k :: ks) := by
  intro f ctx i tys s fu w hctx hslots hpre hlen
  cases tys with
  | nil => simp [argsFrom, runList, wtTList]
  | cons ty tys =>
    rw [argsFrom_cons, runList, wtTList]
    obtain ⟨hhead, hctx'⟩ := successor_head nG ctx (f, i) hctx
    have hk := iht ty (successor nG ctx (f, i)) s fu
    simp only [Tree.sizeList, List.length_cons]
    simp only [List.length_cons] at hlen
    constructor
    · intro h
      cases hr : run (idealFn (sizeBuilder dsl nG maxSize actual) dsl request) k (ty, successor nG ctx (f, i)) (s, fu) with
      | none => simp [hr] at h
      | some v1 =>
        simp only [hr] at h
        obtain ⟨hwk, hbk, hv1⟩ := (hk v1 hctx' (hslots ty (List.mem_cons_self ..))).mp hr
        rw [hhead] at hwk
        rw [hv1] at h
        obtain ⟨hwl, hbl, hw⟩ := (ihl f ctx (i + 1) tys (s + Tree.size k) (fu - 1) w hctx
          (fun a ha => hslots a (List.mem_cons_of_mem _ ha)) (by omega) (by omega)).mp h
        refine ⟨by simp [hwk, hwl], by omega, ?_⟩
        rw [hw]
        congr 1 <;> omega
    · rintro ⟨hwt, hb, hw⟩
      rw [Bool.and_eq_true] at hwt
      obtain ⟨hwk, hwl⟩ := hwt
      have hlen2 := wtTList_length dsl request (effParentT nG) f ks (i + 1) tys hwl
      have hsz := length_le_sizeList ks
      have hr : run (idealFn (sizeBuilder dsl nG maxSize actual) dsl request) k (ty, successor nG ctx (f, i)) (s, fu)
          = some (s + Tree.size k, fu - 1) := by
        apply (hk _ hctx' (hslots ty (List.mem_cons_self ..))).mpr
        rw [hhead]
        exact ⟨hwk, by omega, rfl⟩
      rw [hr]
      simp only
      apply (ihl f ctx (i + 1) tys (s + Tree.size k) (fu - 1) w hctx
        (fun a ha => hslots a (List.mem_cons_of_mem _ ha)) (by omega) (by omega)).mpr
      refine ⟨hwl, by omega, ?_⟩
      rw [hw]
      congr 1 <;> omega

include hwf hyp in
theorem size_inv : ∀ n : Nat,
    (∀ t : Prog, Tree.size t ≤ n → SizeTreeInv dsl request nG maxSize actual t) ∧
    (∀ ks : List Prog, Tree.sizeList ks ≤ n → SizeListInv dsl request nG maxSize actual ks) := by
  intro n
  induction n with
  | zero =>
    constructor
    · intro t ht; cases t with | node f kids => simp [Tree.size] at ht
    · intro ks hks
      cases ks with
      | nil => exact size_list_nil dsl request nG maxSize actual
      | cons k ks => cases k with | node f kids => simp [Tree.sizeList, Tree.size] at hks
  | succ n ih =>
    have node_case : ∀ (f : Sym) (kids : List Prog), Tree.sizeList kids ≤ n →
        SizeTreeInv dsl request nG maxSize actual (.node f kids) :=
      fun f kids hs => size_node dsl hwf request nG maxSize actual hyp f kids (ih.2 kids hs)
    constructor
    · intro t ht
      cases t with
      | node f kids => exact node_case f kids (by simp [Tree.size] at ht; omega)
    · intro ks hks
      cases ks with
      | nil => exact size_list_nil dsl request nG maxSize actual
      | cons k ks =>
        have hpos : 1 ≤ Tree.size k := by cases k with | node f kids => simp [Tree.size]
        have hks' : Tree.sizeList ks ≤ n := by simp [Tree.sizeList] at hks; omega
        refine size_list_cons dsl request nG maxSize actual k ks ?_ (ih.2 ks hks')
        cases k with
        | node f kids => exact node_case f kids (by simp [Tree.sizeList, Tree.size] at hks; omega)

end Main

/-- **the rule-creation step of `size_constraint` generates exactly the size-bounded language**
    (as far as the n-gram shows the parent), for every DSL, request, bound, n-gram width and
    program - when the transition counts the arguments actually taken (`actual`, the proposed
    repair C13-F3) or no primitive takes a function as an argument. -/
theorem size_ideal_lang (dsl : Dsl) (hwf : wfDsl dsl = true) (request : Ty) (nG : Int) (maxSize : Nat) (actual : Bool)
    (hyp : actual = true ∨ firstOrder dsl = true) (t : Prog) :
    (run (idealFn (sizeBuilder dsl nG maxSize actual) dsl request) t (request.returns, []) (0, 0)).isSome
      = SizedVis dsl request nG maxSize t := by
  have h := (size_inv dsl hwf request nG maxSize actual hyp (Tree.size t)).1 t (Nat.le_refl _)
    request.returns [] 0 0
  have hctx : CtxOK nG [] := fun _ => rfl
  have hslot : SlotOK actual request.returns := Or.inl (returns_not_arrow request)
  unfold SizedVis
  cases hr : run (idealFn (sizeBuilder dsl nG maxSize actual) dsl request) t (request.returns, []) (0, 0) with
  | some w =>
    have := (h w hctx hslot).mp hr
    simp only [List.head?_nil] at this
    simp [this.1]
    omega
  | none =>
    simp only [Option.isSome_none]
    symm
    rw [Bool.and_eq_false_iff]
    by_cases hw : wtT dsl request (effParentT nG) t none request.returns = true
    · right
      by_cases hs : Tree.size t ≤ maxSize
      · exfalso
        have := (h (0 + Tree.size t, 0 - 1) hctx hslot).mpr ⟨by simpa using hw, by omega, rfl⟩
        rw [hr] at this; cases this
      · simpa using hs
    · left; simpa using hw

end PS.T
