/-
  C06, part 4: the enumeration `langU` of the grammar built from an automaton lists every tree
  at most once, hence `programs()` is the NUMBER of accepted trees.
-/
import PS.Proofs.UcfgFromDftaCount
namespace PS.U.FD
open PS PS.G PS.U DFTA

variable {Q U V : Type} [DecidableEq Q] [DecidableEq U] [DecidableEq V]
set_option linter.unusedSectionVars false

theorem nodup_flatMap_of {α β : Type} (l : List α) (g : α → List β) (h1 : l.Nodup)
    (h2 : ∀ x ∈ l, (g x).Nodup)
    (h3 : ∀ x ∈ l, ∀ y ∈ l, x ≠ y → ∀ z, z ∈ g x → z ∈ g y → False) : (l.flatMap g).Nodup := by
  unfold List.Nodup
  rw [List.pairwise_flatMap]
  refine ⟨h2, ?_⟩
  refine List.Pairwise.imp_of_mem ?_ h1
  intro a b ha hb hne x hx y hy e
  subst e
  exact h3 a ha b hb hne x hx hy

theorem nodup_map_inj {α β : Type} (l : List α) (g : α → β) (h1 : l.Nodup)
    (h2 : ∀ x ∈ l, ∀ y ∈ l, g x = g y → x = y) : (l.map g).Nodup := by
  unfold List.Nodup
  rw [List.pairwise_map]
  refine List.Pairwise.imp_of_mem ?_ h1
  intro a b ha hb hne e
  exact hne (h2 a ha b hb e)

theorem product_nodup {α : Type} : ∀ (ls : List (List α)), (∀ l ∈ ls, l.Nodup) → (product ls).Nodup
  | [], _ => by simp [product]
  | l :: ls, h => by
    rw [product]
    apply nodup_flatMap_of l _ (h l (by simp))
    · intro x _
      exact nodup_map_inj _ _ (product_nodup ls (fun l' hl' => h l' (by simp [hl']))) (by
        intro a _ b _ e; exact (List.cons.inj e).2)
    · intro x _ y _ hne z hz1 hz2
      obtain ⟨r1, _, e1⟩ := List.mem_map.mp hz1
      obtain ⟨r2, _, e2⟩ := List.mem_map.mp hz2
      rw [← e2] at e1
      exact hne (List.cons.inj e1).1

theorem newArgs_proj {F : Flat Q U V} {A : DFTA Sym Q} (ok : FlatOK F A) (k : UNT V) (f : Sym)
    (as : List Q) : (newArgs F k f as).map F.proj = as.map F.d := by
  unfold newArgs
  rw [List.map_map]
  have : ∀ (i : Nat), (as.zipIdx i).map (F.proj ∘ fun ai => F.child k f ai.2 (F.d ai.1)) = as.map F.d := by
    induction as with
    | nil => intro i; rfl
    | cons a as ih =>
      intro i
      simp only [List.zipIdx_cons, List.map_cons, Function.comp, ok.proj_child]
      rw [← ih (i + 1)]
  exact this 0

theorem newArgs_inj {F : Flat Q U V} {A : DFTA Sym Q} (ok : FlatOK F A) (k : UNT V) (f : Sym)
    (as as' : List Q) (h1 : ∀ a ∈ as, a ∈ A.allStates) (h2 : ∀ a ∈ as', a ∈ A.allStates)
    (e : newArgs F k f as = newArgs F k f as') : as = as' := by
  have := congrArg (List.map F.proj) e
  rw [newArgs_proj ok, newArgs_proj ok] at this
  exact map_eq_of_injOn F.d (fun q => q ∈ A.allStates) (fun x hx y hy => ok.inj x hx y hy) as as' h1 h2 this


section Nodup
variable {F : Flat Q U V} {A : DFTA Sym Q} {G : UCFG V}

/-- children enumerated for the arguments of a rule are read into the argument states -/
theorem runList_of_mem_product (hb : Built F A G) (ok : FlatOK F A) (hd : A.Det) (j : Nat)
    (k : UNT V) (hk : k ∈ AList.keys G.rules) (r : (Sym × List Q) × Q) (hr : r ∈ A.rules)
    (hm : matchesTgt F k r = true) (ks : List Prog)
    (hks : ks ∈ product ((newArgs F k r.1.1 r.1.2).map (fun a => langU G j a))) :
    runList A ks = some r.1.2 := by
  have hcl := hb.closed k hk r hr hm
  obtain ⟨⟨l, as⟩, dst⟩ := r
  have hst := mem_allStates_of_rule A hr
  simp only at hcl hks ⊢
  rw [mem_product_iff, List.forall₂_map_right_iff] at hks
  rw [runList_eq_some_iff]
  unfold newArgs at hks hcl
  rw [List.forall₂_map_right_iff] at hks
  have key : ∀ (ks : List Prog) (as' : List Q) (i : Nat), (∀ a ∈ as', a ∈ A.allStates) →
      (∀ x ∈ (as'.zipIdx i).map (fun ai => F.child k l ai.2 (F.d ai.1)), x ∈ AList.keys G.rules) →
      List.Forall₂ (fun t (aj : Q × Nat) => t ∈ langU G j (F.child k l aj.2 (F.d aj.1))) ks (as'.zipIdx i) →
      List.Forall₂ (fun t q => run A t = some q) ks as' := by
    intro ks as'
    induction as' generalizing ks with
    | nil => intro i _ _ h; simp only [List.zipIdx_nil] at h; cases h; exact .nil
    | cons a as' iha =>
      intro i hst' hkeys h
      simp only [List.zipIdx_cons] at h hkeys
      cases h with
      | cons h1 h2 =>
        refine .cons ?_ (iha _ (i + 1) (fun x hx => hst' x (by simp [hx])) (fun x hx => hkeys x (by simp [hx])) h2)
        exact langU_sound hb ok hd j _ a _ (hkeys _ (by simp)) (hst' a (by simp)) (ok.proj_child _ _ _ _) h1
  exact key ks as 0 hst.2 hcl hks

/-- the enumeration from the key of a state lists no tree twice -/
theorem langU_nodup (hb : Built F A G) (ok : FlatOK F A) (hd : A.Det) :
    ∀ (j : Nat) (k : UNT V) (q : Q), k ∈ AList.keys G.rules → q ∈ A.allStates →
      F.proj k = F.d q → (langU G j k).Nodup := by
  intro j
  induction j with
  | zero => intro k q _ _ _; simp [langU]
  | succ j ih =>
    intro k q hk hq hkq
    obtain ⟨row, hrow⟩ := mem_of_mem_keys hk
    have hl := AList.lookup_of_mem_nodup hb.nodup hrow
    have hre := hb.rows _ hrow
    simp only at hre
    subst hre
    have hnd : A.rules.Nodup := List.Pairwise.of_map (fun r => r.1) (fun a b h e => h (e ▸ rfl)) hd
    have hrk := rowFor_keys_nodup F A k
    have hrowNodup : (rowFor F A k).Nodup :=
      List.Pairwise.of_map (fun e => e.1) (fun a b h e => h (e ▸ rfl)) hrk
    -- facts about one alternative of the row
    have halt : ∀ e ∈ rowFor F A k, ∀ args ∈ e.2, ∃ r ∈ A.rules, isAlt F k e.1 r = true ∧
        args = newArgs F k e.1 r.1.2 ∧ r.1.1 = e.1 ∧ r.2 = q ∧ matchesTgt F k r = true := by
      intro e he args ha
      obtain ⟨r, hr, hi, e2⟩ := (mem_row_iff (F := F) (A := A) k e.1 args).mp ⟨e.2, he, ha⟩
      have h3 := (isAlt_iff ok k q hq hkq e.1 r hr).mp hi
      have hm : matchesTgt F k r = true := by
        simp only [isAlt, Bool.and_eq_true] at hi; exact hi.1
      exact ⟨r, hr, hi, e2, h3.1, h3.2, hm⟩
    rw [langU, hl]
    simp only
    apply nodup_flatMap_of _ _ hrowNodup
    · intro e he
      have hle := AList.lookup_of_mem_nodup hrk he
      have he2 : e.2 = altsOf F A k e.1 := by
        rw [lookup_rowFor] at hle
        split at hle
        · cases hle
        · exact (Option.some.inj hle).symm
      apply nodup_flatMap_of
      · -- the alternatives are pairwise different
        rw [he2, altsOf]
        apply nodup_map_inj _ _ (List.Pairwise.filter _ hnd)
        intro r1 h1 r2 h2 e12
        have hr1 := (List.mem_filter.mp h1)
        have hr2 := (List.mem_filter.mp h2)
        have a1 := (isAlt_iff ok k q hq hkq e.1 r1 hr1.1).mp hr1.2
        have a2 := (isAlt_iff ok k q hq hkq e.1 r2 hr2.1).mp hr2.2
        have hs1 := mem_allStates_of_rule A (l := r1.1.1) (args := r1.1.2) (d := r1.2) hr1.1
        have hs2 := mem_allStates_of_rule A (l := r2.1.1) (args := r2.1.2) (d := r2.2) hr2.1
        have := newArgs_inj ok k e.1 r1.1.2 r2.1.2 hs1.2 hs2.2 e12
        obtain ⟨⟨l1, as1⟩, d1⟩ := r1
        obtain ⟨⟨l2, as2⟩, d2⟩ := r2
        simp only at a1 a2 this
        rw [a1.1, a1.2, a2.1, a2.2, this]
      · intro args ha
        obtain ⟨r, hr, _, e2, hsym, _, hm⟩ := halt e he args ha
        apply nodup_map_inj
        · apply product_nodup
          intro l hlm
          obtain ⟨x, hx, rfl⟩ := List.mem_map.mp hlm
          have hxk : x ∈ AList.keys G.rules := hb.closed k hk r hr hm x (by rw [hsym, ← e2]; exact hx)
          rw [e2] at hx
          obtain ⟨a, ha', i, hxe⟩ := mem_newArgs k e.1 r.1.2 x hx
          have hast : a ∈ A.allStates :=
            (mem_allStates_of_rule A (l := r.1.1) (args := r.1.2) (d := r.2) hr).2 a ha'
          exact ih x a hxk hast (by rw [hxe, ok.proj_child])
        · intro a _ b _ e; exact (Tree.node.inj e).2
      · intro args1 h1 args2 h2 hne z hz1 hz2
        obtain ⟨r1, hr1, _, e1, hs1, _, hm1⟩ := halt e he args1 h1
        obtain ⟨r2, hr2, _, e2, hs2, _, hm2⟩ := halt e he args2 h2
        obtain ⟨ks1, hk1, rfl⟩ := List.mem_map.mp hz1
        obtain ⟨ks2, hk2, ez⟩ := List.mem_map.mp hz2
        have hks : ks2 = ks1 := (Tree.node.inj ez).2
        subst hks
        rw [e1, ← hs1] at hk1
        rw [e2, ← hs2] at hk2
        have q1 := runList_of_mem_product hb ok hd j k hk r1 hr1 hm1 ks2 hk1
        have q2 := runList_of_mem_product hb ok hd j k hk r2 hr2 hm2 ks2 hk2
        rw [q1] at q2
        apply hne
        rw [e1, e2, Option.some.inj q2]
    · intro e1 h1 e2 h2 hne z hz1 hz2
      obtain ⟨a1, _, hz1'⟩ := List.mem_flatMap.mp hz1
      obtain ⟨a2, _, hz2'⟩ := List.mem_flatMap.mp hz2
      obtain ⟨ks1, _, rfl⟩ := List.mem_map.mp hz1'
      obtain ⟨ks2, _, ez⟩ := List.mem_map.mp hz2'
      have hf : e2.1 = e1.1 := (Tree.node.inj ez).1
      apply hne
      have l1 := AList.lookup_of_mem_nodup hrk h1
      have l2 := AList.lookup_of_mem_nodup hrk h2
      rw [hf, l1] at l2
      obtain ⟨f1, alts1⟩ := e1
      obtain ⟨f2, alts2⟩ := e2
      simp only at hf l2
      rw [hf, Option.some.inj l2]

end Nodup

end PS.U.FD

namespace PS.U.FD
open PS PS.G PS.U DFTA
variable {Q U V : Type} [DecidableEq Q] [DecidableEq U] [DecidableEq V]
set_option linter.unusedSectionVars false

/-- the enumeration from all start symbols has no repetition -/
theorem langU_starts_nodup {F : Flat Q U V} {A : DFTA Sym Q} {G : UCFG V} (hb : Built F A G)
    (ok : FlatOK F A) (hd : A.Det) (j : Nat) :
    (G.starts.flatMap (fun s => langU G j s)).Nodup := by
  rw [hb.starts_eq]
  have hkey : ∀ s ∈ startsOf F A, ∃ q ∈ A.finals, F.root (F.d q) = s ∧ s ∈ AList.keys G.rules ∧
      q ∈ A.allStates ∧ F.proj s = F.d q := by
    intro s hs
    obtain ⟨q, hqf, hqs⟩ := (mem_startsOf F A s).mp hs
    exact ⟨q, hqf, hqs, hb.starts s (by rw [hb.starts_eq]; exact hs), mem_finals_allStates A q hqf,
      by rw [← hqs, ok.proj_root]⟩
  apply nodup_flatMap_of _ _ (startsOf_nodup F A)
  · intro s hs
    obtain ⟨q, _, _, hk, hqa, hp⟩ := hkey s hs
    exact langU_nodup hb ok hd j s q hk hqa hp
  · intro s1 h1 s2 h2 hne z hz1 hz2
    obtain ⟨q1, _, e1, hk1, hqa1, hp1⟩ := hkey s1 h1
    obtain ⟨q2, _, e2, hk2, hqa2, hp2⟩ := hkey s2 h2
    have r1 := langU_sound hb ok hd j s1 q1 z hk1 hqa1 hp1 hz1
    have r2 := langU_sound hb ok hd j s2 q2 z hk2 hqa2 hp2 hz2
    rw [r1] at r2
    apply hne
    rw [← e1, ← e2, Option.some.inj r2]

end PS.U.FD

/-! ### `programs()` returns: fuel adequacy of the memoised recursion -/
namespace PS.U.FD
open PS PS.G PS.U DFTA
variable {V : Type} [DecidableEq V]
set_option linter.unusedSectionVars false

theorem computeArgs_isSome (c : UNT V → Memo V → Option (Nat × Memo V)) :
    ∀ (args : List (UNT V)) (loc : Nat) (memo : Memo V),
      (∀ a ∈ args, ∀ m, (c a m).isSome = true) → (computeArgs c args loc memo).isSome = true
  | [], _, _, _ => rfl
  | a :: as, loc, memo, h => by
    rw [computeArgs]
    have h1 := h a (by simp) memo
    cases hc : c a memo with
    | none => rw [hc] at h1; cases h1
    | some res =>
      simp only
      exact computeArgs_isSome c as _ _ (fun x hx => h x (by simp [hx]))

theorem computeRules_isSome (c : UNT V → Memo V → Option (Nat × Memo V)) :
    ∀ (alts : List (List (UNT V))) (total : Nat) (memo : Memo V),
      (∀ args ∈ alts, ∀ a ∈ args, ∀ m, (c a m).isSome = true) →
      (computeRules c alts total memo).isSome = true
  | [], _, _, _ => rfl
  | args :: rest, total, memo, h => by
    rw [computeRules]
    have h1 := computeArgs_isSome c args 1 memo (h args (by simp))
    cases hc : computeArgs c args 1 memo with
    | none => rw [hc] at h1; cases h1
    | some res =>
      simp only
      exact computeRules_isSome c rest _ _ (fun x hx => h x (by simp [hx]))

/-- `__compute__` returns on every state whose derivations are all complete within `j` levels,
    as soon as the recursion budget is at least `j` -/
theorem compute_isSome (G : UCFG V) : ∀ (j fuel : Nat) (a : UNT V) (memo : Memo V),
    boundedU G j a = true → j ≤ fuel → (compute G fuel a memo).isSome = true := by
  intro j
  induction j with
  | zero => intro fuel a memo h; simp [boundedU] at h
  | succ j ih =>
    intro fuel a memo hb hle
    obtain ⟨f, rfl⟩ : ∃ f, fuel = f + 1 := ⟨fuel - 1, by omega⟩
    rw [compute]
    cases hm : AList.lookup a memo with
    | some c => rfl
    | none =>
      simp only
      rw [boundedU] at hb
      cases hl : AList.lookup a G.rules with
      | none => rfl
      | some rs =>
        rw [hl] at hb
        simp only [List.all_eq_true] at hb
        simp only
        have h1 := computeRules_isSome (compute G f) (rs.flatMap (fun r => r.2)) 0 memo (by
          intro args hargs x hx m
          obtain ⟨r, hr, har⟩ := List.mem_flatMap.mp hargs
          exact ih f x m (hb r hr args har x hx) (by omega))
        cases hc : computeRules (compute G f) (rs.flatMap (fun r => r.2)) 0 memo with
        | none => rw [hc] at h1; cases h1
        | some res => rfl

theorem programsFrom_isSome (G : UCFG V) (j fuel : Nat) (hle : j ≤ fuel) :
    ∀ (ss : List (UNT V)) (total : Nat) (memo : Memo V), (∀ s ∈ ss, boundedU G j s = true) →
      (programsFrom G fuel ss total memo).isSome = true
  | [], _, _, _ => rfl
  | s :: ss, total, memo, h => by
    rw [programsFrom]
    have h1 := compute_isSome G j fuel s memo (h s (by simp)) hle
    cases hc : compute G fuel s memo with
    | none => rw [hc] at h1; cases h1
    | some res =>
      simp only
      exact programsFrom_isSome G j fuel hle ss _ _ (fun x hx => h x (by simp [hx]))

end PS.U.FD
