/-
  C14: the executable form `specInstances` of the specification (PS/Spec/Dsl.lean, the list
  the driver prints) enumerates exactly the declarative predicate `Instances`.
  Helper lemmas; the property theorem is `C14_spec_exec` in PS/Props/C14.lean.
-/
import PS.Proofs.Dsl
namespace PS.Dsl
open PS Ty

/-! ### the universe -/

theorem mem_specBases (P : List Prim) (b : Ty) : b ∈ specBases P ↔ IsBase P b := by
  unfold specBases IsBase
  rw [mem_dedup, List.mem_filter, List.mem_flatMap]
  simp

theorem mem_specUniverse (P : List Prim) (u : Ty) : u ∈ specUniverse P ↔ InUniverse P u := by
  unfold specUniverse InUniverse
  simp only [mem_dedup, List.mem_append, List.mem_map, List.mem_flatMap, mem_specBases]
  constructor
  · rintro (((h | ⟨b, hb, e⟩) | ⟨b, hb, e⟩) | ⟨b, hb, b', hb', e⟩)
    · exact ⟨u, h, Or.inl rfl⟩
    · exact ⟨b, hb, Or.inr (Or.inl e.symm)⟩
    · exact ⟨b, hb, Or.inr (Or.inr (Or.inl e.symm))⟩
    · exact ⟨b, hb, Or.inr (Or.inr (Or.inr ⟨b', hb', e.symm⟩))⟩
  · rintro ⟨b, hb, h | h | h | ⟨b', hb', h⟩⟩
    · subst h; exact Or.inl (Or.inl (Or.inl hb))
    · exact Or.inl (Or.inl (Or.inr ⟨b, hb, h.symm⟩))
    · exact Or.inl (Or.inr ⟨b, hb, h.symm⟩)
    · exact Or.inr ⟨b, hb, b', hb', h.symm⟩

/-! ### a substitution is only read at the names of the type variables -/

theorem applySubst_congr (σ σ' : String → Ty) (t : Ty) :
    (∀ q ∈ polys t, σ q.label.name = σ' q.label.name) → applySubst σ t = applySubst σ' t := by
  induction t using Ty.ind_aux with
  | h l ks ih =>
    intro h
    rw [polys_node] at h
    rw [applySubst_node, applySubst_node]
    by_cases hv : isVarL l = true
    · simp only [hv, if_true, List.mem_singleton, forall_eq] at h ⊢
      exact h
    · have hv' : isVarL l = false := by simpa using hv
      by_cases hi : isInnerL l = true
      · simp only [hv', hi, if_true, Bool.false_eq_true, if_false] at h ⊢
        congr 1
        apply List.map_congr_left
        intro k hk
        exact ih k hk (fun q hq => h q (List.mem_flatMap.mpr ⟨k, hk, hq⟩))
      · have hi' : isInnerL l = false := by simpa using hi
        simp [hv', hi']

/-! ### the enumeration of the substitutions -/

theorem mem_varNames (τ : Ty) (n : String) : n ∈ varNames τ ↔ ∃ q ∈ polys τ, q.label.name = n := by
  unfold varNames
  rw [mem_dedup, List.mem_map]

theorem mem_candidates (U : List Ty) (bound : Nat) (τ : Ty) (n : String) (v : Ty) :
    v ∈ candidates U bound τ n ↔
      v ∈ U ∧ Ty.size v ≤ bound ∧ ∀ q ∈ polys τ, q.label.name = n → canBe q v = true := by
  unfold candidates
  rw [List.mem_filter, Bool.and_eq_true, decide_eq_true_eq, List.all_eq_true]
  constructor
  · rintro ⟨h1, h2, h3⟩
    refine ⟨h1, h2, ?_⟩
    intro q hq hn
    have := h3 q hq
    simpa [hn] using this
  · rintro ⟨h1, h2, h3⟩
    refine ⟨h1, h2, ?_⟩
    intro q hq
    by_cases hn : q.label.name = n
    · simp [h3 q hq hn]
    · simp [hn]

/-- the value found for a name in a tuple of the product is one of the candidates of that
    name (the one at the first position of the name) -/
theorem lookup_zip_product {α : Type} [DecidableEq α] (f : String → List α) (ns : List String)
    (vs : List α) (h : vs ∈ product (ns.map f)) (n : String) (hn : n ∈ ns) :
    ∃ v, (ns.zip vs).lookup n = some v ∧ v ∈ f n := by
  induction ns generalizing vs with
  | nil => cases hn
  | cons m ns ih =>
    simp only [List.map_cons, product, List.mem_flatMap, List.mem_map] at h
    obtain ⟨x, hx, r, hr, e⟩ := h
    subst e
    by_cases e : n = m
    · subst e
      exact ⟨x, by simp, hx⟩
    · rcases List.mem_cons.mp hn with e' | hn'
      · exact absurd e' e
      · obtain ⟨v, hv, hm⟩ := ih r hr hn'
        refine ⟨v, ?_, hm⟩
        have hne : (n == m) = false := by simpa using e
        simp [List.lookup_cons, hne, hv]

theorem map_mem_product {α : Type} [DecidableEq α] (f : String → List α) (σ : String → α)
    (ns : List String) (h : ∀ n ∈ ns, σ n ∈ f n) : ns.map σ ∈ product (ns.map f) := by
  induction ns with
  | nil => simp [product]
  | cons m ns ih =>
    simp only [List.map_cons, product, List.mem_flatMap, List.mem_map]
    exact ⟨σ m, h m (by simp), ns.map σ, ih (fun n hn => h n (List.mem_cons_of_mem _ hn)), rfl⟩

theorem lookup_zip_map {α : Type} (σ : String → α) (ns : List String) (n : String) (hn : n ∈ ns) :
    (ns.zip (ns.map σ)).lookup n = some (σ n) := by
  induction ns with
  | nil => cases hn
  | cons m ns ih =>
    by_cases e : n = m
    · subst e
      simp
    · rcases List.mem_cons.mp hn with e' | hn'
      · exact absurd e' e
      · have hne : (n == m) = false := by simpa using e
        simp [List.lookup_cons, hne, ih hn']

theorem substOf_map (σ : String → Ty) (ns : List String) (n : String) (hn : n ∈ ns) :
    substOf ns (ns.map σ) n = σ n := by
  unfold substOf
  rw [lookup_zip_map σ ns n hn]
  rfl

/-! ### the executable specification = the predicate -/

theorem mem_specInstancesOf (P : List Prim) (bound : Nat) (p r : Prim) :
    r ∈ specInstancesOf (specUniverse P) bound p ↔ IsInstance P bound p r := by
  unfold specInstancesOf IsInstance
  simp only [List.mem_flatMap, List.mem_map]
  constructor
  · rintro ⟨vs, hvs, c, hc, e⟩
    subst e
    refine ⟨rfl, substOf (varNames p.2) vs, ?_, c, (mem_versions_iff _ _).mp hc, rfl⟩
    intro q hq
    have hn : q.label.name ∈ varNames p.2 := (mem_varNames _ _).mpr ⟨q, hq, rfl⟩
    obtain ⟨v, hv, hm⟩ := lookup_zip_product _ _ vs hvs _ hn
    have hσ : substOf (varNames p.2) vs q.label.name = v := by
      unfold substOf; rw [hv]; rfl
    rw [hσ]
    rw [mem_candidates] at hm
    exact ⟨(mem_specUniverse P v).mp hm.1, hm.2.1, hm.2.2 q hq rfl⟩
  · rintro ⟨hn, σ, hσ, c, hc, e⟩
    refine ⟨(varNames p.2).map σ, ?_, c, ?_, Prod.ext hn.symm e.symm⟩
    · apply map_mem_product
      intro n hn'
      obtain ⟨q, hq, e'⟩ := (mem_varNames _ _).mp hn'
      subst e'
      rw [mem_candidates]
      refine ⟨(mem_specUniverse P _).mpr (hσ q hq).1, (hσ q hq).2.1, ?_⟩
      intro q' hq' e'
      rw [← e']
      exact (hσ q' hq').2.2
    · rw [mem_versions_iff]
      rw [applySubst_congr _ σ p.2
        (fun q hq => substOf_map σ _ _ ((mem_varNames _ _).mpr ⟨q, hq, rfl⟩))]
      exact hc

/-- membership in the executable specification is the declarative predicate -/
theorem mem_specInstances (P : List Prim) (bound : Nat) (r : Prim) :
    r ∈ specInstances P bound ↔ Instances P bound r := by
  unfold specInstances Instances
  rw [mem_dedup, List.mem_flatMap]
  constructor
  · rintro ⟨p, hp, h⟩; exact ⟨p, hp, (mem_specInstancesOf P bound p r).mp h⟩
  · rintro ⟨p, hp, h⟩; exact ⟨p, hp, (mem_specInstancesOf P bound p r).mpr h⟩

theorem nodup_specInstances (P : List Prim) (bound : Nat) : (specInstances P bound).Nodup :=
  nodup_dedup _

end PS.Dsl
