/-
  Model of synth/pbe/solvers/restart_pbe_solver.py (RestartPBESolver) and of
  synth/pbe/solvers/pbe_solver.py:132-190 (MetaPBESolver) — property C10, restart part.

  The solver object is `RSolver`: the meta solver's own `PBESolver` fields (`self`), the
  sub-solver's (`sub`), and the restart fields `_stats["restarts"]`, `_restarts`, `_data`,
  `_last_size`.  The enumerator is abstract (`Params.stream`): `enumerator.generator()` is a
  (finite or infinite) stream `Nat → Option P`; `none` is the `StopIteration` of an exhausted
  generator.  `restart_criterion` is a parameter (any Bool function of the solver object),
  `_restart_` is a parameter function from the current enumerator and `_data` to the next
  enumerator (`enumerator.clone(pcfg)`; what `pcfg` is computed to be is modelled separately
  in the second half of this file, namespace `PS.C10.RG`).

  `solve` is the resumable machine
    `advanceR` from the loop head (`program = next(gen)` just executed or about to be) to the next
               `yield`, to the end of the generator, or until the fuel is used up,
    `sendR`    `generator.send(answer)`,
    `driveR`   the caller feeding a list of answers.
  The loop has no syntactic measure (a restart starts a new enumeration; with a criterion that
  fires too often the real solver loops for ever), hence the fuel: one unit per loop iteration,
  shared by the whole run; the theorems hold for every amount of fuel.
  The wall clock is an input as in PS/Model/Solver.lean (`dl`, one entry per loop iteration).

  Two proposed repairs are switches of the model (set by the harness from the source text):
    `fixNext`   C10-F2: `program = next(gen, None)` at restart_pbe_solver.py:69 and :94
                (as it is: `next(gen)` raises StopIteration inside the generator = RuntimeError)
    `fixStats`  C10-F3: `MetaPBESolver._close_task_solving_` copies from the sub-solver only the
                statistics the meta solver does not keep itself (as it is: every entry is
                overwritten, so 'programs' restarts from the sub-solver's 0 at every task and
                'time' counts the last task twice)

  Transcribed:
    pbe_solver.py:144-149, 162-164          `_init_stats_`, `reset_stats`      -> `RSolver.init`, `resetStatsR`
    pbe_solver.py:166-170, restart:41-47     `_init_task_solving_`              -> `initTaskR`
    pbe_solver.py:172-187, restart:49-60     `_close_task_solving_`             -> `closeR`
    pbe_solver.py:189-190                    `_test_` (delegation)              -> `testedS`
    restart_pbe_solver.py:62-94              `solve`                            -> `advanceR`, `sendR`, `driveR`, `solveR`
    restart_pbe_solver.py:85-93              bookkeeping after a rejected program -> `afterTest`
    restart_pbe_solver.py:99-115             `_restart_`                        -> `RG.restartTags`
-/
import PS.Model.Solver
import PS.Model.Prob
namespace PS.C10
open PS
open PS.C11 (Outcome)

/-- the fields of a `RestartPBESolver` the protocol reads or writes -/
structure RSolver (P : Type) where
  /-- the meta solver's own `_stats` ('programs', 'program_probability', 'time'), `_programs`, `_score` -/
  self : Solver P
  /-- `self.subsolver` -/
  sub : Solver P
  /-- `_stats["restarts"]` -/
  statsRestarts : Nat
  /-- `_restarts` -/
  restarts : Nat
  /-- `_data` -/
  data : List (P × Score)
  /-- `_last_size` -/
  lastSize : Nat

/-- `__init__` (restart_pbe_solver.py:16-35, pbe_solver.py:133-149) -/
def RSolver.init {P : Type} : RSolver P := ⟨Solver.init, Solver.init, 0, 0, [], 0⟩

/-- what is a parameter of a run: the enumerator interface, the restart criterion, the restart
    function, and the two switches for the proposed repairs -/
structure Params (En P : Type) where
  /-- the i-th program produced by `enumerator.generator()`; `none`: the generator is exhausted -/
  stream : En → Nat → Option P
  /-- `restart_criterion(self)` -/
  criterion : RSolver P → Bool
  /-- `_restart_(enumerator)` as a function of the enumerator and `_data` -/
  restart : En → List (P × Score) → En
  fixNext : Bool
  fixStats : Bool

variable {St P E En : Type}

/-- `reset_stats` (pbe_solver.py:162-164, restart_pbe_solver.py:33-35) -/
def resetStatsR (s : RSolver P) : RSolver P :=
  { s with self := resetStats s.self, sub := resetStats s.sub, statsRestarts := 0 }

/-- `_init_task_solving_` (pbe_solver.py:166-170, restart_pbe_solver.py:41-47) -/
def initTaskR (s : RSolver P) : RSolver P :=
  { s with self := initTask s.self, sub := initTask s.sub, restarts := 0, data := [], lastSize := 0 }

/-- `_close_task_solving_` (restart_pbe_solver.py:49-60 calling pbe_solver.py:172-187):
    close the sub-solver, copy its statistics over the meta solver's, close the meta solver
    (`PBESolver._close_task_solving_`), add `_restarts`.
    `statsCloses` counts the summands `time_used` of `_stats["time"]`. -/
def closeR (fixStats : Bool) (s : RSolver P) (last : P) : RSolver P :=
  let sub' := closeTask s.sub last                                            -- pbe_solver.py:180-182
  let self1 : Solver P :=                                                     -- :183-184
    if fixStats then s.self
    else { s.self with statsPrograms := sub'.statsPrograms, statsLast := sub'.statsLast,
                        statsCloses := sub'.statsCloses }
  { s with sub := sub', self := closeTask self1 last,                         -- :185-187
           statsRestarts := s.statsRestarts + s.restarts }                    -- restart_pbe_solver.py:60

/-- `self._programs += 1` (restart_pbe_solver.py:77) -/
def countedS (s : RSolver P) : RSolver P :=
  { s with self := { s.self with programs := s.self.programs + 1 } }

/-- … and `self._test_(task, program)` = `self.subsolver._test_(task, program)` returned with the
    score `sc` (stored in the *sub-solver's* `_score`) (restart_pbe_solver.py:78, pbe_solver.py:189-190) -/
def testedS (s : RSolver P) (sc : Score) : RSolver P :=
  { countedS s with sub := { s.sub with score := some sc } }

/-- restart_pbe_solver.py:85-93, for the program `p` just tested (and not accepted); `pos` is the
    position of the next program in the current enumeration.  Returns the solver, the enumerator
    and the position to continue with.  `self._score > 0` for the fraction `num / den`. -/
def afterTest (prm : Params En P) (s : RSolver P) (p : P) (en : En) (pos : Nat) : RSolver P × En × Nat :=
  let s1 : RSolver P := { s with self := { s.self with score := s.sub.score } }         -- :85
  let s2 : RSolver P :=                                                                 -- :87-88
    match s1.self.score with
    | some sc => if 0 < sc.num then { s1 with data := s1.data ++ [(p, sc)] } else s1
    | none => s1
  if prm.criterion s2 then                                                              -- :90
    let s3 : RSolver P := { s2 with restarts := s2.restarts + 1 }                       -- :91
    let s4 : RSolver P := { s3 with lastSize := s3.data.length }                        -- :101
    (s4, prm.restart en s4.data, 0)                                                     -- :92-93
  else (s2, en, pos)

/-- how the generator ended -/
inductive RStop (E : Type) where
  | accepted            -- the caller sent True
  | timeout             -- `time >= timeout`
  | exhausted           -- `program is None`: the loop ended (only with the repair C10-F2)
  | stopIteration       -- `next(gen)` raised StopIteration inside the generator: RuntimeError (C10-F2)
  | raised (e : E)      -- `_test_` propagated an exception of the evaluator
  deriving DecidableEq, Repr

/-- the frame of a generator suspended at `should_stop = yield program` -/
structure RSusp (St P En : Type) where
  program : P
  s : RSolver P
  st : St
  en : En
  pos : Nat            -- position of the next program in the enumeration of `en`
  dl : List Bool
  fuel : Nat

inductive RStep (St P E En : Type) where
  | yielded (k : RSusp St P En)
  | finished (r : RStop E) (s : RSolver P) (st : St)
  | running (s : RSolver P) (st : St)       -- out of fuel: still inside the loop

/-- restart_pbe_solver.py:69-94: from the loop head to the next `yield`, to the end, or until the
    fuel is used up.  `T` is `self._test_(task, ·)`. -/
def advanceR (prm : Params En P) (T : St → P → St × Except E (Bool × Score)) :
    Nat → RSolver P → St → En → Nat → List Bool → RStep St P E En
  | 0, s, st, _, _, _ => .running s st
  | fuel + 1, s, st, en, pos, dl =>
    match prm.stream en pos with                                                  -- :69 / :94
    | none => .finished (if prm.fixNext then .exhausted else .stopIteration) s st
    | some p =>
      if deadlinePassed dl then .finished .timeout (closeR prm.fixStats s p) st   -- :71-76
      else
        match T st p with                                                         -- :77-78
        | (st', .error e) => .finished (.raised e) (countedS s) st'
        | (st', .ok (ok, sc)) =>
          if ok then .yielded ⟨p, testedS s sc, st', en, pos + 1, dl.tail, fuel⟩   -- :79
          else
            let r := afterTest prm (testedS s sc) p en (pos + 1)                  -- :85-93
            advanceR prm T fuel r.1 st' r.2.1 r.2.2 dl.tail

/-- restart_pbe_solver.py:79-94: `generator.send(answer)` on a suspended generator -/
def sendR (prm : Params En P) (T : St → P → St × Except E (Bool × Score)) (answer : Bool)
    (k : RSusp St P En) : RStep St P E En :=
  if answer then .finished .accepted (closeR prm.fixStats k.s k.program) k.st     -- :80-84
  else
    let r := afterTest prm k.s k.program k.en k.pos
    advanceR prm T k.fuel r.1 k.st r.2.1 r.2.2 k.dl

inductive RStatus (E : Type) where
  | finished (r : RStop E)
  | suspended
  | outOfFuel
  deriving DecidableEq, Repr

structure RRun (St P E : Type) where
  yielded : List P
  status : RStatus E
  solver : RSolver P
  st : St

def driveR (prm : Params En P) (T : St → P → St × Except E (Bool × Score)) :
    RStep St P E En → List Bool → RRun St P E
  | .finished r s st, _ => ⟨[], .finished r, s, st⟩
  | .running s st, _ => ⟨[], .outOfFuel, s, st⟩
  | .yielded k, [] => ⟨[k.program], .suspended, k.s, k.st⟩
  | .yielded k, a :: as =>
    let r := driveR prm T (sendR prm T a k) as
    { r with yielded := k.program :: r.yielded }

/-- `solver.solve(task, enumerator, timeout)` driven with the answers `as`, with `fuel` loop
    iterations allowed -/
def solveR (prm : Params En P) (T : St → P → St × Except E (Bool × Score)) (fuel : Nat)
    (s : RSolver P) (st : St) (en : En) (dl as : List Bool) : RRun St P E :=
  driveR prm T (advanceR prm T fuel (initTaskR s) st en 0 dl) as

/-! ### Specification: the segmented enumeration -/

/-- one entry of the segmented enumeration: the program consumed, the enumerator it came from and
    its position there, and the solver object at the loop head when it was consumed -/
structure Entry (P En : Type) where
  p : P
  en : En
  pos : Nat
  s : RSolver P

/-- the programs the loop consumes, one per iteration, when nothing from outside stops it:
    no deadline, every yielded program refused.  `tp` is the pure test (verdict and score of a
    program); an exception of the test ends the enumeration after the program that raised. -/
def segRun (prm : Params En P) (tp : P → Except E (Bool × Score)) :
    Nat → RSolver P → En → Nat → List (Entry P En)
  | 0, _, _, _ => []
  | fuel + 1, s, en, pos =>
    match prm.stream en pos with
    | none => []
    | some p =>
      match tp p with
      | .error _ => [⟨p, en, pos, s⟩]
      | .ok (_, sc) =>
        let r := afterTest prm (testedS s sc) p en (pos + 1)
        ⟨p, en, pos, s⟩ :: segRun prm tp fuel r.1 r.2.1 r.2.2

/-- **the segmented enumeration**: segment i is the prefix of the i-th enumerator's stream
    consumed before the (i+1)-th restart -/
def segEnum (prm : Params En P) (tp : P → Except E (Bool × Score)) (fuel : Nat) (s : RSolver P)
    (en : En) (pos : Nat) : List P :=
  (segRun prm tp fuel s en pos).map (·.p)

/-- what `_data` holds after the programs `ps` were consumed: those with a positive score, with
    their score, in order -/
def dataOf (tp : P → Except E (Bool × Score)) (ps : List P) : List (P × Score) :=
  ps.filterMap (fun p =>
    match tp p with
    | .ok (_, sc) => if 0 < sc.num then some (p, sc) else none
    | .error _ => none)

/-- the status of the plain solver that corresponds to a status of the restart solver, the
    enumeration being the segmented one cut at the fuel -/
def RStatus.toBase : RStatus E → Status E
  | .finished .accepted => .finished .accepted
  | .finished .timeout => .finished .timeout
  | .finished (.raised e) => .finished (.raised e)
  | .finished .exhausted => .finished .exhausted
  | .finished .stopIteration => .finished .exhausted
  | .outOfFuel => .finished .exhausted
  | .suspended => .suspended

/-! ### sessions -/

inductive ROp (P I V En : Type) where
  | task (t : TaskRun P I V) (en : En) (fuel : Nat)     -- `t.es` is not used: the programs come from `en`
  | resetStats
  | clearCache

def runOpR {I V : Type} [DecidableEq V] (prm : Params En P) (k : Kind) (ev : Ev St P I V E)
    (clear : St → St) (s : RSolver P) (st : St) : ROp P I V En → RSolver P × St
  | .task t en fuel =>
    let r := solveR prm (test k ev t.examples) fuel s st en t.dl t.answers; (r.solver, r.st)
  | .resetStats => (resetStatsR s, st)
  | .clearCache => (s, clear st)

def runSessionR {I V : Type} [DecidableEq V] (prm : Params En P) (k : Kind) (ev : Ev St P I V E)
    (clear : St → St) : RSolver P → St → List (ROp P I V En) → RSolver P × St
  | s, st, [] => (s, st)
  | s, st, op :: ops =>
    let r := runOpR prm k ev clear s st op
    runSessionR prm k ev clear r.1 r.2 ops

end PS.C10

/-! ## what `_restart_` computes (restart_pbe_solver.py:99-115) -/
namespace PS.C10.RG
open PS PS.G

variable {S T : Type} [DecidableEq S] [DecidableEq T]

/-- `ProbDetGrammar.__mul__` (tagged_det_grammar.py:137-141): every weight times `c` -/
def scaleTags (c : Rat) (tags : Tags S T) : Tags S T :=
  tags.map (fun e => (e.1, e.2.map (fun r => (r.1, c * r.2))))

/-- the reducer of restart_pbe_solver.py:103-107: `pcfg.probabilities[S][P] += score`
    (`none`: KeyError) -/
def addScore (score : Rat) : Option (Tags S T) → NT S T → Sym → (List (Ty × S) × T) → Option (Tags S T)
  | none, _, _, _ => none
  | some tags, nt, P, _ =>
    match AList.lookup nt tags with
    | none => none
    | some row =>
      match AList.lookup P row with
      | none => none
      | some w => some (AList.insert nt (AList.insert P (w + score) row) tags)

/-- restart_pbe_solver.py:109-110: `for program, score in self._data:
    pcfg.reduce_derivations(reduce, score, program)`; `none`: an exception (KeyError of a program
    that is not derivable) -/
def accumulate (G : TT S T) : Tags S T → List (Prog × Rat) → Option (Tags S T)
  | tags, [] => some tags
  | tags, (p, sc) :: rest =>
    match reduceDerivations G (addScore sc) (some tags) p with
    | some (some tags') => accumulate G tags' rest
    | _ => none

/-- `TaggedDetGrammar.__add__` (tagged_det_grammar.py:88-100) for two tables with the same keys:
    entry-wise sum (the order of the resulting dict, taken from a `set`, is not modelled) -/
def addTags (a b : Tags S T) : Tags S T :=
  a.map (fun e => (e.1, e.2.map (fun r => (r.1, r.2 + weight b e.1 r.1))))

/-- `_restart_`'s grammar: `pcfg = G * 0`; accumulate the scores; `+ uniform * prior` when
    `prior > 0`; `normalise()` -/
def restartTags (G : TT S T) (tags0 : Tags S T) (data : List (Prog × Rat)) (prior : Rat) :
    Option (Tags S T) :=
  match accumulate G (scaleTags 0 tags0) data with
  | none => none
  | some acc =>
    some (normalise (if 0 < prior then addTags acc (scaleTags prior (uniform G)) else acc))

/-! ### Specification -/

/-- number of times the rule `(nt, P)` is used in a derivation -/
def uses (d : List (NT S Unit × Sym)) (nt : NT S Unit) (P : Sym) : Nat :=
  d.countP (fun x => decide (x = (nt, P)))

/-- **accumulated score of a rule**: Σ over the data of score × number of uses of the rule in the
    derivation of the program -/
def accScore (G : TT S Unit) (data : List (Prog × Rat)) (nt : NT S Unit) (P : Sym) : Rat :=
  (data.map (fun d => d.2 * (uses (derivation G d.1 G.start) nt P : Rat))).sum

/-- the weight the statement gives to rule `P` of the row `row` of `nt`:
    (accumulated score + prior / |row|), normalised over the row -/
def specWeight (G : TT S Unit) (data : List (Prog × Rat)) (prior : Rat)
    (nt : NT S Unit) (row : List Sym) (P : Sym) : Rat :=
  let pr : Rat := if 0 < prior then prior else 0
  (accScore G data nt P + pr * (1 / (row.length : Rat))) /
    ((row.map (fun Q => accScore G data nt Q + pr * (1 / (row.length : Rat)))).sum)

end PS.C10.RG
