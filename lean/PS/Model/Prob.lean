/-
  Probabilistic deterministic grammars (property C04; reused by C02/C03/C08/C09).
  Model of synth/syntax/grammars/tagged_det_grammar.py on top of `PS.G.TT` (Grammar.lean).
  Weights are core `Rat` (the harness only sends weights for which float arithmetic is exact,
  or compares with a stated tolerance).

  * `Tags`            `tags : Dict[NT, Dict[DerivableProgram, float]]`  (may be partial:
                      `pcfg_from_samples` omits non-terminals never visited)
  * `probabilityDet`  `ProbDetGrammar.probability` (tagged_det_grammar.py:143-161): membership
                      test first, then the `reduce_derivations` fold; any exception → 0
  * `normalise`       `ProbDetGrammar.normalise` (:181-186)
  * `uniform`         `ProbDetGrammar.uniform` (:233-241)
  * `fromSamples`     `ProbDetGrammar.pcfg_from_samples` with its inner `add_count` (:258-299)
  * SPEC `prob`       product of the rule weights along the unique top-down derivation
                      (`PS.G.derivation`), 0 outside the language (`PS.G.gen`)
  * SPEC `bounded`    every derivation from a non-terminal finishes within `k` levels
  * SPEC `mass`       Σ of `prob` over `lang G k nt`
  Second half (namespace `PS.U`): synth/syntax/grammars/tagged_u_grammar.py on top of
  `PS.U.UCFG`: `probabilityU` (:160-177), `normaliseU` (:217-228), `uniformU` (:280-293),
  SPEC `probU` = start weight × product of the rule weights of the (first) derivation.
-/
import PS.Model.Grammar
import PS.Model.Ucfg
namespace PS.G
open PS

variable {S T : Type} [DecidableEq S] [DecidableEq T]

/-- `self.tags` -/
abbrev Tags (S T : Type) := AList (NT S T) (AList Sym Rat)

/-- `self.tags[S][P]`; `none` = KeyError -/
def tagOf (tags : Tags S T) (nt : NT S T) (P : Sym) : Option Rat :=
  match AList.lookup nt tags with
  | none => none
  | some d => AList.lookup P d

/-- the reducer `lambda current, S, P, _: current * self.tags[S][P]`; `none` = an exception was
    raised (it aborts the fold; the bare `except` of `probability` turns it into 0) -/
def mulTag (tags : Tags S T) : Option Rat → NT S T → Sym → (List (Ty × S) × T) → Option Rat
  | none, _, _, _ => none
  | some c, nt, P, _ => (tagOf tags nt P).map (fun w => c * w)

/-- `ProbDetGrammar.probability(program, start)` -/
def probabilityDetFrom (G : TT S T) (tags : Tags S T) (p : Prog) (start : NT S T) : Rat :=
  if !(containsRec G p start []).1 then 0 else
  match reduceRec G (mulTag tags) (some 1) p start [] with
  | some (some v, _, _) => v
  | _ => 0

/-- `ProbDetGrammar.probability(program)` -/
def probabilityDet (G : TT S T) (tags : Tags S T) (p : Prog) : Rat :=
  probabilityDetFrom G tags p G.start

/-- Python's `sum(...)` of a row of weights -/
def rowSum (d : AList Sym Rat) : Rat := (d.map (·.2)).sum

/-- one iteration of the outer loop of `normalise`: `s = sum(...)`, then every weight `w / s`
    (Python raises ZeroDivisionError for `s = 0`; `Rat` division gives 0 — stated assumption) -/
def normaliseRow (d : AList Sym Rat) : AList Sym Rat :=
  d.map (fun e => (e.1, e.2 / rowSum d))

/-- `ProbDetGrammar.normalise()` -/
def normalise (tags : Tags S T) : Tags S T := tags.map (fun e => (e.1, normaliseRow e.2))

/-- `ProbDetGrammar.uniform(grammar)`: `{S: {P: 1 / len(rules[S])}}` -/
def uniform (G : TT S T) : Tags S T :=
  G.rules.map (fun e => (e.1, e.2.map (fun r => (r.1, 1 / (e.2.length : Rat)))))

/-! ### `pcfg_from_samples` -/

inductive Exn where
  | key | index
  deriving DecidableEq, Repr, Inhabited

abbrev Counts (S : Type) := AList (NT S Unit) (AList Sym Nat)

/-- `rules_cnt[S][P] = 0` for every rule -/
def initCounts (G : TT S Unit) : Counts S :=
  G.rules.map (fun e => (e.1, e.2.map (fun r => (r.1, 0))))

/-- the non-`Function` branch of `add_count(S, P)`: `(returned flag, counts)` -/
def addLeaf (cnt : Counts S) (nt : NT S Unit) (P : Sym) : Except Exn (Bool × Counts S) :=
  match AList.lookup nt cnt with
  | none => .error .key                                     -- rules_cnt[S]
  | some row =>
    match AList.lookup P row with
    | none => .ok (false, cnt)
    | some c => .ok (true, AList.insert nt (AList.insert P (c + 1) row) cnt)

/- `add_count` (tagged_det_grammar.py:267-284).  For a `Function`: count the head, read
   `cfg.rules[S][F][0]` (KeyError when the head is not a rule of `S` — in particular whenever
   the head was not counted, so the `else S` branch of the loop is dead), then count argument
   `i` at `args[i]` (IndexError when there are more arguments than the rule has). -/
mutual
  def addCount (G : TT S Unit) : Counts S → NT S Unit → Prog → Except Exn (Counts S)
    | cnt, nt, .node f kids =>
      match addLeaf cnt nt f with
      | .error e => .error e
      | .ok (_, cnt') =>
        if kids.isEmpty then .ok cnt' else
        match G.rule? nt f with
        | none => .error .key
        | some (args, _) => addCountList G cnt' kids args
  def addCountList (G : TT S Unit) : Counts S → List Prog → List (Ty × S) → Except Exn (Counts S)
    | cnt, [], _ => .ok cnt
    | _, _ :: _, [] => .error .index
    | cnt, k :: ks, (t, s) :: as =>
      match addCount G cnt (t, (s, ())) k with
      | .error e => .error e
      | .ok c => addCountList G c ks as
end

/-- `for sample in samples: add_count(cfg.start, sample)` -/
def addSamples (G : TT S Unit) : Counts S → List Prog → Except Exn (Counts S)
  | cnt, [] => .ok cnt
  | cnt, p :: ps =>
    match addCount G cnt G.start p with
    | .error e => .error e
    | .ok c => addSamples G c ps

def countOf (cnt : Counts S) (nt : NT S Unit) (P : Sym) : Nat :=
  match AList.lookup nt cnt with
  | none => 0
  | some row => (AList.lookup P row).getD 0

/-- `total = sum(rules_cnt[S][P] for P in cfg.rules[S])` -/
def totalOf (cnt : Counts S) (e : NT S Unit × AList Sym (List (Ty × S) × Unit)) : Nat :=
  (e.2.map (fun r => countOf cnt e.1 r.1)).sum

/-- "Compute probabilities": only non-terminals with `total > 0` get a row -/
def probsOfCounts (G : TT S Unit) (cnt : Counts S) : Tags S Unit :=
  G.rules.filterMap (fun e =>
    if totalOf cnt e > 0 then
      some (e.1, ((AList.lookup e.1 cnt).getD []).map (fun c => (c.1, (c.2 : Rat) / (totalOf cnt e : Rat))))
    else none)

/-- `ProbDetGrammar.pcfg_from_samples(cfg, samples)` -/
def fromSamples (G : TT S Unit) (samples : List Prog) : Except Exn (Tags S Unit) :=
  match addSamples G (initCounts G) samples with
  | .error e => .error e
  | .ok cnt => .ok (probsOfCounts G cnt)

/-! ### Specification -/

/-- weight of a rule, 0 when the table has none -/
def weight (tags : Tags S T) (nt : NT S T) (P : Sym) : Rat := (tagOf tags nt P).getD 0

/-- product of the rule weights along a derivation -/
def derWeight (tags : Tags S T) (d : List (NT S T × Sym)) : Rat :=
  (d.map (fun x => weight tags x.1 x.2)).prod

/-- **the probability of the statement**: product of the weights of the rules of the unique
    top-down derivation, 0 for a program outside the language -/
def prob (G : TT S Unit) (tags : Tags S Unit) (t : Prog) (nt : NT S Unit) : Rat :=
  if gen G t nt then derWeight tags (derivation G t nt) else 0

def argNT (a : Ty × S) : NT S Unit := (a.1, (a.2, ()))

/-- every derivation from `nt` is complete within `k` nested levels (the grammar is finite
    below `nt`, all argument non-terminals have rules) -/
def bounded (G : TT S Unit) : Nat → NT S Unit → Bool
  | 0, _ => false
  | k + 1, nt =>
    match AList.lookup nt G.rules with
    | none => false
    | some rs => rs.all (fun r => r.2.1.all (fun a => bounded G k (argNT a)))

/-- total probability of the programs of at most `k` levels -/
def mass (G : TT S Unit) (tags : Tags S Unit) (k : Nat) (nt : NT S Unit) : Rat :=
  ((lang G k nt).map (fun t => prob G tags t nt)).sum

/-- the weights of every non-terminal of the grammar sum to 1, and a dict has no repeated key -/
def Normalised (G : TT S Unit) (tags : Tags S Unit) : Prop :=
  ∀ e ∈ G.rules, (e.2.map (fun r => weight tags e.1 r.1)).sum = 1 ∧ (AList.keys e.2).Nodup

/-- decidable version, evaluated by the driver on the implementation's tables -/
def normalisedB (G : TT S Unit) (tags : Tags S Unit) : Bool :=
  G.rules.all (fun e => decide ((e.2.map (fun r => weight tags e.1 r.1)).sum = 1) &&
    decide ((AList.keys e.2).Nodup))

end PS.G

/-! ## Probabilistic unambiguous grammars -/
namespace PS.U
open PS PS.G

variable {U : Type} [DecidableEq U]

/-- `tags : Dict[NT, Dict[DerivableProgram, Dict[Tuple[NT, ...], float]]]` and `start_tags` -/
structure UTags (U : Type) where
  tags : AList (UNT U) (AList Sym (AList (List (UNT U)) Rat))
  startTags : AList (UNT U) Rat

/-- `self.tags[S][P][tuple(V)]`; `none` = KeyError -/
def tagOfU (tg : UTags U) (nt : UNT U) (P : Sym) (v : List (UNT U)) : Option Rat :=
  match AList.lookup nt tg.tags with
  | none => none
  | some d =>
    match AList.lookup P d with
    | none => none
    | some a => AList.lookup v a

/-- `value = init; for __, S, P, v, _ in possibles: value = reduce(value, S, P, v)` with
    `reduce = lambda current, S, P, V: current * self.tags[S][P][tuple(V)]` -/
def foldSteps (tg : UTags U) : Option Rat → List (Step U) → Option Rat
  | acc, [] => acc
  | none, _ :: _ => none
  | some c, e :: es => foldSteps tg ((tagOfU tg e.nt e.sym e.args).map (fun w => c * w)) es

/-- `ProbUGrammar.probability(program)`: every alternative is reduced (a KeyError in any of
    them gives 0), then `values[0] if values else 0`.  **No start-symbol factor** (C04-F1). -/
def probabilityU (G : UCFG U) (tg : UTags U) (p : Prog) : Rat :=
  let vals := (reduceAll G p).map (foldSteps tg (some 1))
  if vals.any Option.isNone then 0 else
  match vals with
  | some v :: _ => v
  | _ => 0

def altSum (a : AList (List (UNT U)) Rat) : Rat := (a.map (·.2)).sum
def rowSumU (d : AList Sym (AList (List (UNT U)) Rat)) : Rat := (d.map (fun e => altSum e.2)).sum

/-- `ProbUGrammar.normalise()` -/
def normaliseU (tg : UTags U) : UTags U :=
  { tags := tg.tags.map (fun e => (e.1, e.2.map (fun r => (r.1, r.2.map (fun a => (a.1, a.2 / rowSumU e.2)))))),
    startTags := tg.startTags.map (fun e => (e.1, e.2 / (tg.startTags.map (·.2)).sum)) }

/-- `ProbUGrammar.uniform(grammar)`: `n = Σ_P len(rules[S][P])`, every alternative `1 / n`
    (a dict comprehension: equal alternatives are merged), starts `1 / len(starts)` -/
def uniformU (G : UCFG U) : UTags U :=
  { tags := G.rules.map (fun e =>
      let n : Nat := (e.2.map (fun r => r.2.length)).sum
      (e.1, e.2.map (fun r => (r.1, r.2.foldl (fun d v => AList.insert v (1 / (n : Rat)) d) [])))),
    startTags := G.starts.foldl (fun d s => AList.insert s (1 / (G.starts.length : Rat)) d) [] }

/-! ### Specification -/

def weightU (tg : UTags U) (x : UNT U × Sym × List (UNT U)) : Rat :=
  (tagOfU tg x.1 x.2.1 x.2.2).getD 0

def derWeightU (tg : UTags U) (d : Der U) : Rat := (d.map (weightU tg)).prod

def startWeight (tg : UTags U) (s : UNT U) : Rat := (AList.lookup s tg.startTags).getD 0

/-- **the probability of the statement**: probability of the start symbol times the product of
    the rule weights of the derivation (the first one; unique when the grammar is unambiguous),
    0 when there is none -/
def probU (G : UCFG U) (tg : UTags U) (t : Prog) : Rat :=
  match allDerivs G t with
  | [] => 0
  | (s, d) :: _ => startWeight tg s * derWeightU tg d

/-- weights of every non-terminal sum to 1, start weights sum to 1 -/
def normalisedUB (G : UCFG U) (tg : UTags U) : Bool :=
  G.rules.all (fun e =>
    decide ((e.2.map (fun r => (r.2.map (fun args => weightU tg (e.1, r.1, args))).sum)).sum = 1)) &&
  decide ((G.starts.map (startWeight tg)).sum = 1)

end PS.U
