/-
  Model of synth/syntax/grammars/ttcfg.py (property C13), on top of PS/Model/Grammar.lean
  (`TT`, `deriveWith` = TTCFG.derive, `containsRec` = DetGrammar.__contains_rec__) and
  PS/Model/Cfg.lean (`successor` = NGram.successor, `forbKey`).

  MODEL (literal transcriptions, core Lean only)
  * `sizeTransition`, `atMostTransition`   the two `__transition__` closures of
        `TTCFG.size_constraint` / `TTCFG.at_most_k` (ttcfg.py:389-414, 433-451) as written now
        (after the repair of the forbidden test, de1af6d).  `sizeTransition` has a flag
        `actual`: `false` = the code as it is (the number of arguments charged is the DECLARED
        arity `len(derivation.type.arguments())`, a leaf is "not an Arrow"), `true` = the code
        with the proposed repair C13-F3 (the arguments the derivation takes HERE,
        `derivation.type.ends_with(state[0])`).
  * `candidates`, `rowList`, `rowDict`     the body of one iteration of the worklist loop of
        `__saturation_build__` (ttcfg.py:495-518): variables of exactly the slot's type, then
        the DSL primitives whose type ends with the slot's type, each kept iff the transition
        allows it.
  * `satLoop`, `saturationBuild`           the worklist (a deque used as a stack: `append` /
        `pop`), de-duplicated on the rule key only - the pending stack is NOT part of the key
        (finding C13-F2).
  * `reachLoop`, `passLoop`, `passes`, `clean`   `TTCFG.clean` (ttcfg.py:207-260): reachability
        pass, then the empty-removal pass repeated until it reports no change.
  * `compute`, `programs`                  `TTCFG.programs` (ttcfg.py:279-308): end-state
        dictionaries (the memo table `_counts` only caches a pure function and is not modelled;
        running out of fuel = RecursionError on a cyclic table).
  * `mulRaw`, `mul`                        `__mul_ttcfg__` (ttcfg.py:99-139): table, then clean.
  * `guessTypeRequest`                     `DetGrammar._guess_type_request_`.
  * `sizeConstraint`, `atMostK`            the two constructors (table, clean, type request).

  SPECIFICATION (what the property says, stated without the algorithm)
  * `run` / `runList`     the language of a tree-traversing rule function, stack free: a term
        derived from slot `(type, S)` in state `v` ends in a state; argument `i` starts in the
        state in which argument `i-1` ended.
  * `wtT`                 well-typed terms over the DSL *as the saturation builder targets them*:
        a variable only as a leaf of exactly the slot's type (function-typed variables are
        never applied), no untyped constants, a primitive applied to as many arguments as make
        its type end with the slot's type (zero arguments = the primitive passed as a value),
        and no forbidden (parent, index, child) pattern - `vis` says what a child sees of its
        parent (`some` = the statement; `effParentT n` = what an n-gram of width n shows).
  * `Sized`, `AtMostOcc`  the two languages of the statement.
  * checkers `langOK`, `closedOK` (verified in PS/Proofs/TtcfgCert.lean, evaluated on the
        implementation's actual tables in every generated case).
-/
import PS.Model.Cfg
namespace PS.T
open PS PS.G

abbrev Ctx := List (Sym × Nat)

structure Dsl where
  prims : List Sym                                  -- dsl.list_primitives
  forbidden : AList (String × Nat) (List String)    -- dsl.forbidden_patterns
  deriving Repr

/-! ## Specification -/

section Run
variable {S T : Type}

/-- a rule function: what `rules[(type, (S, T))][P]` holds, if anything -/
abbrev RuleFn (S T : Type) := NT S T → Sym → Option (List (Ty × S) × T)

/- `run ρ t slot v = some v'`: `t` is derivable from the non-terminal `(slot.type, (slot.S, v))`
   and the derivation ends in state `v'`. -/
mutual
  def run (ρ : RuleFn S T) : Prog → Ty × S → T → Option T
    | .node f kids, slot, v =>
      match ρ (slot.1, (slot.2, v)) f with
      | none => none
      | some (args, st) => runList ρ kids args st
  def runList (ρ : RuleFn S T) : List Prog → List (Ty × S) → T → Option T
    | [], [], v => some v
    | k :: ks, a :: as, v =>
      match run ρ k a v with
      | none => none
      | some v' => runList ρ ks as v'
    | _, _, _ => none
end

/-- the language of a table from its start symbol -/
def inLang [DecidableEq S] [DecidableEq T] (G : TT S T) (t : Prog) : Bool :=
  (run G.rule? t (G.start.1, G.start.2.1) G.start.2.2).isSome

end Run

/-- variables of exactly the slot's type (as leaves), then the primitives whose type ends with
    the slot's type, with the argument types they take here (ttcfg.py:496-508) -/
def candidates (prims : List Sym) (request : Ty) (ty : Ty) : List (Sym × List Ty) :=
  ((enumFrom' request.arguments).filterMap (fun iv =>
      if ty = iv.2 then some (Sym.var iv.1 ty, []) else none)) ++
  (prims.filterMap (fun p =>
      match p.ty.endsWith ty with
      | some tys => some (p, tys)
      | none => none))

/-- `forbidden_sets.get((parent.primitive, i) if parent is a Primitive else ("", 0), set())` -/
def forbAtT (dsl : Dsl) (parent : Option (Sym × Nat)) : List String :=
  (AList.lookup (forbKey parent) dsl.forbidden).getD []

/-- `isinstance(derivation, Primitive) and derivation.primitive in forbidden_sets.get(...)` -/
def forbHit (dsl : Dsl) (parent : Option (Sym × Nat)) (P : Sym) : Bool :=
  P.kind == .prim && (forbAtT dsl parent).contains P.name

/-- what an n-gram of width `n` shows a child of its parent: with `n_gram ∈ {0,1}` nothing -/
def effParentT (n : Int) (parent : Sym × Nat) : Option (Sym × Nat) :=
  if n ≥ 2 ∨ n < 0 then some parent else none

mutual
  def wtT (dsl : Dsl) (request : Ty) (vis : Sym × Nat → Option (Sym × Nat)) :
      Prog → Option (Sym × Nat) → Ty → Bool
    | .node f kids, parent, ty =>
      !(forbHit dsl parent f) &&
      (candidates dsl.prims request ty).any (fun c => c.1 == f && wtTList dsl request vis kids f 0 c.2)
  def wtTList (dsl : Dsl) (request : Ty) (vis : Sym × Nat → Option (Sym × Nat)) :
      List Prog → Sym → Nat → List Ty → Bool
    | [], _, _, [] => true
    | k :: ks, f, i, ty :: tys =>
      wtT dsl request vis k (vis (f, i)) ty && wtTList dsl request vis ks f (i + 1) tys
    | _, _, _, _ => false
end

/-- printed form of a symbol (`str(derivation)`) -/
def symStr (s : Sym) : String :=
  match s.kind with
  | .prim => s.name
  | .var => "var" ++ toString s.idx
  | .const => s.name

/- number of nodes whose printed symbol is `name` -/
mutual
  def occ (name : String) : Prog → Nat
    | .node f kids => (if symStr f = name then 1 else 0) + occList name kids
  def occList (name : String) : List Prog → Nat
    | [] => 0
    | k :: ks => occ name k + occList name ks
end

/-- **the size-bounded language of the statement**: well-typed, at most `k` nodes, no forbidden
    pattern -/
def Sized (dsl : Dsl) (request : Ty) (k : Nat) (t : Prog) : Bool :=
  wtT dsl request some t none request.returns && decide (Tree.size t ≤ k)

/-- **the occurrence-bounded language of the statement** -/
def AtMostOcc (dsl : Dsl) (request : Ty) (name : String) (k : Nat) (t : Prog) : Bool :=
  wtT dsl request some t none request.returns && decide (occ name t ≤ k)

/-- the same two languages with the parent seen through an n-gram of width `n` -/
def SizedVis (dsl : Dsl) (request : Ty) (n : Int) (k : Nat) (t : Prog) : Bool :=
  wtT dsl request (effParentT n) t none request.returns && decide (Tree.size t ≤ k)
def AtMostOccVis (dsl : Dsl) (request : Ty) (n : Int) (name : String) (k : Nat) (t : Prog) : Bool :=
  wtT dsl request (effParentT n) t none request.returns && decide (occ name t ≤ k)

/-- no primitive takes a function as an argument: then no slot has a function type, no
    primitive is ever partially applied or passed as a value, and no function-typed variable
    fits a slot (classifier of finding C13-F3) -/
def isArrow : Ty → Bool
  | .arrow _ _ => true
  | _ => false
def firstOrder (dsl : Dsl) : Bool :=
  dsl.prims.all (fun p => p.ty.arguments.all (fun a => !(isArrow a)))

/-! ## The two transition functions -/

/-- `__transition__` of `size_constraint` (ttcfg.py:389-414).  State `(size, future)`. -/
def sizeTransition (dsl : Dsl) (maxSize : Nat) (actual : Bool) (nt : NT Ctx (Nat × Nat)) (P : Sym) :
    Bool × (Nat × Nat) :=
  if forbHit dsl nt.2.1.head? P then (false, (0, 0)) else
  let size := nt.2.2.1
  let future := nt.2.2.2
  if size > maxSize then (false, (0, 0)) else
  let nargs := if actual then ((P.ty.endsWith nt.1).getD []).length else P.ty.arguments.length
  let leaf := if actual then nargs == 0 else !(isArrow P.ty)
  if leaf then
    if future > 0 then (decide (size + future ≤ maxSize), (size + 1, future - 1))
    else (decide (size + 1 + future ≤ maxSize), (size + 1, future))
  else
    if future > 0 then (decide (size + nargs + future ≤ maxSize), (size + 1, future + nargs - 1))
    else (decide (size + nargs + 1 + future ≤ maxSize), (size + 1, future + nargs))

/-- `__transition__` of `at_most_k` (ttcfg.py:433-451).  State `occ_left` (only recorded when the
    derivation is allowed, hence never negative). -/
def atMostTransition (dsl : Dsl) (name : String) (nt : NT Ctx Nat) (P : Sym) : Bool × Nat :=
  if forbHit dsl nt.2.1.head? P then (false, 0) else
  let occLeft := nt.2.2
  if symStr P ≠ name then (true, occLeft) else (decide (occLeft > 0), occLeft - 1)

/-! ## `__saturation_build__` -/

section Builder
variable {S T : Type} [DecidableEq S] [DecidableEq T]

/-- the parameters of the abstract builder -/
structure Builder (S T : Type) where
  init : S × T
  transition : NT S T → Sym → Bool × T
  getNT : NT S T → Sym → Nat → Ty → S

abbrev Row (S T : Type) := AList Sym (List (Ty × S) × T)
abbrev Table (S T : Type) := AList (NT S T) (Row S T)

/-- the rules created for one non-terminal, in creation order -/
def rowList (B : Builder S T) (prims : List Sym) (request : Ty) (rule : NT S T) :
    List (Sym × (List (Ty × S) × T)) :=
  (candidates prims request rule.1).filterMap (fun c =>
    if (B.transition rule c.1).1 then
      some (c.1, ((enumFrom' c.2).map (fun ia => (ia.2, B.getNT rule c.1 ia.1 ia.2)), (B.transition rule c.1).2))
    else none)

/-- `rules[rule][P] = ...` for each of them -/
def rowDict (B : Builder S T) (prims : List Sym) (request : Ty) (rule : NT S T) : Row S T :=
  (rowList B prims request rule).foldl (fun d r => AList.insert r.1 r.2 d) []

/-- the worklist loop; the head of `todo` is the right end of the deque.  `stackKey = false`: the
    code as it is - a popped entry is skipped when its rule key already has a row, whatever its
    pending stack (finding C13-F2).  `stackKey = true`: the code with the proposed repair - an
    entry is skipped only when the same (rule key, pending stack) was treated before (`seen`);
    the row of an existing key is not rebuilt (it would be identical). -/
def satLoop (B : Builder S T) (prims : List Sym) (request : Ty) (stackKey : Bool) :
    Nat → List ((Ty × S) × T × List (Ty × S)) → List (NT S T × List (Ty × S)) → Table S T → Option (Table S T)
  | _, [], _, tbl => some tbl
  | 0, _ :: _, _, _ => none
  | fuel + 1, (slot, cur, stack) :: todo, seen, tbl =>
    let rule : NT S T := (slot.1, (slot.2, cur))
    if (if stackKey then seen.contains (rule, stack) else AList.contains rule tbl) then
      satLoop B prims request stackKey fuel todo seen tbl
    else
    let pushes := (rowList B prims request rule).filterMap (fun r =>
      match r.2.1 ++ stack with
      | [] => none
      | x :: rest => some (x, r.2.2, rest))
    satLoop B prims request stackKey fuel (pushes.reverse ++ todo) ((rule, stack) :: seen)
      (if AList.contains rule tbl then tbl else AList.insert rule (rowDict B prims request rule) tbl)

def startOf (B : Builder S T) (request : Ty) : NT S T := (request.returns, B.init)

/-- the table handed to the `TTCFG` constructor -/
def saturationTable (B : Builder S T) (prims : List Sym) (request : Ty) (stackKey : Bool) (fuel : Nat) :
    Option (TT S T) :=
  match satLoop B prims request stackKey fuel [((request.returns, B.init.1), B.init.2, [])] [] [] with
  | none => none
  | some tbl => some ⟨startOf B request, tbl⟩

end Builder

/-! ## `TTCFG.clean` -/

inductive Res (α : Type) where
  | ok (a : α)
  | fuel          -- the loop did not finish within the fuel (time-out of the implementation)
  | keyError      -- `self.rules[start]` with a start symbol that has no rules
  deriving Repr

section Clean
variable {S T : Type} [DecidableEq S] [DecidableEq T]

/-- `new_rules`: non-terminal ↦ set of derivable programs kept -/
abbrev Marks (S T : Type) := AList (NT S T) (List Sym)

def inRules (G : TT S T) (nt : NT S T) : Bool := AList.contains nt G.rules

/-- 1) only keep reachable states (ttcfg.py:209-224); no de-duplication: the loop walks every
    partial derivation -/
def reachLoop (G : TT S T) : Nat → List (NT S T × List (Ty × S)) → Marks S T → Res (Marks S T)
  | _, [], nr => .ok nr
  | 0, _ :: _, _ => .fuel
  | fuel + 1, (rule, info) :: todo, nr =>
    match AList.lookup rule G.rules with
    | none => .keyError
    | some row =>
      let old := (AList.lookup rule nr).getD []
      let set := row.foldl (fun acc r => if acc.contains r.1 then acc else acc ++ [r.1]) old
      let pushes := row.filterMap (fun r =>
        let d := deriveWith info rule r.2.1 r.2.2
        if inRules G d.2 then some (d.2, d.1) else none)
      reachLoop G fuel (pushes.reverse ++ todo) (AList.insert rule set nr)

/-- one iteration of `for P in list(new_rules[rule])` of the inner `clean()` (ttcfg.py:242-254).
    State: (new_rules, return_value, pushes so far). -/
def passStep (G : TT S T) (rule : NT S T) (info : List (Ty × S))
    (st : Marks S T × Bool × List (NT S T × List (Ty × S))) (P : Sym) :
    Marks S T × Bool × List (NT S T × List (Ty × S)) :=
  match G.rule? rule P with
  | none => st     -- unreachable: P ∈ new_rules[rule] ⊆ self.rules[rule]
  | some (args, s) =>
    let d := deriveWith info rule args s
    if !(AList.contains d.2 st.1) && inRules G d.2 && decide (d.1.length ≥ info.length) then
      let set := ((AList.lookup rule st.1).getD []).erase P
      if set.isEmpty then (AList.erase rule st.1, true, st.2.2)
      else (AList.insert rule set st.1, st.2.1, st.2.2)
    else if inRules G d.2 then (st.1, st.2.1, st.2.2 ++ [(d.2, d.1)])
    else st

/-- the inner `clean()`: one pass from the start symbol -/
def passLoop (G : TT S T) : Nat → List (NT S T × List (Ty × S)) → Marks S T → Bool →
    Res (Marks S T × Bool)
  | _, [], nr, ch => .ok (nr, ch)
  | 0, _ :: _, _, _ => .fuel
  | fuel + 1, (rule, info) :: todo, nr, ch =>
    match AList.lookup rule nr with
    | none => passLoop G fuel todo nr ch
    | some [] => passLoop G fuel todo (AList.erase rule nr) true
    | some (p :: ps) =>
      let r := (p :: ps).foldl (passStep G rule info) (nr, ch, [])
      passLoop G fuel (r.2.2.reverse ++ todo) r.1 r.2.1

/-- `while clean(): pass` -/
def passes (G : TT S T) (fuel : Nat) : Nat → Marks S T → Res (Marks S T)
  | 0, _ => .fuel
  | n + 1, nr =>
    match passLoop G fuel [(G.start, [])] nr false with
    | .ok (nr', true) => passes G fuel n nr'
    | .ok (nr', false) => .ok nr'
    | .fuel => .fuel
    | .keyError => .keyError

/-- `self.rules = {S: {P: self.rules[S][P] for P in new_rules[S]} for S in new_rules}` -/
def restrict (G : TT S T) (nr : Marks S T) : TT S T :=
  ⟨G.start, nr.map (fun e => (e.1, e.2.filterMap (fun P =>
      match G.rule? e.1 P with
      | some v => some (P, v)
      | none => none)))⟩

def clean (G : TT S T) (fuel : Nat) : Res (TT S T) :=
  match reachLoop G fuel [(G.start, [])] [] with
  | .ok nr =>
    match passes G fuel fuel nr with
    | .ok nr' => .ok (restrict G nr')
    | .fuel => .fuel
    | .keyError => .keyError
  | .fuel => .fuel
  | .keyError => .keyError

end Clean

/-! ## `TTCFG.programs` -/

section Programs
variable {S T : Type} [DecidableEq S] [DecidableEq T]

/-- `d[k] += n` on a `defaultdict(int)` -/
def addTo (k : T) (n : Nat) (d : AList T Nat) : AList T Nat :=
  match AList.lookup k d with
  | some m => AList.insert k (m + n) d
  | none => AList.insert k n d

/-- `for nV, nC in __compute__(next_new_state).items(): next_local[nV] += nC * cnt` -/
def addScaled (cnt : Nat) (sub : AList T Nat) (acc : AList T Nat) : AList T Nat :=
  sub.foldl (fun a e => addTo e.1 (e.2 * cnt) a) acc

/-- one `base = info.pop(0)` round (ttcfg.py:296-302) -/
def stepLocal (rec : NT S T → Option (AList T Nat)) (base : Ty × S) :
    AList T Nat → AList T Nat → Option (AList T Nat)
  | [], acc => some acc
  | (v, cnt) :: rest, acc =>
    match rec (base.1, (base.2, v)) with
    | none => none
    | some sub => stepLocal rec base rest (addScaled cnt sub acc)

/-- `while info: ...` -/
def chainLocal (rec : NT S T → Option (AList T Nat)) : List (Ty × S) → AList T Nat → Option (AList T Nat)
  | [], loc => some loc
  | base :: info, loc =>
    match stepLocal rec base loc [] with
    | none => none
    | some nl => chainLocal rec info nl

/-- `for P in self.rules[state]: ...` -/
def rowCounts (rec : NT S T → Option (AList T Nat)) (state : NT S T) :
    Row S T → AList T Nat → Option (AList T Nat)
  | [], out => some out
  | r :: rs, out =>
    let d := deriveWith [] state r.2.1 r.2.2
    match rec d.2 with
    | none => none
    | some loc =>
      match chainLocal rec d.1 loc with
      | none => none
      | some loc' => rowCounts rec state rs (addScaled 1 loc' out)

/-- `__compute__` (fuel = recursion depth) -/
def compute (G : TT S T) : Nat → NT S T → Option (AList T Nat)
  | 0, _ => none
  | fuel + 1, state =>
    match AList.lookup state G.rules with
    | none => some [(state.2.2, 1)]
    | some row => rowCounts (compute G fuel) state row []

def programs (G : TT S T) (fuel : Nat) : Option Nat :=
  (compute G fuel G.start).map (fun d => (d.map (·.2)).sum)

end Programs


/-! ## enumeration of the language of a table (specification of `programs()`) -/

section LangT
variable {S T : Type} [DecidableEq S] [DecidableEq T]

/-- all ways to derive a list of argument slots one after the other, starting in state `v`:
    (terms, end state) -/
def seqsT (rec : Ty × S → T → List (Prog × T)) : List (Ty × S) → T → List (List Prog × T)
  | [], v => [([], v)]
  | a :: as, v => (rec a v).flatMap (fun tw => (seqsT rec as tw.2).map (fun kw => (tw.1 :: kw.1, kw.2)))

/-- the terms derivable from `(slot, v)` within `k` levels, with the state each ends in -/
def langT (G : TT S T) : Nat → Ty × S → T → List (Prog × T)
  | 0, _, _ => []
  | k + 1, slot, v =>
    match AList.lookup (slot.1, (slot.2, v)) G.rules with
    | none => []
    | some row => row.flatMap (fun r =>
        (seqsT (langT G k) r.2.1 r.2.2).map (fun kw => (Tree.node r.1 kw.1, kw.2)))

/-- the programs of the grammar, enumerated within `k` levels -/
def langOf (G : TT S T) (k : Nat) : List Prog :=
  (langT G k (G.start.1, G.start.2.1) G.start.2.2).map (·.1)

end LangT


/-! ## the code with the proposed repair C13-F6 (empty grammars) -/
section EmptyFix
variable {S T : Type} [DecidableEq S] [DecidableEq T]

/-- `clean()` with `if self.start not in self.rules: self.rules = {}; return` in front -/
def cleanFixed (G : TT S T) (fuel : Nat) : Res (TT S T) :=
  if AList.contains G.start G.rules then clean G fuel else .ok ⟨G.start, []⟩

/-- `programs()` with `if self.start not in self.rules: return 0` in front -/
def programsFixed (G : TT S T) (fuel : Nat) : Option Nat :=
  if AList.contains G.start G.rules then programs G fuel else some 0

end EmptyFix

/-! ## product -/

section Mul
variable {S T U V : Type} [DecidableEq S] [DecidableEq T] [DecidableEq U] [DecidableEq V]

/-- the row of the product non-terminal: for P1 in rules1, for P2 in rules2, P1 == P2 (the rows
    are dicts, so the body runs at most once per P1: when P1 is a key of the second row) -/
def mulRow (r1 : Row S T) (r2 : Row U V) : Row (S × U) (T × V) :=
  r1.filterMap (fun e =>
    match AList.lookup e.1 r2 with
    | none => none
    | some v2 => some (e.1, (List.zipWith (fun el1 el2 => (el1.1, (el1.2, el2.2))) e.2.1 v2.1, (e.2.2, v2.2))))

/-- `__mul_ttcfg__` before cleaning (ttcfg.py:103-137) -/
def mulRaw (G1 : TT S T) (G2 : TT U V) : TT (S × U) (T × V) :=
  ⟨(G1.start.1, ((G1.start.2.1, G2.start.2.1), (G1.start.2.2, G2.start.2.2))),
   G1.rules.flatMap (fun e1 => G2.rules.filterMap (fun e2 =>
     if e1.1.1 = e2.1.1 then
       some ((e1.1.1, ((e1.1.2.1, e2.1.2.1), (e1.1.2.2, e2.1.2.2))), mulRow e1.2 e2.2)
     else none))⟩

def mul (G1 : TT S T) (G2 : TT U V) (fuel : Nat) : Res (TT (S × U) (T × V)) :=
  clean (mulRaw G1 G2) fuel

end Mul


/-- every rule gives its symbol the argument types that the symbol's type has at the type of the
    non-terminal (what grammars compiled from a DSL satisfy); decidable, evaluated by the driver
    on both factors of every product -/
def typedOK {S T : Type} (G : TT S T) : Bool :=
  G.rules.all (fun e => e.2.all (fun r => r.1.ty.endsWith e.1.1 == some (r.2.1.map (·.1))))

/-! ## type request -/

section TR
variable {S T : Type}

/-- `_guess_type_request_` (det_grammar.py:90-108) -/
def guessTypeRequest (G : TT S T) : Ty :=
  let vars := (G.rules.flatMap (fun e => e.2.filterMap (fun r => if r.1.kind = .var then some r.1 else none))).eraseDups
  let n := vars.length
  (List.range n).foldl (fun ty i =>
    let j := n - i - 1
    vars.foldl (fun ty v => if v.idx = j then Ty.arrow v.ty ty else ty) ty) G.start.1

end TR


/-! ## Verified checkers (certificates are computed by unverified driver code and CHECKED here;
     the theorems are in PS/Proofs/TtcfgCert.lean, TtcfgClean.lean, TtcfgCount.lean) -/

section Cert
variable {S T : Type} [DecidableEq S] [DecidableEq T]

def outsOf (outs : AList (NT S T) (List T)) (nt : NT S T) : List T := (AList.lookup nt outs).getD []

/-- one argument slot `a` entered in every state of `V`: each `(a, v)` must be a non-terminal
    of the table that passes `ok` (then it contributes its certified outcomes) or be certified
    dead (then it contributes nothing); otherwise the chain FAILS -/
def chainStep (G : TT S T) (outs : AList (NT S T) (List T)) (dead : List (NT S T)) (ok : NT S T → Bool)
    (a : Ty × S) : List T → Option (List T)
  | [] => some []
  | v :: vs =>
    match chainStep G outs dead ok a vs with
    | none => none
    | some r =>
      if AList.contains (a.1, (a.2, v)) G.rules then
        (if ok (a.1, (a.2, v)) then some (outsOf outs (a.1, (a.2, v)) ++ r) else none)
      else if dead.contains (a.1, (a.2, v)) then some r else none

/-- the states in which a list of argument slots can end when entered in a state of `V` -/
def chain (G : TT S T) (outs : AList (NT S T) (List T)) (dead : List (NT S T)) (ok : NT S T → Bool) :
    List (Ty × S) → List T → Option (List T)
  | [], V => some V
  | a :: as, V =>
    match chainStep G outs dead ok a V with
    | none => none
    | some V' => chain G outs dead ok as V'

/-- every entry of `row` is what the reference row holds for that symbol -/
def rowSub (row ref : Row S T) : Bool := row.all (fun r => AList.lookup r.1 ref == some r.2)

/-- `subOK rows G outs dead`: `G` is a sub-table of the reference rule function `rows` that
    loses no program: (1) keys distinct, every kept rule is a reference rule; (2) for every
    reference rule of a key the chain of its arguments never leaves keys ∪ dead, ends inside the
    certified outcomes of the key if the rule is kept and NOWHERE if it was dropped; (3) every
    rule of a dead non-terminal ends nowhere; (4) the start symbol is a key or dead. -/
def subOK (rows : NT S T → Row S T) (G : TT S T) (outs : AList (NT S T) (List T)) (dead : List (NT S T)) : Bool :=
  decide ((AList.keys G.rules).Nodup) &&
  G.rules.all (fun e =>
    rowSub e.2 (rows e.1) &&
    (rows e.1).all (fun r =>
      match chain G outs dead (fun _ => true) r.2.1 [r.2.2] with
      | none => false
      | some V =>
        if (AList.lookup r.1 e.2).isSome then V.all (fun v => (outsOf outs e.1).contains v)
        else V.isEmpty)) &&
  dead.all (fun d =>
    !(AList.contains d G.rules) &&
    (rows d).all (fun r =>
      match chain G outs dead (fun _ => true) r.2.1 [r.2.2] with
      | none => false
      | some V => V.isEmpty)) &&
  (AList.contains G.start G.rules || dead.contains G.start)

def rankOf (rk : AList (NT S T) Nat) (nt : NT S T) : Nat := (AList.lookup nt rk).getD 0

/-- `closedOK G outs rk`: the table is CLEAN - (1) keys and row symbols distinct, no key of
    type Unknown (the end marker of `derive`), the start symbol is a key; (2) no row is empty;
    (3) for every rule the chain of its arguments stays inside the keys (whatever state the
    previous argument ends in, the next non-terminal exists), ends inside the certified
    outcomes of its key, and every non-terminal on the way has a smaller rank (so every
    derivation is finite). -/
def closedOK (G : TT S T) (outs : AList (NT S T) (List T)) (rk : AList (NT S T) Nat) : Bool :=
  decide ((AList.keys G.rules).Nodup) &&
  AList.contains G.start G.rules &&
  G.rules.all (fun e =>
    decide ((AList.keys e.2).Nodup) && decide (e.1.1 ≠ Ty.unknown) && !e.2.isEmpty &&
    e.2.all (fun r =>
      match chain G outs [] (fun nt => decide (rankOf rk nt < rankOf rk e.1)) r.2.1 [r.2.2] with
      | none => false
      | some V => V.all (fun v => (outsOf outs e.1).contains v)))

end Cert

/-! ## the two constructors -/

/-- a grammar object: rule table + reported type request -/
structure TTG (S T : Type) where
  G : TT S T
  typeRequest : Ty

def sizeBuilder (dsl : Dsl) (nGram : Int) (maxSize : Nat) (actual : Bool) : Builder Ctx (Nat × Nat) :=
  { init := ([], (0, 0)),
    transition := sizeTransition dsl maxSize actual,
    getNT := fun ctx P i _ => successor nGram ctx.2.1 (P, i) }

def atMostBuilder (dsl : Dsl) (nGram : Int) (name : String) (k : Nat) : Builder Ctx Nat :=
  { init := ([], k),
    transition := atMostTransition dsl name,
    getNT := fun ctx P i _ => successor nGram ctx.2.1 (P, i) }

/-- `TTCFG.size_constraint(dsl, type_request, max_size, n_gram)` -/
def sizeConstraint (dsl : Dsl) (request : Ty) (maxSize : Nat) (nGram : Int) (actual stackKey : Bool) (fuel : Nat) :
    Res (TTG Ctx (Nat × Nat)) :=
  match saturationTable (sizeBuilder dsl nGram maxSize actual) dsl.prims request stackKey fuel with
  | none => .fuel
  | some G0 =>
    match clean G0 fuel with
    | .ok G => .ok ⟨G, request⟩
    | .fuel => .fuel
    | .keyError => .keyError

/-- `TTCFG.at_most_k(dsl, type_request, primitive, k, n_gram)` -/
def atMostK (dsl : Dsl) (request : Ty) (name : String) (k : Nat) (nGram : Int) (stackKey : Bool) (fuel : Nat) :
    Res (TTG Ctx Nat) :=
  match saturationTable (atMostBuilder dsl nGram name k) dsl.prims request stackKey fuel with
  | none => .fuel
  | some G0 =>
    match clean G0 fuel with
    | .ok G => .ok ⟨G, request⟩
    | .fuel => .fuel
    | .keyError => .keyError

/-! ## `TTCFG.programs` with the proposed repair C13-F5 (count): a missing non-terminal is the end
     of a derivation only when it carries the end-marker type `UnknownType` of `derive`; any other
     non-terminal without rules (removed by `clean()`) derives nothing -/
section ProgramsR
variable {S T : Type} [DecidableEq S] [DecidableEq T]

/-- `__compute__` with `return {state[1][1]: 1} if isinstance(state[0], UnknownType) else {}` -/
def computeR (G : TT S T) : Nat → NT S T → Option (AList T Nat)
  | 0, _ => none
  | fuel + 1, state =>
    match AList.lookup state G.rules with
    | none => if state.1 = Ty.unknown then some [(state.2.2, 1)] else some []
    | some row => rowCounts (computeR G fuel) state row []

/-- `programs()` with both repairs (C13-F6: no start symbol = 0 programs; C13-F5) -/
def programsR (G : TT S T) (fuel : Nat) : Option Nat :=
  if AList.contains G.start G.rules then (computeR G fuel G.start).map (fun d => (d.map (·.2)).sum) else some 0

end ProgramsR

/-! ## product of two grammar objects (ttcfg.py:98-141 as it is now: `clean()` with the test for a
     missing start symbol, `grammar.type_request = self.type_request`, 26a6c4e) -/
section MulG
variable {S T U V : Type} [DecidableEq S] [DecidableEq T] [DecidableEq U] [DecidableEq V]

/-- `g1 * g2` (the assertion `self.type_request == other.type_request` is a precondition) -/
def mulTTG (g1 : TTG S T) (g2 : TTG U V) (fuel : Nat) : Res (TTG (S × U) (T × V)) :=
  match cleanFixed (mulRaw g1.G g2.G) fuel with
  | .ok G => .ok ⟨G, g1.typeRequest⟩
  | .fuel => .fuel
  | .keyError => .keyError

end MulG

/-! ## a decidable sufficient condition for `at_most_k` to return (checked certificate) -/

/-- all `(arguments taken, slot type)` with `t.endsWith slot = some arguments` -/
def suffixesRec : Ty → List Ty → List (List Ty × Ty)
  | .arrow a b, acc => (acc, .arrow a b) :: suffixesRec b (acc ++ [a])
  | t, acc => [(acc, t)]

def suffixes (t : Ty) : List (List Ty × Ty) := suffixesRec t []

def tyRank (rkT : AList Ty Nat) (t : Ty) : Nat := (AList.lookup t rkT).getD 0

/-- the certificate checker -/
def uncountedRanked (dsl : Dsl) (name : String) (rkT : AList Ty Nat) : Bool :=
  dsl.prims.all (fun p => decide (symStr p = name) ||
    (suffixes p.ty).all (fun s => s.1.all (fun a => decide (tyRank rkT a < tyRank rkT s.2))))


end PS.T
