/-
  Model of synth/syntax/automata/tree_automaton.py  (property C07; reused by C05, C06).

  `DFTA σ Q` : deterministic bottom-up finite tree automaton, letters `σ`, states `Q`.
     rules  : Python `Dict[Tuple[V, Tuple[U, ...]], U]`  → `AList (σ × List Q) Q`
     finals : Python `Set[U]`                            → `List Q` (membership only)

  API (each definition names the lines it transcribes):
     read            tree_automaton.py:100-101
     run / runList   bottom-up run of the automaton on a `PS.Tree σ` (what `read` is for)
     accepts         the language of the automaton
     states          :67-87   (reachability fix-point)
     removeUnreachable :103-111, removeUnproductive :113-…, reduce
     readProduct     :133-157
     readUnionWith / readUnion :159-213 (`fusion`, default = pair of options)
     mapStates       :317-324
     minimiseWith / minimise :223-315 (Brainerd partition refinement)

  Python sets are lists here; where Python builds a set by adding elements one at a time the
  model uses `addNew` (append when absent), so these lists are duplicate free.  The order of
  a set never influences a result of this file except the *names* of the states returned by
  `minimise` (a state of the minimised automaton is the tuple of the members of a class);
  the initial orders of the two classes are therefore parameters (`minimiseCore`).
  Core Lean only.
-/
import PS.Basic
import PS.Model.Tree
namespace PS

namespace AList
variable {κ ν : Type} [DecidableEq κ]

/-- Python `for (k, v) in xs: d[k] = v`. -/
def insertMany (d : AList κ ν) (xs : List (κ × ν)) : AList κ ν :=
  xs.foldl (fun d x => insert x.1 x.2 d) d

/-- Python `{k: v for (k, v) in xs}` / `dict(xs)`: later entries overwrite earlier ones. -/
def ofList (xs : List (κ × ν)) : AList κ ν := insertMany [] xs

end AList

/-- `set.add` on a list without duplicates. -/
def addNew {α : Type} [DecidableEq α] (acc : List α) (a : α) : List α :=
  if a ∈ acc then acc else acc ++ [a]

/-- Python `while changed:` loops that only ever add elements to a set: run `pass` until
    nothing was added (`fuel` bounds the number of passes). -/
def growLoop {α : Type} (pass : List α → List α) : Nat → List α → List α
  | 0, r => r
  | n + 1, r => if (pass r).length = r.length then r else growLoop pass n (pass r)

/-- Python `itertools.product(*cases)` (first component varies slowest). -/
def cartesian {α : Type} : List (List α) → List (List α)
  | [] => [[]]
  | c :: cs => c.flatMap (fun x => (cartesian cs).map (fun r => x :: r))

structure DFTA (σ Q : Type) where
  rules : AList (σ × List Q) Q
  finals : List Q
  deriving Repr

namespace DFTA
variable {σ Q Q₁ Q₂ X : Type} [DecidableEq σ] [DecidableEq Q] [DecidableEq Q₁] [DecidableEq Q₂]
  [DecidableEq X]

/-- `DFTA.read` (tree_automaton.py:100-101): `self.rules.get((letter, children), None)`. -/
def read (A : DFTA σ Q) (l : σ) (qs : List Q) : Option Q := AList.lookup (l, qs) A.rules

mutual
  /-- bottom-up run: the state reached on a tree, if every `read` on the way is defined -/
  def run (A : DFTA σ Q) : Tree σ → Option Q
    | .node l ks => match runList A ks with
      | some qs => A.read l qs
      | none => none
  def runList (A : DFTA σ Q) : List (Tree σ) → Option (List Q)
    | [] => some []
    | t :: ts => match run A t, runList A ts with
      | some q, some qs => some (q :: qs)
      | _, _ => none
end

/-- the language: trees whose run ends in a final state -/
def accepts (A : DFTA σ Q) (t : Tree σ) : Bool :=
  match run A t with
  | some q => decide (q ∈ A.finals)
  | none => false

/-- `DFTA.size` (:61-65) -/
def size (A : DFTA σ Q) : Nat := A.rules.length

/-! ### reachable states (`DFTA.states`, :67-87)
  The Python loop groups the rules by target and repeatedly adds every target that has a rule
  whose arguments are all reachable already, until a whole pass adds nothing.  One pass of the
  model goes over the rules in table order; the set obtained when nothing changes any more is
  the same (the least set closed under the rules). -/
def reachPass (A : DFTA σ Q) (r : List Q) : List Q :=
  A.rules.foldl (fun acc rule =>
    if rule.1.2.all (fun s => decide (s ∈ acc)) then addNew acc rule.2 else acc) r

def states (A : DFTA σ Q) : List Q := growLoop (reachPass A) (A.rules.length + 1) []

/-- `DFTA.alphabet` (:89-98) -/
def alphabet (A : DFTA σ Q) : List σ := A.rules.foldl (fun acc rule => addNew acc rule.1.1) []

/-- `__remove_unreachable__` (:103-111) -/
def removeUnreachable (A : DFTA σ Q) : DFTA σ Q :=
  let ns := A.states
  { rules := A.rules.filter (fun rule => decide (rule.2 ∈ ns) && rule.1.2.all (fun s => decide (s ∈ ns)))
    finals := A.finals.filter (fun q => decide (q ∈ ns)) }

/-! ### productive states (`__remove_unproductive__`, :113-…, as repaired by proposed fix C07-F1)
  backward fix-point from the final states: the arguments of a rule whose target is productive
  are productive; rules whose target is not productive are deleted. -/
def prodPass (A : DFTA σ Q) (p : List Q) : List Q :=
  A.rules.foldl (fun acc rule => if rule.2 ∈ acc then rule.1.2.foldl addNew acc else acc) p

/-- number of argument positions of the table: a bound on the number of passes -/
def argCount (A : DFTA σ Q) : Nat := (A.rules.map (fun rule => rule.1.2.length)).sum

def productive (A : DFTA σ Q) : List Q :=
  growLoop (prodPass A) (A.finals.length + A.argCount + 1) (A.finals.foldl addNew [])

def removeUnproductive (A : DFTA σ Q) : DFTA σ Q :=
  let p := A.productive
  { rules := A.rules.filter (fun rule => decide (rule.2 ∈ p)), finals := A.finals }

/-- `__remove_unproductive__` as it is in /repo BEFORE proposed fix C07-F1 (:113-125): a rule is
    deleted only when its target is neither final nor an argument of any remaining rule, until
    nothing changes.  Kept for the witness theorem `finding_C07_F1` only. -/
def removeUnproductiveOld (A : DFTA σ Q) : Nat → DFTA σ Q
  | 0 => A
  | fuel + 1 =>
    let consumed := A.finals ++ A.rules.flatMap (fun rule => rule.1.2)
    let rules' := A.rules.filter (fun rule => decide (rule.2 ∈ consumed))
    if rules'.length = A.rules.length then A
    else removeUnproductiveOld { rules := rules', finals := A.finals } fuel

/-- `DFTA.reduce` (:127-132) -/
def reduce (A : DFTA σ Q) : DFTA σ Q := removeUnproductive (removeUnreachable A)

/-! ### `read_product` (:133-157) -/
def productRules (A : DFTA σ Q₁) (B : DFTA σ Q₂) : List ((σ × List (Q₁ × Q₂)) × (Q₁ × Q₂)) :=
  A.rules.flatMap (fun r1 => B.rules.filterMap (fun r2 =>
    if r1.1.2.length ≠ r2.1.2.length ∨ r1.1.1 ≠ r2.1.1 then none
    else some ((r1.1.1, List.zip r1.1.2 r2.1.2), (r1.2, r2.2))))

def readProduct (A : DFTA σ Q₁) (B : DFTA σ Q₂) : DFTA σ (Q₁ × Q₂) :=
  { rules := AList.ofList (productRules A B)
    finals := A.finals.flatMap (fun d1 => B.finals.map (fun d2 => (d1, d2))) }

/-! ### `read_union` (:159-213) -/
section union
variable (fusion : Option Q₁ → Option Q₂ → X)

/-- `mapping_s[a]` (a `defaultdict(list)`: empty for a state that is not reachable) -/
def mappingS (sa : List Q₁) (sb : List Q₂) (a : Q₁) : List X :=
  if a ∈ sa then sb.map (fun b => fusion (some a) (some b)) ++ [fusion (some a) none] else []

/-- `mapping_o[b]` -/
def mappingO (sa : List Q₁) (sb : List Q₂) (b : Q₂) : List X :=
  if b ∈ sb then sa.map (fun a => fusion (some a) (some b)) ++ [fusion none (some b)] else []

def unionRules1 (A : DFTA σ Q₁) (sa : List Q₁) (sb : List Q₂) : List ((σ × List X) × X) :=
  A.rules.flatMap (fun r1 =>
    (cartesian (r1.1.2.map (mappingS fusion sa sb))).map (fun na => ((r1.1.1, na), fusion (some r1.2) none)))

def unionRules2 (B : DFTA σ Q₂) (sa : List Q₁) (sb : List Q₂) : List ((σ × List X) × X) :=
  B.rules.flatMap (fun r2 =>
    (cartesian (r2.1.2.map (mappingO fusion sa sb))).map (fun na => ((r2.1.1, na), fusion none (some r2.2))))

def unionRules3 (A : DFTA σ Q₁) (B : DFTA σ Q₂) : List ((σ × List X) × X) :=
  A.rules.flatMap (fun r1 => B.rules.filterMap (fun r2 =>
    if r1.1.2.length ≠ r2.1.2.length ∨ r1.1.1 ≠ r2.1.1 then none
    else some ((r1.1.1, List.zipWith (fun a b => fusion (some a) (some b)) r1.1.2 r2.1.2),
               fusion (some r1.2) (some r2.2))))

/-- the automaton built by `read_union` before its final `out.reduce()` -/
def unionRaw (A : DFTA σ Q₁) (B : DFTA σ Q₂) : DFTA σ X :=
  let sa := A.states
  let sb := B.states
  { rules := AList.ofList (unionRules1 fusion A sa sb ++ (unionRules2 fusion B sa sb ++ unionRules3 fusion A B))
    finals := (sa.filter (fun a => decide (a ∈ A.finals))).flatMap (mappingS fusion sa sb)
              ++ (sb.filter (fun b => decide (b ∈ B.finals))).flatMap (mappingO fusion sa sb) }

def readUnionWith (A : DFTA σ Q₁) (B : DFTA σ Q₂) : DFTA σ X := reduce (unionRaw fusion A B)
end union

/-- `read_union` with the default `fusion = lambda x, y: (x, y)` -/
def readUnion (A : DFTA σ Q₁) (B : DFTA σ Q₂) : DFTA σ (Option Q₁ × Option Q₂) :=
  readUnionWith (fun x y => (x, y)) A B

/-! ### `map_states` (:317-324) -/
def mapStates (f : Q → X) (A : DFTA σ Q) : DFTA σ X :=
  { rules := AList.ofList (A.rules.map (fun rule => ((rule.1.1, rule.1.2.map f), f rule.2)))
    finals := A.finals.map f }

/-! ### `minimise` (:223-315) -/

/-- `consumer_of[q]` (:234-247): the pairs (rule key, position) where `q` is consumed, in table
    order and then position order. -/
def consumers (A : DFTA σ Q) (q : Q) : List ((σ × List Q) × Nat) :=
  A.rules.flatMap (fun rule =>
    (List.range rule.1.2.length).filterMap (fun k =>
      if rule.1.2[k]? = some q then some (rule.1, k) else none))

/-- class of the target of the rule with key `S` (`state2cls[self.rules[S]]`) -/
def clsOfKey (A : DFTA σ Q) (s2c : AList Q Nat) (S : σ × List Q) : Option Nat :=
  (AList.lookup S A.rules).bind (fun d => AList.lookup d s2c)

/-- one half of `are_equivalent` (:260-269 resp. :271-277): every rule consuming `a` has a
    counterpart with `b` at that position whose target is in the same class. -/
def halfEquivalent (A : DFTA σ Q) (s2c : AList Q Nat) (a b : Q) : Bool :=
  (consumers A a).all (fun Sk =>
    let newS := (Sk.1.1, Sk.1.2.set Sk.2 b)
    match AList.lookup newS A.rules with
    | none => false
    | some out => AList.lookup out s2c == clsOfKey A s2c Sk.1)

/-- `are_equivalent(a, b)` (:259-278) -/
def areEquivalent (A : DFTA σ Q) (s2c : AList Q Nat) (a b : Q) : Bool :=
  halfEquivalent A s2c a b && halfEquivalent A s2c b a

structure MinState (Q : Type) where
  s2c : AList Q Nat          -- state2cls
  c2s : AList Nat (List Q)   -- cls2states
  n : Nat
  finished : Bool

/-- the `while cls:` loop (:286-310) for class `i`; `fuel` ≥ length of `cls` -/
def splitLoop (A : DFTA σ Q) (i : Nat) : Nat → List Q → MinState Q → MinState Q
  | 0, _, st => st
  | fuel + 1, cls, st =>
    match cls.getLast? with
    | none => st
    | some rep =>                                   -- representative = cls.pop()
      let rest := cls.dropLast
      let same := rest.filter (fun q => areEquivalent A st.s2c rep q)
      let next := rest.filter (fun q => !areEquivalent A st.s2c rep q)
      let newCls := rep :: same
      if next ≠ [] then
        let n := st.n + 1
        splitLoop A i fuel next
          { s2c := newCls.foldl (fun d q => AList.insert q n d) st.s2c
            c2s := AList.insert n newCls st.c2s, n := n, finished := false }
      else
        { st with c2s := AList.insert i newCls st.c2s }

/-- one pass `for i in range(n + 1)` (:283-310); `n` is read once, at the start -/
def minPass (A : DFTA σ Q) (st : MinState Q) : MinState Q :=
  (List.range (st.n + 1)).foldl (fun st i =>
    let cls := (AList.lookup i st.c2s).getD []
    splitLoop A i (cls.length + 1) cls st) { st with finished := true }

/-- `while not finished:` (:281-310) -/
def minLoop (A : DFTA σ Q) : Nat → MinState Q → Option (MinState Q)
  | 0, _ => none
  | fuel + 1, st =>
    let st' := minPass A st
    if st'.finished then some st' else minLoop A fuel st'

/-- `cls2states[state2cls[q]]` -/
def clsTuple (st : MinState Q) (q : Q) : List Q :=
  match AList.lookup q st.s2c with
  | some i => (AList.lookup i st.c2s).getD []
  | none => []

/-- `minimise` with the iteration orders of the two initial classes (non-final, final) given
    and a bound on the number of passes; `f` is the optional `mapping` argument. -/
def minimiseCore (f : List Q → X) (A : DFTA σ Q) (cls0 cls1 : List Q) (fuel : Nat) : Option (DFTA σ X) :=
  let s2c : AList Q Nat := AList.ofList (A.states.map (fun q => (q, if q ∈ A.finals then 1 else 0)))
  let st0 : MinState Q := { s2c := s2c, c2s := [(0, cls0), (1, cls1)], n := 1, finished := false }
  match minLoop A fuel st0 with
  | none => none
  | some st =>
    some { rules := AList.ofList (A.rules.map (fun rule =>
                      ((rule.1.1, rule.1.2.map (fun q => f (clsTuple st q))), f (clsTuple st rule.2))))
           finals := A.finals.map (fun q => f (clsTuple st q)) }

/-- `minimise(mapping)`; the two initial classes are taken in the order of `states`; every pass
    but the last creates a class, so `|states| + 2` passes are enough. -/
def minimiseWith (f : List Q → X) (A : DFTA σ Q) : Option (DFTA σ X) :=
  minimiseCore f A (A.states.filter (fun q => decide (q ∉ A.finals)))
    (A.states.filter (fun q => decide (q ∈ A.finals))) (A.states.length + 2)

/-- `minimise()` (`mapping=None`: a state is the tuple of the members of its class) -/
def minimise (A : DFTA σ Q) : Option (DFTA σ (List Q)) := minimiseWith id A

/-! ### specification vocabulary -/

/-- Python dict keys are unique: the invariant every table coming from Python satisfies. -/
def Det (A : DFTA σ Q) : Prop := (AList.keys A.rules).Nodup

/-- every state mentioned anywhere in the automaton -/
def allStates (A : DFTA σ Q) : List Q :=
  A.rules.flatMap (fun rule => rule.2 :: rule.1.2) ++ A.finals

/-- `allStates` without duplicates -/
def stateSet (A : DFTA σ Q) : List Q := (allStates A).foldl addNew []

/-- number of states of an automaton as Python counts them (`len(dfta.states)`) -/
def numStates (A : DFTA σ Q) : Nat := A.states.length

/-- Executable certificate that `c` (a naming of classes of states) is a congruence of the
    automaton on the states `S`: states with the same name are both final or both not, and
    replacing one by the other at one position of a rule leads to a rule whose target has the
    same name.  `minimise` returns `mapStates c A` for `c = clsTuple st`; the driver evaluates
    this certificate on the final partition of every run (theorem `C07_quotient`). -/
def congruenceCert (A : DFTA σ Q) (c : Q → X) (S : List Q) : Bool :=
  S.all fun q => S.all fun q' =>
    if c q = c q' then
      (decide (q ∈ A.finals) == decide (q' ∈ A.finals)) &&
      (consumers A q).all (fun Sk =>
        match AList.lookup Sk.1 A.rules, AList.lookup (Sk.1.1, Sk.1.2.set Sk.2 q') A.rules with
        | some d, some d' => decide (c d = c d')
        | some _, none => false
        | none, _ => true)
    else true

/-- the final partition of `minimise` (for the certificate) -/
def minimiseState (A : DFTA σ Q) (cls0 cls1 : List Q) (fuel : Nat) : Option (MinState Q) :=
  let s2c : AList Q Nat := AList.ofList (A.states.map (fun q => (q, if q ∈ A.finals then 1 else 0)))
  minLoop A fuel { s2c := s2c, c2s := [(0, cls0), (1, cls1)], n := 1, finished := false }

end DFTA
end PS
