/-
  C08 — splitting a probabilistic unambiguous grammar (grammar_splitter.py, after the repairs
  C08-F1 / C08-F2, see proposed_fixes/).

  * `UG`, `PUG`     unambiguous grammars `UCFG` (u_cfg.py) and `ProbUGrammar`
                    (tagged_u_grammar.py): non-terminals `(type, U)`, rules
                    `nt ↦ symbol ↦ list of alternative argument lists`, weights on the
                    alternatives and on the start symbols (`Rat` instead of `float`).
  * `derive`        `UCFG.derive` (u_cfg.py:131-150): the pending non-terminals are a stack.
  * `Node`, `nodeSplit`, `splitUntil`  derivation-prefix nodes (grammar_splitter.py:26-91).
  * `initGroups`, `Op`, `applyOp`, `applyTrace`  the balancing loop as an operation trace:
                    which swap / which group to split is decided in floating point by the
                    implementation and is an *input* here; what the operations do to the groups
                    (`__apply_swap__`, `__try_split_node_in_group__`) is modelled literally.
  * `pcfgFrom`      the fragment grammar of a group (`__pcfg_from__`).
  * specification:  `run`, `Deriv`, `Matches`, `IsCover`, `completions`, `derivProb`,
                    `cellSpec` (what the property says, independent of the algorithm).
  Core Lean only.
-/
import PS.Basic
import PS.Model.Grammar
namespace PS.Sp
open PS PS.G

/-- non-terminal `(type, U)` -/
abbrev UNT (U : Type) := Ty × U

/-- `UCFG`: `starts` in the iteration order of the Python set, `someStart = _some_start` -/
structure UG (U : Type) where
  starts : List (UNT U)
  rules : AList (UNT U) (AList Sym (List (List (UNT U))))
  someStart : UNT U

/-- `ProbUGrammar` -/
structure PUG (U : Type) where
  g : UG U
  tags : AList (UNT U) (AList Sym (AList (List (UNT U)) Rat))
  startTags : AList (UNT U) Rat

variable {U : Type} [DecidableEq U]

/-- one alternative of `UCFG.derive` (u_cfg.py:141-149): the new pending stack and the next
    non-terminal; `(UnknownType, _some_start[1])` marks the end of the derivation -/
def deriveOne (G : UG U) (info : List (UNT U)) (args : List (UNT U)) : List (UNT U) × UNT U :=
  match args with
  | a :: as => (as ++ info, a)
  | [] =>
    match info with
    | i :: is => (is, i)
    | [] => ([], (Ty.unknown, G.someStart.2))

/-- `UCFG.derive(information, S, P)` (u_cfg.py:131-150) -/
def derive (G : UG U) (info : List (UNT U)) (S : UNT U) (P : Sym) :
    List (List (UNT U) × UNT U × List (UNT U)) :=
  match AList.lookup S G.rules with
  | none => []
  | some rs =>
    match AList.lookup P rs with
    | none => []
    | some cands => cands.map (fun args => ((deriveOne G info args).1, (deriveOne G info args).2, args))

/-- `_Node` (grammar_splitter.py:26-34); `for_next_derivation = (info, S)` -/
structure Node (U : Type) where
  prob : Rat
  info : List (UNT U)
  S : UNT U
  program : List Sym
  history : List (UNT U)
  choices : List (List (UNT U))
  deriving DecidableEq

/-- `pcfg.probabilities[S][P][tuple(args)]` (0 stands for the `KeyError`) -/
def tagOf (pg : PUG U) (S : UNT U) (P : Sym) (args : List (UNT U)) : Rat :=
  match AList.lookup S pg.tags with
  | none => 0
  | some d =>
    match AList.lookup P d with
    | none => 0
    | some dv => (AList.lookup args dv).getD 0

/-- the `_Node(...)` built at grammar_splitter.py:60-66 -/
def child (pg : PUG U) (n : Node U) (P : Sym) (d : List (UNT U) × UNT U × List (UNT U)) : Node U :=
  { prob := n.prob * tagOf pg n.S P d.2.2, info := d.1, S := d.2.1,
    program := n.program ++ [P], history := n.history ++ [n.S], choices := n.choices ++ [d.2.2] }

/-- `__node_split__` (grammar_splitter.py:37-68) -/
def nodeSplit (pg : PUG U) (n : Node U) : Bool × List (Node U) :=
  if AList.contains n.S pg.tags then
    match AList.lookup n.S pg.g.rules with
    | none => (true, [])
    | some rs => (true, rs.flatMap (fun r => (derive pg.g n.info n.S r.1).map (child pg n r.1)))
  else (false, [n])

/-- `bisect.bisect(nodes, new_node)` (bisect_right on the probability) -/
def bisectRight (a : List (Node U)) (x : Rat) : Nat → Nat → Nat → Nat
  | 0, lo, _ => lo
  | f + 1, lo, hi =>
    if lo < hi then
      let mid := (lo + hi) / 2
      match a[mid]? with
      | none => lo
      | some m => if x < m.prob then bisectRight a x f lo mid else bisectRight a x f (mid + 1) hi
    else lo

def insertAt {α : Type} (l : List α) (i : Nat) (x : α) : List α := l.take i ++ x :: l.drop i

def insertNode (nodes : List (Node U)) (k : Node U) : List (Node U) :=
  insertAt nodes (bisectRight nodes k.prob (nodes.length + 1) 0 nodes.length) k

/-- grammar_splitter.py:81-86: `pop(-i)` until a node can be split; a node that cannot be
    split is appended again.  `none` is the `IndexError`. -/
def splitSome (pg : PUG U) : Nat → Nat → List (Node U) → Option (List (Node U) × List (Node U))
  | 0, _, _ => none
  | f + 1, i, nodes =>
    if i = 0 ∨ nodes.length < i then none else
    match nodes[nodes.length - i]? with
    | none => none
    | some nd =>
      match nodeSplit pg nd with
      | (true, kids) => some (kids, nodes.eraseIdx (nodes.length - i))
      | (false, _) => splitSome pg f (i + 1) (nodes.eraseIdx (nodes.length - i) ++ [nd])

/-- grammar_splitter.py:78-79 -/
def startNodes (pg : PUG U) : List (Node U) :=
  pg.startTags.map (fun kp => { prob := kp.2, info := [], S := kp.1, program := [], history := [], choices := [] })

/-- the loop of `__split_nodes_until_quantity_reached__` (grammar_splitter.py:80-91); fuel
    bounds the number of splits (`none`: exception or out of fuel) -/
def splitUntil (pg : PUG U) (quantity : Nat) : Nat → List (Node U) → Option (List (Node U))
  | 0, nodes => if nodes.length < quantity then none else some nodes
  | f + 1, nodes =>
    if nodes.length < quantity then
      match splitSome pg (nodes.length + 1) 1 nodes with
      | none => none
      | some (kids, rest) => splitUntil pg quantity f (kids.foldl insertNode rest)
    else some nodes

/-! ### groups and the balancing loop as an operation trace -/

/-- `prob_groups`: list of `[group, mass]` -/
abbrev PG (U : Type) := List (List (Node U) × Rat)

def flat (pgs : PG U) : List (Node U) := pgs.flatMap (·.1)

/-- insertion in front of the first element that is not lighter: with `foldr` this is a stable
    sort (Python's `sorted`/`list.sort` are stable) -/
def insertByMass (x : List (Node U) × Rat) : PG U → PG U
  | [] => [x]
  | y :: r => if y.2 < x.2 then y :: insertByMass x r else x :: y :: r

def sortByMass (pgs : PG U) : PG U := pgs.foldr (fun x acc => insertByMass x acc) []

/-- grammar_splitter.py: groups of `__split_into_nodes__` before the loop -/
def initGroups (nodes : List (Node U)) (splits : Nat) : PG U :=
  let groups : List (List (Node U)) :=
    match (nodes.take splits).map (fun n => [n]) with
    | [] => []
    | g :: gs => (g ++ nodes.drop splits) :: gs
  sortByMass (groups.map (fun g => (g, (g.map (·.prob)).sum)))

/-- `prob_groups[src][0].pop(idx)`, mass update, `prob_groups[dst][0].append(node)`, mass update -/
def moveNode (pgs : PG U) (src idx dst : Nat) : Option (PG U) :=
  match pgs[src]? with
  | none => none
  | some gs =>
    match gs.1[idx]? with
    | none => none
    | some nd =>
      let pgs1 := pgs.set src (gs.1.eraseIdx idx, gs.2 - nd.prob)
      match pgs1[dst]? with
      | none => none
      | some gd => some (pgs1.set dst (gd.1 ++ [nd], gd.2 + nd.prob))

/-- `__apply_swap__(prob_groups, gi, (j, k, l))` -/
def applySwap (pgs : PG U) (gi j : Nat) (k : Option Nat) (l : Nat) : Option (PG U) :=
  match (match k with | none => some pgs | some k => moveNode pgs gi k j) with
  | none => none
  | some pgs1 =>
    match moveNode pgs1 j l gi with
    | none => none
    | some pgs2 => some (sortByMass pgs2)

/-- stable insertion of an index by the probability of its node -/
def insertIdx (ga : List (Node U)) (x : Nat) : List Nat → List Nat
  | [] => [x]
  | y :: r => if ((ga[y]?).map (·.prob)).getD 0 < ((ga[x]?).map (·.prob)).getD 0 then y :: insertIdx ga x r else x :: y :: r

/-- `sorted(range(len(group_a)), key=lambda idx: group_a[idx].probability)` -/
def orderOf (ga : List (Node U)) : List Nat := (List.range ga.length).foldr (insertIdx ga) []

/-- the search of `__try_split_node_in_group__`: most probable first -/
def trySplitLoop (pg : PUG U) (ga : List (Node U)) (order : List Nat) : Nat → Nat → Option (Nat × List (Node U))
  | 0, _ => none
  | f + 1, i =>
    if i = 0 ∨ order.length < i then none else
    match order[order.length - i]? with
    | none => none
    | some idx =>
      match ga[idx]? with
      | none => none
      | some nd =>
        match nodeSplit pg nd with
        | (true, kids) => some (idx, kids)
        | (false, _) => if i < ga.length then trySplitLoop pg ga order f (i + 1) else none

/-- `__try_split_node_in_group__` (`none` = returned False) -/
def trySplit (pg : PUG U) (pgs : PG U) (gi : Nat) : Option (PG U) :=
  match pgs[gi]? with
  | none => none
  | some ga =>
    match trySplitLoop pg ga.1 (orderOf ga.1) (ga.1.length + 1) 1 with
    | none => none
    | some (idx, kids) => some (pgs.set gi (ga.1.eraseIdx idx ++ kids, ga.2))

inductive Op where
  | swap (gi j : Nat) (k : Option Nat) (l : Nat)
  | splitIn (gi : Nat)
  deriving DecidableEq, Repr

def applyOp (pg : PUG U) (pgs : PG U) : Op → Option (PG U)
  | .swap gi j k l => applySwap pgs gi j k l
  | .splitIn gi => trySplit pg pgs gi

def applyTrace (pg : PUG U) : PG U → List Op → Option (PG U)
  | pgs, [] => some pgs
  | pgs, op :: tr =>
    match applyOp pg pgs op with
    | none => none
    | some pgs' => applyTrace pg pgs' tr

/-! ### specification: derivations, cells, covers -/

/-- one derivation step `S → P args` -/
abbrev Step (U : Type) := UNT U × Sym × List (UNT U)

/-- the alternatives of `S` in rule order -/
def alts (G : UG U) (S : UNT U) : List (Sym × List (UNT U)) :=
  match AList.lookup S G.rules with
  | none => []
  | some rs => rs.flatMap (fun r => r.2.map (fun a => (r.1, a)))

/-- leftmost derivation: the configuration is the stack of pending non-terminals -/
def run (G : UG U) : List (UNT U) → List (Step U) → Option (List (UNT U))
  | c, [] => some c
  | [], _ :: _ => none
  | S :: rest, st :: w =>
    if st.1 = S ∧ (st.2.1, st.2.2) ∈ alts G S then run G (st.2.2 ++ rest) w else none

/-- a complete derivation of the grammar from the start symbol `s` -/
def Deriv (G : UG U) (s : UNT U) (w : List (Step U)) : Prop := s ∈ G.starts ∧ run G [s] w = some []

def Node.steps (n : Node U) : List (Step U) := n.history.zip (n.program.zip n.choices)

def Node.start (n : Node U) : UNT U :=
  match n.history with
  | [] => n.S
  | h :: _ => h

/-- the stack of a node (empty when the node is a complete derivation) -/
def Node.config (n : Node U) : List (UNT U) := if n.S.1 = Ty.unknown then [] else n.S :: n.info

/-- the derivation `(s, w)` starts like the node: it belongs to the node's cell -/
def Matches (n : Node U) (s : UNT U) (w : List (Step U)) : Prop := n.start = s ∧ n.steps <+: w

instance (n : Node U) (s : UNT U) (w : List (Step U)) : Decidable (Matches n s w) := by
  unfold Matches; infer_instance

/-- the node is a legal derivation prefix of `G` and its fields are coherent -/
def Valid (G : UG U) (n : Node U) : Prop :=
  n.start ∈ G.starts ∧ n.program.length = n.history.length ∧ n.choices.length = n.history.length ∧
  run G [n.start] n.steps = some n.config ∧ ∀ x ∈ n.config, x.1 ≠ Ty.unknown

/-- **prefix-free cover**: every derivation of `G` lies in the cell of exactly one node -/
def IsCover (G : UG U) (ns : List (Node U)) : Prop :=
  (∀ n ∈ ns, Valid G n) ∧ ∀ s w, Deriv G s w → ns.countP (fun n => decide (Matches n s w)) = 1

/-- well-formedness of the tables (decidable; evaluated by the driver on every case) -/
def wfRules (G : UG U) : Bool :=
  G.rules.all (fun e => e.1.1 != Ty.unknown &&
    decide ((AList.keys e.2).Nodup) && decide ((alts G e.1).Nodup) &&
    e.2.all (fun r => decide (r.2.Nodup) && r.2.all (fun args => args.all (fun a => a.1 != Ty.unknown))))

def WF (pg : PUG U) : Bool :=
  wfRules pg.g && decide ((AList.keys pg.g.rules).Nodup) &&
  decide (AList.keys pg.tags = AList.keys pg.g.rules) &&
  decide ((AList.keys pg.startTags).Nodup) &&
  pg.g.starts.all (fun s => (AList.keys pg.startTags).contains s && s.1 != Ty.unknown) &&
  (AList.keys pg.startTags).all (fun s => pg.g.starts.contains s) && decide (pg.g.starts.Nodup)

/-- the weights of every non-terminal sum to 1 and so do the start weights -/
def normalised (pg : PUG U) : Bool :=
  pg.g.rules.all (fun e => (((alts pg.g e.1).map (fun pa => tagOf pg e.1 pa.1 pa.2)).sum == 1)) &&
  ((pg.startTags.map (·.2)).sum == 1)

/-- all complete continuations of a configuration with at most `k` steps -/
def completions (G : UG U) : Nat → List (UNT U) → List (List (Step U))
  | _, [] => [[]]
  | 0, _ :: _ => []
  | k + 1, S :: rest =>
    (alts G S).flatMap (fun pa => (completions G k (pa.2 ++ rest)).map (fun w => (S, pa.1, pa.2) :: w))

/-- product of the weights of the steps -/
def stepsProb (pg : PUG U) : List (Step U) → Rat
  | [] => 1
  | st :: w => tagOf pg st.1 st.2.1 st.2.2 * stepsProb pg w

/-- probability of the derivation `(s, w)` in the original grammar -/
def derivProb (pg : PUG U) (s : UNT U) (w : List (Step U)) : Rat :=
  (AList.lookup s pg.startTags).getD 0 * stepsProb pg w

/-- probability mass of the continuations of a configuration with at most `k` steps -/
def tailMass (pg : PUG U) : Nat → List (UNT U) → Rat
  | _, [] => 1
  | 0, _ :: _ => 0
  | k + 1, S :: rest =>
    ((alts pg.g S).map (fun pa => tagOf pg S pa.1 pa.2 * tailMass pg k (pa.2 ++ rest))).sum

/-- all derivations of the grammar with at most `k` steps -/
def derivations (G : UG U) (k : Nat) : List (UNT U × List (Step U)) :=
  G.starts.flatMap (fun s => (completions G k [s]).map (fun w => (s, w)))

/-- the cell of a node, as a list: the derivations with at most `k` more steps -/
def cell (G : UG U) (k : Nat) (n : Node U) : List (UNT U × List (Step U)) :=
  (completions G k n.config).map (fun w => (n.start, n.steps ++ w))

/-- **what a fragment must be**: the derivations of the cells of the group, each with its
    original probability divided by the total original probability of the group -/
def cellSpec (pg : PUG U) (k : Nat) (group : List (Node U)) : List ((UNT U × List (Step U)) × Rat) :=
  let ds := group.flatMap (cell pg.g k)
  let mass := (ds.map (fun d => derivProb pg d.1 d.2)).sum
  ds.map (fun d => (d, derivProb pg d.1 d.2 / mass))

/-- evaluation of `IsCover` on the derivations with at most `k` steps -/
def coverUpTo (G : UG U) (k : Nat) (ns : List (Node U)) : Bool :=
  (derivations G k).all (fun d => ns.countP (fun n => decide (Matches n d.1 d.2)) == 1)

/-- decidable part of `Valid` -/
def validB (G : UG U) (n : Node U) : Bool :=
  G.starts.contains n.start && n.program.length == n.history.length && n.choices.length == n.history.length &&
  (run G [n.start] n.steps == some n.config) && n.config.all (fun x => x.1 != Ty.unknown)

/-! ### the fragment grammar of a group (`__pcfg_from__`) -/

/-- state of `__pcfg_from__`: counter, rules, weights, start weights, copies of the starts,
    non-terminals still to copy -/
structure FragSt (U : Type) where
  counter : Nat
  rules : AList (UNT (U × Nat)) (AList Sym (List (List (UNT (U × Nat)))))
  probs : AList (UNT (U × Nat)) (AList Sym (AList (List (UNT (U × Nat))) Rat))
  startProbs : AList (UNT (U × Nat)) Rat
  newStarts : AList (UNT U) (UNT (U × Nat))
  toFill : List (UNT U)

/-- `free(s)` -/
def free (s : UNT U) : UNT (U × Nat) := (s.1, (s.2, 0))

/-- `fresh(s)` applied to the elements of a list from left to right -/
def freshList (c : Nat) : List (UNT U) → Nat × List (UNT (U × Nat))
  | [] => (c, [])
  | s :: r => let (c', l) := freshList (c + 1) r; (c', (s.1, (s.2, c + 1)) :: l)

/-- `copy_rules(S, Sp)` -/
def copyRules (pg : PUG U) (st : FragSt U) (S : UNT U) (Sp : UNT (U × Nat)) : FragSt U :=
  let rs := (AList.lookup S pg.g.rules).getD []
  let ps := (AList.lookup S pg.tags).getD []
  { st with
    rules := AList.insert Sp (rs.map (fun r => (r.1, r.2.map (fun v => v.map free)))) st.rules
    probs := AList.insert Sp (ps.map (fun r => (r.1, r.2.map (fun vp => (vp.1.map free, vp.2))))) st.probs
    toFill := st.toFill ++ rs.flatMap (fun r => r.2.flatMap id) }

/-- `rules[Sp][P].append(mapped_v)` / `probabilities[Sp][P][tuple(mapped_v)] = w` -/
def addRule (st : FragSt U) (Sp : UNT (U × Nat)) (P : Sym) (v : List (UNT (U × Nat))) (w : Rat) : FragSt U :=
  let rs := (AList.lookup Sp st.rules).getD []
  let ps := (AList.lookup Sp st.probs).getD []
  { st with
    rules := AList.insert Sp (AList.insert P ((AList.lookup P rs).getD [] ++ [v]) rs) st.rules
    probs := AList.insert Sp (AList.insert P (AList.insert v w ((AList.lookup P ps).getD [])) ps) st.probs }

/-- the loop over the steps of one node: `pending` pairs non-terminals with their copies;
    `none` is a failed `assert` / `IndexError` -/
def pathLoop (nprob : Rat) : FragSt U → List (UNT U × UNT (U × Nat)) → Nat → List (Step U) →
    Option (FragSt U × List (UNT U × UNT (U × Nat)))
  | st, pending, _, [] => some (st, pending)
  | st, pending, i, (S, P, v) :: w =>
    match pending with
    | [] => none
    | (cur, Sp) :: rest =>
      if cur ≠ S then none else
      let (c', mapped) := freshList st.counter v
      let st1 := addRule { st with counter := c' } Sp P mapped (if i = 0 then nprob else 1)
      pathLoop nprob st1 (v.zip mapped ++ rest) (i + 1) w

/-- one iteration of `for node in group` -/
def addNode (pg : PUG U) (st : FragSt U) (n : Node U) : Option (FragSt U) :=
  let start := n.start
  let (st1, sp) : FragSt U × UNT (U × Nat) :=
    match AList.lookup start st.newStarts with
    | some sp => (st, sp)
    | none =>
      let sp : UNT (U × Nat) := (start.1, (start.2, st.counter + 1))
      ({ st with counter := st.counter + 1, newStarts := AList.insert start sp st.newStarts,
                 startProbs := AList.insert sp 0 st.startProbs }, sp)
  let st2 := { st1 with startProbs := AList.insert sp ((AList.lookup sp st1.startProbs).getD 0 + n.prob) st1.startProbs }
  match pathLoop n.prob st2 [(start, sp)] 0 n.steps with
  | none => none
  | some (st3, pending) => some (pending.foldl (fun s p => copyRules pg s p.1 p.2) st3)

/-- `while to_fill` -/
def fillLoop (pg : PUG U) : Nat → FragSt U → FragSt U
  | 0, st => st
  | f + 1, st =>
    match st.toFill.reverse with
    | [] => st
    | S :: restRev =>
      let st1 := { st with toFill := restRev.reverse }
      if AList.contains (free S) st1.rules then fillLoop pg f st1
      else fillLoop pg f (copyRules pg st1 S (free S))

/-- `ProbUGrammar.normalise` -/
def normaliseTags {κ : Type} (tags : AList κ (AList Sym (AList (List κ) Rat))) : AList κ (AList Sym (AList (List κ) Rat)) :=
  tags.map (fun e =>
    let s := (e.2.map (fun r => (r.2.map (·.2)).sum)).sum
    (e.1, e.2.map (fun r => (r.1, r.2.map (fun vp => (vp.1, vp.2 / s))))))

def normaliseStarts {κ : Type} (st : AList κ Rat) : AList κ Rat :=
  let s := (st.map (·.2)).sum
  st.map (fun e => (e.1, e.2 / s))

/-- `__pcfg_from__(original_pcfg, group)` -/
def pcfgFrom (pg : PUG U) (group : List (Node U)) (fuel : Nat) : Option (PUG (U × Nat)) :=
  let rec go (st : FragSt U) : List (Node U) → Option (FragSt U)
    | [] => some st
    | n :: r => match addNode pg st n with
      | none => none
      | some st' => go st' r
  match go ⟨0, [], [], [], [], []⟩ group with
  | none => none
  | some st =>
    let st := fillLoop pg fuel st
    let starts := AList.keys st.startProbs
    some { g := { starts := starts, rules := st.rules, someStart := starts.headD (Ty.unknown, (pg.g.someStart.2, 0)) },
           tags := normaliseTags st.probs, startTags := normaliseStarts st.startProbs }

end PS.Sp
