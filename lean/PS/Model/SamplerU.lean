/-
  C09 — sampling from a ProbUGrammar.  Executable model (core Lean only) of
    synth/syntax/grammars/tagged_u_grammar.py:175-254   init_sampling / sample_program
    synth/syntax/grammars/u_cfg.py:124-150              arguments_length_for / derive
    synth/syntax/grammars/u_grammar.py:184-239          derive_all (without hints)
  over a local grammar type: `rules[S][P]` is the list of alternatives (argument non-terminals)
  with `tags[S][P][tuple(args)]` attached.  Three kinds of draw streams: the start sampler,
  one rule sampler per non-terminal, one alternative sampler per (non-terminal, symbol).
-/
import PS.Basic
import PS.Model.Tree
import PS.Model.Sampler
namespace PS.Sampler

abbrev UG := AList NT (AList Sym (List (List NT × Rat)))
abbrev ADraws := AList (NT × Sym) (List Nat)

structure UDraws where
  starts : List Nat
  rules : Draws
  alts : ADraws
  deriving Repr

/-- `UCFG.derive(information, S, P)`: one outcome per alternative; `[]` when `S`/`P` is unknown;
    `next = none` stands for the `UnknownType` non-terminal that ends a derivation -/
def deriveU (G : UG) (info : List NT) (S : NT) (P : Sym) : List (List NT × Option NT) :=
  match (AList.lookup S G).bind (AList.lookup P) with
  | none => []
  | some alts =>
    alts.map (fun a =>
      match a.1 with
      | x :: r => (r ++ info, some x)
      | [] =>
        match info with
        | y :: r => (r, some y)
        | [] => ([], none))

/- `UGrammar.derive_all(information, S, P)` without hints: all the (information, last context)
    pairs the grammar can reach by deriving the program -/
mutual
  def deriveAllU (G : UG) (info : List NT) (S : Option NT) : Tree Sym → List (List NT × Option NT)
    | .node P kids =>
      match S with
      | none => []
      | some s => deriveAllListU G (deriveU G info s P) kids
  def deriveAllListU (G : UG) (poss : List (List NT × Option NT)) : List (Tree Sym) → List (List NT × Option NT)
    | [] => poss
    | t :: ts => deriveAllListU G (poss.flatMap (fun p => deriveAllU G p.1 p.2 t)) ts
end

def popADraw (d : ADraws) (k : NT × Sym) : Option (Nat × ADraws) :=
  match AList.lookup k d with
  | some (i :: r) => some (i, AList.insert k r d)
  | _ => none

/-- the argument loop of `ProbUGrammar.sample_program` (tagged_u_grammar.py:247-252):
    `information, lst = self.grammar.derive_all(information, current, arg)[0]; current = lst[-1][0]` -/
def sampleArgsWithU (G : UG) (rec : UDraws → NT → List NT → Option (Tree Sym × UDraws)) :
    Nat → UDraws → Option NT → List NT → Option (List (Tree Sym) × UDraws)
  | 0, d, _, _ => some ([], d)
  | k + 1, d, cur, info =>
    match cur with
    | none => none
    | some c =>
      match rec d c info with
      | none => none
      | some (arg, d1) =>
        match (deriveAllU G info (some c) arg).head? with
        | none => none
        | some (info1, cur1) =>
          match sampleArgsWithU G rec k d1 cur1 info1 with
          | none => none
          | some (args, d2) => some (arg :: args, d2)

/-- `ProbUGrammar.sample_program(S, information)` for `S` given (tagged_u_grammar.py:236-253) -/
def sampleU (G : UG) : Nat → UDraws → NT → List NT → Option (Tree Sym × UDraws)
  | 0, _, _, _ => none
  | fuel + 1, d, S, info =>
    -- i = self.vose_samplers[S].sample(); P = self.sampling_map[S][i]
    match popDraw d.rules S with
    | none => none
    | some (i, r1) =>
      let d1 : UDraws := { d with rules := r1 }
      match (AList.lookup S G).bind (fun r => r[i]?) with
      | none => none
      | some (P, alts) =>
        -- nargs = len(self.rules[S][P][0])
        match alts.head? with
        | none => none
        | some a0 =>
          if a0.1.length = 0 then some (Tree.leaf P, d1)
          else
            -- i = self._vose_samplers_2[S][P].sample(); information, current, _ = derive(information, S, P)[i]
            match popADraw d1.alts (S, P) with
            | none => none
            | some (j, a1) =>
              let d2 : UDraws := { d1 with alts := a1 }
              match (deriveU G info S P)[j]? with
              | none => none
              | some (info1, cur) =>
                match sampleArgsWithU G (sampleU G fuel) a0.1.length d2 cur info1 with
                | none => none
                | some (kids, d3) => some (Tree.node P kids, d3)

/-- `sample_program()` : `S = self._int2start[self._start_sampler.sample()]` first;
    `starts` = `list(self.start_tags.keys())`, the order of the weights given to the start sampler -/
def sampleProgramU (G : UG) (starts : List NT) (fuel : Nat) (d : UDraws) : Option (Tree Sym × UDraws) :=
  match d.starts with
  | [] => none
  | k :: r =>
    match starts[k]? with
    | none => none
    | some S => sampleU G fuel { d with starts := r } S []

def sampleSeqU (G : UG) (starts : List NT) (fuel : Nat) : Nat → UDraws → List (Option (Tree Sym))
  | 0, _ => []
  | n + 1, d =>
    match sampleProgramU G starts fuel d with
    | none => [none]
    | some (t, d1) => some t :: sampleSeqU G starts fuel n d1

/- membership `t ∈ L(G, S)`: some alternative of the root symbol's rule derives the arguments -/
mutual
  def derivesU (G : UG) (S : NT) : Tree Sym → Bool
    | .node P kids =>
      match (AList.lookup S G).bind (AList.lookup P) with
      | none => false
      | some alts => alts.any (fun a => derivesListU G a.1 kids)
  def derivesListU (G : UG) : List NT → List (Tree Sym) → Bool
    | [], [] => true
    | a :: as, t :: ts => derivesU G a t && derivesListU G as ts
    | _, _ => false
end



/-! ## Seeds handed to the alias samplers by `init_sampling(seed)` (seed ≠ 0)

  Two alias samplers built with the same seed return the same stream, so the independence of the
  draw streams that `C09_sample_dist` assumes needs pairwise distinct seeds. -/

/-- `ProbDetGrammar.init_sampling`: `seed + i` for the i-th non-terminal of `self.tags` -/
def detSeeds (seed nTags : Nat) : List Nat := (List.range nTags).map (fun i => seed + i)

/-- `ProbUGrammar.init_sampling`: rule sampler of the i-th non-terminal -/
def ruleSeedsU (seed nTags : Nat) : List Nat := (List.range nTags).map (fun i => seed + i)
/-- the start sampler -/
def startSeedU (seed nTags : Nat) : Nat := seed + nTags
/-- the k-th alternative sampler, counting the rules (S, P) in the order of `self.tags` -/
def altSeedsU (seed nTags nRules : Nat) : List Nat :=
  (List.range nRules).map (fun k => seed + (nTags + 1) + k)

def allSeedsU (seed nTags nRules : Nat) : List Nat :=
  ruleSeedsU seed nTags ++ startSeedU seed nTags :: altSeedsU seed nTags nRules

/-- the assignment before fix C09-F4: every rule of the i-th non-terminal got `seed + 7 * i`;
    `rulesPerTag[i]` = number of rules of the i-th non-terminal -/
def altSeedsOld (seed : Nat) (rulesPerTag : List Nat) : List Nat :=
  (List.range rulesPerTag.length).flatMap (fun i => List.replicate (rulesPerTag.getD i 0) (seed + 7 * i))

def allSeedsOld (seed : Nat) (rulesPerTag : List Nat) : List Nat :=
  ruleSeedsU seed rulesPerTag.length ++ startSeedU seed rulesPerTag.length :: altSeedsOld seed rulesPerTag

end PS.Sampler
