/-
  Model of synth/filter/constraints/dfta_constraints.py  (property C05), on top of the C07 model
  of tree automata (PS/Model/Dfta.lean) and the C01 model of grammars (PS/Model/Cfg.lean).

  Tokens (parsing.py:29-142)           `Tok σ`
  `__cfg2dfta__`   (:37-94)            `cfg2dfta`   (depth-bounded branch `max_depth != -1`)
  `__augment__`    (:97-107)           `augment`
  `__get_tuple_val__` (:110-113)       list indexing (see "states" below)
  `__tuple_len__`  (:116-119)          `tupleLen`
  `__count__`      (:122-143)          `count`
  `__tag__`        (:146-175)          `tag`
  `__filter__`     (:178-197)          `filterRules`
  `__match__`      (:200-215)          `matchCheck`
  `__process__`    (:218-287)          `processInner` / `processArgs` (level > 0) and `processTop`
                                        (level = 0: the sketch / local post-processing)
  `add_dfta_constraints` (:290-358)    `addDftaConstraints` (on parsed tokens; the parser is in
                                        PS/Model/ConstraintsParse.lean)

  States.  A Python state of the automata built here is `(type, x)` with `x` a left-nested tuple
  `(((u, a), b), c)` over the base component `u` (the height of `__cfg2dfta__`).  The model keeps
  `(type, u)` as one value of a base state type `Q` and the added components as a list, NEWEST
  FIRST:  `(type, (((u, a), b), c))  ↔  ((type, u), [c, b, a])`.  This is the same cons structure
  (`t[1]` = head, `t[0]` = tail), so `__get_tuple_val__(t, -k)` is `comps[k-1]?`, `s[1][1]` is the
  head, `(s[0], (s[1][0], i))` replaces the head, `q[1][-1]` is the head.
  After a product / minimise the states are pairs / tuples of such states: `UState`.

  Python sets are lists (membership only).  Exceptions (assert, IndexError) are `none`.
  Core Lean only.
-/
import PS.Model.Dfta
import PS.Model.Cfg
namespace PS.C05
open PS DFTA

/-- parsing.py:29-142.  `TokenFunction.function` is always a `TokenAllow`: only its list is kept. -/
inductive Tok (σ : Type) where
  | any : Tok σ
  | allow (S : List σ) : Tok σ
  | forbidSub (S : List σ) : Tok σ
  | forceSub (S : List σ) : Tok σ
  | atMost (S : List σ) (n : Nat) : Tok σ
  | atLeast (S : List σ) (n : Nat) : Tok σ
  | func (H : List σ) (args : List (Tok σ)) : Tok σ
  deriving Repr, Inhabited

/-- state `(type, (((u, a), b), c))` as `((type, u), [c, b, a])` -/
abbrev St (Q : Type) := Q × List Nat

variable {σ Q : Type} [DecidableEq σ] [DecidableEq Q]

/-- `(s[0], (s[1], 0))` -/
def aug (s : St Q) : St Q := (s.1, 0 :: s.2)

/-- `(s[0], (s[1][0], i))`: replace the newest component -/
def setLast (s : St Q) (i : Nat) : St Q := (s.1, i :: s.2.tail)

/-- `s[1][1]`: the newest component -/
def lastVal (s : St Q) : Nat := s.2.headD 0

/-- `__augment__` (:97-107): a dict / set comprehension over the rules / finals. -/
def augment (B : DFTA σ (St Q)) : DFTA σ (St Q) := mapStates aug B

/-- `all_alternatives` (:131) -/
def alternatives (maxi : Nat) (s : St Q) : List (St Q) := (List.range (maxi + 1)).map (setLast s)

/-- the rules written by the loop :132-138 (over a snapshot of the augmented table) -/
def countRules (A : DFTA σ (St Q)) (maxi : Nat) (S : List σ) : List ((σ × List (St Q)) × St Q) :=
  A.rules.flatMap fun r =>
    (cartesian (r.1.2.map (alternatives maxi))).map fun na =>
      ((r.1.1, na), setLast r.2 (min ((na.map lastVal).sum + (if r.1.1 ∈ S then 1 else 0)) maxi))

/-- `__count__` (:122-143) -/
def count (B : DFTA σ (St Q)) (n : Nat) (S : List σ) (most : Bool) : DFTA σ (St Q) :=
  let A := augment B
  let maxi := n + (if most then 1 else 0)
  { rules := AList.insertMany A.rules (countRules A maxi S)
    finals := A.finals ++ A.finals.flatMap (alternatives maxi) }

/-- `tag_state` (:158) -/
def tagState (s : St Q) : St Q := setLast s 1

abbrev Check (σ Q : Type) := σ → List (St Q) → St Q → Bool

/-- first loop of `__tag__` (:161-164): retarget the rules that pass `check`, remember the
    (untagged) targets in `added` -/
def tagLoop1 (check : Check σ Q) (A : DFTA σ (St Q)) :
    AList (σ × List (St Q)) (St Q) × List (St Q) :=
  A.rules.foldl (fun acc r =>
    if check r.1.1 r.1.2 r.2 then (AList.insert r.1 (tagState r.2) acc.1, addNew acc.2 r.2) else acc)
    (A.rules, [])

/-- rules written by the second loop (:166-172): every rule consuming an `added` state also
    consumes its tagged version -/
def tagRules2 (rules1 : AList (σ × List (St Q)) (St Q)) (added : List (St Q)) :
    List ((σ × List (St Q)) × St Q) :=
  rules1.flatMap fun r =>
    if r.1.2.any (fun a => decide (a ∈ added)) then
      (cartesian (r.1.2.map fun a => if a ∈ added then [a, tagState a] else [a])).map
        fun na => ((r.1.1, na), r.2)
    else []

/-- `__tag__` (:146-175) -/
def tag (B : DFTA σ (St Q)) (check : Check σ Q) : DFTA σ (St Q) :=
  let A := augment B
  let l1 := tagLoop1 check A
  { rules := AList.insertMany l1.1 (tagRules2 l1.1 l1.2)
    finals := A.finals ++ (A.finals.filter (fun q => decide (q ∈ l1.2))).map tagState }

/-- `__filter__` (:178-197) -/
def filterRules (B : DFTA σ (St Q)) (check : Check σ Q) : DFTA σ (St Q) :=
  let rules := AList.ofList (B.rules.filter (fun r => check r.1.1 r.1.2 r.2))
  { rules := rules, finals := B.finals.filter (fun q => decide (q ∈ AList.values rules)) }

/-- `__match__` (:200-215); `__get_tuple_val__(x[1], -k - 2)` is `comps[k + 1]?` -/
def matchCheck (pc : Nat) (indices : List Nat) (should : List Bool) : Check σ Q :=
  fun _ args dst =>
    (dst.2[pc + 1]? == some 1) &&
    ((args.zip (indices.zip should)).all fun x => !x.2.2 || (x.1.2[x.2.1 + 1]? == some 1))

/-- `__tuple_len__(list(grammar.finals)[0][1])` (:228,:231) for an atomic base component;
    `none` = IndexError on an automaton without final state -/
def tupleLen (B : DFTA σ (St Q)) : Option Nat := B.finals.head?.map (fun q => 1 + q.2.length)

/-- the branch :249-264 of `__process__` (`most` = TokenAtMost) -/
def processCount (B : DFTA σ (St Q)) (S : List σ) (n : Nat) (most : Bool) : DFTA σ (St Q) :=
  tag (count B n S most) (fun _ _ st =>
    match st.2[1]? with                      -- state[1][0][-1]
    | some c => if most then decide (c ≤ n) else decide (c = n)
    | none => false)

mutual
  /-- `__process__` (:218-273) at `level > 0` (no post-processing) -/
  def processInner (B : DFTA σ (St Q)) : Tok σ → Option (DFTA σ (St Q))
    | .func H args =>
      let g := tag B (fun P _ _ => decide (P ∈ H))          -- :227 with :244-247
      match tupleLen g with
      | none => none
      | some l0 =>
        match processArgs g args [l0] [] with
        | none => none
        | some (g', lengths, hasCheck) =>
          let last := lengths.getLastD 0
          let indices := lengths.map (fun l => last - l)
          some (tag g' (matchCheck (indices.headD 0) indices.tail hasCheck))
    | .allow S => some (tag B (fun P _ _ => decide (P ∈ S)))
    | .atMost S n => some (processCount B S n true)
    | .atLeast S n => some (processCount B S n false)
    | .forbidSub S => some (processCount B S 0 true)        -- :266-267
    | .forceSub S => some (processCount B S 1 false)        -- :268-269
    | .any => some B
  /-- the loop :229-233 -/
  def processArgs (g : DFTA σ (St Q)) : List (Tok σ) → List Nat → List Bool →
      Option (DFTA σ (St Q) × List Nat × List Bool)
    | [], lengths, hasCheck => some (g, lengths, hasCheck)
    | a :: as, lengths, hasCheck =>
      match processInner g a with
      | none => none
      | some g' =>
        match tupleLen g' with
        | none => none
        | some cur => processArgs g' as (lengths ++ [cur]) (hasCheck ++ [decide (cur - lengths.getLastD 0 > 0)])
end

/-- `q[1][-1] == 1` -/
def lastIsOne (q : St Q) : Bool := q.2.head? == some 1

/-- the level-0 part of `__process__` (:275-287) for a sketch (`local = False`) -/
def sketchFinish (A : DFTA σ (St Q)) : DFTA σ (St Q) :=
  { A with finals := A.finals.filter lastIsOne }

/-- the level-0 part for a local constraint with head set `H` -/
def localFinish (A : DFTA σ (St Q)) (H : List σ) : DFTA σ (St Q) :=
  filterRules A (fun P _ dst => decide (P ∉ H) || lastIsOne dst)

/-- `__process__(grammar, token, local, level = 0)`.  `TokenAnything` returns before the
    post-processing (:270-271); the sub-tree tokens re-enter with a count token at the same
    level (:266-269), so a local one fails the assertion :279 like every non-function token. -/
def processTop (B : DFTA σ (St Q)) (tok : Tok σ) (loc : Bool) : Option (DFTA σ (St Q)) :=
  match tok with
  | .any => some B
  | .func H _ =>
    match processInner B tok with
    | none => none
    | some A => some (if loc then localFinish A H else sketchFinish A)
  | _ =>
    if loc then none else (processInner B tok).map sketchFinish

/-! ### `__cfg2dfta__` (:37-94), branch `max_depth != -1` -/

open PS.G in
/-- `max(S[1][0][1] for S in self.rules) + 1` (cfg.py:28) -/
def maxDepth (G : PS.G.CFG) : Nat := (G.rules.map (fun e => e.1.2.1.2)).foldl max 0 + 1

abbrev BaseSt := PS.G.Ty × Nat

/-- the rules written for one grammar rule `S -> P(args)` (:64-88) -/
def cfg2dftaStep (md : Nat) (ty : PS.G.Ty) (acc : AList (PS.G.Sym × List BaseSt) BaseSt)
    (r : PS.G.Sym × (List (PS.G.Ty × PS.G.CFGState) × Unit)) : AList (PS.G.Sym × List BaseSt) BaseSt :=
  let P := r.1
  let args := r.2.1
  if args.length = 0 then AList.insert (P, []) (P.ty, 0) acc
  else
    (cartesian (args.map (fun a => (List.range md).map (fun j => (a.1, j))))).foldl (fun acc nargs =>
      let nd := (nargs.map (·.2)).foldl max 0 + 1
      if nd ≥ md then acc else AList.insert (P, nargs) (ty, nd) acc) acc

def cfg2dftaRaw (G : PS.G.CFG) : DFTA PS.G.Sym BaseSt :=
  let md := maxDepth G
  { rules := G.rules.foldl (fun acc e => e.2.foldl (cfg2dftaStep md e.1.1) acc) []
    finals := (List.range md).map (fun x => (G.start.1.returns, x)) }

def cfg2dfta (G : PS.G.CFG) : DFTA PS.G.Sym BaseSt := reduce (cfg2dftaRaw G)

/-- a base automaton seen as an automaton over extensible states (no component added yet) -/
def liftBase (B : DFTA σ Q) : DFTA σ (St Q) := mapStates (fun q => (q, [])) B

/-! ### `add_dfta_constraints` (:290-358) -/

/-- states after products (pairs) and minimisations (tuples of class members) -/
abbrev UState (Q : Type) := Tree (Option (St Q))
def uleaf (s : St Q) : UState Q := .node (some s) []
def utup (xs : List (UState Q)) : UState Q := .node none xs
def upair (p : UState Q × UState Q) : UState Q := utup [p.1, p.2]

/-- :324-327 the constraints that are skipped -/
def skipped : Tok σ → Bool
  | .any => true
  | .func H _ => H.isEmpty
  | _ => false

/-- `a.reduce(); dfta.read_product(a.minimise())` (:335-336, :350-351) or `dfta = a` -/
def combine (dfta : Option (DFTA σ (UState Q))) (a : DFTA σ (St Q)) : Option (DFTA σ (UState Q)) :=
  match dfta with
  | none => some (mapStates uleaf a)
  | some d =>
    match minimiseWith utup (reduce (mapStates uleaf a)) with
    | none => none
    | some m => some (mapStates upair (readProduct d m))

/-- `dfta.reduce(); dfta = dfta.minimise()` (:337-338, :354-355) -/
def reduceMin (d : DFTA σ (UState Q)) : Option (DFTA σ (UState Q)) := minimiseWith utup (reduce d)

/-- the loop :322-340 over the parsed constraints (already in the order of :303-308) -/
def constraintLoop (base : DFTA σ (St Q)) : List (Tok σ) → Option (DFTA σ (UState Q)) →
    Option (Option (DFTA σ (UState Q)))
  | [], dfta => some dfta
  | c :: cs, dfta =>
    if skipped c then constraintLoop base cs dfta else
    match processTop base c true with
    | none => none
    | some a =>
      match combine dfta a with
      | none => none
      | some d =>
        match reduceMin d with
        | none => none
        | some d' => constraintLoop base cs (some d')

/-- `add_dfta_constraints(base, constraints, sketch)` on parsed tokens; `none` = an exception
    (a local constraint that is not a function pattern, an automaton without final state). -/
def addDftaConstraints (base : DFTA σ (St Q)) (cs : List (Tok σ)) (sketch : Option (Tok σ)) :
    Option (DFTA σ (UState Q)) :=
  match constraintLoop base cs none with
  | none => none
  | some dfta =>
    match sketch with
    | none => some (dfta.getD (mapStates uleaf base))
    | some sk =>
      match processTop base sk false with
      | none => none
      | some a =>
        match combine dfta a with
        | none => none
        | some d => reduceMin d

end PS.C05
