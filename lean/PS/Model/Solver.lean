/-
  Model of synth/pbe/solvers/pbe_solver.py (PBESolver.solve, NaivePBESolver, CutoffPBESolver)
  — property C10.

  Generic over the program type `P`, the input type `I`, the value type `V`, the exception
  type `E` and the state `St` of the evaluator.  The evaluator is abstract (`Ev`): a state
  transformer returning an `Outcome` (value / `None` for a skipped exception / a propagated
  exception) — the shape property C11 proves `DSLEvaluator.eval` to have.

  The generator `solve` is an explicit resumable machine:
    `advance`  runs the `for program in enumerator` loop from its top to the next `yield`
               or to the end of the generator,
    `send`     resumes a suspended generator with the caller's answer,
    `drive`    feeds a list of answers (the caller may stop answering: generator left suspended).
  The wall clock is an input: `dl : List Bool`, one entry per loop iteration, tells whether
  `c.elapsed_time() >= timeout` holds at that iteration (missing entries: `False`).

  Transcribed (pbe_solver.py, after the proposed fix C10-F1: no division by zero on a task
  without examples):
    17-21, 38-43   `_init_stats_`, `reset_stats`              -> `Solver.init`, `resetStats`
    56-59          `_init_task_solving_`                       -> `initTask`
    61-71          `_close_task_solving_`                      -> `closeTask`
    73-103         `solve`                                     -> `advance`, `send`, `drive`, `solve`
    105-121        `PBESolver._test_` (naive)                  -> `naiveLoop`, `testNaive`
    200-208        `CutoffPBESolver._test_`                    -> `cutoffLoop`, `testCutoff`
-/
import PS.Basic
import PS.Model.Evaluator
namespace PS.C10
open PS
open PS.C11 (Outcome)

/-- abstract evaluator: `evaluator.eval(program, input)` with its (cache) state made explicit -/
structure Ev (St P I V E : Type) where
  eval : St → P → I → St × Outcome V E

/-- the evaluator without state whose answers are given by a function (used to state what the
    tests compute when the evaluator is faithful to a semantics) -/
def pureEv {P I V E : Type} (spec : P → I → Outcome V E) : Ev Unit P I V E :=
  ⟨fun _ p i => ((), spec p i)⟩

/-- the real evaluator: the C11 model of `DSLEvaluator.eval` for a DSL semantics `S`, its cache
    being the state -/
def dslEv {σ V E : Type} [DecidableEq σ] [DecidableEq V] (S : C11.Sem σ V E) (useCache : Bool) :
    Ev (C11.Cache σ V) (Tree σ) (List V) V E :=
  ⟨fun c p i => C11.eval S useCache c p i⟩

/-- `_score`, kept as the exact fraction `num / den` computed by the code -/
structure Score where
  num : Nat
  den : Nat
  deriving DecidableEq, Repr

inductive Kind where
  | naive
  | cutoff
  deriving DecidableEq, Repr

variable {St P I V E : Type}

/-- `not (evaluator.eval(program, ex.inputs) != ex.output)` for an outcome that did not raise:
    `None` (skipped exception) is different from every example output -/
def matchesOut [DecidableEq V] : Outcome V E → V → Bool
  | .value v, o => decide (v = o)
  | _, _ => false

/-! ### `_test_` -/

/-- pbe_solver.py:113-119: the loop of the naive test; state `failed`, `success`;
    a non-skippable exception of the evaluator propagates -/
def naiveLoop [DecidableEq V] (ev : Ev St P I V E) (p : P) :
    St → List (I × V) → Bool → Nat → St × Except E (Bool × Nat)
  | st, [], failed, success => (st, .ok (failed, success))
  | st, ex :: rest, failed, success =>
    match ev.eval st p ex.1 with
    | (st', .raised e) => (st', .error e)
    | (st', out) =>
      if matchesOut out ex.2 then naiveLoop ev p st' rest failed (success + 1)
      else naiveLoop ev p st' rest true success

/-- pbe_solver.py:105-121 `PBESolver._test_`: returns `not failed` and the new `_score`
    (`success / n`, and `1` when there is no example — fix C10-F1) -/
def testNaive [DecidableEq V] (ev : Ev St P I V E) (exs : List (I × V)) (st : St) (p : P) :
    St × Except E (Bool × Score) :=
  match naiveLoop ev p st exs false 0 with
  | (st', .error e) => (st', .error e)
  | (st', .ok (failed, success)) =>
    (st', .ok (!failed, if exs.length = 0 then ⟨1, 1⟩ else ⟨success, exs.length⟩))

/-- pbe_solver.py:200-208: the loop of the cut-off test; `n` = examples passed so far;
    `total` = `len(task.specification.examples)` -/
def cutoffLoop [DecidableEq V] (ev : Ev St P I V E) (p : P) (total : Nat) :
    St → List (I × V) → Nat → St × Except E (Bool × Score)
  | st, [], _ => (st, .ok (true, ⟨1, 1⟩))
  | st, ex :: rest, n =>
    match ev.eval st p ex.1 with
    | (st', .raised e) => (st', .error e)
    | (st', out) =>
      if matchesOut out ex.2 then cutoffLoop ev p total st' rest (n + 1)
      else (st', .ok (false, ⟨n, total⟩))

def testCutoff [DecidableEq V] (ev : Ev St P I V E) (exs : List (I × V)) (st : St) (p : P) :
    St × Except E (Bool × Score) :=
  cutoffLoop ev p exs.length st exs 0

def test [DecidableEq V] (k : Kind) (ev : Ev St P I V E) (exs : List (I × V)) :
    St → P → St × Except E (Bool × Score) :=
  match k with
  | .naive => testNaive ev exs
  | .cutoff => testCutoff ev exs

/-! ### solver object -/

/-- the fields of a `PBESolver` the protocol reads or writes -/
structure Solver (P : Type) where
  /-- `_stats["programs"]` -/
  statsPrograms : Nat
  /-- the program whose probability is stored in `_stats["program_probability"]`
      (`none`: still the initial `0`) -/
  statsLast : Option P
  /-- number of times `_stats["time"]` was increased (calls of `_close_task_solving_`) -/
  statsCloses : Nat
  /-- `_programs` (0 before the first task) -/
  programs : Nat
  /-- `_score` (`none`: attribute not set yet) -/
  score : Option Score

/-- `__init__` / `_init_stats_` -/
def Solver.init : Solver P := ⟨0, none, 0, 0, none⟩

/-- `reset_stats` -/
def resetStats (s : Solver P) : Solver P :=
  { s with statsPrograms := 0, statsLast := none, statsCloses := 0 }

/-- `_init_task_solving_` -/
def initTask (s : Solver P) : Solver P := { s with programs := 0 }

/-- `_close_task_solving_(task, enumerator, time_used, solution, last_program)` -/
def closeTask (s : Solver P) (last : P) : Solver P :=
  { s with statsPrograms := s.statsPrograms + s.programs, statsLast := some last,
           statsCloses := s.statsCloses + 1 }

/-! ### the generator -/

/-- how the generator ended -/
inductive Stop (E : Type) where
  | accepted            -- the caller sent True: `_close_task_solving_(…, True, program)`; return
  | timeout             -- `time >= timeout`:   `_close_task_solving_(…, False, program)`; return
  | exhausted           -- the `for` loop ran out of programs (no bookkeeping is done)
  | raised (e : E)      -- `_test_` propagated an exception of the evaluator
  deriving DecidableEq, Repr

/-- the frame of a generator suspended at `should_stop = yield program` -/
structure Susp (P : Type) where
  program : P
  rest : List P        -- what the enumerator has not produced yet
  dl : List Bool       -- clock events of the coming iterations

inductive Step (St P E : Type) where
  | yielded (k : Susp P) (s : Solver P) (st : St)
  | finished (r : Stop E) (s : Solver P) (st : St)

/-- `c.elapsed_time() >= timeout` at the coming iteration -/
def deadlinePassed : List Bool → Bool
  | [] => false
  | b :: _ => b

/-- pbe_solver.py:87-95: from the top of `for program in enumerator` to the next `yield`
    or to the end.  `T` is `self._test_(task, ·)`. -/
def advance (T : St → P → St × Except E (Bool × Score)) :
    Solver P → St → List P → List Bool → Step St P E
  | s, st, [], _ => .finished .exhausted s st
  | s, st, p :: rest, dl =>
    if deadlinePassed dl then .finished .timeout (closeTask s p) st       -- :88-93
    else
      let s1 := { s with programs := s.programs + 1 }                  -- :94
      match T st p with                                                -- :95
      | (st', .error e) => .finished (.raised e) s1 st'
      | (st', .ok (ok, sc)) =>
        let s2 := { s1 with score := some sc }
        if ok then .yielded ⟨p, rest, dl.tail⟩ s2 st'                  -- :96
        else advance T s2 st' rest dl.tail

/-- pbe_solver.py:96-101: `generator.send(answer)` on a suspended generator -/
def send (T : St → P → St × Except E (Bool × Score)) (answer : Bool) (k : Susp P)
    (s : Solver P) (st : St) : Step St P E :=
  if answer then .finished .accepted (closeTask s k.program) st
  else advance T s st k.rest k.dl

inductive Status (E : Type) where
  | finished (r : Stop E)
  | suspended          -- the caller stopped answering; the generator is still at a `yield`
  deriving DecidableEq, Repr

structure Run (St P E : Type) where
  yielded : List P
  status : Status E
  solver : Solver P
  st : St

/-- the caller: receives a program, answers, receives the next one … -/
def drive (T : St → P → St × Except E (Bool × Score)) : Step St P E → List Bool → Run St P E
  | .finished r s st, _ => ⟨[], .finished r, s, st⟩
  | .yielded k s st, [] => ⟨[k.program], .suspended, s, st⟩
  | .yielded k s st, a :: as =>
    let r := drive T (send T a k s st) as
    { r with yielded := k.program :: r.yielded }

/-- `solver.solve(task, enumerator, timeout)` driven with the answers `as`:
    `es` is the sequence the enumerator produces, `dl` the clock events. -/
def solve (T : St → P → St × Except E (Bool × Score)) (s : Solver P) (st : St) (es : List P)
    (dl : List Bool) (as : List Bool) : Run St P E :=
  drive T (advance T (initTask s) st es dl) as

/-! ### Specification (no counters, no evaluator state, no loop) -/

/-- "the evaluation of `p` on every example input equals the example output" -/
def sat [DecidableEq V] (spec : P → I → Outcome V E) (exs : List (I × V)) (p : P) : Bool :=
  exs.all (fun ex => matchesOut (spec p ex.1) ex.2)

def raisedOf : Outcome V E → Option E
  | .raised e => some e
  | _ => none

/-- what testing `p` amounts to: a verdict, or the exception that escapes.
    naive: every example is evaluated, so the first non-skippable exception on any example escapes;
    cut-off: evaluation stops at the first example that is not matched. -/
def verdict [DecidableEq V] (k : Kind) (spec : P → I → Outcome V E) (exs : List (I × V)) (p : P) :
    Except E Bool :=
  match k with
  | .naive =>
    match exs.findSome? (fun ex => raisedOf (spec p ex.1)) with
    | some e => .error e
    | none => .ok (sat spec exs p)
  | .cutoff =>
    match exs.find? (fun ex => !matchesOut (spec p ex.1) ex.2) with
    | none => .ok true
    | some ex =>
      match spec p ex.1 with
      | .raised e => .error e
      | _ => .ok false

/-- number of programs of the enumeration that get tested to a verdict before an outside
    event (deadline, escaping exception) ends the search -/
def horizon (vd : P → Except E Bool) : List P → List Bool → Nat
  | [], _ => 0
  | p :: rest, dl =>
    if deadlinePassed dl then 0 else
    match vd p with
    | .error _ => 0
    | .ok _ => 1 + horizon vd rest dl.tail

/-- the solutions shown to the caller: in order, up to and including the first one answered
    True (or one more than the caller answered, if the caller stops answering) -/
def upToAccepted : List P → List Bool → List P
  | [], _ => []
  | p :: _, [] => [p]
  | p :: _, true :: _ => [p]
  | p :: ps, false :: as => p :: upToAccepted ps as

/-- **what the property says is yielded** -/
def specYields (vd : P → Except E Bool) (sats : P → Bool) (es : List P) (dl : List Bool)
    (as : List Bool) : List P :=
  upToAccepted ((es.take (horizon vd es dl)).filter sats) as

/-! ### sessions: consecutive tasks on one solver and one evaluator -/

structure TaskRun (P I V : Type) where
  examples : List (I × V)
  es : List P
  dl : List Bool
  answers : List Bool

inductive Op (P I V : Type) where
  | task (t : TaskRun P I V)
  | resetStats
  | clearCache

/-- one operation of a session; `clear` is `evaluator.clear_cache()` -/
def runOp [DecidableEq V] (k : Kind) (ev : Ev St P I V E) (clear : St → St) (s : Solver P) (st : St) :
    Op P I V → Solver P × St
  | .task t => let r := solve (test k ev t.examples) s st t.es t.dl t.answers; (r.solver, r.st)
  | .resetStats => (resetStats s, st)
  | .clearCache => (s, clear st)

def runSession [DecidableEq V] (k : Kind) (ev : Ev St P I V E) (clear : St → St) :
    Solver P → St → List (Op P I V) → Solver P × St
  | s, st, [] => (s, st)
  | s, st, op :: ops =>
    let r := runOp k ev clear s st op
    runSession k ev clear r.1 r.2 ops

end PS.C10
