/-
  Model of synth/filter/filter.py and synth/filter/obs_eq_filter.py  (property C20).

  * `Flt`            : the filter objects (`NegFilter`, `UnionFilter`, `IntersectionFilter`,
                       atomic user filters identified by an index into an environment of
                       predicate results)
  * `mkInter/mkUnion/mkNeg` : `Filter.intersection`, `Filter.union`, `complementary`
                       (filter.py:25-52, 58-63) — the `isinstance` dispatch, as it is after
                       the `fix:` commit that removed the infinite mutual recursion
  * `accept/reject`  : filter.py:10-21, 58-79
  * `ObsEq.step`     : obs_eq_filter.py:16-33 with the evaluator abstracted to the list of
                       outputs of the program on the reference inputs
-/
import PS.Basic
namespace PS.C20

inductive Flt where
  | atom  (i : Nat)
  | neg   (f : Flt)
  | union (fs : List Flt)
  | inter (fs : List Flt)
  deriving Repr, Inhabited

mutual
  /-- `Filter.accept` for every class of filter.py; `env i` is what the i-th user filter
      answers on the object at hand. -/
  def accept (env : Nat → Bool) : Flt → Bool
    | .atom i   => env i
    | .neg f    => !(accept env f)
    | .union fs => acceptAny env fs
    | .inter fs => acceptAll env fs
  def acceptAny (env : Nat → Bool) : List Flt → Bool
    | [] => false
    | f :: fs => accept env f || acceptAny env fs
  def acceptAll (env : Nat → Bool) : List Flt → Bool
    | [] => true
    | f :: fs => accept env f && acceptAll env fs
end

/-- `Filter.reject` (filter.py:17-21). -/
def reject (env : Nat → Bool) (f : Flt) : Bool := !(accept env f)

/-- `Filter.intersection` (filter.py:25-33): `self` already an intersection: extend it;
    only `other` an intersection: `other.intersection(self)`; otherwise a fresh one. -/
def mkInter (self other : Flt) : Flt :=
  match self, other with
  | .inter a, .inter b => .inter (a ++ b)
  | .inter a, o        => .inter (a ++ [o])
  | s, .inter b        => .inter (b ++ [s])
  | s, o               => .inter [s, o]

/-- `Filter.union` (filter.py:38-46). -/
def mkUnion (self other : Flt) : Flt :=
  match self, other with
  | .union a, .union b => .union (a ++ b)
  | .union a, o        => .union (a ++ [o])
  | s, .union b        => .union (b ++ [s])
  | s, o               => .union [s, o]

/-- `complementary` (filter.py:51-52 and NegFilter.complementary 62-63). -/
def mkNeg : Flt → Flt
  | .neg f => f
  | f => .neg f

/-- Expressions a user writes with `&`, `|`, unary `-` over user filters. -/
inductive Expr where
  | atom (i : Nat)
  | and (a b : Expr)
  | or  (a b : Expr)
  | neg (a : Expr)
  deriving Repr, Inhabited

def build : Expr → Flt
  | .atom i => .atom i
  | .and a b => mkInter (build a) (build b)
  | .or a b => mkUnion (build a) (build b)
  | .neg a => mkNeg (build a)

/-- What the property says the expression means. -/
def sem (env : Nat → Bool) : Expr → Bool
  | .atom i => env i
  | .and a b => sem env a && sem env b
  | .or a b => sem env a || sem env b
  | .neg a => !(sem env a)

/-! ### Observational-equivalence filter -/

/-- One presentation of a program to the filter.  `outs = none` when the evaluation of
    the program on some reference input returned `None` (skipped failure); otherwise the
    canonical text of each (tuplified) output. -/
structure Item where
  pid  : Nat                    -- identity of the program (for reporting only)
  ty   : String                 -- `prog.type`
  h    : Nat                    -- `hash(prog)`
  outs : Option (List String)
  deriving Repr, DecidableEq

/-- `_cache`: (type, outputs) ↦ hash of the stored representative. -/
abbrev Cache := AList (String × List String) Nat

/-- `ObsEqFilter._eval` (obs_eq_filter.py:16-33). -/
def step (c : Cache) (it : Item) : Cache × Bool :=
  match it.outs with
  | none => (c, false)
  | some o =>
    match AList.lookup (it.ty, o) c with
    | some h' => if h' ≠ it.h then (c, false) else (AList.insert (it.ty, o) it.h c, true)
    | none => (AList.insert (it.ty, o) it.h c, true)

def runFrom (c : Cache) : List Item → List Bool
  | [] => []
  | it :: rest => (step c it).2 :: runFrom (step c it).1 rest

/-- accept bits of a whole sequence of presentations, starting from an empty cache. -/
def run (items : List Item) : List Bool := runFrom [] items

/-- The property's reading, stated on the history of presentations with their verdicts:
    accepted iff every reference input evaluated and no earlier *accepted* presentation of
    the same type and outputs was a different program (different hash). -/
def specAccept (hist : List (Item × Bool)) (it : Item) : Bool :=
  it.outs.isSome &&
  hist.all (fun jb => !(jb.2 && jb.1.ty == it.ty && jb.1.outs == it.outs && jb.1.h != it.h))

def specRunFrom (hist : List (Item × Bool)) : List Item → List Bool
  | [] => []
  | it :: rest => specAccept hist it :: specRunFrom (hist ++ [(it, specAccept hist it)]) rest

def specRun (items : List Item) : List Bool := specRunFrom [] items

end PS.C20
