/-
  Model of synth/pbe/task_generator.py (class TaskGenerator)   — property C18.

  The generator is a function of DRAW STREAMS: every sampler is replaced by the finite list of
  the draws it will return (property C09 is about the samplers themselves):
    `types`    draws of `gen_random_type_request.sample()`
    `progs`    per type request, draws of `type2pgrammar[t].sample_program()`
               (its keys are the keys of `type2pgrammar`)
    `samples`  per type request, draws of `gen_random_sample_number.sample(type=t)`
    `inputs`   per argument type, draws of `input_generator.sample(type=a)`
  A computation that needs a draw from an exhausted stream is `stuck` (the model says nothing).
  The evaluator is abstract: `PS.C10.Ev` — a state transformer returning an `Outcome`
  (value / `None` for an exception skipped by the evaluator / a propagated exception), the shape
  property C11 proves `DSLEvaluator.eval` to have.

  Generic over the types `T` of type requests, `A` of argument types, `P` of programs, `I` of
  input values, `V` of output values, `E` of exceptions, `St` of evaluator states.

  Every `while` loop whose condition contains `counter < max_tries` is a structural recursion on
  a fuel argument instantiated with `max_tries - counter` at the call: when the fuel is 0 the
  loop condition is false, and the fuel-0 equation returns what the loop returns then.  So the
  definitions are exact (no fuel can run out early); `while True` of `generate_task` consumes at
  least one type draw per iteration, its fuel is `len(types) + 1`.

  Transcribed (task_generator.py, after the proposed fix C18-F1 — `len(inputs) < samples` added
  to the condition of the example loop):
    53-70    `__init__`                      -> `State.init`
    72-97    `generate_program`              -> `uniqLoop`, `varLoop`, `generateProgram`
    99-107   `generate_type_request`         -> `typeLoop`, `generateTypeRequest`
    109-110  `sample_input`                  -> `sampleInput`
    112-119  `eval_input`                    -> `evalInput`
    136-188  `generate_task`                 -> `exLoop`, `taskLoop`, `generateTask`
    190-192  `generator`                     -> `run`
-/
import PS.Basic
import PS.Model.Evaluator
import PS.Model.Solver
namespace PS.C18
open PS
open PS.C11 (Outcome)
open PS.C10 (Ev)

/-- constructor arguments of `TaskGenerator` other than the samplers and the evaluator -/
structure Cfg (T A P V E : Type) where
  /-- `max_tries` -/
  maxTries : Nat
  /-- `uniques` -/
  uniques : Bool
  /-- `type_request.arguments()` -/
  args : T → List A
  /-- `len(solution.used_variables())` -/
  usedVars : P → Nat
  /-- `type(e) in self.skip_exceptions` (the generator's own set) -/
  skip : E → Bool
  /-- `output_validator(output)`; `none` is Python's `None` (a skipped failure) -/
  valid : Option V → Bool
  /-- what `self.type2pgrammar[type_request]` raises for a type request without grammar -/
  keyError : E

/-- a generated task: `Task(type_request, PBE(examples), solution, {"generated": True,
    "tries": …, "unique": …})` -/
structure GTask (T P I V : Type) where
  typeRequest : T
  solution : P
  /-- `zip(inputs, outputs)` -/
  examples : List (List I × Option V)
  tries : Nat
  unique : Bool
  deriving DecidableEq, Repr

/-- the mutable fields of a `TaskGenerator`, the remaining draws of its samplers and the state
    of its evaluator -/
structure State (T A P I St : Type) where
  /-- `self.seen` (a set; kept in insertion order) -/
  seen : List P
  /-- `self._failed_types` (a set; kept in insertion order) -/
  failed : List T
  /-- `self.difficulty` -/
  difficulty : AList T (Nat × Nat)
  /-- `self.generated_types` -/
  generated : AList T Nat
  types : List T
  progs : AList T (List P)
  samples : AList T (List Int)
  inputs : AList A (List I)
  /-- state (cache) of `self.evaluator` -/
  es : St

variable {T A P I V E St : Type}

/-- task_generator.py:53-70 `__init__`: `type2pgrammar` has the keys of `progs` -/
def State.init (types : List T) (progs : AList T (List P)) (samples : AList T (List Int))
    (inputs : AList A (List I)) (es : St) : State T A P I St :=
  { seen := [], failed := [], difficulty := progs.map (fun kv => (kv.1, (0, 0))),
    generated := progs.map (fun kv => (kv.1, 0)),
    types := types, progs := progs, samples := samples, inputs := inputs, es := es }

/-- next draw of the stream of key `k` -/
def pop {κ α : Type} [DecidableEq κ] (k : κ) (d : AList κ (List α)) :
    Option (α × AList κ (List α)) :=
  match AList.lookup k d with
  | some (x :: r) => some (x, AList.insert k r d)
  | _ => none

/-- `set.add` -/
def setAdd {α : Type} [DecidableEq α] (x : α) (s : List α) : List α :=
  if x ∈ s then s else s ++ [x]

/-! ### `generate_program` -/
section program
variable [DecidableEq P]

/-- task_generator.py:80-82 and 89-91
    `while solution in self.seen and unique_tries < self.max_tries:
         solution = sample_program(); unique_tries += 1`
    called with fuel `max_tries - unique_tries`; returns (solution, unique_tries, remaining draws) -/
def uniqLoop (seen : List P) (maxTries : Nat) : Nat → P → Nat → List P → Option (P × Nat × List P)
  | 0, sol, ut, ds => some (sol, ut, ds)
  | fuel + 1, sol, ut, ds =>
    if sol ∈ seen ∧ ut < maxTries then
      match ds with
      | [] => none
      | d :: ds' => uniqLoop seen maxTries fuel d (ut + 1) ds'
    else some (sol, ut, ds)

/-- task_generator.py:87-96 `while var_used < nargs and tries < self.max_tries: …`
    called with fuel `max_tries - tries`; returns (best, unique_tries, remaining draws) -/
def varLoop (seen : List P) (maxTries nargs : Nat) (usedVars : P → Nat) :
    Nat → Nat → P → Nat → Nat → List P → Option (P × Nat × List P)
  | 0, _, best, _, ut, ds => some (best, ut, ds)
  | fuel + 1, varUsed, best, tries, ut, ds =>
    if varUsed < nargs ∧ tries < maxTries then
      match ds with
      | [] => none
      | d :: ds1 =>
        match uniqLoop seen maxTries (maxTries - ut) d ut ds1 with
        | none => none
        | some (sol, ut', ds2) =>
          if usedVars sol > varUsed then
            varLoop seen maxTries nargs usedVars fuel (usedVars sol) sol (tries + 1) ut' ds2
          else
            varLoop seen maxTries nargs usedVars fuel varUsed best (tries + 1) ut' ds2
    else some (best, ut, ds)

/-- task_generator.py:72-97 `generate_program(type_request)` on the draws `ds` of the grammar of
    the type request; returns ((best, is_unique), remaining draws) -/
def generateProgram (seen : List P) (maxTries nargs : Nat) (usedVars : P → Nat) (ds : List P) :
    Option ((P × Bool) × List P) :=
  match ds with
  | [] => none
  | d :: ds1 =>
    match uniqLoop seen maxTries maxTries d 0 ds1 with
    | none => none
    | some (sol, ut, ds2) =>
      match varLoop seen maxTries nargs usedVars maxTries (usedVars sol) sol 0 ut ds2 with
      | none => none
      | some (best, ut', ds3) => some ((best, decide (ut' < maxTries)), ds3)

end program

/-! ### `generate_type_request` -/

/-- task_generator.py:102-104 `while type_request in self._failed_types and i <= self.max_tries`
    called with fuel `max_tries + 1 - i` -/
def typeLoop [DecidableEq T] (failed : List T) (maxTries : Nat) :
    Nat → T → Nat → List T → Option (T × List T)
  | 0, tr, _, ts => some (tr, ts)
  | fuel + 1, tr, i, ts =>
    if tr ∈ failed ∧ i ≤ maxTries then
      match ts with
      | [] => none
      | t :: ts' => typeLoop failed maxTries fuel t (i + 1) ts'
    else some (tr, ts)

/-- task_generator.py:99-107 without the `difficulty` update (done in `taskLoop`) -/
def generateTypeRequest [DecidableEq T] (failed : List T) (maxTries : Nat) (ts : List T) :
    Option (T × List T) :=
  match ts with
  | [] => none
  | t :: ts' => typeLoop failed maxTries (maxTries + 1) t 0 ts'

/-! ### the example loop -/

/-- task_generator.py:109-110 `[self.input_generator.sample(type=arg_type) for arg_type in arguments]` -/
def sampleInput [DecidableEq A] : List A → AList A (List I) → Option (List I × AList A (List I))
  | [], d => some ([], d)
  | a :: as, d =>
    match pop a d with
    | none => none
    | some (x, d') =>
      match sampleInput as d' with
      | none => none
      | some (xs, d'') => some (x :: xs, d'')

/-- what an outcome of the evaluator becomes in `eval_input` -/
def outOpt (skip : E → Bool) : Outcome V E → Except E (Option V)
  | .value v => .ok (some v)
  | .skipped => .ok none
  | .raised e => if skip e then .ok none else .error e

/-- task_generator.py:112-119 `eval_input` -/
def evalInput (cfg : Cfg T A P V E) (ev : Ev St P (List I) V E) (es : St) (sol : P) (inp : List I) :
    St × Except E (Option V) :=
  ((ev.eval es sol inp).1, outOpt cfg.skip (ev.eval es sol inp).2)

/-- how the example loop ends -/
inductive ExRes (I V E St A : Type) where
  | done (tries : Nat) (exs : List (List I × Option V)) (inputs : AList A (List I)) (es : St)
  | raised (e : E) (inputs : AList A (List I)) (es : St)
  | stuck
  deriving DecidableEq

/-- task_generator.py:150-161 (after fix C18-F1)
    `while len(inputs) < samples and (self.max_tries - tries) + len(inputs) >= samples
           and tries < self.max_tries: …`
    called with fuel `max_tries - tries`; `exs` is `zip(inputs, outputs)` -/
def exLoop [DecidableEq A] [DecidableEq V] (cfg : Cfg T A P V E) (ev : Ev St P (List I) V E)
    (sol : P) (arguments : List A) (samples : Int) :
    Nat → Nat → List (List I × Option V) → AList A (List I) → St → ExRes I V E St A
  | 0, tries, exs, ind, es => .done tries exs ind es
  | fuel + 1, tries, exs, ind, es =>
    if (exs.length : Int) < samples ∧ ((cfg.maxTries : Int) - tries) + exs.length ≥ samples
        ∧ tries < cfg.maxTries then
      match sampleInput arguments ind with
      | none => .stuck
      | some (inp, ind') =>
        match evalInput cfg ev es sol inp with
        | (es', .error e) => .raised e ind' es'
        | (es', .ok out) =>
          if cfg.valid out = true ∧ out ∉ exs.map (·.2) then
            if ((exs ++ [(inp, out)]).length : Int) ≥ samples then
              .done (tries + 1) (exs ++ [(inp, out)]) ind' es'
            else exLoop cfg ev sol arguments samples fuel (tries + 1) (exs ++ [(inp, out)]) ind' es'
          else exLoop cfg ev sol arguments samples fuel (tries + 1) exs ind' es'
    else .done tries exs ind es

/-- the example loop BEFORE fix C18-F1 (`len(inputs) < samples` missing from the condition):
    kept only to state the finding (`finding_count_zero_before_fix`); not used by the model -/
def exLoopUnfixed [DecidableEq A] [DecidableEq V] (cfg : Cfg T A P V E) (ev : Ev St P (List I) V E)
    (sol : P) (arguments : List A) (samples : Int) :
    Nat → Nat → List (List I × Option V) → AList A (List I) → St → ExRes I V E St A
  | 0, tries, exs, ind, es => .done tries exs ind es
  | fuel + 1, tries, exs, ind, es =>
    if ((cfg.maxTries : Int) - tries) + exs.length ≥ samples ∧ tries < cfg.maxTries then
      match sampleInput arguments ind with
      | none => .stuck
      | some (inp, ind') =>
        match evalInput cfg ev es sol inp with
        | (es', .error e) => .raised e ind' es'
        | (es', .ok out) =>
          if cfg.valid out = true ∧ out ∉ exs.map (·.2) then
            if ((exs ++ [(inp, out)]).length : Int) ≥ samples then
              .done (tries + 1) (exs ++ [(inp, out)]) ind' es'
            else exLoopUnfixed cfg ev sol arguments samples fuel (tries + 1) (exs ++ [(inp, out)]) ind' es'
          else exLoopUnfixed cfg ev sol arguments samples fuel (tries + 1) exs ind' es'
    else .done tries exs ind es

/-! ### `generate_task` -/

/-- result of one call of `generate_task` -/
inductive Out (T A P I V E St : Type) where
  | task (t : GTask T P I V) (s : State T A P I St)
  /-- an exception left `generate_task`; the generator object stays usable, in state `s` -/
  | raised (e : E) (s : State T A P I St)
  /-- a sampler was asked for more draws than the stream holds -/
  | stuck

/-- `self.difficulty[type_request][0] += tries; self.difficulty[type_request][1] += tries - n` -/
def bumpDifficulty [DecidableEq T] (tr : T) (tries n : Nat) (d : AList T (Nat × Nat)) :
    AList T (Nat × Nat) :=
  match AList.lookup tr d with
  | some (a, b) => AList.insert tr (a + tries, b + (tries - n)) d
  | none => d

/-- `self.generated_types[type_request] += 1` -/
def bumpGenerated [DecidableEq T] (tr : T) (d : AList T Nat) : AList T Nat :=
  match AList.lookup tr d with
  | some a => AList.insert tr (a + 1) d
  | none => d

/-- one iteration of `while True` either leaves `generate_task` or goes round again -/
inductive Iter (T A P I V E St : Type) where
  | out (o : Out T A P I V E St)
  | retry (s : State T A P I St)

/-- task_generator.py:139-188 the body of `while True: …` -/
def iteration [DecidableEq T] [DecidableEq A] [DecidableEq P] [DecidableEq V]
    (cfg : Cfg T A P V E) (ev : Ev St P (List I) V E) (s : State T A P I St) :
    Iter T A P I V E St :=
  -- 139 type_request = self.generate_type_request()
  match generateTypeRequest s.failed cfg.maxTries s.types with
  | none => .out .stuck
  | some (tr, ts) =>
  let s1 : State T A P I St :=
    { s with types := ts,
             difficulty := if AList.contains tr s.difficulty then s.difficulty
                           else AList.insert tr (0, 0) s.difficulty }
  -- 143 solution, is_unique = self.generate_program(type_request)
  match AList.lookup tr s.progs with
  | none => .out (.raised cfg.keyError s1)
  | some ds =>
  match generateProgram s.seen cfg.maxTries (cfg.args tr).length cfg.usedVars ds with
  | none => .out .stuck
  | some ((sol, isUnique), ds') =>
  -- 145 samples = self.gen_random_sample_number.sample(type=type_request)
  match pop tr s.samples with
  | none => .out .stuck
  | some (samples, smp') =>
  let s2 : State T A P I St := { s1 with progs := AList.insert tr ds' s.progs, samples := smp' }
  -- 146-161 the example loop
  match exLoop cfg ev sol (cfg.args tr) samples cfg.maxTries 0 [] s.inputs s.es with
  | .stuck => .out .stuck
  | .raised e ind es => .out (.raised e { s2 with inputs := ind, es := es })
  | .done tries exs ind es =>
    -- 163-164
    let s3 : State T A P I St :=
      { s2 with inputs := ind, es := es,
                difficulty := bumpDifficulty tr tries exs.length s2.difficulty }
    -- 167-169
    if (exs.length : Int) < samples then
      .retry { s3 with failed := setAdd tr s3.failed }
    else
      -- 170-188
      .out (.task ⟨tr, sol, exs, tries, isUnique⟩
        { s3 with failed := [], generated := bumpGenerated tr s3.generated,
                  seen := if cfg.uniques && isUnique then setAdd sol s3.seen else s3.seen })

/-- task_generator.py:138 `while True: …` (fuel: one type draw at least is consumed per iteration) -/
def taskLoop [DecidableEq T] [DecidableEq A] [DecidableEq P] [DecidableEq V]
    (cfg : Cfg T A P V E) (ev : Ev St P (List I) V E) :
    Nat → State T A P I St → Out T A P I V E St
  | 0, _ => .stuck
  | fuel + 1, s =>
    match iteration cfg ev s with
    | .out o => o
    | .retry s' => taskLoop cfg ev fuel s'

/-- task_generator.py:136-188 `generate_task` -/
def generateTask [DecidableEq T] [DecidableEq A] [DecidableEq P] [DecidableEq V]
    (cfg : Cfg T A P V E) (ev : Ev St P (List I) V E) (s : State T A P I St) :
    Out T A P I V E St :=
  taskLoop cfg ev (s.types.length + 1) { s with failed := [] }

/-- task_generator.py:190-192 the first `n` calls of `generate_task` on one generator (the calls
    go on after an exception; they stop when a stream is exhausted) -/
def run [DecidableEq T] [DecidableEq A] [DecidableEq P] [DecidableEq V]
    (cfg : Cfg T A P V E) (ev : Ev St P (List I) V E) :
    Nat → State T A P I St → List (Out T A P I V E St)
  | 0, _ => []
  | n + 1, s =>
    match generateTask cfg ev s with
    | .task t s' => .task t s' :: run cfg ev n s'
    | .raised e s' => .raised e s' :: run cfg ev n s'
    | .stuck => [.stuck]

/-- the tasks among the results -/
def tasksOf : List (Out T A P I V E St) → List (GTask T P I V)
  | [] => []
  | .task t _ :: r => t :: tasksOf r
  | _ :: r => tasksOf r

/-! ### Specification: what the property says about one task, given the draws and the semantics
  (no reference to the algorithm).  `sem` is the semantics of programs (C11: `specEval`). -/
section spec
variable [DecidableEq T] [DecidableEq A] [DecidableEq P] [DecidableEq I] [DecidableEq V]

/-- the draws of key `k` -/
def draws {κ α : Type} [DecidableEq κ] (k : κ) (d : AList κ (List α)) : List α :=
  (AList.lookup k d).getD []

/-- every example's output is the evaluation of the solution on its input (`None` when the
    evaluation fails with a skipped exception) -/
def okIs : Except E (Option V) → Option V → Bool
  | .ok o, o' => decide (o = o')
  | .error _, _ => false

def Consistent (skip : E → Bool) (sem : P → List I → Outcome V E) (t : GTask T P I V) : Prop :=
  ∀ ex ∈ t.examples, okIs (outOpt skip (sem t.solution ex.1)) ex.2 = true

/-- the solution is one of the draws of the grammar of the task's type request -/
def Member (progs : AList T (List P)) (t : GTask T P I V) : Prop :=
  t.solution ∈ draws t.typeRequest progs

/-- every input has one component per argument, drawn from the input sampler for its type -/
def InputsOK (args : T → List A) (inputs : AList A (List I)) (t : GTask T P I V) : Prop :=
  ∀ ex ∈ t.examples, ex.1.length = (args t.typeRequest).length ∧
    ∀ ax ∈ List.zip (args t.typeRequest) ex.1, ax.2 ∈ draws ax.1 inputs

/-- outputs pairwise distinct and accepted by the validator -/
def Distinct (valid : Option V → Bool) (t : GTask T P I V) : Prop :=
  (t.examples.map (·.2)).Nodup ∧ ∀ ex ∈ t.examples, valid ex.2 = true

/-- the number of examples is a number drawn for the type request -/
def Count (samples : AList T (List Int)) (t : GTask T P I V) : Prop :=
  (t.examples.length : Int) ∈ draws t.typeRequest samples

instance (skip : E → Bool) (sem : P → List I → Outcome V E) (t : GTask T P I V) :
    Decidable (Consistent skip sem t) := by unfold Consistent; infer_instance
instance (progs : AList T (List P)) (t : GTask T P I V) : Decidable (Member progs t) := by
  unfold Member; infer_instance
instance (args : T → List A) (inputs : AList A (List I)) (t : GTask T P I V) :
    Decidable (InputsOK args inputs t) := by unfold InputsOK; infer_instance
instance (valid : Option V → Bool) (t : GTask T P I V) : Decidable (Distinct valid t) := by
  unfold Distinct; infer_instance
instance (samples : AList T (List Int)) (t : GTask T P I V) : Decidable (Count samples t) := by
  unfold Count; infer_instance

end spec

end PS.C18
