/-
  C16 — equality, hashing and persistence of types and programs.

  Transcribes (as they are at /repo HEAD)
    synth/syntax/type_system.py : Type.__hash__ (26-31), PolymorphicType (172-187),
        FixedPolymorphicType (223-248), PrimitiveType (263-274), Sum (295-333), Arrow (368-404),
        Generic (465-518, __getstate__/__setstate__ 495-500), UnknownType (590-604),
        copyreg reducers (651-662)
    synth/syntax/program.py     : Program.__hash__ (18-23), Variable (134-156), Constant (172-230),
        Function (245-296), Lambda (361-386), Primitive (415-440), copyreg reducers (443-446)

  Objects are rose trees (`PS.Tree`) over the label type `Lab`; the children of a node are the
  sub-objects in the order given below.  Python's seed-dependent builtin `hash` is abstracted to
  `HashFns` (any functions; the only law assumed is that the hash of a frozenset does not depend
  on the order of its entries).

  Three layers:
    * `sem h n`            — the LITERAL model: `__eq__`/cached `hash` class by class, with CPython's
                             set algorithms (`set(...)`, `symmetric_difference`, `frozenset`) that look
                             entries up by hash first and `==` second, and the rule that the reflected
                             `__eq__` of a proper subclass is tried first.  Recursion on a fuel `n`
                             (`pyEq`/`pyHash` supply enough fuel: the depth of the objects).
    * `eqS`, `hashS h`     — the SPECIFICATION: hash-free structural description of which objects are
                             equal (same class, same identifying fields, children pointwise equal resp.
                             equal as sets) and of the hash as a function of the equivalence class.
    * `Obj`, `build`, `reduce`, `construct`, `assign` — objects with their cached `hash` field,
                             constructors, the pickle reducers and `Constant.assign/reset`.
  Core Lean only.
-/
import PS.Basic
import PS.Model.Tree
namespace PS.C16
open PS

/-! ## values carried by `Constant` -/

/-- atomic Python values: `None`, `bool`, `int`, `float` restricted to half-integers
    (`half n` is the float `n/2`), `str` -/
inductive Atom where
  | none
  | bool (b : Bool)
  | int (n : Int)
  | half (n : Int)
  | str (s : String)
  deriving DecidableEq, Repr, Inhabited

/-- values: an atom, a tuple of atoms or a list of atoms -/
inductive PyVal where
  | atom (a : Atom)
  | tuple (l : List Atom)
  | list (l : List Atom)
  deriving DecidableEq, Repr, Inhabited

/-- the key deciding Python's `==` on atoms: numbers (bool ⊂ int ⊂ float) compare by value
    (stored doubled so that half-integers stay integral) -/
inductive AKey where
  | none
  | num (twice : Int)
  | str (s : String)
  deriving DecidableEq, Repr

def Atom.key : Atom → AKey
  | .none => .none
  | .bool b => .num (if b then 2 else 0)
  | .int n => .num (2 * n)
  | .half n => .num n
  | .str s => .str s

/-- what Python's `==` looks at in a value -/
inductive VKey where
  | atom (k : AKey)
  | tuple (l : List AKey)
  | list (l : List AKey)
  deriving DecidableEq, Repr

def PyVal.key : PyVal → VKey
  | .atom a => .atom a.key
  | .tuple l => .tuple (l.map Atom.key)
  | .list l => .list (l.map Atom.key)

/-- Python `v == w` on the value domain (no NaN: half-integers only) -/
def valEq (v w : PyVal) : Bool := v.key == w.key

def PyVal.isNone : PyVal → Bool
  | .atom .none => true
  | _ => false

/-! ## labels -/

/-- class + non-object fields of a node.  Children:
    `tprim/tpoly/unknown` none; `tfpoly`, `tsum`, `tgeneric` the `types`; `tarrow` `[type_in, type_out]`;
    `pprim/pvar/pconst` `[type]`; `pfun` `function :: arguments`; `plam` `[body, type]`. -/
inductive Lab where
  | tprim (name : String)
  | tpoly (name : String)
  | tfpoly (name : String)
  | tsum
  | tarrow
  | tgeneric (name : String) (isInfix : Bool)
  | unknown
  | pprim (name : String)
  | pvar (i : Int)
  /-- `repr` is `str(value)` (computed by CPython, a function of the value) -/
  | pconst (hasValue : Bool) (val : PyVal) (repr : String)
  /-- `argsTuple`: `arguments` is a tuple instead of a list -/
  | pfun (argsTuple : Bool)
  | plam
  deriving DecidableEq, Repr, Inhabited

abbrev T := Tree Lab

/-- `isinstance(x, PolymorphicType)` -/
def Lab.isPoly : Lab → Bool
  | .tpoly _ => true
  | .tfpoly _ => true
  | _ => false

/-- is `type(b)` a proper subclass of `type(a)` that overrides `__eq__`?
    (only `FixedPolymorphicType < PolymorphicType`) -/
def Lab.properSub (b a : Lab) : Bool :=
  match b, a with
  | .tfpoly _, .tpoly _ => true
  | _, _ => false

/-- the fields of a node that identify it (what `__eq__` and the hash look at):
    a generic's `infix` flag is dropped, a constant's value is replaced by its `==`-key -/
inductive LKey where
  | tprim (name : String)
  | tpoly (name : String)
  | tfpoly (name : String)
  | tsum
  | tarrow
  | tgeneric (name : String)
  | unknown
  | pprim (name : String)
  | pvar (i : Int)
  | pconst (hasValue : Bool) (val : VKey) (repr : String)
  | pfun (argsTuple : Bool)
  | plam
  deriving DecidableEq, Repr

def Lab.key : Lab → LKey
  | .tprim n => .tprim n
  | .tpoly n => .tpoly n
  | .tfpoly n => .tfpoly n
  | .tsum => .tsum
  | .tarrow => .tarrow
  | .tgeneric n _ => .tgeneric n
  | .unknown => .unknown
  | .pprim n => .pprim n
  | .pvar i => .pvar i
  | .pconst hv v r => .pconst hv v.key r
  | .pfun t => .pfun t
  | .plam => .plam

/-- how the children take part in equality: not at all, pointwise, as a set, first child only -/
inductive Mode where
  | leaf | zip | set | head
  deriving DecidableEq, Repr

def LKey.mode : LKey → Mode
  | .tprim _ => .leaf
  | .tpoly _ => .leaf
  | .unknown => .leaf
  | .pvar _ => .leaf
  | .tfpoly _ => .set
  | .tsum => .set
  | .plam => .head
  | _ => .zip

/-! ## abstract hash functions -/

structure HashFns where
  str : String → Int
  int : Int → Int
  bool : Bool → Int
  tuple : List Int → Int
  /-- hash of a frozenset, given the hashes of its (distinct) entries in table order -/
  fset : List Int → Int

/-- the one law assumed about CPython's hashes: a frozenset's hash does not depend on the
    order of its entries -/
def HashFns.Lawful (h : HashFns) : Prop :=
  ∀ l1 l2 : List Int, l1.Perm l2 → h.fset l1 = h.fset l2

/-! ## CPython sets (insertion-ordered lists of distinct entries) -/

/-- how a set/dict compares a stored entry `e` with a probe `t`: hashes first, then `e == t` -/
def keyEq {α : Type} (eq : α → α → Bool) (hs : α → Int) (e t : α) : Bool := hs e == hs t && eq e t

section sets
variable {α : Type} (R : α → α → Bool)

/-- `key in s` for a set: some entry matches -/
def setMem (s : List α) (t : α) : Bool := s.any (fun e => R e t)

/-- `s.add(t)` -/
def setAdd (s : List α) (t : α) : List α := if setMem R s t then s else s ++ [t]

/-- `set(iterable)` / `frozenset(iterable)` -/
def mkSet (l : List α) : List α := l.foldl (setAdd R) []

/-- remove the first entry matching `t` -/
def setDiscard : List α → α → List α
  | [], _ => []
  | e :: s, t => if R e t then s else e :: setDiscard s t

/-- one step of `set_symmetric_difference_update`: discard the key if present, else add it -/
def symStep (s : List α) (t : α) : List α :=
  if setMem R s t then setDiscard R s t else s ++ [t]

/-- `len(set(o).symmetric_difference(self)) == 0` : CPython builds `set(self)`, then for every
    entry of `set(o)` discards it from / adds it to that set -/
def symDiffEmpty (o self : List α) : Bool :=
  ((mkSet R o).foldl (symStep R) (mkSet R self)).isEmpty

end sets

/-- `zip`-pointwise comparison of two lists of equal length (list `==`) -/
def listEq {α : Type} (eq : α → α → Bool) : List α → List α → Bool
  | [], [] => true
  | a :: as, b :: bs => eq a b && listEq eq as bs
  | _, _ => false

/-! ## the literal model: one unfolding of `__eq__` / of the constructors' hash -/

/-- the body of `type(self).__eq__(self, o)`, given `==` and `hash` on the children -/
def classEq (eq : T → T → Bool) (hs : T → Int) (self o : T) : Bool :=
  match self, o with
  | .node ls ks, .node lo ko =>
    match ls with
    | .tprim n => (match lo with | .tprim m => m == n | _ => false)
    | .tpoly n => lo.isPoly && (match lo with | .tpoly m => m == n | .tfpoly m => m == n | _ => false)
    | .tfpoly n => (match lo with | .tfpoly m => m == n && symDiffEmpty (keyEq eq hs) ko ks | _ => false)
    | .tsum => (match lo with | .tsum => symDiffEmpty (keyEq eq hs) ko ks | _ => false)
    | .tarrow => (match lo with | .tarrow => listEq eq ko ks | _ => false)
    | .tgeneric n _ => (match lo with
        | .tgeneric m _ => m == n && ks.length == ko.length && listEq eq ks ko
        | _ => false)
    | .unknown => (match lo with | .unknown => true | _ => false)
    | .pprim n => (match lo with | .pprim m => n == m && listEq eq ks ko | _ => false)
    | .pvar i => (match lo with | .pvar j => i == j | _ => false)
    | .pconst hv v r => (match lo with
        | .pconst hv' v' r' => listEq eq ks ko && hv == hv' && valEq v v' && r == r'
        | _ => false)
    | .pfun tup => (match lo with
        | .pfun tup' =>
          (match ks, ko with
           | f :: as, f' :: as' => eq f f' && as.length == as'.length && (tup == tup' && listEq eq as as')
           | [], [] => tup == tup'
           | _, _ => false)
        | _ => false)
    | .plam => (match lo with
        | .plam => (match ks, ko with
           | b :: _, b' :: _ => eq b b'
           | [], [] => true
           | _, _ => false)
        | _ => false)

/-- `a == b` as CPython evaluates it: if `type(b)` is a proper subclass of `type(a)` overriding
    `__eq__`, the reflected method `b.__eq__(a)` is tried first (none of the methods returns
    `NotImplemented`, so its answer is final) -/
def richEq (eq : T → T → Bool) (hs : T → Int) (a b : T) : Bool :=
  if b.label.properSub a.label then classEq eq hs b a else classEq eq hs a b

/-- the expression each constructor stores in `self.hash`, given the hashes `khs` of the children
    and the hash `fs` of `frozenset(children)` (only `Sum` uses it) -/
def nodeHash (h : HashFns) (k : LKey) (khs : List Int) (fs : Int) : Int :=
  match k with
  | .tprim n => h.str n
  | .tpoly n => h.str n
  | .tfpoly n => h.str n
  | .tsum => fs
  | .tarrow => h.tuple khs
  | .tgeneric n => h.tuple [h.str n, h.tuple khs]
  | .unknown => h.int 1984
  | .pprim n => h.tuple (h.str n :: khs)
  | .pvar i => h.tuple [h.str "var", h.int i]
  | .pconst hv _ r => h.tuple (h.str r :: h.bool hv :: khs)
  | .pfun _ => (match khs with
      | f :: as => h.tuple (as ++ [f])
      | [] => h.tuple [])
  | .plam => (match khs with
      | b :: _ => h.int (94135 + b)
      | [] => h.int 94135)

/-- the value the constructor stores in `self.hash`, given `==` and `hash` of the children -/
def ctorHash (h : HashFns) (eq : T → T → Bool) (hs : T → Int) : T → Int
  | .node l ks => nodeHash h l.key (ks.map hs)
      (if l.key = .tsum then h.fset ((mkSet (keyEq eq hs) ks).map hs) else 0)

/-- `n` unfoldings of `==` and of `hash` -/
def sem (h : HashFns) : Nat → (T → T → Bool) × (T → Int)
  | 0 => (fun _ _ => false, fun _ => 0)
  | n + 1 =>
    let p := sem h n
    (richEq p.1 p.2, ctorHash h p.1 p.2)

/-- Python `a == b` -/
def pyEq (h : HashFns) (a b : T) : Bool := (sem h (max a.depth b.depth)).1 a b

/-- Python `hash(a)` of a freshly constructed object -/
def pyHash (h : HashFns) (a : T) : Int := (sem h a.depth).2 a

/-- `a in {b}` / `a in {b: …}` -/
def memKey (h : HashFns) (a b : T) : Bool := pyHash h b == pyHash h a && pyEq h b a

/-! ## the specification: who is equal to whom, and what the hash may depend on -/

mutual
  /-- same class and identifying fields (`Lab.key`), children equal pointwise (arrow, generic,
      primitive, constant, function), as sets (sum, restricted variable), only the body (lambda) or
      not looked at (a variable is identified by its index alone) -/
  def eqS : T → T → Bool
    | .node la ka, b =>
      match b with
      | .node lb kb =>
        la.key == lb.key &&
        (match la.key.mode with
         | .leaf => true
         | .zip => zipS ka kb
         | .set => subS ka kb && kb.all (anyS ka)
         | .head => headS ka kb)
  def zipS : List T → List T → Bool
    | [], kb => kb.isEmpty
    | k :: ks, kb => (match kb with | [] => false | k' :: kb' => eqS k k' && zipS ks kb')
  /-- every element of the first list has an equal partner in the second -/
  def subS : List T → List T → Bool
    | [], _ => true
    | k :: ks, kb => kb.any (eqS k) && subS ks kb
  /-- some element of the list equals `t` -/
  def anyS : List T → T → Bool
    | [], _ => false
    | k :: ks, t => eqS k t || anyS ks t
  def headS : List T → List T → Bool
    | [], kb => kb.isEmpty
    | k :: _, kb => (match kb with | [] => false | k' :: _ => eqS k k')
end

mutual
  /-- the hash as a function of the equivalence class: the constructor's expression over the
      children's hashes; for a sum, the frozenset hash over one representative per class -/
  def hashS (h : HashFns) : T → Int
    | .node l ks =>
      nodeHash h l.key (hashListS h ks)
        (if l.key = .tsum then
          h.fset ((mkSet (fun (e t : T × Int) => eqS e.1 t.1) (ks.zip (hashListS h ks))).map (·.2))
         else 0)
  def hashListS (h : HashFns) : List T → List Int
    | [] => []
    | k :: ks => hashS h k :: hashListS h ks
end

/-! ## objects with their cached hash field, constructors, reducers, `assign` -/

/-- an object whose every node carries the value of its `hash` attribute -/
abbrev Obj := Tree (Lab × Int)

mutual
  def erase : Obj → T
    | .node l ks => .node l.1 (eraseList ks)
  def eraseList : List Obj → List T
    | [] => []
    | k :: ks => erase k :: eraseList ks
end

def cached : Obj → Int
  | .node l _ => l.2

/-- a constructor call: the children are existing objects whose `__hash__` returns their cached
    field; `==` between children (needed by `frozenset(types)` in `Sum`) is Python's `==` -/
def construct (h : HashFns) (l : Lab) (kids : List Obj) : Obj :=
  let ks : List (T × Int) := kids.map (fun k => (erase k, cached k))
  let fs : Int :=
    if l.key = .tsum then h.fset ((mkSet (keyEq (fun a b => pyEq h a.1 b.1) (·.2)) ks).map (·.2)) else 0
  .node (l, nodeHash h l.key (ks.map (·.2)) fs) kids

/-- `Constant.__init__(type, value, has_value)`: `_has_value = has_value or value is not None` -/
def constLab (value : PyVal) (repr : String) (hasValueArg : Bool) : Lab :=
  .pconst (hasValueArg || !value.isNone) value repr

mutual
  /-- build an object bottom-up through the constructors in a process whose hash functions are `h` -/
  def build (h : HashFns) : T → Obj
    | .node l ks => construct h l (buildList h ks)
  def buildList (h : HashFns) : List T → List Obj
    | [] => []
    | k :: ks => build h k :: buildList h ks
end

/-- what a reducer hands to pickle: the class (with the non-object constructor arguments) and the
    object arguments — never the `hash` field (`Generic.__getstate__` drops it explicitly,
    the `copyreg` reducers name the constructor arguments) -/
def reduce : Obj → Lab × List Obj
  | .node l ks => (l.1, ks)

mutual
  /-- pickle stream of an object: reducers applied recursively -/
  def pickle : Obj → T
    | .node l ks => .node l.1 (pickleList ks)
  def pickleList : List Obj → List T
    | [] => []
    | k :: ks => pickle k :: pickleList ks
end

/-- normalisation the constructors apply to the reduced arguments when the stream is replayed
    (`Constant(type, value, has_value)` recomputes `_has_value`) -/
def relabel : Lab → Lab
  | .pconst hv v r => constLab v r hv
  | l => l

mutual
  /-- unpickling in a process whose hash functions are `h'`: every object is rebuilt by its
      constructor (`Generic.__setstate__` recomputes the hash the same way) -/
  def unpickle (h' : HashFns) : T → Obj
    | .node l ks => construct h' (relabel l) (unpickleList h' ks)
  def unpickleList (h' : HashFns) : List T → List Obj
    | [] => []
    | k :: ks => unpickle h' k :: unpickleList h' ks
end

/-- constructor invariant of constants: a value other than `None` implies `_has_value` -/
def Lab.wf : Lab → Bool
  | .pconst hv v _ => hv || v.isNone
  | _ => true

mutual
  def wf : T → Bool
    | .node l ks => l.wf && wfList ks
  def wfList : List T → Bool
    | [] => true
    | k :: ks => wf k && wfList ks
end

/-- `Constant.assign(value)` / `Constant.reset()` applied to the constant found by following
    `path` (child indices); only that node's fields and cached hash are rewritten — the hash
    cached by the enclosing `Function`/`Lambda` objects is left as it was -/
def modifyNth {α : Type} (f : α → α) : Nat → List α → List α
  | _, [] => []
  | 0, k :: ks => f k :: ks
  | j + 1, k :: ks => k :: modifyNth f j ks

def assignAt (h : HashFns) (hv : Bool) (v : PyVal) (r : String) : List Nat → Obj → Obj
  | [], .node l ks =>
    (match l.1 with
     | .pconst _ _ _ => construct h (.pconst hv v r) ks
     | _ => .node l ks)
  | i :: p, .node l ks => .node l (modifyNth (assignAt h hv v r p) i ks)

/-! ## `hash(o)` with the repair proposed for C16-F7 (fixes_proposed/C16-F7.diff)

  `Program` keeps a class-level counter of `Constant.assign`/`reset` calls; every program stores
  the value of the counter at the time its hash was cached (`hash_time`); `Program.__hash__`
  recomputes the hash (`__compute_hash__`: `Function`, `Lambda`; a leaf has nothing to recompute)
  when the counter has moved.  The recomputation calls `hash(child)`, so it is recursive.  The
  implementation memoises the recomputed value; the model below is the value it returns once an
  assignment has happened after the object was built. -/

/-- the program classes whose `__hash__` recomputes the hash from the sub-programs when a constant
    was assigned or reset since it was cached (fixes_proposed/C16-F7.diff): `Function`, `Lambda` -/
def Lab.recomputes : Lab → Bool
  | .pfun _ => true
  | .plam => true
  | _ => false

mutual
  /-- `hash(o)` with the repair, once `Constant.assign`/`reset` has been called after the hashes of
      `o` were cached: `Function`/`Lambda` recompute from `hash(child)`, every other class
      returns its cached field (a `Constant` refreshes its own field in `assign`/`reset`) -/
  def hashAfter (h : HashFns) : Obj → Int
    | .node l ks => if l.1.recomputes then nodeHash h l.1.key (hashAfterList h ks) 0 else l.2
  def hashAfterList (h : HashFns) : List Obj → List Int
    | [] => []
    | k :: ks => hashAfter h k :: hashAfterList h ks
end

/-- `path` leads, through `Function`/`Lambda` objects only, to a constant whose own children (its
    type) are not programs: what a path to a constant looks like in every program the
    constructors can build -/
def validAt : List Nat → Obj → Bool
  | [], .node l ks =>
    (match l.1 with | .pconst _ _ _ => true | _ => false) && ks.all (fun k => !k.label.1.recomputes)
  | i :: p, .node l ks =>
    l.1.recomputes && (match ks[i]? with | some k => validAt p k | none => false)

/-- one `assign`/`reset` call: where, and the new fields of the constant -/
structure Op where
  path : List Nat
  hasValue : Bool
  val : PyVal
  repr : String

/-- a history of `assign`/`reset` calls, each on a constant of the program -/
def runOps (h : HashFns) : List Op → Obj → Obj
  | [], o => o
  | op :: ops, o => runOps h ops (assignAt h op.hasValue op.val op.repr op.path o)

def validOps (h : HashFns) : List Op → Obj → Bool
  | [], _ => true
  | op :: ops, o => validAt op.path o && validOps h ops (assignAt h op.hasValue op.val op.repr op.path o)

/-- Python `hash(o)` for an object `o` on which `assign`/`reset` has been called at least once since
    it was built: without the repair the field cached at construction, with it `hashAfter` -/
def objHash (h : HashFns) (fx : Bool) (o : Obj) : Int := if fx then hashAfter h o else cached o

/-! ## a concrete instance of the hash functions (used by the driver) -/

def P61 : Int := 2305843009213693951

def h0 : HashFns where
  str s := s.foldl (fun acc c => (acc * 1000003 + c.toNat + 7) % P61) 5381
  int n := if n == -1 then -2 else n % P61
  bool b := if b then 1 else 0
  -- deliberately non-linear: an affine combination lets two opposite changes in sibling
  -- sub-objects cancel (observed: two constants swapping their values)
  tuple l := l.foldl (fun acc x =>
    let y := x % P61
    (acc * 1000003 + y * y * 31 + y * 7 + (acc % 65537) * y + 97) % P61) 3430008
  fset l := ((l.map (fun x => (x % P61) * (x % P61) + 89869747 * (x % P61) + 3141592653)).foldl (· + ·) 0 * 69069
    + 907133923 + l.length) % P61

end PS.C16
