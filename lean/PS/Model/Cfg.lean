/-
  Model of synth/syntax/grammars/cfg.py  (property C01; reused by C04/C17/C06).

  `ruleSet`        body of one iteration of the worklist loop of `CFG.depth_constraint`
                   (cfg.py:183-270, after the fix: commits for forbidden leaves): which rules a
                   non-terminal `(type, (n-gram, depth))` receives.
  `successor`      `NGram.successor` (grammar.py:27-31).
  `buildTable`     the worklist closure (order-insensitive: the comparison with the
                   implementation sorts the table) followed by `clean` =
                   `_remove_non_productive_` then `_remove_non_reachable_` (cfg.py:33-123).
  `programs`       `CFG.programs` (cfg.py:37-53): table fill by decreasing depth.
  `wt`, `wtTerms`  SPECIFICATION: the well-typed applicative terms of the property statement.
  `tableOK`        a *verified checker*: a decidable certificate on a concrete rule table (the
                   implementation's!) that implies — theorem C01_certified — that the table's
                   language is exactly `wt`, and that every rule is reachable and productive.
-/
import PS.Model.Grammar
namespace PS.G
open PS

/-- `(NGram predecessors, depth)` -/
abbrev CFGState := List (Sym × Nat) × Nat
abbrev CNT := NT CFGState Unit
abbrev CFG := TT CFGState Unit
abbrev Rule := Sym × List (Ty × CFGState)

structure Params where
  prims : List Sym                                  -- dsl.list_primitives
  forbidden : AList (String × Nat) (List String)    -- dsl.forbidden_patterns
  request : Ty                                      -- type_request
  maxDepth : Nat
  minVarDepth : Nat
  nGram : Int
  recursive : Bool
  constTypes : List Ty
  deriving Repr

/-- `NGram.successor` -/
def successor (n : Int) (preds : List (Sym × Nat)) (new : Sym × Nat) : List (Sym × Nat) :=
  if ((preds.length : Int) + 1) + 1 > n ∧ n ≥ 0 then (new :: preds).dropLast else new :: preds

/-- `forbidden_sets.get((last.primitive, i) if last is a Primitive else ("", 0), set())` -/
def forbKey : Option (Sym × Nat) → String × Nat
  | some (s, i) => if s.kind = .prim then (s.name, i) else ("", 0)
  | none => ("", 0)

def forbAt (P : Params) (parent : Option (Sym × Nat)) : List String :=
  (AList.lookup (forbKey parent) P.forbidden).getD []

def childNTs (P : Params) (ctx : List (Sym × Nat)) (depth : Nat) (head : Sym) (tys : List Ty) :
    List (Ty × CFGState) :=
  tys.zipIdx.map (fun ai => (ai.1, (successor P.nGram ctx (head, ai.2), depth + 1)))

def enumFrom' {α : Type} (l : List α) : List (Nat × α) := l.zipIdx.map (fun ai => (ai.2, ai.1))

def selfSym (P : Params) : Sym := Sym.prim "@self" P.request

/-- heads that can be applied at type `ty` with their argument types: DSL primitives not
    forbidden here, function-typed variables (only from `minVarDepth`), `@self` if recursive -/
def appHeads (P : Params) (forb : List String) (depth : Nat) (ty : Ty) : List (Sym × List Ty) :=
  (P.prims.filterMap (fun p =>
      if forb.contains p.name then none else
      match p.ty.endsWith ty with
      | some tys => some (p, tys)
      | none => none)) ++
  (if depth ≥ P.minVarDepth then
    (enumFrom' P.request.arguments).filterMap (fun iv =>
      match iv.2.endsWith ty with
      | some tys => if iv.2.arguments.length > 0 then some (Sym.var iv.1 iv.2, tys) else none
      | none => none)
   else []) ++
  (if P.recursive then
    match P.request.endsWith ty with
    | some tys => [(selfSym P, tys)]
    | none => []
   else [])

/-- leaf symbols allowed at type `ty` -/
def leafSyms (P : Params) (forb : List String) (depth : Nat) (ty : Ty) : List Sym :=
  (if depth ≥ P.minVarDepth then
    ((enumFrom' P.request.arguments).filterMap (fun iv =>
        if ty = iv.2 then some (Sym.var iv.1 ty) else none)) ++
    (if P.constTypes.contains ty then [Sym.const ty ""] else [])
   else []) ++
  (P.prims.filter (fun p => !(forb.contains p.name) && p.ty == ty))

/-- the rules created for one non-terminal (as a list; the dict keeps the last value per key,
    and two contributions for the same symbol always carry the same argument list) -/
def ruleSet (P : Params) (nt : CNT) : List Rule :=
  let ty := nt.1
  let ctx := nt.2.1.1
  let depth := nt.2.1.2
  if depth < P.maxDepth then
    let forb := forbAt P ctx.head?
    (leafSyms P forb depth ty).map (fun s => (s, [])) ++
    (if depth + 1 < P.maxDepth then
      (appHeads P forb depth ty).map (fun h => (h.1, childNTs P ctx depth h.1 h.2))
     else [])
  else []

def startNT (P : Params) : CNT := (P.request.returns, (([], 0), ()))

def toNT (a : Ty × CFGState) : CNT := (a.1, (a.2, ()))

/-- dict built from a rule list -/
def rulesDict (rs : List Rule) : AList Sym (List (Ty × CFGState) × Unit) :=
  rs.foldl (fun d r => AList.insert r.1 (r.2, ()) d) []

/-- worklist closure: every non-terminal reachable from the start gets `ruleSet` -/
def closure (P : Params) : Nat → List CNT → AList CNT (AList Sym (List (Ty × CFGState) × Unit)) →
    Option (AList CNT (AList Sym (List (Ty × CFGState) × Unit)))
  | _, [], tbl => some tbl
  | 0, _ :: _, _ => none
  | fuel + 1, nt :: todo, tbl =>
    if AList.contains nt tbl then closure P fuel todo tbl else
    let rs := ruleSet P nt
    closure P fuel (todo ++ (rs.flatMap (fun r => r.2.map toNT))) (AList.insert nt (rulesDict rs) tbl)

abbrev Table := AList CNT (AList Sym (List (Ty × CFGState) × Unit))

/-- one round of `_remove_non_productive_`'s candidate loop: non-terminals having a rule
    whose arguments are all already known productive -/
def prodStep (tbl : Table) (known : List CNT) : List CNT :=
  tbl.filterMap (fun e =>
    if known.contains e.1 then some e.1
    else if e.2.any (fun r => r.2.1.all (fun a => known.contains (toNT a))) then some e.1 else none)

def prodFix (tbl : Table) : Nat → List CNT → List CNT
  | 0, known => known
  | fuel + 1, known =>
    let k' := prodStep tbl known
    if k'.length = known.length then known else prodFix tbl fuel k'

def removeNonProductive (tbl : Table) : Table :=
  let prod := prodFix tbl (tbl.length + 1) []
  tbl.filterMap (fun e =>
    if prod.contains e.1 then
      some (e.1, e.2.filter (fun r => r.2.1.all (fun a => prod.contains (toNT a))))
    else none)

def reachFix (tbl : Table) : Nat → List CNT → List CNT → List CNT
  | 0, _, seen => seen
  | _, [], seen => seen
  | fuel + 1, nt :: todo, seen =>
    let kids := ((AList.lookup nt tbl).getD []).flatMap (fun r => r.2.1.map toNT)
    let new := (kids.filter (fun k => !(seen.contains k))).eraseDups
    reachFix tbl fuel (todo ++ new) (seen ++ new)

/-- `None` models the KeyError raised when the start symbol is not productive -/
def removeNonReachable (start : CNT) (tbl : Table) : Option Table :=
  if !(AList.contains start tbl) then none else
  let reach := reachFix tbl (tbl.length * tbl.length + tbl.length + 1) [start] [start]
  some (tbl.filter (fun e => reach.contains e.1))

/-- `CFG.depth_constraint(...)` -/
def buildTable (P : Params) (fuel : Nat) : Option CFG :=
  match closure P fuel [startNT P] [] with
  | none => none
  | some tbl =>
    match removeNonReachable (startNT P) (removeNonProductive tbl) with
    | none => none
    | some t => some ⟨startNT P, t⟩

/-- insertion sort on the depth component, decreasing (`sorted(keys, key=lambda s: -depth)`,
    which is stable) -/
def insertByDepth (x : CNT × AList Sym (List (Ty × CFGState) × Unit)) :
    List (CNT × AList Sym (List (Ty × CFGState) × Unit)) → List (CNT × AList Sym (List (Ty × CFGState) × Unit))
  | [] => [x]
  | y :: ys => if y.1.2.1.2 < x.1.2.1.2 then x :: y :: ys else y :: insertByDepth x ys

def sortByDepthDesc (tbl : Table) : Table := tbl.foldr insertByDepth []

/-- `CFG.programs()` (cfg.py:37-53); `none` = KeyError = recursive grammar (returns -1) -/
def programsFill : Table → AList (Ty × CFGState) Nat → Option (AList (Ty × CFGState) Nat)
  | [], cnt => some cnt
  | (nt, rs) :: rest, cnt =>
    let totals := rs.map (fun r => (r.2.1.map (fun a => AList.lookup a cnt)))
    if totals.all (fun l => l.all Option.isSome) then
      let total := (totals.map (fun l => (l.map (fun o => o.getD 0)).foldl (· * ·) 1)).sum
      programsFill rest (AList.insert (nt.1, nt.2.1) total cnt)
    else none

def programs (G : CFG) : Option Nat :=
  match programsFill (sortByDepthDesc G.rules) [] with
  | none => none
  | some cnt => AList.lookup (G.start.1, G.start.2.1) cnt

/-! ### Specification -/

/-- the context component that the rules can see of the true parent: with `n_gram ∈ {0,1}`
    the n-gram is always empty (finding C01-F2), otherwise its head is the parent -/
def effParent (P : Params) (parent : Sym × Nat) : Option (Sym × Nat) :=
  if P.nGram ≥ 2 ∨ P.nGram < 0 then some parent else none

/- `wt P vis t depth parent ty`: `t` is a well-typed applicative term of type `ty` at nesting
   depth `depth` below `parent`, within the depth bound, variables/constants only from
   `minVarDepth`, constants only at declared constant types, no forbidden
   (parent, index, child) pattern — where `vis` says what a child sees of its parent
   (`some` = the statement of the property; `effParent P` = what the code implements). -/
mutual
  def wt (P : Params) (vis : Sym × Nat → Option (Sym × Nat)) :
      Prog → Nat → Option (Sym × Nat) → Ty → Bool
    | .node f kids, depth, parent, ty =>
      decide (depth < P.maxDepth) &&
      ((kids.isEmpty && (leafSyms P (forbAt P parent) depth ty).contains f) ||
       (decide (depth + 1 < P.maxDepth) &&
        -- some applicable head is `f` and its argument types fit the children
        (appHeads P (forbAt P parent) depth ty).any (fun h =>
          h.1 == f && wtList P vis kids (depth + 1) f 0 h.2)))
  def wtList (P : Params) (vis : Sym × Nat → Option (Sym × Nat)) :
      List Prog → Nat → Sym → Nat → List Ty → Bool
    | [], _, _, _, [] => true
    | k :: ks, depth, f, i, ty :: tys =>
      wt P vis k depth (vis (f, i)) ty && wtList P vis ks depth f (i + 1) tys
    | _, _, _, _, _ => false
end

/-- the head search of `wt`, named for the proofs -/
def wtHeads (P : Params) (vis : Sym × Nat → Option (Sym × Nat)) (kids : List Prog) (depth : Nat)
    (f : Sym) (hs : List (Sym × List Ty)) : Bool :=
  hs.any (fun h => h.1 == f && wtList P vis kids depth f 0 h.2)

/-- the property's language: terms of the requested return type below no parent -/
def wtTop (P : Params) (t : Prog) : Bool := wt P some t 0 none P.request.returns

/-- enumeration of `wt` (budget = levels left) -/
def wtTerms (P : Params) (vis : Sym × Nat → Option (Sym × Nat)) :
    Nat → Nat → Option (Sym × Nat) → Ty → List Prog
  | 0, _, _, _ => []
  | b + 1, depth, parent, ty =>
    if depth < P.maxDepth then
      ((leafSyms P (forbAt P parent) depth ty).map (fun s => Tree.node s [])) ++
      (if depth + 1 < P.maxDepth then
        (appHeads P (forbAt P parent) depth ty).flatMap (fun h =>
          if h.2.isEmpty && (leafSyms P (forbAt P parent) depth ty).contains h.1 then [] else
          (product ((enumFrom' h.2).map (fun it => wtTerms P vis b (depth + 1) (vis (h.1, it.1)) it.2))).map
            (fun kids => Tree.node h.1 kids))
       else [])
    else []

/-! ### The language generated by the rule-creation step alone (no table) -/

/- `genR P t nt`: `t` is derivable from `nt` when every non-terminal `n` has the rules
   `ruleSet P n` — the "virtual" uncleaned grammar of `depth_constraint`. -/
mutual
  def genR (P : Params) : Prog → CNT → Bool
    | .node f kids, nt => (ruleSet P nt).any (fun r => r.1 == f && genRList P kids r.2)
  def genRList (P : Params) : List Prog → List (Ty × CFGState) → Bool
    | [], [] => true
    | k :: ks, a :: as => genR P k (toNT a) && genRList P ks as
    | _, _ => false
end

/-- the rule search of `genR`, named for the proofs -/
def genRAny (P : Params) (kids : List Prog) (f : Sym) (rs : List Rule) : Bool :=
  rs.any (fun r => r.1 == f && genRList P kids r.2)

/-! ### Verified checker for a concrete rule table -/

def sameRules (a : AList Sym (List (Ty × CFGState) × Unit)) (b : List Rule) : Bool :=
  a.all (fun r => b.contains (r.1, r.2.1)) && b.all (fun r => a.any (fun x => x.1 == r.1 && x.2.1 == r.2)) &&
  decide ((AList.keys a).Nodup)

/-- dead set certificate: non-terminals (not keys of the table) from which nothing can be
    derived — every rule of a dead non-terminal has a dead argument -/
def deadOK (P : Params) (dead : List CNT) : Bool :=
  dead.all (fun d => (ruleSet P d).all (fun r => r.2.any (fun a => dead.contains (toNT a))))

/-- `tableOK P G dead rankR rankP`:
    (1) the start is the start, and is a key;
    (2) every key's rules are exactly the rules of `ruleSet` all of whose arguments are keys;
    (3) every dropped rule has an argument in `dead`, and `dead` is a valid dead set;
    (4) `rankR` witnesses reachability (start has rank 0; every other key is an argument of a
        key of smaller rank);
    (5) `rankP` witnesses productivity (every key has a rule all of whose arguments have
        smaller rank). -/
def okStart (P : Params) (G : CFG) : Bool :=
  G.start == startNT P && AList.contains G.start G.rules && decide ((AList.keys G.rules).Nodup)

def isKey (G : CFG) (a : Ty × CFGState) : Bool := AList.contains (toNT a) G.rules

/-- (2)+(3): rules of every key = the rules of `ruleSet` whose arguments are all keys; every
    other rule of `ruleSet` (a dropped one) has a dead argument -/
def okRules (P : Params) (G : CFG) (dead : List CNT) : Bool :=
  G.rules.all (fun e =>
    sameRules e.2 ((ruleSet P e.1).filter (fun r => r.2.all (isKey G))) &&
    (ruleSet P e.1).all (fun r => r.2.all (isKey G) || r.2.any (fun a => dead.contains (toNT a))))

def rankLt (rk : AList CNT Nat) (a b : CNT) : Bool :=
  match AList.lookup a rk, AList.lookup b rk with
  | some ra, some rb => decide (ra < rb)
  | _, _ => false

def okReach (G : CFG) (rankR : AList CNT Nat) : Bool :=
  G.rules.all (fun e =>
    e.1 == G.start ||
    G.rules.any (fun e' => e'.2.any (fun r => r.2.1.any (fun a => toNT a == e.1)) && rankLt rankR e'.1 e.1))

def okProd (G : CFG) (rankP : AList CNT Nat) : Bool :=
  G.rules.all (fun e => e.2.any (fun r =>
    AList.lookup r.1 e.2 == some r.2 && r.2.1.all (fun a => isKey G a && rankLt rankP (toNT a) e.1)))

def tableOK (P : Params) (G : CFG) (dead : List CNT) (rankR rankP : AList CNT Nat) : Bool :=
  okStart P G && okRules P G dead && deadOK P dead && okReach G rankR && okProd G rankP

end PS.G
