/-
  Rose trees over a label type: the common currency for types (`Ty`), programs (`Prog`)
  and the terms read by tree automata.  Core Lean only.
  `deriving DecidableEq` does not support nested inductives in Lean 4.33, so equality is
  decided by hand (mutual structural recursion with the list of children).
-/
namespace PS

inductive Tree (α : Type) where
  | node (label : α) (kids : List (Tree α))
  deriving Repr, Inhabited

namespace Tree
variable {α : Type}

def label : Tree α → α | node l _ => l
def kids : Tree α → List (Tree α) | node _ ks => ks

mutual
  def decEq [DecidableEq α] : (a b : Tree α) → Decidable (a = b)
    | node l ks, node l' ks' =>
      if h : l = l' then
        match decEqList ks ks' with
        | isTrue h2 => isTrue (by rw [h, h2])
        | isFalse h2 => isFalse (by intro h3; cases h3; exact h2 rfl)
      else isFalse (by intro h3; cases h3; exact h rfl)
  def decEqList [DecidableEq α] : (as bs : List (Tree α)) → Decidable (as = bs)
    | [], [] => isTrue rfl
    | [], _ :: _ => isFalse (by intro h; cases h)
    | _ :: _, [] => isFalse (by intro h; cases h)
    | a :: as, b :: bs =>
      match decEq a b with
      | isTrue h1 =>
        match decEqList as bs with
        | isTrue h2 => isTrue (by rw [h1, h2])
        | isFalse h2 => isFalse (by intro h3; cases h3; exact h2 rfl)
      | isFalse h1 => isFalse (by intro h3; cases h3; exact h1 rfl)
end

instance [DecidableEq α] : DecidableEq (Tree α) := decEq

mutual
  def size : Tree α → Nat
    | node _ ks => 1 + sizeList ks
  def sizeList : List (Tree α) → Nat
    | [] => 0
    | t :: ts => size t + sizeList ts
end

mutual
  def depth : Tree α → Nat
    | node _ ks => 1 + depthList ks
  def depthList : List (Tree α) → Nat
    | [] => 0
    | t :: ts => max (depth t) (depthList ts)
end

/-- leaf -/
def leaf (l : α) : Tree α := node l []

/- sub-terms in the order of Python's `Program.depth_first_iter` for an application
    `Function(head, args)`: the head symbol first (as a leaf), then the sub-terms of each
    argument from left to right, then the term itself.  A leaf yields itself once. -/
mutual
  def dfs : Tree α → List (Tree α)
    | node l [] => [node l []]
    | node l (k :: ks) => leaf l :: (dfsList (k :: ks) ++ [node l (k :: ks)])
  def dfsList : List (Tree α) → List (Tree α)
    | [] => []
    | t :: ts => dfs t ++ dfsList ts
end

theorem sizeList_pos_of_mem {t : Tree α} {ts : List (Tree α)} (h : t ∈ ts) :
    size t ≤ sizeList ts := by
  induction ts with
  | nil => cases h
  | cons x xs ih =>
    simp only [sizeList]
    rcases List.mem_cons.mp h with h | h
    · subst h; omega
    · have := ih h; omega

theorem size_lt_of_mem_kids {l : α} {ks : List (Tree α)} {t : Tree α} (h : t ∈ ks) :
    size t < size (node l ks) := by
  have := sizeList_pos_of_mem h
  simp only [size]; omega

end Tree
end PS
