/-
  Types of the DSL (synth/syntax/type_system.py) as rose trees `PS.Tree TyL`.
  A label carries the Python class and, where the class has one, the name (type name /
  variable name / generic name).  Children:
    prim, poly, unknown : none        fpoly : the allowed types (`FixedPolymorphicType.types`)
    arrow : [type_in, type_out]       generic / sum : `types`
  `Generic.infix` only influences `__str__` (it takes no part in `__eq__`/`__hash__`) and is
  not represented.  Core Lean only; shared by the properties about types.
-/
import PS.Basic
import PS.Model.Tree
namespace PS

inductive TyKind where
  | prim | poly | fpoly | arrow | generic | sum | unknown
  deriving DecidableEq, Repr, Inhabited

inductive TyL where
  | prim (name : String)
  | poly (name : String)
  | fpoly (name : String)
  | arrow
  | generic (name : String)
  | sum
  | unknown
  deriving DecidableEq, Repr, Inhabited

def TyL.kind : TyL → TyKind
  | .prim _ => .prim | .poly _ => .poly | .fpoly _ => .fpoly | .arrow => .arrow
  | .generic _ => .generic | .sum => .sum | .unknown => .unknown

/-- the name; "" for the classes without one -/
def TyL.name : TyL → String
  | .prim n | .poly n | .fpoly n | .generic n => n
  | _ => ""

abbrev Ty := Tree TyL

namespace Ty

def prim (n : String) : Ty := .node (.prim n) []
def poly (n : String) : Ty := .node (.poly n) []
def fpoly (n : String) (alts : List Ty) : Ty := .node (.fpoly n) alts
def arrow (a b : Ty) : Ty := .node .arrow [a, b]
def generic (n : String) (args : List Ty) : Ty := .node (.generic n) args
def sum (alts : List Ty) : Ty := .node .sum alts
def unknown : Ty := .node .unknown []
/-- `List = GenericFunctor("list")` -/
def list (a : Ty) : Ty := generic "list" [a]
/-- `UNIT = PrimitiveType("unit")` -/
def unit : Ty := prim "unit"

/-- `PolymorphicType` or its subclass `FixedPolymorphicType` -/
def isVarL : TyL → Bool
  | .poly _ | .fpoly _ => true
  | _ => false
/-- the classes whose methods recurse into their components: Arrow, Generic, Sum -/
def isInnerL : TyL → Bool
  | .arrow | .generic _ | .sum => true
  | _ => false

/-- type_system.py:412-418 `Arrow.returns` (36-40 for the other classes) -/
def returns : Ty → Ty
  | .node .arrow [_, b] => returns b
  | t => t

/-- type_system.py:420-426 `Arrow.arguments` (42-46 for the other classes) -/
def arguments : Ty → List Ty
  | .node .arrow [a, b] => a :: arguments b
  | _ => []

/-- `FunctionType(*args, ret)` (type_helper.py:29-37) -/
def mkArrows : List Ty → Ty → Ty
  | [], r => r
  | a :: as, r => arrow a (mkArrows as r)

mutual
  /-- `size` (type_system.py:126-130 default 1; Sum 338-339 max; Arrow 448-449; Generic 542-543).
      `max` of an empty sequence raises in Python; the model gives 0. -/
  def size : Ty → Nat
    | .node l ks =>
      match l with
      | .arrow | .generic _ => 1 + sizeSum ks
      | .sum => sizeMax ks
      | _ => 1
  def sizeSum : List Ty → Nat
    | [] => 0
    | t :: ts => size t + sizeSum ts
  def sizeMax : List Ty → Nat
    | [] => 0
    | t :: ts => max (size t) (sizeMax ts)
end

mutual
  /-- `is_polymorphic` (type_system.py:81-85, 196-197, 329-330, 439-440, 533-534) -/
  def isPolymorphic : Ty → Bool
    | .node l ks => isVarL l || (isInnerL l && anyPolymorphic ks)
  def anyPolymorphic : List Ty → Bool
    | [] => false
    | t :: ts => isPolymorphic t || anyPolymorphic ts
end

mutual
  /-- does a `Sum` occur (outside the restriction list of a type variable)? -/
  def hasSum : Ty → Bool
    | .node l ks => l == .sum || (isInnerL l && anyHasSum ks)
  def anyHasSum : List Ty → Bool
    | [] => false
    | t :: ts => hasSum t || anyHasSum ts
end

mutual
  /-- `__str__` (non-infix generics): type_system.py:188, 271, 303, 400-403, 509-514, 603 -/
  def toString : Ty → String
    | .node l ks =>
      match l with
      | .prim n | .poly n | .fpoly n => n
      | .unknown => "UnknownType"
      | .sum => "[" ++ " | ".intercalate (toStrings ks) ++ "]"
      | .generic n => " ".intercalate (toStrings ks) ++ " " ++ n
      | .arrow =>
        match toStrings ks with
        | [a, b] => "(" ++ a ++ " -> " ++ b ++ ")"
        | _ => "<malformed arrow>"
  def toStrings : List Ty → List String
    | [] => []
    | t :: ts => toString t :: toStrings ts
end

/-- shape invariant of the Python classes: leaves have no components, an arrow has exactly
    two, a `Sum` built by `|` has at least two alternatives -/
def wfNode (l : TyL) (n : Nat) : Bool :=
  match l with
  | .prim _ | .poly _ | .unknown => n == 0
  | .arrow => n == 2
  | .sum => decide (2 ≤ n)
  | .fpoly _ | .generic _ => true

mutual
  def wf : Ty → Bool
    | .node l ks => wfNode l ks.length && allWf ks
  def allWf : List Ty → Bool
    | [] => true
    | t :: ts => wf t && allWf ts
end

end Ty
end PS
