/-
  Model of synth/semantic/evaluator.py (DSLEvaluator.eval, clear_cache)   — property C11.

  Generic over the label type `σ` of program nodes (Primitive / Variable / Constant), the
  value type `V` and the exception type `E`:
    `Sem.leaf`  : value of a leaf  (`semantics[prim]`, `input[i]`, `constant.value`), may raise
    `Sem.apply` : `fun(arg)` for one curried argument, may raise
    `Sem.skip`  : `type(e) in self.skip_exceptions`
  so every theorem holds for every DSL semantics (total, partial, higher-order).

  Transcribed (after the fix: commit "a cached evaluation failure was read back as an
  ordinary value" — failures are not written into the cache):
    evaluator.py:39-45   key, per-input memo table, early return on a cached program
    evaluator.py:46-62   loop over `program.depth_first_iter()`  -> `loop` / `evalSub`
    evaluator.py:63-68   skip_exceptions                          -> `Outcome`
    evaluator.py:72-74   clear_cache
-/
import PS.Basic
import PS.Model.Tree
namespace PS.C11
open PS

structure Sem (σ V E : Type) where
  leaf  : σ → List V → Except E V
  apply : V → V → Except E V
  skip  : E → Bool
  keyError : E       -- what a missing dictionary entry would raise (never reached, see C11_no_keyerror)

inductive Outcome (V E : Type) where
  | value (v : V)
  | skipped            -- `None`: a skippable exception was raised
  | raised (e : E)     -- any other exception propagates
  deriving Repr, DecidableEq

variable {σ V E : Type}

/-- `for arg in arguments: fun = fun(value of arg)` -/
def applyAll (S : Sem σ V E) (f : V) : List V → Except E V
  | [] => .ok f
  | v :: vs => match S.apply f v with
    | .ok g => applyAll S g vs
    | .error e => .error e

/-! ### Specification: compositional semantics
  innermost first, left to right, curried application. -/
mutual
  def denote (S : Sem σ V E) (inp : List V) : Tree σ → Except E V
    | .node l [] => S.leaf l inp
    | .node l (k :: ks) =>
      match S.leaf l inp with
      | .error e => .error e
      | .ok f =>
        match denoteList S inp (k :: ks) with
        | .error e => .error e
        | .ok vs => applyAll S f vs
  def denoteList (S : Sem σ V E) (inp : List V) : List (Tree σ) → Except E (List V)
    | [] => .ok []
    | t :: ts =>
      match denote S inp t with
      | .error e => .error e
      | .ok v =>
        match denoteList S inp ts with
        | .error e => .error e
        | .ok vs => .ok (v :: vs)
end

def outcomeOf (S : Sem σ V E) : Except E V → Outcome V E
  | .ok v => .value v
  | .error e => if S.skip e then .skipped else .raised e

/-- What the property says `eval` returns. -/
def specEval (S : Sem σ V E) (p : Tree σ) (inp : List V) : Outcome V E :=
  outcomeOf S (denote S inp p)

/-! ### Model of the implementation -/

variable [DecidableEq σ]

abbrev Memo (σ V : Type) := AList (Tree σ) V

def lookupAll (ev : Memo σ V) : List (Tree σ) → Option (List V)
  | [] => some []
  | t :: ts => match AList.lookup t ev, lookupAll ev ts with
    | some v, some vs => some (v :: vs)
    | _, _ => none

/-- body of the loop for one sub-program (evaluator.py:47-62): returns the updated memo
    table and the exception raised, if any. -/
def evalSub (S : Sem σ V E) (inp : List V) (ev : Memo σ V) (sub : Tree σ) : Memo σ V × Option E :=
  if AList.contains sub ev then (ev, none) else
  match sub with
  | .node l [] =>
    match S.leaf l inp with
    | .ok v => (AList.insert sub v ev, none)
    | .error e => (ev, some e)
  | .node l (k :: ks) =>
    match AList.lookup (Tree.leaf l) ev with
    | none => (ev, some S.keyError)
    | some f =>
      match lookupAll ev (k :: ks) with
      | none => (ev, some S.keyError)
      | some vs =>
        match applyAll S f vs with
        | .ok v => (AList.insert sub v ev, none)
        | .error e => (ev, some e)

/-- `for sub_prog in program.depth_first_iter(): ...` inside the `try` -/
def loop (S : Sem σ V E) (inp : List V) : Memo σ V → List (Tree σ) → Memo σ V × Option E
  | ev, [] => (ev, none)
  | ev, sub :: rest =>
    match evalSub S inp ev sub with
    | (ev', some e) => (ev', some e)
    | (ev', none) => loop S inp ev' rest

variable [DecidableEq V]

/-- `_cache`: tuplified input ↦ memo table -/
abbrev Cache (σ V : Type) := AList (List V) (Memo σ V)

/-- evaluator.py:41-42  `if self.use_cache and key not in self._cache: self._cache[key] = {}` -/
def prepCache (useCache : Bool) (cache : Cache σ V) (inp : List V) : Cache σ V :=
  if useCache && !(AList.contains inp cache) then AList.insert inp [] cache else cache

/-- evaluator.py:43  `evaluations = self._cache[key] if self.use_cache else {}` -/
def memoOf (useCache : Bool) (cache1 : Cache σ V) (inp : List V) : Memo σ V :=
  if useCache then (AList.lookup inp cache1).getD [] else []

/-- what happens after the loop (the memo table was mutated in place, so with the cache on
    the cache holds the updated table whether or not an exception was raised) -/
def finish (S : Sem σ V E) (useCache : Bool) (cache1 : Cache σ V) (p : Tree σ) (inp : List V)
    (r : Memo σ V × Option E) : Cache σ V × Outcome V E :=
  match r.2 with
  | some e => (if useCache then AList.insert inp r.1 cache1 else cache1,
               if S.skip e then .skipped else .raised e)
  | none =>
    match AList.lookup p r.1 with
    | some v => (if useCache then AList.insert inp r.1 cache1 else cache1, .value v)
    | none => (if useCache then AList.insert inp r.1 cache1 else cache1, .raised S.keyError)

def evalCore (S : Sem σ V E) (useCache : Bool) (cache1 : Cache σ V) (ev : Memo σ V) (p : Tree σ)
    (inp : List V) : Cache σ V × Outcome V E :=
  match AList.lookup p ev with
  | some v => (cache1, .value v)                      -- `if program in evaluations: return …`
  | none => finish S useCache cache1 p inp (loop S inp ev (Tree.dfs p))

/-- `DSLEvaluator.eval(program, input)`; returns the new cache and the outcome. -/
def eval (S : Sem σ V E) (useCache : Bool) (cache : Cache σ V) (p : Tree σ) (inp : List V) :
    Cache σ V × Outcome V E :=
  evalCore S useCache (prepCache useCache cache inp)
    (memoOf useCache (prepCache useCache cache inp) inp) p inp

/-- `clear_cache` -/
def clearCache (_ : Cache σ V) : Cache σ V := []

/-- one operation of a history on a single evaluator -/
inductive Op (σ V : Type) where
  | eval (p : Tree σ) (inp : List V)
  | clear

def runOp (S : Sem σ V E) (useCache : Bool) (c : Cache σ V) : Op σ V → Cache σ V
  | .eval p inp => (eval S useCache c p inp).1
  | .clear => clearCache c

def runHistory (S : Sem σ V E) (useCache : Bool) (h : List (Op σ V)) : Cache σ V :=
  h.foldl (runOp S useCache) []

end PS.C11
