/-
  Model of synth/filter/constraints/parsing.py:150-262, the character-level parser of constraint
  strings (property C05).  Strings are `List Char`.

  `__next_level__`               (:150-159)  `nextLevel`
  `__parse_next_word__`          (:162-167)  `parseNextWord`
  `__str_to_derivable_program__` (:170-190)  `str2dp`
  `__interpret_word__`           (:193-228)  `interpretWord`
  `parse_specification`          (:234-262)  `parseSpec` (fuel = a bound on the nesting; the
                                             length of the string is always enough)

  The lists of symbols inside tokens are SETS for everything downstream (`P in allowed`): the model
  keeps the order of the grammar's symbol lists and does not reproduce `sorted(..., reverse=True)`
  nor the iteration order of Python sets; the harness compares them as sets.
  Exceptions (AssertionError, ValueError of `int`, IndexError of `svar[varno]`) are `none`.
  `int(...)` is modelled for plain decimal digit strings only.
  Core Lean only.
-/
import PS.Model.Constraints
namespace PS.C05
open PS PS.G

abbrev Str := List Char

/-- `s.strip(chars)` -/
def stripChars (p : Char → Bool) (s : Str) : Str := ((s.dropWhile p).reverse.dropWhile p).reverse

/-- `s.replace(c, "")` -/
def removeChar (c : Char) (s : Str) : Str := s.filter (· != c)

/-- `s.split(sep)` for a one-character separator (always at least one piece) -/
def splitOn (sep : Char) : Str → List Str
  | [] => [[]]
  | c :: cs =>
    if c = sep then [] :: splitOn sep cs
    else match splitOn sep cs with
      | [] => [[c]]
      | w :: ws => (c :: w) :: ws

def startsWith (p : Str) (s : Str) : Bool := p.isPrefixOf s

/-- `s.find(p)`; `none` = -1 -/
def findSub (p : Str) : Str → Option Nat
  | [] => if p.isEmpty then some 0 else none
  | c :: cs => if p.isPrefixOf (c :: cs) then some 0 else (findSub p cs).map (· + 1)

/-- `int(s)` for a string of decimal digits -/
def parseNat (s : Str) : Option Nat :=
  if s.isEmpty || !s.all Char.isDigit then none
  else some (s.foldl (fun n c => 10 * n + (c.toNat - '0'.toNat)) 0)

/-- the loop of `__next_level__(string, "(", ")")` from index `i` at nesting `level`;
    falls through to the last index -/
def nextLevelGo : Str → Nat → Nat → Nat
  | [], i, _ => i - 1
  | c :: cs, i, level =>
    let level1 := if c = '(' then level + 1 else level
    if c = ')' then
      if level1 = 1 then i else nextLevelGo cs (i + 1) (level1 - 1)
    else nextLevelGo cs (i + 1) level1

def nextLevel (s : Str) : Nat := nextLevelGo s 0 0

/-- `__parse_next_word__` (:162-167): the word and the index where the next one starts -/
def parseNextWord (s : Str) : Str × Nat :=
  let e : Int :=
    if s.head? = some '(' then (nextLevel s : Int)
    else match findSub [' '] s with
      | some i => (i : Int) - 1
      | none => (s.length : Int) - 1
  (s.take (e + 1).toNat, (e + 2).toNat)

structure Syms where
  prims : List Sym      -- grammar.primitives_used()  (a set)
  vars : List Sym       -- grammar.variables()       (order of first use)
  /-- the code WITH fixes_proposed/C05-F3.diff (`varN` looked up by its number) -/
  fixF3 : Bool := false
  /-- the code WITH fixes_proposed/C05-F4.diff (brackets stripped before the `_` test and in `^…`) -/
  fixF4 : Bool := false
  /-- the code WITH fixes_proposed/C05-F2.diff (a pattern with only `_` arguments stays a function pattern) -/
  fixF2 : Bool := false
  /-- the code WITH fixes_proposed/C05-F5.diff (blanks stripped with the brackets, empty words skipped) -/
  fixF5 : Bool := false
  deriving Repr

def varName (v : Sym) : Str := "var".toList ++ (toString v.idx).toList

def insertByIdx (v : Sym) : List Sym → List Sym
  | [] => [v]
  | w :: ws => if v.idx < w.idx then v :: w :: ws else w :: insertByIdx v ws

/-- `sorted(variables, key=lambda x: x.variable)` -/
def sortVars (vs : List Sym) : List Sym := vs.foldr insertByIdx []

def isStripParen (c : Char) : Bool := c = '(' || c = ')' || c = '{' || c = '}'

/-- the symbols denoted by a set of names (:180-190): every primitive with one of the names, then, for
    every name `varK`, the variable(s) it denotes -/
def resolveNames (Sy : Syms) (allowed : List Str) : Option (List Sym) :=
  let prims := Sy.prims.filter (fun P => allowed.contains P.name.toList)
  let svar := sortVars Sy.vars
  allowed.foldl (fun acc el =>
    match acc with
    | none => none
    | some ps =>
      if startsWith "var".toList el then
        match parseNat (el.drop 3) with
        | none => none                              -- ValueError
        | some k =>
          if Sy.fixF3 then some (ps ++ Sy.vars.filter (fun v => v.idx = k)) else
          match svar[k]? with
          | none => none                            -- IndexError
          | some v => some (ps ++ [v])
      else some ps) (some prims)

/-- `__str_to_derivable_program__` (:170-190) -/
def str2dp (Sy : Syms) (word : Str) : Option (List Sym) :=
  if (if Sy.fixF4 then stripChars isStripParen word else word) = ['_'] then some (Sy.prims ++ Sy.vars) else
  let w := stripChars isStripParen word
  resolveNames Sy (splitOn ',' w).eraseDups      -- `[word]` when there is no separator

def isSpace (c : Char) : Bool := c = ' ' || c = '\t' || c = '\n' || c = '\r'

/-- `__interpret_word__` (:193-228) -/
def interpretWord (Sy : Syms) (word0 : Str) : Option (Tok Sym) :=
  let word := stripChars isSpace word0
  if startsWith ['^'] word then
    let forbidden := splitOn ',' (if Sy.fixF4 then stripChars isStripParen (word.drop 1) else word.drop 1)
    let out := Sy.prims.filter (fun P => !forbidden.contains P.name.toList) ++
               Sy.vars.filter (fun V => !forbidden.contains (varName V))
    if out.length = Sy.prims.length + Sy.vars.length then some .any else some (.allow out)
  else if startsWith ['>'] word then
    let content := word.drop 1
    if startsWith ['^'] content then (str2dp Sy (content.drop 1)).map .forbidSub
    else (str2dp Sy content).map .forceSub
  else if word = ['_'] then some .any
  else if startsWith ['#'] word then
    let w := removeChar ' ' (word.drop 1)
    let fm := findSub ['<', '='] w
    let fl := findSub ['>', '='] w
    -- end_index = max(find("<="), find(">="))  with -1 for "not found"
    let endIdx : Option Nat := match fm, fl with
      | some a, some b => some (max a b)
      | some a, none => some a
      | none, some b => some b
      | none, none => none
    match endIdx with
    | none => none                                  -- word[-1] ..: ends in ValueError / IndexError
    | some e =>
      let most := w[e]? = some '<'
      let considered := w.take e
      match str2dp Sy considered, parseNat (w.drop (e + 2)) with
      | some content, some n => some (if most then .atMost content n else .atLeast content n)
      | _, _ => none
  else (str2dp Sy word).map .allow

def isAny : Tok Sym → Bool
  | .any => true
  | _ => false

/-- the tail of `parse_specification` (:254-262) -/
def assemble (fixF2 : Bool) (elements : List (Tok Sym)) : Option (Tok Sym) :=
  match elements with
  | [] => none                                      -- assert len(elements) > 0
  | .allow S :: rest => if !fixF2 && rest.all isAny then some .any else some (.func S rest)
  | [e] => some e
  | _ => none                                       -- assert len(elements) == 1

/-- the characters `parse_specification` strips from both ends: `strip(")(")`, with C05-F5 `strip(")( ")` -/
def stripP (b : Bool) (c : Char) : Bool := c = ')' || c = '(' || (b && c = ' ')

/-- the loop :245-253, with the recursive call for a parenthesised word abstracted as `rec`;
    `steps` bounds the number of iterations (each consumes at least one character) -/
def parseWords (Sy : Syms) (rec : Str → Option (Tok Sym)) : Nat → Str → Nat → Option (List (Tok Sym))
  | 0, _, _ => none
  | steps + 1, spec, index =>
    if index < spec.length then
      let spec' := spec.drop index
      let wi := parseNextWord spec'
      if Sy.fixF5 && wi.1.isEmpty then parseWords Sy rec steps spec' wi.2 else   -- C05-F5: `continue`
      let tok := if startsWith ['('] wi.1 then rec wi.1 else interpretWord Sy wi.1
      match tok with
      | none => none
      | some t =>
        match parseWords Sy rec steps spec' wi.2 with
        | none => none
        | some ts => some (t :: ts)
    else some []

/-- `parse_specification(spec, grammar)` (:234-262); `fuel` bounds the nesting of recursive calls -/
def parseSpec (Sy : Syms) : Nat → Str → Option (Tok Sym)
  | 0, _ => none
  | fuel + 1, spec0 =>
    let spec := stripChars (stripP Sy.fixF5) (removeChar '\n' spec0)
    match parseWords Sy (parseSpec Sy fuel) (spec.length + 1) spec 0 with
    | none => none
    | some elements => assemble Sy.fixF2 elements

/-- `parse_specification` with enough fuel -/
def parse (Sy : Syms) (s : Str) : Option (Tok Sym) := parseSpec Sy (s.length + 1) s

/-- `constraint_plus.sort(reverse=True)` of :303-304 is done by the caller (string order is
    Python's); the model receives the strings in processing order. -/
def parseAll (Sy : Syms) (cs : List Str) : Option (List (Tok Sym)) :=
  cs.foldr (fun c acc => match parse Sy c, acc with
    | some t, some ts => some (t :: ts)
    | _, _ => none) (some [])

/-! ### the documented syntax: token trees as they are WRITTEN, their rendering and their meaning
  `NSet := f1,...,fk | ^f1,...,fk | _` ; `Rules := (NSet R1 … Rk) | #NSet<=N | #NSet>=N`, plus the
  sub-tree tokens `>NSet`, `>^NSet` of the library's tests.  Names and numbers are character strings. -/

inductive RSet where
  | names (ns : List Str)
  | neg (ns : List Str)
  deriving Repr

inductive RTok where
  | any
  | set (s : RSet)                                   -- an argument pattern `a,b` / `^a,b`
  | cntAll (most : Bool) (digits : Str)              -- `#_<=N` / `#_>=N`
  | cnt (most : Bool) (ns : List Str) (digits : Str) -- `#(a,b)<=N`
  | sub (force : Bool) (ns : List Str)               -- `>(a,b)` / `>^(a,b)`
  | func (head : RSet) (args : List RTok)            -- `(head a1 … ak)`
  deriving Repr

def joinNames : List Str → Str
  | [] => []
  | [n] => n
  | n :: ns => n ++ ',' :: joinNames ns

def renderSet : RSet → Str
  | .names ns => joinNames ns
  | .neg ns => '^' :: joinNames ns

mutual
  /-- canonical rendering: one blank between the elements of a pattern, none elsewhere -/
  def render : RTok → Str
    | .any => ['_']
    | .set s => renderSet s
    | .cntAll most ds => '#' :: '_' :: (if most then '<' else '>') :: '=' :: ds
    | .cnt most ns ds => '#' :: '(' :: (joinNames ns ++ ')' :: (if most then '<' else '>') :: '=' :: ds)
    | .sub force ns => '>' :: ((if force then [] else ['^']) ++ '(' :: (joinNames ns ++ [')']))
    | .func h args => '(' :: (renderSet h ++ renderArgs args ++ [')'])
  def renderArgs : List RTok → Str
    | [] => []
    | a :: as => ' ' :: (render a ++ renderArgs as)
end

/-- the symbols of a complement: everything of the grammar whose name is not listed; `none` when
    nothing is excluded (the parser then sees `_`) -/
def resolveNeg (Sy : Syms) (ns : List Str) : Option (List Sym) :=
  let out := Sy.prims.filter (fun P => !ns.contains P.name.toList) ++ Sy.vars.filter (fun V => !ns.contains (varName V))
  if out.length = Sy.prims.length + Sy.vars.length then none else some out

mutual
  /-- the meaning of a written token tree: names resolved to the symbols of the grammar (`none`: the
      parser raises — a malformed `varK`, a head set `^…` that excludes nothing).  With `Sy.fixF2`
      (fixes_proposed/C05-F2.diff) this is the documented meaning; without it a pattern whose arguments
      all mean `_` collapses to `_` (finding C05-F2). -/
  def sem (Sy : Syms) : RTok → Option (Tok Sym)
    | .any => some .any
    | .set (.names ns) => (resolveNames Sy ns.eraseDups).map .allow
    | .set (.neg ns) => some (match resolveNeg Sy ns with
        | none => .any
        | some S => .allow S)
    | .cntAll most ds => (parseNat ds).map (fun n => if most then .atMost (Sy.prims ++ Sy.vars) n else .atLeast (Sy.prims ++ Sy.vars) n)
    | .cnt most ns ds => match resolveNames Sy ns.eraseDups, parseNat ds with
        | some S, some n => some (if most then .atMost S n else .atLeast S n)
        | _, _ => none
    | .sub force ns => (resolveNames Sy ns.eraseDups).map (fun S => if force then .forceSub S else .forbidSub S)
    | .func h args =>
      match (match h with
        | .names ns => resolveNames Sy ns.eraseDups
        | .neg ns => resolveNeg Sy ns), semArgs Sy args with
      | some H, some as => if !Sy.fixF2 && as.all isAny then some .any else some (.func H as)
      | _, _ => none
  def semArgs (Sy : Syms) : List RTok → Option (List (Tok Sym))
    | [] => some []
    | a :: as => match sem Sy a, semArgs Sy as with
      | some t, some ts => some (t :: ts)
      | _, _ => none
end

end PS.C05
