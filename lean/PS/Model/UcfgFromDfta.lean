/-
  Property C06: turning a tree automaton into an unambiguous grammar.
  Model of synth/syntax/grammars/u_cfg.py
    `__extract__`               u_cfg.py:30-33     → `extract`
    `__d2state__`               u_cfg.py:36-48     → `d2state`  (as it is: `fixed = false`;
                                                     with proposed fix C06-F1: `fixed = true`)
    `UCFG.from_DFTA`            u_cfg.py:281-315   → `build (plainFlat d)` / `fromDFTA`
    `UCFG.from_DFTA_with_ngrams` u_cfg.py:317-367  → `build (ngramFlat n d)` / `fromDFTAWithNgrams`
    `UCFG.clean`                u_cfg.py:75-122    → `clean`
  (everything else of u_cfg.py / u_grammar.py that the property observes — `derive`,
  `__contains_rec__`, `__reduce_derivations_rec__`, `programs`, `from_CFG` — is in
  PS/Model/Ucfg.lean.)

  States of the automata the library builds are nested Python tuples: a plain state
  `(type, x)`, a class of `minimise` = a tuple of states (possibly a 1-tuple), a state of
  `read_product` = a pair of states, and any nesting of these (`add_dfta_constraints`).  They are
  modelled by the inductive type `PyVal`.

  Python sets (`starts`) are duplicate-free lists whose order is the set's iteration order; the
  harness sends the final states in an order that reproduces it.
  Core Lean only.
-/
import PS.Model.Ucfg
import PS.Model.Dfta
import PS.Model.Cfg
namespace PS.U
open PS PS.G

/-! ### Python values occurring in automaton states -/

inductive PyVal where
  | ty (t : Ty)            -- a `Type` object
  | int (n : Int)
  | str (s : String)
  | tup (l : List PyVal)   -- a tuple
  deriving Repr, Inhabited

namespace PyVal
mutual
  def decEq : (a b : PyVal) → Decidable (a = b)
    | ty a, ty b => if h : a = b then isTrue (by rw [h]) else isFalse (by intro e; cases e; exact h rfl)
    | int a, int b => if h : a = b then isTrue (by rw [h]) else isFalse (by intro e; cases e; exact h rfl)
    | str a, str b => if h : a = b then isTrue (by rw [h]) else isFalse (by intro e; cases e; exact h rfl)
    | tup a, tup b =>
      match decEqList a b with
      | isTrue h => isTrue (by rw [h])
      | isFalse h => isFalse (by intro e; cases e; exact h rfl)
    | ty _, int _ => isFalse (by intro e; cases e)
    | ty _, str _ => isFalse (by intro e; cases e)
    | ty _, tup _ => isFalse (by intro e; cases e)
    | int _, ty _ => isFalse (by intro e; cases e)
    | int _, str _ => isFalse (by intro e; cases e)
    | int _, tup _ => isFalse (by intro e; cases e)
    | str _, ty _ => isFalse (by intro e; cases e)
    | str _, int _ => isFalse (by intro e; cases e)
    | str _, tup _ => isFalse (by intro e; cases e)
    | tup _, ty _ => isFalse (by intro e; cases e)
    | tup _, int _ => isFalse (by intro e; cases e)
    | tup _, str _ => isFalse (by intro e; cases e)
  def decEqList : (as bs : List PyVal) → Decidable (as = bs)
    | [], [] => isTrue rfl
    | [], _ :: _ => isFalse (by intro h; cases h)
    | _ :: _, [] => isFalse (by intro h; cases h)
    | a :: as, b :: bs =>
      match decEq a b with
      | isTrue h1 =>
        match decEqList as bs with
        | isTrue h2 => isTrue (by rw [h1, h2])
        | isFalse h2 => isFalse (by intro h3; cases h3; exact h2 rfl)
      | isFalse h1 => isFalse (by intro h3; cases h3; exact h1 rfl)
end
instance : DecidableEq PyVal := decEq

/-- the plain automaton state `(type, x)` -/
def state (t : Ty) (x : PyVal) : PyVal := tup [ty t, x]
/-- a pair (state of `read_product`) -/
def pair (a b : PyVal) : PyVal := tup [a, b]
end PyVal
open PyVal

/-- `__extract__` (u_cfg.py:30-33): `while len(t) == 1 and isinstance(t, tuple): t = t[0]`.
    (On a 1-tuple around a non-tuple Python goes on to evaluate `len` of the content and raises
    for a `Type`/`int`; every caller below then has no value either.) -/
def extract : PyVal → PyVal
  | .tup [x] => extract x
  | v => v

/-- `while isinstance(our_type, tuple): our_type = our_type[0]` (u_cfg.py:40-42); `none` when
    the walk ends on something that is not a `Type` or meets an empty tuple (`IndexError`) -/
def leftmostType : PyVal → Option Ty
  | .ty t => some t
  | .tup (x :: _) => leftmostType x
  | _ => none

/-- `v[1]` of a tuple with at least two elements -/
def second : PyVal → Option PyVal
  | .tup (_ :: b :: _) => some b
  | _ => none

/- `__d2state__` (u_cfg.py:36-48).  `none` = the Python raises, or returns something that is
   not a non-terminal `(Type, x)`.
   * `fixed = false`: the code as it is — `rest.append(__extract__(tt)[1])`: of a component that
     is itself a tuple of states only ITS second element survives (finding C06-F1);
   * `fixed = true`: proposed fix — `rest.append(__d2state__(tt)[1])`: components are flattened
     recursively. -/
mutual
  def d2state (fixed : Bool) : PyVal → Option (Ty × PyVal)
    | .tup [x] => d2state fixed x                                   -- `__extract__`
    | .tup (.tup a :: b :: rest) =>                                 -- `isinstance(t[0], tuple)`
      match leftmostType (.tup a), d2rest fixed (.tup a :: b :: rest) with
      | some t, some r => some (t, .tup r)
      | _, _ => none
    | .tup [.ty t, x] => some (t, x)                                -- `return t`
    | _ => none
  def d2rest (fixed : Bool) : List PyVal → Option (List PyVal)
    | [] => some []
    | tt :: more =>
      match (if fixed then (d2state fixed tt).map (·.2) else second (extract tt)), d2rest fixed more with
      | some x, some xs => some (x :: xs)
      | _, _ => none
end

/-! ### the worklist construction shared by `from_DFTA` and `from_DFTA_with_ngrams` -/

/-- how automaton states become non-terminals `(type, V)` of the grammar:
    `d` = `__d2state__`; `root` = the non-terminal of a final state (`local_d2state(q, None)`);
    `proj` = the part of a non-terminal compared with `__d2state__(dst)` (`match`);
    `child tgt P i x` = the non-terminal of the `i`-th argument `x` of a rule `P` read at `tgt`. -/
structure Flat (Q U V : Type) where
  d : Q → UNT U
  root : UNT U → UNT V
  proj : UNT V → UNT U
  child : UNT V → Sym → Nat → UNT U → UNT V

abbrev Row (V : Type) := AList Sym (List (List (UNT V)))

variable {Q U V : Type} [DecidableEq Q] [DecidableEq U] [DecidableEq V]

/-- `from_DFTA`: non-terminals are the flattened states themselves -/
def plainFlat (d : Q → UNT U) : Flat Q U U :=
  { d := d, root := id, proj := id, child := fun _ _ _ x => x }

/-- `from_DFTA_with_ngrams(dfta, n)`: non-terminals `(type, (NGram, u))`; the n-gram of an
    argument is `last.successor((P, i))` (grammar.py:28-32 = `PS.G.successor`).
    `v or NGram(ngram)`: an empty `NGram` is falsy and is replaced by a fresh empty one, which
    is equal to it. -/
def ngramFlat (n : Int) (d : Q → UNT U) : Flat Q U (List (Sym × Nat) × U) :=
  { d := d
    root := fun x => (x.1, ([], x.2))
    proj := fun k => (k.1, k.2.2)
    child := fun tgt P i x => (x.1, (successor n tgt.2.1 (P, i), x.2)) }

/-- `[local_d2state(arg, last.successor((P, i))) for i, arg in enumerate(args)]` -/
def newArgs (F : Flat Q U V) (tgt : UNT V) (P : Sym) (args : List Q) : List (UNT V) :=
  args.zipIdx.map (fun ai => F.child tgt P ai.2 (F.d ai.1))

/-- `new_rules[tgt][P].append(args)` on a `defaultdict(list)` -/
def appendAlt (P : Sym) (args : List (UNT V)) (row : Row V) : Row V :=
  AList.insert P ((AList.lookup P row).getD [] ++ [args]) row

/-- the rule of the automaton is read backwards at `tgt` -/
def matchesTgt (F : Flat Q U V) (tgt : UNT V) (r : (Sym × List Q) × Q) : Bool :=
  decide (F.d r.2 = F.proj tgt)

/-- the row `new_rules[tgt]` after the `for (P, args), dst in dfta.rules.items()` loop
    (u_cfg.py:307-310 / 355-362) -/
def rowFor (F : Flat Q U V) (A : DFTA Sym Q) (tgt : UNT V) : Row V :=
  A.rules.foldl (fun row r =>
    if matchesTgt F tgt r then appendAlt r.1.1 (newArgs F tgt r.1.1 r.1.2) row else row) []

/-- what that loop appends to the stack (u_cfg.py:311-313 / 363-365): the argument
    non-terminals that are not keys of `new_rules` (which already contains `tgt`), in order -/
def pushesFor (F : Flat Q U V) (A : DFTA Sym Q) (tgt : UNT V) (keys : List (UNT V)) : List (UNT V) :=
  A.rules.flatMap (fun r =>
    if matchesTgt F tgt r then (newArgs F tgt r.1.1 r.1.2).filter (fun k => decide (k ∉ keys)) else [])

/-- `while stack:` (u_cfg.py:302-313 / 349-365).  The stack is kept with its top first
    (`stack.pop()` = head, `stack.append(x)` = cons); `none` = out of fuel. -/
def buildLoop (F : Flat Q U V) (A : DFTA Sym Q) :
    Nat → List (UNT V) → AList (UNT V) (Row V) → Option (AList (UNT V) (Row V))
  | 0, _, _ => none
  | _ + 1, [], nr => some nr
  | fuel + 1, tgt :: stack, nr =>
    if AList.contains tgt nr then buildLoop F A fuel stack nr
    else
      let nr' := AList.insert tgt (rowFor F A tgt) nr
      buildLoop F A fuel ((pushesFor F A tgt (AList.keys nr')).reverse ++ stack) nr'

/-- `starts = {local_d2state(q, None) for q in dfta.finals}` -/
def startsOf (F : Flat Q U V) (A : DFTA Sym Q) : List (UNT V) :=
  (A.finals.map (fun q => F.root (F.d q))).foldl addNew []

/-- a number of iterations that is always enough for `from_DFTA` (theorem
    `C06_fromDFTA_terminates`): every iteration pops the stack; what is ever pushed is a start
    symbol or one argument position of a rule, the latter at most once -/
def buildFuel (F : Flat Q U V) (A : DFTA Sym Q) : Nat := (startsOf F A).length + A.argCount + 1

/-- the grammar before `clean()`; `none` when the loop runs out of `fuel`, and for an automaton
    without final state (`list(starts)[0]` raises `IndexError` in `UCFG.__init__`) -/
def build (F : Flat Q U V) (A : DFTA Sym Q) (fuel : Nat) : Option (UCFG V) :=
  match startsOf F A with
  | [] => none
  | s :: ss =>
    match buildLoop F A fuel (s :: ss).reverse [] with
    | none => none
    | some nr => some { starts := s :: ss, rules := nr, someStart := s }

/-- `UCFG.from_DFTA(dfta, clean=False)` for a flattening `d` of the states -/
def fromDFTA (d : Q → UNT U) (A : DFTA Sym Q) : Option (UCFG U) :=
  build (plainFlat d) A (buildFuel (plainFlat d) A)

/-- `UCFG.from_DFTA_with_ngrams(dfta, n, clean=False)`; with n-gram contexts a rule of the
    automaton is read once per context of its target, so the number of iterations is a
    parameter here (the theorems hold for every `fuel` for which a grammar is returned) -/
def fromDFTAWithNgrams (n : Int) (d : Q → UNT U) (A : DFTA Sym Q) (fuel : Nat) :
    Option (UCFG (List (Sym × Nat) × U)) := build (ngramFlat n d) A fuel

/-! ### with Python states -/

/-- `__d2state__` is defined on every state the automaton mentions -/
def d2Defined (fixed : Bool) (A : DFTA Sym PyVal) : Bool :=
  A.allStates.all (fun q => (d2state fixed q).isSome)

/-- `__d2state__` as a total function (junk value where the Python raises; never used when
    `d2Defined`) -/
def d2 (fixed : Bool) (q : PyVal) : UNT PyVal := (d2state fixed q).getD (Ty.unknown, q)

/-- `__d2state__` does not merge two states of the automaton — the decidable hypothesis of the
    theorems of property C06 (finding C06-F1 when it fails) -/
def d2Injective (fixed : Bool) (A : DFTA Sym PyVal) : Bool :=
  A.allStates.all (fun q => A.allStates.all (fun q' => decide (d2 fixed q = d2 fixed q' → q = q')))

def fromDFTAPy (fixed : Bool) (A : DFTA Sym PyVal) : Option (UCFG PyVal) :=
  if d2Defined fixed A then fromDFTA (d2 fixed) A else none

def fromDFTAWithNgramsPy (fixed : Bool) (n : Int) (A : DFTA Sym PyVal) (fuel : Nat) :
    Option (UCFG (List (Sym × Nat) × PyVal)) :=
  if d2Defined fixed A then fromDFTAWithNgrams n (d2 fixed) A fuel else none

/-! ### `UCFG.clean` (u_cfg.py:75-122) -/

structure CleanSt (U : Type) where
  toTest : List (UNT U × List (UNT U))          -- top first
  done : List (List (UNT U) × UNT U)            -- the set `done`
  reached : List (UNT U)                        -- the set `reached`

/-- body of the innermost loop (u_cfg.py:89-97) for one result `a` of `derive` -/
def cleanVisit (st : CleanSt U) (a : List (UNT U) × UNT U × List (UNT U)) : CleanSt U :=
  if (a.1, a.2.1) ∈ st.done then st
  else
    { done := st.done ++ [(a.1, a.2.1)]
      reached := addNew st.reached a.2.1
      toTest := if a.2.1.1 = Ty.unknown then st.toTest else (a.2.1, a.1) :: st.toTest }

/-- `for P in self.rules[S]: for a in self.derive(info, S, P): …` -/
def cleanExpand (G : UCFG U) (S : UNT U) (info : List (UNT U)) (row : Row U) (st : CleanSt U) :
    CleanSt U :=
  (row.flatMap (fun e => derive G info S e.1)).foldl cleanVisit st

/-- `while to_test:` (u_cfg.py:85-97); `none` = out of fuel, or `self.rules[S]` raises
    `KeyError` (a reached non-terminal without a row) -/
def cleanLoop (G : UCFG U) : Nat → CleanSt U → Option (CleanSt U)
  | 0, _ => none
  | fuel + 1, st =>
    match st.toTest with
    | [] => some st
    | (S, info) :: rest =>
      match AList.lookup S G.rules with
      | none => none
      | some row => cleanLoop G fuel (cleanExpand G S info row { st with toTest := rest })

def cleanInit (G : UCFG U) : CleanSt U :=
  { toTest := (G.starts.map (fun x => (x, ([] : List (UNT U))))).reverse
    done := G.starts.map (fun x => ([], x))
    reached := G.starts }

/-- `has_one` of u_cfg.py:107-119 for the start symbol `S` of the grammar `G'` whose rules were
    already filtered -/
def startKept (G' : UCFG U) (done : List (List (UNT U) × UNT U)) (S : UNT U) : Bool :=
  match AList.lookup S G'.rules with
  | none => false                                -- (`KeyError` cannot happen: `S ∈ reached`)
  | some row =>
    (row.flatMap (fun e => derive G' [] S e.1)).any
      (fun a => decide ((a.1, a.2.1) ∈ done) || decide (a.2.1.1 = Ty.unknown))

/-- `clean()`: keep the rows of the reached non-terminals (u_cfg.py:99-103) and the start
    symbols that have a first derivation step (u_cfg.py:105-122) -/
def clean (G : UCFG U) (fuel : Nat) : Option (UCFG U) :=
  match cleanLoop G fuel (cleanInit G) with
  | none => none
  | some st =>
    let G' : UCFG U := { G with rules := G.rules.filter (fun e => decide (e.1 ∈ st.reached)) }
    some { G' with starts := G.starts.filter (startKept G' st.done) }

/-- the final `(done, reached)` of `clean()` (observed by the harness) -/
def cleanState (G : UCFG U) (fuel : Nat) : Option (CleanSt U) := cleanLoop G fuel (cleanInit G)

/-! ### specification vocabulary -/

/-- the automaton has no cycle: some ranking of the states decreases from the target of every
    rule to each of its arguments -/
def Acyclic (A : DFTA Sym Q) : Prop :=
  ∃ rank : Q → Nat, ∀ r ∈ A.rules, ∀ a ∈ r.1.2, rank a < rank r.2

/-- executable ranking: `rankOf A k q` = 1 + the largest rank of an argument of a rule into
    `q`, unfolded `k` times (the height of the tallest tree read into `q` when acyclic) -/
def rankOf (A : DFTA Sym Q) : Nat → Q → Nat
  | 0, _ => 0
  | k + 1, q =>
    (A.rules.map (fun r => if r.2 = q then (r.1.2.map (fun a => rankOf A k a + 1)).foldl max 0 else 0)).foldl max 0

/-- decidable acyclicity test used by the driver: the ranking is stable after `|rules|+1`
    unfoldings -/
def acyclicB (A : DFTA Sym Q) : Bool :=
  let k := A.rules.length + 1
  A.rules.all (fun r => r.1.2.all (fun a => decide (rankOf A k a < rankOf A k r.2)))

/-- all trees of depth ≤ `k` read into state `q` by the automaton, bottom-up (SPEC of the
    language of an acyclic automaton as a finite list) -/
def treesInto (A : DFTA Sym Q) : Nat → Q → List Prog
  | 0, _ => []
  | k + 1, q =>
    A.rules.flatMap (fun r =>
      if r.2 = q then (product (r.1.2.map (fun a => treesInto A k a))).map (fun ks => Tree.node r.1.1 ks)
      else [])

end PS.U
