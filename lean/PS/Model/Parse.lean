/-
  C15 — executable model of the two hand-written parsers and of the printers.

  Part 1 (types)    synth/syntax/type_helper.py:66-206  `__matching__`, `__next_token__`,
                    `auto_type` (stack / infix stack / or_flag machine), transcribed on
                    `List Char`; plus the same machine run on a token tree (`autoTypeToks`).
  Part 2 (programs) synth/syntax/dsl.py:192-274 `DSL.parse_program` (split on blanks,
                    call-arity bookkeeping, `parse_stack`, `strip("()")`, constants table,
                    final re-print check) and the printers of synth/syntax/program.py
                    (`Variable.__str__`:149, `Constant.__str__`:196-199,
                    `Function.__str__`:259-266, `Primitive.__str__`:429-433) and the type
                    computed by `Function.__init__` (program.py:245-249).
  The model follows the code *with the three repairs proposed in proposed_fixes/C15-F1..F3*
  (initial `strip()`, `'` ends an infix token, unbalanced opening bracket raises).
  The type parser takes a flag `s` ("strict"): `true` = the code with the repair proposed in
  fixes_proposed/C15-F4.diff (a token cannot start with a closing bracket; an infix operator
  must follow a type; at the end no `|` and no infix operator is waiting for its right
  operand), `false` = the code without it.  The harness probes the implementation (`int ->`)
  and asks the driver for that variant.
  Python exceptions are values of `Err`.  Core Lean only.
-/
import PS.Basic
import PS.Model.Tree
import PS.Model.TyExpr
namespace PS.C15
open PS

inductive Err where
  | assertion      -- AssertionError
  | index          -- IndexError
  | value          -- ValueError
  | fuel           -- model ran out of fuel (never on inputs within the stated bounds)
  deriving DecidableEq, Repr, Inhabited

abbrev Res (α : Type) := Except Err α

instance {α} [DecidableEq α] : DecidableEq (Res α) := fun a b =>
  match a, b with
  | .ok x, .ok y => if h : x = y then isTrue (by rw [h]) else isFalse (by intro h2; cases h2; exact h rfl)
  | .error x, .error y => if h : x = y then isTrue (by rw [h]) else isFalse (by intro h2; cases h2; exact h rfl)
  | .ok _, .error _ => isFalse (by intro h; cases h)
  | .error _, .ok _ => isFalse (by intro h; cases h)

/-! ## Part 1 — types -/

/-- token kinds of type_helper.py:66-71 -/
inductive Kind where
  | none | paren | brack | infx | poly | or
  deriving DecidableEq, Repr, Inhabited

/-- `str.strip()` -/
def lstrip (s : Str) : Str := s.dropWhile isSpace
def rstrip (s : Str) : Str := (s.reverse.dropWhile isSpace).reverse
def strip (s : Str) : Str := rstrip (lstrip s)

/-- `__matching__` (type_helper.py:74-86): index of the bracket closing the one that opens
    `text`, `none` for Python's `-1`.  `start` is `text[0]`; the loop state is (`level`, `j`). -/
def matchingLoop (start : Char) : Str → Int → Nat → Option Nat
  | [], _, _ => none
  | l :: rest, level, j =>
    let level :=
      if l = start then level + 1
      else if start = '(' ∧ l = ')' then level - 1
      else if start = '[' ∧ l = ']' then level - 1
      else level
    if level = 0 then some j else matchingLoop start rest level (j + 1)

def matching (text : Str) : Option Nat :=
  match text with
  | [] => none
  | start :: _ => matchingLoop start text 0 0

/-- characters that end an infix token (`__SPECIAL_TOKENS`, with the proposed `'`) -/
def isSpecial (c : Char) : Bool := c == ' ' || c == '(' || c == ')' || c == '\''

/-- `__next_token__` (type_helper.py:92-111) on a non-empty text: (w, kind, index). -/
def nextToken (s : Bool) (text : Str) : Res (Str × Kind × Nat) :=
  match text with
  | [] => .error .index
  | c :: rest =>
    if c = '(' ∨ c = '[' then
      match matching text with
      | none => .error .assertion                                  -- proposed fix C15-F3
      | some i => .ok ((text.take i).drop 1, if c = '[' then .brack else .paren, i + 1)
    else if c = '|' then .ok ([], .or, 1)
    else if !isAlpha c && c != '\'' then
      -- C15-F4: assert text[0] not in ")]"
      if s && (c == ')' || c == ']') then .error .assertion else
      let w := rest.takeWhile (fun d => !(isAlpha d || isSpecial d))
      .ok (c :: w, .infx, 1 + w.length)
    else
      let w := rest.takeWhile isWordChar
      if c = '\'' then .ok (w, .poly, 1 + w.length) else .ok (c :: w, .none, 1 + w.length)

/-- the loop state of `auto_type` (type_helper.py:143-148); `stack`/`infixStack` have their
    top at the head -/
structure St where
  stack : List TyO := []
  lastInfix : Nat := 0
  infixStack : List Str := []
  orFlag : Int := -1
  deriving DecidableEq, Repr, Inhabited

/-- one iteration of the `while` body (type_helper.py:152-194) for a token of kind `k` with
    text `w`; `sub` is the result of the recursive call `auto_type(w)` (only used for
    parenthesis and bracket tokens). -/
def step (s : Bool) (k : Kind) (w : Str) (sub : Res TyO) (st : St) : Res St := do
  let st ← (match k with
    | .paren => do
        let t ← sub
        pure { st with stack := t :: st.stack }
    | .brack =>
        match st.stack with
        | [] => .error .assertion                                   -- assert len(stack) > 0
        | last :: rest =>
          match last with
          | .node (.poly n) _ => do
              let r ← sub
              pure { st with stack := .node (.fpoly n) [r] :: rest }
          | .node (.fpoly n) _ => do                                -- subclass of PolymorphicType
              let r ← sub
              pure { st with stack := .node (.fpoly n) [r] :: rest }
          | _ => .error .assertion                                  -- assert isinstance(last, PolymorphicType)
    | .poly => pure { st with stack := TyO.poly w :: st.stack }
    | .none =>
        if w.length > 0 then
          if st.lastInfix < st.stack.length ∧ st.orFlag < 0 then
            match st.stack with
            | [] => .error .index
            | top :: rest =>
              if w = OPTIONAL then pure { st with stack := tyOptional top :: rest }
              else pure { st with stack := .node (.generic w false) [top] :: rest }
          else pure { st with stack := TyO.prim w :: st.stack }
        else pure st
    | .infx =>
        -- C15-F4: assert len(stack) == last_infix + 1
        if s && st.stack.length != st.lastInfix + 1 then .error .assertion
        else pure { st with lastInfix := st.lastInfix + 1, infixStack := w :: st.infixStack }
    | .or => pure { st with orFlag := 0 } : Res St)
  -- "Manage or flags which consume things as they come"
  if st.orFlag = 0 then pure { st with orFlag := 1 }
  else if st.orFlag = 1 then
    match st.stack with
    | last :: prev :: rest => pure { st with orFlag := -1, stack := tyOr prev last :: rest }
    | _ => .error .assertion                                        -- assert len(stack) >= 2
  else pure st

/-- the final folding loop (type_helper.py:198-206) -/
def finishLoop : List TyO → List Str → Res TyO
  | [], _ => .error .assertion                                      -- assert len(stack) >= 1
  | [t], _ => .ok t
  | last :: prev :: rest, infixStack =>
    match infixStack with
    | [] => .error .index                                           -- infix_stack.pop()
    | w :: ws => finishLoop (mkInfix w prev last :: rest) ws

/-- after the loop: `assert len(stack) >= 1`, with the repair of C15-F4 also
    `assert or_flag < 0` and `assert len(stack) == last_infix + 1`, then the folding loop -/
def finish (s : Bool) (st : St) : Res TyO :=
  if s && st.stack.length != 0 && (decide (st.orFlag ≥ 0) || st.stack.length != st.lastInfix + 1)
  then .error .assertion
  else finishLoop st.stack st.infixStack

/-- the `while len(text) > 0` loop; `rec` is `auto_type` on enclosed texts; `fuel` bounds the
    number of iterations (each consumes at least one character). -/
def loopC (s : Bool) (rec : Str → Res TyO) : Nat → Str → St → Res St
  | 0, _, _ => .error .fuel
  | fuel + 1, text, st =>
    if text = [] then .ok st else
    match nextToken s text with
    | .error e => .error e
    | .ok (w, k, index) =>
      let sub : Res TyO := match k with
        | .paren => rec w
        | .brack => rec w
        | _ => .error .fuel
      match step s k w sub st with
      | .error e => .error e
      | .ok st' => loopC s rec fuel (strip (text.drop index)) st'

/-- `auto_type(el)` for a string (type_helper.py:138-206); `depth` bounds the nesting of
    recursive calls. -/
def autoType (s : Bool) : Nat → Str → Res TyO
  | 0, _ => .error .fuel
  | depth + 1, el =>
    match loopC s (autoType s depth) (el.length + 1) (strip el) {} with
    | .error e => .error e
    | .ok st => finish s st

/-- what the driver runs: enough fuel for every text -/
def autoTypeText (s : Bool) (el : Str) : Res TyO := autoType s (el.length + 1) el

/-! ### the same machine on a token tree -/

def kindOf : TokL → Kind × Str
  | .name w => (.none, w)
  | .pvar w => (.poly, w)
  | .op w => (.infx, w)
  | .bar => (.or, [])
  | .paren => (.paren, [])
  | .brack => (.brack, [])

mutual
  def autoTypeToks (s : Bool) : List Tok → Res TyO
    | ts => match loopT s ts {} with
      | .error e => .error e
      | .ok st => finish s st
  def loopT (s : Bool) : List Tok → St → Res St
    | [], st => .ok st
    | t :: ts, st =>
      match stepT s t st with
      | .error e => .error e
      | .ok st' => loopT s ts st'
  def stepT (s : Bool) : Tok → St → Res St
    | .node l ks, st =>
      let sub : Res TyO := match l with
        | .paren => autoTypeToks s ks
        | .brack => autoTypeToks s ks
        | _ => .error .fuel
      step s (kindOf l).1 (kindOf l).2 sub st
end

/-- character level tokenizer: the token tree that `auto_type`'s loop walks through -/
def tokenizeLoop (s : Bool) (rec : Str → Res (List Tok)) : Nat → Str → Res (List Tok)
  | 0, _ => .error .fuel
  | fuel + 1, text =>
    if text = [] then .ok [] else
    match nextToken s text with
    | .error e => .error e
    | .ok (w, k, index) =>
      let t : Res Tok := match k with
        | .paren => (rec w).map (fun ks => .node .paren ks)
        | .brack => (rec w).map (fun ks => .node .brack ks)
        | .none => .ok (.node (.name w) [])
        | .poly => .ok (.node (.pvar w) [])
        | .infx => .ok (.node (.op w) [])
        | .or => .ok (.node .bar [])
      match t with
      | .error e => .error e
      | .ok t =>
        match tokenizeLoop s rec fuel (strip (text.drop index)) with
        | .error e => .error e
        | .ok ts => .ok (t :: ts)

def tokenize (s : Bool) : Nat → Str → Res (List Tok)
  | 0, _ => .error .fuel
  | depth + 1, el => tokenizeLoop s (tokenize s depth) (el.length + 1) (strip el)

/-! ## Part 2 — programs -/

/-- labels of program objects (synth/syntax/program.py).  A `Function(f, args)` is an `app`
    node whose first kid is `f`.  A constant's value is represented by its printed form
    `format(value)`. -/
inductive PL where
  | prim (name : Str) (ty : TyO)
  | var (n : Nat) (ty : TyO)
  | const (ty : TyO) (val : Str) (hasValue : Bool)
  | app
  deriving DecidableEq, Repr, Inhabited

abbrev Prog := Tree PL

/-- `Type.arguments()` / `Arrow.arguments()` (type_system.py:42-46, 422-428) -/
def tyArguments : Nat → TyO → List TyO
  | 0, _ => []
  | fuel + 1, .node .arrow [a, b] => a :: tyArguments fuel b
  | _, _ => []
/-- `Type.returns()` / `Arrow.returns()` (type_system.py:36-40, 414-420) -/
def tyReturns : Nat → TyO → TyO
  | fuel + 1, .node .arrow [_, b] => tyReturns fuel b
  | _, t => t
def arguments (t : TyO) : List TyO := tyArguments (Tree.size t) t
def returns (t : TyO) : TyO := tyReturns (Tree.size t) t
def isArrow : TyO → Bool
  | .node .arrow _ => true
  | _ => false

/-- `FunctionType(*args, ret)` (type_helper.py:30-38) -/
def functionType (args : List TyO) (ret : TyO) : TyO := args.foldr TyO.arrow ret

mutual
  /-- `program.type`; for a `Function` the type built by `Function.__init__` -/
  def progType : Prog → TyO
    | .node (.prim _ ty) _ => ty
    | .node (.var _ ty) _ => ty
    | .node (.const ty _ _) _ => ty
    | .node .app ks => progTypeApp ks
  def progTypeApp : List Prog → TyO
    | [] => TyO.prim "?".toList
    | f :: args =>
      let t := progType f
      functionType ((arguments t).drop args.length) (returns t)
end

/-- `Function(f, args)` -/
def mkFunction (f : Prog) (args : List Prog) : Prog := .node .app (f :: args)

/-- decimal digits of a natural number (`format(int)`) -/
def showNat (n : Nat) : Str := (Nat.repr n).toList

/-- `str(type)` is only needed for constants without a value (`<type>`), which the parser
    cannot produce; the harness sends the printed form as data. -/
def VAR : Str := "var".toList

mutual
  /-- `str(program)` -/
  def printProg : Prog → Str
    | .node (.prim name _) _ => name
    | .node (.var n _) _ => VAR ++ showNat n
    | .node (.const _ val _) _ => val
    | .node .app ks => printApp ks
  def printApp : List Prog → Str
    | [] => []
    | [f] => printProg f                               -- len(arguments) == 0
    | f :: args => '(' :: printProg f ++ printArgs args ++ [')']
  def printArgs : List Prog → Str
    | [] => []
    | a :: as => ' ' :: printProg a ++ printArgs as
end

/-- `str.split(" ")` -/
def splitBlank : Str → List Str
  | [] => [[]]
  | c :: r =>
    match splitBlank r with
    | [] => [[]]            -- unreachable
    | w :: ws => if c = ' ' then [] :: w :: ws else (c :: w) :: ws

def isParen (c : Char) : Bool := c == '(' || c == ')'
/-- `str.strip("()")` -/
def stripParens (s : Str) : Str := ((s.dropWhile isParen).reverse.dropWhile isParen).reverse

/-- the DSL: `list_primitives` as (name, type) in list order -/
abbrev Dsl := List (Str × TyO)
/-- the constants table: printed key ↦ (type, printed value) -/
abbrev Consts := AList Str (TyO × Str)

def findPrim (dsl : Dsl) (name : Str) : Option (Str × TyO) := dsl.find? (fun p => p.1 = name)

/-- `int(text)` for the texts a printed variable can carry: a non-empty run of ASCII digits;
    everything else is reported as ValueError (signs, blanks and underscores that Python's
    `int` also accepts are outside the model, see meta assumptions). -/
def parseNat (s : Str) : Option Nat :=
  if s = [] ∨ !s.all Char.isDigit then none
  else some (Nat.ofDigitChars 10 s 0)

/-- the `else` branch of `parse_program` (dsl.py:255-269): one word -/
def parseAtom (dsl : Dsl) (tr : TyO) (consts : Consts) (word : Str) : Res Prog :=
  let program := stripParens word
  match findPrim dsl program with
  | some (n, ty) => .ok (.node (.prim n ty) [])
  | none =>
    if VAR.isPrefixOf program then
      match parseNat (program.drop 3) with
      | none => .error .value
      | some varno =>
        if isArrow tr then
          match (arguments tr)[varno]? with
          | none => .error .index
          | some vart => .ok (.node (.var varno vart) [])
        else .ok (.node (.var varno tr) [])
    else
      match AList.lookup program consts with
      | some (t, val) => .ok (.node (.const t val true) [])
      | none => .error .assertion                                   -- assert False, "can't parse"

/-- Python `list[i] += 1` -/
def incrAt : List Nat → Nat → List Nat
  | [], _ => []
  | x :: xs, 0 => (x + 1) :: xs
  | x :: xs, i + 1 => x :: incrAt xs i

/-- `while element[-end] == ")": level -= 1; end += 1; levels.pop()` (dsl.py:226-230) on the
    reversed element.  IndexError when the element is exhausted (`element[-end]`) or `levels`
    is empty. -/
def closeLoop : Str → Int → List Nat → Res (Int × List Nat)
  | [], _, _ => .error .index
  | c :: rest, level, levels =>
    if c = ')' then
      match levels with
      | [] => .error .index
      | _ :: ls => closeLoop rest (level - 1) ls
    else .ok (level, levels)

/-- the bookkeeping loop (dsl.py:216-230): `function_calls` (in order), `level`, `levels`
    (top at the head) -/
def bookLoop : List Str → List Nat → Int → List Nat → Res (List Nat)
  | [], fc, _, _ => .ok fc
  | element :: rest, fc, level, levels =>
    match (if level > 0 then
            (match levels with
             | [] => Except.error Err.index
             | top :: _ => Except.ok (incrAt fc top))
           else Except.ok fc : Res (List Nat)) with
    | .error e => .error e
    | .ok fc =>
      let fc := fc ++ [0]
      let (level, levels) :=
        if element.head? = some '(' then (level + 1, (fc.length - 1) :: levels) else (level, levels)
      match closeLoop element.reverse level levels with
      | .error e => .error e
      | .ok (level, levels) => bookLoop rest fc level levels

/-- `parse_stack` (dsl.py:232-243); the two lists are consumed from the front and returned. -/
def parseStack : Nat → List Prog → List Nat → Res (Prog × List Prog × List Nat)
  | 0, _, _ => .error .fuel
  | fuel + 1, l, fcs =>
    match l with
    | [] => .error .index                                           -- l.pop(0) on an empty list
    | [x] => .ok (x, [x], fcs)                                      -- len(l) == 1: return l[0]
    | current :: l =>
      match fcs with
      | [] => .error .index
      | fCall :: fcs =>
        if isArrow (progType current) ∧ fCall > 0 then
          let rec args : Nat → List Prog → List Nat → Res (List Prog × List Prog × List Nat)
            | 0, l, fcs => .ok ([], l, fcs)
            | k + 1, l, fcs =>
              match parseStack fuel l fcs with
              | .error e => .error e
              | .ok (a, l, fcs) =>
                match args k l fcs with
                | .error e => .error e
                | .ok (as, l, fcs) => .ok (a :: as, l, fcs)
          match args (((arguments (progType current)).take fCall).length) l fcs with
          | .error e => .error e
          | .ok (as, l, fcs) => .ok (mkFunction current as, l, fcs)
        else .ok (current, l, fcs)

/-- Python `str.replace(old, new)` for a non-empty `old` -/
def replaceAll : Nat → Str → Str → Str → Str
  | 0, s, _, _ => s
  | _ + 1, [], _, _ => []
  | fuel + 1, c :: r, old, new =>
    if old.isPrefixOf (c :: r) ∧ old ≠ [] then new ++ replaceAll fuel ((c :: r).drop old.length) old new
    else c :: replaceAll fuel r old new

/-- the re-print check (dsl.py:246-252) -/
def checkRepr (consts : Consts) (s : Str) : Str :=
  consts.foldl (fun s (kv : Str × (TyO × Str)) =>
    let ori := kv.1
    let rep := kv.2.2
    let s := replaceAll (s.length + 1) s (' ' :: rep ++ [' ']) (' ' :: ori ++ [' '])
    replaceAll (s.length + 1) s (' ' :: rep ++ [')']) (' ' :: ori ++ [')'])) s

/-- `DSL.parse_program(program, type_request, constants, check)` (dsl.py:192-269) -/
def parseProgram (dsl : Dsl) (tr : TyO) (consts : Consts) (check : Bool) (program : Str) : Res Prog :=
  if ' ' ∈ program then
    let elements := splitBlank program
    match elements.mapM (parseAtom dsl tr consts) with
    | .error e => .error e
    | .ok parts =>
      match bookLoop elements [] 0 [] with
      | .error e => .error e
      | .ok fcs =>
        match parseStack (parts.length + 1) parts fcs with
        | .error e => .error e
        | .ok (sol, _, _) =>
          if check then
            if checkRepr consts (printProg sol) = program then .ok sol else .error .assertion
          else .ok sol
  else parseAtom dsl tr consts program

/-! ## Part 3 — the decidable guards of the round-trip theorem (`Hyp` of C15_program) -/

/-- a printed word: non-empty, no blank, no parenthesis -/
def goodWord (w : Str) : Bool := !w.isEmpty && w.all (fun c => c != ' ' && c != '(' && c != ')')

def isLeaf : Prog → Bool
  | .node .app _ => false
  | .node _ ks => ks.isEmpty

/-- the guard on one leaf: what the parser can read back.
    * a primitive is the *first* primitive of the DSL with its name (finding C15-F5: with
      duplicated names the parser returns the first one), and its name is a word;
    * a variable has the type the request gives it, and no primitive is called `var<n>`;
    * a constant has a value whose printed form is a word, is not a primitive's name, does not
      start with `var`, and is a key of the table bound to (its type, its value). -/
def goodLeaf (dsl : Dsl) (tr : TyO) (consts : Consts) : PL → Bool
  | .prim n ty => goodWord n && findPrim dsl n == some (n, ty)
  | .var k ty =>
    (if isArrow tr then (arguments tr)[k]? == some ty else ty == tr) &&
    (findPrim dsl (VAR ++ showNat k)).isNone
  | .const ty val hv =>
    hv && goodWord val && (findPrim dsl val).isNone && !VAR.isPrefixOf val &&
    AList.lookup val consts == some (ty, val)
  | .app => false

mutual
  /-- applicative terms the printer/parser pair is meant for: every application has a leaf as
      head, at least one argument and at most as many as the head's type takes. -/
  def goodProg (dsl : Dsl) (tr : TyO) (consts : Consts) : Prog → Bool
    | .node .app ks =>
      (match ks with
       | f :: a :: as =>
         isLeaf f && decide ((a :: as).length ≤ (arguments (progType f)).length)
       | _ => false) && goodProgs dsl tr consts ks
    | .node l ks => ks.isEmpty && goodLeaf dsl tr consts l
  def goodProgs (dsl : Dsl) (tr : TyO) (consts : Consts) : List Prog → Bool
    | [] => true
    | t :: ts => goodProg dsl tr consts t && goodProgs dsl tr consts ts
end

/-- the constants table maps the printed form of a value to that value (then the re-print
    check of `parse_program` compares `str(sol)` with the input itself) -/
def goodConsts (consts : Consts) : Bool := consts.all (fun kv => kv.1 == kv.2.2)

end PS.C15
