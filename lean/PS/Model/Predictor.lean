/-
  Model of the prediction layers   — property C19.

    synth/nn/det_grammar_predictor.py   DetGrammarPredictorLayer, TensorLogProbDetGrammar
    synth/nn/u_grammar_predictor.py     UGrammarPredictorLayer,   TensorLogProbUGrammar
    synth/nn/abstractions.py            (abstraction functions: a parameter `abstraction`)
    synth/syntax/grammars/det_grammar.py:202-244   reduce_derivations        -> `reduceDet`
    synth/syntax/grammars/ttcfg.py:50-65           TTCFG.derive (CFG case)   -> `deriveDet`
    synth/syntax/grammars/u_grammar.py:262-340     reduce_derivations        -> `altsU`, `reduceU`
    synth/syntax/grammars/u_cfg.py:131-150         UCFG.derive               -> `deriveU`
    synth/syntax/grammars/tagged_u_grammar.py:220-232  ProbUGrammar.normalise -> `normaliseU`

  Generic over the number type `α` (`[Add α] [Sub α] [Mul α] [Div α] [ExpLog α]`):
  `Float` in the compiled driver, `ℝ` in the proofs.  Core Lean only.

  Data representation
    * non-terminals `NT` are numbers (the harness numbers the distinct `(Type, state)` keys;
      `dummyNT = 0` stands for the `(UnknownType(), …)` context returned at the end of a
      derivation, which is never a key of `rules`);
    * derivable programs `DP` are a kind (Primitive / Variable / Constant) and a name;
    * Python `dict` = `AList` (insertion ordered, overwrite in place), Python `set` = duplicate
      free list in insertion order, *except* that the iteration order of the sets
      `all_pairs[key]` (hash dependent) is a parameter `iter` of `mkIndex`;
    * a tensor is a `List α`; the exceptions `KeyError` / `IndexError` are `none`.

  The code modelled is /repo as it is: `log_probability` and `ProbUGrammar.probability` of
  unambiguous grammars both omit the weight of the start symbol (open known finding C04-F1,
  listed for this property as C19-F1); the U-layer divides the variable/constant mass by the
  number of tagged *alternatives* (fix C19-F2, commit 97880ac; `tagNTUOld` is the code before
  that fix, used by `finding_C19_F2`).
-/
import PS.Basic
import PS.Model.Tree
namespace PS.Predictor
open PS

/-- `exp`, `log`, the literals and the test `x > 0` of the number type. -/
class ExpLog (α : Type) where
  ofNat : Nat → α
  exp : α → α
  log : α → α
  pos : α → Bool

inductive Kind where
  | prim | var | const
  deriving DecidableEq, Repr

structure DP where
  kind : Kind
  name : String
  deriving DecidableEq, Repr

abbrev NT := Nat
def dummyNT : NT := 0
/-- value of an abstraction function: `None` or `(parent, argument index)` -/
abbrev Abs := Option (DP × Nat)
abbrev Prog := Tree DP

/-! ## abstractions.py -/

/-- `ucfg_bigram` / `ttcfg_bigram` / `cfg_bigram_without_depth` (abstractions.py:12-53) on the
    n-gram component of the non-terminal: `ngram.last()` (= `predecessors[0]`) if
    `len(ngram) > 0` else `None`. -/
def absBigram (ngram : List (DP × Nat)) : Abs :=
  match ngram with
  | [] => none
  | p :: _ => some p

/-- `primitive_presence` (abstractions.py:56-60) -/
def absPresence (_ngram : List (DP × Nat)) : Abs := none

/-! ## Layer construction (`__init__`, det 71-121, u 90-146) -/

/-- `set.add` on a duplicate-free list -/
def setAdd {τ : Type} [DecidableEq τ] (x : τ) (s : List τ) : List τ :=
  if x ∈ s then s else s ++ [x]

structure Layer where
  real2abs : AList NT Abs := []
  abs2real : AList Abs (List NT) := []
  allPairs : AList Abs (List DP) := []
  allStartsAbs : List Abs := []
  abs2index : AList Abs (Nat × Nat × AList DP Nat) := []
  outputSize : Nat := 0
  deriving Repr, DecidableEq

/-- body of `for S in grammar.rules:` (det 91-101, u 111-121); `ρ` is the type of the right
    hand sides, which the constructor does not look at -/
def initNT {ρ : Type} (abstraction : NT → Abs) (L : Layer) (S : NT) (r : AList DP ρ) : Layer :=
  let a := abstraction S
  let abs2real := L.abs2real.insert a (setAdd S ((L.abs2real.lookup a).getD []))
  let real2abs := L.real2abs.insert S a
  let ap := if L.allPairs.contains a then L.allPairs else L.allPairs.insert a []
  let ap := r.keys.foldl (fun ap P =>
      if P.kind = .prim then ap.insert a (setAdd P ((ap.lookup a).getD [])) else ap) ap
  { L with abs2real := abs2real, real2abs := real2abs, allPairs := ap }

def initRules {ρ : Type} (abstraction : NT → Abs) (L : Layer) (rules : AList NT (AList DP ρ)) : Layer :=
  rules.foldl (fun L (S, r) => initNT abstraction L S r) L

/-- `for S in grammar.starts: a = abstraction(S); if a not in all_starts_abs: append` (u 122-125) -/
def initStarts (abstraction : NT → Abs) (L : Layer) (starts : List NT) : Layer :=
  { L with allStartsAbs := starts.foldl (fun l S => setAdd (abstraction S) l) L.allStartsAbs }

/-- `{P: i for i, P in enumerate(order)}` -/
def enumDict (order : List DP) : AList DP Nat :=
  order.zipIdx.foldl (fun d (P, i) => d.insert P i) []

/-- det 105-116, u 130-141: slices in the key order of `all_pairs`; `iter key set` is the
    iteration order of the Python set (a permutation of `set`). -/
def mkIndexGo (iter : Abs → List DP → List DP) :
    List (Abs × List DP) → Nat → AList Abs (Nat × Nat × AList DP Nat) → AList Abs (Nat × Nat × AList DP Nat)
  | [], _, acc => acc
  | (k, s) :: rest, cur, acc =>
    mkIndexGo iter rest (cur + s.length) (acc.insert k (cur, s.length, enumDict (iter k s)))

def sumLens (ap : AList Abs (List DP)) : Nat := (ap.map (fun p => p.2.length)).foldl (· + ·) 0

def finishLayer (iter : Abs → List DP → List DP) (L : Layer) : Layer :=
  { L with abs2index := mkIndexGo iter L.allPairs 0 [],
           outputSize := sumLens L.allPairs + L.allStartsAbs.length }

/-- `DetGrammarPredictorLayer.__init__` on the rule tables of the grammars -/
def mkLayerDet {ρ : Type} (abstraction : NT → Abs) (iter : Abs → List DP → List DP)
    (grammars : List (AList NT (AList DP ρ))) : Layer :=
  finishLayer iter (grammars.foldl (initRules abstraction) {})

/-- `UGrammarPredictorLayer.__init__` on (rules, starts) of the grammars -/
def mkLayerU {ρ : Type} (abstraction : NT → Abs) (iter : Abs → List DP → List DP)
    (grammars : List (AList NT (AList DP ρ) × List NT)) : Layer :=
  finishLayer iter (grammars.foldl (fun L g => initStarts abstraction (initRules abstraction L g.1) g.2) {})

/-! ## Numbers -/
section Num
variable {α : Type} [Add α] [Sub α] [Mul α] [Div α] [ExpLog α]
open ExpLog

/-- Python `sum(...)` (starts from 0, left to right) -/
def sumL (l : List α) : α := l.foldl (· + ·) (ofNat 0)

/-- `x[start : start + length]` -/
def slice (x : List α) (start length : Nat) : List α := (x.drop start).take length

/-- `x[start : start + len(ys)] = ys` for a slice of the right length -/
def setSlice (x : List α) (start : Nat) (ys : List α) : List α :=
  x.take start ++ ys ++ x.drop (start + ys.length)

/-- `F.log_softmax(ys, dim=-1)` as the real function `y_i - log Σ_j exp y_j` -/
def logSoftmax (ys : List α) : List α :=
  let lse := log (sumL (ys.map exp))
  ys.map (· - lse)

/-- `__normalize__(x, x)` (det 222-228, u 273-279): slice-wise log-softmax, in place -/
def normalize (idx : AList Abs (Nat × Nat × AList DP Nat)) (x : List α) : List α :=
  idx.foldl (fun x e => setSlice x e.2.1 (logSoftmax (slice x e.2.1 e.2.2.1))) x

/-! ### one non-terminal of the deterministic layer (det 158-207) -/

/-- `for P in variables: tags[S][P] = tensor(nvl); if total_variable_order: nvl = log(exp(nvl) - 1e-7)` -/
def assignVars (tvo : Bool) (ε : α) : List DP → α → AList DP α → AList DP α × α
  | [], nvl, T => (T, nvl)
  | P :: r, nvl, T => assignVars tvo ε r (if tvo then log (exp nvl - ε) else nvl) (T.insert P nvl)

/-- `for P in constants: tags[S][P] = tensor(nvl)` -/
def assignConsts : List DP → α → AList DP α → AList DP α
  | [], _, T => T
  | P :: r, nvl, T => assignConsts r nvl (T.insert P nvl)

/-- det 177-207: `prim` = `tags[S]` after the first loop (primitive rules only) -/
def tagNT (v ε : α) (tvo : Bool) (prim : AList DP α) (vars consts : List DP) : AList DP α :=
  let total := sumL (prim.map (fun e => exp e.2))
  if !vars.isEmpty || !consts.isEmpty then
    let tv : AList DP α × α :=
      if pos total then
        let toAdd := log ((ofNat 1 - v) / total)
        (prim.map (fun e => (e.1, e.2 + toAdd)), v)
      else (prim, ofNat 1)
    let nvl := log (tv.2 / ofNat (vars.length + consts.length))
    let r := assignVars tvo ε vars nvl tv.1
    assignConsts consts r.2 r.1
  else if pos total then
    let toAdd := log (ofNat 1 / total)
    prim.map (fun e => (e.1, e.2 + toAdd))
  else prim

/-! ### one non-terminal of the unambiguous layer (u 183-248) -/

abbrev Alt := List NT   -- `tuple(v)`: one alternative right hand side

/-- `tags[S][P][key] = value` -/
def setInner (T : AList DP (AList Alt α)) (P : DP) (key : Alt) (value : α) : AList DP (AList Alt α) :=
  T.insert P (((T.lookup P).getD []).insert key value)

def assignAltsU (tvo : Bool) (ε : α) (P : DP) : List Alt → α → AList DP (AList Alt α) → AList DP (AList Alt α) × α
  | [], nvl, T => (T, nvl)
  | k :: r, nvl, T => assignAltsU tvo ε P r (if tvo then log (exp nvl - ε) else nvl) (setInner T P k nvl)

/-- `for P in variables: for v in grammar.rules[S][P]: tags[S][P][tuple(v)] = …; trick` -/
def assignVarsU (tvo : Bool) (ε : α) : List (DP × List Alt) → α → AList DP (AList Alt α) → AList DP (AList Alt α) × α
  | [], nvl, T => (T, nvl)
  | (P, alts) :: r, nvl, T =>
    let s := assignAltsU tvo ε P alts nvl T
    assignVarsU tvo ε r s.2 s.1

def assignConstsU : List (DP × List Alt) → α → AList DP (AList Alt α) → AList DP (AList Alt α)
  | [], _, T => T
  | (P, alts) :: r, nvl, T => assignConstsU r nvl (alts.foldl (fun T k => setInner T P k nvl) T)

def massU (T : AList DP (AList Alt α)) : α :=
  sumL (T.map (fun e => sumL (e.2.map (fun z => exp z.2))))

def addAllU (T : AList DP (AList Alt α)) (toAdd : α) : AList DP (AList Alt α) :=
  T.map (fun e => (e.1, e.2.map (fun z => (z.1, z.2 + toAdd))))

/-- `sum(len(grammar.rules[S][P]) for P in …)` (fix C19-F2: the mass is shared among the
    alternatives, each of which receives a tag) -/
def nAlts {κ : Type} (l : List (κ × List Alt)) : Nat := (l.map (fun p => p.2.length)).foldl (· + ·) 0

/-- u 207-248 (after fix C19-F2): `tags0` = `tags[S]` after the first loop (every rule has an entry, those of
    variables and constants are empty) -/
def tagNTU (v ε : α) (tvo : Bool) (tags0 : AList DP (AList Alt α)) (vars consts : List (DP × List Alt)) :
    AList DP (AList Alt α) :=
  let total := massU tags0
  if !vars.isEmpty || !consts.isEmpty then
    let tv : AList DP (AList Alt α) × α :=
      if pos total then (addAllU tags0 (log ((ofNat 1 - v) / total)), v) else (tags0, ofNat 1)
    let nvl := log (tv.2 / ofNat (nAlts vars + nAlts consts))
    let r := assignVarsU tvo ε vars nvl tv.1
    assignConstsU consts r.2 r.1
  else
    addAllU tags0 (log (ofNat 1 / total))

/-- the code BEFORE fix C19-F2: `var_probability / (len(variables) + len(constants))` -/
def tagNTUOld (v ε : α) (tvo : Bool) (tags0 : AList DP (AList Alt α)) (vars consts : List (DP × List Alt)) :
    AList DP (AList Alt α) :=
  let total := massU tags0
  if !vars.isEmpty || !consts.isEmpty then
    let tv : AList DP (AList Alt α) × α :=
      if pos total then (addAllU tags0 (log ((ofNat 1 - v) / total)), v) else (tags0, ofNat 1)
    let nvl := log (tv.2 / ofNat (vars.length + consts.length))
    let r := assignVarsU tvo ε vars nvl tv.1
    assignConstsU consts r.2 r.1
  else
    addAllU tags0 (log (ofNat 1 / total))

/-! ### whole grammars -/

/-- Python `d[k]` for every element, any failure fails the whole -/
def allSomeL {β γ : Type} (f : β → Option γ) : List β → Option (List γ)
  | [] => some []
  | x :: xs => match f x, allSomeL f xs with
    | some y, some ys => some (y :: ys)
    | _, _ => none

def kindIs (k : Kind) (P : DP) : Bool := P.kind = k

/-- det 162-166: `tags[S][P] = y[symbol2index[P]]` for the primitive rules -/
def primTags (sym : AList DP Nat) (y : List α) : List DP → AList DP α → Option (AList DP α)
  | [], T => some T
  | P :: r, T =>
    if P.kind = .prim then
      match sym.lookup P with
      | none => none
      | some i => match y[i]? with
        | none => none
        | some t => primTags sym y r (T.insert P t)
    else primTags sym y r T

/-- body of `for S in grammar.rules:` (det 152-207) for the entry `e = (S, rules[S])`; `x` is the
    normalised tensor -/
def tagEntryDet (L : Layer) (v ε : α) (tvo : Bool) (x : List α) (e : NT × AList DP (List NT)) :
    Option (NT × AList DP α) :=
  match L.real2abs.lookup e.1 with
  | none => none
  | some key => match L.abs2index.lookup key with
    | none => none
    | some (start, length, sym) =>
      let y := slice x start length
      match primTags sym y e.2.keys [] with
      | none => none
      | some prim =>
        some (e.1, tagNT v ε tvo prim (e.2.keys.filter (kindIs .var)) (e.2.keys.filter (kindIs .const)))

/-- `tensor2log_prob_grammar` of the deterministic layer (det 133-209); `x` is the caller's
    tensor, the returned grammar carries `tags`. -/
def tensor2logProbDet (L : Layer) (v ε : α) (tvo : Bool) (rules : AList NT (AList DP (List NT)))
    (x : List α) : Option (AList NT (AList DP α)) :=
  allSomeL (tagEntryDet L v ε tvo (normalize L.abs2index x)) rules

/-- u 187-196: `tags[S][P] = {}`, and `tags[S][P][tuple(v)] = y[symbol2index[P]]` for primitives -/
def primTagsU (sym : AList DP Nat) (y : List α) :
    List (DP × List Alt) → AList DP (AList Alt α) → Option (AList DP (AList Alt α))
  | [], T => some T
  | (P, alts) :: r, T =>
    let T := T.insert P []
    if P.kind = .prim then
      match sym.lookup P with
      | none => none
      | some i => match alts with
        | [] => primTagsU sym y r T                 -- no alternative: `y[i]` is not evaluated
        | _ :: _ => match y[i]? with
          | none => none
          | some t => primTagsU sym y r (alts.foldl (fun T k => setInner T P k t) T)
    else primTagsU sym y r T

/-- u 249-258: start tags.  `z = x[output_size - len(all_starts_abs):]` -/
def startTagsU (L : Layer) (starts : List NT) (x : List α) : Option (AList NT α) :=
  let z := x.drop (L.outputSize - L.allStartsAbs.length)
  let raw : Option (AList NT α) :=
    L.allStartsAbs.zipIdx.foldl (fun acc ai =>
      match acc with
      | none => none
      | some d =>
        ((L.abs2real.lookup ai.1).getD []).foldl (fun acc S =>
          match acc with
          | none => none
          | some d => if S ∈ starts then
              match z[ai.2]? with
              | none => none
              | some t => some (d.insert S t)
            else some d) (some d)) (some [])
  match raw with
  | none => none
  | some d =>
    let total := sumL (d.map (fun e => exp e.2))
    let toAdd := log (ofNat 1 / total)
    some (d.map (fun e => (e.1, e.2 + toAdd)))

/-- body of `for S in grammar.rules:` (u 177-248) -/
def tagEntryU (L : Layer) (v ε : α) (tvo : Bool) (x : List α) (e : NT × AList DP (List Alt)) :
    Option (NT × AList DP (AList Alt α)) :=
  match L.real2abs.lookup e.1 with
  | none => none
  | some key => match L.abs2index.lookup key with
    | none => none
    | some (start, length, sym) =>
      let y := slice x start length
      match primTagsU sym y e.2 [] with
      | none => none
      | some tags0 =>
        some (e.1, tagNTU v ε tvo tags0 (e.2.filter (fun p => kindIs .var p.1)) (e.2.filter (fun p => kindIs .const p.1)))

def tensor2logProbU (L : Layer) (v ε : α) (tvo : Bool) (rules : AList NT (AList DP (List Alt)))
    (starts : List NT) (x : List α) : Option (AList NT (AList DP (AList Alt α)) × AList NT α) :=
  let x := normalize L.abs2index x
  match allSomeL (tagEntryU L v ε tvo x) rules, startTagsU L starts x with
  | some t, some s => some (t, s)
  | _, _ => none

/-! ### conversion to probabilities -/

/-- `to_prob_det_grammar` (det 53-58) -/
def toProbDet (tags : AList NT (AList DP α)) : AList NT (AList DP α) :=
  tags.map (fun e => (e.1, e.2.map (fun z => (z.1, exp z.2))))

/-- `ProbUGrammar.normalise` (tagged_u_grammar.py) -/
def normaliseU (tags : AList NT (AList DP (AList Alt α))) (starts : AList NT α) :
    AList NT (AList DP (AList Alt α)) × AList NT α :=
  (tags.map (fun e =>
      let s := sumL (e.2.map (fun d => sumL (d.2.map (fun z => z.2))))
      (e.1, e.2.map (fun d => (d.1, d.2.map (fun z => (z.1, z.2 / s)))))),
   let s := sumL (starts.map (fun e => e.2))
   starts.map (fun e => (e.1, e.2 / s)))

/-- `{S: {P: {key: np.exp(t) …}}}` and `{S: np.exp(t)}` (u 65-74) -/
def expTagsU (tags : AList NT (AList DP (AList Alt α))) : AList NT (AList DP (AList Alt α)) :=
  tags.map (fun e => (e.1, e.2.map (fun d => (d.1, d.2.map (fun z => (z.1, exp z.2))))))

def expStartU (starts : AList NT α) : AList NT α := starts.map (fun e => (e.1, exp e.2))

/-- `to_prob_u_grammar` (u 64-77) -/
def toProbU (tags : AList NT (AList DP (AList Alt α))) (starts : AList NT α) :
    AList NT (AList DP (AList Alt α)) × AList NT α :=
  normaliseU (expTagsU tags) (expStartU starts)

end Num

/-! ## Derivations -/

/-- `TTCFG.derive` for a CFG (the state component is the constant `None`, so the next
    non-terminal is the stored one): ttcfg.py:50-65.  `none` = KeyError. -/
def deriveDet (rules : AList NT (AList DP (List NT))) (info : List NT) (start : NT) (P : DP) :
    Option (List NT × NT) :=
  match rules.lookup start with
  | none => none
  | some r => match r.lookup P with
    | none => none
    | some args =>
      match args with
      | a :: as => some (as ++ info, a)
      | [] => match info with
        | i :: is => some (is, i)
        | [] => some (info, dummyNT)

mutual
  /-- `DetGrammar.__reduce_derivations_rec__` (det_grammar.py:221-244); `reduce` may raise -/
  def reduceDet {β : Type} (rules : AList NT (AList DP (List NT))) (f : β → NT → DP → Option β) :
      Prog → β → NT → List NT → Option (β × List NT × NT)
    | .node P args, value, start, info =>
      match deriveDet rules info start P with
      | none => none
      | some (info, next) =>
        match f value start P with
        | none => none
        | some value => reduceDetArgs rules f args value info next
  def reduceDetArgs {β : Type} (rules : AList NT (AList DP (List NT))) (f : β → NT → DP → Option β) :
      List Prog → β → List NT → NT → Option (β × List NT × NT)
    | [], value, info, next => some (value, info, next)
    | a :: as, value, info, next =>
      match reduceDet rules f a value next info with
      | none => none
      | some (value, info, next) => reduceDetArgs rules f as value info next
end

mutual
  /-- Specification: the left-most derivation of `t` from `start`, as the list of
      (non-terminal, rule) steps. -/
  def derivDet (rules : AList NT (AList DP (List NT))) : Prog → NT → List NT → Option (List (NT × DP) × List NT × NT)
    | .node P args, start, info =>
      match deriveDet rules info start P with
      | none => none
      | some (info, next) =>
        match derivDetArgs rules args info next with
        | none => none
        | some (l, info, next) => some ((start, P) :: l, info, next)
  def derivDetArgs (rules : AList NT (AList DP (List NT))) : List Prog → List NT → NT → Option (List (NT × DP) × List NT × NT)
    | [], info, next => some ([], info, next)
    | a :: as, info, next =>
      match derivDet rules a next info with
      | none => none
      | some (l1, info, next) =>
        match derivDetArgs rules as info next with
        | none => none
        | some (l2, info, next) => some (l1 ++ l2, info, next)
end

/-- fold of a partial step function (the exceptions of `reduce` propagate) -/
def foldlO {β γ : Type} (f : β → γ → Option β) : β → List γ → Option β
  | b, [] => some b
  | b, x :: xs => match f b x with
    | none => none
    | some b => foldlO f b xs

/-- `UCFG.derive` (u_cfg.py:131-150): (new information, next non-terminal, alternative) -/
def deriveU (rules : AList NT (AList DP (List Alt))) (info : List NT) (S : NT) (P : DP) :
    List (List NT × NT × Alt) :=
  match rules.lookup S with
  | none => []
  | some r => match r.lookup P with
    | none => []
    | some candidates =>
      candidates.map (fun args =>
        match args with
        | a :: as => (as ++ info, a, args)
        | [] => match info with
          | i :: is => (is, i, [])
          | [] => ([], dummyNT, []))

/-- `(next, S, P, v, information)` -/
structure StepU where
  next : NT
  S : NT
  P : DP
  v : Alt
  info : List NT
  deriving Repr, DecidableEq

mutual
  /-- `UGrammar.__reduce_derivations_rec__` (u_grammar.py:297-340, with the arity filters of
      commit c1c8db8): every derivation of `t` from `start`, as lists of steps -/
  def altsU (rules : AList NT (AList DP (List Alt))) : Prog → NT → List NT → List (List StepU)
    | .node P [], start, info =>
      (deriveU rules info start P).filterMap (fun d =>
        if d.2.2.length != 0 then none else some [⟨d.2.1, start, P, d.2.2, d.1⟩])
    | .node P (a :: as), start, info =>
      altsUArgs rules (a :: as)
        (((deriveU rules info start P).filter (fun d => d.2.2.length == (a :: as).length)).map
          (fun d => [⟨d.2.1, start, P, d.2.2, d.1⟩]))
  def altsUArgs (rules : AList NT (AList DP (List Alt))) : List Prog → List (List StepU) → List (List StepU)
    | [], possibles => possibles
    | arg :: rest, possibles =>
      altsUArgs rules rest (possibles.flatMap (fun possible =>
        match possible.getLast? with
        | none => []
        | some st => (altsU rules arg st.next st.info).map (fun alternative => possible ++ alternative)))
end

/-- `UGrammar.reduce_derivations(reduce, init, program, start)` for a given `start` -/
def reduceU {β : Type} (rules : AList NT (AList DP (List Alt))) (f : β → StepU → Option β) (init : β)
    (t : Prog) (start : NT) : Option (List β) :=
  allSomeL (fun possibles => foldlO f init possibles) (altsU rules t start [])

section Num2
variable {α : Type} [Add α] [Sub α] [Mul α] [Div α] [ExpLog α]
open ExpLog

def tagDet (tags : AList NT (AList DP α)) (S : NT) (P : DP) : Option α :=
  match tags.lookup S with
  | none => none
  | some d => d.lookup P

/-- `lambda current, S, P, _: current + self.tags[S][P]` -/
def addTagDet (tags : AList NT (AList DP α)) (cur : α) (S : NT) (P : DP) : Option α :=
  match tagDet tags S P with
  | none => none
  | some w => some (cur + w)

/-- `lambda current, S, P, _: current * self.tags[S][P]` -/
def mulTagDet (w : AList NT (AList DP α)) (cur : α) (S : NT) (P : DP) : Option α :=
  match tagDet w S P with
  | none => none
  | some p => some (cur * p)

/-- `TensorLogProbDetGrammar.log_probability(program)` (det 40-51) -/
def logProbabilityDet (rules : AList NT (AList DP (List NT))) (start : NT) (tags : AList NT (AList DP α))
    (t : Prog) : Option α :=
  match reduceDet rules (addTagDet tags) t (ofNat 0) start [] with
  | none => none
  | some r => some r.1

/-- Specification: the product of the weights `w(S, P)` along the derivation -/
def derivWeightDet (rules : AList NT (AList DP (List NT))) (start : NT) (w : AList NT (AList DP α))
    (t : Prog) : Option α :=
  match derivDet rules t start [] with
  | none => none
  | some d => foldlO (fun cur (sp : NT × DP) => mulTagDet w cur sp.1 sp.2) (ofNat 1) d.1

def tagU (tags : AList NT (AList DP (AList Alt α))) (st : StepU) : Option α :=
  match tags.lookup st.S with
  | none => none
  | some d => match d.lookup st.P with
    | none => none
    | some a => a.lookup st.v

def addTagU (tags : AList NT (AList DP (AList Alt α))) (cur : α) (st : StepU) : Option α :=
  match tagU tags st with
  | none => none
  | some w => some (cur + w)

/-- `TensorLogProbUGrammar.log_probability(program)` (u 51-62):
    `reduce_derivations(lambda …: current + tags[S][P][V], zeros, program, None)[0]` — the
    derivations from every start symbol, every fold must succeed (KeyError), first result
    (IndexError when there is none).  The start tags are not used. -/
def logProbabilityU (rules : AList NT (AList DP (List Alt))) (starts : List NT)
    (tags : AList NT (AList DP (AList Alt α))) (t : Prog) : Option α :=
  match allSomeL (fun S0 => reduceU rules (addTagU tags) (ofNat 0) t S0) starts with
  | none => none
  | some rs => rs.flatten.head?

def mulTagU (w : AList NT (AList DP (AList Alt α))) (cur : α) (st : StepU) : Option α :=
  match tagU w st with
  | none => none
  | some p => some (cur * p)

/-- `ProbUGrammar.probability(program)` as implemented (tagged_u_grammar.py): product of the
    RULE weights along the first derivation, `0` when there is no derivation or on KeyError;
    the start weights are not used (C04-F1). -/
def probabilityU (rules : AList NT (AList DP (List Alt))) (starts : List NT)
    (w : AList NT (AList DP (AList Alt α))) (t : Prog) : α :=
  match allSomeL (fun S0 => reduceU rules (mulTagU w) (ofNat 1) t S0) starts with
  | none => ofNat 0
  | some rs => rs.flatten.head?.getD (ofNat 0)

/-- Specification: probability that the converted grammar gives to the derivation `d` that
    begins at start symbol `S0`: start probability times the rule probabilities. -/
def derivWeightU (w : AList NT (AList DP (AList Alt α))) (startW : AList NT α) (S0 : NT) (d : List StepU) : Option α :=
  match startW.lookup S0 with
  | none => none
  | some s => foldlO (mulTagU w) s d

end Num2

/-! ## encode (det 211-220, 286-296; u 262-271, 337-347) -/

/-- position of the pair (abstraction of S, P) in the tensor: `start + symbol2index[P]` -/
def posOf (L : Layer) (S : NT) (P : DP) : Option Nat :=
  match L.real2abs.lookup S with
  | none => none
  | some key => match L.abs2index.lookup key with
    | none => none
    | some (start, _, sym) => match sym.lookup P with
      | none => none
      | some i => some (start + i)

/-- `tensor[i] = 1` (IndexError when out of range) -/
def setOne (out : List Nat) (i : Nat) : Option (List Nat) :=
  if i < out.length then some (out.set i 1) else none

/-- `__reduce_encoder__` -/
def encStep (L : Layer) (out : List Nat) (S : NT) (P : DP) : Option (List Nat) :=
  if P.kind = .prim then
    match posOf L S P with
    | none => none
    | some i => setOne out i
  else some out

def encodeDet (L : Layer) (rules : AList NT (AList DP (List NT))) (start : NT) (t : Prog) : Option (List Nat) :=
  match reduceDet rules (encStep L) t (List.replicate L.outputSize 0) start [] with
  | none => none
  | some r => some r.1

/-- U-layer: `reduce_derivations` folds every alternative derivation (from every start) with
    the same mutable tensor, so the marks accumulate over all of them. -/
def encodeU (L : Layer) (rules : AList NT (AList DP (List Alt))) (starts : List NT) (t : Prog) : Option (List Nat) :=
  foldlO (fun out (st : StepU) => encStep L out st.S st.P) (List.replicate L.outputSize 0)
    ((starts.map (fun S0 => (altsU rules t S0 []).flatten)).flatten)

/-- Specification of `encode`: the indicator vector of a set of positions -/
def indicator (n : Nat) (ps : List Nat) : List Nat :=
  (List.range n).map (fun i => if i ∈ ps then 1 else 0)

/-- Specification: the tensor positions of the primitive rules of a derivation -/
def positionsOf (L : Layer) (steps : List (NT × DP)) : List Nat :=
  steps.filterMap (fun sp => if sp.2.kind = .prim then posOf L sp.1 sp.2 else none)

/-! ## Well-formedness (what a Python `dict` guarantees) and the hypothesis of the
    ε-ordering trick -/

/-- keys of every rule table are distinct -/
def wfRules {ρ : Type} (rules : AList NT (AList DP ρ)) : Bool :=
  rules.all (fun e => decide (e.2.keys.Nodup))

/-- the alternatives of a rule are distinct (they are the keys `tuple(v)` of a dict) -/
def wfAlts (rules : AList NT (AList DP (List Alt))) : Bool :=
  rules.all (fun e => e.2.all (fun p => decide (p.2.Nodup)))

/-- number of (variable, constant) rules of a rule table -/
def countKind {ρ : Type} (k : Kind) (r : AList DP ρ) : Nat := (r.keys.filter (kindIs k)).length

/-- number of alternatives of the rules of kind `k` -/
def countAlts (k : Kind) (r : AList DP (List Alt)) : Nat := nAlts (r.filter (fun p => kindIs k p.1))

/-! ## Specification values of the normalisation identities -/
section SpecVals
variable {α : Type} [Add α] [Sub α] [Mul α] [Div α] [ExpLog α]
open ExpLog

/-- what the ε-ordering trick removes: variable k (k = 0 … m-1) loses k·ε, each of the c
    constants loses m·ε -/
def epsTerm (ε : α) (tvo : Bool) (m c : Nat) : α :=
  if tvo then ε * ofNat (m * (m - 1) / 2 + c * m) else ofNat 0

/-- Σ_{rules of S} exp(tag) -/
def specNorm (ε : α) (tvo : Bool) (m c : Nat) : α := ofNat 1 - epsTerm ε tvo m c

/-- Σ_{variables and constants of S} exp(tag): `variable_probability` when other rules exist,
    everything otherwise -/
def specVarMass (v ε : α) (tvo : Bool) (hasPrim : Bool) (m c : Nat) : α :=
  (if hasPrim then v else ofNat 1) - epsTerm ε tvo m c

/-- hypothesis of the ordering trick: the last decrement stays positive, `m·ε < p`
    where `p = (v or 1)/(m+c)` -/
def hypEps (v ε : α) (tvo : Bool) (hasPrim : Bool) (m c : Nat) : Bool :=
  !tvo || pos ((if hasPrim then v else ofNat 1) / ofNat (m + c) - ofNat m * ε)
end SpecVals

end PS.Predictor
