/-
  C17 — instantiating constants.

  Model (literal transcription, core Lean only) of
    * `TTCFG.instantiate_constants`            synth/syntax/grammars/ttcfg.py:359-376
    * `UCFG.instantiate_constants`             synth/syntax/grammars/u_cfg.py:198-213
    * `ProbDetGrammar.instantiate_constants`   synth/syntax/grammars/tagged_det_grammar.py:216-231
    * `TaggedDetGrammar.instantiate_constants` synth/syntax/grammars/tagged_det_grammar.py:99-112
    * `ProbUGrammar.instantiate_constants`     synth/syntax/grammars/tagged_u_grammar.py:258-276
    * `Program.all_constants_instantiation`    synth/syntax/program.py:66-69, 189-193, 308-317
    * `ProbDetGrammar.probability`             tagged_det_grammar.py:144-162
  and the specification of the property (`isInst`, `prob`, `Normalised`), stated without the
  algorithm.

  Encoding: a constant is `Sym.const ty value`; the value is the canonical text of the Python
  value (injective for the values used, never empty), `""` = no value assigned
  (`Constant(ty)`).  A table `Dict[Type, List[Any]]` is `AList Ty (List String)`.
  All four grammar-side functions share one loop shape

      for S in d: out[S] = {}
        for P in d[S]:
          if isinstance(P, Constant) and P.type in constants:
              for val in constants[P.type]: out[S][Constant(P.type, val, True)] = f(d[S][P], len(constants[P.type]))
          else: out[S][P] = d[S][P]

  (`f` = identity for rule tables, division by the number of values for probabilities), which
  is `instRules`.  NOTE: exactly as the code, the test is "is a Constant whose type is a key of
  the table" — it does not look at `has_value()`.
-/
import PS.Model.Grammar
import PS.Model.Cfg
namespace PS.IC
open PS PS.G

/-- `constants : Dict[Type, List[Any]]` -/
abbrev Tbl := AList Ty (List String)

/-- `isinstance(P, Constant) and P.type in constants` → `constants[P.type]` -/
def slot? (tbl : Tbl) (P : Sym) : Option (List String) :=
  if P.kind = .const then AList.lookup P.ty tbl else none

/-- the body of the loop over `P` for one entry `(P, v)` of the row, on the dict built so far -/
def step {ν : Type} (tbl : Tbl) (f : ν → Nat → ν) (acc : AList Sym ν) (e : Sym × ν) : AList Sym ν :=
  match slot? tbl e.1 with
  | some vals => vals.foldl (fun a val => AList.insert (Sym.const e.1.ty val) (f e.2 vals.length) a) acc
  | none => AList.insert e.1 e.2 acc

/-- `for P in d[S]: …` starting from `{}` -/
def instRow {ν : Type} (tbl : Tbl) (f : ν → Nat → ν) (row : AList Sym ν) : AList Sym ν :=
  row.foldl (step tbl f) []

/-- `for S in d: out[S] = {} …` (the keys of a dict are distinct, so this is a map) -/
def instRules {κ ν : Type} (tbl : Tbl) (f : ν → Nat → ν) (d : AList κ (AList Sym ν)) :
    AList κ (AList Sym ν) :=
  d.map (fun e => (e.1, instRow tbl f e.2))

variable {S T : Type} [DecidableEq S] [DecidableEq T]

/-- `TTCFG.instantiate_constants` (a CFG is a TTCFG): same start, `clean=False` -/
def inst (G : TT S T) (tbl : Tbl) : TT S T :=
  ⟨G.start, instRules tbl (fun v _ => v) G.rules⟩

/-! ### probabilistic deterministic grammars -/

/-- `tags : Dict[NT, Dict[DerivableProgram, float]]` with exact rationals -/
abbrev Tags (S T : Type) := AList (NT S T) (AList Sym Rat)

/-- `ProbDetGrammar.instantiate_constants`: `tags[S][P] / len(constants[P.type])` -/
def instTags (tags : Tags S T) (tbl : Tbl) : Tags S T :=
  instRules tbl (fun p n => p / (n : Rat)) tags

/-- `TaggedDetGrammar.instantiate_constants`: the tag is copied -/
def instTagsPlain {τ : Type} (tags : AList (NT S T) (AList Sym τ)) (tbl : Tbl) :
    AList (NT S T) (AList Sym τ) :=
  instRules tbl (fun p _ => p) tags

/-- `self.tags[S][P]` (`none` = KeyError) -/
def tag? (tags : Tags S T) (nt : NT S T) (P : Sym) : Option Rat :=
  match AList.lookup nt tags with
  | none => none
  | some row => AList.lookup P row

/-- `ProbDetGrammar.probability`: 0 outside the grammar, otherwise `reduce_derivations` with
    `current * tags[S][P]`; any exception gives 0. -/
def probability (G : TT S T) (tags : Tags S T) (p : Prog) : Rat :=
  if contains G p then
    match reduceDerivations G
        (fun (cur : Option Rat) nt P _ => match cur, tag? tags nt P with
          | some c, some w => some (c * w)
          | _, _ => none) (some 1) p with
    | some (some r) => r
    | _ => 0
  else 0

/-! ### unambiguous grammars (rule tables only; `UCFG` keeps a list of alternatives per symbol) -/

abbrev UNT (U : Type) := Ty × U
abbrev UTable (U : Type) := AList (UNT U) (AList Sym (List (List (UNT U))))
abbrev UTags (U : Type) := AList (UNT U) (AList Sym (AList (List (UNT U)) Rat))

/-- `UCFG.instantiate_constants` -/
def instU {U : Type} (R : UTable U) (tbl : Tbl) : UTable U := instRules tbl (fun v _ => v) R

/-- `ProbUGrammar.instantiate_constants`: `{k: v / len(constants[P.type]) for k, v in …}` -/
def instUTags {U : Type} (tags : UTags U) (tbl : Tbl) : UTags U :=
  instRules tbl (fun d n => d.map (fun kv => (kv.1, kv.2 / (n : Rat)))) tags

/-! ### program side -/

/-- `Constant.all_constants_instantiation` / `Program.all_constants_instantiation` on a
    symbol: a Constant yields `Constant(type, val)` for `val in constants[type]` (KeyError =
    `none` when the type is not a key), anything else yields itself. -/
def allInstSym (tbl : Tbl) (P : Sym) : Option (List Sym) :=
  if P.kind = .const then
    match AList.lookup P.ty tbl with
    | none => none
    | some vals => some (vals.map (fun v => Sym.const P.ty v))
  else some [P]

/-- `Option` sequencing of a list -/
def seqOpt {α : Type} : List (Option α) → Option (List α)
  | [] => some []
  | none :: _ => none
  | some x :: r => match seqOpt r with
    | none => none
    | some xs => some (x :: xs)

/- `Function.all_constants_instantiation` (program.py:308-317):
      for f in self.function.all_constants_instantiation(constants):
          possibles = [list(arg.all_constants_instantiation(constants)) for arg in self.arguments]
          for args in itertools.product(*possibles): yield Function(f, list(args))
   (`none` = the KeyError of a constant whose type is not in the table; with an empty list of
   heads the arguments are never visited, so no KeyError can come from them). -/
mutual
  def allInst (tbl : Tbl) : Prog → Option (List Prog)
    | .node f kids =>
      match allInstSym tbl f with
      | none => none
      | some [] => some []
      | some (h :: hs) =>
        match allInstList tbl kids with
        | none => none
        | some poss => some ((h :: hs).flatMap (fun f' => (product poss).map (fun ks => Tree.node f' ks)))
  def allInstList (tbl : Tbl) : List Prog → Option (List (List Prog))
    | [] => some []
    | k :: ks =>
      match allInst tbl k, allInstList tbl ks with
      | some l, some ls => some (l :: ls)
      | _, _ => none
end

/-! ### specification -/

/-- a constant slot of the table: a constant without value whose type is a key -/
def isSlot (tbl : Tbl) (P : Sym) : Bool :=
  P.kind = .const && P.name = "" && AList.contains P.ty tbl

/-- `f'` is an instantiation of the symbol `f`: a slot is replaced by one of the values of its
    type, anything else is unchanged -/
def symInst (tbl : Tbl) (f f' : Sym) : Bool :=
  if isSlot tbl f then
    match AList.lookup f.ty tbl with
    | some vals => vals.any (fun v => f' = Sym.const f.ty v)
    | none => false
  else f' = f

/- **Specification**: `t'` is an instantiation of the template `t` — same shape, every
   symbol instantiated independently. -/
mutual
  def isInst (tbl : Tbl) : Prog → Prog → Bool
    | .node f kids, .node f' kids' => symInst tbl f f' && isInstList tbl kids kids'
  def isInstList (tbl : Tbl) : List Prog → List Prog → Bool
    | [], [] => true
    | k :: ks, k' :: ks' => isInst tbl k k' && isInstList tbl ks ks'
    | _, _ => false
end

/-- the template of an instantiated symbol: an assigned constant of a table type goes back to
    the slot -/
def templSym (tbl : Tbl) (f' : Sym) : Sym :=
  if f'.kind = .const && AList.contains f'.ty tbl then Sym.const f'.ty "" else f'

mutual
  def templ (tbl : Tbl) : Prog → Prog
    | .node f kids => .node (templSym tbl f) (templList tbl kids)
  def templList (tbl : Tbl) : List Prog → List Prog
    | [] => []
    | k :: ks => templ tbl k :: templList tbl ks
end

/- **Specification of the probability** of a term in a probabilistic CFG: the product of the
   weights of the rules of its top-down derivation, 0 when there is none. -/
mutual
  def prob (G : TT S Unit) (tags : Tags S Unit) : Prog → NT S Unit → Rat
    | .node f kids, nt =>
      match G.rule? nt f with
      | none => 0
      | some (args, _) => (tag? tags nt f).getD 0 * probList G tags kids args
  def probList (G : TT S Unit) (tags : Tags S Unit) : List Prog → List (Ty × S) → Rat
    | [], [] => 1
    | k :: ks, (t, s) :: as => prob G tags k (t, (s, ())) * probList G tags ks as
    | _, _ => 0
end

/-- sum of a list of rationals -/
def rsum : List Rat → Rat
  | [] => 0
  | x :: xs => x + rsum xs

/-- every row of weights sums to 1 -/
def Normalised {κ : Type} (tags : AList κ (AList Sym Rat)) : Prop :=
  ∀ e ∈ tags, rsum (AList.values e.2) = 1

def normalisedB {κ : Type} (tags : AList κ (AList Sym Rat)) : Bool :=
  tags.all (fun e => rsum (AList.values e.2) = 1)

/-- the sums of the rows, in dict order -/
def rowSumsOf {κ : Type} (tags : AList κ (AList Sym Rat)) : List Rat :=
  tags.map (fun e => rsum (AList.values e.2))

/-- total weight of a row of a probabilistic unambiguous grammar -/
def uRowSum {κ : Type} (row : AList Sym (AList κ Rat)) : Rat :=
  rsum (row.map fun e => rsum (AList.values e.2))

/-- every row of a probabilistic unambiguous grammar sums to 1 -/
def NormalisedU {U : Type} (tags : UTags U) : Prop :=
  ∀ e ∈ tags, uRowSum e.2 = 1

/-! ### hypotheses (all decidable) -/

/-- the values of a type are pairwise distinct (as `Constant`s) and are values (not the
    "no value" marker) -/
def valsOK (vals : List String) : Bool := vals.Nodup && !(vals.contains "")

/-- a row is a Python dict (distinct keys); its constants of a table type are all slots, i.e.
    carry no value yet (finding C17-F2 otherwise: the code re-instantiates them), and the value
    lists used by the row are duplicate free (finding C17-F3 otherwise) -/
def rowOK {ν : Type} (tbl : Tbl) (row : AList Sym ν) : Bool :=
  (AList.keys row).Nodup &&
  (AList.keys row).all (fun P => match slot? tbl P with
    | none => true
    | some vals => P = Sym.const P.ty "" && valsOK vals)

def rulesOK {κ ν : Type} (tbl : Tbl) (d : AList κ (AList Sym ν)) : Bool :=
  d.all (fun e => rowOK tbl e.2)

/-- no slot of the row has an empty value list (finding C17-F1 otherwise) -/
def rowNonEmpty {ν : Type} (tbl : Tbl) (row : AList Sym ν) : Bool :=
  (AList.keys row).all (fun P => match slot? tbl P with
    | some [] => false
    | _ => true)

def rulesNonEmpty {κ ν : Type} (tbl : Tbl) (d : AList κ (AList Sym ν)) : Bool :=
  d.all (fun e => rowNonEmpty tbl e.2)

/-- program side: every constant of the template is a slot of the table with a duplicate-free
    value list -/
def symOK (tbl : Tbl) (P : Sym) : Bool :=
  !(P.kind = .const) ||
    (P = Sym.const P.ty "" && match AList.lookup P.ty tbl with
      | some vals => valsOK vals
      | none => false)

mutual
  def progOK (tbl : Tbl) : Prog → Bool
    | .node f kids => symOK tbl f && progOKList tbl kids
  def progOKList (tbl : Tbl) : List Prog → Bool
    | [] => true
    | k :: ks => progOK tbl k && progOKList tbl ks
end

end PS.IC
