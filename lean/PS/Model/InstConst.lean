/-
  C17 — instantiating constants.

  Model (literal transcription, core Lean only) of
    * `TTCFG.instantiate_constants`            synth/syntax/grammars/ttcfg.py:372-389
    * `UCFG.instantiate_constants`             synth/syntax/grammars/u_cfg.py:198-213
    * `ProbDetGrammar.instantiate_constants`   synth/syntax/grammars/tagged_det_grammar.py:219-234
    * `TaggedDetGrammar.instantiate_constants` synth/syntax/grammars/tagged_det_grammar.py:102-115
    * `ProbUGrammar.instantiate_constants`     synth/syntax/grammars/tagged_u_grammar.py:266-284
      (`TaggedUGrammar.instantiate_constants`  tagged_u_grammar.py:103-118 has the same loop)
    * `Program.all_constants_instantiation`    synth/syntax/program.py:68-71, 190-194, 311-320
    * `ProbDetGrammar.probability`             tagged_det_grammar.py:146-164
  and the specification of the property (`isInst`, `prob`, `Normalised`), stated without the
  algorithm.

  Encoding: a constant is `Sym.const ty value`; the value is the canonical text of the Python
  value (injective for the values used, never empty), `""` = no value assigned
  (`Constant(ty)`).  A table `Dict[Type, List[Any]]` is `AList Ty (List String)`.
  All four grammar-side functions share one loop shape

      for S in d: out[S] = {}
        for P in d[S]:
          if isinstance(P, Constant) and P.type in constants:
              for val in constants[P.type]: out[S][Constant(P.type, val, True)] = f(d[S][P], len(constants[P.type]))
          else: out[S][P] = d[S][P]

  (`f` = identity for rule tables, division by the number of values for probabilities), which
  is `instRules`.  NOTE: exactly as the code in /repo, the test is "is a Constant whose type is a
  key of the table" — it does not look at `has_value()` (finding C17-F2).

  REPAIRS.  Every definition takes a `Fix` saying which of the proposed repairs
  (fixes_proposed/C17-F2.diff, C17-F3.diff, C17-F4.diff) are present in the code that is
  modelled; `Fix.asIs` is the code as it is in /repo, `Fix.repaired` the code with the three
  repairs:
    f2  the test becomes `isinstance(P, Constant) and not P.has_value() and P.type in constants`
        (6 grammar-side sites) and `Constant.all_constants_instantiation` yields a constant that
        has a value unchanged;
    f3  `constants = {t: Constant.distinct_values(t, v) for t, v in constants.items()}` at the top
        of the 6 grammar-side functions, `for val in Constant.distinct_values(self.type, …)` on
        the program side: a value listed twice counts once (first occurrence kept);
    f4  `Constant.all_constants_instantiation` yields the constant itself when its type is not a
        key of the table (instead of `KeyError`).
  The harness probes the implementation for each of the three and asks the driver for that
  variant.
-/
import PS.Model.Grammar
import PS.Model.Cfg
namespace PS.IC
open PS PS.G

/-- `constants : Dict[Type, List[Any]]` -/
abbrev Tbl := AList Ty (List String)

/-- which repairs are present in the modelled code -/
structure Fix where
  /-- C17-F2: `and not P.has_value()` -/
  f2 : Bool
  /-- C17-F3: `Constant.distinct_values` -/
  f3 : Bool
  /-- C17-F4: a constant whose type is not in the table yields itself (program side) -/
  f4 : Bool
  deriving DecidableEq, Repr

/-- the code as it is in /repo -/
def Fix.asIs : Fix := ⟨false, false, false⟩
/-- the code with the three proposed repairs -/
def Fix.repaired : Fix := ⟨true, true, true⟩

/-- `dict.fromkeys(Constant(type, val, True) for val in values)`: the values not `seen` yet, first
    occurrences, order kept (a value is its canonical text: equal texts ⇔ equal Constants) -/
def distinctAux (seen : List String) : List String → List String
  | [] => []
  | v :: vs => if seen.contains v then distinctAux seen vs else v :: distinctAux (v :: seen) vs

/-- `Constant.distinct_values(type, values)` (fixes_proposed/C17-F3.diff) -/
def distinct (vals : List String) : List String := distinctAux [] vals

/-- the list of values the loops see for a type: `constants[P.type]`, made distinct when the
    repair of C17-F3 is present -/
def Fix.vals (fx : Fix) (vals : List String) : List String := if fx.f3 then distinct vals else vals

/-- `isinstance(P, Constant)` [`and not P.has_value()` with the repair of C17-F2] -/
def Fix.isConst (fx : Fix) (P : Sym) : Bool := P.kind = .const && (!fx.f2 || P.name = "")

/-- `isinstance(P, Constant) [and not P.has_value()] and P.type in constants` → `constants[P.type]` -/
def slot? (fx : Fix) (tbl : Tbl) (P : Sym) : Option (List String) :=
  if fx.isConst P then (AList.lookup P.ty tbl).map fx.vals else none

/-- the body of the loop over `P` for one entry `(P, v)` of the row, on the dict built so far -/
def step {ν : Type} (fx : Fix) (tbl : Tbl) (f : ν → Nat → ν) (acc : AList Sym ν) (e : Sym × ν) :
    AList Sym ν :=
  match slot? fx tbl e.1 with
  | some vals => vals.foldl (fun a val => AList.insert (Sym.const e.1.ty val) (f e.2 vals.length) a) acc
  | none => AList.insert e.1 e.2 acc

/-- `for P in d[S]: …` starting from `{}` -/
def instRow {ν : Type} (fx : Fix) (tbl : Tbl) (f : ν → Nat → ν) (row : AList Sym ν) : AList Sym ν :=
  row.foldl (step fx tbl f) []

/-- `for S in d: out[S] = {} …` (the keys of a dict are distinct, so this is a map) -/
def instRules {κ ν : Type} (fx : Fix) (tbl : Tbl) (f : ν → Nat → ν) (d : AList κ (AList Sym ν)) :
    AList κ (AList Sym ν) :=
  d.map (fun e => (e.1, instRow fx tbl f e.2))

variable {S T : Type} [DecidableEq S] [DecidableEq T]

/-- `TTCFG.instantiate_constants` (a CFG is a TTCFG): same start, `clean=False` -/
def inst (fx : Fix) (G : TT S T) (tbl : Tbl) : TT S T :=
  ⟨G.start, instRules fx tbl (fun v _ => v) G.rules⟩

/-! ### probabilistic deterministic grammars -/

/-- `tags : Dict[NT, Dict[DerivableProgram, float]]` with exact rationals -/
abbrev Tags (S T : Type) := AList (NT S T) (AList Sym Rat)

/-- `ProbDetGrammar.instantiate_constants`: `tags[S][P] / len(constants[P.type])` -/
def instTags (fx : Fix) (tags : Tags S T) (tbl : Tbl) : Tags S T :=
  instRules fx tbl (fun p n => p / (n : Rat)) tags

/-- `TaggedDetGrammar.instantiate_constants`: the tag is copied -/
def instTagsPlain {τ : Type} (fx : Fix) (tags : AList (NT S T) (AList Sym τ)) (tbl : Tbl) :
    AList (NT S T) (AList Sym τ) :=
  instRules fx tbl (fun p _ => p) tags

/-- `self.tags[S][P]` (`none` = KeyError) -/
def tag? (tags : Tags S T) (nt : NT S T) (P : Sym) : Option Rat :=
  match AList.lookup nt tags with
  | none => none
  | some row => AList.lookup P row

/-- `ProbDetGrammar.probability`: 0 outside the grammar, otherwise `reduce_derivations` with
    `current * tags[S][P]`; any exception gives 0. -/
def probability (G : TT S T) (tags : Tags S T) (p : Prog) : Rat :=
  if contains G p then
    match reduceDerivations G
        (fun (cur : Option Rat) nt P _ => match cur, tag? tags nt P with
          | some c, some w => some (c * w)
          | _, _ => none) (some 1) p with
    | some (some r) => r
    | _ => 0
  else 0

/-! ### unambiguous grammars (rule tables only; `UCFG` keeps a list of alternatives per symbol) -/

abbrev UNT (U : Type) := Ty × U
abbrev UTable (U : Type) := AList (UNT U) (AList Sym (List (List (UNT U))))
abbrev UTags (U : Type) := AList (UNT U) (AList Sym (AList (List (UNT U)) Rat))

/-- `UCFG.instantiate_constants` -/
def instU {U : Type} (fx : Fix) (R : UTable U) (tbl : Tbl) : UTable U :=
  instRules fx tbl (fun v _ => v) R

/-- `ProbUGrammar.instantiate_constants`: `{k: v / len(constants[P.type]) for k, v in …}` -/
def instUTags {U : Type} (fx : Fix) (tags : UTags U) (tbl : Tbl) : UTags U :=
  instRules fx tbl (fun d n => d.map (fun kv => (kv.1, kv.2 / (n : Rat)))) tags

/-! ### program side -/

/-- `Constant.all_constants_instantiation` / `Program.all_constants_instantiation` on a
    symbol: a Constant yields `Constant(type, val)` for `val in constants[type]` (KeyError =
    `none` when the type is not a key), anything else yields itself.
    With the repair of C17-F2 a constant that has a value yields itself; with the repair of
    C17-F4 so does a constant whose type is not a key; with the repair of C17-F3 the values are
    made distinct. -/
def allInstSym (fx : Fix) (tbl : Tbl) (P : Sym) : Option (List Sym) :=
  if P.kind = .const then
    if fx.isConst P then
      match AList.lookup P.ty tbl with
      | none => if fx.f4 then some [P] else none
      | some vals => some ((fx.vals vals).map (fun v => Sym.const P.ty v))
    else some [P]
  else some [P]

/-- `Option` sequencing of a list -/
def seqOpt {α : Type} : List (Option α) → Option (List α)
  | [] => some []
  | none :: _ => none
  | some x :: r => match seqOpt r with
    | none => none
    | some xs => some (x :: xs)

/- `Function.all_constants_instantiation` (program.py:311-320):
      for f in self.function.all_constants_instantiation(constants):
          possibles = [list(arg.all_constants_instantiation(constants)) for arg in self.arguments]
          for args in itertools.product(*possibles): yield Function(f, list(args))
   (`none` = the KeyError of a constant whose type is not in the table; with an empty list of
   heads the arguments are never visited, so no KeyError can come from them). -/
mutual
  def allInst (fx : Fix) (tbl : Tbl) : Prog → Option (List Prog)
    | .node f kids =>
      match allInstSym fx tbl f with
      | none => none
      | some [] => some []
      | some (h :: hs) =>
        match allInstList fx tbl kids with
        | none => none
        | some poss => some ((h :: hs).flatMap (fun f' => (product poss).map (fun ks => Tree.node f' ks)))
  def allInstList (fx : Fix) (tbl : Tbl) : List Prog → Option (List (List Prog))
    | [] => some []
    | k :: ks =>
      match allInst fx tbl k, allInstList fx tbl ks with
      | some l, some ls => some (l :: ls)
      | _, _ => none
end

/-! ### specification (independent of the code, hence of `Fix`) -/

/-- a constant slot of the table: a constant without value whose type is a key -/
def isSlot (tbl : Tbl) (P : Sym) : Bool :=
  P.kind = .const && P.name = "" && AList.contains P.ty tbl

/-- `f'` is an instantiation of the symbol `f`: a slot is replaced by one of the values of its
    type, anything else is unchanged -/
def symInst (tbl : Tbl) (f f' : Sym) : Bool :=
  if isSlot tbl f then
    match AList.lookup f.ty tbl with
    | some vals => vals.any (fun v => f' = Sym.const f.ty v)
    | none => false
  else f' = f

/- **Specification**: `t'` is an instantiation of the template `t` — same shape, every
   symbol instantiated independently. -/
mutual
  def isInst (tbl : Tbl) : Prog → Prog → Bool
    | .node f kids, .node f' kids' => symInst tbl f f' && isInstList tbl kids kids'
  def isInstList (tbl : Tbl) : List Prog → List Prog → Bool
    | [], [] => true
    | k :: ks, k' :: ks' => isInst tbl k k' && isInstList tbl ks ks'
    | _, _ => false
end

/-- the template of an instantiated symbol: a constant whose value is listed in the table for its
    type goes back to the slot (this is the inverse of `symInst` on the symbols of a grammar that
    satisfies `rulesOK`: there no constant of the grammar has a listed value) -/
def templSym (tbl : Tbl) (f' : Sym) : Sym :=
  if f'.kind = .const then
    match AList.lookup f'.ty tbl with
    | some vals => if vals.contains f'.name then Sym.const f'.ty "" else f'
    | none => f'
  else f'

mutual
  def templ (tbl : Tbl) : Prog → Prog
    | .node f kids => .node (templSym tbl f) (templList tbl kids)
  def templList (tbl : Tbl) : List Prog → List Prog
    | [] => []
    | k :: ks => templ tbl k :: templList tbl ks
end

/- **Specification of the probability** of a term in a probabilistic CFG: the product of the
   weights of the rules of its top-down derivation, 0 when there is none. -/
mutual
  def prob (G : TT S Unit) (tags : Tags S Unit) : Prog → NT S Unit → Rat
    | .node f kids, nt =>
      match G.rule? nt f with
      | none => 0
      | some (args, _) => (tag? tags nt f).getD 0 * probList G tags kids args
  def probList (G : TT S Unit) (tags : Tags S Unit) : List Prog → List (Ty × S) → Rat
    | [], [] => 1
    | k :: ks, (t, s) :: as => prob G tags k (t, (s, ())) * probList G tags ks as
    | _, _ => 0
end

/-- sum of a list of rationals -/
def rsum : List Rat → Rat
  | [] => 0
  | x :: xs => x + rsum xs

/-- every row of weights sums to 1 -/
def Normalised {κ : Type} (tags : AList κ (AList Sym Rat)) : Prop :=
  ∀ e ∈ tags, rsum (AList.values e.2) = 1

def normalisedB {κ : Type} (tags : AList κ (AList Sym Rat)) : Bool :=
  tags.all (fun e => rsum (AList.values e.2) = 1)

/-- the sums of the rows, in dict order -/
def rowSumsOf {κ : Type} (tags : AList κ (AList Sym Rat)) : List Rat :=
  tags.map (fun e => rsum (AList.values e.2))

/-- total weight of a row of a probabilistic unambiguous grammar -/
def uRowSum {κ : Type} (row : AList Sym (AList κ Rat)) : Rat :=
  rsum (row.map fun e => rsum (AList.values e.2))

/-- every row of a probabilistic unambiguous grammar sums to 1 -/
def NormalisedU {U : Type} (tags : UTags U) : Prop :=
  ∀ e ∈ tags, uRowSum e.2 = 1

/-! ### hypotheses (all decidable)

  `rulesOK fx` / `rulesNonEmpty fx` / `progOK fx` are the hypotheses of the `_partial` theorems,
  for the code with the repairs `fx`.  Their clauses are the classifiers of the findings that are
  NOT repaired in `fx`, plus well-formedness of the encoding and of the input:

    clause                                      needed when          otherwise
    ------------------------------------------  -------------------  ------------------------------
    keys of a row distinct                      always               (a row is a Python dict)
    a key the code instantiates is the bare     ¬ f2                 C17-F2 (with f2 it only says
      slot `Sym.const ty ""`                                         that the unused index field is 0)
    its value list is duplicate free            ¬ f3                 C17-F3 (with f3: by construction)
    "" is not a value                           always               encoding ("" = no value)
    a constant the code leaves alone does not   f2                   two templates would have a
      carry a value listed for its type                              common instantiation (with ¬ f2
                                                                     no such constant exists)
    no slot has an empty value list             always (mass only)   C17-F1
    program side: a constant has no value       ¬ f2                 C17-F2
    program side: its type is a key             ¬ f4                 C17-F4
-/

/-- the values of a type are pairwise distinct (as `Constant`s) and are values (not the
    "no value" marker) -/
def valsOK (vals : List String) : Bool := vals.Nodup && !(vals.contains "")

/-- one key of a row: see the table above -/
def keyOK (fx : Fix) (tbl : Tbl) (P : Sym) : Bool :=
  match slot? fx tbl P with
  | some vals => P = Sym.const P.ty "" && valsOK vals
  | none => !(P.kind = .const) || match AList.lookup P.ty tbl with
      | some vals => !(vals.contains P.name)
      | none => true

/-- a row is a Python dict (distinct keys) whose keys are `keyOK` -/
def rowOK {ν : Type} (fx : Fix) (tbl : Tbl) (row : AList Sym ν) : Bool :=
  (AList.keys row).Nodup && (AList.keys row).all (keyOK fx tbl)

def rulesOK {κ ν : Type} (fx : Fix) (tbl : Tbl) (d : AList κ (AList Sym ν)) : Bool :=
  d.all (fun e => rowOK fx tbl e.2)

/-- no slot of the row has an empty value list (finding C17-F1 otherwise) -/
def rowNonEmpty {ν : Type} (fx : Fix) (tbl : Tbl) (row : AList Sym ν) : Bool :=
  (AList.keys row).all (fun P => match slot? fx tbl P with
    | some [] => false
    | _ => true)

def rulesNonEmpty {κ ν : Type} (fx : Fix) (tbl : Tbl) (d : AList κ (AList Sym ν)) : Bool :=
  d.all (fun e => rowNonEmpty fx tbl e.2)

/-- program side: a constant of the template has no value (finding C17-F2 otherwise, unless
    repaired), its type is a key of the table (finding C17-F4 otherwise, unless repaired) and its
    values are duplicate free (finding C17-F3 otherwise, unless repaired) -/
def symOK (fx : Fix) (tbl : Tbl) (P : Sym) : Bool :=
  !(P.kind = .const) ||
    (if P.name = "" then
      match AList.lookup P.ty tbl with
      | some vals => (fx.vals vals).Nodup
      | none => fx.f4
    else fx.f2)

mutual
  def progOK (fx : Fix) (tbl : Tbl) : Prog → Bool
    | .node f kids => symOK fx tbl f && progOKList fx tbl kids
  def progOKList (fx : Fix) (tbl : Tbl) : List Prog → Bool
    | [] => true
    | k :: ks => progOK fx tbl k && progOKList fx tbl ks
end

/-! #### what is left of the hypotheses for the repaired code (no clause of a finding)

  With the repairs the code looks only at the slots (constants without value) and at the entries
  of the table for the types of these slots: `restrict (slotTys d) tbl`.  What is left to assume is
  that the input is well formed: rows are dicts, "" is not a value, and no constant of the grammar
  already carries a value that the table lists for a type which still has a slot in the grammar
  (otherwise two templates of the grammar — `<int>` and `5` — have a common instantiation and
  "each instantiation is obtained exactly once" cannot hold for any implementation). -/

/-- a slot of the grammar: a constant without value -/
def slotLike (P : Sym) : Bool := P.kind = .const && P.name = ""

/-- the types of the slots of the rows -/
def slotTys {κ ν : Type} (d : AList κ (AList Sym ν)) : List Ty :=
  d.flatMap (fun e => ((AList.keys e.2).filter slotLike).map (·.ty))

/-- the entries of the table for the types `ts` -/
def restrict (ts : List Ty) (tbl : Tbl) : Tbl := tbl.filter (fun e => decide (e.1 ∈ ts))

/-- a constant of a table type is `Sym.const ty name` (index field 0), its value is not listed
    for its type (for a slot: "" is not a value) -/
def keyWF (tbl : Tbl) (P : Sym) : Bool :=
  !(P.kind = .const) || match AList.lookup P.ty tbl with
    | some vals => P = Sym.const P.ty P.name && !(vals.contains P.name) && !(vals.contains "")
    | none => true

def rowWF {ν : Type} (tbl : Tbl) (row : AList Sym ν) : Bool :=
  (AList.keys row).Nodup && (AList.keys row).all (keyWF tbl)

/-- the rows are dicts and no constant of the rows carries a value that `tbl` lists for its type -/
def rulesWF {κ ν : Type} (tbl : Tbl) (d : AList κ (AList Sym ν)) : Bool :=
  d.all (fun e => rowWF tbl e.2)

/-- **hypothesis on a grammar for the repaired code**: `rulesWF` for the part of the table that
    matters — the entries of the types that have a slot in the grammar -/
def grammarWF {κ ν : Type} (tbl : Tbl) (d : AList κ (AList Sym ν)) : Bool :=
  rulesWF (restrict (slotTys d) tbl) d

/-- **hypothesis on the tags of a probabilistic grammar with rule table `d`**: the tags have no
    slot type that the rules do not have, and are well formed for the same part of the table -/
def tagsWF {κ ν κ' ν' : Type} (tbl : Tbl) (d : AList κ (AList Sym ν)) (tags : AList κ' (AList Sym ν')) : Bool :=
  (slotTys tags).all (fun t => decide (t ∈ slotTys d)) && rulesWF (restrict (slotTys d) tbl) tags

/-- no slot of the grammar has an empty value list (finding C17-F1 otherwise) -/
def slotsNonEmpty {κ ν : Type} (tbl : Tbl) (d : AList κ (AList Sym ν)) : Bool :=
  rulesNonEmpty Fix.repaired tbl d

end PS.IC
