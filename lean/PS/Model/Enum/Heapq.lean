/-
  Literal port of CPython's `heapq` (Modules/_heapqmodule.c, the accelerator that
  `from heapq import heappush, heappop` binds; Lib/heapq.py is the same algorithm with a
  "hole" instead of swaps and performs the same comparisons in the same order):

    siftdown(heap, startpos, pos):  while pos > startpos: parent = (pos-1)>>1;
                                      if not (heap[pos] < heap[parent]) break; swap; pos = parent
    siftup(heap, pos):              limit = len>>1; while pos < limit: child = 2*pos+1;
                                      if child+1 < len and not (heap[child] < heap[child+1]): child += 1
                                      swap(child, pos); pos = child
                                    siftdown(heap, startpos, pos)
    heappush(heap, x):              append; siftdown(heap, 0, len-1)
    heappop(heap):                  last = heap.pop(); if heap empty: return last
                                    ret = heap[0]; heap[0] = last; siftup(heap, 0); return ret

  Only `lt` ( Python `<` ) is used, so the pop order under ties is the implementation's.
  The heap is a `List α` (index 0 = root).  Core Lean only.
-/
namespace PS.Heapq
variable {α : Type}

/-- exchange positions `i` and `j` (no effect when one is out of range) -/
def swap (h : List α) (i j : Nat) : List α :=
  match h[i]?, h[j]? with
  | some a, some b => (h.set i b).set j a
  | _, _ => h

/-- `h[i] < h[j]` (false when out of range) -/
def ltAt (lt : α → α → Bool) (h : List α) (i j : Nat) : Bool :=
  match h[i]?, h[j]? with
  | some a, some b => lt a b
  | _, _ => false

/-- `siftdown(heap, 0, pos)`; the fuel is an upper bound of the number of iterations
    (`pos` itself is enough: the position at least halves). -/
def siftdown (lt : α → α → Bool) : Nat → List α → Nat → List α
  | 0, h, _ => h
  | fuel + 1, h, pos =>
    if pos = 0 then h else
    let parent := (pos - 1) / 2
    if ltAt lt h pos parent then siftdown lt fuel (swap h pos parent) parent else h

/-- the first loop of `siftup(heap, pos)`: bubble the smaller child up until a leaf is hit;
    returns the heap and the final position -/
def bubble (lt : α → α → Bool) : Nat → List α → Nat → List α × Nat
  | 0, h, pos => (h, pos)
  | fuel + 1, h, pos =>
    if pos < h.length / 2 then
      let child := 2 * pos + 1
      let child := if child + 1 < h.length ∧ ¬ ltAt lt h child (child + 1) then child + 1 else child
      bubble lt fuel (swap h child pos) child
    else (h, pos)

/-- `siftup(heap, 0)` -/
def siftup (lt : α → α → Bool) (h : List α) : List α :=
  let r := bubble lt h.length h 0
  siftdown lt (r.2 + 1) r.1 r.2

/-- `heappush(heap, x)` -/
def push (lt : α → α → Bool) (h : List α) (x : α) : List α :=
  siftdown lt (h.length + 1) (h ++ [x]) h.length

/-- `heappop(heap)`; `none` is the `IndexError` of an empty heap -/
def pop (lt : α → α → Bool) (h : List α) : Option (α × List α) :=
  match h.getLast? with
  | none => none
  | some last =>
    match h.dropLast with
    | [] => some (last, [])
    | top :: rest => some (top, siftup lt (last :: rest))

end PS.Heapq
