/-
  Specification side of beap search: the minimal cost of every non-terminal by value iteration
  (no heap, no placeholder, no depth-first initialisation).  Core Lean only.
-/
import PS.Model.Enum.BeapSearch
namespace PS.Beap
open PS PS.G
variable {S : Type} [DecidableEq S]

/-- a table of "best cost known so far" (`none` = no program known) -/
abbrev MinTbl (S : Type) := AList (NT S Unit) (Option Rat)

def optMin : Option Rat → Option Rat → Option Rat
  | none, b => b
  | a, none => a
  | some a, some b => if b < a then some b else some a

/-- cost of the best program built with rule `r` on top of the best known arguments -/
def ruleBest (tbl : MinTbl S) (w : Rat) : List (Ty × S) → Option Rat
  | [] => some w
  | a :: as =>
    match (AList.lookup (ntOf a) tbl).getD none, ruleBest tbl w as with
    | some c, some d => some (c + d)
    | _, _ => none

/-- one round of value iteration (all non-terminals at once) -/
def bfPass (E : Env S) (tbl : MinTbl S) : MinTbl S :=
  E.G.rules.map fun r => (r.1, r.2.foldl (fun best rl =>
    match ruleW E r.1 rl.1 with
    | none => best
    | some w => optMin best (ruleBest tbl w rl.2.1)) none)

def bfIter (E : Env S) : Nat → MinTbl S → MinTbl S
  | 0, t => t
  | k + 1, t => bfIter E k (bfPass E t)

/-- minimal cost of a program of every non-terminal: `|non-terminals|` rounds from "nothing known"
    (enough when the rule costs are non-negative: a cheapest program needs no non-terminal twice
    on a branch) -/
def minCostSpec (E : Env S) : MinTbl S := bfIter E E.G.rules.length (E.G.rules.map fun r => (r.1, none))

/-- the first entry of every initialised cost list is the specified minimal cost -/
def minCostOK (E : Env S) (s : St S) : Bool :=
  (AList.keys E.G.rules).all fun nt =>
    match s.clOf nt with
    | [] => true
    | c :: _ =>
      match (AList.lookup nt (minCostSpec E)).getD none with
      | none => decide (c.inf ≠ 0)
      | some m => decide (c = Cost.ofRat m)

/-- Boolean form of the fixpoint condition `Stable` of the minimal-cost theorem
    (PS/Proofs/Enum/BeapMin.lean): recomputing the cost of any queued derivation changes nothing -/
def stableB (E : Env S) (s : St S) : Bool :=
  (AList.keys E.G.rules).all fun nt => (s.queueOf nt).all fun el =>
    match recost E s nt el with
    | none => false
    | some el' => decide (el'.cost = el.cost)

/- a program all of whose sub-programs (itself included) the filter accepts: what C03 / C12 call "all of whose
    sub-programs are accepted" -/
mutual
  def clean (f : Prog → Bool) : Prog → Bool
    | .node F kids => f (.node F kids) && cleanList f kids
  def cleanList (f : Prog → Bool) : List Prog → Bool
    | [] => true
    | k :: ks => clean f k && cleanList f ks
end

/-- a cost list without placeholder whose finite parts are non-decreasing (Boolean): the hypothesis of the
    order theorem C03_Beap_order_partial, evaluated on the final `_cost_lists[start]` of every case -/
def sortedB : List Cost → Bool
  | [] => true
  | x :: xs => xs.all (fun y => decide (x.fin ≤ y.fin)) && sortedB xs

end PS.Beap
