/-
  Constant-delay search: synth/syntax/grammars/enumeration/constant_delay.py (Derivation, CDSearch),
  transcribed as a resumable machine over the queue model of PS/Model/Enum/CDQueue.lean.

  * the grammar is context-free (`assert isinstance(G.grammar, CFG)`): non-terminals, symbols and
    types are numbered by Python equality by the harness; `G.rules[S][P]` = argument non-terminals,
    `G.probabilities[S][P]` = an INTEGER cost (what `enumerate_prob_grammar` hands over:
    `-int(np.log(p) * 1 / precision)`, trusted float expression, computed by the harness with the
    implementation's own expression).
  * dict → `AList` (insertion ordered), set → list without duplicates, `heapq` → the literal port
    PS/Model/Enum/Heapq.lean (+ `heapify` here), numbers → `Arith α` (see CDQueue.lean).
  * ALIASING.  `_query_list_` returns the list object `_bank_nt[S][ci]` itself and
    `query_derivation` stores it in `_bank_derivation`; `merge_program` later removes programs from
    that very list, and `itertools.product` snapshots its pools when it is created.  The model stores
    the reference `(S, ci)` and resolves it when the product is created.  A fresh `[]` returned by
    `_query_list_` is `none`.
  * `query(S, ci)` is a Python generator.  Only the top-level `query(start, n)` of `generator()` is
    consumed lazily; its suspended state is the `Frame`.  Inner queries are run to completion
    (`for x in self.query(S, ci): pass`): `runQuery` drives the same `resume` function.
  * recursion through `query ↔ query_derivation ↔ _query_list_` and
    `_init_non_terminal_ ↔ _init_derivation_`: structural recursion on a fuel argument; `none` = fuel
    exhausted or an uncaught exception of the Python code.
  Core Lean only.
-/
import PS.Basic
import PS.Model.Tree
import PS.Model.Enum.Heapq
import PS.Model.Enum.CDQueue
namespace PS.CD
open PS

abbrev NT := Nat
abbrev Sym := Nat
abbrev Prog := Tree Nat
/-- a stored pool of programs: `none` = a fresh empty list, `some (S, ci)` = `_bank_nt[S][ci]` -/
abbrev Ref := Option (NT × Nat)

structure Gram where
  start : NT
  /-- `G.rules[S][P]` (argument non-terminals) and `G.probabilities[S][P]` (integer cost) -/
  rules : AList NT (AList Sym (List NT × Int))
  /-- `S[0]`, the type of the non-terminal, as a number -/
  ty : AList NT Nat

def Gram.rule? (G : Gram) (S : NT) (P : Sym) : Option (List NT × Int) :=
  match AList.lookup S G.rules with
  | none => none
  | some rs => AList.lookup P rs

variable {α : Type}

structure Env (α : Type) where
  A : Arith α
  G : Gram
  /-- the parameter `k` of `CDSearch` -/
  k : Nat
  /-- `self.filter.accept` (always `true` when no filter is installed) -/
  filter : Prog → Bool
  /-- `false`: the code without the `assert` of `CDQueue.push` (`python -O`) -/
  asserts : Bool := true
  /-- `false`: the code as it is, `CDQueue(int(self.M), k)`; `true`: after the proposed fix C02-F4,
      `CDQueue(max(1, int(self.M)), k)` -/
  fixM : Bool := false

/-- `Derivation` (constant_delay.py:33-40): `P` is excluded from comparisons -/
structure Deriv (α : Type) where
  cost : α
  comb : Nat
  P : Sym

/-- `Derivation.__lt__`: tuple comparison of `(cost, combination)` -/
def ltD (A : Arith α) (a b : Deriv α) : Bool :=
  if A.eq a.cost b.cost then decide (a.comb < b.comb) else A.lt a.cost b.cost

/-- `Derivation.__eq__` -/
def eqD (A : Arith α) (a b : Deriv α) : Bool := A.eq a.cost b.cost && a.comb == b.comb

/-- the tables of `CDSearch` (constant_delay.py:57, 81-93) -/
structure St (α : Type) where
  queueNt : AList NT (List (Deriv α)) := []
  queueDer : AList (List NT) (Q α) := []
  bankNt : AList NT (AList Nat (List Prog)) := []
  bankDer : AList (List NT) (AList Nat (List (List Ref))) := []
  costNt : AList NT (List α) := []
  costDer : AList (List NT) (List α) := []
  emptiesNt : AList NT (List Nat) := []
  emptiesDer : AList (List NT) (List Nat) := []
  deleted : List Prog := []
  failedByEmpties : Bool := false

namespace St
def setHeap (s : St α) (S : NT) (h : List (Deriv α)) : St α := { s with queueNt := AList.insert S h s.queueNt }
def setQueueDer (s : St α) (a : List NT) (q : Q α) : St α := { s with queueDer := AList.insert a q s.queueDer }
def setCostNt (s : St α) (S : NT) (l : List α) : St α := { s with costNt := AList.insert S l s.costNt }
def setCostDer (s : St α) (a : List NT) (l : List α) : St α := { s with costDer := AList.insert a l s.costDer }
/-- `self.deleted.add(p)` -/
def addDeleted (s : St α) (p : Prog) : St α :=
  if s.deleted.contains p then s else { s with deleted := s.deleted ++ [p] }
/-- what a stored pool holds now -/
def resolve (s : St α) : Ref → List Prog
  | none => []
  | some (S, ci) => ((AList.lookup S s.bankNt).bind (AList.lookup ci)).getD []
/-- `bank[cost_index].append(p)` for `bank = _bank_nt[S]` -/
def appendBank (s : St α) (S : NT) (ci : Nat) (p : Prog) : Option (St α) :=
  match AList.lookup S s.bankNt with
  | none => none
  | some b =>
    match AList.lookup ci b with
    | none => none
    | some l => some { s with bankNt := AList.insert S (AList.insert ci (l ++ [p]) b) s.bankNt }
/-- `if cost_index not in bank: bank[cost_index] = []` -/
def ensureBank (s : St α) (S : NT) (ci : Nat) : Option (St α) :=
  match AList.lookup S s.bankNt with
  | none => none
  | some b =>
    if (AList.lookup ci b).isSome then some s
    else some { s with bankNt := AList.insert S (AList.insert ci [] b) s.bankNt }
end St

/-- `set.add` on a list without duplicates -/
def setAdd (l : List Nat) (x : Nat) : List Nat := if l.contains x then l else l ++ [x]

/-! ### `__init__` (constant_delay.py:47-110) -/

def maxInt : List Int → Option Int
  | [] => none
  | x :: xs => some (xs.foldl max x)
def minInt : List Int → Option Int
  | [] => none
  | x :: xs => some (xs.foldl min x)

/-- `int(self.M)` with `M = basic_M * (max arity + 1.0) * len(G.rules)`; `none` = `max()` of an
    empty sequence -/
def bigM (G : Gram) : Option Int :=
  let costs := G.rules.flatMap fun r => r.2.map fun p => p.2.2
  let ars := G.rules.flatMap fun r => r.2.map fun p => (p.2.1.length : Int)
  match maxInt costs, minInt costs, maxInt ars with
  | some mx, some mn, some ar => some ((mx - mn) * (ar + 1) * (G.rules.length : Int))
  | _, _, _ => none

/-- the loop over `P` creating the derivation tables (constant_delay.py:104-110) -/
def initDerTables (A : Arith α) (M : Int) (k : Nat) : List (Sym × (List NT × Int)) → St α → Option (St α)
  | [], s => some s
  | (_, (args, _)) :: rest, s =>
    if args.isEmpty || (AList.lookup args s.queueDer).isSome then initDerTables A M k rest s else
    match Q.new A M k with
    | none => none
    | some q =>
      initDerTables A M k rest
        { s with queueDer := AList.insert args q s.queueDer, bankDer := AList.insert args [] s.bankDer,
                 costDer := AList.insert args [] s.costDer, emptiesDer := AList.insert args [] s.emptiesDer }

def initTables (A : Arith α) (M : Int) (k : Nat) : List (NT × AList Sym (List NT × Int)) → St α → Option (St α)
  | [], s => some s
  | (S, rs) :: rest, s =>
    let s1 : St α := { s with queueNt := AList.insert S [] s.queueNt, costNt := AList.insert S [] s.costNt,
                              bankNt := AList.insert S [] s.bankNt, emptiesNt := AList.insert S [] s.emptiesNt }
    match initDerTables A M k rs s1 with
    | none => none
    | some s2 => initTables A M k rest s2

/-- the state after `CDSearch.__init__` -/
def St.init (E : Env α) : Option (St α) :=
  match bigM E.G with
  | none => none
  | some M => initTables E.A (if E.fixM then max 1 M else M) E.k E.G.rules {}

/-! ### `_init_non_terminal_` / `_init_derivation_` (constant_delay.py:124-154) -/

def heads (s : St α) (S : NT) : Option (Deriv α) :=
  match AList.lookup S s.queueNt with
  | some (d :: _) => some d
  | _ => none

mutual
  def initNT (E : Env α) : Nat → St α → NT → Option (St α)
    | 0, _, _ => none
    | f + 1, s, S =>
      match AList.lookup S s.costNt with
      | none => none
      | some cl =>
        if cl.length > 0 then some s else
        match AList.lookup S E.G.rules with
        | none => none
        | some rs =>
          match initRules E f (s.setCostNt S [E.A.big]) S rs with
          | none => none
          | some s2 =>
            match heads s2 S, AList.lookup S s2.costNt with
            | some d, some cl2 => some (s2.setCostNt S (cl2.set 0 d.cost))
            | _, _ => none
  def initRules (E : Env α) : Nat → St α → NT → List (Sym × (List NT × Int)) → Option (St α)
    | 0, _, _, _ => none
    | _ + 1, s, _, [] => some s
    | f + 1, s, S, (P, (args, w)) :: rest =>
      let r : Option (St α × α) :=
        if args.isEmpty then some (s, E.A.ofInt 0) else
        match initDer E f s args with
        | none => none
        | some s1 =>
          match AList.lookup args s1.costDer with
          | some (c :: _) => some (s1, c)
          | _ => none
      match r with
      | none => none
      | some (s1, base) =>
        match AList.lookup S s1.queueNt with
        | none => none
        | some h =>
          initRules E f (s1.setHeap S (Heapq.push (ltD E.A) h ⟨E.A.add base (E.A.ofInt w), 0, P⟩)) S rest
  def initDer (E : Env α) : Nat → St α → List NT → Option (St α)
    | 0, _, _ => none
    | f + 1, s, args =>
      match AList.lookup args s.costDer with
      | none => none
      | some cl =>
        if cl.length > 0 then some s else
        match initArgs E f (s.setCostDer args [E.A.big]) args (E.A.ofInt 0) with
        | none => none
        | some (s2, cost) =>
          match AList.lookup args s2.queueDer with
          | none => none
          | some q =>
            match q.push E.A ⟨cost, [List.replicate args.length 0]⟩ E.asserts with
            | none => none
            | some q1 =>
              match q1.update E.A with
              | none => none
              | some q2 =>
                match q2.peek, AList.lookup args s2.costDer with
                | some pk, some cl2 => some ((s2.setQueueDer args q2).setCostDer args (cl2.set 0 pk.cost))
                | _, _ => none
  def initArgs (E : Env α) : Nat → St α → List NT → α → Option (St α × α)
    | 0, _, _, _ => none
    | _ + 1, s, [], c => some (s, c)
    | f + 1, s, Si :: rest, c =>
      match initNT E f s Si with
      | none => none
      | some s1 =>
        match AList.lookup Si s1.costNt with
        | some (c0 :: _) => initArgs E f s1 rest (E.A.add c c0)
        | _ => none
end

/-! ### `_reevaluate_` (constant_delay.py:156-196) -/

/-- `CostTuple.__lt__`: tuple comparison of `(cost, combinations)` -/
def ltList : List Nat → List Nat → Bool
  | [], [] => false
  | [], _ :: _ => true
  | _ :: _, [] => false
  | a :: as, b :: bs => if a = b then ltList as bs else decide (a < b)
def ltLists : List (List Nat) → List (List Nat) → Bool
  | [], [] => false
  | [], _ :: _ => true
  | _ :: _, [] => false
  | a :: as, b :: bs => if a = b then ltLists as bs else ltList a b
def ltCT (A : Arith α) (a b : CT α) : Bool :=
  if A.eq a.cost b.cost then ltLists a.combs b.combs else A.lt a.cost b.cost

/-- `sorted(elems)` (stable) -/
def insertCT (A : Arith α) (x : CT α) : List (CT α) → List (CT α)
  | [] => [x]
  | y :: ys => if ltCT A x y then x :: y :: ys else y :: insertCT A x ys
def sortCT (A : Arith α) (l : List (CT α)) : List (CT α) := l.foldl (fun acc x => insertCT A x acc) []

/-- `while not queue.is_empty(): elems.append(f(queue.pop()))` -/
def popAll (q : Q α) : Nat → List (CT α) → Option (List (CT α) × Q α)
  | 0, _ => none
  | f + 1, acc =>
    if q.isEmpty then some (acc, q) else
    match q.pop with
    | none => none
    | some (ct, q') => popAll q' f (acc ++ [ct])

def pushAll (A : Arith α) (asserts : Bool) : List (CT α) → Q α → Option (Q α)
  | [], q => some q
  | e :: es, q =>
    match q.push A e asserts with
    | none => none
    | some q' => pushAll A asserts es q'

/-- `sum(self._queue_nt[Si][0].cost for Si in args)`; `none` = IndexError -/
def sumHeads (A : Arith α) (s : St α) : List NT → α → Option α
  | [], acc => some acc
  | Si :: rest, acc =>
    match heads s Si with
    | none => none
    | some d => sumHeads A s rest (A.add acc d.cost)

/-- `_reevaluate_derivation_` for a non-empty `args` -/
def reevalDer (A : Arith α) (asserts : Bool) (s : St α) (args : List NT) : Option (St α) :=
  if args.isEmpty then some s else
  match AList.lookup args s.queueDer with
  | none => none
  | some q =>
    match popAll q (q.nelements + 1) [] with
    | none => none
    | some (popped, q1) =>
      let elems? : Option (List (CT α)) :=
        if popped.isEmpty then some [] else
        match sumHeads A s args (A.ofInt 0) with
        | none => none
        | some c => some (popped.map fun e => ⟨c, e.combs⟩)
      match elems? with
      | none => none
      | some elems =>
        match pushAll A asserts (sortCT A elems).reverse q1.clear with
        | none => none
        | some q2 =>
          match q2.peek, AList.lookup args s.costDer with
          | some pk, some cl =>
            if cl.isEmpty then none else
            some ((s.setQueueDer args q2).setCostDer args (cl.set 0 pk.cost))
          | _, _ => none

def reevalDers (A : Arith α) (asserts : Bool) : List (Sym × (List NT × Int)) → St α → Option (St α)
  | [], s => some s
  | (_, (args, _)) :: rest, s =>
    match reevalDer A asserts s args with
    | none => none
    | some s1 => reevalDers A asserts rest s1

/-- `siftdown(heap, startpos, pos)` of CPython's heapq with an arbitrary `startpos` -/
def siftdownFrom (lt : α → α → Bool) (startpos : Nat) : Nat → List α → Nat → List α
  | 0, h, _ => h
  | fuel + 1, h, pos =>
    if pos ≤ startpos then h else
    let parent := (pos - 1) / 2
    if Heapq.ltAt lt h pos parent then siftdownFrom lt startpos fuel (Heapq.swap h pos parent) parent else h

/-- `siftup(heap, pos)` -/
def siftupAt (lt : α → α → Bool) (h : List α) (pos : Nat) : List α :=
  let r := Heapq.bubble lt h.length h pos
  siftdownFrom lt pos (r.2 + 1) r.1 r.2

/-- `heapify(x)`: `for i in reversed(range(n // 2)): siftup(x, i)` -/
def heapify (lt : α → α → Bool) (h : List α) : List α :=
  (List.range (h.length / 2)).reverse.foldl (fun acc i => siftupAt lt acc i) h

/-- `_peek_next_derivation_cost_(S, P)` given `args`; `none` = `None.cost` -/
def peekNext (A : Arith α) (s : St α) (args : List NT) : Option α :=
  if args.isEmpty then some (A.ofInt 0) else
  match AList.lookup args s.queueDer with
  | none => none
  | some q => q.peek.map (·.cost)

def newQueue (E : Env α) (s : St α) (S : NT) : List (Deriv α) → Option (List (Deriv α))
  | [] => some []
  | el :: rest =>
    match E.G.rule? S el.P with
    | none => none
    | some (args, w) =>
      match peekNext E.A s args, newQueue E s S rest with
      | some pk, some r => some (⟨E.A.add (E.A.ofInt w) pk, el.comb, el.P⟩ :: r)
      | _, _ => none

def eqQueue (A : Arith α) : List (Deriv α) → List (Deriv α) → Bool
  | [], [] => true
  | a :: as, b :: bs => eqD A a b && eqQueue A as bs
  | _, _ => false

/-- one pass `for S in list(self._queue_nt.keys())` -/
def reevalPass (E : Env α) : List (NT × AList Sym (List NT × Int)) → St α → Bool → Option (St α × Bool)
  | [], s, ch => some (s, ch)
  | (S, rs) :: rest, s, ch =>
    match reevalDers E.A E.asserts rs s with
    | none => none
    | some s1 =>
      match AList.lookup S s1.queueNt with
      | none => none
      | some h =>
        match newQueue E s1 S h with
        | none => none
        | some nq =>
          if eqQueue E.A nq h then reevalPass E rest s1 ch else
          let nh := heapify (ltD E.A) nq
          match nh, AList.lookup S s1.costNt with
          | d :: _, some cl =>
            if cl.isEmpty then none else
            reevalPass E rest ((s1.setHeap S nh).setCostNt S (cl.set 0 d.cost)) true
          | _, _ => none

def reevaluate (E : Env α) : Nat → St α → Option (St α)
  | 0, _ => none
  | f + 1, s =>
    match reevalPass E E.G.rules s false with
    | none => none
    | some (s1, true) => reevaluate E f s1
    | some (s1, false) => some s1

/-! ### `__compute_bounds__` (constant_delay.py:198-232) -/

def extreme (lt : α → α → Bool) : List α → Option α
  | [] => none
  | x :: xs => some (xs.foldl (fun m y => if lt y m then y else m) x)

/-- `values[S] = int(diff[S][-1] - diff[S][0])` -/
def initValues (A : Arith α) (s : St α) : List NT → Option (AList NT Int)
  | [] => some []
  | S :: rest =>
    match AList.lookup S s.queueNt with
    | none => none
    | some h =>
      let cs := h.map (·.cost)
      match extreme (fun a b => A.lt b a) cs, extreme A.lt cs, initValues A s rest with
      | some mx, some mn, some r => some ((S, A.trunc (A.sub mx mn)) :: r)
      | _, _, _ => none

/-- `max((values[arg] for arg in args), default=0)`; `none` = KeyError -/
def maxValues (values : AList NT Int) : List NT → Option Int
  | [] => some 0
  | [a] => AList.lookup a values
  | a :: rest =>
    match AList.lookup a values, maxValues values rest with
    | some v, some m => some (max v m)
    | _, _ => none

def boundsRow (S : NT) : List (Sym × (List NT × Int)) → AList NT Int → Bool → Option (AList NT Int × Bool)
  | [], v, ch => some (v, ch)
  | (_, (args, _)) :: rest, v, ch =>
    match maxValues v args, AList.lookup S v with
    | some m, some vs => if m > vs then boundsRow S rest (AList.insert S m v) true else boundsRow S rest v ch
    | _, _ => none

def boundsPass : List (NT × AList Sym (List NT × Int)) → AList NT Int → Bool → Option (AList NT Int × Bool)
  | [], v, ch => some (v, ch)
  | (S, rs) :: rest, v, ch =>
    match boundsRow S rs v ch with
    | none => none
    | some (v1, ch1) => boundsPass rest v1 ch1

def boundsFix (G : Gram) : Nat → AList NT Int → Option (AList NT Int)
  | 0, _ => none
  | f + 1, v =>
    match boundsPass G.rules v false with
    | none => none
    | some (v1, true) => boundsFix G f v1
    | some (v1, false) => some v1

/-- the loop `for arg in self._queue_derivation` -/
def rebuildQueues (A : Arith α) (asserts : Bool) (values : AList NT Int) : List (List NT) → St α → Option (St α)
  | [], s => some s
  | arg :: rest, s =>
    match AList.lookup arg s.queueDer with
    | none => none
    | some q =>
      match popAll q (q.nelements + 1) [], maxValues values arg with
      | some (elems, _), some mv =>
        let M : Int := max 1 mv
        match Q.new A M (if M > 1000 then q.k - 1 else M.toNat) with
        | none => none
        | some q0 =>
          match pushAll A asserts (sortCT A elems) q0 with
          | none => none
          | some q1 =>
            if q1.nelements ≠ 1 then none else       -- the `assert`
            rebuildQueues A asserts values rest (s.setQueueDer arg q1)
      | _, _ => none

def computeBounds (E : Env α) (fuel : Nat) (s : St α) : Option (St α) :=
  match initValues E.A s (AList.keys E.G.rules) with
  | none => none
  | some v0 =>
    match boundsFix E.G fuel v0 with
    | none => none
    | some v => rebuildQueues E.A E.asserts v (AList.keys s.queueDer) s

/-! ### `query`, `query_derivation`, `_query_list_` (constant_delay.py:259-416) -/

/-- `itertools.product(*pools)` -/
def cartesian : List (List Prog) → List (List Prog)
  | [] => [[]]
  | p :: ps => p.flatMap fun x => (cartesian ps).map fun r => x :: r

/-- the suspended state of `query(S, cost_index)`: the local variables, and when the generator is
    inside `for possibles in args_possibles: for new_args in product(*possibles)` the symbol of the
    popped element, the remaining `possibles` and the remaining tuples of the current product -/
structure Frame (α : Type) where
  S : NT
  ci : Nat
  cost : α
  hasGen : Bool := false
  noSucc : Bool := true
  cur : Option (Sym × List (List Ref) × List (List Prog)) := none

inductive Res (α : Type) where
  | yield (s : St α) (fr : Frame α) (p : Prog)
  | done (s : St α)

/-- the successor loop of `query_derivation` (constant_delay.py:301-316): `rem` positions left
    from position `i` -/
def succLoop (A : Arith α) (asserts : Bool) (args : List NT) (c : α) (comb : List Nat) : Nat → Nat → St α → Option (St α)
  | 0, _, s => some s
  | rem + 1, i, s =>
    match comb[i]?, args[i]? with
    | some x, some Si =>
      match AList.lookup Si s.costNt with
      | none => none
      | some cl =>
        if x + 1 ≥ cl.length then
          if x + 1 > 1 then some s else succLoop A asserts args c comb rem (i + 1) s
        else
          match cl[x]?, cl[x + 1]?, AList.lookup args s.queueDer with
          | some c0, some c1, some q =>
            match q.push A ⟨A.add (A.sub c c0) c1, [comb.set i (x + 1)]⟩ asserts with
            | none => none
            | some q' =>
              if x + 1 > 1 then some (s.setQueueDer args q')
              else succLoop A asserts args c comb rem (i + 1) (s.setQueueDer args q')
          | _, _, _ => none
    | _, _ => none

/-- the "finite non-terminal check" of `query` (constant_delay.py:355-364): when the derivation has a next
    cost, push the next `Derivation` of the rule on the heap of `S` and clear `no_successor` -/
def pushNext (A : Arith α) (s : St α) (S : NT) (h : List (Deriv α)) (w : Int) (el : Deriv α) (cl : List α)
    (noSucc : Bool) : St α × Bool :=
  match cl[el.comb + 1]? with
  | some c1 => (s.setHeap S (Heapq.push (ltD A) h ⟨A.add (A.ofInt w) c1, el.comb + 1, el.P⟩), false)
  | none => (s, noSucc)

/-- the end of the `while` loop of `query` (constant_delay.py:390-396) -/
def exitQuery (s : St α) (fr : Frame α) : Option (St α) :=
  let s1? : Option (St α) :=
    if !fr.hasGen && !fr.noSucc then
      match AList.lookup fr.S s.emptiesNt with
      | none => none
      | some em => some { s with failedByEmpties := true, emptiesNt := AList.insert fr.S (setAdd em fr.ci) s.emptiesNt }
    else some s
  match s1? with
  | none => none
  | some s1 =>
    match AList.lookup fr.S s1.queueNt, AList.lookup fr.S s1.costNt with
    | some (d :: _), some cl => some (s1.setCostNt fr.S (cl ++ [d.cost]))
    | some [], _ => some s1
    | _, _ => none

mutual
  /-- run `query(S, ci)` from the suspended state `fr` to its next `yield` or to its end -/
  def resume (E : Env α) : Nat → St α → Frame α → Option (Res α)
    | 0, _, _ => none
    | f + 1, s, fr =>
      match fr.cur with
      | some (P, poss, tup :: tups) =>
        let p : Prog := .node P tup
        let fr' := { fr with cur := some (P, poss, tups) }
        if s.deleted.contains p then resume E f s fr'
        else if !E.filter p then resume E f (s.addDeleted p) fr'
        else
          match s.appendBank fr.S fr.ci p with
          | none => none
          | some s' => some (.yield s' { fr' with hasGen := true } p)
      | some (P, ps :: poss, []) =>
        resume E f s { fr with cur := some (P, poss, cartesian (ps.map s.resolve)) }
      | some (_, [], []) => resume E f s { fr with cur := none }
      | none =>
        match AList.lookup fr.S s.queueNt with
        | none => none
        | some heap =>
          match heap with
          | [] => (exitQuery s fr).map .done
          | d :: _ =>
            if !E.A.eq d.cost fr.cost then (exitQuery s fr).map .done else
            match Heapq.pop (ltD E.A) heap with
            | none => none
            | some (el, heap') =>
              match (s.setHeap fr.S heap').ensureBank fr.S fr.ci, E.G.rule? fr.S el.P with
              | some s1, some (args, w) =>
                if args.isEmpty then
                  let p : Prog := .node el.P []
                  if s1.deleted.contains p then resume E f s1 fr
                  else if !E.filter p then resume E f (s1.addDeleted p) fr
                  else
                    match s1.appendBank fr.S fr.ci p with
                    | none => none
                    | some s' => some (.yield s' { fr with hasGen := true } p)
                else
                  match queryDer E f s1 args el.comb with
                  | none => none
                  | some (s2, possibles) =>
                    match AList.lookup args s2.emptiesDer, AList.lookup args s2.costDer, AList.lookup fr.S s2.queueNt with
                    | some em, some cl, some h2 =>
                      let pn := pushNext E.A s2 fr.S h2 w el cl fr.noSucc
                      if em.contains el.comb then resume E f pn.1 { fr with noSucc := pn.2 }
                      else resume E f pn.1 { fr with noSucc := pn.2, cur := some (el.P, possibles, []) }
                    | _, _, _ => none
              | _, _ => none
  /-- `for x in self.query(S, ci): pass` from a suspended state -/
  def drive (E : Env α) : Nat → St α → Frame α → Option (St α)
    | 0, _, _ => none
    | f + 1, s, fr =>
      match resume E f s fr with
      | none => none
      | some (.done s') => some s'
      | some (.yield s' fr' _) => drive E f s' fr'
  /-- `_query_list_(S, ci)` (constant_delay.py:398-416): `(is_allowed_empty, programs)` -/
  def queryList (E : Env α) : Nat → St α → NT → Nat → Option (St α × Bool × Ref)
    | 0, _, _, _ => none
    | f + 1, s, S, ci =>
      match AList.lookup S s.emptiesNt, AList.lookup S s.costNt, AList.lookup S s.bankNt with
      | some em, some cl, some b =>
        if em.contains ci then some (s, true, none) else
        match cl[ci]? with
        | none => some (s, false, none)
        | some cost =>
          if (AList.lookup ci b).isSome then some (s, false, some (S, ci)) else
          match drive E f s { S := S, ci := ci, cost := cost } with
          | none => none
          | some s' =>
            match AList.lookup S s'.emptiesNt, AList.lookup S s'.bankNt with
            | some em', some b' =>
              if em'.contains ci then some (s', true, none)
              else if (AList.lookup ci b').isSome then some (s', false, some (S, ci)) else none
            | _, _ => none
      | _, _, _ => none
  /-- `for ci, Si in zip(combination, args)` (constant_delay.py:286-293):
      `(is_allowed_empty, arg_gen_failed, args_possibles)` -/
  def argLoop (E : Env α) : Nat → St α → List Nat → List NT → Bool → Bool → List Ref →
      Option (St α × Bool × Bool × List Ref)
    | 0, _, _, _, _, _, _ => none
    | _ + 1, s, [], _, ia, agf, acc => some (s, ia, agf, acc)
    | _ + 1, s, _ :: _, [], ia, agf, acc => some (s, ia, agf, acc)
    | f + 1, s, c :: cs, Si :: ss, ia, agf, acc =>
      match queryList E f s Si c with
      | none => none
      | some (s1, one, r) =>
        if (s1.resolve r).isEmpty then
          if !one then some (s1, ia || one, true, acc)            -- `break`
          else argLoop E f s1 cs ss (ia || one) true (acc ++ [r])
        else argLoop E f s1 cs ss (ia || one) agf (acc ++ [r])
  /-- `for combination in ct.combinations` (constant_delay.py:281-320):
      `(no_successor, has_generated_program)` -/
  def combLoop (E : Env α) : Nat → St α → List NT → Nat → α → List (List Nat) → Bool → Bool →
      Option (St α × Bool × Bool)
    | 0, _, _, _, _, _, _, _ => none
    | _ + 1, s, _, _, _, [], ns, hg => some (s, ns, hg)
    | f + 1, s, args, ci, c, comb :: rest, ns, hg =>
      match argLoop E f s comb args false false [] with
      | none => none
      | some (s1, ia, agf, poss) =>
        let failedOther := agf && !ia
        let ns' := ns && failedOther
        if failedOther then combLoop E f s1 args ci c rest ns' hg else
        match succLoop E.A E.asserts args c comb comb.length 0 s1 with
        | none => none
        | some s2 =>
          if ia then combLoop E f s2 args ci c rest ns' hg else
          match AList.lookup args s2.bankDer with
          | none => none
          | some b =>
            match AList.lookup ci b with
            | none => none
            | some l =>
              combLoop E f { s2 with bankDer := AList.insert args (AList.insert ci (l ++ [poss]) b) s2.bankDer }
                args ci c rest ns' true
  /-- `query_derivation(S, P, cost_index)` (constant_delay.py:259-331); only `args` matters -/
  def queryDer (E : Env α) : Nat → St α → List NT → Nat → Option (St α × List (List Ref))
    | 0, _, _, _ => none
    | f + 1, s, args, ci =>
      match AList.lookup args s.costDer, AList.lookup args s.bankDer, AList.lookup args s.queueDer with
      | some cl, some b, some q =>
        if ci ≥ cl.length then some (s, []) else
        match AList.lookup ci b with
        | some l => some (s, l)
        | none =>
          let s1 : St α := { s with bankDer := AList.insert args (AList.insert ci [] b) s.bankDer }
          if q.isEmpty then some (s1, []) else
          match q.pop with
          | none => none
          | some (ct, q') =>
            match combLoop E f (s1.setQueueDer args q') args ci ct.cost ct.combs true false with
            | none => none
            | some (s3, ns, hg) =>
              let s4? : Option (St α) :=
                if !hg && !ns then
                  match AList.lookup args s3.emptiesDer with
                  | none => none
                  | some em => some { s3 with emptiesDer := AList.insert args (setAdd em ci) s3.emptiesDer }
                else some s3
              match s4? with
              | none => none
              | some s4 =>
                match AList.lookup args s4.queueDer, AList.lookup args s4.costDer with
                | some q2, some cl2 =>
                  let s5? : Option (St α) :=
                    if q2.isEmpty then some s4 else
                    match q2.update E.A with
                    | none => none
                    | some q3 =>
                      match q3.peek with
                      | none => none
                      | some pk => some ((s4.setQueueDer args q3).setCostDer args (cl2 ++ [pk.cost]))
                  match s5? with
                  | none => none
                  | some s5 =>
                    match (AList.lookup args s5.bankDer).bind (AList.lookup ci) with
                    | none => none
                    | some l => some (s5, l)
                | _, _ => none
      | _, _, _ => none
end

/-! ### `generator()` (constant_delay.py:234-249) and `merge_program` (418-426) -/

inductive Phase (α : Type) where
  /-- `generator()` not started -/
  | fresh
  /-- at the head of `while not failed` with this `n` -/
  | outer (n : Nat)
  /-- suspended at `yield prog` inside `query(start, n)`; `failed` is `False` -/
  | inQuery (n : Nat) (fr : Frame α)
  /-- the generator has returned -/
  | stopped

structure Gen (α : Type) where
  st : St α
  phase : Phase α := .fresh

def Gen.new (E : Env α) : Option (Gen α) := (St.init E).map fun s => { st := s }

/-- the prologue of `generator()` (constant_delay.py:235-238) -/
def prologue (E : Env α) (fuel : Nat) (s : St α) : Option (St α) :=
  match initNT E fuel s E.G.start with
  | none => none
  | some s1 =>
    match reevaluate E fuel s1 with
    | none => none
    | some s2 => computeBounds E fuel s2

/-- the `while not failed` loop up to the next `yield` (`some p`) or the `return` (`none`).
    `fr = none`: at the head of the loop; `failed` is the value of the flag when the query ends. -/
def nextLoop (E : Env α) (fuel : Nat) : Nat → St α → Nat → Option (Frame α) → Bool → Option (Gen α × Option Prog)
  | 0, _, _, _, _ => none
  | k + 1, s, n, fr?, failed =>
    let start : Option (St α × Option (Frame α)) :=
      match fr? with
      | some fr => some (s, some fr)
      | none =>
        let s0 := { s with failedByEmpties := false }
        match AList.lookup E.G.start s0.costNt with
        | none => none
        | some cl =>
          match cl[n]? with
          | none => some (s0, none)                    -- `query` returns at once
          | some cost => some (s0, some { S := E.G.start, ci := n, cost := cost })
    match start with
    | none => none
    | some (s0, none) =>
      if failed && !s0.failedByEmpties then some ({ st := s0, phase := .stopped }, none)
      else nextLoop E fuel k s0 (n + 1) none true
    | some (s0, some fr) =>
      match resume E fuel s0 fr with
      | none => none
      | some (.yield s1 fr1 p) => some ({ st := s1, phase := .inQuery n fr1 }, some p)
      | some (.done s1) =>
        if failed && !s1.failedByEmpties then some ({ st := s1, phase := .stopped }, none)
        else nextLoop E fuel k s1 (n + 1) none true

/-- `next(generator)` -/
def next (E : Env α) (fuel : Nat) (g : Gen α) : Option (Gen α × Option Prog) :=
  match g.phase with
  | .stopped => some (g, none)
  | .fresh =>
    match prologue E fuel g.st with
    | none => none
    | some s => nextLoop E fuel fuel s 0 none true
  | .outer n => nextLoop E fuel fuel g.st n none true
  | .inQuery n fr => nextLoop E fuel fuel g.st n (some fr) false

/-- `programs.remove(other)` -/
def removeFirst (p : Prog) : List Prog → List Prog
  | [] => []
  | x :: xs => if x = p then xs else x :: removeFirst p xs

/-- `merge_program(representative, other)`: `tyOther` is `other.type` as a number -/
def merge (E : Env α) (g : Gen α) (other : Prog) (tyOther : Nat) : Gen α :=
  let s := g.st.addDeleted other
  let bank := s.bankNt.map fun (S, b) =>
    if AList.lookup S E.G.ty = some tyOther && (AList.lookup S E.G.rules).isSome
    then (S, b.map fun (ci, l) => (ci, removeFirst other l)) else (S, b)
  { g with st := { s with bankNt := bank } }

/-- run `next` until exhaustion or `k` programs: the yielded sequence and whether it stopped -/
def take (E : Env α) (fuel : Nat) : Nat → Gen α → List Prog → Option (Gen α × List Prog × Bool)
  | 0, g, acc => some (g, acc, false)
  | k + 1, g, acc =>
    match next E fuel g with
    | none => none
    | some (g', none) => some (g', acc, true)
    | some (g', some p) => take E fuel k g' (acc ++ [p])

/-- a history of the enumerator object: `take k` = `k` calls of `next(generator)`, `merge` = a call of
    `merge_program(representative, other)` between two of them -/
inductive Act where
  | take (k : Nat)
  | merge (other : Prog) (ty : Nat)

/-- everything yielded along a history -/
def runHist (E : Env α) (fuel : Nat) : List Act → Gen α → List Prog → Option (Gen α × List Prog)
  | [], g, out => some (g, out)
  | .merge p t :: rest, g, out => runHist E fuel rest (merge E g p t) out
  | .take k :: rest, g, out =>
    match take E fuel k g [] with
    | none => none
    | some (g', ys, _) => runHist E fuel rest g' (out ++ ys)

/-! ### specification: the language of the grammar -/

/- `derives G S p`: the program `p` is derivable from the non-terminal `S` (its head symbol is a rule
   of `S` and its arguments are derivable from the argument non-terminals of that rule, one each) -/
mutual
  def derives (G : Gram) : NT → Prog → Bool
    | S, .node P kids =>
      match G.rule? S P with
      | none => false
      | some (args, _) => derivesL G args kids
  def derivesL (G : Gram) : List NT → List Prog → Bool
    | [], [] => true
    | a :: as, k :: ks => derives G a k && derivesL G as ks
    | [], _ :: _ => false
    | _ :: _, [] => false
end

end PS.CD
