/-
  Heap search / bucket search on unambiguous context-free grammars:
  synth/syntax/grammars/enumeration/u_heap_search.py (UHSEnumerator, UHeapSearch, BucketSearch)
  over a minimal UCFG table (u_cfg.py): `rules[S][P]` is a list of alternatives, each a list of
  non-terminals; `tags[S][P][tuple(v)]` its weight; `starts` in the iteration order of the set.

  Simplification (stated in the meta file): for a UCFG the stack-threaded
  `derive_specific / derive_all(…, hints=_keys)` always answers "the non-terminal of argument i
  of alternative v is v[i]" (u_cfg.py:133-151, every complete sub-derivation pops exactly what it
  pushed), and an unambiguous grammar has exactly one derivation, so the `for … in derive_all`
  loops have one iteration; the model uses `v[i]` directly.
  `none` = fuel exhausted or an uncaught exception (KeyError / AssertionError / IndexError).
  Core Lean only.
-/
import PS.Basic
import PS.Model.Tree
import PS.Model.Grammar
import PS.Model.Enum.Heapq
namespace PS.UHS
open PS PS.G

variable {U π : Type} [DecidableEq U]

abbrev UNT (U : Type) := Ty × U

structure UG (U : Type) where
  /-- `G.starts` (iteration order of the set) with `start_tags` -/
  starts : List (UNT U × Rat)
  /-- `rules[S][P]` = alternatives with their weights `tags[S][P][tuple(v)]` -/
  rules : AList (UNT U) (AList Sym (List (List (UNT U) × Rat)))

structure Prio (π : Type) where
  lt : π → π → Bool
  ofRule : Rat → π
  combine : π → π → π
  /-- UHeapSearch.compute_priority looks its memo table up first -/
  cached : Bool
  thr : Option π
  /-- `adjust_priority_for_start(priority, S)` -/
  adjust : π → Rat → π
  /-- bucket search: `adjust_priority_for_start` mutates the priority object, which is also
      the one stored in `heaps[S]` and in `bucket_tuples[program][S]` -/
  mutates : Bool
  /-- bucket search: `compute_priority` takes the first alternative all of whose arguments are
      memoised, instead of `_keys[S][program]` -/
  firstFit : Bool

structure Env (U π : Type) where
  G : UG U
  ops : Prio π
  filter : Prog → Bool
  /-- `true`: the code after the proposed fix C02-F2 (the start heap only holds the successor of
      the last program taken from each start symbol — a k-way merge of the per-start
      enumerations); `false`: the code as it is (every pushed program of a start symbol is also
      pushed on the start heap, and `start_query` asks `query(start, p)` in the start heap's order) -/
  kway : Bool := false

structure St (U π : Type) where
  heaps : AList (UNT U) (List (π × Prog)) := []
  startHeap : List (π × Prog × UNT U) := []
  succ : AList (UNT U) (AList (Option Prog) Prog) := []
  pred : AList (UNT U) (AList Prog (Option Prog)) := []
  seen : AList (UNT U) (List Prog) := []
  deleted : List Prog := []
  /-- `_keys[S][program]` -/
  keys : AList (UNT U × Prog) (List (UNT U)) := []
  maxNT : AList (UNT U) Prog := []
  maxRule : AList (UNT U × Sym × List (UNT U)) Prog := []
  initS : List (UNT U) := []
  cache : AList (Prog × UNT U) π := []

namespace St
def heapOf (s : St U π) (nt : UNT U) : List (π × Prog) := (AList.lookup nt s.heaps).getD []
def succOf (s : St U π) (nt : UNT U) : AList (Option Prog) Prog := (AList.lookup nt s.succ).getD []
def predOf (s : St U π) (nt : UNT U) : AList Prog (Option Prog) := (AList.lookup nt s.pred).getD []
def seenOf (s : St U π) (nt : UNT U) : List Prog := (AList.lookup nt s.seen).getD []
def setHeap (s : St U π) (nt : UNT U) (h : List (π × Prog)) : St U π :=
  { s with heaps := AList.insert nt h s.heaps }
def setSucc (s : St U π) (nt : UNT U) (k : Option Prog) (v : Prog) : St U π :=
  { s with succ := AList.insert nt (AList.insert k v (s.succOf nt)) s.succ }
def setPred (s : St U π) (nt : UNT U) (k : Prog) (v : Option Prog) : St U π :=
  { s with pred := AList.insert nt (AList.insert k v (s.predOf nt)) s.pred }
def addSeen (s : St U π) (nt : UNT U) (p : Prog) : St U π :=
  { s with seen := AList.insert nt (s.seenOf nt ++ [p]) s.seen }
def addDeleted (s : St U π) (p : Prog) : St U π :=
  if s.deleted.contains p then s else { s with deleted := s.deleted ++ [p] }
end St

def ltE (ops : Prio π) (a b : π × Prog) : Bool := ops.lt a.1 b.1
def ltS (ops : Prio π) (a b : π × Prog × UNT U) : Bool := ops.lt a.1 b.1

def altsOf (E : Env U π) (nt : UNT U) (P : Sym) : List (List (UNT U) × Rat) :=
  match AList.lookup nt E.G.rules with
  | none => []
  | some rs => (AList.lookup P rs).getD []

def startW (E : Env U π) (nt : UNT U) : Option Rat := AList.lookup nt E.G.starts

/-- Π / Σ of the memoised priorities of the arguments at the non-terminals `v`; `none` = KeyError -/
def argsPrio (ops : Prio π) (cache : AList (Prog × UNT U) π) : List Prog → List (UNT U) → π → Option π
  | [], _, acc => some acc
  | a :: as, si :: v, acc =>
    match AList.lookup (a, si) cache with
    | none => none
    | some pa => argsPrio ops cache as v (ops.combine acc pa)
  | _ :: _, [], _ => none

/-- `compute_priority(S, program)` (u_heap_search.py:357-378 and 421-443) -/
def computePrio (E : Env U π) (s : St U π) (nt : UNT U) (prog : Prog) : Option (St U π × π) :=
  match (if E.ops.cached then AList.lookup (prog, nt) s.cache else none) with
  | some p => some (s, p)
  | none =>
    match prog with
    | .node F [] =>
      match altsOf E nt F with
      | [(_, w)] =>       -- `assert len(possibles) == 1`
        some ({ s with cache := AList.insert (prog, nt) (E.ops.ofRule w) s.cache }, E.ops.ofRule w)
      | _ => none
    | .node F (a :: as) =>
      let alts := altsOf E nt F
      let found : Option π :=
        if E.ops.firstFit then
          alts.findSome? (fun vw => argsPrio E.ops s.cache (a :: as) vw.1 (E.ops.ofRule vw.2))
        else
          match AList.lookup (nt, prog) s.keys with
          | none => none
          | some v =>
            match alts.find? (fun vw => vw.1 = v) with
            | none => none
            | some vw => argsPrio E.ops s.cache (a :: as) vw.1 (E.ops.ofRule vw.2)
      match found with
      | none => none
      | some p => some ({ s with cache := AList.insert (prog, nt) p s.cache }, p)

def pushOK (ops : Prio π) (p : π) : Bool :=
  match ops.thr with
  | none => true
  | some t => ops.lt p t

/-- `heappush(heaps[S], …)`, and for a start symbol the push on the start heap, with the in-place
    mutation of the bucket (u_heap_search.py:186-197, 243-256) -/
def pushBoth (E : Env U π) (s : St U π) (nt : UNT U) (pr : π) (prog : Prog) : St U π :=
  if pushOK E.ops pr then
    let s1 := s.setHeap nt (Heapq.push (ltE E.ops) (s.heapOf nt) (pr, prog))
    if E.kway then s1 else
    match startW E nt with
    | none => s1
    | some w =>
      let pa := E.ops.adjust pr w
      let s2 := { s1 with startHeap := Heapq.push (ltS E.ops) s1.startHeap (pa, prog, nt) }
      if E.ops.mutates then
        { (s2.setHeap nt ((s2.heapOf nt).map fun e => if e.2 = prog then (pa, prog) else e)) with
          cache := AList.insert (prog, nt) pa s2.cache }
      else s2
  else s

/-- step 2 of `__init_non_terminal__`: push the best program of every (rule, alternative) -/
def initPush (E : Env U π) : St U π → UNT U → List (Sym × List (UNT U)) → Option (St U π)
  | s, _, [] => some s
  | s, nt, (P, v) :: rest =>
    match AList.lookup (nt, P, v) s.maxRule with
    | none => none
    | some prog =>
      if (s.seenOf nt).contains prog then none else
      match computePrio E (s.addSeen nt prog) nt prog with
      | none => none
      | some (s1, pr) =>
        if (AList.lookup (nt, prog) s1.keys).isNone then none else
        initPush E (pushBoth E s1 nt pr prog) nt rest

mutual
  /-- `query(S, program)` (u_heap_search.py:268-296) -/
  def query (E : Env U π) : Nat → St U π → UNT U → Option Prog → Option (St U π × Option Prog)
    | 0, _, _, _ => none
    | n + 1, s, nt, p =>
      match (if s.initS.contains nt then some s else initNT E n s nt) with
      | none => none
      | some s1 =>
        match AList.lookup p (s1.succOf nt) with
        | some r => some (s1, some r)
        | none => popLoop E n s1 nt p
  def popLoop (E : Env U π) : Nat → St U π → UNT U → Option Prog → Option (St U π × Option Prog)
    | 0, _, _, _ => none
    | n + 1, s, nt, key =>
      match Heapq.pop (ltE E.ops) (s.heapOf nt) with
      | none => some (s, none)
      | some (e, h') =>
        let s0 := s.setHeap nt h'
        if s0.deleted.contains e.2 then
          match addSucc E n s0 e.2 nt with
          | none => none
          | some s' => popLoop E n s' nt key
        else
          match addSucc E n ((s0.setSucc nt key e.2).setPred nt e.2 key) e.2 nt with
          | none => none
          | some s' => some (s', some e.2)
  /-- `__add_successors__` + `__add_successors_to_heap__` (u_heap_search.py:213-266): the
      recursion of the latter treats the argument positions from the last to the first -/
  def addSucc (E : Env U π) : Nat → St U π → Prog → UNT U → Option (St U π)
    | 0, _, _, _ => none
    | _ + 1, s, .node _ [], _ => some s
    | n + 1, s, .node F (a :: as), nt =>
      match AList.lookup (nt, .node F (a :: as)) s.keys with
      | none => none
      | some v => addLoop E n s F (a :: as) nt v (a :: as).length
  def addLoop (E : Env U π) : Nat → St U π → Sym → List Prog → UNT U → List (UNT U) → Nat → Option (St U π)
    | 0, _, _, _, _, _, _ => none
    | _ + 1, s, _, _, _, _, 0 => some s
    | n + 1, s, F, args, nt, v, i + 1 =>
      match args[i]?, v[i]? with
      | some ai, some si =>
        match query E n s si (some ai) with
        | none => none
        | some (s1, r) =>
          let s3? : Option (St U π) :=
            match r with
            | none => some s1
            | some q =>
              let np : Prog := .node F (args.set i q)
              if (s1.seenOf nt).contains np then some s1 else
              let s2 := { s1.addSeen nt np with keys := AList.insert (nt, np) v s1.keys }
              match computePrio E s2 nt np with
              | none => none
              | some (s2', pr) => some (pushBoth E s2' nt pr np)
          match s3? with
          | none => none
          | some s3 => addLoop E n s3 F args nt v i
      | _, _ => none
  /-- `__init_non_terminal__` (u_heap_search.py:140-199) -/
  def initNT (E : Env U π) : Nat → St U π → UNT U → Option (St U π)
    | 0, _, _ => none
    | n + 1, s, nt =>
      if s.initS.contains nt then some s else
      match AList.lookup nt E.G.rules with
      | none => none
      | some rs =>
        match initRules E n { s with initS := s.initS ++ [nt] } nt rs none with
        | none => none
        | some (_, none) => none                     -- `assert best_program`
        | some (s1, some best) =>
          match initPush E { s1 with maxNT := AList.insert nt best.1 s1.maxNT } nt
              (rs.flatMap fun r => r.2.map fun vw => (r.1, vw.1)) with
          | none => none
          | some s3 => (query E n s3 nt none).map (·.1)
  def initRules (E : Env U π) : Nat → St U π → UNT U → List (Sym × List (List (UNT U) × Rat)) →
      Option (Prog × π) → Option (St U π × Option (Prog × π))
    | 0, _, _, _, _ => none
    | _ + 1, s, _, [], best => some (s, best)
    | n + 1, s, nt, (P, alts) :: rest, best =>
      match initAlts E n s nt P alts best with
      | none => none
      | some (s1, best1) => initRules E n s1 nt rest best1
  def initAlts (E : Env U π) : Nat → St U π → UNT U → Sym → List (List (UNT U) × Rat) →
      Option (Prog × π) → Option (St U π × Option (Prog × π))
    | 0, _, _, _, _, _ => none
    | _ + 1, s, _, _, [], best => some (s, best)
    | n + 1, s, nt, P, (v, _) :: rest, best =>
      match initArgs E n s v [] with
      | none => none
      | some (s1, arguments) =>
        let prog : Prog := .node P arguments
        let s2 := { s1 with keys := AList.insert (nt, prog) v s1.keys }
        match computePrio E s2 nt prog with
        | none => none
        | some (s3, pr) =>
          let s4 := { s3 with maxRule := AList.insert (nt, P, v) prog s3.maxRule }
          let best' := match best with
            | none => some (prog, pr)
            | some b => if E.ops.lt pr b.2 then some (prog, pr) else some b
          -- a leaf only uses `list(tags[S][P].keys())[0]`
          if v.isEmpty then some (s4, best') else initAlts E n s4 nt P rest best'
  /-- `__init_helper__`: arguments = the best programs of the non-terminals of the alternative -/
  def initArgs (E : Env U π) : Nat → St U π → List (UNT U) → List Prog → Option (St U π × List Prog)
    | 0, _, _, _ => none
    | _ + 1, s, [], acc => some (s, acc)
    | n + 1, s, si :: v, acc =>
      match initNT E n s si with
      | none => none
      | some s1 =>
        match AList.lookup si s1.maxNT with
        | none => none
        | some m => initArgs E n s1 v (acc ++ [m])
end

def St.empty (G : UG U) : St U π :=
  { heaps := G.rules.map (fun r => (r.1, [])), succ := G.rules.map (fun r => (r.1, [])),
    pred := G.rules.map (fun r => (r.1, [])), seen := G.rules.map (fun r => (r.1, [])) }

def firstQueries (E : Env U π) (fuel : Nat) : List (UNT U) → St U π → Option (St U π)
  | [], s => some s
  | nt :: rest, s =>
    match query E fuel s nt none with
    | none => none
    | some r => firstQueries E fuel rest r.1

/-- the `while elem.program in self.deleted` loop of `start_query`; `none` also for the
    IndexError of an exhausted start heap -/
def startLoop (E : Env U π) (fuel : Nat) : Nat → St U π → Option (St U π × Prog)
  | 0, _ => none
  | k + 1, s =>
    match Heapq.pop (ltS E.ops) s.startHeap with
    | none => none
    | some (e, h') =>
      match query E fuel { s with startHeap := h' } e.2.2 (some e.2.1) with
      | none => none
      | some (s1, _) => if s1.deleted.contains e.2.1 then startLoop E fuel k s1 else some (s1, e.2.1)

/-- fixed code: `__push_next_from_start__(start, program)` -/
def pushNext (E : Env U π) (fuel : Nat) (s : St U π) (start : UNT U) (p : Option Prog) : Option (St U π) :=
  match query E fuel s start p with
  | none => none
  | some (s1, none) => some s1
  | some (s1, some q) =>
    match computePrio E s1 start q, startW E start with
    | some (s2, pr), some w =>
      some { s2 with startHeap := Heapq.push (ltS E.ops) s2.startHeap (E.ops.adjust pr w, q, start) }
    | _, _ => none

def pushNexts (E : Env U π) (fuel : Nat) : List (UNT U) → St U π → Option (St U π)
  | [], s => some s
  | nt :: rest, s =>
    match pushNext E fuel s nt none with
    | none => none
    | some s1 => pushNexts E fuel rest s1

/-- fixed code: the `while len(self._start_heap) > 0` loop of `start_query` -/
def kwayLoop (E : Env U π) (fuel : Nat) : Nat → St U π → Option (St U π × Option Prog)
  | 0, _ => none
  | k + 1, s =>
    match Heapq.pop (ltS E.ops) s.startHeap with
    | none => some (s, none)
    | some (e, h') =>
      match pushNext E fuel { s with startHeap := h' } e.2.2 (some e.2.1) with
      | none => none
      | some s1 => if s1.deleted.contains e.2.1 then kwayLoop E fuel k s1 else some (s1, some e.2.1)

/-- `start_query()` (u_heap_search.py:200-211) -/
def startQuery (E : Env U π) (fuel : Nat) (s : St U π) : Option (St U π × Option Prog) :=
  if E.kway then
    match (if s.initS.isEmpty then pushNexts E fuel (E.G.starts.map (·.1)) s else some s) with
    | none => none
    | some s1 => kwayLoop E fuel fuel s1
  else
  match (if s.initS.isEmpty then firstQueries E fuel (E.G.starts.map (·.1)) s else some s) with
  | none => none
  | some s1 =>
    if s1.startHeap.isEmpty then some (s1, none) else
    match startLoop E fuel fuel s1 with
    | none => none
    | some (s2, p) => some (s2, some p)

/-- `next(generator)` (u_heap_search.py:106-117) -/
def next (E : Env U π) (fuel : Nat) : Nat → St U π → Option (St U π × Option Prog)
  | 0, _ => none
  | k + 1, s =>
    match startQuery E fuel s with
    | none => none
    | some (s1, none) => some (s1, none)
    | some (s1, some p) => if E.filter p then some (s1, some p) else next E fuel k (s1.addDeleted p)

def mergeAt (other : Prog) (nt : UNT U) (s : St U π) : St U π :=
  match AList.lookup other (s.predOf nt), AList.lookup (some other) (s.succOf nt) with
  | some ph, some nxt => (s.setSucc nt ph nxt).setPred nt nxt ph
  | _, _ => s

/-- `merge_program` (u_heap_search.py:298-310) -/
def merge (E : Env U π) (s : St U π) (other : Prog) : St U π :=
  (AList.keys E.G.rules).foldl (fun s nt => mergeAt other nt s) (s.addDeleted other)

def take (E : Env U π) (fuel : Nat) : Nat → St U π → List Prog → Option (St U π × List Prog × Bool)
  | 0, s, acc => some (s, acc, false)
  | k + 1, s, acc =>
    match next E fuel fuel s with
    | none => none
    | some (s', none) => some (s', acc, true)
    | some (s', some p) => take E fuel k s' (acc ++ [p])

/-! ### the two instances -/

def probOps (threshold : Rat) : Prio Rat :=
  { lt := fun a b => decide (b < a), ofRule := id, combine := (· * ·), cached := true,
    thr := if threshold = 0 then none else some threshold, adjust := (· * ·), mutates := false,
    firstFit := false }

abbrev Bucket := List Nat

def Bucket.lt : Bucket → Bucket → Bool
  | a :: as, b :: bs => if a < b then true else if a > b then false else Bucket.lt as bs
  | _, _ => false

def Bucket.add (a b : Bucket) : Bucket := List.zipWith (· + ·) a b

def Bucket.idx (size : Nat) (p : Rat) : Nat :=
  let idx : Int := (size : Int) - (p * (size : Rat)).floor - 1
  (if idx < 0 then idx + size else idx).toNat

def Bucket.ofProb (size : Nat) (p : Rat) : Bucket := (List.replicate size 0).set (Bucket.idx size p) 1

/-- `bucket.add_prob_uniform(p)` -/
def Bucket.bump (size : Nat) (b : Bucket) (p : Rat) : Bucket := b.modify (Bucket.idx size p) (· + 1)

/-- `mutates = true` is the code as it is; the proposed fix C02-F2 returns a new bucket -/
def bucketOps (size : Nat) (mutates : Bool) : Prio Bucket :=
  { lt := Bucket.lt, ofRule := Bucket.ofProb size, combine := Bucket.add, cached := false, thr := none,
    adjust := Bucket.bump size, mutates := mutates, firstFit := true }

end PS.UHS
