/-
  The bucketed priority queue of constant-delay search:
  synth/syntax/grammars/enumeration/constant_delay_queue.py (CostTuple, CDQueue), transcribed
  operation by operation.

  * NUMBERS.  The queue computes with Python floats (`maxi * (k + 1) / k`, `cost / maxi * self.k`,
    `int(...)`, `maxi / self.k`, `start + maxi * n / k`).  The model is written once over an explicit
    record of arithmetic operations `Arith α`; every expression keeps the implementation's
    operation order.  Two instances: `floatArith` (IEEE doubles: Lean `Float` = C double = CPython
    float, used by the driver for the bit-exact correspondence) and `ratArith` (exact rationals: the
    "intended" real-number semantics, used by the order theorems).  The structural theorems
    (multiset of stored index tuples, element count) hold for EVERY `Arith`, hence for the floats.
  * a cell `(0, None)` is `Cell.empty`, `(1, ct)` is `Cell.leaf ct`, a nested `[n, cells]` is
    `Cell.node n cells`.  The Python objects that these three shapes cannot express
    (`(1, None)`, a nested list with counter ≤ 1, …) only arise when a counter is out of sync
    with its content; every operation that would create or read one returns `none`, as do the
    exceptions of the Python code (AssertionError of `push`, ZeroDivisionError, AttributeError
    of `None.cost`, IndexError).  `none` is reported by the driver as "undefined" and compared with
    the implementation's outcome.
  * `__push__` appends to `val.combinations` in place; no other reference to that list is live
    (the search drops a popped CostTuple after reading it), so mutation = returned state.
  Core Lean only.
-/
import PS.Basic
namespace PS.CD

/-- the arithmetic the queue and the search need (Python float / int operations) -/
structure Arith (α : Type) where
  ofInt : Int → α
  add : α → α → α
  sub : α → α → α
  mul : α → α → α
  /-- true division; the caller tests the divisor with `isZero` first (ZeroDivisionError) -/
  div : α → α → α
  lt : α → α → Bool
  /-- Python `==` -/
  eq : α → α → Bool
  abs : α → α
  /-- `int(x)`: truncation toward zero -/
  trunc : α → Int
  /-- the literal `1e99` -/
  big : α
  /-- `false`: the code as it is, `int(cost / maxi * self.k)`; `true`: the code after the proposed fix
      C03-F5, `int(cost * self.k / maxi)` -/
  mulFirst : Bool := false

namespace Arith
variable {α : Type} (A : Arith α)
def ofNat (n : Nat) : α := A.ofInt (n : Int)
def le (a b : α) : Bool := !A.lt b a
def isZero (a : α) : Bool := A.eq a (A.ofInt 0)
end Arith

/-- exact rational arithmetic -/
def ratTrunc (q : Rat) : Int := if 0 ≤ q then q.floor else -((-q).floor)

def ratArith : Arith Rat :=
  { ofInt := fun i => (i : Rat), add := (· + ·), sub := (· - ·), mul := (· * ·), div := (· / ·),
    lt := fun a b => decide (a < b), eq := fun a b => decide (a = b),
    abs := fun a => if 0 ≤ a then a else -a, trunc := ratTrunc,
    big := (10 : Rat) ^ 99 }

/-- IEEE double arithmetic (CPython floats; the integers involved are far below 2^53) -/
def floatArith : Arith Float :=
  { ofInt := Float.ofInt, add := (· + ·), sub := (· - ·), mul := (· * ·), div := (· / ·),
    lt := fun a b => decide (a < b), eq := fun a b => a == b,
    abs := Float.abs, trunc := fun x => x.toInt64.toInt,
    big := 1e99 }

/-- `CostTuple` (constant_delay_queue.py:5-11) -/
structure CT (α : Type) where
  cost : α
  combs : List (List Nat)

/-- a cell of the bucket array: `(0, None)` / `(1, ct)` / `[n, cells]` -/
inductive Cell (α : Type) where
  | empty
  | leaf (ct : CT α)
  | node (n : Nat) (sub : List (Cell α))

/-- `cells[i][0]` -/
def Cell.count {α : Type} : Cell α → Nat
  | .empty => 0
  | .leaf _ => 1
  | .node n _ => n

/-- the fields of `CDQueue` (constant_delay_queue.py:26-38) -/
structure Q (α : Type) where
  maxi : α
  k : Nat
  mini : Option α := none
  cells : List (Cell α)
  translation : Nat := 0
  nelements : Nat := 0
  start : Option α := none
  n : Nat := 0

variable {α : Type}

/-- `CDQueue(maxi, k)`: `self.maxi = maxi * (k + 1) / k; self.k = k + 1; clear()`;
    `none` = ZeroDivisionError -/
def Q.new (A : Arith α) (maxi0 : Int) (k0 : Nat) : Option (Q α) :=
  if k0 = 0 then none else
  some { maxi := A.div (A.ofInt (maxi0 * ((k0 : Int) + 1))) (A.ofNat k0), k := k0 + 1,
         cells := List.replicate (k0 + 1) .empty }

/-- `clear()` (constant_delay_queue.py:55-64) -/
def Q.clear (q : Q α) : Q α :=
  { q with mini := none, cells := List.replicate q.k .empty, translation := 0, nelements := 0,
           start := none, n := 0 }

/-- `is_empty()` -/
def Q.isEmpty (q : Q α) : Bool := q.nelements == 0

/-- `__push__(element, cost, maxi, cells, translation)` (constant_delay_queue.py:86-149): the new
    cells and whether a CostTuple was ADDED (`true`: the counters on the path are incremented, the
    `stack` of the Python loop) or merged into an existing one (`false`).
    The two inner calls with `add=False` start from fresh cells, where only the `empty` and
    `leaf` cases can be met, and the enclosing counter is set to 2 explicitly.
    Fuel: one unit per nesting level. -/
def pushCells (A : Arith α) (k : Nat) : Nat → CT α → α → α → List (Cell α) → Nat →
    Option (List (Cell α) × Bool)
  | 0, _, _, _, _, _ => none
  | f + 1, e, cost, maxi, cells, tr =>
    if A.isZero maxi then none else            -- `cost / maxi`: ZeroDivisionError
    let unit := A.div maxi (A.ofNat k)
    let lbi : Int := if A.mulFirst then A.trunc (A.div (A.mul cost (A.ofNat k)) maxi)
                     else A.trunc (A.mul (A.div cost maxi) (A.ofNat k))
    let index : Nat := ((lbi + (tr : Int)) % (k : Int)).toNat
    match cells[index]? with
    | none => none
    | some .empty => some (cells.set index (.leaf e), true)
    | some (.leaf val) =>
      if A.lt (A.ofInt 1) (A.abs (A.sub val.cost e.cost)) then
        match pushCells A k f val (A.sub (A.sub (A.add cost val.cost) e.cost) (A.mul (A.ofInt lbi) unit))
                unit (List.replicate k .empty) 0 with
        | none => none
        | some (sub1, _) =>
          match pushCells A k f e (A.sub cost (A.mul (A.ofInt lbi) unit)) unit sub1 0 with
          | none => none
          | some (sub2, _) => some (cells.set index (.node 2 sub2), true)
      else
        some (cells.set index (.leaf { val with combs := val.combs ++ e.combs }), false)
    | some (.node n sub) =>
      match pushCells A k f e (A.sub cost (A.mul (A.ofInt lbi) unit)) unit sub 0 with
      | none => none
      | some (sub', added) => some (cells.set index (.node (if added then n + 1 else n) sub'), added)

/-- nesting fuel handed to `pushCells` by `push` (each level divides the width by `k ≥ 2`; two
    costs more than 1 apart are separated long before) -/
def pushFuel : Nat := 4096

/-- `if self.mini is None: self.mini = element.cost; self.start = self.mini; self.n = 0` -/
def Q.anchor (q : Q α) (c : α) : Q α :=
  match q.mini with
  | none => { q with mini := some c, start := some c, n := 0 }
  | some _ => q

/-- `push(element)` (constant_delay_queue.py:66-79); `none` = AssertionError / ZeroDivisionError.
    `asserts = false` is the code without the `assert` statement (`python -O`): used by the driver to
    tell an AssertionError from any other undefined run. -/
def Q.push (A : Arith α) (q : Q α) (e : CT α) (asserts : Bool := true) : Option (Q α) :=
  let q1 : Q α := q.anchor e.cost
  match q1.mini with
  | none => none
  | some mini =>
    if asserts && A.lt q1.maxi (A.sub e.cost mini) then none else       -- the `assert`
    match pushCells A q1.k pushFuel e (A.sub e.cost mini) q1.maxi q1.cells q1.translation with
    | none => none
    | some (cells, added) =>
      some { q1 with cells := cells, nelements := if added then q1.nelements + 1 else q1.nelements }

/- The CostTuple found by the traversal of `__pop__` / `__peek__` (constant_delay_queue.py:171-188,
   197-210; both visit the sub-cells in index order, skip the empty ones and descend into the
   first nested one): `none` = the Python function returns `None` or meets an ill-formed cell. -/
mutual
  def firstCell : Cell α → Option (CT α)
    | .empty => none
    | .leaf ct => some ct
    | .node n sub => if n ≤ 1 then none else firstList sub
  def firstList : List (Cell α) → Option (CT α)
    | [] => none
    | .empty :: rest => firstList rest
    | .leaf ct :: _ => some ct
    | .node n sub :: _ => firstCell (.node n sub)
end

/- `__pop__(cell)` followed by `__cleanup__(cells, index)` of the caller
   (constant_delay_queue.py:151-162, 171-188): the popped CostTuple and what the caller's slot
   holds afterwards.  A nested cell with counter 2 collapses to the leaf of its remaining
   CostTuple (`cells[index] = (1, self.__pop__(cells[index]))`), a larger counter is decremented. -/
mutual
  def popCell : Cell α → Option (CT α × Cell α)
    | .empty => none
    | .leaf ct => some (ct, .empty)
    | .node n sub =>
      if n ≤ 1 then none else
      match popList sub with
      | none => none
      | some (p, sub') =>
        if n = 2 then
          match firstList sub' with
          | none => none
          | some r => some (p, .leaf r)
        else some (p, .node (n - 1) sub')
  def popList : List (Cell α) → Option (CT α × List (Cell α))
    | [] => none
    | .empty :: rest =>
      match popList rest with
      | none => none
      | some (p, rest') => some (p, .empty :: rest')
    | .leaf ct :: rest => some (ct, .empty :: rest)
    | .node n sub :: rest =>
      match popCell (.node n sub) with
      | none => none
      | some (p, c') => some (p, c' :: rest)
end

/-- `pop()` (constant_delay_queue.py:164-169); `none` = the cell at `translation` is empty
    (Python returns `None` and the caller fails on `None.combinations`) or ill-formed -/
def Q.pop (q : Q α) : Option (CT α × Q α) :=
  match q.cells[q.translation]? with
  | none => none
  | some c =>
    match popCell c with
    | none => none
    | some (p, c') =>
      if q.nelements = 0 then none else
      some (p, { q with cells := q.cells.set q.translation c', nelements := q.nelements - 1 })

/-- `peek()` (constant_delay_queue.py:190-195); `none` = `None` -/
def Q.peek (q : Q α) : Option (CT α) :=
  match q.cells[q.translation]? with
  | none => none
  | some c => firstCell c

/-- the `while self.cells[self.translation][0] == 0` loop of `update` (at most `k` steps when the
    counters are in sync; `none` = it would not stop) -/
def advance (cells : List (Cell α)) (k : Nat) : Nat → Nat → Nat → Option (Nat × Nat)
  | 0, _, _ => none
  | f + 1, tr, n =>
    match cells[tr]? with
    | none => none
    | some c => if c.count = 0 then advance cells k f ((tr + 1) % k) (n + 1) else some (tr, n)

/-- `update()` (constant_delay_queue.py:40-53) -/
def Q.update (A : Arith α) (q : Q α) : Option (Q α) :=
  if q.nelements = 0 then some q else
  match advance q.cells q.k (q.k + 1) q.translation q.n with
  | none => none
  | some (tr, n) =>
    if q.nelements = 1 then
      match q.cells[tr]? with
      | some (.leaf ct) => some { q with translation := tr, mini := some ct.cost, start := some ct.cost, n := 0 }
      | _ => none
    else
      match q.start with
      | none => none
      | some st =>
        some { q with translation := tr, n := n,
                      mini := some (A.add st (A.div (A.mul q.maxi (A.ofNat n)) (A.ofNat q.k))) }

/-! ### what the queue holds (specification side) -/

/- the CostTuples stored below a cell, in cell order -/
mutual
  def Cell.tuples : Cell α → List (CT α)
    | .empty => []
    | .leaf ct => [ct]
    | .node _ sub => tuplesList sub
  def tuplesList : List (Cell α) → List (CT α)
    | [] => []
    | c :: rest => c.tuples ++ tuplesList rest
end

/-- all CostTuples of the queue -/
def Q.tuples (q : Q α) : List (CT α) := tuplesList q.cells

/-- all index tuples (`combinations`) of the queue -/
def Q.contents (q : Q α) : List (List Nat) := q.tuples.flatMap (·.combs)

end PS.CD
