/-
  Heap search / bucket search on deterministic (tree-traversing) grammars:
  synth/syntax/grammars/enumeration/heap_search.py (HSEnumerator, HeapSearch, Bucket,
  BucketSearch) and program_enumerator.py (filter hook), transcribed as a resumable machine.

  * dict  → `AList` (insertion ordered), set → list without duplicates, generator → `Gen` +
    `next`, mutual recursion `query ↔ __add_successors__` and
    `__init_non_terminal__ ↔ __compute_max_prio__` → structural recursion on a fuel argument
    (`none` = fuel exhausted *or* an uncaught exception of the Python code; both are
    reported by the driver as "undefined" and compared with the implementation's outcome).
  * programs are identified by themselves (`hash(program)` collisions are an assumption).
  * the priority type `π` and its operations are a parameter (`Prio`): heap search uses the
    probability itself (`Rat`) with the order reversed (the implementation pushes `-probability`
    and negation of a float is exact), bucket search uses `Bucket` tuples with the
    transcribed `__lt__`.
  Core Lean only.
-/
import PS.Basic
import PS.Model.Tree
import PS.Model.Grammar
import PS.Model.Enum.Heapq
namespace PS.HS
open PS PS.G

variable {S T π : Type} [DecidableEq S] [DecidableEq T]

abbrev Info (S : Type) := List (Ty × S)

/- `DetGrammar.derive_all(information, S, P)` (det_grammar.py:160-186): only the returned
    information and the last context `lst[-1]` are used by the enumerators. `none` = KeyError. -/
mutual
  def deriveAll (G : TT S T) : Prog → Info S → NT S T → Option (Info S × NT S T)
    | .node f kids, info, nt =>
      match derive G info nt f with
      | none => none
      | some r => deriveAllList G kids r.1 r.2
  def deriveAllList (G : TT S T) : List Prog → Info S → NT S T → Option (Info S × NT S T)
    | [], info, nt => some (info, nt)
    | k :: ks, info, nt =>
      match deriveAll G k info nt with
      | none => none
      | some r => deriveAllList G ks r.1 r.2
end

/-- what distinguishes HeapSearch from BucketSearch -/
structure Prio (π : Type) where
  /-- `priority < other` of the pushed heap elements -/
  lt : π → π → Bool
  /-- priority of a rule of probability `w` -/
  ofRule : Rat → π
  /-- accumulate the priority of an argument (`probability *= …` / `new_bucket += …`) -/
  combine : π → π → π
  /-- HeapSearch.compute_priority first looks its memo table up; BucketSearch does not -/
  cached : Bool
  /-- HeapSearch only derives past argument `i` when `i + 1 < args_len` -/
  guardLast : Bool
  /-- `not self.threshold or priority < self.threshold`: `none` = falsy threshold -/
  thr : Option π

structure Env (S T π : Type) where
  G : TT S T
  /-- `G.probabilities[S][P]` -/
  W : AList (NT S T) (AList Sym Rat)
  ops : Prio π
  /-- `self.filter.accept` (always `true` when no filter is installed) -/
  filter : Prog → Bool
  /-- `true`: the code as it is — `__add_successors__` does not push a successor that is in
      `deleted` (heap_search.py:222-225), so its own successors are never generated (finding
      C12-F4); `false`: the code after the proposed fix C12-F4 (deleted programs are pushed and
      skipped when popped, where their successors are added) -/
  dropDeleted : Bool := true

/-- the tables of `HSEnumerator` (heap_search.py:62-83) + the memo table of `compute_priority` -/
structure St (S T π : Type) where
  heaps : AList (NT S T) (List (π × Prog)) := []
  /-- `succ[S][hash(P)]`; key `none` is the sentinel 123891 -/
  succ : AList (NT S T) (AList (Option Prog) Prog) := []
  pred : AList (NT S T) (AList Prog (Option Prog)) := []
  /-- `hash_table_program[S]` -/
  seen : AList (NT S T) (List Prog) := []
  deleted : List Prog := []
  /-- `max_priority[S]` -/
  maxNT : AList (NT S T) Prog := []
  /-- `max_priority[(S, P)]` -/
  maxRule : AList (NT S T × Sym) Prog := []
  /-- `_init` -/
  initS : List (NT S T) := []
  /-- `probabilities[program][S]` / `bucket_tuples[program][S]` -/
  cache : AList (Prog × NT S T) π := []

namespace St
def heapOf (s : St S T π) (nt : NT S T) : List (π × Prog) := (AList.lookup nt s.heaps).getD []
def succOf (s : St S T π) (nt : NT S T) : AList (Option Prog) Prog := (AList.lookup nt s.succ).getD []
def predOf (s : St S T π) (nt : NT S T) : AList Prog (Option Prog) := (AList.lookup nt s.pred).getD []
def seenOf (s : St S T π) (nt : NT S T) : List Prog := (AList.lookup nt s.seen).getD []
def setHeap (s : St S T π) (nt : NT S T) (h : List (π × Prog)) : St S T π :=
  { s with heaps := AList.insert nt h s.heaps }
def setSucc (s : St S T π) (nt : NT S T) (k : Option Prog) (v : Prog) : St S T π :=
  { s with succ := AList.insert nt (AList.insert k v (s.succOf nt)) s.succ }
def setPred (s : St S T π) (nt : NT S T) (k : Prog) (v : Option Prog) : St S T π :=
  { s with pred := AList.insert nt (AList.insert k v (s.predOf nt)) s.pred }
def addSeen (s : St S T π) (nt : NT S T) (p : Prog) : St S T π :=
  { s with seen := AList.insert nt (s.seenOf nt ++ [p]) s.seen }
/-- `self.deleted.add(p)` -/
def addDeleted (s : St S T π) (p : Prog) : St S T π :=
  if s.deleted.contains p then s else { s with deleted := s.deleted ++ [p] }
end St

/-- `HeapElement.__lt__` (dataclass(order=True), `program` has compare=False) -/
def ltE (ops : Prio π) (a b : π × Prog) : Bool := ops.lt a.1 b.1

def ruleW (E : Env S T π) (nt : NT S T) (P : Sym) : Option Rat :=
  match AList.lookup nt E.W with
  | none => none
  | some ws => AList.lookup P ws

/-- the loop over the arguments in `compute_priority` (heap_search.py:303-311, 411-416);
    `none` = KeyError -/
def prioArgs (E : Env S T π) (cache : AList (Prog × NT S T) π) :
    List Prog → Info S → NT S T → π → Option π
  | [], _, _, acc => some acc
  | a :: rest, info, s2, acc =>
    match AList.lookup (a, s2) cache with
    | none => none
    | some pa =>
      if rest.isEmpty && E.ops.guardLast then some (E.ops.combine acc pa) else
      match deriveAll E.G a info s2 with
      | none => none
      | some r => prioArgs E cache rest r.1 r.2 (E.ops.combine acc pa)

/-- `compute_priority(S, program)` (heap_search.py:295-315, 402-423): returns the updated memo
    table and the priority; `none` = KeyError (the state is then unchanged). -/
def computePrio (E : Env S T π) (cache : AList (Prog × NT S T) π) (nt : NT S T) (prog : Prog) :
    Option (AList (Prog × NT S T) π × π) :=
  match (if E.ops.cached then AList.lookup (prog, nt) cache else none) with
  | some p => some (cache, p)
  | none =>
    match prog with
    | .node F [] =>
      match ruleW E nt F with
      | none => none
      | some w => some (AList.insert (prog, nt) (E.ops.ofRule w) cache, E.ops.ofRule w)
    | .node F (a :: as) =>
      match ruleW E nt F, derive E.G [] nt F, E.G.rule? nt F with
      | some w, some r, some rl =>
        if rl.1.length ≠ (a :: as).length then none else
        match prioArgs E cache (a :: as) r.1 r.2 (E.ops.ofRule w) with
        | none => none
        | some p => some (AList.insert (prog, nt) p cache, p)
      | _, _, _ => none

/-- `if not self.threshold or priority < self.threshold` -/
def pushOK (ops : Prio π) (p : π) : Bool :=
  match ops.thr with
  | none => true
  | some t => ops.lt p t

/-- `hash_table_program[S].add(h); priority = compute_priority(S, p); heappush(...)` of
    `__add_successors__` (heap_search.py:222-236, KeyError swallowed) -/
def pushNew (E : Env S T π) (s : St S T π) (nt : NT S T) (np : Prog) : St S T π :=
  let s1 := s.addSeen nt np
  match computePrio E s1.cache nt np with
  | none => s1
  | some r =>
    let s2 := { s1 with cache := r.1 }
    if pushOK E.ops r.2 then s2.setHeap nt (Heapq.push (ltE E.ops) (s2.heapOf nt) (r.2, np)) else s2

/- `query` (heap_search.py:245-282), its pop loop, `__add_successors__` (207-243) and the
   loop over the argument positions. -/
mutual
  def query (E : Env S T π) : Nat → St S T π → NT S T → Option Prog → Option (St S T π × Option Prog)
    | 0, _, _, _ => none
    | n + 1, s, nt, p =>
      -- `if program: if 123891 not in self.succ[S]: self.query(S, None)`
      let s1? : Option (St S T π) :=
        match p with
        | some _ =>
          if (AList.lookup none (s.succOf nt)).isSome then some s
          else (query E n s nt none).map (·.1)
        | none => some s
      match s1? with
      | none => none
      | some s1 =>
        match AList.lookup p (s1.succOf nt) with
        | some r => some (s1, some r)
        | none => popLoop E n s1 nt p
  def popLoop (E : Env S T π) : Nat → St S T π → NT S T → Option Prog → Option (St S T π × Option Prog)
    | 0, _, _, _ => none
    | n + 1, s, nt, key =>
      match Heapq.pop (ltE E.ops) (s.heapOf nt) with
      | none => some (s, none)          -- IndexError → `except: return None`
      | some (e, h') =>
        let s0 := s.setHeap nt h'
        if s0.deleted.contains e.2 then
          match addSucc E n s0 e.2 nt with
          | none => none
          | some s' => popLoop E n s' nt key
        else
          match addSucc E n ((s0.setSucc nt key e.2).setPred nt e.2 key) e.2 nt with
          | none => none
          | some s' => some (s', some e.2)
  def addSucc (E : Env S T π) : Nat → St S T π → Prog → NT S T → Option (St S T π)
    | 0, _, _, _ => none
    | _ + 1, s, .node _ [], _ => some s            -- not a `Function`
    | n + 1, s, .node F (a :: as), nt =>
      match derive E.G [] nt F, E.G.rule? nt F with
      | some r, some rl => addLoop E n s F (a :: as) nt 0 rl.1.length r.1 r.2
      | _, _ => none
  def addLoop (E : Env S T π) : Nat → St S T π → Sym → List Prog → NT S T → Nat → Nat → Info S →
      NT S T → Option (St S T π)
    | 0, _, _, _, _, _, _, _, _ => none
    | n + 1, s, F, args, nt, i, argsLen, info, s2 =>
      if i ≥ argsLen then some s else
      match args[i]? with
      | none => none
      | some ai =>
        match query E n s s2 (some ai) with
        | none => none
        | some (s1, r) =>
          let s3 : St S T π :=
            match r with
            | none => s1
            | some q =>
              let np : Prog := .node F (args.set i q)
              if (s1.seenOf nt).contains np || (E.dropDeleted && s1.deleted.contains np) then s1
              else pushNew E s1 nt np
          if i + 1 < argsLen then
            match deriveAll E.G ai info s2 with
            | none => none
            | some r' => addLoop E n s3 F args nt (i + 1) argsLen r'.1 r'.2
          else some s3
end

/- `__init_non_terminal__` (heap_search.py:150-162) and `__compute_max_prio__` (115-148). -/
mutual
  def initNT (E : Env S T π) : Nat → St S T π → NT S T → Option (St S T π)
    | 0, _, _ => none
    | n + 1, s, nt =>
      if s.initS.contains nt then some s else
      match AList.lookup nt E.G.rules with
      | none => none
      | some rs =>
        if rs.all (fun r => (AList.lookup (nt, r.1) s.maxRule).isSome) then some s else
        match maxLoop E n { s with initS := s.initS ++ [nt] } nt rs none with
        | none => none
        | some (s', best) =>
          let s'' := { s' with initS := s'.initS.erase nt }
          match best with
          | some b => some { s'' with maxNT := AList.insert nt b.1 s''.maxNT }
          | none => some s''
  def maxLoop (E : Env S T π) : Nat → St S T π → NT S T → List (Sym × (List (Ty × S) × T)) →
      Option (Prog × π) → Option (St S T π × Option (Prog × π))
    | 0, _, _, _, _ => none
    | _ + 1, s, _, [], best => some (s, best)
    | n + 1, s, nt, (P, rl) :: rest, best =>
      let built : Option (St S T π × Option Prog) :=
        if rl.1.length > 0 then
          match derive E.G [] nt P with
          | none => none
          | some r =>
            match maxArgs E n s rl.1.length r.1 r.2 [] with
            | none => none
            | some (s1, arguments) =>
              if arguments.length ≠ rl.1.length then some (s1, none)
              else some (s1, some (.node P arguments))
        else some (s, some (.node P []))
      match built with
      | none => none
      | some (s1, none) => maxLoop E n s1 nt rest best          -- `continue`
      | some (s1, some prog) =>
        match computePrio E s1.cache nt prog with
        | none => none
        | some (c, pr) =>
          let s2 := { s1 with cache := c, maxRule := AList.insert (nt, P) prog s1.maxRule }
          let best' := match best with
            | none => some (prog, pr)
            | some b => if E.ops.lt pr b.2 then some (prog, pr) else some b
          maxLoop E n s2 nt rest best'
  def maxArgs (E : Env S T π) : Nat → St S T π → Nat → Info S → NT S T → List Prog →
      Option (St S T π × List Prog)
    | 0, _, _, _, _, _ => none
    | _ + 1, s, 0, _, _, acc => some (s, acc)
    | n + 1, s, k + 1, info, cur, acc =>
      match initNT E n s cur with
      | none => none
      | some s1 =>
        match AList.lookup cur s1.maxNT with
        | none => some (s1, acc)                                   -- `break`
        | some m =>
          match deriveAll E.G m info cur with
          | none => none
          | some r => maxArgs E n s1 k r.1 r.2 (acc ++ [m])
end

/-- one `for S in list(self.G.rules.keys())` pass of `_reevaluate_` (heap_search.py:164-173) -/
def reevalPass (E : Env S T π) (fuel : Nat) : List (NT S T) → St S T π → Bool → Option (St S T π × Bool)
  | [], s, ch => some (s, ch)
  | nt :: rest, s, ch =>
    match initNT E fuel s nt with
    | none => none
    | some s1 =>
      let old := AList.lookup nt s.maxNT
      let new := AList.lookup nt s1.maxNT
      reevalPass E fuel rest s1 (ch || new.isNone || decide (old ≠ new))

def reevaluate (E : Env S T π) (fuel : Nat) : Nat → St S T π → Option (St S T π)
  | 0, _ => none
  | k + 1, s =>
    match reevalPass E fuel (AList.keys E.G.rules) s false with
    | none => none
    | some (s1, true) => reevaluate E fuel k s1
    | some (s1, false) => some s1

/-- `__init_heap__(S)` (heap_search.py:175-191); `none` = KeyError / AssertionError -/
def initHeapLoop (E : Env S T π) (nt : NT S T) : List Sym → St S T π → Option (St S T π)
  | [], s => some s
  | P :: rest, s =>
    match AList.lookup (nt, P) s.maxRule with
    | none => none
    | some prog =>
      if (s.seenOf nt).contains prog then none else
      let s1 := s.addSeen nt prog
      match computePrio E s1.cache nt prog with
      | none => none
      | some r =>
        let s2 := { s1 with cache := r.1 }
        initHeapLoop E nt rest
          (if pushOK E.ops r.2 then s2.setHeap nt (Heapq.push (ltE E.ops) (s2.heapOf nt) (r.2, prog)) else s2)

def initHeaps (E : Env S T π) : List (NT S T × AList Sym (List (Ty × S) × T)) → St S T π → Option (St S T π)
  | [], s => some s
  | (nt, rs) :: rest, s =>
    match initHeapLoop E nt (AList.keys rs) s with
    | none => none
    | some s1 => initHeaps E rest s1

def firstQueries (E : Env S T π) (fuel : Nat) : List (NT S T) → St S T π → Option (St S T π)
  | [], s => some s
  | nt :: rest, s =>
    match query E fuel s nt none with
    | none => none
    | some r => firstQueries E fuel rest r.1

/-- the empty tables of `__init__` -/
def St.empty (G : TT S T) : St S T π :=
  { heaps := G.rules.map (fun r => (r.1, [])), succ := G.rules.map (fun r => (r.1, [])),
    pred := G.rules.map (fun r => (r.1, [])), seen := G.rules.map (fun r => (r.1, [])) }

/-- the generator object: tables + `self.current` + whether the prologue of `generator()` ran -/
structure Gen (S T π : Type) where
  st : St S T π
  current : Option Prog := none
  started : Bool := false

def Gen.new (G : TT S T) : Gen S T π := { st := St.empty G }

/-- the prologue of `generator()` (heap_search.py:96-104) -/
def prologue (E : Env S T π) (fuel : Nat) (s : St S T π) : Option (St S T π) :=
  match initNT E fuel s E.G.start with
  | none => none
  | some s1 =>
    match reevaluate E fuel fuel s1 with
    | none => none
    | some s2 =>
      match initHeaps E E.G.rules s2 with
      | none => none
      | some s3 => firstQueries E fuel (AList.keys E.G.rules) s3

/-- the `while True` loop of `generator()` up to the next `yield` (`some p`) or `return` (`none`) -/
def nextLoop (E : Env S T π) (fuel : Nat) : Nat → St S T π → Option Prog → Option (Gen S T π × Option Prog)
  | 0, _, _ => none
  | k + 1, s, cur =>
    match query E fuel s E.G.start cur with
    | none => none
    | some (s1, none) => some ({ st := s1, current := cur, started := true }, none)
    | some (s1, some p) =>
      if E.filter p then some ({ st := s1, current := some p, started := true }, some p)
      else nextLoop E fuel k (s1.addDeleted p) (some p)

/-- `next(generator)` -/
def next (E : Env S T π) (fuel : Nat) (g : Gen S T π) : Option (Gen S T π × Option Prog) :=
  if g.started then nextLoop E fuel fuel g.st g.current else
  match prologue E fuel g.st with
  | none => none
  | some s => nextLoop E fuel fuel s g.current

/-- `merge_program(representative, other)` (heap_search.py:193-205) -/
def mergeAt (other : Prog) (nt : NT S T) (s : St S T π) : St S T π :=
  match AList.lookup other (s.predOf nt), AList.lookup (some other) (s.succOf nt) with
  | some ph, some nxt => (s.setSucc nt ph nxt).setPred nt nxt ph
  | _, _ => s

def merge (E : Env S T π) (g : Gen S T π) (other : Prog) : Gen S T π :=
  { g with st := (AList.keys E.G.rules).foldl (fun s nt => mergeAt other nt s) (g.st.addDeleted other) }

/-- run `next` until exhaustion or `k` programs: the yielded sequence -/
def take (E : Env S T π) (fuel : Nat) : Nat → Gen S T π → List Prog → Option (Gen S T π × List Prog × Bool)
  | 0, g, acc => some (g, acc, false)
  | k + 1, g, acc =>
    match next E fuel g with
    | none => none
    | some (g', none) => some (g', acc, true)
    | some (g', some p) => take E fuel k g' (acc ++ [p])

/-! ### the two instances -/

/-- HeapSearch: priority `-probability`, compared through the probability itself -/
def probOps (threshold : Rat) : Prio Rat :=
  { lt := fun a b => decide (b < a), ofRule := id, combine := (· * ·), cached := true, guardLast := true,
    thr := if threshold = 0 then none else some threshold }

/-- `Bucket` (heap_search.py:324-395): a list of counters -/
abbrev Bucket := List Nat

/-- `Bucket.__lt__` -/
def Bucket.lt : Bucket → Bucket → Bool
  | a :: as, b :: bs => if a < b then true else if a > b then false else Bucket.lt as bs
  | _, _ => false

/-- `Bucket.__iadd__` for equal sizes -/
def Bucket.add (a b : Bucket) : Bucket := List.zipWith (· + ·) a b

/-- `Bucket(size).add_prob_uniform(p)`: `index = size - int(p * size) - 1` (a negative index
    counts from the end, as Python lists do) -/
def Bucket.ofProb (size : Nat) (p : Rat) : Bucket :=
  let idx : Int := (size : Int) - (p * (size : Rat)).floor - 1
  let idx : Int := if idx < 0 then idx + size else idx
  (List.replicate size 0).set idx.toNat 1

def bucketOps (size : Nat) : Prio Bucket :=
  { lt := Bucket.lt, ofRule := Bucket.ofProb size, combine := Bucket.add, cached := false,
    guardLast := false, thr := none }

end PS.HS
