/-
  Beap search on context-free grammars with rule costs:
  synth/syntax/grammars/enumeration/beap_search.py (BeapSearch, HeapElement) and
  program_enumerator.py (filter hook `_should_keep_subprogram`), transcribed as a resumable machine.

  * dict → `AList` (insertion ordered), set → list without duplicates, the generator
    `query(S, cost_index)` → an explicit frame (`Frame`: the locals that are live at the `yield`
    inside `for new_args in product(*args_possibles)`; `itertools.product` snapshots its inputs,
    so the not yet consumed tuples are a plain list) + `resume`; a nested `for x in
    self.query(...): pass` is `drive` = resume until the generator returns; mutual recursion
    `query ↔ _query_list_` and `_init_non_terminal_` → structural recursion on a fuel argument
    (`none` = fuel exhausted *or* an uncaught exception of the Python code).
  * costs: the enumerator works on the costs stored in `G.probabilities` (floats: `-log p` when
    built by `enumerate_prob_grammar`).  The model works on exact rationals; the placeholder
    `1e99` of `_init_non_terminal_` absorbs every finite cost in float arithmetic
    (`1e99 + 3.0 == 1e99`), which is observable (`new_queue != self._queues[S]`, ties in the
    heap): a cost is therefore a pair (multiples of 1e99, finite part) with the finite part
    forced to 0 when the first component is not 0 (`Cost`).
  * CPython `heapq`: `heappush` / `heappop` from PS/Model/Enum/Heapq.lean; `heapify` is ported here.
  Core Lean only.
-/
import PS.Basic
import PS.Model.Tree
import PS.Model.Grammar
import PS.Model.Enum.Heapq
namespace PS.Beap
open PS PS.G

/-! ### costs -/

/-- `inf * 1e99 + fin` with float absorption: `fin` is kept at 0 when `inf ≠ 0` -/
structure Cost where
  inf : Int
  fin : Rat
  deriving DecidableEq

namespace Cost
def ofRat (r : Rat) : Cost := ⟨0, r⟩
/-- the placeholder `1e99` (beap_search.py:82) -/
def big : Cost := ⟨1, 0⟩
def add (a b : Cost) : Cost := ⟨a.inf + b.inf, if a.inf + b.inf = 0 then a.fin + b.fin else 0⟩
def sub (a b : Cost) : Cost := ⟨a.inf - b.inf, if a.inf - b.inf = 0 then a.fin - b.fin else 0⟩
/-- float `<` -/
def lt (a b : Cost) : Bool := decide (a.inf < b.inf) || (decide (a.inf = b.inf) && decide (a.fin < b.fin))
instance : Add Cost := ⟨add⟩
instance : Sub Cost := ⟨sub⟩
/-- a cost without placeholder -/
def Finite (a : Cost) : Prop := a.inf = 0
instance (a : Cost) : Decidable a.Finite := inferInstanceAs (Decidable (a.inf = 0))
end Cost

/-! ### `heapq.heapify` (CPython Modules/_heapqmodule.c: `for i in reversed(range(n//2)): siftup(heap, i)`;
    `siftup(heap, pos)` bubbles the smaller child up until a leaf is hit, then
    `siftdown(heap, startpos = pos, leaf)`) -/
section heapify
variable {α : Type}
open PS.Heapq

/-- `siftdown(heap, startpos, pos)`: `while pos > startpos: parent = (pos-1)>>1;
    if not heap[pos] < heap[parent]: break; swap; pos = parent` -/
def siftdownFrom (lt : α → α → Bool) (start : Nat) : Nat → List α → Nat → List α
  | 0, h, _ => h
  | fuel + 1, h, pos =>
    if pos ≤ start then h else
    let parent := (pos - 1) / 2
    if ltAt lt h pos parent then siftdownFrom lt start fuel (swap h pos parent) parent else h

/-- `siftup(heap, pos)` -/
def siftupAt (lt : α → α → Bool) (h : List α) (pos : Nat) : List α :=
  let r := bubble lt h.length h pos
  siftdownFrom lt pos (r.2 + 1) r.1 r.2

/-- positions `k-1, …, 0` -/
def heapifyLoop (lt : α → α → Bool) : Nat → List α → List α
  | 0, h => h
  | k + 1, h => heapifyLoop lt k (siftupAt lt h k)

/-- `heapify(heap)` -/
def heapify (lt : α → α → Bool) (h : List α) : List α := heapifyLoop lt (h.length / 2) h
end heapify

/-! ### the machine -/
variable {S : Type} [DecidableEq S]

/-- `HeapElement` (beap_search.py:32-39): `dataclass(order=True)`, `P` has `compare=False` -/
structure HeapEl where
  cost : Cost
  comb : List Nat
  P : Sym
  deriving DecidableEq

/-- Python `list < list` -/
def listLt : List Nat → List Nat → Bool
  | [], [] => false
  | [], _ :: _ => true
  | _ :: _, [] => false
  | x :: xs, y :: ys => if x = y then listLt xs ys else decide (x < y)

/-- `HeapElement.__lt__`: `(cost, combination) < (other.cost, other.combination)` (tuple comparison:
    the first component that differs by `==` decides) -/
def ltE (a b : HeapEl) : Bool := if a.cost = b.cost then listLt a.comb b.comb else Cost.lt a.cost b.cost

/-- `HeapElement.__eq__`: `(cost, combination) == (other.cost, other.combination)` -/
def HeapEl.key (a : HeapEl) : Cost × List Nat := (a.cost, a.comb)

/-- argument `(type, ctx)` of a rule → non-terminal `(type, (ctx, None))` (beap_search.py:75) -/
def ntOf (a : Ty × S) : NT S Unit := (a.1, (a.2, ()))

structure Env (S : Type) where
  G : TT S Unit
  /-- `G.probabilities[S][P]`: the cost of the rule -/
  W : AList (NT S Unit) (AList Sym Rat)
  /-- `self.filter.accept` (always `true` when no filter is installed) -/
  filter : Prog → Bool
  /-- `self.cfg.is_recursive()` (cfg.py:38-56: a heuristic on the depth component of the
      non-terminals; handed over as data) -/
  recursive : Bool
  /-- `false`: the code as it is — `_query_list_` answers `(False, bank[cost_index])` for an existing bank
      entry, also when `merge_program` emptied it (finding C12-F13: the element is then taken for the end of a
      finite grammar and its successors are lost); `true`: the code after the proposed fix C12-F13
      (`return len(bank[cost_index]) == 0, bank[cost_index]`: an emptied entry is an allowed-empty index) -/
  fixEmptied : Bool := false

def ruleW (E : Env S) (nt : NT S Unit) (P : Sym) : Option Rat :=
  match AList.lookup nt E.W with
  | none => none
  | some ws => AList.lookup P ws

/-- the tables of `BeapSearch` (beap_search.py:53-77) -/
structure St (S : Type) where
  /-- `_cost_lists[S]` -/
  costLists : AList (NT S Unit) (List Cost) := []
  /-- `_bank[S][cost_index]` -/
  bank : AList (NT S Unit) (AList Nat (List Prog)) := []
  /-- `_queues[S]` (heap arrays) -/
  queues : AList (NT S Unit) (List HeapEl) := []
  /-- `_empties[S]` -/
  empties : AList (NT S Unit) (List Nat) := []
  /-- `_deleted` -/
  deleted : List Prog := []
  /-- `_failed_by_empties` -/
  failedByEmpties : Bool := false

namespace St
def clOf (s : St S) (nt : NT S Unit) : List Cost := (AList.lookup nt s.costLists).getD []
def bankOf (s : St S) (nt : NT S Unit) : AList Nat (List Prog) := (AList.lookup nt s.bank).getD []
def queueOf (s : St S) (nt : NT S Unit) : List HeapEl := (AList.lookup nt s.queues).getD []
def emptiesOf (s : St S) (nt : NT S Unit) : List Nat := (AList.lookup nt s.empties).getD []
def setCL (s : St S) (nt : NT S Unit) (cl : List Cost) : St S := { s with costLists := AList.insert nt cl s.costLists }
def setQueue (s : St S) (nt : NT S Unit) (q : List HeapEl) : St S := { s with queues := AList.insert nt q s.queues }
def setBank (s : St S) (nt : NT S Unit) (ci : Nat) (ps : List Prog) : St S :=
  { s with bank := AList.insert nt (AList.insert ci ps (s.bankOf nt)) s.bank }
/-- `self._empties[S].add(ci)` -/
def addEmpty (s : St S) (nt : NT S Unit) (ci : Nat) : St S :=
  if (s.emptiesOf nt).contains ci then s else { s with empties := AList.insert nt (s.emptiesOf nt ++ [ci]) s.empties }
/-- `self._deleted.add(p)` -/
def addDeleted (s : St S) (p : Prog) : St S :=
  if s.deleted.contains p then s else { s with deleted := s.deleted ++ [p] }
/-- the empty tables of `__init__` (beap_search.py:69-77) -/
def empty (G : TT S Unit) : St S :=
  { costLists := G.rules.map (fun r => (r.1, [])), bank := G.rules.map (fun r => (r.1, [])),
    queues := G.rules.map (fun r => (r.1, [])), empties := G.rules.map (fun r => (r.1, [])) }
end St

/-! #### `_init_non_terminal_` (beap_search.py:79-94) -/
mutual
  def initNT (E : Env S) : Nat → St S → NT S Unit → Option (St S)
    | 0, _, _ => none
    | n + 1, s, nt =>
      match AList.lookup nt s.costLists with
      | none => none                                        -- KeyError
      | some cl =>
        if cl.length > 0 then some s else
        match AList.lookup nt E.G.rules with
        | none => none
        | some rs =>
          match initRules E n (s.setCL nt (cl ++ [Cost.big])) nt rs with
          | none => none
          | some s1 =>
            match s1.queueOf nt with
            | [] => none                                    -- IndexError: `queue[0]`
            | e :: _ => some (s1.setCL nt ((s1.clOf nt).set 0 e.cost))
  def initRules (E : Env S) : Nat → St S → NT S Unit → List (Sym × (List (Ty × S) × Unit)) → Option (St S)
    | 0, _, _, _ => none
    | _ + 1, s, _, [] => some s
    | n + 1, s, nt, (P, rl) :: rest =>
      match ruleW E nt P with
      | none => none
      | some w =>
        match initArgs E n s rl.1 (Cost.ofRat w) with
        | none => none
        | some (s1, cost) =>
          initRules E n (s1.setQueue nt (Heapq.push ltE (s1.queueOf nt) ⟨cost, List.replicate rl.1.length 0, P⟩)) nt rest
  def initArgs (E : Env S) : Nat → St S → List (Ty × S) → Cost → Option (St S × Cost)
    | 0, _, _, _ => none
    | _ + 1, s, [], c => some (s, c)
    | n + 1, s, a :: as, c =>
      match initNT E n s (ntOf a) with
      | none => none
      | some s1 =>
        match s1.clOf (ntOf a) with
        | [] => none
        | c0 :: _ => initArgs E n s1 as (c + c0)
end

/-! #### `_reevaluate_` (beap_search.py:96-119) -/

/-- `sum(self._cost_lists[Si][0] for Si in …)` (starts from the integer 0); `none` = IndexError -/
def sumFirst (s : St S) : List (Ty × S) → Cost → Option Cost
  | [], acc => some acc
  | a :: as, acc =>
    match s.clOf (ntOf a) with
    | [] => none
    | c0 :: _ => sumFirst s as (acc + c0)

def recost (E : Env S) (s : St S) (nt : NT S Unit) (el : HeapEl) : Option HeapEl :=
  match ruleW E nt el.P, E.G.rule? nt el.P with
  | some w, some rl =>
    match sumFirst s rl.1 (Cost.ofRat 0) with
    | none => none
    | some c => some { el with cost := Cost.ofRat w + c }
  | _, _ => none

def mapOpt {α β : Type} (f : α → Option β) : List α → Option (List β)
  | [] => some []
  | x :: xs =>
    match f x, mapOpt f xs with
    | some y, some ys => some (y :: ys)
    | _, _ => none

/-- one `for S in list(self._queues.keys())` pass -/
def reevalPass (E : Env S) : List (NT S Unit) → St S → Bool → Option (St S × Bool)
  | [], s, ch => some (s, ch)
  | nt :: rest, s, ch =>
    match mapOpt (recost E s nt) (s.queueOf nt) with
    | none => none
    | some nq =>
      if nq.map HeapEl.key ≠ (s.queueOf nt).map HeapEl.key then
        match heapify ltE nq, s.clOf nt with
        | e :: q', _ :: cl' => reevalPass E rest ((s.setQueue nt (e :: q')).setCL nt (e.cost :: cl')) true
        | _, _ => none                                      -- IndexError
      else reevalPass E rest s ch

/-- the `while changed` loop -/
def reevalLoop (E : Env S) : Nat → St S → Option (St S)
  | 0, _ => none
  | k + 1, s =>
    match reevalPass E (AList.keys s.queues) s false with
    | none => none
    | some (s1, true) => reevalLoop E k s1
    | some (s1, false) => some s1

def reevaluate (E : Env S) (fuel : Nat) (s : St S) : Option (St S) :=
  if E.recursive then reevalLoop E fuel s else some s

/-! #### `query` (beap_search.py:141-220) and `_query_list_` (222-240) -/

/-- the locals of a suspended `query(S, cost_index)` -/
structure Frame where
  ci : Nat
  cost : Cost
  hasGen : Bool := false
  noSucc : Bool := true
  /-- `element.P` of the element whose programs are being produced -/
  P : Sym
  /-- `len(args_possibles) > 0` -/
  isFun : Bool := false
  /-- the tuples of `product(*args_possibles)` not consumed yet -/
  pending : List (List Prog) := []

inductive Res where
  | yield (p : Prog) (fr : Frame)
  | ret

/-- `Function(element.P, list(new_args))` if `len(args_possibles) > 0` else `element.P`
    (beap_search.py:201-204) -/
def mkProg (P : Sym) (isFun : Bool) (a : List Prog) : Prog := if isFun then .node P a else .node P []

/-- the loop `for new_args in product(*args_possibles)` up to its next `yield`
    (beap_search.py:200-212) -/
def emit (E : Env S) (nt : NT S Unit) (ci : Nat) (P : Sym) (isFun : Bool) :
    St S → List (List Prog) → St S × Option (Prog × List (List Prog))
  | s, [] => (s, none)
  | s, a :: rest =>
    let np : Prog := mkProg P isFun a
    if s.deleted.contains np then emit E nt ci P isFun s rest
    else if !E.filter np then emit E nt ci P isFun (s.addDeleted np) rest
    else (s.setBank nt ci (((AList.lookup ci (s.bankOf nt)).getD []) ++ [np]), some (np, rest))

/-- "Generate next combinations" (beap_search.py:177-193): positions `i, i+1, …` of `Sargs` -/
def succLoop (nt : NT S Unit) (cost : Cost) (P : Sym) (comb : List Nat) :
    St S → Nat → List (NT S Unit) → St S
  | s, _, [] => s
  | s, i, a :: as =>
    let cl := s.clOf a
    let c := comb.getD i 0
    if c + 1 ≥ cl.length then
      if c + 1 > 1 then s else succLoop nt cost P comb s (i + 1) as
    else
      let newCost := cost - cl.getD c (Cost.ofRat 0) + cl.getD (c + 1) (Cost.ofRat 0)
      let s' := s.setQueue nt (Heapq.push ltE (s.queueOf nt) ⟨newCost, comb.set i (c + 1), P⟩)
      if c + 1 > 1 then s' else succLoop nt cost P comb s' (i + 1) as

/-- the end of `query` (beap_search.py:213-220) -/
def markEmpty (s : St S) (nt : NT S Unit) (fr : Frame) : St S :=
  if !fr.hasGen && !fr.noSucc then { s.addEmpty nt fr.ci with failedByEmpties := true } else s

def epilogue (s : St S) (nt : NT S Unit) (fr : Frame) : St S :=
  let s1 := markEmpty s nt fr
  match s1.queueOf nt with
  | [] => s1
  | e :: _ => s1.setCL nt (s1.clOf nt ++ [e.cost])

mutual
  /-- `_query_list_(S, cost_index)` -/
  def queryList (E : Env S) : Nat → St S → NT S Unit → Nat → Option (St S × Bool × List Prog)
    | 0, _, _, _ => none
    | n + 1, s, nt, ci =>
      if (s.emptiesOf nt).contains ci then some (s, true, [])
      else if ci ≥ (s.clOf nt).length then some (s, false, [])
      else
        match AList.lookup ci (s.bankOf nt) with
        | some ps => some (s, E.fixEmptied && ps.isEmpty, ps)
        | none =>
          match runQuery E n s nt ci with
          | none => none
          | some s1 =>
            if (s1.emptiesOf nt).contains ci then some (s1, true, [])
            else
              match AList.lookup ci (s1.bankOf nt) with
              | some ps => some (s1, false, ps)
              | none => none                                -- KeyError `bank[cost_index]`
  /-- `for x in self.query(S, cost_index): pass` -/
  def runQuery (E : Env S) : Nat → St S → NT S Unit → Nat → Option (St S)
    | 0, _, _, _ => none
    | n + 1, s, nt, ci =>
      match (s.clOf nt)[ci]? with
      | none => some s                                      -- `cost_index >= len(cost_list)`: return
      | some c => drive E n s nt { ci := ci, cost := c, P := default }
  def drive (E : Env S) : Nat → St S → NT S Unit → Frame → Option (St S)
    | 0, _, _, _ => none
    | n + 1, s, nt, fr =>
      match resume E n s nt fr with
      | none => none
      | some (s1, .ret) => some s1
      | some (s1, .yield _ fr1) => drive E n s1 nt fr1
  /-- run `query(S, fr.ci)` from the point described by `fr` up to its next `yield` / `return` -/
  def resume (E : Env S) : Nat → St S → NT S Unit → Frame → Option (St S × Res)
    | 0, _, _, _ => none
    | n + 1, s, nt, fr =>
      match emit E nt fr.ci fr.P fr.isFun s fr.pending with
      | (s1, some (p, rest)) => some (s1, .yield p { fr with hasGen := true, pending := rest })
      | (s1, none) =>
        -- `while len(queue) > 0 and queue[0].cost == cost`
        match s1.queueOf nt with
        | [] => some (epilogue s1 nt fr, .ret)
        | e0 :: _ =>
          if e0.cost ≠ fr.cost then some (epilogue s1 nt fr, .ret) else
          match Heapq.pop ltE (s1.queueOf nt) with
          | none => none
          | some (el, q') =>
            match E.G.rule? nt el.P with
            | none => none                                  -- KeyError `_non_terminal_for[S][P]`
            | some rl =>
              let sargs := rl.1.map ntOf
              match argsLoop E n (s1.setQueue nt q') sargs el.comb false false [] with
              | none => none
              | some (s3, ae, af, poss) =>
                let failedOther := af && !ae
                let fr1 : Frame := { fr with noSucc := fr.noSucc && failedOther, pending := [] }
                if failedOther then resume E n s3 nt fr1 else
                let s4 := succLoop nt fr.cost el.P el.comb s3 0 sargs
                if ae then resume E n s4 nt fr1 else
                let s5 := if (AList.lookup fr.ci (s4.bankOf nt)).isSome then s4 else s4.setBank nt fr.ci []
                resume E n s5 nt { fr1 with P := el.P, isFun := !sargs.isEmpty, pending := product poss }
  /-- the loop `for i in range(nargs)` over `_query_list_` (beap_search.py:162-171):
      returns the state, `is_allowed_empty`, `arg_gen_failed`, `args_possibles` -/
  def argsLoop (E : Env S) : Nat → St S → List (NT S Unit) → List Nat → Bool → Bool → List (List Prog) →
      Option (St S × Bool × Bool × List (List Prog))
    | 0, _, _, _, _, _, _ => none
    | _ + 1, s, [], _, ae, af, acc => some (s, ae, af, acc)
    | _ + 1, _, _ :: _, [], _, _, _ => none                 -- IndexError `element.combination[i]`
    | n + 1, s, a :: as, c :: cs, ae, af, acc =>
      match queryList E n s a c with
      | none => none
      | some (s1, one, poss) =>
        if poss.isEmpty then
          if !one then some (s1, ae || one, true, acc)      -- `break`
          else argsLoop E n s1 as cs (ae || one) true (acc ++ [poss])
        else argsLoop E n s1 as cs (ae || one) af (acc ++ [poss])
end

/-! #### `generator()` (beap_search.py:121-133) -/

/-- the generator object -/
structure Gen (S : Type) where
  st : St S
  started : Bool := false
  finished : Bool := false
  /-- the local `n` -/
  n : Nat := 0
  /-- the local `failed` -/
  failed : Bool := false
  /-- the suspended `query(self.G.start, n)` -/
  frame : Option Frame := none

def Gen.new (G : TT S Unit) : Gen S := { st := St.empty G }

/-- `_init_non_terminal_(start); _reevaluate_()` -/
def prologue (E : Env S) (fuel : Nat) (s : St S) : Option (St S) :=
  match initNT E fuel s E.G.start with
  | none => none
  | some s1 => reevaluate E fuel s1

/-- the `while not failed` loop up to the next `yield` (`some p`) or `return` (`none`) -/
def nextLoop (E : Env S) (fuel : Nat) : Nat → St S → Nat → Bool → Option Frame → Option (Gen S × Option Prog)
  | 0, _, _, _, _ => none
  | k + 1, s, n, failed, some fr =>
    match resume E fuel s E.G.start fr with
    | none => none
    | some (s1, .yield p fr1) =>
      some ({ st := s1, started := true, n := n, failed := false, frame := some fr1 }, some p)
    | some (s1, .ret) =>
      if failed && !s1.failedByEmpties then
        some ({ st := s1, started := true, finished := true, n := n + 1, failed := true }, none)
      else nextLoop E fuel k s1 (n + 1) false none
  | k + 1, s, n, _, none =>
    let s0 : St S := { s with failedByEmpties := false }
    match (s0.clOf E.G.start)[n]? with
    | none => some ({ st := s0, started := true, finished := true, n := n + 1, failed := true }, none)
    | some c => nextLoop E fuel k s0 n true (some { ci := n, cost := c, P := default })

/-- `next(generator)` -/
def next (E : Env S) (fuel : Nat) (g : Gen S) : Option (Gen S × Option Prog) :=
  if g.finished then some (g, none) else
  if g.started then nextLoop E fuel fuel g.st g.n g.failed g.frame else
  match prologue E fuel g.st with
  | none => none
  | some s => nextLoop E fuel fuel s 0 false none

/-- `merge_program(representative, other)` (beap_search.py:242-250); `typeOK S` is the test
    `S[0] == other.type` -/
def merge (g : Gen S) (other : Prog) (typeOK : NT S Unit → Bool) : Gen S :=
  let s := g.st.addDeleted other
  { g with st := { s with bank := s.bank.map (fun r =>
      if typeOK r.1 then (r.1, r.2.map (fun e => (e.1, e.2.erase other))) else r) } }

/-- run `next` until exhaustion or `k` programs: the yielded sequence -/
def take (E : Env S) (fuel : Nat) : Nat → Gen S → List Prog → Option (Gen S × List Prog × Bool)
  | 0, g, acc => some (g, acc, false)
  | k + 1, g, acc =>
    match next E fuel g with
    | none => none
    | some (g', none) => some (g', acc, true)
    | some (g', some p) => take E fuel k g' (acc ++ [p])

/-! ### specification -/

/- cost of a program = sum of the costs of the rules of its derivation (`none`: not derivable) -/
mutual
  def costOf (E : Env S) : Prog → NT S Unit → Option Rat
    | .node f kids, nt =>
      match E.G.rule? nt f, ruleW E nt f with
      | some (args, _), some w =>
        match costOfList E kids args with
        | some c => some (w + c)
        | none => none
      | _, _ => none
  def costOfList (E : Env S) : List Prog → List (Ty × S) → Option Rat
    | [], [] => some 0
    | k :: ks, a :: as =>
      match costOf E k (ntOf a), costOfList E ks as with
      | some c, some d => some (c + d)
      | _, _ => none
    | _, _ => none
end

end PS.Beap
