/-
  C15 — the documented textual notation of types (spec side) and the type *objects* it denotes.

  * `TyO`     : the objects of synth/syntax/type_system.py (PrimitiveType, PolymorphicType,
                FixedPolymorphicType, Sum, Arrow, Generic) as rose trees `PS.Tree TyL`
                (class, name, children — exactly what the harness dumps from a Python object).
  * `tyOr`    : the library's union operator `a | b` (Type.__or__, type_system.py:75-78 and
                Sum.__or__, type_system.py:323-327).
  * `TyExpr`  : abstract syntax of the documented notation (docs/source/type_system.md,
                docstring of auto_type, tests/syntax/test_type_helper.py): base names,
                `'a`, `'a[r]`, right-associative infix operators (`->` is the arrow, any other
                operator builds an infix generic such as `a * b`), postfix generics `t list`,
                `t optional`, unions `t | u`, parentheses (implicit in the tree).
  * `denote`  : ⟦·⟧ : TyExpr → TyO, the object an expression stands for.
  * `toks`    : the token stream of an expression (parenthesised where the notation needs it).
  * `render`  : Spacing → TyExpr → List Char, the concrete text with an arbitrary number of
                blanks at every place where a blank may be written.
  Core Lean only.  (Another file `PS/Model/Ty.lean` with a shared type representation is being
  written in parallel for C14; the coordinator unifies later.)
-/
import PS.Model.Tree
namespace PS.C15
open PS

abbrev Str := List Char

/-- class and name of a type object; the children are the kids of the tree node -/
inductive TyL where
  | prim (name : Str)                       -- PrimitiveType(name)
  | poly (name : Str)                       -- PolymorphicType(name)
  | fpoly (name : Str)                      -- FixedPolymorphicType(name, *kids)
  | sum                                     -- Sum(*kids)
  | arrow                                   -- Arrow(kid0, kid1)
  | generic (name : Str) (infx : Bool)      -- Generic(name, *kids, infix=infx)
  deriving DecidableEq, Repr, Inhabited

abbrev TyO := Tree TyL

def TyO.prim (n : Str) : TyO := .node (.prim n) []
def TyO.poly (n : Str) : TyO := .node (.poly n) []
def TyO.arrow (a b : TyO) : TyO := .node .arrow [a, b]
def UNIT : TyO := TyO.prim "unit".toList

/-- `a | b` on type objects: `Sum.__or__` when `a` is a Sum, else `Type.__or__`. -/
def tyOr (a b : TyO) : TyO :=
  match a, b with
  | .node .sum as, .node .sum bs => .node .sum (bs ++ as)     -- Sum(*(list(other.types)+list(self.types)))
  | .node .sum as, b => .node .sum (b :: as)                   -- Sum(other, *self.types)
  | a, .node .sum bs => .node .sum (a :: bs)                   -- Sum(self, *other.types)
  | a, b => .node .sum [a, b]                                  -- Sum(self, other)

/-- `Optional(t) = Sum(UNIT, t)` (type_helper.py:23-27) -/
def tyOptional (t : TyO) : TyO := .node .sum [UNIT, t]

/-- members of a union: the alternatives of a Sum, the type itself otherwise -/
def members : TyO → List TyO
  | .node .sum ts => ts
  | t => [t]

def ARROW : Str := "->".toList
def OPTIONAL : Str := "optional".toList

/-- building the object of an infix operator: `->` is `Arrow`, anything else an infix generic
    (type_helper.py:202-205) -/
def mkInfix (op : Str) (a b : TyO) : TyO :=
  if op = ARROW then .node .arrow [a, b] else .node (.generic op true) [a, b]

/-! ## the documented notation -/

inductive TyExpr where
  | prim (n : Str)                       -- int
  | var (n : Str)                        -- 'a
  | fvar (n : Str) (r : TyExpr)          -- 'a[r]
  | infx (op : Str) (a b : TyExpr)       -- a op b, right associative; op = "->" is the arrow
  | generic (n : Str) (a : TyExpr)       -- a n      (postfix, e.g. `int list`)
  | optional (a : TyExpr)                -- a optional
  | union (a b : TyExpr)                 -- a | b
  deriving DecidableEq, Repr, Inhabited

namespace TyExpr

def arrow (a b : TyExpr) : TyExpr := .infx ARROW a b

/-- ⟦e⟧ : the type object denoted by `e`.  N-ary functions are right-nested arrows because
    `a -> b -> c` *is* the tree `infx "->" a (infx "->" b c)`. -/
def denote : TyExpr → TyO
  | prim n => TyO.prim n
  | var n => TyO.poly n
  | fvar n r => .node (.fpoly n) [denote r]
  | infx op a b => mkInfix op (denote a) (denote b)
  | generic n a => .node (.generic n false) [denote a]
  | optional a => tyOptional (denote a)
  | union a b => tyOr (denote a) (denote b)

/-- syntactic classes of the notation (which sub-expressions need parentheses):
    3 = closed (`int`, `'a`, parenthesised), 2 = `'a[r]` (may start a postfix chain but may not
    follow `|`), 1 = postfix chain (`t list`, `t optional`, `t | u`), 0 = infix chain. -/
def level : TyExpr → Nat
  | prim _ => 3
  | var _ => 3
  | fvar _ _ => 2
  | infx _ _ _ => 0
  | generic _ _ => 1
  | optional _ => 1
  | union _ _ => 1

end TyExpr

/-! ## token streams

  The tokenizer of type_helper.py cuts a text into tokens; a parenthesis / bracket token
  carries the enclosed text, which is parsed recursively.  A token tree keeps the tokens of
  the enclosed text as kids. -/

inductive TokL where
  | name (w : Str)      -- _TOK_NONE
  | pvar (w : Str)      -- _TOK_POLYMORPHIC (without the quote)
  | op (w : Str)        -- _TOK_INFIX
  | bar                 -- _TOK_OR
  | paren               -- _TOK_PARENTHESIS, kids = tokens of the enclosed text
  | brack               -- _TOK_BRACKETS,   kids = tokens of the enclosed text
  deriving DecidableEq, Repr, Inhabited

abbrev Tok := Tree TokL

namespace TyExpr

/-- parenthesise a token list unless the place accepts it as it is -/
def wrap (ok : Bool) (body : List Tok) : List Tok := if ok then body else [.node .paren body]

/-- tokens of `e` when it is written at a place that accepts class `lvl` or higher
    (parenthesised if its own class `level e` is lower) -/
def toksAt : Nat → TyExpr → List Tok
  | _, prim n => [.node (.name n) []]
  | _, var n => [.node (.pvar n) []]
  | lvl, fvar n r => wrap (lvl ≤ 2) [.node (.pvar n) [], .node .brack (toksAt 0 r)]
  | lvl, infx op a b => wrap (lvl ≤ 0) (toksAt 1 a ++ [.node (.op op) []] ++ toksAt 0 b)
  | lvl, generic n a => wrap (lvl ≤ 1) (toksAt 1 a ++ [.node (.name n) []])
  | lvl, optional a => wrap (lvl ≤ 1) (toksAt 1 a ++ [.node (.name OPTIONAL) []])
  | lvl, union a b => wrap (lvl ≤ 1) (toksAt 1 a ++ [.node .bar []] ++ toksAt 3 b)

/-- the token stream of a whole type expression -/
def toks (e : TyExpr) : List Tok := toksAt 0 e

end TyExpr

/-! ## concrete text with arbitrary spacing -/

/-- a spacing: how many blanks to write at the k-th place where blanks may be written
    (before/after every token).  Where a blank is mandatory (between two words) one more is
    added. -/
abbrev Spacing := Nat → Nat

def blanks (n : Nat) : Str := List.replicate n ' '

/-- does the rendered token end / start with a word character (so that a blank is needed
    between two of them)? -/
def Tok.endsWord : Tok → Bool
  | .node (.name _) _ => true
  | .node (.pvar _) _ => true
  | _ => false
def Tok.startsWord : Tok → Bool
  | .node (.name _) _ => true
  | _ => false

mutual
  /-- text of one token; returns the text and the next free spacing index -/
  def renderTok (sp : Spacing) : Tok → Nat → Str × Nat
    | .node (.name w) _, k => (w, k)
    | .node (.pvar w) _, k => ('\'' :: w, k)
    | .node (.op w) _, k => (w, k)
    | .node .bar _, k => (['|'], k)
    | .node .paren ks, k =>
      let (s, k') := renderToks sp ks none k
      ('(' :: s ++ [')'], k')
    | .node .brack ks, k =>
      let (s, k') := renderToks sp ks none k
      ('[' :: s ++ [']'], k')
  /-- text of a token list: `sp k` blanks before every token (one more between two words),
      and `sp k'` blanks after the last one.  `prev` = the previous token ended with a word
      character. -/
  def renderToks (sp : Spacing) : List Tok → Option Bool → Nat → Str × Nat
    | [], _, k => (blanks (sp k), k + 1)
    | t :: ts, prev, k =>
      let need : Nat := if prev = some true && Tok.startsWord t then 1 else 0
      let (s, k1) := renderTok sp t (k + 1)
      let (r, k2) := renderToks sp ts (some (Tok.endsWord t)) k1
      (blanks (sp k + need) ++ s ++ r, k2)
end

/-- the text of `e` under spacing `sp` -/
def render (sp : Spacing) (e : TyExpr) : Str := (renderToks sp e.toks none 0).1

/-! ## well-formed names (decidable guards of the theorems) -/

def isAlpha (c : Char) : Bool := ('a' ≤ c && c ≤ 'z') || ('A' ≤ c && c ≤ 'Z')
def isDigit (c : Char) : Bool := '0' ≤ c && c ≤ '9'
def isWordChar (c : Char) : Bool := isAlpha c || isDigit c || c == '_'
/-- Python `str.strip()` white space, ASCII part -/
def isSpace (c : Char) : Bool :=
  c == ' ' || c == '\t' || c == '\n' || c == '\r' || c == '\x0b' || c == '\x0c' ||
  c == '\x1c' || c == '\x1d' || c == '\x1e' || c == '\x1f'

/-- a word: a letter followed by letters, digits, underscores -/
def goodName (w : Str) : Bool :=
  match w with
  | [] => false
  | c :: r => isAlpha c && r.all isWordChar

/-- characters allowed in an infix operator: printable symbols that are neither word
    characters nor one of the notation's own delimiters -/
def isOpChar (c : Char) : Bool :=
  !(isAlpha c || isDigit c || isSpace c) && c != '_' && c != '\'' && c != '(' && c != ')' &&
  c != '[' && c != ']' && c != '|'
def goodOp (w : Str) : Bool := !w.isEmpty && w.all isOpChar

namespace TyExpr
/-- decidable well-formedness of an expression: names are words, type-variable names are
    words, operators are operator symbols, `optional` is not used as a generic's name -/
def wf : TyExpr → Bool
  | prim n => goodName n
  | var n => goodName n
  | fvar n r => goodName n && wf r
  | infx op a b => goodOp op && wf a && wf b
  | generic n a => goodName n && n != OPTIONAL && wf a
  | optional a => wf a
  | union a b => wf a && wf b
end TyExpr

end PS.C15
