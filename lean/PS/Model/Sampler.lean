/-
  C09 — sampling.  Executable model (core Lean only) of

    synth/utils/vose_polyfill.py:5-68          PythonSampler (alias tables, biased coin)
    synth/generation/sampler.py:41-152         LexiconSampler / ListSampler / UnionSampler
    synth/syntax/grammars/tagged_det_grammar.py:158-210   ProbDetGrammar.init_sampling / sample_program
    synth/syntax/grammars/tagged_u_grammar.py:175-254     ProbUGrammar.init_sampling / sample_program

  The model describes the code WITH the proposed fix C09-F2 applied (proposed_fixes/C09-F2.diff:
  `avg = np.sum(weights) / n`, `proba[less] = weights[less] / avg`, private copy of the weights);
  `buildOld` keeps the former `avg = 1.0 / n` for the finding theorem.
  Floats are modelled by exact rationals (`Rat`): the harness only compares tables exactly where
  the float computation is exact (dyadic weights, power-of-two totals) and within 1e-9 otherwise.
  numpy arrays are lists, `a[i] = v` is `List.set`, `a[i]` is `getD i 0` (indices are in range:
  theorem `PS.Sampler.build_lengths`), `list.pop(0)` is pattern matching on the head,
  `list.append(x)` is `++ [x]`.  Random draws are *inputs* of the model (the values returned by
  `rng.uniform`, resp. the indices returned by the alias samplers), so that every function of
  the model is a function of the draw streams: "same seed ⇒ same sequence" holds by construction.
-/
import PS.Basic
import PS.Model.Tree
namespace PS.Sampler

/-! ## PythonSampler (vose_polyfill.py) -/

/-- `self.alias`, `self.proba` -/
structure Tables where
  alias : List Nat
  proba : List Rat
  deriving Repr, DecidableEq

/-- the three arrays of `__init__` while the tables are being filled -/
structure St where
  weights : List Rat
  alias : List Nat
  proba : List Rat
  deriving Repr, DecidableEq

/-- `avg = np.sum(weights) / n` (vose_polyfill.py:15) -/
def avgOf (ws : List Rat) : Rat := ws.sum / (ws.length : Rat)

/-- one iteration of `while len(small) > 0 and len(large) > 0` (vose_polyfill.py:29-46),
    returning the new work lists and arrays -/
def pairStep (avg : Rat) (less more : Nat) (small large : List Nat) (st : St) :
    List Nat × List Nat × St :=
  let wl := st.weights.getD less 0
  -- proba[less] = weights[less] / avg ; alias[less] = more
  let proba := st.proba.set less (wl / avg)
  let alias := st.alias.set less more
  -- weights[more] = weights[more] + weights[less] - avg
  let wm := st.weights.getD more 0 + wl - avg
  let weights := st.weights.set more wm
  if wm ≥ avg then (small, large ++ [more], ⟨weights, alias, proba⟩)
  else (small ++ [more], large, ⟨weights, alias, proba⟩)

/-- the pairing loop; every iteration pops two indices and pushes one, so `|small|+|large|`
    iterations always suffice (`fuel`; theorem `pairLoop_exit`: with that much fuel one of the
    lists is empty at exit, as in Python). -/
def pairLoop (avg : Rat) : Nat → List Nat → List Nat → St → List Nat × List Nat × St
  | fuel + 1, less :: small, more :: large, st =>
    let r := pairStep avg less more small large st
    pairLoop avg fuel r.1 r.2.1 r.2.2
  | _, small, large, st => (small, large, st)

/-- `while len(l) > 0: j = l.pop(0); proba[j] = 1.0` (vose_polyfill.py:50-55) -/
def drain (l : List Nat) (proba : List Rat) : List Rat :=
  l.foldl (fun p j => p.set j 1) proba

/-- the initial classification `for i in range(n): if weights[i] >= avg: large.append(i) else: small.append(i)` -/
def initSmall (avg : Rat) (ws : List Rat) : List Nat :=
  (List.range ws.length).filter (fun i => !decide (ws.getD i 0 ≥ avg))
def initLarge (avg : Rat) (ws : List Rat) : List Nat :=
  (List.range ws.length).filter (fun i => decide (ws.getD i 0 ≥ avg))

def initSt (ws : List Rat) : St :=
  ⟨ws, List.replicate ws.length 0, List.replicate ws.length 0⟩

/-- the state when the pairing loop exits -/
def buildLoop (ws : List Rat) : List Nat × List Nat × St :=
  let avg := avgOf ws
  pairLoop avg ws.length (initSmall avg ws) (initLarge avg ws) (initSt ws)

/-- `PythonSampler.__init__` : weights ↦ (alias, proba) -/
def build (ws : List Rat) : Tables :=
  let r := buildLoop ws
  ⟨r.2.2.alias, drain r.2.1 (drain r.1 r.2.2.proba)⟩

/-- the tables before fix C09-F2: `avg = 1.0 / n` (and `proba[less] = weights[less] * n`) whatever
    the total of the weights -/
def buildOld (ws : List Rat) : Tables :=
  let avg : Rat := 1 / (ws.length : Rat)
  let r := pairLoop avg ws.length (initSmall avg ws) (initLarge avg ws) (initSt ws)
  ⟨r.2.2.alias, drain r.2.1 (drain r.1 r.2.2.proba)⟩

/-- `col = int(self.rng.uniform(0, self.n))` for the value `x ≥ 0` returned by the generator -/
def colOf (x : Rat) : Nat := x.floor.toNat

/-- `sample_1` after the column is known: `heads = uniform() < proba[col]`;
    `return col if heads else alias[col]` (vose_polyfill.py:61-69) -/
def sample1 (T : Tables) (col : Nat) (u : Rat) : Nat :=
  if u < T.proba.getD col 0 then col else T.alias.getD col 0

/-- `sample_1` as a function of the two values returned by `rng.uniform(0, n)` and `rng.uniform()` -/
def sample1U (T : Tables) (x u : Rat) : Nat := sample1 T (colOf x) u

/-- `sample(k)` as a function of the scripted generator output -/
def sampleMany (T : Tables) (draws : List (Rat × Rat)) : List Nat :=
  draws.map (fun d => sample1U T d.1 d.2)

/-! ### Specification: the distribution induced by a pair of tables

  The column is uniform on `0..n-1`; given the column, `u` is uniform on `[0,1)`, so that heads
  has probability `proba[col]` (for `0 ≤ proba[col] ≤ 1`: theorem `C09_proba_range`).  -/

def ind (b : Bool) (x : Rat) : Rat := if b then x else 0

/-- mass that column `col` sends to outcome `k` (in units of one column) -/
def colMass (T : Tables) (k col : Nat) : Rat :=
  ind (col == k) (T.proba.getD col 0) + ind (T.alias.getD col 0 == k) (1 - T.proba.getD col 0)

/-- `P[sample_1() = k]` -/
def aliasDist (T : Tables) (k : Nat) : Rat :=
  (((List.range T.proba.length).map (colMass T k)).sum) / (T.proba.length : Rat)

/-- the normalised weight vector (what the statement asks the long-run frequencies to be) -/
def normalised (ws : List Rat) (k : Nat) : Rat := ws.getD k 0 / ws.sum

/-- the measure of `{u ∈ [0,1) | u < p}` -/
def clamp01 (p : Rat) : Rat := if p < 0 then 0 else if 1 < p then 1 else p

/-- counting version of the coin: among the `m` equally spaced values `0/m … (m-1)/m` of `u`,
    how many make `sample_1` return `k` in column `col` -/
def coinCount (T : Tables) (m col k : Nat) : Nat :=
  ((List.range m).filter (fun (i : Nat) => sample1 T col ((i : Rat) / (m : Rat)) == k)).length

/-! ## Value samplers (generation/sampler.py) -/

/-- `LexiconSampler.__init__`: `probabilites` if given (and non-empty), else uniform `1/len` -/
def lexWeights (len : Nat) (probs : Option (List Rat)) : List Rat :=
  match probs with
  | some (p :: ps) => p :: ps
  | _ => List.replicate len (1 / (len : Rat))

/-- `LexiconSampler.sample`: `self.lexicon[self.sampler.sample()]` as a function of the index drawn -/
def lexSample {α : Type} (lexicon : List α) (index : Nat) : Option α := lexicon[index]?

/-- distribution of the *value* returned by a LexiconSampler (equal entries add up) -/
def lexDist {α : Type} [DecidableEq α] (lexicon : List α) (probs : Option (List Rat)) (v : α) : Rat :=
  let T := build (lexWeights lexicon.length probs)
  (((List.range lexicon.length).filter (fun i => lexicon[i]? == some v)).map (aliasDist T)).sum

/-- what the statement says it should be -/
def lexSpec {α : Type} [DecidableEq α] (lexicon : List α) (probs : Option (List Rat)) (v : α) : Rat :=
  let ws := lexWeights lexicon.length probs
  (((List.range lexicon.length).filter (fun i => lexicon[i]? == some v)).map (normalised ws)).sum

/-- `ListSampler.__init__`: `[(i+1, p) for i, p in enumerate(probabilities)]` unless pairs are given -/
def lengthTable (probs : List Rat) : List (Nat × Rat) :=
  (List.range probs.length).map (fun i => (i + 1, probs.getD i 0))

/-- types seen by the value samplers: a base type or `List` of a type (`Generic.depth` does not
    count the `list` constructor, so every such type has depth 1) -/
inductive VTy where
  | base : String → VTy
  | list : VTy → VTy
  deriving Repr, DecidableEq

/-- values: `Tree` with label `none` for a Python list, `some v` for an element -/
abbrev Val := Tree (Option String)

/-- draw streams of a ListSampler: indices returned by the length sampler (in call order), and the
    values returned by the element sampler (in call order) -/
structure LDraws where
  lens : List Nat
  elems : List String
  deriving Repr

/-- `[f() for _ in range(k)]` threading the draw state -/
def repeatM {σ β : Type} (f : σ → Option (β × σ)) : Nat → σ → Option (List β × σ)
  | 0, s => some ([], s)
  | k + 1, s =>
    match f s with
    | none => none
    | some (b, s1) =>
      match repeatM f k s1 with
      | none => none
      | some (bs, s2) => some (b :: bs, s2)

/-- `self.element_sampler.sample(type=…)` : next scripted value -/
def popElem (d : LDraws) : Option (Val × LDraws) :=
  match d.elems with
  | [] => none
  | e :: r => some (Tree.leaf (some e), { d with elems := r })

/-- `ListSampler.sample_for` (sampler.py:121-131); `mapping` = `_length_mapping`.
    `none` = AssertionError (max_depth) / IndexError / script exhausted. -/
def listSampleFor (maxDepth : Int) (mapping : List Nat) : VTy → LDraws → Option (Val × LDraws)
  | .base _, d => if maxDepth < 0 ∨ 1 ≤ maxDepth then popElem d else none
  | .list t, d =>
    if maxDepth < 0 ∨ 1 ≤ maxDepth then
      -- length = self._length_mapping[self.sampler.sample()]
      match d.lens with
      | [] => none
      | i :: r =>
        match mapping[i]? with
        | none => none
        | some len =>
          let d1 : LDraws := { d with lens := r }
          -- sampler = self if the element type is a list, else the element sampler
          let f : LDraws → Option (Val × LDraws) :=
            match t with
            | .list _ => listSampleFor maxDepth mapping t
            | .base _ => popElem
          match repeatM f len d1 with
          | none => none
          | some (vs, d2) => some (Tree.node none vs, d2)
    else none

/-- `UnionSampler.sample_for`: `self.samplers.get(type, self.fallback)`; `none` = AssertionError -/
def unionPick {σ : Type} (samplers : AList VTy σ) (fallback : Option σ) (t : VTy) : Option σ :=
  match AList.lookup t samplers with
  | some s => some s
  | none => fallback

/-! ## Grammar sampling (ProbDetGrammar) over a local grammar type

  Non-terminals and symbols are numbered by the harness in the iteration order of `self.tags`.
  `rules[S][P] = (args, weight)`.  The sampler of non-terminal `S` is `vose_samplers[S]`; its
  successive outputs are the stream `draws[S]`. -/

abbrev NT := Nat
abbrev Sym := Nat
abbrev DetG := AList NT (AList Sym (List NT × Rat))
abbrev Draws := AList NT (List Nat)

/-- `self.vose_samplers[S].sample()` : next index of the stream of `S` -/
def popDraw (d : Draws) (S : NT) : Option (Nat × Draws) :=
  match AList.lookup S d with
  | some (i :: r) => some (i, AList.insert S r d)
  | _ => none

/-- `CFG.derive(information, S, P)` (ttcfg.py:50-65 with the trivial state): push the arguments,
    pop the next non-terminal; `next = none` stands for the `UnknownType` non-terminal returned
    at the end of a derivation. `none` = KeyError. -/
def derive (G : DetG) (info : List NT) (S : NT) (P : Sym) : Option (List NT × Option NT) :=
  match (AList.lookup S G).bind (AList.lookup P) with
  | none => none
  | some (args, _) =>
    match args ++ info with
    | [] => some ([], none)
    | x :: r => some (r, some x)

/- `DetGrammar.derive_all(information, S, P)` (det_grammar.py:159-184), returning the new
    information and `current[-1]`. -/
mutual
  def deriveAll (G : DetG) (info : List NT) (S : Option NT) : Tree Sym → Option (List NT × Option NT)
    | .node P kids =>
      match S with
      | none => none
      | some s =>
        match derive G info s P with
        | none => none
        | some (info1, next) => deriveAllList G info1 next kids
  def deriveAllList (G : DetG) (info : List NT) (S : Option NT) : List (Tree Sym) → Option (List NT × Option NT)
    | [] => some (info, S)
    | t :: ts =>
      match deriveAll G info S t with
      | none => none
      | some (info1, next) => deriveAllList G info1 next ts
end

/-- `for _ in range(nargs): arg = self.sample_program(current, information); arguments.append(arg);
    information, lst = self.grammar.derive_all(information, current, arg); current = lst[-1]`
    (tagged_det_grammar.py:204-208), `rec` being the recursive call of `sample_program` -/
def sampleArgsWith (G : DetG) (rec : Draws → NT → List NT → Option (Tree Sym × Draws)) :
    Nat → Draws → Option NT → List NT → Option (List (Tree Sym) × Draws)
  | 0, d, _, _ => some ([], d)
  | k + 1, d, cur, info =>
    match cur with
    | none => none
    | some c =>
      match rec d c info with
      | none => none
      | some (arg, d1) =>
        match deriveAll G info (some c) arg with
        | none => none
        | some (info1, cur1) =>
          match sampleArgsWith G rec k d1 cur1 info1 with
          | none => none
          | some (args, d2) => some (arg :: args, d2)

/-- `ProbDetGrammar.sample_program(S, information)` (tagged_det_grammar.py:190-210).
    `fuel` bounds the recursion depth (the grammar may be cyclic); `none` = fuel or a draw stream
    exhausted, or an exception. -/
def sampleDet (G : DetG) : Nat → Draws → NT → List NT → Option (Tree Sym × Draws)
  | 0, _, _, _ => none
  | fuel + 1, d, S, info =>
    -- i = self.vose_samplers[S].sample(); P = self.sampling_map[S][i]
    match popDraw d S with
    | none => none
    | some (i, d1) =>
      match (AList.lookup S G).bind (fun r => r[i]?) with
      | none => none
      | some (P, (args, _)) =>
        -- nargs = self.arguments_length_for(S, P); if nargs == 0: return P
        if args.length = 0 then some (Tree.leaf P, d1)
        else
          -- information, current = self.grammar.derive(information, S, P)
          match derive G info S P with
          | none => none
          | some (info1, cur) =>
            match sampleArgsWith G (sampleDet G fuel) args.length d1 cur info1 with
            | none => none
            | some (kids, d2) => some (Tree.node P kids, d2)

/-- `sample_program()` from the start symbol -/
def sampleProgram (G : DetG) (fuel : Nat) (d : Draws) (start : NT) : Option (Tree Sym × Draws) :=
  sampleDet G fuel d start []

/-- `n` successive calls of `sample_program()` -/
def sampleSeq (G : DetG) (fuel : Nat) (start : NT) : Nat → Draws → List (Option (Tree Sym))
  | 0, _ => []
  | n + 1, d =>
    match sampleProgram G fuel d start with
    | none => [none]
    | some (t, d1) => some t :: sampleSeq G fuel start n d1

/-! ### Specification: membership and probability, stated without the information stack -/

/- `t ∈ L(G, S)`: the root symbol has a rule at `S` and the i-th argument is derived from the
    i-th non-terminal of the rule -/
mutual
  def derives (G : DetG) (S : NT) : Tree Sym → Bool
    | .node P kids =>
      match (AList.lookup S G).bind (AList.lookup P) with
      | none => false
      | some (args, _) => derivesList G args kids
  def derivesList (G : DetG) : List NT → List (Tree Sym) → Bool
    | [], [] => true
    | a :: as, t :: ts => derives G a t && derivesList G as ts
    | _, _ => false
end

/- product of the weights of the rules used (0 outside the language): what
    `ProbDetGrammar.probability` reports -/
mutual
  def prob (G : DetG) (S : NT) : Tree Sym → Rat
    | .node P kids =>
      match (AList.lookup S G).bind (AList.lookup P) with
      | none => 0
      | some (args, w) => w * probList G args kids
  def probList (G : DetG) : List NT → List (Tree Sym) → Rat
    | [], [] => 1
    | a :: as, t :: ts => prob G a t * probList G as ts
    | _, _ => 0
end

/-- finite distributions as association lists value ↦ mass (masses of equal values add up) -/
abbrev Dist (α : Type) := List (α × Rat)

def Dist.mass {α : Type} [DecidableEq α] (d : Dist α) (x : α) : Rat :=
  (d.map (fun p => if p.1 = x then p.2 else 0)).sum

/-- independent product of the argument distributions -/
def distArgs (f : NT → Dist (Tree Sym)) : List NT → Dist (List (Tree Sym))
  | [] => [([], 1)]
  | a :: as =>
    (f a).flatMap (fun tw => (distArgs f as).map (fun kw => (tw.1 :: kw.1, tw.2 * kw.2)))

/-- the distribution of `sample_program` when every call of `vose_samplers[S].sample()` is an
    independent draw with distribution `tags[S]` (that is what `C09_alias` gives for the fallback
    sampler with ideal uniform draws): depth-`fuel` unfolding of the sampler in the distribution
    monad.  Mass that needs more than `fuel` levels is dropped. -/
def sampleDist (G : DetG) : Nat → NT → Dist (Tree Sym)
  | 0, _ => []
  | fuel + 1, S =>
    match AList.lookup S G with
    | none => []
    | some rules =>
      rules.flatMap (fun r =>
        (distArgs (sampleDist G fuel) r.2.1).map (fun kw => (Tree.node r.1 kw.1, r.2.2 * kw.2)))

end PS.Sampler
