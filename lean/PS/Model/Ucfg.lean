/-
  Unambiguous context-free grammars (properties C04, C06, C08, C17).
  Model of synth/syntax/grammars/u_grammar.py (UGrammar) and u_cfg.py (UCFG), generic in the
  state component `U` of the non-terminals `(type, U)`.

  * `UCFG`          `starts` (a Python set: its iteration order is a parameter = the list order),
                    `rules : nt ↦ symbol ↦ list of alternative argument lists`,
                    `someStart` = `self._some_start` (only used in the end-of-derivation marker)
  * `derive`        `UCFG.derive` (u_cfg.py:136-156) with the pending stack `information`
  * `containsRec`   `UGrammar.__contains_rec__` (u_grammar.py:120-160) over possibility lists
  * `contains`      `program in grammar`
  * `reduceRec`     `UGrammar.__reduce_derivations_rec__` (u_grammar.py:291-338)
  * `reduceAll`     the alternatives collected by `reduce_derivations(…, start=None)`
  * `programs`      `UCFG.programs()` (u_cfg.py:173-196) with its memo table, fuelled
  * `fromCFG`       `UCFG.from_CFG(cfg, clean=False)` (u_cfg.py:254-268)
  * SPEC `derivs`   all top-down derivations of a term from a non-terminal, *without* the stack
  * SPEC `genU`, `langU`, `countU`, `boundedU`
-/
import PS.Model.Grammar
namespace PS.U
open PS PS.G

abbrev UNT (U : Type) := Ty × U

structure UCFG (U : Type) where
  starts : List (UNT U)
  rules : AList (UNT U) (AList Sym (List (List (UNT U))))
  someStart : UNT U

variable {U : Type} [DecidableEq U]

/-- `self.rules[S][P]`, `none` when `S not in self.rules or P not in self.rules[S]` -/
def UCFG.alts? (G : UCFG U) (nt : UNT U) (P : Sym) : Option (List (List (UNT U))) :=
  match AList.lookup nt G.rules with
  | none => none
  | some d => AList.lookup P d

/-- one candidate of `UCFG.derive`: `(new information, next non-terminal, args)` -/
def deriveOne (G : UCFG U) (info : List (UNT U)) (args : List (UNT U)) :
    List (UNT U) × UNT U × List (UNT U) :=
  match args with
  | a :: rest => (rest ++ info, a, args)
  | [] =>
    match info with
    | i :: rest => (rest, i, [])
    | [] => ([], (Ty.unknown, G.someStart.2), [])      -- end of a derivation

/-- `UCFG.derive(information, S, P)` -/
def derive (G : UCFG U) (info : List (UNT U)) (nt : UNT U) (P : Sym) :
    List (List (UNT U) × UNT U × List (UNT U)) :=
  match G.alts? nt P with
  | none => []
  | some cands => cands.map (deriveOne G info)

/-- the candidates with the right number of arguments, as `(information, next)` -/
def possibles (G : UCFG U) (info : List (UNT U)) (nt : UNT U) (P : Sym) (n : Nat) :
    List (List (UNT U) × UNT U) :=
  ((derive G info nt P).filter (fun d => d.2.2.length == n)).map (fun d => (d.1, d.2.1))

/- `UGrammar.__contains_rec__`.  A leaf `P` and `Function(P, [])` take the same path here
   (candidates with 0 arguments).  The list returned together with `False` is never read by a
   caller (`if contained: next_possibles += new_possibles`), so it is modelled as `[]`. -/
mutual
  def containsRec (G : UCFG U) : Prog → UNT U → List (UNT U) → Bool × List (List (UNT U) × UNT U)
    | .node f kids, start, info =>
      let poss := possibles G info start f kids.length
      if poss.isEmpty then (false, []) else containsArgs G kids poss
  def containsArgs (G : UCFG U) : List Prog → List (List (UNT U) × UNT U) →
      Bool × List (List (UNT U) × UNT U)
    | [], poss => (true, poss)
    | k :: ks, poss =>
      let next := poss.flatMap (fun p =>
        match containsRec G k p.2 p.1 with
        | (true, np) => np
        | (false, _) => [])
      if next.isEmpty then (false, []) else containsArgs G ks next
end

/-- `program in grammar`: `any(__contains_rec__(program, start, [])[0] for start in starts)` -/
def contains (G : UCFG U) (p : Prog) : Bool :=
  G.starts.any (fun s => (containsRec G p s []).1)

/-- an entry `(next, S, P, v, information)` of a derivation under construction -/
structure Step (U : Type) where
  next : UNT U
  nt : UNT U
  sym : Sym
  args : List (UNT U)
  info : List (UNT U)

/- `UGrammar.__reduce_derivations_rec__`: the list of all derivations (lists of steps) -/
mutual
  def reduceRec (G : UCFG U) : Prog → UNT U → List (UNT U) → List (List (Step U))
    | .node f kids, start, info =>
      reduceArgs G kids
        (((derive G info start f).filter (fun d => d.2.2.length == kids.length)).map
          (fun d => [⟨d.2.1, start, f, d.2.2, d.1⟩]))
  def reduceArgs (G : UCFG U) : List Prog → List (List (Step U)) → List (List (Step U))
    | [], poss => poss
    | k :: ks, poss =>
      reduceArgs G ks (poss.flatMap (fun p =>
        match p.getLast? with
        | none => []
        | some e => (reduceRec G k e.next e.info).map (fun alt => p ++ alt)))
end

/-- the `alternatives` of `reduce_derivations(reduce, init, program, start=None)`:
    concatenated over the start symbols in iteration order -/
def reduceAll (G : UCFG U) (p : Prog) : List (List (Step U)) :=
  G.starts.flatMap (fun s => reduceRec G p s [])

/-! ### `UCFG.programs()` -/

abbrev Memo (U : Type) := AList (UNT U) Nat

/-- `local = 1; for arg in args: local *= __compute__(arg)` (`c` = the recursive call) -/
def computeArgs (c : UNT U → Memo U → Option (Nat × Memo U)) :
    List (UNT U) → Nat → Memo U → Option (Nat × Memo U)
  | [], loc, memo => some (loc, memo)
  | a :: as, loc, memo =>
    match c a memo with
    | none => none
    | some (n, memo') => computeArgs c as (loc * n) memo'

/-- `for P …: for _, _, args in possibles: …; total += local` -/
def computeRules (c : UNT U → Memo U → Option (Nat × Memo U)) :
    List (List (UNT U)) → Nat → Memo U → Option (Nat × Memo U)
  | [], total, memo => some (total, memo)
  | args :: rest, total, memo =>
    match computeArgs c args 1 memo with
    | none => none
    | some (loc, memo') => computeRules c rest (total + loc) memo'

/-- `__compute__(state)` with the memo table `_counts` threaded; `none` = out of fuel
    (Python: RecursionError on a cyclic grammar). A state without rules counts 1 (sic). -/
def compute (G : UCFG U) : Nat → UNT U → Memo U → Option (Nat × Memo U)
  | 0, _, _ => none
  | fuel + 1, state, memo =>
    match AList.lookup state memo with
    | some c => some (c, memo)
    | none =>
      match AList.lookup state G.rules with
      | none => some (1, memo)
      | some rs =>
        match computeRules (compute G fuel) (rs.flatMap (fun r => r.2)) 0 memo with
        | none => none
        | some (total, memo') => some (total, AList.insert state total memo')

/-- `sum(__compute__(start) for start in self.starts)` -/
def programsFrom (G : UCFG U) (fuel : Nat) : List (UNT U) → Nat → Memo U → Option Nat
  | [], total, _ => some total
  | s :: ss, total, memo =>
    match compute G fuel s memo with
    | none => none
    | some (c, memo') => programsFrom G fuel ss (total + c) memo'

def programs (G : UCFG U) (fuel : Nat) : Option Nat := programsFrom G fuel G.starts 0 []

/-! ### `UCFG.from_CFG(cfg, clean=False)` -/

def fromCFG {S : Type} [DecidableEq S] (G : TT S Unit) : UCFG S :=
  { starts := [(G.start.1, G.start.2.1)],
    rules := G.rules.foldl (fun acc e =>
      AList.insert (e.1.1, e.1.2.1) (e.2.foldl (fun d r => AList.insert r.1 [r.2.1] d) []) acc) [],
    someStart := (G.start.1, G.start.2.1) }

/-! ### Specification -/

/-- a derivation without the stack: the rules used, in pre-order -/
abbrev Der (U : Type) := List (UNT U × Sym × List (UNT U))

/- **all derivations** of `t` from `nt` by plain top-down matching: choose an alternative of
   the head with as many arguments as `t` has children, derive child `i` from argument `i` -/
mutual
  def derivs (G : UCFG U) : Prog → UNT U → List (Der U)
    | .node f kids, nt =>
      match G.alts? nt f with
      | none => []
      | some cands => cands.flatMap (fun args =>
          (derivsList G kids args).map (fun r => (nt, f, args) :: r))
  def derivsList (G : UCFG U) : List Prog → List (UNT U) → List (Der U)
    | [], [] => [[]]
    | k :: ks, a :: as =>
      (derivs G k a).flatMap (fun d => (derivsList G ks as).map (fun r => d ++ r))
    | _, _ => []
end

/-- all derivations from all start symbols, each with its start symbol -/
def allDerivs (G : UCFG U) (t : Prog) : List (UNT U × Der U) :=
  G.starts.flatMap (fun s => (derivs G t s).map (fun d => (s, d)))

/-- membership -/
def genU (G : UCFG U) (t : Prog) : Bool := !(allDerivs G t).isEmpty

/-- the grammar is unambiguous on `t`: at most one derivation from at most one start -/
def unambiguousOn (G : UCFG U) (t : Prog) : Bool := (allDerivs G t).length ≤ 1

/-- terms derivable from `nt` within `k` levels, one entry per *derivation* -/
def langU (G : UCFG U) : Nat → UNT U → List Prog
  | 0, _ => []
  | k + 1, nt =>
    match AList.lookup nt G.rules with
    | none => []
    | some rs => rs.flatMap (fun r => r.2.flatMap (fun args =>
        (product (args.map (fun a => langU G k a))).map (fun kids => Tree.node r.1 kids)))

/-- the derivations of at most `k` levels from `nt`, each with the term it derives -/
def dersU (G : UCFG U) : Nat → UNT U → List (Prog × Der U)
  | 0, _ => []
  | k + 1, nt =>
    match AList.lookup nt G.rules with
    | none => []
    | some rs => rs.flatMap (fun r => r.2.flatMap (fun args =>
        (product (args.map (fun a => dersU G k a))).map (fun ks =>
          (Tree.node r.1 (ks.map (·.1)), (nt, r.1, args) :: (ks.map (·.2)).flatten))))

/-- number of derivations within `k` levels: Σ over rules and alternatives of Π over arguments -/
def countU (G : UCFG U) : Nat → UNT U → Nat
  | 0, _ => 0
  | k + 1, nt =>
    match AList.lookup nt G.rules with
    | none => 0
    | some rs => (rs.map (fun r => (r.2.map (fun args => (args.map (fun a => countU G k a)).prod)).sum)).sum

/-- every derivation from `nt` is complete within `k` levels -/
def boundedU (G : UCFG U) : Nat → UNT U → Bool
  | 0, _ => false
  | k + 1, nt =>
    match AList.lookup nt G.rules with
    | none => false
    | some rs => rs.all (fun r => r.2.all (fun args => args.all (fun a => boundedU G k a)))

end PS.U
