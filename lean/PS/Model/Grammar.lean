/-
  Shared grammar foundation (properties C01, C04, C13, C17, C06 build on it).

  * `Ty`      ground types after polymorphic instantiation (type_system.py: PrimitiveType,
              Arrow, unary Generic such as `list`, UnknownType) with `arguments`, `returns`,
              `endsWith` (type_system.py:132-157).
  * `Sym`     DerivableProgram = Primitive | Variable | Constant (program.py).
  * `Prog`    applicative terms `Function(head, args)` / leaves, as `PS.Tree Sym`.
  * `TT`      a TTCFG (ttcfg.py): non-terminals `(type, (S, T))`, rules
              `nt ↦ symbol ↦ (argument list, next state)`; a CFG is `TT CFGState Unit`.
  * `derive`, `containsRec` (det_grammar.py:112-143 after the arity fix), `reduceDerivations`,
    `deriveAll`.
  * `gen`     the specification of membership: plain top-down matching of the rule table.
  * `lang`, `count` enumeration / number of the terms derivable within a depth budget.
-/
import PS.Basic
import PS.Model.Tree
namespace PS.G
open PS

inductive Ty where
  | base (n : String)
  | arrow (a b : Ty)
  | gen (n : String) (arg : Ty)
  | unknown
  deriving DecidableEq, Repr, Inhabited

namespace Ty
/-- `Type.arguments()` -/
def arguments : Ty → List Ty
  | arrow a b => a :: b.arguments
  | _ => []
/-- `Type.returns()` -/
def returns : Ty → Ty
  | arrow _ b => b.returns
  | t => t
/-- `Type.ends_with_rec(other, acc)` (type_system.py:148-157) -/
def endsWithRec : Ty → Ty → List Ty → Option (List Ty)
  | arrow a b, other, acc =>
    if arrow a b = other then some acc else endsWithRec b other (acc ++ [a])
  | t, other, acc => if t = other then some acc else none
/-- `Type.ends_with(other)` -/
def endsWith (self other : Ty) : Option (List Ty) := endsWithRec self other []
/-- `FunctionType(*args, ret)` -/
def mkFun : List Ty → Ty → Ty
  | [], r => r
  | a :: as, r => arrow a (mkFun as r)
partial def toStr : Ty → String
  | base n => n
  | arrow a b => "(" ++ toStr a ++ " -> " ++ toStr b ++ ")"
  | gen n a => toStr a ++ " " ++ n
  | unknown => "UnknownType"
end Ty

inductive SymK where
  | prim | var | const
  deriving DecidableEq, Repr, Inhabited

/-- Primitive(name, ty) / Variable(idx, ty) / Constant(ty, value = name, "" when unassigned) -/
structure Sym where
  kind : SymK
  name : String
  idx  : Nat
  ty   : Ty
  deriving DecidableEq, Repr, Inhabited

def Sym.prim (n : String) (t : Ty) : Sym := ⟨.prim, n, 0, t⟩
def Sym.var (i : Nat) (t : Ty) : Sym := ⟨.var, "", i, t⟩
def Sym.const (t : Ty) (v : String) : Sym := ⟨.const, v, 0, t⟩

abbrev Prog := Tree Sym

/-! ### tree-traversing grammars -/

/-- non-terminal `(type, (S, T))` -/
abbrev NT (S T : Type) := Ty × (S × T)

structure TT (S T : Type) where
  start : NT S T
  rules : AList (NT S T) (AList Sym (List (Ty × S) × T))

variable {S T : Type} [DecidableEq S] [DecidableEq T]

def TT.rule? (G : TT S T) (nt : NT S T) (P : Sym) : Option (List (Ty × S) × T) :=
  match AList.lookup nt G.rules with
  | none => none
  | some rs => AList.lookup P rs

/-- `TTCFG.derive` (ttcfg.py:50-65), given the rule `(args, state)` already looked up:
    push the arguments on the pending stack, the next non-terminal is the top of the stack
    (with the rule's state); on an empty stack the derivation is over. -/
def deriveWith (info : List (Ty × S)) (start : NT S T) (args : List (Ty × S)) (st : T) :
    List (Ty × S) × NT S T :=
  match args ++ info with
  | (t, s) :: rest => (rest, (t, (s, st)))
  | [] => ([], (Ty.unknown, (start.2.1, st)))

def derive (G : TT S T) (info : List (Ty × S)) (start : NT S T) (P : Sym) :
    Option (List (Ty × S) × NT S T) :=
  match G.rule? start P with
  | none => none
  | some (args, st) => some (deriveWith info start args st)

/- `DetGrammar.__contains_rec__` (det_grammar.py:112-143, with the arity check):
    returns (contained, information, next). -/
mutual
  def containsRec (G : TT S T) : Prog → NT S T → List (Ty × S) → Bool × List (Ty × S) × NT S T
    | .node f kids, start, info =>
      match G.rule? start f with
      | none => (false, info, start)
      | some (args, st) =>
        if kids.length != args.length then (false, info, start) else
        containsList G kids (deriveWith info start args st).1 (deriveWith info start args st).2
  def containsList (G : TT S T) : List Prog → List (Ty × S) → NT S T → Bool × List (Ty × S) × NT S T
    | [], info, next => (true, info, next)
    | k :: ks, info, next =>
      match containsRec G k next info with
      | (false, i, n) => (false, i, n)
      | (true, i, n) => containsList G ks i n
end

/-- `program in grammar` -/
def contains (G : TT S T) (p : Prog) : Bool := (containsRec G p G.start []).1

/- **Specification of membership** for grammars whose state component is trivial (CFG):
    top-down matching of the rule table, argument i against the i-th non-terminal. -/
mutual
  def gen (G : TT S Unit) : Prog → NT S Unit → Bool
    | .node f kids, nt =>
      match G.rule? nt f with
      | none => false
      | some (args, _) => genList G kids args
  def genList (G : TT S Unit) : List Prog → List (Ty × S) → Bool
    | [], [] => true
    | k :: ks, (t, s) :: as => gen G k (t, (s, ())) && genList G ks as
    | _, _ => false
end

/- `reduce_derivations` (det_grammar.py:202-244): fold `f` over the rules of the derivation,
    in pre-order; `none` is the `KeyError` of a missing rule. -/
mutual
  def reduceRec {α : Type} (G : TT S T) (f : α → NT S T → Sym → (List (Ty × S) × T) → α) :
      α → Prog → NT S T → List (Ty × S) → Option (α × List (Ty × S) × NT S T)
    | v, .node h kids, start, info =>
      match G.rule? start h with
      | none => none
      | some (args, st) =>
        reduceList G f (f v start h (args, st)) kids (deriveWith info start args st).1
          (deriveWith info start args st).2
  def reduceList {α : Type} (G : TT S T) (f : α → NT S T → Sym → (List (Ty × S) × T) → α) :
      α → List Prog → List (Ty × S) → NT S T → Option (α × List (Ty × S) × NT S T)
    | v, [], info, next => some (v, info, next)
    | v, k :: ks, info, next =>
      match reduceRec G f v k next info with
      | none => none
      | some (v', i, n) => reduceList G f v' ks i n
end

def reduceDerivations {α : Type} (G : TT S T) (f : α → NT S T → Sym → (List (Ty × S) × T) → α)
    (init : α) (p : Prog) : Option α :=
  (reduceRec G f init p G.start []).map (·.1)

/- the list of (non-terminal, symbol) pairs of the unique top-down derivation: what
    `reduce_derivations` folds over, stated without the stack -/
mutual
  def derivation (G : TT S Unit) : Prog → NT S Unit → List (NT S Unit × Sym)
    | .node f kids, nt =>
      match G.rule? nt f with
      | none => []
      | some (args, _) => (nt, f) :: derivationList G kids args
  def derivationList (G : TT S Unit) : List Prog → List (Ty × S) → List (NT S Unit × Sym)
    | k :: ks, (t, s) :: as => derivation G k (t, (s, ())) ++ derivationList G ks as
    | _, _ => []
end

/-! ### enumeration and counting within a depth budget -/

/-- all ways to pick one element per list, leftmost varying slowest (itertools.product) -/
def product {α : Type} : List (List α) → List (List α)
  | [] => [[]]
  | l :: ls => l.flatMap (fun x => (product ls).map (fun r => x :: r))

/-- terms derivable from `nt` with at most `k` nested levels -/
def lang (G : TT S Unit) : Nat → NT S Unit → List Prog
  | 0, _ => []
  | k + 1, nt =>
    match AList.lookup nt G.rules with
    | none => []
    | some rs => rs.flatMap (fun r =>
        (product (r.2.1.map (fun a => lang G k (a.1, (a.2, ()))))).map (fun kids => Tree.node r.1 kids))

/-- number of such terms: Σ over rules Π over arguments -/
def count (G : TT S Unit) : Nat → NT S Unit → Nat
  | 0, _ => 0
  | k + 1, nt =>
    match AList.lookup nt G.rules with
    | none => 0
    | some rs => (rs.map (fun r => (r.2.1.map (fun a => count G k (a.1, (a.2, ())))).foldl (· * ·) 1)).sum

end PS.G
