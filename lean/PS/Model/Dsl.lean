/-
  Model of `DSL.instantiate_polymorphic_types` (synth/syntax/dsl.py:36-115) and of the type
  operations it uses (synth/syntax/type_system.py).  Literal transcription; Python `set`s are
  lists without repetition (`dedup`, insertion order) — the result, as a multiset, does not
  depend on the iteration order of these sets (the harness compares sorted multisets under
  several PYTHONHASHSEEDs).  Core Lean only.
-/
import PS.Model.Ty
namespace PS.Dsl
open PS Ty

/-- a primitive of the DSL: name and type -/
abbrev Prim := String × Ty

section Lists
variable {α : Type} [DecidableEq α]

/-- `if x not in l: l.append(x)` -/
def insertNew (x : α) (l : List α) : List α := if x ∈ l then l else l ++ [x]

/-- `for x in xs: if x not in acc: acc.append(x)` -/
def appendNew (acc xs : List α) : List α := xs.foldl (fun a x => insertNew x a) acc

/-- the elements of a Python `set` built from `xs` (each once) -/
def dedup (xs : List α) : List α := appendNew [] xs

/-- `itertools.product(*xss)` -/
def product : List (List α) → List (List α)
  | [] => [[]]
  | xs :: rest => xs.flatMap (fun x => (product rest).map (x :: ·))

/-- The shape shared by the two expansion loops of dsl.py (66-90 and 93-101):
    ```
    for P in L[:]:
        if test(P):
            for x in exp(P):
                if x not in L: L.append(x)
            L.remove(P)
    ``` -/
def expandStep (test : α → Bool) (exp : α → List α) (acc : List α) (p : α) : List α :=
  if test p then (appendNew acc (exp p)).erase p else acc

def expandPass (test : α → Bool) (exp : α → List α) (L : List α) : List α :=
  L.foldl (expandStep test exp) L

end Lists

/-! ### type_system.py -/

mutual
  /-- first component of `decompose_type` (type_system.py:94-110, 190-194, 277-281, 321-327,
      404-410, 525-531, 611-615): the `PrimitiveType`s, not looking into the restriction
      list of a type variable -/
  def basics : Ty → List Ty
    | .node l ks =>
      match l with
      | .prim _ => [.node l ks]
      | _ => if isInnerL l then basicsList ks else []
  def basicsList : List Ty → List Ty
    | [] => []
    | t :: ts => basics t ++ basicsList ts
end

mutual
  /-- second component of `decompose_type`: the type variables -/
  def polys : Ty → List Ty
    | .node l ks =>
      if isVarL l then [.node l ks] else if isInnerL l then polysList ks else []
  def polysList : List Ty → List Ty
    | [] => []
    | t :: ts => polys t ++ polysList ts
end

mutual
  /-- `t.unify({n: v})` (type_system.py:112-120 default; 199-200 `unifier.get(self.name, self)`;
      332-333, 442-443, 536-537 component-wise) -/
  def unify (n : String) (v : Ty) : Ty → Ty
    | .node l ks =>
      if isVarL l then (if l.name = n then v else .node l ks)
      else if isInnerL l then .node l (unifyList n v ks) else .node l ks
  def unifyList (n : String) (v : Ty) : List Ty → List Ty
    | [] => []
    | t :: ts => unify n v t :: unifyList n v ts
end

def isSumOrFixed (o : Ty) : Bool :=
  match o.label with
  | .sum | .fpoly _ => true
  | _ => false

mutual
  /-- `o.is_instance(x)` for a type `x`, i.e. `x.__arg_is_a__(o)`
      (type_system.py:55-69; 67-68 default `other == self`; 171-172 PolymorphicType;
      228-231 FixedPolymorphicType; 294-298 Sum; 387-392 Arrow; 493-498 Generic) -/
  def isInst (o : Ty) : Ty → Bool
    | .node l ks =>
      match l with
      | .prim _ | .unknown => o == .node l ks
      | .poly _ => true
      | .fpoly _ | .sum =>
        if isSumOrFixed o then o.kids.all (fun x => anyInst x ks) else anyInst o ks
      | .arrow =>
        match ks, o with
        | [a, b], .node .arrow [oa, ob] => isInst oa a && isInst ob b
        | _, _ => false
      | .generic n =>
        o.label == .generic n && o.kids.all (fun tt => anyInst tt ks)
  def anyInst (o : Ty) : List Ty → Bool
    | [] => false
    | t :: ts => isInst o t || anyInst o ts
end

/-- `q.can_be(o)` for a type variable `q` (type_system.py:202-206 True; 236-239 restricted) -/
def canBe (q o : Ty) : Bool :=
  match q.label with
  | .fpoly _ =>
    if isSumOrFixed o then o.kids.all (fun x => anyInst x q.kids) else anyInst o q.kids
  | _ => true

mutual
  /-- `all_versions` (type_system.py:87-92 default `[self]`; 288-292 Sum: concatenation;
      380-383 Arrow and 480-487 Generic: product of the components' versions) -/
  def versions : Ty → List Ty
    | .node l ks =>
      match l with
      | .sum => versionsCat ks
      | .arrow | .generic _ => (product (versionsEach ks)).map (.node l)
      | _ => [.node l ks]
  def versionsCat : List Ty → List Ty
    | [] => []
    | t :: ts => versions t ++ versionsCat ts
  def versionsEach : List Ty → List (List Ty)
    | [] => []
    | t :: ts => versions t :: versionsEach ts
end

/-- `without_unit_arguments` (type_system.py:48-49 default; Arrow 428-435).  Note the second
    branch: an argument that is itself a function *returning* unit is replaced by that
    function's argument type (finding C14-F4).  `fx = true`: the code with the repair proposed
    in fixes_proposed/C14-F4.diff (that `elif` branch removed); the harness probes the
    implementation and asks the driver for the same variant. -/
def withoutUnit (fx : Bool) : Ty → Ty
  | .node .arrow [a, b] =>
    let out := withoutUnit fx b
    if a = Ty.unit then out
    else match a with
      | .node .arrow [x, y] => if y = Ty.unit && !fx then Ty.arrow x out else Ty.arrow a out
      | _ => Ty.arrow a out
  | t => t

/-! ### dsl.py:36-115 (with the proposed repairs C14-F2, C14-F3) -/

/-- dsl.py:45-51: the PrimitiveTypes of all declared types, `UNIT` removed -/
def basicTypes (P : List Prim) : List Ty :=
  (dedup (P.flatMap (fun p => basics p.2))).filter (fun b => b != Ty.unit)

/-- dsl.py:53-62: `set_types` -/
def typeUniverse (B : List Ty) : List Ty :=
  dedup (B ++ B.flatMap (fun b => [Ty.list b, Ty.list (Ty.list b)] ++ B.map (Ty.arrow b)))

/-- dsl.py:73-83: `all(q.can_be(type_) for q in same_name)` — every variable of the
    primitive's type that carries the name `n` accepts `t` -/
def admissible (vars : List Ty) (n : String) (t : Ty) : Bool :=
  vars.all (fun q => q.label.name != n || canBe q t)

/-- dsl.py:71-90: one round of the loop `for poly_type in set_polymorphic_types_P` -/
def instVar (U : List Ty) (bound : Nat) (vars : List Ty) (insts : List Ty) (pv : Ty) : List Ty :=
  dedup ((U.filter (fun t => admissible vars pv.label.name t && Ty.size t ≤ bound)).flatMap
    (fun t => insts.map (unify pv.label.name t)))

/-- dsl.py:68-90: `set_instantiated_types` after the loop over the type variables -/
def instType (U : List Ty) (bound : Nat) (t : Ty) : List Ty :=
  let vars := dedup (polys t)
  vars.foldl (instVar U bound vars) [t]

def hasVars (p : Prim) : Bool := !(polys p.2).isEmpty

/-- dsl.py:64-95 -/
def varPass (U : List Ty) (bound : Nat) (L : List Prim) : List Prim :=
  expandPass hasVars (fun p => (instType U bound p.2).map (fun t => (p.1, t))) L

def manyVersions (p : Prim) : Bool := decide (1 < (versions p.2).length)

/-- dsl.py:97-105 -/
def sumPass (L : List Prim) : List Prim :=
  expandPass manyVersions (fun p => (versions p.2).map (fun t => (p.1, t))) L

def hasUnitArg (t : Ty) : Bool := (arguments t).any (fun a => a == Ty.unit)

def unitStep (fx : Bool) (p : Prim) : Prim := if hasUnitArg p.2 then (p.1, withoutUnit fx p.2) else p

/-- dsl.py:107-116 -/
def unitPass (fx : Bool) (L : List Prim) : List Prim := dedup (L.map (unitStep fx))

/-- `dsl.instantiate_polymorphic_types(bound)`: the new `dsl.list_primitives` -/
def instantiate (fx : Bool) (P : List Prim) (bound : Nat) : List Prim :=
  unitPass fx (sumPass (varPass (typeUniverse (basicTypes P)) bound P))

end PS.Dsl
