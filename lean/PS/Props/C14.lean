/-
  C14 — Polymorphic primitives expand to exactly their admissible ground instances.
  Property theorems only.  Model: PS/Model/Dsl.lean (`instantiate`, a transcription of
  `DSL.instantiate_polymorphic_types` with the repairs C14-F2 and C14-F3), specification:
  PS/Spec/Dsl.lean (`Instances`: simultaneous admissible substitution over the documented
  universe, one alternative per sum, unit arguments dropped; `specInstances`: its executable
  form, proved equal in `C14_spec_exec`), lemmas: PS/Proofs/Dsl.lean, PS/Proofs/DslSpec.lean.

  All statements are for every list of declared primitives `P` and every bound.
  `WF P`  : the types have the shapes the library's constructors build (an arrow has two
            components, a sum built by `|` at least two alternatives, leaves none).
  `UnitSafe P b` (decidable; evaluated by the driver for every test case): no instance,
            before the unit pass, has both a unit argument and an argument that is a
            function returning unit.  It is needed because of finding C14-F4
            (`finding_C14_F4_unit`, `finding_C14_F4_twice` below) for the code WITHOUT the
            repair proposed in fixes_proposed/C14-F4.diff.
  The model takes a flag `fx` (true = the code with that repair: the `elif` branch of
  `Arrow.without_unit_arguments` removed).  The `…_partial` theorems hold for both values under
  `UnitSafe`; `C14_sound_complete`, `C14_unit`, `C14_idempotent`, `C14_model_eq_spec_exec` are
  for the repaired code and need no `UnitSafe`.
-/
import PS.Proofs.Dsl
import PS.Proofs.DslSpec
namespace PS.C14
open PS Ty Dsl

/-- shapes built by the constructors of type_system.py -/
def WF (P : List Prim) : Prop := ∀ p ∈ P, Ty.wf p.2 = true

/-- outside the region of finding C14-F4 -/
def UnitSafe (P : List Prim) (bound : Nat) : Prop := ∀ y ∈ preUnit P bound, unitSafe y.2 = true

instance (P : List Prim) : Decidable (WF P) := by unfold WF; infer_instance
instance (P : List Prim) (b : Nat) : Decidable (UnitSafe P b) := by unfold UnitSafe; infer_instance

/-- the unit pass does what the specification says on every instance: outside the region of the
    finding, or everywhere when the repair is present -/
def UnitStepOK (fx : Bool) (P : List Prim) (bound : Nat) : Prop :=
  ∀ y ∈ preUnit P bound, unitStep fx y = (y.1, dropUnit y.2)

theorem unitStepOK_of_safe {fx : Bool} {P : List Prim} {bound : Nat} (hU : UnitSafe P bound) :
    UnitStepOK fx P bound := fun y hy => unitStep_safe y (hU y hy)

theorem unitStepOK_fixed (P : List Prim) (bound : Nat) : UnitStepOK true P bound :=
  fun y _ => unitStep_fixed y

/-- **Ground.** After instantiation no primitive has a polymorphic type or a sum type
    (code with or without the repair of C14-F4). -/
theorem C14_ground (fx : Bool) (P : List Prim) (bound : Nat) (hP : WF P) :
    ∀ r ∈ instantiate fx P bound, Ty.isPolymorphic r.2 = false ∧ Ty.hasSum r.2 = false := by
  intro r hr
  rw [mem_instantiate] at hr
  obtain ⟨y, hy, e⟩ := hr
  rw [mem_preUnit P hP] at hy
  obtain ⟨p, _, t, ht, v, hv, ey⟩ := hy
  subst ey
  have hg : polys v = [] := versions_ground t (instType_ground P bound p.2 t ht) v hv
  have hs : hasSum v = false := versions_noSum t v hv
  subst e
  rw [isPolymorphic_false_iff, unitStep_snd]
  simp only
  split
  · exact ⟨withoutUnit_preserves (fun t => polys t = []) polys_arrow v hg,
      withoutUnit_preserves (fun t => hasSum t = false) hasSum_arrow v hs⟩
  · exact ⟨hg, hs⟩

theorem sound_complete_core (fx : Bool) (P : List Prim) (bound : Nat) (hP : WF P)
    (hS : UnitStepOK fx P bound) (r : Prim) : r ∈ instantiate fx P bound ↔ Instances P bound r := by
  rw [mem_instantiate]
  constructor
  · rintro ⟨y, hy, e⟩
    have hstep := hS y hy
    rw [mem_preUnit_spec P hP] at hy
    obtain ⟨p, hp, σ, hσ, c, hc, ey⟩ := hy
    subst ey
    rw [hstep] at e
    subst e
    exact ⟨p, hp, rfl, σ, hσ, c, hc, rfl⟩
  · rintro ⟨p, hp, hn, σ, hσ, c, hc, e⟩
    have hy : (p.1, c) ∈ preUnit P bound := (mem_preUnit_spec P hP bound _).mpr ⟨p, hp, σ, hσ, c, hc, rfl⟩
    refine ⟨(p.1, c), hy, ?_⟩
    rw [hS _ hy]
    exact Prod.ext hn e

theorem unit_core (fx : Bool) (P : List Prim) (bound : Nat) (hS : UnitStepOK fx P bound) :
    ∀ r ∈ instantiate fx P bound, hasUnitArg r.2 = false ∧
      ∃ y ∈ preUnit P bound, r.1 = y.1 ∧
        Ty.arguments r.2 = (Ty.arguments y.2).filter (fun a => a != Ty.unit) ∧
        Ty.returns r.2 = Ty.returns y.2 := by
  intro r hr
  rw [mem_instantiate] at hr
  obtain ⟨y, hy, e⟩ := hr
  rw [hS y hy] at e
  subst e
  exact ⟨hasUnitArg_dropUnit _, y, hy, rfl, arguments_dropUnit _, returns_dropUnit _⟩

/-- **Once.** No primitive is present twice (holds for the repaired code C14-F2; before the
    repair the sum pass and the unit pass produced duplicates). -/
theorem C14_once (fx : Bool) (P : List Prim) (bound : Nat) : (instantiate fx P bound).Nodup :=
  nodup_dedup _

theorem idempotent_core (fx : Bool) (P : List Prim) (bound bound' : Nat) (hP : WF P)
    (hS : UnitStepOK fx P bound) :
    instantiate fx (instantiate fx P bound) bound' = instantiate fx P bound := by
  apply instantiate_fixed _ _ (C14_once fx P bound)
  intro r hr
  have hg := C14_ground fx P bound hP r hr
  exact ⟨(isPolymorphic_false_iff _).mp hg.1, hg.2, (unit_core fx P bound hS r hr).1⟩

/-! ### the code with or without the repair, outside the region of C14-F4 (`UnitSafe`) -/

/-- **Sound and complete.** The primitives after instantiation are exactly the specified
    instances: same name; type = unit arguments dropped from a choice of one alternative per
    sum of the declared type under a simultaneous substitution of its type variables by
    types of the universe (base types except unit, lists, lists of lists, one-argument
    functions between base types) within the bound that every variable of that name accepts.
    Full statement (without `UnitSafe`) is violated by the code without the repair: see
    `finding_C14_F4_unit`; for the code with the repair see `C14_sound_complete`. -/
theorem C14_sound_complete_partial (fx : Bool) (P : List Prim) (bound : Nat) (hP : WF P)
    (hU : UnitSafe P bound) (r : Prim) : r ∈ instantiate fx P bound ↔ Instances P bound r :=
  sound_complete_core fx P bound hP (unitStepOK_of_safe hU) r

/-- every primitive present after instantiation is an admissible instance of a declared one -/
theorem C14_sound_partial (fx : Bool) (P : List Prim) (bound : Nat) (hP : WF P) (hU : UnitSafe P bound) :
    ∀ r ∈ instantiate fx P bound, Instances P bound r :=
  fun r hr => (C14_sound_complete_partial fx P bound hP hU r).mp hr

/-- every admissible instance of a declared primitive is present after instantiation -/
theorem C14_complete_partial (fx : Bool) (P : List Prim) (bound : Nat) (hP : WF P) (hU : UnitSafe P bound) :
    ∀ r, Instances P bound r → r ∈ instantiate fx P bound :=
  fun r hr => (C14_sound_complete_partial fx P bound hP hU r).mpr hr

/-- **Unit.** No primitive keeps a unit argument, the other arguments and the result are
    those of the chosen instance. -/
theorem C14_unit_partial (fx : Bool) (P : List Prim) (bound : Nat) (hU : UnitSafe P bound) :
    ∀ r ∈ instantiate fx P bound, hasUnitArg r.2 = false ∧
      ∃ y ∈ preUnit P bound, r.1 = y.1 ∧
        Ty.arguments r.2 = (Ty.arguments y.2).filter (fun a => a != Ty.unit) ∧
        Ty.returns r.2 = Ty.returns y.2 :=
  unit_core fx P bound (unitStepOK_of_safe hU)

/-- **Idempotent.** Instantiating twice (with any second bound) changes nothing. -/
theorem C14_idempotent_partial (fx : Bool) (P : List Prim) (bound bound' : Nat) (hP : WF P)
    (hU : UnitSafe P bound) :
    instantiate fx (instantiate fx P bound) bound' = instantiate fx P bound :=
  idempotent_core fx P bound bound' hP (unitStepOK_of_safe hU)

/-- The universe of the model is the documented one. -/
theorem C14_universe (P : List Prim) (u : Ty) : u ∈ typeUniverse (basicTypes P) ↔ InUniverse P u :=
  mem_typeUniverse P u

/-- `all_versions` = the choices of one alternative for every sum. -/
theorem C14_versions (t c : Ty) : c ∈ versions t ↔ Choice t c := mem_versions_iff t c

/-- **The executable specification is the declarative one.** The list `specInstances`
    (PS/Spec/Dsl.lean: enumeration of one candidate per variable name, all versions, unit
    arguments dropped — the list the driver prints and the harness compares with the code)
    contains exactly the primitives satisfying the predicate `Instances`.  No hypothesis. -/
theorem C14_spec_exec (P : List Prim) (bound : Nat) (r : Prim) :
    r ∈ specInstances P bound ↔ Instances P bound r :=
  mem_specInstances P bound r

/-- the executable specification lists no primitive twice -/
theorem C14_spec_exec_once (P : List Prim) (bound : Nat) : (specInstances P bound).Nodup :=
  nodup_specInstances P bound

/-- model and executable specification have the same elements (both without repetition:
    `C14_once`, `C14_spec_exec_once`).
    Full statement (without `UnitSafe`) is violated by the code without the repair. -/
theorem C14_model_eq_spec_exec_partial (fx : Bool) (P : List Prim) (bound : Nat) (hP : WF P)
    (hU : UnitSafe P bound) (r : Prim) : r ∈ instantiate fx P bound ↔ r ∈ specInstances P bound := by
  rw [C14_sound_complete_partial fx P bound hP hU r, C14_spec_exec]

/-! ### the code with the repair of C14-F4 (fixes_proposed/C14-F4.diff): no `UnitSafe` -/

/-- **Sound and complete** (repaired code): for EVERY well-formed list of declarations and every
    bound the primitives after instantiation are exactly the specified instances. -/
theorem C14_sound_complete (P : List Prim) (bound : Nat) (hP : WF P) (r : Prim) :
    r ∈ instantiate true P bound ↔ Instances P bound r :=
  sound_complete_core true P bound hP (unitStepOK_fixed P bound) r

theorem C14_sound (P : List Prim) (bound : Nat) (hP : WF P) :
    ∀ r ∈ instantiate true P bound, Instances P bound r :=
  fun r hr => (C14_sound_complete P bound hP r).mp hr

theorem C14_complete (P : List Prim) (bound : Nat) (hP : WF P) :
    ∀ r, Instances P bound r → r ∈ instantiate true P bound :=
  fun r hr => (C14_sound_complete P bound hP r).mpr hr

/-- **Unit** (repaired code): no primitive keeps a unit argument; the other arguments —
    functions returning unit included — and the result are those of the chosen instance. -/
theorem C14_unit (P : List Prim) (bound : Nat) :
    ∀ r ∈ instantiate true P bound, hasUnitArg r.2 = false ∧
      ∃ y ∈ preUnit P bound, r.1 = y.1 ∧
        Ty.arguments r.2 = (Ty.arguments y.2).filter (fun a => a != Ty.unit) ∧
        Ty.returns r.2 = Ty.returns y.2 :=
  unit_core true P bound (unitStepOK_fixed P bound)

/-- **Idempotent** (repaired code). -/
theorem C14_idempotent (P : List Prim) (bound bound' : Nat) (hP : WF P) :
    instantiate true (instantiate true P bound) bound' = instantiate true P bound :=
  idempotent_core true P bound bound' hP (unitStepOK_fixed P bound)

/-- model and executable specification have the same elements (repaired code) -/
theorem C14_model_eq_spec_exec (P : List Prim) (bound : Nat) (hP : WF P) (r : Prim) :
    r ∈ instantiate true P bound ↔ r ∈ specInstances P bound := by
  rw [C14_sound_complete P bound hP r, C14_spec_exec]

/-- the repaired `without_unit_arguments` is the specified removal of the unit arguments on every
    type -/
theorem C14_without_unit (t : Ty) : withoutUnit true t = dropUnit t := withoutUnit_fixed_eq_dropUnit t

/-! ### finding C14-F4: `without_unit_arguments` rewrites function arguments returning unit -/

def tInt : Ty := Ty.prim "int"

/-- `f : unit -> (int -> unit) -> int` becomes `f : int -> int`, not `(int -> unit) -> int` -/
theorem finding_C14_F4_unit :
    let decl := Ty.arrow Ty.unit (Ty.arrow (Ty.arrow tInt Ty.unit) tInt)
    instantiate false [("f", decl)] 1 = [("f", Ty.arrow tInt tInt)] ∧
    dropUnit decl = Ty.arrow (Ty.arrow tInt Ty.unit) tInt ∧
    ¬ UnitSafe [("f", decl)] 1 := by
  decide

/-- `f : unit -> (unit -> unit) -> int` keeps a unit argument, and a second instantiation
    changes it again -/
theorem finding_C14_F4_twice :
    let decl := Ty.arrow Ty.unit (Ty.arrow (Ty.arrow Ty.unit Ty.unit) tInt)
    instantiate false [("f", decl)] 1 = [("f", Ty.arrow Ty.unit tInt)] ∧
    instantiate false (instantiate false [("f", decl)] 1) 1 = [("f", tInt)] := by
  decide

/-- with the repair both declarations are instantiated as specified: the function arguments are
    kept, the unit argument is dropped, and a second instantiation changes nothing -/
theorem fixed_C14_F4 :
    let d1 := Ty.arrow Ty.unit (Ty.arrow (Ty.arrow tInt Ty.unit) tInt)
    let d2 := Ty.arrow Ty.unit (Ty.arrow (Ty.arrow Ty.unit Ty.unit) tInt)
    instantiate true [("f", d1)] 1 = [("f", Ty.arrow (Ty.arrow tInt Ty.unit) tInt)] ∧
    instantiate true [("f", d2)] 1 = [("f", Ty.arrow (Ty.arrow Ty.unit Ty.unit) tInt)] ∧
    instantiate true (instantiate true [("f", d2)] 1) 1 = instantiate true [("f", d2)] 1 ∧
    WF [("f", d1)] ∧ WF [("f", d2)] := by
  decide

/-! ### non-vacuity -/
namespace Example
def tBool : Ty := Ty.prim "bool"
/-- `map : ('a -> 'b) -> 'a list -> 'b list`, `c : int`, `d : bool`,
    `pick : 'a[int | bool] -> unit -> 'a`, `opt : int | unit -> bool` -/
def P : List Prim :=
  [("map", Ty.arrow (Ty.arrow (Ty.poly "a") (Ty.poly "b")) (Ty.arrow (Ty.list (Ty.poly "a")) (Ty.list (Ty.poly "b")))),
   ("c", tInt), ("d", tBool),
   ("pick", Ty.arrow (Ty.fpoly "a" [Ty.sum [tInt, tBool]]) (Ty.arrow Ty.unit (Ty.fpoly "a" [Ty.sum [tInt, tBool]]))),
   ("opt", Ty.arrow (Ty.sum [tInt, Ty.unit]) tBool)]

example : WF P ∧ UnitSafe P 1 := by decide
-- instances that are present …
example : ("map", Ty.arrow (Ty.arrow tInt tBool) (Ty.arrow (Ty.list tInt) (Ty.list tBool))) ∈ instantiate false P 1 := by decide
example : ("pick", Ty.arrow tBool tBool) ∈ instantiate false P 2 := by decide
example : ("opt", tBool) ∈ instantiate false P 1 ∧ ("opt", Ty.arrow tInt tBool) ∈ instantiate false P 1 := by decide
-- … and their number: 4 for map, 2 for pick, 2 for opt, c, d
example : (instantiate false P 1).length = 10 := by decide
-- the restricted variable does not take a list type even when the bound allows it
example : ("pick", Ty.arrow (Ty.list tInt) (Ty.list tInt)) ∉ instantiate false (P.drop 1) 3 := by decide +kernel
example : ("pick", Ty.arrow tInt tInt) ∈ instantiate false (P.drop 1) 3 := by decide +kernel
-- the executable specification: elements, the declarative fact obtained through `C14_spec_exec`,
-- and agreement with the model through `C14_model_eq_spec_exec_partial`
example : ("pick", Ty.arrow tBool tBool) ∈ specInstances P 2 := by decide
example : Instances P 2 ("pick", Ty.arrow tBool tBool) :=
  (C14_spec_exec P 2 _).mp (by decide)
example : ¬ Instances P 2 ("pick", Ty.arrow (Ty.list tInt) (Ty.list tInt)) :=
  fun h => absurd ((C14_spec_exec P 2 _).mpr h) (by decide)
example : (specInstances P 1).length = 10 ∧ (specInstances P 1).Nodup := by decide
example : ("map", Ty.arrow (Ty.arrow tInt tBool) (Ty.arrow (Ty.list tInt) (Ty.list tBool))) ∈ specInstances P 1 :=
  (C14_model_eq_spec_exec_partial false P 1 (by decide) (by decide) _).mp (by decide)
-- the repaired code on a DSL inside the former region of C14-F4: a unit argument next to a
-- callback that returns unit (`each : unit | int -> ('a -> unit) -> 'a list -> unit`)
def Q : List Prim :=
  P ++ [("each", Ty.arrow (Ty.sum [Ty.unit, tInt])
          (Ty.arrow (Ty.arrow (Ty.poly "a") Ty.unit) (Ty.arrow (Ty.list (Ty.poly "a")) Ty.unit)))]
example : WF Q ∧ ¬ UnitSafe Q 1 := by decide
example : ("each", Ty.arrow (Ty.arrow tInt Ty.unit) (Ty.arrow (Ty.list tInt) Ty.unit)) ∈ instantiate true Q 1 ∧
    ("each", Ty.arrow (Ty.arrow tInt Ty.unit) (Ty.arrow (Ty.list tInt) Ty.unit)) ∉ instantiate false Q 1 ∧
    ("each", Ty.arrow tInt (Ty.arrow (Ty.list tInt) Ty.unit)) ∈ instantiate false Q 1 := by decide +kernel
example : Instances Q 1 ("each", Ty.arrow (Ty.arrow tInt Ty.unit) (Ty.arrow (Ty.list tInt) Ty.unit)) :=
  (C14_sound_complete Q 1 (by decide) _).mp (by decide +kernel)
end Example

end PS.C14
