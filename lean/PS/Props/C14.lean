import PS.Spec.Dsl
namespace PS.C14
theorem C14_placeholder : True := trivial
end PS.C14
