/-
  C14 — Polymorphic primitives expand to exactly their admissible ground instances.
  Property theorems only.  Model: PS/Model/Dsl.lean (`instantiate`, a transcription of
  `DSL.instantiate_polymorphic_types` with the repairs C14-F2 and C14-F3), specification:
  PS/Spec/Dsl.lean (`Instances`: simultaneous admissible substitution over the documented
  universe, one alternative per sum, unit arguments dropped; `specInstances`: its executable
  form, proved equal in `C14_spec_exec`), lemmas: PS/Proofs/Dsl.lean, PS/Proofs/DslSpec.lean.

  All statements are for every list of declared primitives `P` and every bound.
  `WF P`  : the types have the shapes the library's constructors build (an arrow has two
            components, a sum built by `|` at least two alternatives, leaves none).
  `UnitSafe P b` (decidable; evaluated by the driver for every test case): no instance,
            before the unit pass, has both a unit argument and an argument that is a
            function returning unit.  It is needed because of finding C14-F4
            (`finding_C14_F4_unit`, `finding_C14_F4_twice` below).
-/
import PS.Proofs.Dsl
import PS.Proofs.DslSpec
namespace PS.C14
open PS Ty Dsl

/-- shapes built by the constructors of type_system.py -/
def WF (P : List Prim) : Prop := ∀ p ∈ P, Ty.wf p.2 = true

/-- outside the region of finding C14-F4 -/
def UnitSafe (P : List Prim) (bound : Nat) : Prop := ∀ y ∈ preUnit P bound, unitSafe y.2 = true

instance (P : List Prim) : Decidable (WF P) := by unfold WF; infer_instance
instance (P : List Prim) (b : Nat) : Decidable (UnitSafe P b) := by unfold UnitSafe; infer_instance

/-- **Ground.** After instantiation no primitive has a polymorphic type or a sum type. -/
theorem C14_ground (P : List Prim) (bound : Nat) (hP : WF P) :
    ∀ r ∈ instantiate P bound, Ty.isPolymorphic r.2 = false ∧ Ty.hasSum r.2 = false := by
  intro r hr
  rw [mem_instantiate] at hr
  obtain ⟨y, hy, e⟩ := hr
  rw [mem_preUnit P hP] at hy
  obtain ⟨p, _, t, ht, v, hv, ey⟩ := hy
  subst ey
  have hg : polys v = [] := versions_ground t (instType_ground P bound p.2 t ht) v hv
  have hs : hasSum v = false := versions_noSum t v hv
  subst e
  rw [isPolymorphic_false_iff, unitStep_snd]
  simp only
  split
  · exact ⟨withoutUnit_preserves (fun t => polys t = []) polys_arrow v hg,
      withoutUnit_preserves (fun t => hasSum t = false) hasSum_arrow v hs⟩
  · exact ⟨hg, hs⟩

/-- **Sound and complete.** The primitives after instantiation are exactly the specified
    instances: same name; type = unit arguments dropped from a choice of one alternative per
    sum of the declared type under a simultaneous substitution of its type variables by
    types of the universe (base types except unit, lists, lists of lists, one-argument
    functions between base types) within the bound that every variable of that name accepts.
    Full statement (without `UnitSafe`) is violated by the code: see `finding_C14_F4_unit`. -/
theorem C14_sound_complete_partial (P : List Prim) (bound : Nat) (hP : WF P) (hU : UnitSafe P bound)
    (r : Prim) : r ∈ instantiate P bound ↔ Instances P bound r := by
  rw [mem_instantiate]
  constructor
  · rintro ⟨y, hy, e⟩
    have hsafe := hU y hy
    rw [mem_preUnit_spec P hP] at hy
    obtain ⟨p, hp, σ, hσ, c, hc, ey⟩ := hy
    subst ey
    rw [unitStep_safe _ hsafe] at e
    subst e
    exact ⟨p, hp, rfl, σ, hσ, c, hc, rfl⟩
  · rintro ⟨p, hp, hn, σ, hσ, c, hc, e⟩
    have hy : (p.1, c) ∈ preUnit P bound := (mem_preUnit_spec P hP bound _).mpr ⟨p, hp, σ, hσ, c, hc, rfl⟩
    refine ⟨(p.1, c), hy, ?_⟩
    rw [unitStep_safe _ (hU _ hy)]
    exact Prod.ext hn e

/-- every primitive present after instantiation is an admissible instance of a declared one -/
theorem C14_sound_partial (P : List Prim) (bound : Nat) (hP : WF P) (hU : UnitSafe P bound) :
    ∀ r ∈ instantiate P bound, Instances P bound r :=
  fun r hr => (C14_sound_complete_partial P bound hP hU r).mp hr

/-- every admissible instance of a declared primitive is present after instantiation -/
theorem C14_complete_partial (P : List Prim) (bound : Nat) (hP : WF P) (hU : UnitSafe P bound) :
    ∀ r, Instances P bound r → r ∈ instantiate P bound :=
  fun r hr => (C14_sound_complete_partial P bound hP hU r).mpr hr

/-- **Once.** No primitive is present twice (holds for the repaired code C14-F2; before the
    repair the sum pass and the unit pass produced duplicates). -/
theorem C14_once (P : List Prim) (bound : Nat) : (instantiate P bound).Nodup :=
  nodup_dedup _

/-- **Unit.** No primitive keeps a unit argument, the other arguments and the result are
    those of the chosen instance. -/
theorem C14_unit_partial (P : List Prim) (bound : Nat) (hU : UnitSafe P bound) :
    ∀ r ∈ instantiate P bound, hasUnitArg r.2 = false ∧
      ∃ y ∈ preUnit P bound, r.1 = y.1 ∧
        Ty.arguments r.2 = (Ty.arguments y.2).filter (fun a => a != Ty.unit) ∧
        Ty.returns r.2 = Ty.returns y.2 := by
  intro r hr
  rw [mem_instantiate] at hr
  obtain ⟨y, hy, e⟩ := hr
  rw [unitStep_safe _ (hU y hy)] at e
  subst e
  exact ⟨hasUnitArg_dropUnit _, y, hy, rfl, arguments_dropUnit _, returns_dropUnit _⟩

/-- **Idempotent.** Instantiating twice (with any second bound) changes nothing. -/
theorem C14_idempotent_partial (P : List Prim) (bound bound' : Nat) (hP : WF P) (hU : UnitSafe P bound) :
    instantiate (instantiate P bound) bound' = instantiate P bound := by
  apply instantiate_fixed _ _ (C14_once P bound)
  intro r hr
  have hg := C14_ground P bound hP r hr
  exact ⟨(isPolymorphic_false_iff _).mp hg.1, hg.2, (C14_unit_partial P bound hU r hr).1⟩

/-- The universe of the model is the documented one. -/
theorem C14_universe (P : List Prim) (u : Ty) : u ∈ typeUniverse (basicTypes P) ↔ InUniverse P u :=
  mem_typeUniverse P u

/-- `all_versions` = the choices of one alternative for every sum. -/
theorem C14_versions (t c : Ty) : c ∈ versions t ↔ Choice t c := mem_versions_iff t c

/-- **The executable specification is the declarative one.** The list `specInstances`
    (PS/Spec/Dsl.lean: enumeration of one candidate per variable name, all versions, unit
    arguments dropped — the list the driver prints and the harness compares with the code)
    contains exactly the primitives satisfying the predicate `Instances`.  No hypothesis. -/
theorem C14_spec_exec (P : List Prim) (bound : Nat) (r : Prim) :
    r ∈ specInstances P bound ↔ Instances P bound r :=
  mem_specInstances P bound r

/-- the executable specification lists no primitive twice -/
theorem C14_spec_exec_once (P : List Prim) (bound : Nat) : (specInstances P bound).Nodup :=
  nodup_specInstances P bound

/-- model and executable specification have the same elements (both without repetition:
    `C14_once`, `C14_spec_exec_once`).
    Full statement (without `UnitSafe`) is violated by the code: see `finding_C14_F4_unit`. -/
theorem C14_model_eq_spec_exec_partial (P : List Prim) (bound : Nat) (hP : WF P)
    (hU : UnitSafe P bound) (r : Prim) : r ∈ instantiate P bound ↔ r ∈ specInstances P bound := by
  rw [C14_sound_complete_partial P bound hP hU r, C14_spec_exec]

/-! ### finding C14-F4: `without_unit_arguments` rewrites function arguments returning unit -/

def tInt : Ty := Ty.prim "int"

/-- `f : unit -> (int -> unit) -> int` becomes `f : int -> int`, not `(int -> unit) -> int` -/
theorem finding_C14_F4_unit :
    let decl := Ty.arrow Ty.unit (Ty.arrow (Ty.arrow tInt Ty.unit) tInt)
    instantiate [("f", decl)] 1 = [("f", Ty.arrow tInt tInt)] ∧
    dropUnit decl = Ty.arrow (Ty.arrow tInt Ty.unit) tInt ∧
    ¬ UnitSafe [("f", decl)] 1 := by
  decide

/-- `f : unit -> (unit -> unit) -> int` keeps a unit argument, and a second instantiation
    changes it again -/
theorem finding_C14_F4_twice :
    let decl := Ty.arrow Ty.unit (Ty.arrow (Ty.arrow Ty.unit Ty.unit) tInt)
    instantiate [("f", decl)] 1 = [("f", Ty.arrow Ty.unit tInt)] ∧
    instantiate (instantiate [("f", decl)] 1) 1 = [("f", tInt)] := by
  decide

/-! ### non-vacuity -/
namespace Example
def tBool : Ty := Ty.prim "bool"
/-- `map : ('a -> 'b) -> 'a list -> 'b list`, `c : int`, `d : bool`,
    `pick : 'a[int | bool] -> unit -> 'a`, `opt : int | unit -> bool` -/
def P : List Prim :=
  [("map", Ty.arrow (Ty.arrow (Ty.poly "a") (Ty.poly "b")) (Ty.arrow (Ty.list (Ty.poly "a")) (Ty.list (Ty.poly "b")))),
   ("c", tInt), ("d", tBool),
   ("pick", Ty.arrow (Ty.fpoly "a" [Ty.sum [tInt, tBool]]) (Ty.arrow Ty.unit (Ty.fpoly "a" [Ty.sum [tInt, tBool]]))),
   ("opt", Ty.arrow (Ty.sum [tInt, Ty.unit]) tBool)]

example : WF P ∧ UnitSafe P 1 := by decide
-- instances that are present …
example : ("map", Ty.arrow (Ty.arrow tInt tBool) (Ty.arrow (Ty.list tInt) (Ty.list tBool))) ∈ instantiate P 1 := by decide
example : ("pick", Ty.arrow tBool tBool) ∈ instantiate P 2 := by decide
example : ("opt", tBool) ∈ instantiate P 1 ∧ ("opt", Ty.arrow tInt tBool) ∈ instantiate P 1 := by decide
-- … and their number: 4 for map, 2 for pick, 2 for opt, c, d
example : (instantiate P 1).length = 10 := by decide
-- the restricted variable does not take a list type even when the bound allows it
example : ("pick", Ty.arrow (Ty.list tInt) (Ty.list tInt)) ∉ instantiate (P.drop 1) 3 := by decide +kernel
example : ("pick", Ty.arrow tInt tInt) ∈ instantiate (P.drop 1) 3 := by decide +kernel
-- the executable specification: elements, the declarative fact obtained through `C14_spec_exec`,
-- and agreement with the model through `C14_model_eq_spec_exec_partial`
example : ("pick", Ty.arrow tBool tBool) ∈ specInstances P 2 := by decide
example : Instances P 2 ("pick", Ty.arrow tBool tBool) :=
  (C14_spec_exec P 2 _).mp (by decide)
example : ¬ Instances P 2 ("pick", Ty.arrow (Ty.list tInt) (Ty.list tInt)) :=
  fun h => absurd ((C14_spec_exec P 2 _).mpr h) (by decide)
example : (specInstances P 1).length = 10 ∧ (specInstances P 1).Nodup := by decide
example : ("map", Ty.arrow (Ty.arrow tInt tBool) (Ty.arrow (Ty.list tInt) (Ty.list tBool))) ∈ specInstances P 1 :=
  (C14_model_eq_spec_exec_partial P 1 (by decide) (by decide) _).mp (by decide)
end Example

end PS.C14
