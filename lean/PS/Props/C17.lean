/- C17 — instantiating constants (work in progress: theorems are added below) -/
import PS.Model.InstConst
namespace PS.IC
open PS PS.G

end PS.IC
