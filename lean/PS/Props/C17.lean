/-
  C17 — Instantiating constants expands templates without moving probability mass.

  Model: PS/Model/InstConst.lean (literal transcription of the four `instantiate_constants`
  and of `all_constants_instantiation`).  Specification: `isInst` (every slot of the template
  replaced independently by a value of its type), `prob` (product of the rule weights), row sums.

  Hypotheses of the `_partial` theorems (all decidable, evaluated by the driver on every case):
    rulesOK tbl d        every row is a dict whose constants of a table type carry no value yet
                         (otherwise finding C17-F2) and whose value lists are duplicate free
                         (otherwise finding C17-F3)
    rulesNonEmpty tbl d  no slot of the grammar has an empty value list (otherwise finding C17-F1)
    progOK tbl t         every constant of the program is a slot with an entry in the table
                         (otherwise finding C17-F4 / C17-F2)
  The full statements (without hypotheses) are false for the code as it is: see the
  `finding_C17_F*` theorems at the end.

  Second part ("what the Python computes", "no mass lost", unambiguous grammars):
    * `probability` (the transcription of `ProbDetGrammar.probability`: membership test, then the
      `reduce_derivations` fold) is the specification `prob` — by C04 (`probabilityDet_eq_prob`,
      the lemma behind `C04_prob_det`); the mass theorems are restated on it (`…_impl_…`).
    * `lang G k nt` is C04's enumeration of the programs of at most `k` levels (`C04_lang`).
    * `instUG` / `instUTg` (PS/Proofs/InstConstU.lean) are `UCFG.instantiate_constants` /
      `ProbUGrammar.instantiate_constants` on the grammar objects of C04 (`PS.U.UCFG`,
      `PS.U.UTags`): rule table `instU`, tags `instUTags`, start symbols and start tags unchanged.
      `PS.U.genU` / `PS.U.allDerivs` / `PS.U.probU` are C04's specification (stack-free
      derivations), `PS.U.contains` / `PS.U.probabilityU` the transcriptions of the code.
-/
import PS.Proofs.InstConst
import PS.Proofs.InstConstProg
import PS.Proofs.InstConstMass
import PS.Proofs.InstConstLink
import PS.Proofs.InstConstU
namespace PS.IC
open PS PS.G

variable {S : Type} [DecidableEq S]

/-- **Language.** The instantiated grammar generates exactly the instantiations of the programs
    of the template grammar (from every non-terminal). -/
theorem C17_lang_partial (G : TT S Unit) (tbl : Tbl) (h : rulesOK tbl G.rules = true)
    (t' : Prog) (nt : NT S Unit) :
    gen (inst G tbl) t' nt = true ↔ ∃ t, gen G t nt = true ∧ isInst tbl t t' = true :=
  ⟨fun hg => ⟨templ tbl t', gen_inst_templ tbl G h t' nt hg⟩,
   fun ⟨t, hg, hi⟩ => gen_inst_of_isInst tbl G h t t' nt hg hi⟩

/-- the same for the implementation's membership test `program in grammar`
    (`DetGrammar.__contains__`, stack-based derivation) -/
theorem C17_lang_contains_partial (G : TT S Unit) (tbl : Tbl) (h : rulesOK tbl G.rules = true)
    (t' : Prog) :
    contains (inst G tbl) t' = true ↔ ∃ t, contains G t = true ∧ isInst tbl t t' = true := by
  rw [contains_eq_gen]
  simp only [contains_eq_gen]
  exact C17_lang_partial G tbl h t' G.start

/-- **Each instantiation comes from exactly one template**, namely `templ tbl t'`. -/
theorem C17_lang_unique_partial (G : TT S Unit) (tbl : Tbl) (h : rulesOK tbl G.rules = true)
    (t1 t2 t' : Prog) (nt : NT S Unit)
    (g1 : gen G t1 nt = true) (g2 : gen G t2 nt = true)
    (i1 : isInst tbl t1 t' = true) (i2 : isInst tbl t2 t' = true) : t1 = t2 := by
  rw [← templ_of_isInst tbl G h t1 t' nt g1 i1, ← templ_of_isInst tbl G h t2 t' nt g2 i2]

/-- the rule table itself: under the hypothesis no insertion overwrites, every row is the
    concatenation of the expansions of its entries (in dict order) -/
theorem C17_rows_partial {ν : Type} (tbl : Tbl) (f : ν → Nat → ν) (row : AList Sym ν)
    (h : rowOK tbl row = true) :
    instRow tbl f row = row.flatMap (expand tbl f) ∧ (AList.keys (instRow tbl f row)).Nodup := by
  rw [instRow_eq_flatMap h]
  exact ⟨rfl, keys_flatMap_nodup h⟩

/-- **Program side.** `all_constants_instantiation` lists the instantiations of the program,
    each exactly once. -/
theorem C17_program_side_partial (tbl : Tbl) (t : Prog) (h : progOK tbl t = true) :
    ∃ l, allInst tbl t = some l ∧ l.Nodup ∧ ∀ t', t' ∈ l ↔ isInst tbl t t' = true :=
  allInst_spec tbl t h

/-- **Mass.** The instantiations of a template carry, in total, the template's probability. -/
theorem C17_mass_partial (G : TT S Unit) (tags : Tags S Unit) (tbl : Tbl)
    (hG : rulesOK tbl G.rules = true) (hT : rulesOK tbl tags = true)
    (hne : rulesNonEmpty tbl G.rules = true)
    (t : Prog) (nt : NT S Unit) (l : List Prog) (hg : gen G t nt = true) (hl : allInst tbl t = some l) :
    rsum (l.map fun t' => prob (inst G tbl) (instTags tags tbl) t' nt) = prob G tags t nt :=
  mass tbl G tags hG hT hne t nt l hg hl

/-- **Row sums** are preserved, hence … -/
theorem C17_rowsum_partial (tags : Tags S Unit) (tbl : Tbl)
    (h : rulesOK tbl tags = true) (hne : rulesNonEmpty tbl tags = true) (nt : NT S Unit)
    (row : AList Sym Rat) (hl : AList.lookup nt tags = some row) :
    ∃ row', AList.lookup nt (instTags tags tbl) = some row' ∧
      rsum (AList.values row') = rsum (AList.values row) := by
  refine ⟨instRow tbl (fun p n => p / (n : Rat)) row, ?_, ?_⟩
  · unfold instTags; rw [lookup_instRules, hl]; rfl
  · exact rsum_instRow (rulesOK_row h hl) (rulesNonEmpty_row hne hl)

omit [DecidableEq S] in
/-- … **a normalised grammar stays normalised** (deterministic grammars). -/
theorem C17_normalised_partial (tags : Tags S Unit) (tbl : Tbl)
    (h : rulesOK tbl tags = true) (hne : rulesNonEmpty tbl tags = true)
    (hn : Normalised tags) : Normalised (instTags tags tbl) := by
  intro e he
  unfold instTags instRules at he
  obtain ⟨e0, he0, rfl⟩ := List.mem_map.mp he
  simp only
  unfold rulesOK at h
  unfold rulesNonEmpty at hne
  rw [List.all_eq_true] at h hne
  rw [rsum_instRow (h e0 he0) (hne e0 he0)]
  exact hn e0 he0

/-- the same for probabilistic unambiguous grammars (`ProbUGrammar`): the total weight of every
    non-terminal is preserved -/
theorem C17_normalised_u_partial {U : Type} (tags : UTags U) (tbl : Tbl)
    (h : rulesOK tbl tags = true) (hne : rulesNonEmpty tbl tags = true)
    (hn : NormalisedU tags) : NormalisedU (instUTags tags tbl) := by
  intro e he
  unfold instUTags instRules at he
  obtain ⟨e0, he0, rfl⟩ := List.mem_map.mp he
  simp only
  unfold rulesOK at h
  unfold rulesNonEmpty at hne
  rw [List.all_eq_true] at h hne
  rw [rsum_instURow (h e0 he0) (hne e0 he0)]
  exact hn e0 he0

/-- rules of the instantiated unambiguous grammar: the list of alternatives of an instantiated
    symbol is the list of alternatives of its template symbol, and nothing else is there -/
theorem C17_ucfg_rules_partial {U : Type} [DecidableEq U] (R : UTable U) (tbl : Tbl)
    (h : rulesOK tbl R = true) (nt : UNT U) (row : AList Sym (List (List (UNT U))))
    (hl : AList.lookup nt R = some row) (k : Sym) (alts : List (List (UNT U))) :
    (∃ row', AList.lookup nt (instU R tbl) = some row' ∧ AList.lookup k row' = some alts) ↔
      ∃ P, AList.lookup P row = some alts ∧ symInst tbl P k = true := by
  have hrow := rulesOK_row h hl
  unfold instU
  rw [lookup_instRules, hl]
  simp only [Option.map_some, Option.some.injEq, exists_eq_left']
  rw [lookup_instRow_iff hrow]
  constructor
  · rintro ⟨P, v, hP, hp, hw⟩
    have hok := (rowOK_iff.mp hrow).2 P (mem_keys_of_lookup hP)
    refine ⟨P, ?_, (produces_iff_symInst hok).mp hp⟩
    rw [hP, hw]; cases slot? tbl P <;> rfl
  · rintro ⟨P, hP, hs⟩
    have hok := (rowOK_iff.mp hrow).2 P (mem_keys_of_lookup hP)
    refine ⟨P, alts, hP, (produces_iff_symInst hok).mpr hs, ?_⟩
    cases slot? tbl P <;> rfl

/-! ### non-vacuity: a small grammar `S → (+ A A) | 1`, `A → <int> | var0` -/
namespace Ex
def int : Ty := .base "int"
def bool : Ty := .base "bool"
def plus : Sym := Sym.prim "+" (.arrow int (.arrow int int))
def one : Sym := Sym.prim "1" int
def v0 : Sym := Sym.var 0 int
def slot : Sym := Sym.const int ""
def c (v : String) : Sym := Sym.const int v
def s0 : NT Nat Unit := (int, (0, ()))
def s1 : NT Nat Unit := (int, (1, ()))
def G : TT Nat Unit := ⟨s0, [(s0, [(plus, ([(int, 1), (int, 1)], ())), (one, ([], ()))]),
                              (s1, [(slot, ([], ())), (v0, ([], ()))])]⟩
def tags : Tags Nat Unit := [(s0, [(plus, 1/2), (one, 1/2)]), (s1, [(slot, 3/4), (v0, 1/4)])]
def tbl : Tbl := [(int, ["i:5", "i:6"]), (bool, [])]
def leaf (s : Sym) : Prog := .node s []
def t : Prog := .node plus [leaf slot, leaf v0]
def t' : Prog := .node plus [leaf (c "i:6"), leaf v0]
end Ex
open Ex

example : rulesOK tbl G.rules = true ∧ rulesOK tbl tags = true ∧ rulesNonEmpty tbl G.rules = true ∧
    rulesNonEmpty tbl tags = true ∧ progOK tbl t = true := by decide +kernel
example : gen G t G.start = true ∧ isInst tbl t t' = true ∧ gen (inst G tbl) t' G.start = true ∧
    gen (inst G tbl) t G.start = false ∧ templ tbl t' = t := by decide +kernel
example : allInst tbl t = some [.node plus [leaf (c "i:5"), leaf v0], t'] := by decide +kernel
example : prob G tags t G.start = 3/32 ∧ prob (inst G tbl) (instTags tags tbl) t' G.start = 3/64 := by
  decide +kernel
example : normalisedB tags = true ∧ normalisedB (instTags tags tbl) = true := by decide +kernel

/-! ### the model of `probability`, total mass, unambiguous grammars -/

/-- **The model of `ProbDetGrammar.probability` is the specification** `prob` (product of the
    rule weights along the derivation, 0 outside the language): for every grammar, every tag
    table (incomplete or unnormalised too) and every program.  No hypothesis.  (C04.) -/
theorem C17_prob_impl (G : TT S Unit) (tags : Tags S Unit) (t : Prog) :
    probability G tags t = prob G tags t G.start :=
  probability_eq_prob G tags t

example : probability G tags t = 3/32 ∧ probability (inst G tbl) (instTags tags tbl) t' = 3/64 ∧
    probability (inst G tbl) (instTags tags tbl) t = 0 := by decide +kernel

/-- **Mass, on what the code computes.** The values `probability` returns for the
    instantiations of a template of the grammar sum to the value it returns for the template. -/
theorem C17_mass_impl_partial (G : TT S Unit) (tags : Tags S Unit) (tbl : Tbl)
    (hG : rulesOK tbl G.rules = true) (hT : rulesOK tbl tags = true)
    (hne : rulesNonEmpty tbl G.rules = true)
    (t : Prog) (l : List Prog) (hg : contains G t = true) (hl : allInst tbl t = some l) :
    rsum (l.map (probability (inst G tbl) (instTags tags tbl))) = probability G tags t := by
  rw [contains_eq_gen] at hg
  rw [C17_prob_impl, ← C17_mass_partial G tags tbl hG hT hne t G.start l hg hl]
  exact rsum_map_congr (fun t' _ => C17_prob_impl (inst G tbl) (instTags tags tbl) t')

example : rsum ([.node plus [leaf (c "i:5"), leaf v0], t'].map
    (probability (inst G tbl) (instTags tags tbl))) = probability G tags t :=
  C17_mass_impl_partial G tags tbl (by decide +kernel) (by decide +kernel) (by decide +kernel) t _
    (by decide +kernel) (by decide +kernel)

/-- **The enumerated language.** The programs of at most `k` levels of the instantiated grammar
    (C04's duplicate-free enumeration `lang`) are exactly the instantiations of the programs of
    at most `k` levels of the template grammar. -/
theorem C17_lang_enum_partial (G : TT S Unit) (tbl : Tbl) (h : rulesOK tbl G.rules = true)
    (k : Nat) (nt : NT S Unit) :
    (lang (inst G tbl) k nt).Nodup ∧
    ∀ t', t' ∈ lang (inst G tbl) k nt ↔ ∃ t ∈ lang G k nt, isInst tbl t t' = true :=
  ⟨lang_nodup _ (rowsNodup_inst h) k nt, mem_lang_inst tbl G h k nt⟩

example : (lang G 2 G.start).length = 5 ∧ (lang (inst G tbl) 2 G.start).length = 10 ∧
    t ∈ lang G 2 G.start ∧ t' ∈ lang (inst G tbl) 2 G.start := by decide +kernel

/-- **No probability mass is lost** (specification, every non-terminal, every depth budget):
    the probabilities of all programs of at most `k` levels of the instantiated grammar sum to
    the same value as those of the template grammar. -/
theorem C17_total_spec_partial (G : TT S Unit) (tags : Tags S Unit) (tbl : Tbl)
    (hG : rulesOK tbl G.rules = true) (hT : rulesOK tbl tags = true)
    (hne : rulesNonEmpty tbl G.rules = true) (k : Nat) (nt : NT S Unit) :
    ((lang (inst G tbl) k nt).map fun t' => prob (inst G tbl) (instTags tags tbl) t' nt).sum =
      ((lang G k nt).map fun t => prob G tags t nt).sum := by
  have h := mass_inst tbl G tags hG hT hne k nt
  unfold PS.G.mass at h
  simp only [prob_eq_spec]
  exact h

/-- **No probability mass is lost** (what the code computes): the values of `probability` over
    the programs of the instantiated grammar sum to the same value as over the template grammar. -/
theorem C17_total_partial (G : TT S Unit) (tags : Tags S Unit) (tbl : Tbl)
    (hG : rulesOK tbl G.rules = true) (hT : rulesOK tbl tags = true)
    (hne : rulesNonEmpty tbl G.rules = true) (k : Nat) :
    ((lang (inst G tbl) k G.start).map (probability (inst G tbl) (instTags tags tbl))).sum =
      ((lang G k G.start).map (probability G tags)).sum := by
  have h := C17_total_spec_partial G tags tbl hG hT hne k G.start
  rw [show probability (inst G tbl) (instTags tags tbl) =
      fun t' => prob (inst G tbl) (instTags tags tbl) t' G.start from
        funext (fun t' => C17_prob_impl (inst G tbl) (instTags tags tbl) t'),
    show probability G tags = fun t => prob G tags t G.start from
      funext (fun t => C17_prob_impl G tags t)]
  exact h

/-- … hence **a distribution stays a distribution**: over a finite normalised grammar (C04's
    `Normalised`: the weights of the rules of every non-terminal sum to 1) the values of
    `probability` over the instantiated language sum to 1. -/
theorem C17_total_one_partial (G : TT S Unit) (tags : Tags S Unit) (tbl : Tbl)
    (hG : rulesOK tbl G.rules = true) (hT : rulesOK tbl tags = true)
    (hne : rulesNonEmpty tbl G.rules = true) (hk : (AList.keys G.rules).Nodup)
    (hn : PS.G.Normalised G tags) (k : Nat) (hb : bounded G k G.start = true) :
    ((lang (inst G tbl) k G.start).map (probability (inst G tbl) (instTags tags tbl))).sum = 1 := by
  rw [C17_total_partial G tags tbl hG hT hne k]
  have h := mass_eq_one G tags hk hn k G.start hb
  unfold PS.G.mass at h
  rw [show probability G tags = fun t => PS.G.prob G tags t G.start from
    funext (fun t => by rw [C17_prob_impl, prob_eq_spec])]
  exact h

theorem ex_normalised : PS.G.Normalised G tags ∧ (AList.keys G.rules).Nodup ∧
    bounded G 2 G.start = true := by
  refine ⟨?_, by decide, by decide⟩
  intro e he
  simp only [G, List.mem_cons, List.not_mem_nil, or_false] at he
  rcases he with rfl | rfl <;> exact ⟨by decide +kernel, by decide⟩

/-- the hypotheses of `C17_total_one_partial` hold on the example: the 10 programs of the
    instantiated grammar have total probability 1 -/
example : ((lang (inst G tbl) 2 G.start).map (probability (inst G tbl) (instTags tags tbl))).sum = 1 :=
  C17_total_one_partial G tags tbl (by decide +kernel) (by decide +kernel) (by decide +kernel)
    ex_normalised.2.1 ex_normalised.1 2 ex_normalised.2.2

/-! #### unambiguous grammars (UCFG / ProbUGrammar) at language level -/

variable {V : Type} [DecidableEq V]

/-- **Language** of the instantiated unambiguous grammar = the instantiations of the programs of
    the template grammar (specification `genU`: existence of a derivation from a start symbol). -/
theorem C17_lang_u_partial (G : U.UCFG V) (tbl : Tbl) (h : rulesOK tbl G.rules = true) (t' : Prog) :
    U.genU (instUG G tbl) t' = true ↔ ∃ t, U.genU G t = true ∧ isInst tbl t t' = true :=
  genU_inst_iff tbl G h t'

/-- the same for the implementation's membership test (`UGrammar.__contains__`, possibility
    lists over the pending stack) -/
theorem C17_lang_u_contains_partial (G : U.UCFG V) (tbl : Tbl) (h : rulesOK tbl G.rules = true)
    (t' : Prog) :
    U.contains (instUG G tbl) t' = true ↔ ∃ t, U.contains G t = true ∧ isInst tbl t t' = true := by
  rw [U.contains_eq_genU]
  simp only [U.contains_eq_genU]
  exact C17_lang_u_partial G tbl h t'

/-- **each instantiation comes from exactly one template** -/
theorem C17_lang_u_unique_partial (G : U.UCFG V) (tbl : Tbl) (h : rulesOK tbl G.rules = true)
    (t1 t2 t' : Prog) (g1 : U.genU G t1 = true) (g2 : U.genU G t2 = true)
    (i1 : isInst tbl t1 t' = true) (i2 : isInst tbl t2 t' = true) : t1 = t2 := by
  rw [← templ_of_isInst' tbl t1 t' (templ_fix_of_genU tbl G h t1 g1) i1,
    ← templ_of_isInst' tbl t2 t' (templ_fix_of_genU tbl G h t2 g2) i2]

/-- **derivations correspond one to one**: the derivations of an instantiation `t'` in the
    instantiated grammar are, in the same order and from the same start symbols, the derivations
    of its template `t` (symbols renamed back by `templSym`) — so **unambiguity is preserved**. -/
theorem C17_derivs_u_partial (G : U.UCFG V) (tbl : Tbl) (h : rulesOK tbl G.rules = true)
    (t t' : Prog) (hg : U.genU G t = true) (hi : isInst tbl t t' = true) :
    (U.allDerivs (instUG G tbl) t').map (fun sd => (sd.1, sd.2.map (derTempl tbl))) = U.allDerivs G t ∧
    U.unambiguousOn (instUG G tbl) t' = U.unambiguousOn G t :=
  ⟨allDerivs_inst tbl G h t t' (templ_fix_of_genU tbl G h t hg) hi,
   unambiguousOn_inst tbl G h t t' hg hi⟩

/-- **Mass** (specification `probU`: start weight × product of the rule weights of the unique
    derivation): the instantiations of an unambiguous template share its probability. -/
theorem C17_mass_u_partial (G : U.UCFG V) (tg : U.UTags V) (tbl : Tbl)
    (hG : rulesOK tbl G.rules = true) (hT : rulesOK tbl tg.tags = true)
    (hne : rulesNonEmpty tbl G.rules = true) (t : Prog) (l : List Prog)
    (hg : U.genU G t = true) (hu : U.unambiguousOn G t = true) (hl : allInst tbl t = some l) :
    rsum (l.map (U.probU (instUG G tbl) (instUTg tg tbl))) = U.probU G tg t :=
  probU_mass tbl G tg hG hT hne t l hg hu hl

/-- **Mass, on what the code computes** (`ProbUGrammar.probability`: the `reduce_derivations`
    fold over the first alternative, without the start factor — finding C04-F1 — so no
    hypothesis on the start weights is needed here). -/
theorem C17_mass_u_impl_partial (G : U.UCFG V) (tg : U.UTags V) (tbl : Tbl)
    (hG : rulesOK tbl G.rules = true) (hT : rulesOK tbl tg.tags = true)
    (hne : rulesNonEmpty tbl G.rules = true) (t : Prog) (l : List Prog)
    (hg : U.contains G t = true) (hu : U.unambiguousOn G t = true) (hl : allInst tbl t = some l) :
    rsum (l.map (U.probabilityU (instUG G tbl) (instUTg tg tbl))) = U.probabilityU G tg t := by
  rw [U.contains_eq_genU] at hg
  exact probabilityU_mass tbl G tg hG hT hne t l hg hu hl

/-- **No mass is lost** (unambiguous grammars): the total weight of the derivations of at most
    `k` levels from every non-terminal is unchanged (C04's `massU`; = 1 for a finite normalised
    grammar by `C04_spec_u_total`). -/
theorem C17_total_u_partial (G : U.UCFG V) (tg : U.UTags V) (tbl : Tbl)
    (hG : rulesOK tbl G.rules = true) (hT : rulesOK tbl tg.tags = true)
    (hne : rulesNonEmpty tbl G.rules = true) (k : Nat) (nt : U.UNT V) :
    U.Mass.massU (instUG G tbl) (instUTg tg tbl) k nt = U.Mass.massU G tg k nt :=
  massU_inst tbl G tg hG hT hne k nt

/-! non-vacuity: `q0 → (+ q1 q1) | (+ q2 q1) | 1`, `q1 → <int> | var0`, `q2 → 1` (two alternatives
    for `+`; the template `(+ <int> var0)` has one derivation) -/
namespace ExU
def q0 : U.UNT Nat := (int, 0)
def q1 : U.UNT Nat := (int, 1)
def q2 : U.UNT Nat := (int, 2)
def GU : U.UCFG Nat :=
  ⟨[q0], [(q0, [(plus, [[q1, q1], [q2, q1]]), (one, [[]])]), (q1, [(slot, [[]]), (v0, [[]])]),
          (q2, [(one, [[]])])], q0⟩
def tgU : U.UTags Nat :=
  ⟨[(q0, [(plus, [([q1, q1], 1/4), ([q2, q1], 1/4)]), (one, [([], 1/2)])]),
    (q1, [(slot, [([], 3/4)]), (v0, [([], 1/4)])]), (q2, [(one, [([], 1)])])], [(q0, 1)]⟩
end ExU
open ExU

example : rulesOK tbl GU.rules = true ∧ rulesOK tbl tgU.tags = true ∧
    rulesNonEmpty tbl GU.rules = true ∧ U.contains GU t = true ∧ U.genU GU t = true ∧
    U.unambiguousOn GU t = true := by decide +kernel
example : U.genU (instUG GU tbl) t' = true ∧ U.genU (instUG GU tbl) t = false ∧
    U.unambiguousOn (instUG GU tbl) t' = true ∧ (U.allDerivs (instUG GU tbl) t').length = 1 := by
  decide +kernel
example : U.probabilityU GU tgU t = 3/64 ∧ U.probU GU tgU t = 3/64 ∧
    U.probabilityU (instUG GU tbl) (instUTg tgU tbl) t' = 3/128 := by decide +kernel
example : rsum ([.node plus [leaf (c "i:5"), leaf v0], t'].map
    (U.probabilityU (instUG GU tbl) (instUTg tgU tbl))) = U.probabilityU GU tgU t :=
  C17_mass_u_impl_partial GU tgU tbl (by decide +kernel) (by decide +kernel) (by decide +kernel) t _
    (by decide +kernel) (by decide +kernel) (by decide +kernel)
example : U.Mass.massU (instUG GU tbl) (instUTg tgU tbl) 2 q0 = 1 ∧ U.Mass.massU GU tgU 2 q0 = 1 := by
  decide +kernel

/-! ### findings: the statements without the hypotheses are false for the code as it is -/

/-- **C17-F1**: an empty value list for a slot of the grammar: the slot's rule disappears and
    its weight with it — a normalised grammar is no longer normalised, and the template
    `(+ <bool>-free …)`: here `<int>` with `int ↦ []` loses all its mass. -/
theorem finding_C17_F1 :
    let tbl0 : Tbl := [(int, [])]
    rulesOK tbl0 tags = true ∧ normalisedB tags = true ∧ normalisedB (instTags tags tbl0) = false ∧
    rowSumsOf (instTags tags tbl0) = [1, 1/4] ∧
    allInst tbl0 t = some [] ∧ prob G tags t G.start = 3/32 := by
  decide +kernel

/-- **C17-F2**: constants that already carry a value are instantiated again: instantiating an
    already instantiated grammar changes its language (`(+ 5 var0)` ↦ `(+ 6 var0)`, `(+ 7 var0)`
    although `5` is not a slot) and loses mass (rows overwrite each other: total 1/4 + 3/8). -/
theorem finding_C17_F2 :
    let tbl1 : Tbl := [(int, ["i:5"])]
    let tbl2 : Tbl := [(int, ["i:6", "i:7"])]
    let tbl3 : Tbl := [(int, ["i:5", "i:7"])]
    let G1 := inst G tbl1
    let t5 : Prog := .node plus [leaf (c "i:5"), leaf v0]
    rulesOK tbl2 G1.rules = false ∧ gen G1 t5 G1.start = true ∧ isInst tbl2 t5 t5 = true ∧
    gen (inst G1 tbl2) t5 G1.start = false ∧
    rowSumsOf (instTags (instTags tags tbl) tbl3) = [1, 5/8] := by
  decide +kernel

/-- **C17-F3**: a value listed twice is divided by 2 but kept once. -/
theorem finding_C17_F3 :
    let tbl0 : Tbl := [(int, ["i:5", "i:5"])]
    rulesOK tbl0 tags = false ∧ rowSumsOf (instTags tags tbl0) = [1, 5/8] ∧
    allInst tbl0 (leaf slot) = some [leaf (c "i:5"), leaf (c "i:5")] := by
  decide +kernel

/-- **C17-F4**: the program side raises `KeyError` (`none`) for a constant whose type is not in
    the table, while the grammar side keeps such a constant. -/
theorem finding_C17_F4 :
    let tbl0 : Tbl := [(bool, ["b:True"])]
    allInst tbl0 t = none ∧ gen (inst G tbl0) t G.start = true := by
  decide +kernel

end PS.IC
