/-
  C17 — Instantiating constants expands templates without moving probability mass.

  Model: PS/Model/InstConst.lean (literal transcription of the four `instantiate_constants`
  and of `all_constants_instantiation`).  Specification: `isInst` (every slot of the template
  replaced independently by a value of its type), `prob` (product of the rule weights), row sums.

  The model takes a `Fix` (which of the proposed repairs fixes_proposed/C17-F2/F3/F4.diff are
  in the code): `Fix.asIs` = /repo as it is, `Fix.repaired` = with the three repairs.

  1. The `…_partial` theorems hold for EVERY `fx : Fix` — in particular for the code as it is —
     under the decidable hypotheses (evaluated by the driver on every case)
       rulesOK fx tbl d        rows are dicts; a key the code instantiates is a bare slot (finding
                               C17-F2 otherwise, unless `fx.f2`) with a duplicate-free value list
                               (finding C17-F3 otherwise, unless `fx.f3`); a constant the code leaves
                               alone has no value listed in the table for its type
       rulesNonEmpty fx tbl d  no slot has an empty value list (finding C17-F1 otherwise)
       progOK fx tbl t         every constant of the program has no value (C17-F2 unless `fx.f2`),
                               its type is in the table (C17-F4 unless `fx.f4`), no duplicate
                               values (C17-F3 unless `fx.f3`)
     The full statements (without hypotheses) are false for the code as it is: `finding_C17_F*`.
  2. For the repaired code the clauses of C17-F2/F3/F4 are gone: theorems `C17_lang`,
     `C17_lang_unique`, `C17_program_side`, … (no suffix) need only well-formedness of the input
     (`grammarWF`, `tagsWF`), the mass theorems `…_repaired_partial` also `slotsNonEmpty`
     (finding C17-F1, which stays).  `fixed_C17_F*`: the former witnesses.

  Second part ("what the Python computes", "no mass lost", unambiguous grammars):
    * `probability` (the transcription of `ProbDetGrammar.probability`: membership test, then the
      `reduce_derivations` fold) is the specification `prob` — by C04 (`probabilityDet_eq_prob`,
      the lemma behind `C04_prob_det`); the mass theorems are restated on it (`…_impl_…`).
    * `lang G k nt` is C04's enumeration of the programs of at most `k` levels (`C04_lang`).
    * `instUG` / `instUTg` (PS/Proofs/InstConstU.lean) are `UCFG.instantiate_constants` /
      `ProbUGrammar.instantiate_constants` on the grammar objects of C04 (`PS.U.UCFG`,
      `PS.U.UTags`): rule table `instU`, tags `instUTags`, start symbols and start tags unchanged.
      `PS.U.genU` / `PS.U.allDerivs` / `PS.U.probU` are C04's specification (stack-free
      derivations), `PS.U.contains` / `PS.U.probabilityU` the transcriptions of the code.
-/
import PS.Proofs.InstConst
import PS.Proofs.InstConstProg
import PS.Proofs.InstConstMass
import PS.Proofs.InstConstLink
import PS.Proofs.InstConstU
import PS.Proofs.InstConstFix
import PS.Proofs.InstConstRepaired
namespace PS.IC
open PS PS.G

variable {S : Type} [DecidableEq S]

/-- **Language.** The instantiated grammar generates exactly the instantiations of the programs
    of the template grammar (from every non-terminal). -/
theorem C17_lang_partial (fx : Fix) (G : TT S Unit) (tbl : Tbl) (h : rulesOK fx tbl G.rules = true)
    (t' : Prog) (nt : NT S Unit) :
    gen (inst fx G tbl) t' nt = true ↔ ∃ t, gen G t nt = true ∧ isInst tbl t t' = true :=
  ⟨fun hg => ⟨templ tbl t', gen_inst_templ fx tbl G h t' nt hg⟩,
   fun ⟨t, hg, hi⟩ => gen_inst_of_isInst fx tbl G h t t' nt hg hi⟩

/-- the same for the implementation's membership test `program in grammar`
    (`DetGrammar.__contains__`, stack-based derivation) -/
theorem C17_lang_contains_partial (fx : Fix) (G : TT S Unit) (tbl : Tbl) (h : rulesOK fx tbl G.rules = true)
    (t' : Prog) :
    contains (inst fx G tbl) t' = true ↔ ∃ t, contains G t = true ∧ isInst tbl t t' = true := by
  rw [contains_eq_gen]
  simp only [contains_eq_gen]
  exact C17_lang_partial fx G tbl h t' G.start

/-- **Each instantiation comes from exactly one template**, namely `templ tbl t'`. -/
theorem C17_lang_unique_partial (fx : Fix) (G : TT S Unit) (tbl : Tbl) (h : rulesOK fx tbl G.rules = true)
    (t1 t2 t' : Prog) (nt : NT S Unit)
    (g1 : gen G t1 nt = true) (g2 : gen G t2 nt = true)
    (i1 : isInst tbl t1 t' = true) (i2 : isInst tbl t2 t' = true) : t1 = t2 := by
  rw [← templ_of_isInst fx tbl G h t1 t' nt g1 i1, ← templ_of_isInst fx tbl G h t2 t' nt g2 i2]

/-- the rule table itself: under the hypothesis no insertion overwrites, every row is the
    concatenation of the expansions of its entries (in dict order) -/
theorem C17_rows_partial {ν : Type} (fx : Fix) (tbl : Tbl) (f : ν → Nat → ν) (row : AList Sym ν)
    (h : rowOK fx tbl row = true) :
    instRow fx tbl f row = row.flatMap (expand fx tbl f) ∧ (AList.keys (instRow fx tbl f row)).Nodup := by
  rw [instRow_eq_flatMap h]
  exact ⟨rfl, keys_flatMap_nodup h⟩

/-- **Program side.** `all_constants_instantiation` lists the instantiations of the program,
    each exactly once. -/
theorem C17_program_side_partial (fx : Fix) (tbl : Tbl) (t : Prog) (h : progOK fx tbl t = true) :
    ∃ l, allInst fx tbl t = some l ∧ l.Nodup ∧ ∀ t', t' ∈ l ↔ isInst tbl t t' = true :=
  allInst_spec fx tbl t h

/-- **Mass.** The instantiations of a template carry, in total, the template's probability. -/
theorem C17_mass_partial (fx : Fix) (G : TT S Unit) (tags : Tags S Unit) (tbl : Tbl)
    (hG : rulesOK fx tbl G.rules = true) (hT : rulesOK fx tbl tags = true)
    (hne : rulesNonEmpty fx tbl G.rules = true)
    (t : Prog) (nt : NT S Unit) (l : List Prog) (hg : gen G t nt = true) (hl : allInst fx tbl t = some l) :
    rsum (l.map fun t' => prob (inst fx G tbl) (instTags fx tags tbl) t' nt) = prob G tags t nt :=
  mass fx tbl G tags hG hT hne t nt l hg hl

/-- **Row sums** are preserved, hence … -/
theorem C17_rowsum_partial (fx : Fix) (tags : Tags S Unit) (tbl : Tbl)
    (h : rulesOK fx tbl tags = true) (hne : rulesNonEmpty fx tbl tags = true) (nt : NT S Unit)
    (row : AList Sym Rat) (hl : AList.lookup nt tags = some row) :
    ∃ row', AList.lookup nt (instTags fx tags tbl) = some row' ∧
      rsum (AList.values row') = rsum (AList.values row) := by
  refine ⟨instRow fx tbl (fun p n => p / (n : Rat)) row, ?_, ?_⟩
  · unfold instTags; rw [lookup_instRules, hl]; rfl
  · exact rsum_instRow (rulesOK_row h hl) (rulesNonEmpty_row hne hl)

omit [DecidableEq S] in
/-- … **a normalised grammar stays normalised** (deterministic grammars). -/
theorem C17_normalised_partial (fx : Fix) (tags : Tags S Unit) (tbl : Tbl)
    (h : rulesOK fx tbl tags = true) (hne : rulesNonEmpty fx tbl tags = true)
    (hn : Normalised tags) : Normalised (instTags fx tags tbl) := by
  intro e he
  unfold instTags instRules at he
  obtain ⟨e0, he0, rfl⟩ := List.mem_map.mp he
  simp only
  unfold rulesOK at h
  unfold rulesNonEmpty at hne
  rw [List.all_eq_true] at h hne
  rw [rsum_instRow (h e0 he0) (hne e0 he0)]
  exact hn e0 he0

/-- the same for probabilistic unambiguous grammars (`ProbUGrammar`): the total weight of every
    non-terminal is preserved -/
theorem C17_normalised_u_partial {U : Type} (fx : Fix) (tags : UTags U) (tbl : Tbl)
    (h : rulesOK fx tbl tags = true) (hne : rulesNonEmpty fx tbl tags = true)
    (hn : NormalisedU tags) : NormalisedU (instUTags fx tags tbl) := by
  intro e he
  unfold instUTags instRules at he
  obtain ⟨e0, he0, rfl⟩ := List.mem_map.mp he
  simp only
  unfold rulesOK at h
  unfold rulesNonEmpty at hne
  rw [List.all_eq_true] at h hne
  rw [rsum_instURow (h e0 he0) (hne e0 he0)]
  exact hn e0 he0

/-- rules of the instantiated unambiguous grammar: the list of alternatives of an instantiated
    symbol is the list of alternatives of its template symbol, and nothing else is there -/
theorem C17_ucfg_rules_partial {U : Type} [DecidableEq U] (fx : Fix) (R : UTable U) (tbl : Tbl)
    (h : rulesOK fx tbl R = true) (nt : UNT U) (row : AList Sym (List (List (UNT U))))
    (hl : AList.lookup nt R = some row) (k : Sym) (alts : List (List (UNT U))) :
    (∃ row', AList.lookup nt (instU fx R tbl) = some row' ∧ AList.lookup k row' = some alts) ↔
      ∃ P, AList.lookup P row = some alts ∧ symInst tbl P k = true := by
  have hrow := rulesOK_row h hl
  unfold instU
  rw [lookup_instRules, hl]
  simp only [Option.map_some, Option.some.injEq, exists_eq_left']
  rw [lookup_instRow_iff hrow]
  constructor
  · rintro ⟨P, v, hP, hp, hw⟩
    have hok := (rowOK_iff.mp hrow).2 P (mem_keys_of_lookup hP)
    refine ⟨P, ?_, (produces_iff_symInst hok).mp hp⟩
    rw [hP, hw]; cases slot? fx tbl P <;> rfl
  · rintro ⟨P, hP, hs⟩
    have hok := (rowOK_iff.mp hrow).2 P (mem_keys_of_lookup hP)
    refine ⟨P, alts, hP, (produces_iff_symInst hok).mpr hs, ?_⟩
    cases slot? fx tbl P <;> rfl

/-! ### non-vacuity: a small grammar `S → (+ A A) | 1`, `A → <int> | var0` -/
namespace Ex
def int : Ty := .base "int"
def bool : Ty := .base "bool"
def plus : Sym := Sym.prim "+" (.arrow int (.arrow int int))
def one : Sym := Sym.prim "1" int
def v0 : Sym := Sym.var 0 int
def slot : Sym := Sym.const int ""
def c (v : String) : Sym := Sym.const int v
def s0 : NT Nat Unit := (int, (0, ()))
def s1 : NT Nat Unit := (int, (1, ()))
def G : TT Nat Unit := ⟨s0, [(s0, [(plus, ([(int, 1), (int, 1)], ())), (one, ([], ()))]),
                              (s1, [(slot, ([], ())), (v0, ([], ()))])]⟩
def tags : Tags Nat Unit := [(s0, [(plus, 1/2), (one, 1/2)]), (s1, [(slot, 3/4), (v0, 1/4)])]
def tbl : Tbl := [(int, ["i:5", "i:6"]), (bool, [])]
def leaf (s : Sym) : Prog := .node s []
def t : Prog := .node plus [leaf slot, leaf v0]
def t' : Prog := .node plus [leaf (c "i:6"), leaf v0]
end Ex
open Ex

example : rulesOK Fix.asIs tbl G.rules = true ∧ rulesOK Fix.asIs tbl tags = true ∧ rulesNonEmpty Fix.asIs tbl G.rules = true ∧
    rulesNonEmpty Fix.asIs tbl tags = true ∧ progOK Fix.asIs tbl t = true := by decide +kernel
example : gen G t G.start = true ∧ isInst tbl t t' = true ∧ gen (inst Fix.asIs G tbl) t' G.start = true ∧
    gen (inst Fix.asIs G tbl) t G.start = false ∧ templ tbl t' = t := by decide +kernel
example : allInst Fix.asIs tbl t = some [.node plus [leaf (c "i:5"), leaf v0], t'] := by decide +kernel
example : prob G tags t G.start = 3/32 ∧ prob (inst Fix.asIs G tbl) (instTags Fix.asIs tags tbl) t' G.start = 3/64 := by
  decide +kernel
example : normalisedB tags = true ∧ normalisedB (instTags Fix.asIs tags tbl) = true := by decide +kernel

/-! ### the model of `probability`, total mass, unambiguous grammars -/

/-- **The model of `ProbDetGrammar.probability` is the specification** `prob` (product of the
    rule weights along the derivation, 0 outside the language): for every grammar, every tag
    table (incomplete or unnormalised too) and every program.  No hypothesis.  (C04.) -/
theorem C17_prob_impl (G : TT S Unit) (tags : Tags S Unit) (t : Prog) :
    probability G tags t = prob G tags t G.start :=
  probability_eq_prob G tags t

example : probability G tags t = 3/32 ∧ probability (inst Fix.asIs G tbl) (instTags Fix.asIs tags tbl) t' = 3/64 ∧
    probability (inst Fix.asIs G tbl) (instTags Fix.asIs tags tbl) t = 0 := by decide +kernel

/-- **Mass, on what the code computes.** The values `probability` returns for the
    instantiations of a template of the grammar sum to the value it returns for the template. -/
theorem C17_mass_impl_partial (fx : Fix) (G : TT S Unit) (tags : Tags S Unit) (tbl : Tbl)
    (hG : rulesOK fx tbl G.rules = true) (hT : rulesOK fx tbl tags = true)
    (hne : rulesNonEmpty fx tbl G.rules = true)
    (t : Prog) (l : List Prog) (hg : contains G t = true) (hl : allInst fx tbl t = some l) :
    rsum (l.map (probability (inst fx G tbl) (instTags fx tags tbl))) = probability G tags t := by
  rw [contains_eq_gen] at hg
  rw [C17_prob_impl, ← C17_mass_partial fx G tags tbl hG hT hne t G.start l hg hl]
  exact rsum_map_congr (fun t' _ => C17_prob_impl (inst fx G tbl) (instTags fx tags tbl) t')

example : rsum ([.node plus [leaf (c "i:5"), leaf v0], t'].map
    (probability (inst Fix.asIs G tbl) (instTags Fix.asIs tags tbl))) = probability G tags t :=
  C17_mass_impl_partial Fix.asIs G tags tbl (by decide +kernel) (by decide +kernel) (by decide +kernel) t _
    (by decide +kernel) (by decide +kernel)

/-- **The enumerated language.** The programs of at most `k` levels of the instantiated grammar
    (C04's duplicate-free enumeration `lang`) are exactly the instantiations of the programs of
    at most `k` levels of the template grammar. -/
theorem C17_lang_enum_partial (fx : Fix) (G : TT S Unit) (tbl : Tbl) (h : rulesOK fx tbl G.rules = true)
    (k : Nat) (nt : NT S Unit) :
    (lang (inst fx G tbl) k nt).Nodup ∧
    ∀ t', t' ∈ lang (inst fx G tbl) k nt ↔ ∃ t ∈ lang G k nt, isInst tbl t t' = true :=
  ⟨lang_nodup _ (rowsNodup_inst h) k nt, mem_lang_inst fx tbl G h k nt⟩

example : (lang G 2 G.start).length = 5 ∧ (lang (inst Fix.asIs G tbl) 2 G.start).length = 10 ∧
    t ∈ lang G 2 G.start ∧ t' ∈ lang (inst Fix.asIs G tbl) 2 G.start := by decide +kernel

/-- **No probability mass is lost** (specification, every non-terminal, every depth budget):
    the probabilities of all programs of at most `k` levels of the instantiated grammar sum to
    the same value as those of the template grammar. -/
theorem C17_total_spec_partial (fx : Fix) (G : TT S Unit) (tags : Tags S Unit) (tbl : Tbl)
    (hG : rulesOK fx tbl G.rules = true) (hT : rulesOK fx tbl tags = true)
    (hne : rulesNonEmpty fx tbl G.rules = true) (k : Nat) (nt : NT S Unit) :
    ((lang (inst fx G tbl) k nt).map fun t' => prob (inst fx G tbl) (instTags fx tags tbl) t' nt).sum =
      ((lang G k nt).map fun t => prob G tags t nt).sum := by
  have h := mass_inst fx tbl G tags hG hT hne k nt
  unfold PS.G.mass at h
  simp only [prob_eq_spec]
  exact h

/-- **No probability mass is lost** (what the code computes): the values of `probability` over
    the programs of the instantiated grammar sum to the same value as over the template grammar. -/
theorem C17_total_partial (fx : Fix) (G : TT S Unit) (tags : Tags S Unit) (tbl : Tbl)
    (hG : rulesOK fx tbl G.rules = true) (hT : rulesOK fx tbl tags = true)
    (hne : rulesNonEmpty fx tbl G.rules = true) (k : Nat) :
    ((lang (inst fx G tbl) k G.start).map (probability (inst fx G tbl) (instTags fx tags tbl))).sum =
      ((lang G k G.start).map (probability G tags)).sum := by
  have h := C17_total_spec_partial fx G tags tbl hG hT hne k G.start
  rw [show probability (inst fx G tbl) (instTags fx tags tbl) =
      fun t' => prob (inst fx G tbl) (instTags fx tags tbl) t' G.start from
        funext (fun t' => C17_prob_impl (inst fx G tbl) (instTags fx tags tbl) t'),
    show probability G tags = fun t => prob G tags t G.start from
      funext (fun t => C17_prob_impl G tags t)]
  exact h

/-- … hence **a distribution stays a distribution**: over a finite normalised grammar (C04's
    `Normalised`: the weights of the rules of every non-terminal sum to 1) the values of
    `probability` over the instantiated language sum to 1. -/
theorem C17_total_one_partial (fx : Fix) (G : TT S Unit) (tags : Tags S Unit) (tbl : Tbl)
    (hG : rulesOK fx tbl G.rules = true) (hT : rulesOK fx tbl tags = true)
    (hne : rulesNonEmpty fx tbl G.rules = true) (hk : (AList.keys G.rules).Nodup)
    (hn : PS.G.Normalised G tags) (k : Nat) (hb : bounded G k G.start = true) :
    ((lang (inst fx G tbl) k G.start).map (probability (inst fx G tbl) (instTags fx tags tbl))).sum = 1 := by
  rw [C17_total_partial fx G tags tbl hG hT hne k]
  have h := mass_eq_one G tags hk hn k G.start hb
  unfold PS.G.mass at h
  rw [show probability G tags = fun t => PS.G.prob G tags t G.start from
    funext (fun t => by rw [C17_prob_impl, prob_eq_spec])]
  exact h

theorem ex_normalised : PS.G.Normalised G tags ∧ (AList.keys G.rules).Nodup ∧
    bounded G 2 G.start = true := by
  refine ⟨?_, by decide, by decide⟩
  intro e he
  simp only [G, List.mem_cons, List.not_mem_nil, or_false] at he
  rcases he with rfl | rfl <;> exact ⟨by decide +kernel, by decide⟩

/-- the hypotheses of `C17_total_one_partial` hold on the example: the 10 programs of the
    instantiated grammar have total probability 1 -/
example : ((lang (inst Fix.asIs G tbl) 2 G.start).map (probability (inst Fix.asIs G tbl) (instTags Fix.asIs tags tbl))).sum = 1 :=
  C17_total_one_partial Fix.asIs G tags tbl (by decide +kernel) (by decide +kernel) (by decide +kernel)
    ex_normalised.2.1 ex_normalised.1 2 ex_normalised.2.2

/-! #### unambiguous grammars (UCFG / ProbUGrammar) at language level -/

variable {V : Type} [DecidableEq V]

/-- **Language** of the instantiated unambiguous grammar = the instantiations of the programs of
    the template grammar (specification `genU`: existence of a derivation from a start symbol). -/
theorem C17_lang_u_partial (fx : Fix) (G : U.UCFG V) (tbl : Tbl) (h : rulesOK fx tbl G.rules = true) (t' : Prog) :
    U.genU (instUG fx G tbl) t' = true ↔ ∃ t, U.genU G t = true ∧ isInst tbl t t' = true :=
  genU_inst_iff fx tbl G h t'

/-- the same for the implementation's membership test (`UGrammar.__contains__`, possibility
    lists over the pending stack) -/
theorem C17_lang_u_contains_partial (fx : Fix) (G : U.UCFG V) (tbl : Tbl) (h : rulesOK fx tbl G.rules = true)
    (t' : Prog) :
    U.contains (instUG fx G tbl) t' = true ↔ ∃ t, U.contains G t = true ∧ isInst tbl t t' = true := by
  rw [U.contains_eq_genU]
  simp only [U.contains_eq_genU]
  exact C17_lang_u_partial fx G tbl h t'

/-- **each instantiation comes from exactly one template** -/
theorem C17_lang_u_unique_partial (fx : Fix) (G : U.UCFG V) (tbl : Tbl) (h : rulesOK fx tbl G.rules = true)
    (t1 t2 t' : Prog) (g1 : U.genU G t1 = true) (g2 : U.genU G t2 = true)
    (i1 : isInst tbl t1 t' = true) (i2 : isInst tbl t2 t' = true) : t1 = t2 := by
  rw [← templ_of_isInst' fx tbl t1 t' (clean_of_genU fx tbl G h t1 g1) i1,
    ← templ_of_isInst' fx tbl t2 t' (clean_of_genU fx tbl G h t2 g2) i2]

/-- **derivations correspond one to one**: the derivations of an instantiation `t'` in the
    instantiated grammar are, in the same order and from the same start symbols, the derivations
    of its template `t` (symbols renamed back by `templSym`) — so **unambiguity is preserved**. -/
theorem C17_derivs_u_partial (fx : Fix) (G : U.UCFG V) (tbl : Tbl) (h : rulesOK fx tbl G.rules = true)
    (t t' : Prog) (hg : U.genU G t = true) (hi : isInst tbl t t' = true) :
    (U.allDerivs (instUG fx G tbl) t').map (fun sd => (sd.1, sd.2.map (derTempl tbl))) = U.allDerivs G t ∧
    U.unambiguousOn (instUG fx G tbl) t' = U.unambiguousOn G t :=
  ⟨allDerivs_inst fx tbl G h t t' (clean_of_genU fx tbl G h t hg) hi,
   unambiguousOn_inst fx tbl G h t t' hg hi⟩

/-- **Mass** (specification `probU`: start weight × product of the rule weights of the unique
    derivation): the instantiations of an unambiguous template share its probability. -/
theorem C17_mass_u_partial (fx : Fix) (G : U.UCFG V) (tg : U.UTags V) (tbl : Tbl)
    (hG : rulesOK fx tbl G.rules = true) (hT : rulesOK fx tbl tg.tags = true)
    (hne : rulesNonEmpty fx tbl G.rules = true) (t : Prog) (l : List Prog)
    (hg : U.genU G t = true) (hu : U.unambiguousOn G t = true) (hl : allInst fx tbl t = some l) :
    rsum (l.map (U.probU (instUG fx G tbl) (instUTg fx tg tbl))) = U.probU G tg t :=
  probU_mass fx tbl G tg hG hT hne t l hg hu hl

/-- **Mass, on what the code computes** (`ProbUGrammar.probability`: the `reduce_derivations`
    fold over the first alternative, without the start factor — finding C04-F1 — so no
    hypothesis on the start weights is needed here). -/
theorem C17_mass_u_impl_partial (fx : Fix) (G : U.UCFG V) (tg : U.UTags V) (tbl : Tbl)
    (hG : rulesOK fx tbl G.rules = true) (hT : rulesOK fx tbl tg.tags = true)
    (hne : rulesNonEmpty fx tbl G.rules = true) (t : Prog) (l : List Prog)
    (hg : U.contains G t = true) (hu : U.unambiguousOn G t = true) (hl : allInst fx tbl t = some l) :
    rsum (l.map (U.probabilityU (instUG fx G tbl) (instUTg fx tg tbl))) = U.probabilityU G tg t := by
  rw [U.contains_eq_genU] at hg
  exact probabilityU_mass fx tbl G tg hG hT hne t l hg hu hl

/-- **No mass is lost** (unambiguous grammars): the total weight of the derivations of at most
    `k` levels from every non-terminal is unchanged (C04's `massU`; = 1 for a finite normalised
    grammar by `C04_spec_u_total`). -/
theorem C17_total_u_partial (fx : Fix) (G : U.UCFG V) (tg : U.UTags V) (tbl : Tbl)
    (hG : rulesOK fx tbl G.rules = true) (hT : rulesOK fx tbl tg.tags = true)
    (hne : rulesNonEmpty fx tbl G.rules = true) (k : Nat) (nt : U.UNT V) :
    U.Mass.massU (instUG fx G tbl) (instUTg fx tg tbl) k nt = U.Mass.massU G tg k nt :=
  massU_inst fx tbl G tg hG hT hne k nt

/-! non-vacuity: `q0 → (+ q1 q1) | (+ q2 q1) | 1`, `q1 → <int> | var0`, `q2 → 1` (two alternatives
    for `+`; the template `(+ <int> var0)` has one derivation) -/
namespace ExU
def q0 : U.UNT Nat := (int, 0)
def q1 : U.UNT Nat := (int, 1)
def q2 : U.UNT Nat := (int, 2)
def GU : U.UCFG Nat :=
  ⟨[q0], [(q0, [(plus, [[q1, q1], [q2, q1]]), (one, [[]])]), (q1, [(slot, [[]]), (v0, [[]])]),
          (q2, [(one, [[]])])], q0⟩
def tgU : U.UTags Nat :=
  ⟨[(q0, [(plus, [([q1, q1], 1/4), ([q2, q1], 1/4)]), (one, [([], 1/2)])]),
    (q1, [(slot, [([], 3/4)]), (v0, [([], 1/4)])]), (q2, [(one, [([], 1)])])], [(q0, 1)]⟩
end ExU
open ExU

example : rulesOK Fix.asIs tbl GU.rules = true ∧ rulesOK Fix.asIs tbl tgU.tags = true ∧
    rulesNonEmpty Fix.asIs tbl GU.rules = true ∧ U.contains GU t = true ∧ U.genU GU t = true ∧
    U.unambiguousOn GU t = true := by decide +kernel
example : U.genU (instUG Fix.asIs GU tbl) t' = true ∧ U.genU (instUG Fix.asIs GU tbl) t = false ∧
    U.unambiguousOn (instUG Fix.asIs GU tbl) t' = true ∧ (U.allDerivs (instUG Fix.asIs GU tbl) t').length = 1 := by
  decide +kernel
example : U.probabilityU GU tgU t = 3/64 ∧ U.probU GU tgU t = 3/64 ∧
    U.probabilityU (instUG Fix.asIs GU tbl) (instUTg Fix.asIs tgU tbl) t' = 3/128 := by decide +kernel
example : rsum ([.node plus [leaf (c "i:5"), leaf v0], t'].map
    (U.probabilityU (instUG Fix.asIs GU tbl) (instUTg Fix.asIs tgU tbl))) = U.probabilityU GU tgU t :=
  C17_mass_u_impl_partial Fix.asIs GU tgU tbl (by decide +kernel) (by decide +kernel) (by decide +kernel) t _
    (by decide +kernel) (by decide +kernel) (by decide +kernel)
example : U.Mass.massU (instUG Fix.asIs GU tbl) (instUTg Fix.asIs tgU tbl) 2 q0 = 1 ∧ U.Mass.massU GU tgU 2 q0 = 1 := by
  decide +kernel

/-! ## The repaired code (`Fix.repaired`: fixes_proposed/C17-F2.diff, C17-F3.diff, C17-F4.diff)

  The same statements without the clauses of the findings C17-F2, C17-F3 and C17-F4.  What is
  left is
    grammarWF tbl d      the rows are dicts, "" is not a value, and no constant of the grammar
                         already carries a value that the table lists for a type that still has a
                         slot in the grammar (then `<int>` and `5` would be two templates of the
                         instantiation `5`: "obtained exactly once" cannot hold for any code);
                         a grammar whose constants of a type all have values (an instantiated
                         grammar) satisfies it for every table — `C17_idempotent`;
    tagsWF tbl d tags    the same for the tags of a probabilistic grammar with rule table `d`
                         (they have no other slot types than the rules);
    slotsNonEmpty tbl d  no slot of the grammar has an empty value list — finding C17-F1, which
                         stays: the theorems that need it keep the suffix `_partial`.
  The program side needs no hypothesis at all. -/

/-- **Language** (repaired code). -/
theorem C17_lang (G : TT S Unit) (tbl : Tbl) (h : grammarWF tbl G.rules = true)
    (t' : Prog) (nt : NT S Unit) :
    gen (inst Fix.repaired G tbl) t' nt = true ↔ ∃ t, gen G t nt = true ∧ isInst tbl t t' = true :=
  lang_wf rfl rfl G tbl h t' nt

/-- the same for the membership test `program in grammar` -/
theorem C17_lang_contains (G : TT S Unit) (tbl : Tbl) (h : grammarWF tbl G.rules = true) (t' : Prog) :
    contains (inst Fix.repaired G tbl) t' = true ↔
      ∃ t, contains G t = true ∧ isInst tbl t t' = true := by
  rw [contains_eq_gen]
  simp only [contains_eq_gen]
  exact C17_lang G tbl h t' G.start

/-- **Each instantiation comes from exactly one template** (repaired code). -/
theorem C17_lang_unique (G : TT S Unit) (tbl : Tbl) (h : grammarWF tbl G.rules = true)
    (t1 t2 t' : Prog) (nt : NT S Unit)
    (g1 : gen G t1 nt = true) (g2 : gen G t2 nt = true)
    (i1 : isInst tbl t1 t' = true) (i2 : isInst tbl t2 t' = true) : t1 = t2 :=
  lang_unique_wf (fx := Fix.repaired) rfl rfl G tbl h t1 t2 t' nt g1 g2 i1 i2

/-- no insertion overwrites: every row of the new table is the concatenation of the expansions
    of the entries of the old row, keys distinct (repaired code) -/
theorem C17_rows {κ ν : Type} [DecidableEq κ] (tbl : Tbl) (f : ν → Nat → ν)
    (d : AList κ (AList Sym ν)) (h : grammarWF tbl d = true) (nt : κ) (row : AList Sym ν)
    (hl : AList.lookup nt d = some row) :
    instRow Fix.repaired tbl f row = row.flatMap (expand Fix.repaired tbl f) ∧
      (AList.keys (instRow Fix.repaired tbl f row)).Nodup :=
  rows_wf rfl rfl tbl f d h nt row hl

/-- **Program side** (repaired code): for EVERY program and EVERY table
    `all_constants_instantiation` lists the instantiations of the program, each exactly once —
    constants that already have a value, constants whose type is not in the table and value lists
    with duplicates included. -/
theorem C17_program_side (tbl : Tbl) (t : Prog) :
    ∃ l, allInst Fix.repaired tbl t = some l ∧ l.Nodup ∧ ∀ t', t' ∈ l ↔ isInst tbl t t' = true :=
  allInst_spec Fix.repaired tbl t (progOK_of_fix rfl rfl rfl tbl t)

/-- **Mass** (repaired code; C17-F1 stays). -/
theorem C17_mass_repaired_partial (G : TT S Unit) (tags : Tags S Unit) (tbl : Tbl)
    (hG : grammarWF tbl G.rules = true) (hT : tagsWF tbl G.rules tags = true)
    (hne : slotsNonEmpty tbl G.rules = true)
    (t : Prog) (nt : NT S Unit) (l : List Prog) (hg : gen G t nt = true)
    (hl : allInst Fix.repaired tbl t = some l) :
    rsum (l.map fun t' => prob (inst Fix.repaired G tbl) (instTags Fix.repaired tags tbl) t' nt) =
      prob G tags t nt :=
  mass_wf rfl rfl G tags tbl hG hT hne t nt l hg hl

/-- **Row sums** are preserved (repaired code; C17-F1 stays), hence … -/
theorem C17_rowsum_repaired_partial (tags : Tags S Unit) (tbl : Tbl)
    (h : grammarWF tbl tags = true) (hne : slotsNonEmpty tbl tags = true) (nt : NT S Unit)
    (row : AList Sym Rat) (hl : AList.lookup nt tags = some row) :
    ∃ row', AList.lookup nt (instTags Fix.repaired tags tbl) = some row' ∧
      rsum (AList.values row') = rsum (AList.values row) := by
  refine ⟨instRow Fix.repaired tbl (fun p n => p / (n : Rat)) row, ?_, ?_⟩
  · unfold instTags; rw [lookup_instRules, hl]; rfl
  · exact rsum_instRow_wf (e := (nt, row)) rfl rfl tbl tags h hne (AList.lookup_some_mem hl)

/-- … **a normalised grammar stays normalised** (repaired code; C17-F1 stays). -/
theorem C17_normalised_repaired_partial (tags : Tags S Unit) (tbl : Tbl)
    (h : grammarWF tbl tags = true) (hne : slotsNonEmpty tbl tags = true)
    (hn : Normalised tags) : Normalised (instTags Fix.repaired tags tbl) := by
  intro e he
  unfold instTags instRules at he
  obtain ⟨e0, he0, rfl⟩ := List.mem_map.mp he
  simp only
  rw [rsum_instRow_wf rfl rfl tbl tags h hne he0]
  exact hn e0 he0

/-- the same for probabilistic unambiguous grammars -/
theorem C17_normalised_u_repaired_partial {U : Type} [DecidableEq U] (tags : UTags U) (tbl : Tbl)
    (h : grammarWF tbl tags = true) (hne : slotsNonEmpty tbl tags = true)
    (hn : NormalisedU tags) : NormalisedU (instUTags Fix.repaired tags tbl) := by
  intro e he
  unfold instUTags instRules at he
  obtain ⟨e0, he0, rfl⟩ := List.mem_map.mp he
  simp only
  rw [rsum_instURow_wf rfl rfl tbl tags h hne he0]
  exact hn e0 he0

/-- rules of the instantiated unambiguous grammar (repaired code) -/
theorem C17_ucfg_rules {U : Type} [DecidableEq U] (R : UTable U) (tbl : Tbl)
    (h : grammarWF tbl R = true) (nt : UNT U) (row : AList Sym (List (List (UNT U))))
    (hl : AList.lookup nt R = some row) (k : Sym) (alts : List (List (UNT U))) :
    (∃ row', AList.lookup nt (instU Fix.repaired R tbl) = some row' ∧
        AList.lookup k row' = some alts) ↔
      ∃ P, AList.lookup P row = some alts ∧ symInst tbl P k = true := by
  have hc : ∀ P ∈ AList.keys row, covered (slotTys R) P :=
    covers_slotTys R (nt, row) (AList.lookup_some_mem hl)
  have h0 := C17_ucfg_rules_partial Fix.repaired R (restrict (slotTys R) tbl)
    (rulesOK_of_grammarWF rfl rfl h) nt row hl k alts
  unfold instU at h0 ⊢
  rw [instRules_restrict rfl _ (covers_slotTys R)] at h0
  rw [h0]
  constructor
  · rintro ⟨P, hP, hs⟩
    exact ⟨P, hP, by rw [← symInst_restrict (hc P (mem_keys_of_lookup hP))]; exact hs⟩
  · rintro ⟨P, hP, hs⟩
    exact ⟨P, hP, by rw [symInst_restrict (hc P (mem_keys_of_lookup hP))]; exact hs⟩

/-- **Mass, on what the code computes** (repaired code; C17-F1 stays). -/
theorem C17_mass_impl_repaired_partial (G : TT S Unit) (tags : Tags S Unit) (tbl : Tbl)
    (hG : grammarWF tbl G.rules = true) (hT : tagsWF tbl G.rules tags = true)
    (hne : slotsNonEmpty tbl G.rules = true)
    (t : Prog) (l : List Prog) (hg : contains G t = true) (hl : allInst Fix.repaired tbl t = some l) :
    rsum (l.map (probability (inst Fix.repaired G tbl) (instTags Fix.repaired tags tbl))) =
      probability G tags t := by
  rw [contains_eq_gen] at hg
  rw [C17_prob_impl, ← C17_mass_repaired_partial G tags tbl hG hT hne t G.start l hg hl]
  exact rsum_map_congr (fun t' _ => C17_prob_impl _ _ t')

/-- **The enumerated language** (repaired code). -/
theorem C17_lang_enum (G : TT S Unit) (tbl : Tbl) (h : grammarWF tbl G.rules = true)
    (k : Nat) (nt : NT S Unit) :
    (lang (inst Fix.repaired G tbl) k nt).Nodup ∧
    ∀ t', t' ∈ lang (inst Fix.repaired G tbl) k nt ↔ ∃ t ∈ lang G k nt, isInst tbl t t' = true :=
  ⟨lang_nodup _ (rowsNodup_inst_wf rfl rfl G tbl h) k nt, mem_lang_inst_wf rfl rfl G tbl h k nt⟩

/-- **No probability mass is lost** (specification; repaired code; C17-F1 stays). -/
theorem C17_total_spec_repaired_partial (G : TT S Unit) (tags : Tags S Unit) (tbl : Tbl)
    (hG : grammarWF tbl G.rules = true) (hT : tagsWF tbl G.rules tags = true)
    (hne : slotsNonEmpty tbl G.rules = true) (k : Nat) (nt : NT S Unit) :
    ((lang (inst Fix.repaired G tbl) k nt).map fun t' =>
        prob (inst Fix.repaired G tbl) (instTags Fix.repaired tags tbl) t' nt).sum =
      ((lang G k nt).map fun t => prob G tags t nt).sum := by
  have h := mass_inst_wf (fx := Fix.repaired) rfl rfl G tags tbl hG hT hne k nt
  unfold PS.G.mass at h
  simp only [prob_eq_spec]
  exact h

/-- **No probability mass is lost** (what the code computes; repaired code; C17-F1 stays). -/
theorem C17_total_repaired_partial (G : TT S Unit) (tags : Tags S Unit) (tbl : Tbl)
    (hG : grammarWF tbl G.rules = true) (hT : tagsWF tbl G.rules tags = true)
    (hne : slotsNonEmpty tbl G.rules = true) (k : Nat) :
    ((lang (inst Fix.repaired G tbl) k G.start).map
        (probability (inst Fix.repaired G tbl) (instTags Fix.repaired tags tbl))).sum =
      ((lang G k G.start).map (probability G tags)).sum := by
  have h := C17_total_spec_repaired_partial G tags tbl hG hT hne k G.start
  rw [show probability (inst Fix.repaired G tbl) (instTags Fix.repaired tags tbl) =
      fun t' => prob (inst Fix.repaired G tbl) (instTags Fix.repaired tags tbl) t' G.start from
        funext (fun t' => C17_prob_impl _ _ t'),
    show probability G tags = fun t => prob G tags t G.start from
      funext (fun t => C17_prob_impl G tags t)]
  exact h

/-- … **a distribution stays a distribution** (repaired code; C17-F1 stays). -/
theorem C17_total_one_repaired_partial (G : TT S Unit) (tags : Tags S Unit) (tbl : Tbl)
    (hG : grammarWF tbl G.rules = true) (hT : tagsWF tbl G.rules tags = true)
    (hne : slotsNonEmpty tbl G.rules = true) (hk : (AList.keys G.rules).Nodup)
    (hn : PS.G.Normalised G tags) (k : Nat) (hb : bounded G k G.start = true) :
    ((lang (inst Fix.repaired G tbl) k G.start).map
      (probability (inst Fix.repaired G tbl) (instTags Fix.repaired tags tbl))).sum = 1 := by
  rw [C17_total_repaired_partial G tags tbl hG hT hne k]
  have h := mass_eq_one G tags hk hn k G.start hb
  unfold PS.G.mass at h
  rw [show probability G tags = fun t => PS.G.prob G tags t G.start from
    funext (fun t => by rw [C17_prob_impl, prob_eq_spec])]
  exact h

/-- **Language** of the instantiated unambiguous grammar (repaired code). -/
theorem C17_lang_u (G : U.UCFG V) (tbl : Tbl) (h : grammarWF tbl G.rules = true) (t' : Prog) :
    U.genU (instUG Fix.repaired G tbl) t' = true ↔ ∃ t, U.genU G t = true ∧ isInst tbl t t' = true :=
  genU_inst_wf rfl rfl G tbl h t'

/-- the same for the implementation's membership test -/
theorem C17_lang_u_contains (G : U.UCFG V) (tbl : Tbl) (h : grammarWF tbl G.rules = true)
    (t' : Prog) :
    U.contains (instUG Fix.repaired G tbl) t' = true ↔
      ∃ t, U.contains G t = true ∧ isInst tbl t t' = true := by
  rw [U.contains_eq_genU]
  simp only [U.contains_eq_genU]
  exact C17_lang_u G tbl h t'

/-- **each instantiation comes from exactly one template** (unambiguous grammars, repaired code) -/
theorem C17_lang_u_unique (G : U.UCFG V) (tbl : Tbl) (h : grammarWF tbl G.rules = true)
    (t1 t2 t' : Prog) (g1 : U.genU G t1 = true) (g2 : U.genU G t2 = true)
    (i1 : isInst tbl t1 t' = true) (i2 : isInst tbl t2 t' = true) : t1 = t2 :=
  lang_u_unique_wf (fx := Fix.repaired) rfl rfl G tbl h t1 t2 t' g1 g2 i1 i2

/-- **derivations correspond one to one, unambiguity is preserved** (repaired code); the symbols
    are renamed back with respect to the part of the table that matters -/
theorem C17_derivs_u (G : U.UCFG V) (tbl : Tbl) (h : grammarWF tbl G.rules = true)
    (t t' : Prog) (hg : U.genU G t = true) (hi : isInst tbl t t' = true) :
    (U.allDerivs (instUG Fix.repaired G tbl) t').map
        (fun sd => (sd.1, sd.2.map (derTempl (restrict (slotTys G.rules) tbl)))) = U.allDerivs G t ∧
    U.unambiguousOn (instUG Fix.repaired G tbl) t' = U.unambiguousOn G t :=
  derivs_u_wf rfl rfl G tbl h t t' hg hi

/-- **Mass** (specification `probU`; repaired code; C17-F1 stays). -/
theorem C17_mass_u_repaired_partial (G : U.UCFG V) (tg : U.UTags V) (tbl : Tbl)
    (hG : grammarWF tbl G.rules = true) (hT : tagsWF tbl G.rules tg.tags = true)
    (hne : slotsNonEmpty tbl G.rules = true) (t : Prog) (l : List Prog)
    (hg : U.genU G t = true) (hu : U.unambiguousOn G t = true)
    (hl : allInst Fix.repaired tbl t = some l) :
    rsum (l.map (U.probU (instUG Fix.repaired G tbl) (instUTg Fix.repaired tg tbl))) = U.probU G tg t :=
  probU_mass_wf rfl rfl G tg tbl hG hT hne t l hg hu hl

/-- **Mass, on what the code computes** (`ProbUGrammar.probability`; repaired code; C17-F1 stays). -/
theorem C17_mass_u_impl_repaired_partial (G : U.UCFG V) (tg : U.UTags V) (tbl : Tbl)
    (hG : grammarWF tbl G.rules = true) (hT : tagsWF tbl G.rules tg.tags = true)
    (hne : slotsNonEmpty tbl G.rules = true) (t : Prog) (l : List Prog)
    (hg : U.contains G t = true) (hu : U.unambiguousOn G t = true)
    (hl : allInst Fix.repaired tbl t = some l) :
    rsum (l.map (U.probabilityU (instUG Fix.repaired G tbl) (instUTg Fix.repaired tg tbl))) =
      U.probabilityU G tg t := by
  rw [U.contains_eq_genU] at hg
  exact probabilityU_mass_wf rfl rfl G tg tbl hG hT hne t l hg hu hl

/-- **No mass is lost** (unambiguous grammars; repaired code; C17-F1 stays). -/
theorem C17_total_u_repaired_partial (G : U.UCFG V) (tg : U.UTags V) (tbl : Tbl)
    (hG : grammarWF tbl G.rules = true) (hT : tagsWF tbl G.rules tg.tags = true)
    (hne : slotsNonEmpty tbl G.rules = true) (k : Nat) (nt : U.UNT V) :
    U.Mass.massU (instUG Fix.repaired G tbl) (instUTg Fix.repaired tg tbl) k nt =
      U.Mass.massU G tg k nt :=
  massU_inst_wf rfl rfl G tg tbl hG hT hne k nt

omit [DecidableEq S] in
/-- **Instantiating an instantiated grammar**: when every constant of a type of the table already
    has a value (no slot of a table type is left — the situation after a first instantiation with
    the same types) the hypothesis `grammarWF` holds whatever values the grammar and the table
    contain, provided the rows are dicts, and the repaired code returns the grammar unchanged. -/
theorem C17_idempotent (G : TT S Unit) (tbl : Tbl)
    (hd : ∀ e ∈ G.rules, (AList.keys e.2).Nodup)
    (hs : ∀ e ∈ G.rules, ∀ P ∈ AList.keys e.2, slot? Fix.repaired tbl P = none) :
    grammarWF tbl G.rules = true ∧ inst Fix.repaired G tbl = G :=
  idempotent_wf G tbl hd hs

/-! ### non-vacuity (repaired code): `S → (+ A A) | 1 | (ite B A A)`, `A → <int> | var0 | 9`,
    `B → <bool>` — the constant `9` already has a value, `bool` is not a type of the table, the
    table lists the value 5 twice and has a type (`str`) without slot -/
namespace ExR
def slotB : Sym := Sym.const bool ""
def ite : Sym := Sym.prim "ite" (.arrow bool (.arrow int (.arrow int int)))
def s2 : NT Nat Unit := (bool, (2, ()))
def G2 : TT Nat Unit :=
  ⟨s0, [(s0, [(plus, ([(int, 1), (int, 1)], ())), (one, ([], ())),
              (ite, ([(bool, 2), (int, 1), (int, 1)], ()))]),
        (s1, [(slot, ([], ())), (v0, ([], ())), (c "i:9", ([], ()))]),
        (s2, [(slotB, ([], ()))])]⟩
def tags2 : Tags Nat Unit :=
  [(s0, [(plus, 1/4), (one, 1/4), (ite, 1/2)]), (s1, [(slot, 1/2), (v0, 1/4), (c "i:9", 1/4)]),
   (s2, [(slotB, 1)])]
def tbl2 : Tbl := [(int, ["i:5", "i:6", "i:5"]), (.base "str", ["s:'9'"])]
def t2 : Prog := .node ite [leaf slotB, leaf slot, leaf (c "i:9")]
def t2a : Prog := .node ite [leaf slotB, leaf (c "i:5"), leaf (c "i:9")]
def t2b : Prog := .node ite [leaf slotB, leaf (c "i:6"), leaf (c "i:9")]
/-- an unambiguous grammar with the same features: two alternatives for `+` -/
def GU2 : U.UCFG Nat :=
  ⟨[q0], [(q0, [(plus, [[q1, q1], [q2, q1]]), (one, [[]])]),
          (q1, [(slot, [[]]), (v0, [[]]), (c "i:9", [[]])]), (q2, [(one, [[]]), (slotB, [[]])])], q0⟩
def tgU2 : U.UTags Nat :=
  ⟨[(q0, [(plus, [([q1, q1], 1/4), ([q2, q1], 1/4)]), (one, [([], 1/2)])]),
    (q1, [(slot, [([], 1/2)]), (v0, [([], 1/4)]), (c "i:9", [([], 1/4)])]),
    (q2, [(one, [([], 1/2)]), (slotB, [([], 1/2)])])], [(q0, 1)]⟩
def G3 : TT Nat Unit := inst Fix.repaired G2 tbl2
def tbl3 : Tbl := [(int, ["i:5", "i:7"])]
def tu : Prog := .node plus [leaf slot, leaf (c "i:9")]
def tua : Prog := .node plus [leaf (c "i:5"), leaf (c "i:9")]
def tub : Prog := .node plus [leaf (c "i:6"), leaf (c "i:9")]
end ExR
open ExR

/-- the hypotheses of the repaired theorems hold; those of the code as it is do not (the value 9,
    the duplicate 5) -/
example : grammarWF tbl2 G2.rules = true ∧ tagsWF tbl2 G2.rules tags2 = true ∧
    slotsNonEmpty tbl2 G2.rules = true ∧ grammarWF tbl2 tags2 = true ∧ slotsNonEmpty tbl2 tags2 = true ∧
    rulesOK Fix.asIs tbl2 G2.rules = false ∧ progOK Fix.asIs tbl2 t2 = false := by decide +kernel
example : gen G2 t2 G2.start = true ∧ isInst tbl2 t2 t2b = true ∧
    gen (inst Fix.repaired G2 tbl2) t2b G2.start = true ∧
    gen (inst Fix.repaired G2 tbl2) t2 G2.start = false := by decide +kernel
/-- program side: the valued constant and the `<bool>` slot are kept, the value 5 is used once;
    the code as it is raises `KeyError` -/
example : allInst Fix.repaired tbl2 t2 = some [t2a, t2b] ∧ allInst Fix.asIs tbl2 t2 = none := by
  decide +kernel
example : normalisedB tags2 = true ∧ normalisedB (instTags Fix.repaired tags2 tbl2) = true ∧
    normalisedB (instTags Fix.asIs tags2 tbl2) = false := by decide +kernel
example : rsum ([t2a, t2b].map
    (probability (inst Fix.repaired G2 tbl2) (instTags Fix.repaired tags2 tbl2))) =
      probability G2 tags2 t2 :=
  C17_mass_impl_repaired_partial G2 tags2 tbl2 (by decide +kernel) (by decide +kernel)
    (by decide +kernel) t2 _ (by decide +kernel) (by decide +kernel)
example : probability G2 tags2 t2 = 1/16 ∧
    probability (inst Fix.repaired G2 tbl2) (instTags Fix.repaired tags2 tbl2) t2b = 1/32 := by
  decide +kernel

theorem exR_normalised : PS.G.Normalised G2 tags2 ∧ (AList.keys G2.rules).Nodup ∧
    bounded G2 2 G2.start = true := by
  refine ⟨?_, by decide, by decide⟩
  intro e he
  simp only [G2, List.mem_cons, List.not_mem_nil, or_false] at he
  rcases he with rfl | rfl | rfl <;> exact ⟨by decide +kernel, by decide⟩

/-- the programs of the instantiated grammar have total probability 1 -/
example : ((lang (inst Fix.repaired G2 tbl2) 2 G2.start).map
    (probability (inst Fix.repaired G2 tbl2) (instTags Fix.repaired tags2 tbl2))).sum = 1 :=
  C17_total_one_repaired_partial G2 tags2 tbl2 (by decide +kernel) (by decide +kernel)
    (by decide +kernel) exR_normalised.2.1 exR_normalised.1 2 exR_normalised.2.2
example : (lang G2 2 G2.start).length = 19 ∧ (lang (inst Fix.repaired G2 tbl2) 2 G2.start).length = 33 := by
  decide +kernel

/-- **instantiating twice** (the scenario of C17-F2): after `int ↦ [5, 6]` no slot of type int is
    left; the hypothesis holds for a second table that lists 5 again, and the repaired code
    returns the grammar unchanged — while the code as it is changes its language -/
example : grammarWF tbl3 G3.rules = true ∧ inst Fix.repaired G3 tbl3 = G3 :=
  C17_idempotent G3 tbl3 (by decide +kernel) (by decide +kernel)
example : gen G3 t2b G3.start = true ∧ gen (inst Fix.asIs G3 tbl3) t2b G3.start = false ∧
    rulesOK Fix.asIs tbl3 G3.rules = false := by decide +kernel

example : grammarWF tbl2 GU2.rules = true ∧ tagsWF tbl2 GU2.rules tgU2.tags = true ∧
    slotsNonEmpty tbl2 GU2.rules = true ∧ U.contains GU2 tu = true ∧ U.genU GU2 tu = true ∧
    U.unambiguousOn GU2 tu = true ∧ rulesOK Fix.asIs tbl2 GU2.rules = false := by decide +kernel
example : U.genU (instUG Fix.repaired GU2 tbl2) tub = true ∧
    U.genU (instUG Fix.repaired GU2 tbl2) tu = false ∧
    U.unambiguousOn (instUG Fix.repaired GU2 tbl2) tub = true := by decide +kernel
example : rsum ([tua, tub].map
    (U.probabilityU (instUG Fix.repaired GU2 tbl2) (instUTg Fix.repaired tgU2 tbl2))) =
      U.probabilityU GU2 tgU2 tu :=
  C17_mass_u_impl_repaired_partial GU2 tgU2 tbl2 (by decide +kernel) (by decide +kernel)
    (by decide +kernel) tu _ (by decide +kernel) (by decide +kernel) (by decide +kernel)
example : U.Mass.massU (instUG Fix.repaired GU2 tbl2) (instUTg Fix.repaired tgU2 tbl2) 2 q0 = 1 ∧
    U.Mass.massU GU2 tgU2 2 q0 = 1 := by decide +kernel

/-! ### findings: the statements without the hypotheses are false for the code as it is
    (`Fix.asIs`); `fixed_C17_F*`: the same witnesses with the proposed repair -/

/-- **C17-F1**: an empty value list for a slot of the grammar: the slot's rule disappears and
    its weight with it — a normalised grammar is no longer normalised, and the template
    `(+ <bool>-free …)`: here `<int>` with `int ↦ []` loses all its mass. -/
theorem finding_C17_F1 :
    let tbl0 : Tbl := [(int, [])]
    rulesOK Fix.asIs tbl0 tags = true ∧ normalisedB tags = true ∧ normalisedB (instTags Fix.asIs tags tbl0) = false ∧
    rowSumsOf (instTags Fix.asIs tags tbl0) = [1, 1/4] ∧
    allInst Fix.asIs tbl0 t = some [] ∧ prob G tags t G.start = 3/32 := by
  decide +kernel

/-- **C17-F2**: constants that already carry a value are instantiated again: instantiating an
    already instantiated grammar changes its language (`(+ 5 var0)` ↦ `(+ 6 var0)`, `(+ 7 var0)`
    although `5` is not a slot) and loses mass (rows overwrite each other: total 1/4 + 3/8). -/
theorem finding_C17_F2 :
    let tbl1 : Tbl := [(int, ["i:5"])]
    let tbl2 : Tbl := [(int, ["i:6", "i:7"])]
    let tbl3 : Tbl := [(int, ["i:5", "i:7"])]
    let G1 := inst Fix.asIs G tbl1
    let t5 : Prog := .node plus [leaf (c "i:5"), leaf v0]
    rulesOK Fix.asIs tbl2 G1.rules = false ∧ gen G1 t5 G1.start = true ∧ isInst tbl2 t5 t5 = true ∧
    gen (inst Fix.asIs G1 tbl2) t5 G1.start = false ∧
    rowSumsOf (instTags Fix.asIs (instTags Fix.asIs tags tbl) tbl3) = [1, 5/8] := by
  decide +kernel

/-- with the repair of C17-F2 (alone: `⟨true, false, false⟩`) the witness of `finding_C17_F2` is
    instantiated correctly: the instantiated grammar is left unchanged by the second table (same
    language, no mass lost), and the hypothesis of the repaired theorems holds for it -/
theorem fixed_C17_F2 :
    let fx : Fix := ⟨true, false, false⟩
    let tbl1 : Tbl := [(int, ["i:5"])]
    let tbl2 : Tbl := [(int, ["i:6", "i:7"])]
    let tbl3 : Tbl := [(int, ["i:5", "i:7"])]
    let G1 := inst fx G tbl1
    let t5 : Prog := .node plus [leaf (c "i:5"), leaf v0]
    grammarWF tbl2 G1.rules = true ∧ grammarWF tbl3 (instTags fx tags tbl) = true ∧
    gen (inst fx G1 tbl2) t5 G1.start = true ∧
    allInst fx tbl2 t5 = some [t5] ∧
    rowSumsOf (instTags fx (instTags fx tags tbl) tbl3) = [1, 1] := by
  decide +kernel

/-- **C17-F3**: a value listed twice is divided by 2 but kept once. -/
theorem finding_C17_F3 :
    let tbl0 : Tbl := [(int, ["i:5", "i:5"])]
    rulesOK Fix.asIs tbl0 tags = false ∧ rowSumsOf (instTags Fix.asIs tags tbl0) = [1, 5/8] ∧
    allInst Fix.asIs tbl0 (leaf slot) = some [leaf (c "i:5"), leaf (c "i:5")] := by
  decide +kernel

/-- with the repair of C17-F3 (alone) the duplicate counts once -/
theorem fixed_C17_F3 :
    let fx : Fix := ⟨false, true, false⟩
    let tbl0 : Tbl := [(int, ["i:5", "i:5"])]
    rulesOK fx tbl0 tags = true ∧ rowSumsOf (instTags fx tags tbl0) = [1, 1] ∧
    allInst fx tbl0 (leaf slot) = some [leaf (c "i:5")] := by
  decide +kernel

/-- **C17-F4**: the program side raises `KeyError` (`none`) for a constant whose type is not in
    the table, while the grammar side keeps such a constant. -/
theorem finding_C17_F4 :
    let tbl0 : Tbl := [(bool, ["b:True"])]
    allInst Fix.asIs tbl0 t = none ∧ gen (inst Fix.asIs G tbl0) t G.start = true := by
  decide +kernel

/-- with the repair of C17-F4 (alone) the program side keeps the constant, as the grammar side -/
theorem fixed_C17_F4 :
    let fx : Fix := ⟨false, false, true⟩
    let tbl0 : Tbl := [(bool, ["b:True"])]
    allInst fx tbl0 t = some [t] ∧ gen (inst fx G tbl0) t G.start = true ∧
    progOK fx tbl0 t = true := by
  decide +kernel

end PS.IC
