/-
  C17 — Instantiating constants expands templates without moving probability mass.

  Model: PS/Model/InstConst.lean (literal transcription of the four `instantiate_constants`
  and of `all_constants_instantiation`).  Specification: `isInst` (every slot of the template
  replaced independently by a value of its type), `prob` (product of the rule weights), row sums.

  Hypotheses of the `_partial` theorems (all decidable, evaluated by the driver on every case):
    rulesOK tbl d        every row is a dict whose constants of a table type carry no value yet
                         (otherwise finding C17-F2) and whose value lists are duplicate free
                         (otherwise finding C17-F3)
    rulesNonEmpty tbl d  no slot of the grammar has an empty value list (otherwise finding C17-F1)
    progOK tbl t         every constant of the program is a slot with an entry in the table
                         (otherwise finding C17-F4 / C17-F2)
  The full statements (without hypotheses) are false for the code as it is: see the
  `finding_C17_F*` theorems at the end.
-/
import PS.Proofs.InstConst
import PS.Proofs.InstConstProg
import PS.Proofs.InstConstMass
namespace PS.IC
open PS PS.G

variable {S : Type} [DecidableEq S]

/-- **Language.** The instantiated grammar generates exactly the instantiations of the programs
    of the template grammar (from every non-terminal). -/
theorem C17_lang_partial (G : TT S Unit) (tbl : Tbl) (h : rulesOK tbl G.rules = true)
    (t' : Prog) (nt : NT S Unit) :
    gen (inst G tbl) t' nt = true ↔ ∃ t, gen G t nt = true ∧ isInst tbl t t' = true :=
  ⟨fun hg => ⟨templ tbl t', gen_inst_templ tbl G h t' nt hg⟩,
   fun ⟨t, hg, hi⟩ => gen_inst_of_isInst tbl G h t t' nt hg hi⟩

/-- the same for the implementation's membership test `program in grammar`
    (`DetGrammar.__contains__`, stack-based derivation) -/
theorem C17_lang_contains_partial (G : TT S Unit) (tbl : Tbl) (h : rulesOK tbl G.rules = true)
    (t' : Prog) :
    contains (inst G tbl) t' = true ↔ ∃ t, contains G t = true ∧ isInst tbl t t' = true := by
  rw [contains_eq_gen]
  simp only [contains_eq_gen]
  exact C17_lang_partial G tbl h t' G.start

/-- **Each instantiation comes from exactly one template**, namely `templ tbl t'`. -/
theorem C17_lang_unique_partial (G : TT S Unit) (tbl : Tbl) (h : rulesOK tbl G.rules = true)
    (t1 t2 t' : Prog) (nt : NT S Unit)
    (g1 : gen G t1 nt = true) (g2 : gen G t2 nt = true)
    (i1 : isInst tbl t1 t' = true) (i2 : isInst tbl t2 t' = true) : t1 = t2 := by
  rw [← templ_of_isInst tbl G h t1 t' nt g1 i1, ← templ_of_isInst tbl G h t2 t' nt g2 i2]

/-- the rule table itself: under the hypothesis no insertion overwrites, every row is the
    concatenation of the expansions of its entries (in dict order) -/
theorem C17_rows_partial {ν : Type} (tbl : Tbl) (f : ν → Nat → ν) (row : AList Sym ν)
    (h : rowOK tbl row = true) :
    instRow tbl f row = row.flatMap (expand tbl f) ∧ (AList.keys (instRow tbl f row)).Nodup := by
  rw [instRow_eq_flatMap h]
  exact ⟨rfl, keys_flatMap_nodup h⟩

/-- **Program side.** `all_constants_instantiation` lists the instantiations of the program,
    each exactly once. -/
theorem C17_program_side_partial (tbl : Tbl) (t : Prog) (h : progOK tbl t = true) :
    ∃ l, allInst tbl t = some l ∧ l.Nodup ∧ ∀ t', t' ∈ l ↔ isInst tbl t t' = true :=
  allInst_spec tbl t h

/-- **Mass.** The instantiations of a template carry, in total, the template's probability. -/
theorem C17_mass_partial (G : TT S Unit) (tags : Tags S Unit) (tbl : Tbl)
    (hG : rulesOK tbl G.rules = true) (hT : rulesOK tbl tags = true)
    (hne : rulesNonEmpty tbl G.rules = true)
    (t : Prog) (nt : NT S Unit) (l : List Prog) (hg : gen G t nt = true) (hl : allInst tbl t = some l) :
    rsum (l.map fun t' => prob (inst G tbl) (instTags tags tbl) t' nt) = prob G tags t nt :=
  mass tbl G tags hG hT hne t nt l hg hl

/-- **Row sums** are preserved, hence … -/
theorem C17_rowsum_partial (tags : Tags S Unit) (tbl : Tbl)
    (h : rulesOK tbl tags = true) (hne : rulesNonEmpty tbl tags = true) (nt : NT S Unit)
    (row : AList Sym Rat) (hl : AList.lookup nt tags = some row) :
    ∃ row', AList.lookup nt (instTags tags tbl) = some row' ∧
      rsum (AList.values row') = rsum (AList.values row) := by
  refine ⟨instRow tbl (fun p n => p / (n : Rat)) row, ?_, ?_⟩
  · unfold instTags; rw [lookup_instRules, hl]; rfl
  · exact rsum_instRow (rulesOK_row h hl) (rulesNonEmpty_row hne hl)

omit [DecidableEq S] in
/-- … **a normalised grammar stays normalised** (deterministic grammars). -/
theorem C17_normalised_partial (tags : Tags S Unit) (tbl : Tbl)
    (h : rulesOK tbl tags = true) (hne : rulesNonEmpty tbl tags = true)
    (hn : Normalised tags) : Normalised (instTags tags tbl) := by
  intro e he
  unfold instTags instRules at he
  obtain ⟨e0, he0, rfl⟩ := List.mem_map.mp he
  simp only
  unfold rulesOK at h
  unfold rulesNonEmpty at hne
  rw [List.all_eq_true] at h hne
  rw [rsum_instRow (h e0 he0) (hne e0 he0)]
  exact hn e0 he0

/-- the same for probabilistic unambiguous grammars (`ProbUGrammar`): the total weight of every
    non-terminal is preserved -/
theorem C17_normalised_u_partial {U : Type} (tags : UTags U) (tbl : Tbl)
    (h : rulesOK tbl tags = true) (hne : rulesNonEmpty tbl tags = true)
    (hn : NormalisedU tags) : NormalisedU (instUTags tags tbl) := by
  intro e he
  unfold instUTags instRules at he
  obtain ⟨e0, he0, rfl⟩ := List.mem_map.mp he
  simp only
  unfold rulesOK at h
  unfold rulesNonEmpty at hne
  rw [List.all_eq_true] at h hne
  rw [rsum_instURow (h e0 he0) (hne e0 he0)]
  exact hn e0 he0

/-- rules of the instantiated unambiguous grammar: the list of alternatives of an instantiated
    symbol is the list of alternatives of its template symbol, and nothing else is there -/
theorem C17_ucfg_rules_partial {U : Type} [DecidableEq U] (R : UTable U) (tbl : Tbl)
    (h : rulesOK tbl R = true) (nt : UNT U) (row : AList Sym (List (List (UNT U))))
    (hl : AList.lookup nt R = some row) (k : Sym) (alts : List (List (UNT U))) :
    (∃ row', AList.lookup nt (instU R tbl) = some row' ∧ AList.lookup k row' = some alts) ↔
      ∃ P, AList.lookup P row = some alts ∧ symInst tbl P k = true := by
  have hrow := rulesOK_row h hl
  unfold instU
  rw [lookup_instRules, hl]
  simp only [Option.map_some, Option.some.injEq, exists_eq_left']
  rw [lookup_instRow_iff hrow]
  constructor
  · rintro ⟨P, v, hP, hp, hw⟩
    have hok := (rowOK_iff.mp hrow).2 P (mem_keys_of_lookup hP)
    refine ⟨P, ?_, (produces_iff_symInst hok).mp hp⟩
    rw [hP, hw]; cases slot? tbl P <;> rfl
  · rintro ⟨P, hP, hs⟩
    have hok := (rowOK_iff.mp hrow).2 P (mem_keys_of_lookup hP)
    refine ⟨P, alts, hP, (produces_iff_symInst hok).mpr hs, ?_⟩
    cases slot? tbl P <;> rfl

/-! ### non-vacuity: a small grammar `S → (+ A A) | 1`, `A → <int> | var0` -/
namespace Ex
def int : Ty := .base "int"
def bool : Ty := .base "bool"
def plus : Sym := Sym.prim "+" (.arrow int (.arrow int int))
def one : Sym := Sym.prim "1" int
def v0 : Sym := Sym.var 0 int
def slot : Sym := Sym.const int ""
def c (v : String) : Sym := Sym.const int v
def s0 : NT Nat Unit := (int, (0, ()))
def s1 : NT Nat Unit := (int, (1, ()))
def G : TT Nat Unit := ⟨s0, [(s0, [(plus, ([(int, 1), (int, 1)], ())), (one, ([], ()))]),
                              (s1, [(slot, ([], ())), (v0, ([], ()))])]⟩
def tags : Tags Nat Unit := [(s0, [(plus, 1/2), (one, 1/2)]), (s1, [(slot, 3/4), (v0, 1/4)])]
def tbl : Tbl := [(int, ["i:5", "i:6"]), (bool, [])]
def leaf (s : Sym) : Prog := .node s []
def t : Prog := .node plus [leaf slot, leaf v0]
def t' : Prog := .node plus [leaf (c "i:6"), leaf v0]
end Ex
open Ex

example : rulesOK tbl G.rules = true ∧ rulesOK tbl tags = true ∧ rulesNonEmpty tbl G.rules = true ∧
    rulesNonEmpty tbl tags = true ∧ progOK tbl t = true := by decide +kernel
example : gen G t G.start = true ∧ isInst tbl t t' = true ∧ gen (inst G tbl) t' G.start = true ∧
    gen (inst G tbl) t G.start = false ∧ templ tbl t' = t := by decide +kernel
example : allInst tbl t = some [.node plus [leaf (c "i:5"), leaf v0], t'] := by decide +kernel
example : prob G tags t G.start = 3/32 ∧ prob (inst G tbl) (instTags tags tbl) t' G.start = 3/64 := by
  decide +kernel
example : normalisedB tags = true ∧ normalisedB (instTags tags tbl) = true := by decide +kernel

/-! ### findings: the statements without the hypotheses are false for the code as it is -/

/-- **C17-F1**: an empty value list for a slot of the grammar: the slot's rule disappears and
    its weight with it — a normalised grammar is no longer normalised, and the template
    `(+ <bool>-free …)`: here `<int>` with `int ↦ []` loses all its mass. -/
theorem finding_C17_F1 :
    let tbl0 : Tbl := [(int, [])]
    rulesOK tbl0 tags = true ∧ normalisedB tags = true ∧ normalisedB (instTags tags tbl0) = false ∧
    rowSumsOf (instTags tags tbl0) = [1, 1/4] ∧
    allInst tbl0 t = some [] ∧ prob G tags t G.start = 3/32 := by
  decide +kernel

/-- **C17-F2**: constants that already carry a value are instantiated again: instantiating an
    already instantiated grammar changes its language (`(+ 5 var0)` ↦ `(+ 6 var0)`, `(+ 7 var0)`
    although `5` is not a slot) and loses mass (rows overwrite each other: total 1/4 + 3/8). -/
theorem finding_C17_F2 :
    let tbl1 : Tbl := [(int, ["i:5"])]
    let tbl2 : Tbl := [(int, ["i:6", "i:7"])]
    let tbl3 : Tbl := [(int, ["i:5", "i:7"])]
    let G1 := inst G tbl1
    let t5 : Prog := .node plus [leaf (c "i:5"), leaf v0]
    rulesOK tbl2 G1.rules = false ∧ gen G1 t5 G1.start = true ∧ isInst tbl2 t5 t5 = true ∧
    gen (inst G1 tbl2) t5 G1.start = false ∧
    rowSumsOf (instTags (instTags tags tbl) tbl3) = [1, 5/8] := by
  decide +kernel

/-- **C17-F3**: a value listed twice is divided by 2 but kept once. -/
theorem finding_C17_F3 :
    let tbl0 : Tbl := [(int, ["i:5", "i:5"])]
    rulesOK tbl0 tags = false ∧ rowSumsOf (instTags tags tbl0) = [1, 5/8] ∧
    allInst tbl0 (leaf slot) = some [leaf (c "i:5"), leaf (c "i:5")] := by
  decide +kernel

/-- **C17-F4**: the program side raises `KeyError` (`none`) for a constant whose type is not in
    the table, while the grammar side keeps such a constant. -/
theorem finding_C17_F4 :
    let tbl0 : Tbl := [(bool, ["b:True"])]
    allInst tbl0 t = none ∧ gen (inst G tbl0) t G.start = true := by
  decide +kernel

end PS.IC
