/-
  C02, part beap — beap search (beap_search.py) yields every program of a finite grammar exactly
  once, nothing outside the grammar, and stops.

  FULL STATEMENT (not proved as a whole):
    Acyclic G → costs defined → ∃ k, after k calls of `next` the generator has stopped and its output
    is a permutation of the language of G.
  Proved: NOTHING OUTSIDE (C02_Beap_sound, every history), EACH PROGRAM AT MOST ONCE (C02_Beap_nodup, every
  prefix of every run from the fresh generator, positive rule costs), EVERY PROGRAM (C02_Beap_complete: when the
  generator has stopped every priced derivation of the start symbol all of whose sub-programs the filter accepts
  has been yielded; C02_Beap_full: without a filter the output of a stopped generator is a permutation of the
  language), and TERMINATION in the partial form C02_Beap_terminates_partial (|language| + 1 calls of `next`
  reach the end whenever the model run returns: explicit decidable hypothesis), C02_Beap_fuel_mono (a run that
  returns with some fuel returns the same result with every larger fuel) and their sum C02_Beap_total_partial.
  Not proved: that a sufficient fuel exists (termination of one `next` call; no exception).

  Proved here, for every grammar with distinct dict keys (`RowsNodup`), every cost table, every
  filter, every fuel and every HISTORY of `next` / `merge_program` calls (`Reach`):
    * C02_Beap_inv            — the state invariant `GInv`: every element of a queue `_queues[S]` is a
                                rule of `S` with a combination of the rule's arity, every program of a
                                bank `_bank[S][i]` is derivable from `S` (spec `G.gen`), every tuple the
                                suspended `query(start, n)` still has to turn into a program builds a
                                program derivable from the start symbol;
    * C02_Beap_sound          — NOTHING OUTSIDE: whatever `next` yields is derivable from the start symbol;
    * C02_Beap_bank_sound, C02_Beap_queue_sound — the two table halves of the invariant;
    * C02_Beap_take_sound     — every program of the sequence produced by `take k` from the fresh generator
                                is a member;
    * C02_Beap_query_sound    — `_query_list_` / `query` keep the invariant and return derivable programs
                                (any non-terminal, any cost index, any fuel);
    * C02_Beap_heapify_perm, C02_Beap_heappush_mem, C02_Beap_heappop_mem — the heapq port keeps the multiset.
  NO DUPLICATES: C02_Beap_nodup — the sequence produced by `take k` from the fresh generator has no repetition, for
  every fuel, k, filter (hypotheses: distinct dict keys; `StableAfter`, proved for grammars flagged recursive and
  for acyclic grammars; every non-terminal derives a program; positive rule costs).  It rests on the frontier rule of the successor loop ("increment position i until the
  first position whose new index is > 1"), proved here as pure combinatorics and linked to the model:
    * C02_Beap_frontier_iff, C02_Beap_frontier_unique_producer, C02_Beap_frontier_producer_exists,
      C02_Beap_frontier_nodup — the combinations pushed from `c` are exactly the `t = c + e_i` with `i` the first
      non-zero coordinate of `t`: every combination has exactly one producer (the bijection lemma) and every
      non-zero combination of the box is produced from a combination of smaller weight;
    * C02_Beap_frontier_model — the model's successor loop pushes exactly these combinations.
  COST SOUNDNESS ("stored under its true cost index") is in the C03 part file (C03_Beap_bank_cost).
  COMPLETENESS (round 2; proofs in PS/Proofs/Enum/BeapCompl*.lean, see the end of this file): invariants CR (every
  clean program cheaper than the last cost of S is in the bank entry of its cost), FR (every other clean program
  is in the last bank entry or has an element of its rule on its producer chain in `_queues[S]`), FrK (the same
  for a running query, with its pending product); the early-stop branch of `generator()` is dead without merges.
  Termination of one `next` call: compared on every generated case (exact correspondence of yielded sequence
  and tables, independent language oracle), not proved.
-/
import PS.Proofs.Enum.BeapSoundRun
import PS.Proofs.Enum.BeapFrontier
import PS.Proofs.Enum.BeapNodupFinal
import PS.Proofs.Enum.BeapComplFinal
import PS.Proofs.Enum.BeapFuel
namespace PS.C02Beap
open PS PS.G PS.Beap

section
variable {S : Type} [DecidableEq S]

/-- the generator objects reachable from the fresh one by any history of `next(generator)` and
    `merge_program(representative, other)` calls -/
inductive Reach (E : Env S) (fuel : Nat) : Gen S → Prop
  | new : Reach E fuel (Gen.new E.G)
  | next {g : Gen S} {r : Gen S × Option Prog} : Reach E fuel g → Beap.next E fuel g = some r → Reach E fuel r.1
  | merge {g : Gen S} (other : Prog) (ok : NT S Unit → Bool) : Reach E fuel g → Reach E fuel (Beap.merge g other ok)

/-- SOUNDNESS as a state invariant, for every history -/
theorem C02_Beap_inv (E : Env S) (hnd : RowsNodup E.G) (fuel : Nat) (g : Gen S) (h : Reach E fuel g) : GInv E g := by
  induction h with
  | new => exact ginv_new E
  | next _ hn ih => exact (next_sound E hnd fuel _ _ ih hn).1
  | merge other ok _ ih => exact merge_sound E _ other ok ih

/-- NOTHING OUTSIDE THE LANGUAGE: whatever `next` yields, after any history, is derivable from the start symbol -/
theorem C02_Beap_sound (E : Env S) (hnd : RowsNodup E.G) (fuel : Nat) (g g' : Gen S) (p : Prog)
    (hr : Reach E fuel g) (h : Beap.next E fuel g = some (g', some p)) : gen E.G p E.G.start = true :=
  ((next_sound E hnd fuel g _ (C02_Beap_inv E hnd fuel g hr) h).2 p rfl).1

/-- every program stored in `_bank[S][i]` is derivable from `S` -/
theorem C02_Beap_bank_sound (E : Env S) (hnd : RowsNodup E.G) (fuel : Nat) (g : Gen S) (hr : Reach E fuel g)
    (nt : NT S Unit) (ci : Nat) (p : Prog) (hp : p ∈ g.st.bankAt nt ci) : gen E.G p nt = true :=
  (C02_Beap_inv E hnd fuel g hr).1.bank nt ci p hp

/-- every element of `_queues[S]` is a rule of `S` together with one cost index per argument -/
theorem C02_Beap_queue_sound (E : Env S) (hnd : RowsNodup E.G) (fuel : Nat) (g : Gen S) (hr : Reach E fuel g)
    (nt : NT S Unit) (el : HeapEl) (he : el ∈ g.st.queueOf nt) :
    ∃ rl, E.G.rule? nt el.P = some rl ∧ el.comb.length = rl.1.length :=
  (C02_Beap_inv E hnd fuel g hr).1.queue nt el he

theorem take_sound (E : Env S) (hnd : RowsNodup E.G) (fuel : Nat) : ∀ (k : Nat) (g : Gen S) (acc : List Prog)
    (r : Gen S × List Prog × Bool), GInv E g → (∀ p ∈ acc, gen E.G p E.G.start = true ∧ E.filter p = true) →
    take E fuel k g acc = some r → GInv E r.1 ∧ ∀ p ∈ r.2.1, gen E.G p E.G.start = true ∧ E.filter p = true := by
  intro k
  induction k with
  | zero => intro g acc r hg ha h; simp only [take] at h; cases h; exact ⟨hg, ha⟩
  | succ k ih =>
    intro g acc r hg ha h
    simp only [take] at h
    split at h
    · cases h
    · next g' hn => cases h; exact ⟨(next_sound E hnd fuel g _ hg hn).1, ha⟩
    · next g' p hn =>
      obtain ⟨h1, h2⟩ := next_sound E hnd fuel g _ hg hn
      refine ih _ _ _ h1 (fun q hq => ?_) h
      rcases List.mem_append.mp hq with hq | hq
      · exact ha q hq
      · simp only [List.mem_singleton] at hq; subst hq; exact h2 _ rfl

/-- the sequence produced by `k` calls of `next` on the fresh generator consists of members -/
theorem C02_Beap_take_sound (E : Env S) (hnd : RowsNodup E.G) (fuel k : Nat) (g : Gen S) (ys : List Prog) (fin : Bool)
    (h : take E fuel k (Gen.new E.G) [] = some (g, ys, fin)) : ∀ p ∈ ys, gen E.G p E.G.start = true :=
  fun p hp => ((take_sound E hnd fuel k _ _ _ (ginv_new E) (fun _ h => by cases h) h).2 p hp).1

/-- `_query_list_(S, i)` keeps the invariant and returns programs derivable from `S` -/
theorem C02_Beap_query_sound (E : Env S) (fuel : Nat) (s s' : St S) (nt : NT S Unit) (ci : Nat) (empty : Bool)
    (ps : List Prog) (hs : SInv E s) (h : queryList E fuel s nt ci = some (s', empty, ps)) :
    SInv E s' ∧ ∀ p ∈ ps, gen E.G p nt = true :=
  (sound_all E fuel).1 s nt ci _ hs h

/-- the heapq port keeps the multiset of the array -/
theorem C02_Beap_heapify_perm {α : Type} (lt : α → α → Bool) (h : List α) : (heapify lt h).Perm h := heapify_perm lt h
theorem C02_Beap_heappush_mem {α : Type} (lt : α → α → Bool) (h : List α) (x y : α) :
    y ∈ Heapq.push lt h x ↔ y = x ∨ y ∈ h := mem_push lt h x y
theorem C02_Beap_heappop_mem {α : Type} (lt : α → α → Bool) (h h' : List α) (x y : α)
    (hp : Heapq.pop lt h = some (x, h')) : y ∈ h ↔ y = x ∨ y ∈ h' := mem_of_pop lt h x h' hp y
end

/-! ### the frontier rule (no duplicates): every combination has exactly one producer -/

/-- **frontier rule**: `t` is pushed from the combination `c` (cost lists of lengths `lens`) iff `t = c + e_i`
    for a position `i` all of whose predecessors are 0 in `c` — i.e. `i` is the first non-zero coordinate
    of `t` — and the new index `t[i]` is inside the cost list of argument `i` -/
theorem C02_Beap_frontier_iff (c t lens : List Nat) :
    t ∈ succCombs c 0 lens ↔
      ∃ i, i < lens.length ∧ (∀ j, j < i → c.getD j 0 = 0) ∧ t = c.set i (c.getD i 0 + 1) ∧ c.getD i 0 + 1 < lens.getD i 0 := by
  rw [mem_succCombs]
  constructor
  · rintro ⟨i, _, h2, h3, h4, h5⟩
    exact ⟨i, by omega, fun j hj => h3 j (Nat.zero_le _) hj, h4, by simpa using h5⟩
  · rintro ⟨i, h2, h3, h4, h5⟩
    exact ⟨i, Nat.zero_le _, by omega, fun j _ hj => h3 j hj, h4, by simpa using h5⟩

/-- **a combination is pushed from at most one combination** (the bijection lemma: the producer of `t` is
    `t` with its first non-zero coordinate decremented) -/
theorem C02_Beap_frontier_unique_producer (c c' t lens : List Nat) (hc : c.length = lens.length) (hc' : c'.length = lens.length)
    (h : t ∈ succCombs c 0 lens) (h' : t ∈ succCombs c' 0 lens) : c = c' :=
  succCombs_producer_unique c c' t lens hc hc' h h'

/-- **every non-zero combination inside the box of the cost lists is pushed** from a combination inside the
    box whose coordinate sum is smaller by one (so, by induction on the sum, from `0ᵏ` every combination of
    the box is reached) -/
theorem C02_Beap_frontier_producer_exists (t lens : List Nat) (ht : t.length = lens.length)
    (hbox : ∀ j, j < t.length → t.getD j 0 < lens.getD j 0) (i : Nat) (hi : i < t.length)
    (hfirst : ∀ j, j < i → t.getD j 0 = 0) (hnz : 0 < t.getD i 0) :
    t ∈ succCombs (t.set i (t.getD i 0 - 1)) 0 lens ∧
      (∀ j, j < t.length → (t.set i (t.getD i 0 - 1)).getD j 0 < lens.getD j 0) ∧
      (t.set i (t.getD i 0 - 1)).getD i 0 + 1 = t.getD i 0 :=
  succCombs_producer_exists t lens ht hbox i hi hfirst hnz

/-- the combinations pushed from one combination are pairwise distinct -/
theorem C02_Beap_frontier_nodup (c lens : List Nat) (h : lens.length ≤ c.length) : (succCombs c 0 lens).Nodup :=
  succCombs_nodup c lens 0 (by omega)

/-- **the model's successor loop is the frontier rule**: after "Generate next combinations"
    (beap_search.py:177-193) the queue of `S` is, as a multiset, the queue before plus one element of rule `P`
    for each combination of `succCombs`, and no other queue changes -/
theorem C02_Beap_frontier_model {S : Type} [DecidableEq S] (nt : NT S Unit) (cost : Cost) (P : Sym) (comb : List Nat)
    (sargs : List (NT S Unit)) (s : St S) :
    ∃ pushed : List HeapEl,
      ((succLoop nt cost P comb s 0 sargs).queueOf nt).Perm (pushed ++ s.queueOf nt) ∧
      pushed.map (·.comb) = succCombs comb 0 (sargs.map fun a => (s.clOf a).length) ∧
      (∀ el ∈ pushed, el.P = P) ∧
      ∀ nt', nt' ≠ nt → (succLoop nt cost P comb s 0 sargs).queueOf nt' = s.queueOf nt' :=
  ⟨succEls cost P comb s 0 sargs, (succLoop_perm nt cost P comb sargs s 0).1, succEls_comb cost P comb s sargs 0,
    succEls_P cost P comb s sargs 0, (succLoop_perm nt cost P comb sargs s 0).2⟩

/-- non-vacuity: from `[0, 1, 0]` with cost lists of lengths 3, 3, 3 the loop pushes `[1,1,0]` and `[0,2,0]`
    (and stops: position 1 now has index 2 > 1); `[0,2,0]` is also what `[0,2,0]`'s unique producer rule says -/
example : succCombs [0, 1, 0] 0 [3, 3, 3] = [[1, 1, 0], [0, 2, 0]] := by decide
example : succCombs [0, 0, 0] 0 [3, 1, 3] = [[1, 0, 0], [0, 0, 1]] := by decide

/-! ### non-vacuity: the grammar of seeded/C03-2/demo.py
    `X -> p(Y) | m(X, Z) | a`, `Y -> q(Z) | b`, `Z -> r(X) | c`; the cheapest programs of `Y` and `Z`
    go through the recursive rules -/
def sy (k : Nat) : Sym := Sym.prim (toString k) Ty.unknown
def ntX : NT Nat Unit := (Ty.base "int", (0, ()))
def ntY : NT Nat Unit := (Ty.base "int", (1, ()))
def ntZ : NT Nat Unit := (Ty.base "int", (2, ()))
/-- symbols: p=0 m=1 a=2 q=3 b=4 r=5 c=6 -/
def demoG : TT Nat Unit :=
  { start := ntX,
    rules := [
      (ntX, [(sy 0, ([(Ty.base "int", 1)], ())), (sy 1, ([(Ty.base "int", 0), (Ty.base "int", 2)], ())), (sy 2, ([], ()))]),
      (ntY, [(sy 3, ([(Ty.base "int", 2)], ())), (sy 4, ([], ()))]),
      (ntZ, [(sy 5, ([(Ty.base "int", 0)], ())), (sy 6, ([], ()))])] }
def demoW : AList (NT Nat Unit) (AList Sym Rat) := [
      (ntX, [(sy 0, 2), (sy 1, 5), (sy 2, 1)]),
      (ntY, [(sy 3, 1), (sy 4, 6)]),
      (ntZ, [(sy 5, 1), (sy 6, 4)])]
def demoE : Env Nat := { G := demoG, W := demoW, filter := fun _ => true, recursive := true }

theorem demo_rowsNodup : RowsNodup demoG := by
  intro nt rs h
  simp only [demoG, AList.lookup] at h
  repeat (first | (split at h; (cases h; decide)) | (simp at h))

/-- the first three programs: `a` (cost 1), `p(q(r(a)))` (cost 5), `p(q(c))` (cost 7) — evaluated by the kernel -/
example : (take demoE 100 3 (Gen.new demoG) []).map (fun r => r.2.1) =
    some [.node (sy 2) [], .node (sy 0) [.node (sy 3) [.node (sy 5) [.node (sy 2) []]]],
          .node (sy 0) [.node (sy 3) [.node (sy 6) []]]] := by decide +kernel

/-- non-vacuity of C02_Beap_sound: a reachable generator and a yielded program -/
example : ∃ g p, Reach demoE 100 g ∧ ∃ g', Beap.next demoE 100 g = some (g', some p) :=
  ⟨Gen.new demoG, .node (sy 2) [], Reach.new, by
    have : (Beap.next demoE 100 (Gen.new demoG)).map (fun r => r.2) = some (some (.node (sy 2) [])) := by decide +kernel
    cases h : Beap.next demoE 100 (Gen.new demoG) with
    | none => simp [h] at this
    | some r =>
      obtain ⟨g', q⟩ := r
      simp only [h, Option.map_some, Option.some.injEq] at this
      exact ⟨g', by rw [this]⟩⟩

/-- every non-terminal of the demo grammar derives a program (`a`, `b`, `c`) -/
theorem demo_productive : Productive demoE := by
  intro nt _
  by_cases h1 : nt = ntX
  · subst h1; exact ⟨.node (sy 2) [], 1, by decide +kernel⟩
  · by_cases h2 : nt = ntY
    · subst h2; exact ⟨.node (sy 4) [], 6, by decide +kernel⟩
    · by_cases h3 : nt = ntZ
      · subst h3; exact ⟨.node (sy 6) [], 4, by decide +kernel⟩
      · rename_i h
        simp [demoE, demoG, AList.lookup, Ne.symm h1, Ne.symm h2, Ne.symm h3] at h


/-- `PosW` from a Boolean check of the cost table -/
theorem posW_of_check {S : Type} [DecidableEq S] (E : Env S)
    (h : E.W.all (fun r => r.2.all (fun e => decide (0 < e.2))) = true) : PosW E := by
  intro nt P w hw
  unfold ruleW at hw
  split at hw
  · cases hw
  · next ws hws =>
    have h1 := AList.lookup_some_mem hws
    have h2 := AList.lookup_some_mem hw
    rw [List.all_eq_true] at h
    have h3 := h _ h1
    rw [List.all_eq_true] at h3
    simpa using h3 _ h2

/-- every rule cost of the demo grammar is positive -/
theorem demo_posW : PosW demoE := posW_of_check demoE (by decide +kernel)


/-! ### NO DUPLICATES -/

/-- **NO DUPLICATES**: the sequence of programs produced by `take k` from the fresh generator has no repetition —
    for every fuel and every k (every prefix of the run, finite or recursive grammar), every filter.
    Hypotheses: distinct dict keys, `StableAfter` (proved for grammars flagged recursive and for acyclic grammars,
    C03_Beap_stable_of_recursive / C03_Beap_stable_of_acyclic), every non-terminal derives a program, every rule cost
    is positive.  Proof: a ghost table of the popped (rule, combination) pairs; the pairs in a queue and the popped
    ones are pairwise distinct (frontier rule: unique `Succ`-predecessor), every bank entry is duplicate-free
    (programs of different pairs differ by their head or by the cost of an argument), and programs yielded at
    different cost indices have different costs -/
theorem C02_Beap_nodup {S : Type} [DecidableEq S] (E : Env S) (hnd : RowsNodup E.G) (hst : StableAfter E) (hprod : Productive E)
    (hpos : PosW E) (fuel k : Nat) (g : Gen S) (ys : List Prog) (fin : Bool)
    (h : take E fuel k (Gen.new E.G) [] = some (g, ys, fin)) : ys.Nodup :=
  take_nodup E hnd hst hprod hpos fuel k (Gen.new E.G) [] [] _ (by
      refine ⟨⟨fun nt c hc => ?_, fun nt el he => ?_, fun nt ci p hp => ?_⟩, fun fr he => by cases he⟩
      · have : (St.empty E.G).clOf nt = [] := lookup_map_nil E.G.rules nt
        rw [show (Gen.new E.G).st = St.empty E.G from rfl, this] at hc; cases hc
      · have : (St.empty E.G).queueOf nt = [] := lookup_map_nil E.G.rules nt
        rw [show (Gen.new E.G).st = St.empty E.G from rfl, this] at he; cases he
      · have : (St.empty E.G).bankOf nt = [] := lookup_map_nil E.G.rules nt
        simp [show (Gen.new E.G).st = St.empty E.G from rfl, St.bankAt, this] at hp)
    (go_new E) (gn_new E) (fun _ => ⟨rfl, rfl, rfl⟩) All2.nil List.nodup_nil h

/-- non-vacuity of C02_Beap_nodup: all its hypotheses hold on the (recursive) demo grammar -/
theorem C02_Beap_nodup_demo (fuel k : Nat) (g : Gen Nat) (ys : List Prog) (fin : Bool)
    (h : take demoE fuel k (Gen.new demoG) [] = some (g, ys, fin)) : ys.Nodup :=
  C02_Beap_nodup demoE demo_rowsNodup (stableAfter_of_rec demoE rfl) demo_productive demo_posW fuel k g ys fin h

/-! ### COMPLETENESS, and the generator as a whole on finite grammars (round 2) -/

/-- **COMPLETENESS at the end (positive rule costs)**: when the generator has stopped (`next` raised StopIteration:
    `take` returns the flag `true`), EVERY program of the start symbol all of whose sub-programs are accepted by
    the filter (`clean`; every priced derivation when no filter is installed) has been yielded.  The early-stop
    branch of `generator()` (`failed and not _failed_by_empties`, beap_search.py:130-131) is never taken on a
    generator on which no program was merged: the generator only stops when `_cost_lists[start]` is exhausted
    and `_queues[start]` is empty. -/
theorem C02_Beap_complete {S : Type} [DecidableEq S] (E : Env S) (hnd : RowsNodup E.G) (hst : StableAfter E) (hprod : Productive E)
    (hpos : PosW E) (fuel k : Nat) (g : Gen S) (ys : List Prog)
    (h : take E fuel k (Gen.new E.G) [] = some (g, ys, true))
    (q : Prog) (x : Rat) (hcl : clean E.filter q = true) (hx : costOf E q E.G.start = some x) : q ∈ ys :=
  complete_at_stop E hnd hst hprod hpos fuel k (g, ys, true) h rfl q x hcl hx

/-- **the output of a generator that has stopped is a permutation of the language** (no filter): no duplicates
    (C02_Beap_nodup), only priced derivations of the start symbol, all of them (C02_Beap_complete) -/
theorem C02_Beap_full {S : Type} [DecidableEq S] (E : Env S) (hf : ∀ t, E.filter t = true) (hnd : RowsNodup E.G) (hst : StableAfter E)
    (hprod : Productive E) (hpos : PosW E) (fuel k : Nat) (g : Gen S) (ys : List Prog)
    (h : take E fuel k (Gen.new E.G) [] = some (g, ys, true))
    (lang : List Prog) (hl : lang.Nodup) (hmem : ∀ q, q ∈ lang ↔ ∃ x, costOf E q E.G.start = some x) : ys.Perm lang := by
  refine (List.perm_ext_iff_of_nodup (C02_Beap_nodup E hnd hst hprod hpos fuel k g ys true h) hl).mpr (fun q => ⟨fun hq => ?_, fun hq => ?_⟩)
  · exact (hmem q).mpr (yields_priced E hnd hst hprod hpos fuel k _ h q hq)
  · obtain ⟨x, hx⟩ := (hmem q).mp hq
    exact C02_Beap_complete E hnd hst hprod hpos fuel k g ys h q x (clean_accept_all E.filter hf q) hx

/-- **TERMINATION on a finite language, partial form**: if the priced derivations of the start symbol all lie in a
    list `lang`, then `|lang| + 1` calls of `next` reach the end of the generator — whenever the model run returns
    at all.  Explicit hypothesis (decidable per case, checked by the harness on every generated case: the driver
    run returns and reports `finished`): `take E fuel (|lang|+1) … = some …`, i.e. the fuel suffices and no
    statement of beap_search.py raises.  NOT proved: that such a fuel exists (no unbounded sequence of empty cost
    levels inside one `next`). -/
theorem C02_Beap_terminates_partial {S : Type} [DecidableEq S] (E : Env S) (hnd : RowsNodup E.G) (hst : StableAfter E)
    (hprod : Productive E) (hpos : PosW E) (lang : List Prog)
    (hmem : ∀ q x, costOf E q E.G.start = some x → q ∈ lang)
    (fuel : Nat) (g : Gen S) (ys : List Prog) (fin : Bool)
    (h : take E fuel (lang.length + 1) (Gen.new E.G) [] = some (g, ys, fin)) : fin = true := by
  cases fin with
  | true => rfl
  | false =>
    exfalso
    have hlen := take_length E fuel _ _ _ _ h rfl
    have hnd' := C02_Beap_nodup E hnd hst hprod hpos fuel _ g ys false h
    have hsub : ys ⊆ lang := fun q hq => by
      obtain ⟨x, hx⟩ := yields_priced E hnd hst hprod hpos fuel _ _ h q hq
      exact hmem q x hx
    have := hnd'.length_le_of_subset hsub
    simp only [List.length_nil, Nat.zero_add] at hlen
    have hlen : ys.length = lang.length + 1 := hlen
    omega

/-! non-vacuity on a finite grammar (`is_recursive()` false, no re-evaluation): `X -> m(Y,Y) | a`, `Y -> a | b` -/
def tX : NT Nat Unit := (Ty.base "int", (0, ()))
def tY : NT Nat Unit := (Ty.base "int", (1, ()))
def tinyG : TT Nat Unit :=
  { start := tX,
    rules := [ (tX, [(sy 0, ([], ())), (sy 1, ([(Ty.base "int", 1), (Ty.base "int", 1)], ()))]),
               (tY, [(sy 0, ([], ())), (sy 2, ([], ()))]) ] }
def tinyE : Env Nat :=
  { G := tinyG, W := [ (tX, [(sy 0, 1), (sy 1, 1)]), (tY, [(sy 0, 1), (sy 2, 2)]) ],
    filter := fun _ => true, recursive := false }
def tinyRank (nt : NT Nat Unit) : Nat := if nt = tX then 1 else 0

theorem tiny_rowsNodup : RowsNodup tinyG := by
  intro nt rs h
  simp only [tinyG, AList.lookup] at h
  repeat (first | (split at h; (cases h; decide)) | (simp at h))

theorem tiny_ranked : Ranked tinyE tinyRank := by
  intro nt P rl hr a ha
  unfold TT.rule? at hr
  split at hr
  · cases hr
  · next rs hrs =>
    have h1 := AList.lookup_some_mem hrs
    have h2 := AList.lookup_some_mem hr
    have h : tinyE.G.rules.all (fun r => r.2.all (fun rule => rule.2.1.all (fun a => decide (tinyRank (ntOf a) < tinyRank r.1)))) = true := by
      decide
    rw [List.all_eq_true] at h
    have h3 := h _ h1
    rw [List.all_eq_true] at h3
    have h4 := h3 _ h2
    rw [List.all_eq_true] at h4
    simpa using h4 a ha

theorem tiny_productive : Productive tinyE := by
  intro nt h
  by_cases h1 : nt = tX
  · subst h1; exact ⟨.node (sy 0) [], 1, by decide +kernel⟩
  · by_cases h2 : nt = tY
    · subst h2; exact ⟨.node (sy 0) [], 1, by decide +kernel⟩
    · simp [tinyE, tinyG, AList.lookup, Ne.symm h1, Ne.symm h2] at h

theorem tiny_posW : PosW tinyE := posW_of_check tinyE (by decide +kernel)
theorem tiny_stable : StableAfter tinyE := stableAfter_of_ranked tinyRank tinyE tiny_rowsNodup tiny_ranked

/-- the run on the finite grammar: five programs (costs 1, 3, 4, 4, 5), then the generator stops -/
theorem tiny_run : (take tinyE 100 10 (Gen.new tinyG) []).map (fun r => (r.2.1, r.2.2)) =
    some ([.node (sy 0) [], .node (sy 1) [.node (sy 0) [], .node (sy 0) []], .node (sy 1) [.node (sy 0) [], .node (sy 2) []],
           .node (sy 1) [.node (sy 2) [], .node (sy 0) []], .node (sy 1) [.node (sy 2) [], .node (sy 2) []]], true) := by
  decide +kernel

/-- non-vacuity of C02_Beap_complete / C02_Beap_full: the hypotheses hold on the finite grammar, the generator does
    stop (tiny_run), and e.g. `m(b, b)` (cost 5) is a priced derivation — so it is in the output -/
example : ∃ g ys, take tinyE 100 10 (Gen.new tinyG) [] = some (g, ys, true) ∧
    Tree.node (sy 1) [.node (sy 2) [], .node (sy 2) []] ∈ ys := by
  have hrun := tiny_run
  cases hp : take tinyE 100 10 (Gen.new tinyG) [] with
  | none => simp [hp] at hrun
  | some r =>
    obtain ⟨g, ys, fin⟩ := r
    simp only [hp, Option.map_some, Option.some.injEq, Prod.mk.injEq] at hrun
    obtain ⟨_, hfin⟩ := hrun
    subst hfin
    exact ⟨g, ys, rfl, C02_Beap_complete tinyE tiny_rowsNodup tiny_stable tiny_productive tiny_posW 100 10 g ys hp _ 5
      (clean_accept_all _ (fun _ => rfl) _) (by decide +kernel)⟩

/-- non-vacuity of C02_Beap_full: on the finite grammar the generator stops and its output is a permutation of any
    duplicate-free enumeration of the priced derivations of the start symbol -/
example (lang : List Prog) (hl : lang.Nodup) (hmem : ∀ q, q ∈ lang ↔ ∃ x, costOf tinyE q tinyG.start = some x) :
    ∃ g ys, take tinyE 100 10 (Gen.new tinyG) [] = some (g, ys, true) ∧ ys.Perm lang := by
  have hrun := tiny_run
  cases hp : take tinyE 100 10 (Gen.new tinyG) [] with
  | none => simp [hp] at hrun
  | some r =>
    obtain ⟨g, ys, fin⟩ := r
    simp only [hp, Option.map_some, Option.some.injEq, Prod.mk.injEq] at hrun
    obtain ⟨_, hfin⟩ := hrun
    subst hfin
    exact ⟨g, ys, rfl, C02_Beap_full tinyE (fun _ => rfl) tiny_rowsNodup tiny_stable tiny_productive tiny_posW 100 10 g ys hp lang hl hmem⟩

/-- C02_Beap_terminates_partial on the finite grammar, for every fuel for which the run returns -/
example (lang : List Prog) (hmem : ∀ q x, costOf tinyE q tinyG.start = some x → q ∈ lang) (fuel : Nat) (g : Gen Nat) (ys : List Prog)
    (fin : Bool) (h : take tinyE fuel (lang.length + 1) (Gen.new tinyG) [] = some (g, ys, fin)) : fin = true :=
  C02_Beap_terminates_partial tinyE tiny_rowsNodup tiny_stable tiny_productive tiny_posW lang hmem fuel g ys fin h

/-- non-vacuity of C02_Beap_terminates_partial: with the five-element language list, six calls of `next` reach
    the end (and the hypothesis "the run returns" holds for fuel 100) -/
example : (take tinyE 100 6 (Gen.new tinyG) []).map (fun r => r.2.2) = some true := by decide +kernel

/-! ### the fuel is a proof artifact -/

/-- **the result of a run does not depend on the fuel**: when `take k` returns with fuel `fuel` it returns the same
    generator, the same programs and the same flag with every larger fuel (every grammar, cost table, filter, every
    generator state — also after merges) -/
theorem C02_Beap_fuel_mono {S : Type} [DecidableEq S] (E : Env S) (k : Nat) (g : Gen S) (acc : List Prog) (r : Gen S × List Prog × Bool)
    (fuel fuel' : Nat) (hle : fuel ≤ fuel') (h : take E fuel k g acc = some r) : take E fuel' k g acc = some r :=
  take_fuel_mono E k g acc r fuel fuel' hle h

/-- **the whole statement of C02 for beap search, relative to "the run returns for some fuel"** (no filter): if the
    priced derivations of the start symbol are exactly the members of the duplicate-free list `lang` and the model run
    of `|lang| + 1` calls of `next` returns for SOME fuel, then for EVERY larger fuel it returns the same result: the
    generator has stopped and its output is a permutation of `lang` -/
theorem C02_Beap_total_partial {S : Type} [DecidableEq S] (E : Env S) (hf : ∀ t, E.filter t = true) (hnd : RowsNodup E.G)
    (hst : StableAfter E) (hprod : Productive E) (hpos : PosW E) (lang : List Prog) (hl : lang.Nodup)
    (hmem : ∀ q, q ∈ lang ↔ ∃ x, costOf E q E.G.start = some x)
    (hret : ∃ fuel, (take E fuel (lang.length + 1) (Gen.new E.G) []).isSome = true) :
    ∃ fuel0 g ys, ys.Perm lang ∧ ∀ fuel, fuel0 ≤ fuel → take E fuel (lang.length + 1) (Gen.new E.G) [] = some (g, ys, true) := by
  obtain ⟨fuel0, h0⟩ := hret
  cases hr : take E fuel0 (lang.length + 1) (Gen.new E.G) [] with
  | none => rw [hr] at h0; cases h0
  | some r =>
    obtain ⟨g, ys, fin⟩ := r
    have hfin : fin = true := C02_Beap_terminates_partial E hnd hst hprod hpos lang (fun q x hx => (hmem q).mpr ⟨x, hx⟩) fuel0 g ys fin hr
    subst hfin
    exact ⟨fuel0, g, ys, C02_Beap_full E hf hnd hst hprod hpos fuel0 _ g ys hr lang hl hmem,
      fun fuel hle => C02_Beap_fuel_mono E _ _ _ _ fuel0 fuel hle hr⟩

/-- non-vacuity: on the finite grammar the run returns for fuel 100 (tiny_run), so for every larger fuel; and for any
    duplicate-free enumeration of the language the conclusion of C02_Beap_total_partial holds -/
example (fuel : Nat) (h : 100 ≤ fuel) : (take tinyE fuel 10 (Gen.new tinyG) []).map (fun r => r.2.2) = some true := by
  have hrun : (take tinyE 100 10 (Gen.new tinyG) []).map (fun r => r.2.2) = some true := by decide +kernel
  cases hp : take tinyE 100 10 (Gen.new tinyG) [] with
  | none => simp [hp] at hrun
  | some r => rw [C02_Beap_fuel_mono tinyE 10 _ _ r 100 fuel h hp]; rw [hp] at hrun; exact hrun

example (lang : List Prog) (hl : lang.Nodup) (hmem : ∀ q, q ∈ lang ↔ ∃ x, costOf tinyE q tinyG.start = some x)
    (hret : ∃ fuel, (take tinyE fuel (lang.length + 1) (Gen.new tinyG) []).isSome = true) :
    ∃ fuel0 g ys, ys.Perm lang ∧ ∀ fuel, fuel0 ≤ fuel → take tinyE fuel (lang.length + 1) (Gen.new tinyG) [] = some (g, ys, true) :=
  C02_Beap_total_partial tinyE (fun _ => rfl) tiny_rowsNodup tiny_stable tiny_productive tiny_posW lang hl hmem hret

end PS.C02Beap
