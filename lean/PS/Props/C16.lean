/-
  C16 — Equal types/programs hash equally and survive persistence across processes.
  Property theorems only.  Model, specification: PS/Model/HashEq.lean; lemmas: PS/Proofs/HashEq*.lean.

  `pyEq h a b` / `pyHash h a` are the LITERAL model of `a == b` / `hash(a)` (class-by-class `__eq__`,
  reflected `__eq__` of the subclass first, CPython's set algorithms with hash pre-test, the
  constructors' cached-hash expressions) in a process whose builtin hash functions are `h`;
  `h` ranges over ALL functions (`HashFns`), the only law being `h.Lawful`: the hash of a
  frozenset does not depend on the order of its entries.  No bound on sizes or depths.
-/
import PS.Proofs.HashEq
import PS.Proofs.HashEqAssign
namespace PS.C16
open PS

/-! ## equality is an equivalence relation, whatever the hash seed -/

/-- the literal `==` is the structural specification `eqS` (sums and restricted variables as
    sets, variables by index, …) — in particular it does not depend on the hash functions -/
theorem C16_pyEq_eq_spec (h : HashFns) (hl : h.Lawful) (a b : T) : pyEq h a b = eqS a b :=
  pyEq_eq_spec h hl a b

theorem C16_eq_seed_independent (h h' : HashFns) (hl : h.Lawful) (hl' : h'.Lawful) (a b : T) :
    pyEq h a b = pyEq h' a b := by
  rw [pyEq_eq_spec h hl, pyEq_eq_spec h' hl']

theorem C16_eq_refl (h : HashFns) (hl : h.Lawful) (a : T) : pyEq h a a = true := by
  rw [pyEq_eq_spec h hl]; exact eqS_refl a

theorem C16_eq_symm (h : HashFns) (hl : h.Lawful) (a b : T) : pyEq h a b = pyEq h b a := by
  rw [pyEq_eq_spec h hl, pyEq_eq_spec h hl]; exact eqS_comm a b

theorem C16_eq_trans (h : HashFns) (hl : h.Lawful) (a b c : T) :
    pyEq h a b = true → pyEq h b c = true → pyEq h a c = true := by
  rw [pyEq_eq_spec h hl, pyEq_eq_spec h hl, pyEq_eq_spec h hl]; exact eqS_trans a b c

/-! ## equal objects have equal hashes and are interchangeable as keys -/

theorem C16_pyHash_eq_spec (h : HashFns) (hl : h.Lawful) (a : T) : pyHash h a = hashS h a :=
  pyHash_eq_spec h hl a

/-- `a == b → hash(a) == hash(b)`, for every pair of objects and every hash seed -/
theorem C16_eq_hash (h : HashFns) (hl : h.Lawful) (a b : T) :
    pyEq h a b = true → pyHash h a = pyHash h b := by
  rw [pyEq_eq_spec h hl, pyHash_eq_spec h hl, pyHash_eq_spec h hl]
  exact eqS_hashS h hl a b

/-- looking `a` up in a set/dict that holds `b` succeeds exactly when `a == b` -/
theorem C16_memkey (h : HashFns) (hl : h.Lawful) (a b : T) : memKey h a b = pyEq h a b := by
  unfold memKey
  rw [C16_eq_symm h hl b a]
  cases he : pyEq h a b with
  | false => simp
  | true => simp [C16_eq_hash h hl a b he]

/-- equal objects are interchangeable as keys: they find, and are found by, the same entries -/
theorem C16_memkey_congr (h : HashFns) (hl : h.Lawful) (a a' b : T) (he : pyEq h a a' = true) :
    memKey h a b = memKey h a' b ∧ memKey h b a = memKey h b a' := by
  rw [C16_memkey h hl, C16_memkey h hl, C16_memkey h hl, C16_memkey h hl]
  have he' : pyEq h a' a = true := by rw [C16_eq_symm h hl]; exact he
  constructor
  · cases h1 : pyEq h a b with
    | true => exact (C16_eq_trans h hl a' a b he' h1).symm
    | false =>
      cases h2 : pyEq h a' b with
      | false => rfl
      | true => rw [C16_eq_trans h hl a a' b he h2] at h1; cases h1
  · cases h1 : pyEq h b a with
    | true => exact (C16_eq_trans h hl b a a' h1 he).symm
    | false =>
      cases h2 : pyEq h b a' with
      | false => rfl
      | true => rw [C16_eq_trans h hl b a' a h2 he'] at h1; cases h1

/-! ## persistence: the reducers rebuild the object, with the hash of the NEW process -/

/-- the constructors cache exactly `hash(object)` -/
theorem C16_cached_hash (h : HashFns) (hl : h.Lawful) (t : T) : cached (build h t) = pyHash h t :=
  cached_build h hl t

/-- pickling in a process with hash functions `h` and unpickling in a process with `h'` yields
    the object the constructors would build in the new process (fields and cached hashes) -/
theorem C16_pickle_id (h h' : HashFns) (t : T) (hw : wf t = true) :
    unpickle h' (pickle (build h t)) = build h' t := by
  rw [pickle_eq_erase, erase_build, unpickle_eq_build h' t hw]

theorem C16_pickle_eq (h h' : HashFns) (hl' : h'.Lawful) (t : T) (hw : wf t = true) :
    pyEq h' (erase (unpickle h' (pickle (build h t)))) t = true := by
  rw [C16_pickle_id h h' t hw, erase_build]; exact C16_eq_refl h' hl' t

/-- the rebuilt object carries the hash of the NEW process (nothing of `h` survives) -/
theorem C16_pickle_hash (h h' : HashFns) (hl' : h'.Lawful) (t : T) (hw : wf t = true) :
    cached (unpickle h' (pickle (build h t))) = pyHash h' t := by
  rw [C16_pickle_id h h' t hw]; exact cached_build h' hl' t

/-- hence a loaded object finds and is found by exactly the keys its original would -/
theorem C16_pickle_memkey (h h' : HashFns) (t b : T) (hw : wf t = true) :
    memKey h' (erase (unpickle h' (pickle (build h t)))) b = memKey h' t b ∧
    memKey h' b (erase (unpickle h' (pickle (build h t)))) = memKey h' b t := by
  rw [C16_pickle_id h h' t hw, erase_build]; exact ⟨rfl, rfl⟩

/-- objects coming out of the constructors satisfy the invariant the theorems above assume -/
theorem C16_constLab_wf (v : PyVal) (r : String) (hv : Bool) : (constLab v r hv).wf = true := by
  cases hv <;> cases hn : v.isNone <;> simp [constLab, Lab.wf, hn]

/-! ## `Constant.assign` / `reset` -/

/-- assigning (or resetting) a constant that is not inside another program leaves exactly the
    object a fresh constructor call would build — cached hash included -/
theorem C16_assign_partial (h : HashFns) (hv hv' : Bool) (v v' : PyVal) (r r' : String) (ks : List T) :
    assignAt h hv' v' r' [] (build h (.node (.pconst hv v r) ks)) = build h (.node (.pconst hv' v' r') ks) := by
  rw [build, construct, assignAt, build]

/- (code without the repair of C16-F7)  The full statement — for every path `p` to a constant,
     `cached (assignAt h hv v r p (build h t)) = pyHash h (erase (assignAt h hv v r p (build h t)))` —
   is FALSE for `p ≠ []` (finding C16-F7): `assign` recomputes the constant's own hash only, the
   enclosing `Function`/`Lambda` objects keep the hash cached at construction. -/

/-- a (lawful) toy instance of the hash functions, small enough for kernel evaluation -/
def hToy : HashFns where
  str _ := 1
  int n := n
  bool b := if b then 1 else 0
  tuple l := l.foldl (fun acc x => acc * 31 + x) 7
  fset l := l.foldl (· + ·) 0

theorem foldl_add (l : List Int) (a : Int) : l.foldl (· + ·) a = a + l.foldl (· + ·) 0 := by
  induction l generalizing a with
  | nil => simp
  | cons x xs ih => simp only [List.foldl_cons]; rw [ih (a + x), ih (0 + x)]; omega

theorem hToy_lawful : hToy.Lawful := by
  intro l1 l2 hp
  show l1.foldl (· + ·) 0 = l2.foldl (· + ·) 0
  induction hp with
  | nil => rfl
  | cons x _ ih => simp only [List.foldl_cons]; rw [foldl_add _ (0 + x), foldl_add _ (0 + x), ih]
  | swap x y l => simp only [List.foldl_cons]; rw [foldl_add _ (0 + y + x), foldl_add _ (0 + x + y)]; omega
  | trans _ _ ih1 ih2 => exact ih1.trans ih2

def intT : T := .node (.tprim "int") []
def fPrim : T := .node (.pprim "f") [.node .tarrow [intT, intT]]
def appConst (hv : Bool) (v : PyVal) (r : String) : T := .node (.pfun false) [fPrim, .node (.pconst hv v r) [intT]]

/-- C16-F7 on the model: `(f <int>)`, then `assign(5)` on the constant: the program now equals the
    freshly built `(f 5)` but still carries the hash computed when it was constructed -/
theorem finding_assign_stale_hash :
    let o := assignAt hToy true (.atom (.int 5)) "5" [1] (build hToy (appConst false (.atom .none) "None"))
    let fresh := appConst true (.atom (.int 5)) "5"
    pyEq hToy (erase o) fresh = true ∧ cached o ≠ pyHash hToy fresh ∧
      cached o = pyHash hToy (appConst false (.atom .none) "None") := by
  decide

/-! ### the repair proposed for C16-F7 (fixes_proposed/C16-F7.diff)

  With the repair `Program.__hash__` recomputes the hash of a `Function`/`Lambda` from its
  sub-programs whenever a constant has been assigned or reset since the hash was cached
  (`hashAfter`, PS/Model/HashEq.lean).  The statement that was false is then true, for every
  program, every history of `assign`/`reset` calls on its constants (at any depth) and every
  hash seed.  `validOps`: each call targets a constant reached through `Function`/`Lambda` objects
  only (the only way a constant occurs in a program). -/

/-- **after any history of assignments the hash of the program is the hash of a freshly built
    equal program** (repaired code): `hash(o) = hash(fresh)` for every `fresh == o` -/
theorem C16_assign (h : HashFns) (hl : h.Lawful) (t : T) (ops : List Op)
    (hv : validOps h ops (build h t) = true) :
    let o := runOps h ops (build h t)
    objHash h true o = pyHash h (erase o) ∧
    ∀ fresh : T, pyEq h (erase o) fresh = true → objHash h true o = pyHash h fresh := by
  intro o
  have hg : Good h o := good_runOps h ops _ (good_build h hl t) hv
  have h1 : objHash h true o = pyHash h (erase o) := by
    rw [pyHash_eq_spec h hl]
    simp only [objHash, if_true]
    exact hashAfter_eq h o hg
  exact ⟨h1, fun fresh he => by rw [h1]; exact C16_eq_hash h hl _ _ he⟩

/-- hence the mutated program finds, and is found by, exactly the keys an equal fresh program
    would (what `a in {b}` computes with the repaired `__hash__`) -/
theorem C16_assign_memkey (h : HashFns) (hl : h.Lawful) (t : T) (ops : List Op)
    (hv : validOps h ops (build h t) = true) (b : T) :
    let o := runOps h ops (build h t)
    (pyHash h b == objHash h true o && pyEq h b (erase o)) = pyEq h b (erase o) := by
  intro o
  have h1 := (C16_assign h hl t ops hv).1
  cases he : pyEq h b (erase o) with
  | false => simp
  | true =>
    have := C16_eq_hash h hl b (erase o) he
    simp only [this, Bool.and_true, beq_iff_eq]
    exact h1.symm

/-- the witness of the finding with the repair: `(f <int>)`, `assign(5)`: the hash is now that of
    the fresh `(f 5)`; then `reset()`: the hash of `(f <int>)` again -/
theorem fixed_assign_stale_hash :
    let ops : List Op := [⟨[1], true, .atom (.int 5), "5"⟩]
    let ops2 : List Op := ops ++ [⟨[1], false, .atom .none, "None"⟩]
    let t := appConst false (.atom .none) "None"
    validOps hToy ops2 (build hToy t) = true ∧
    objHash hToy true (runOps hToy ops (build hToy t)) = pyHash hToy (appConst true (.atom (.int 5)) "5") ∧
    objHash hToy false (runOps hToy ops (build hToy t)) ≠ pyHash hToy (appConst true (.atom (.int 5)) "5") ∧
    objHash hToy true (runOps hToy ops2 (build hToy t)) = pyHash hToy t := by
  decide

-- non-vacuity of `C16_assign`: a constant under a lambda under a function, two assignments
example :
    let t : T := .node (.pfun false) [fPrim, .node .plam [appConst false (.atom .none) "None", intT]]
    let ops : List Op := [⟨[1, 0, 1], true, .atom (.int 5), "5"⟩, ⟨[1, 0, 1], true, .atom (.int 7), "7"⟩]
    validOps hToy ops (build hToy t) = true ∧
    erase (runOps hToy ops (build hToy t))
      = .node (.pfun false) [fPrim, .node .plam [appConst true (.atom (.int 7)) "7", intT]] := by
  decide

/-! ## non-vacuity -/

def boolT : T := .node (.tprim "bool") []
-- permuted / duplicated sums are equal and hash equally (C16-F1), nested sums are not flattened
example : pyEq hToy (.node .tsum [intT, boolT]) (.node .tsum [boolT, intT, intT]) = true := by decide
example : pyHash hToy (.node .tsum [intT, boolT]) = pyHash hToy (.node .tsum [boolT, intT, intT]) :=
  C16_eq_hash hToy hToy_lawful _ _ (by decide)
example : pyEq hToy (.node .tsum [.node .tsum [intT, boolT]]) (.node .tsum [intT, boolT]) = false := by decide
-- a restricted variable never equals the plain variable of the same name, either way round
example : pyEq hToy (.node (.tpoly "a") []) (.node (.tfpoly "a") [intT]) = false ∧
    pyEq hToy (.node (.tfpoly "a") [intT]) (.node (.tpoly "a") []) = false := by decide
-- variables are identified by their index, typed or not
example : pyEq hToy (.node (.pvar 0) [intT]) (.node (.pvar 0) [.node .unknown []]) = true := by decide
-- 1 / True / 1.0 are ==, but print differently: the constants differ
example : valEq (.atom (.int 1)) (.atom (.bool true)) = true ∧
    pyEq hToy (.node (.pconst true (.atom (.int 1)) "1") [intT]) (.node (.pconst true (.atom (.bool true)) "True") [intT]) = false := by
  decide
-- a well-formed object with a constant
example : wf (appConst true (.atom (.int 5)) "5") = true := by decide

end PS.C16
