import PS.Model.HashEq
namespace PS.C16
theorem C16_placeholder : True := trivial
end PS.C16
